(** * Property C16 — [dd.dddmp.load] returns a manager whose roots denote, by
      variable name, the functions of the root entries of the text-mode DDDMP
      file, whatever numbering the file uses for its nodes and whether the
      levels of the file have gaps (varinfo modes 0, 1, 3); the manager is
      canonical.  Only statements closed by [exact]; proofs live in
      [Proofs/DddmpLoad.v].

    The meaning of the file is defined directly on its table
    [tbl : id -> (file level, else, then)] ([parse_body]'s result, in file
    order): [fden fuel tbl u a] walks [then]/[else] from reference [u] by the
    file level of each node under the assignment [a] of the FILE levels,
    complementing on negative references; the terminal is the node whose
    [else] entry is 0.
    [wf_file tbl L] ([L]: variable -> file level, as computed by
    [file_levels]): ids distinct; the terminal is id 1 and the only node with
    a 0 [else] entry; every other node has a positive [then] entry, sits at
    the file level of a support variable, and its two children exist and are
    the terminal or sit at a strictly larger file level.  Nothing is assumed
    on the order of the nodes in the file, on the numbering (beyond the
    terminal being 1, which the loader hard-wires), or on the file levels
    being contiguous. *)
From DD Require Import DddmpLoad Driver5.
Local Open Scope string_scope.

(** The rebuild loops (target levels from the deepest up; inside, the table
    in file order), for an arbitrary compaction [o2n] of the levels: from any
    manager satisfying the invariant with [n] variables, reordering off and
    no bound on the number of nodes ([max_nodes = None]), they never fail, only add nodes, and every root denotes its file
    function under the assignment of file levels induced by [o2n]. *)
Theorem C16_rebuild_correct tbl o2n n rootids s0 r s' :
  wf_tbl tbl o2n n →
  Inv s0 → last_len s0 = None → max_nodes s0 = None → nvars s0 = n →
  (∀ u, u ∈ rootids → fvalid tbl u) →
  dddmp_rebuild tbl o2n n rootids s0 = (r, s') →
  r = Ok tt ∧ Inv s' ∧ extends s0 s' ∧
  ∃ rs, roots s' = remove_dups rs ∧
    Forall2 (fun u x => valid s' x ∧
       ∀ a fuel, n < fuel → D s' x a = fden fuel tbl u (fassign o2n a)) rootids rs.
Proof. exact (fun H => dddmp_rebuild_correct tbl o2n n H rootids s0 r s'). Qed.

(** The loop invariant for ONE target level [j] ([LInv] includes: reordering
    off and [max_nodes = None], so that adding a node cannot fail): if every file node whose
    compacted level is [> j] is in [umap] with the right denotation, then
    after the pass over the table every node of compacted level [≥ j] is. *)
Theorem C16_level_step tbl o2n n j l s umap r s' :
  wf_tbl tbl o2n n →
  LInv tbl o2n n (S j) s umap → j < n → (∀ e, e ∈ l → e ∈ tbl) →
  foldM (dddmp_node_step o2n j) umap l s = (r, s') →
  ∃ umap', r = Ok umap' ∧ LInv tbl o2n n (S j) s' umap' ∧ extends s s' ∧
    (∀ z, is_Some (umap !! z) → is_Some (umap' !! z)) ∧
    (∀ e, e ∈ l → nlvl tbl o2n n e.1 = j → is_Some (umap' !! Z.pos e.1)).
Proof. exact (fun H => dddmp_level_step tbl o2n n H j l s umap r s'). Qed.

(** [load]: for a header whose three parsing steps succeed with the mode
    table [i2p], the levels [L] and the node table [tbl] (varinfo 0, 1 or 3
    only changes how [i2p] is computed), a well-formed file is loaded without
    error into a manager that satisfies the invariant (hence is canonical,
    [canonical_names]), declares exactly the file's variables with the file
    levels compacted in increasing order, and each root reference denotes,
    by variable NAME, the function of the file's root entry. *)
Theorem C16_load_correct h nodes i2p L tbl :
  header_ok h = true →
  info2permid h empty_st = (Ok i2p, empty_st) →
  file_levels h empty_st = (Ok L, empty_st) →
  parse_body h i2p nodes empty_st = (Ok tbl, empty_st) →
  NoDup (L.*1) → NoDup (L.*2) → wf_file tbl L →
  (∀ u, u ∈ dh_roots h → u ≠ 0%Z ∧ is_Some (alist_get tbl (absn u))) →
  ∃ s, dddmp_load h nodes empty_st = (Ok tt, s) ∧ Inv s ∧
    (∀ v i, vars s !! v = Some i ↔
            ∃ k, merge_sort le (L.*2) !! i = Some k ∧ (v, k) ∈ L) ∧
    ∃ rs, roots s = remove_dups rs ∧
      Forall2 (fun u x => valid s x ∧ ∀ ρ fuel, length L < fuel →
         denv s x ρ = fden fuel tbl u
           (fun k => match alist_get (cperm L) k with Some v => ρ v | None => false end))
        (dh_roots h) rs.
Proof. exact (dddmp_load_correct h nodes i2p L tbl). Qed.

(** the manager is canonical: equal functions (by name) have equal references *)
Theorem C16_canonical s u v :
  Inv s → valid s u → valid s v → (∀ ρ, denv s u ρ = denv s v ρ) → u = v.
Proof. exact (fun H => canonical_names s H u v). Qed.

(** the hypotheses on the file can be checked by computation *)
Theorem C16_wf_file_check tbl L : wf_file_b tbl L = true → wf_file tbl L.
Proof. exact (wf_file_b_sound tbl L). Qed.

(** Non-vacuity on /repo/tests/sample0.dddmp (the CUDD example
    [! ((a & (b | c)) | (!a & (b | !c)))], variables a, b, c = 0, 1, 2 at file
    levels 1, 2, 3 of 50): the hypotheses hold, the loader returns one root,
    and the root's value under every assignment of (a, b, c) is the file's. *)
Definition sample0_header : dheader :=
  DHeader 50 0 None (Some [0; 1; 2]) 3 [1; 2; 3] [1; 2; 3] (Some [1; 2; 3]) 1 [(-5)%Z] 5.
Definition sample0_nodes : list dnode :=
  [DNode 1 DTerm 0 0; DNode 2 (DInt 3) 1 (-1); DNode 3 (DInt 2) 1 2;
   DNode 4 (DInt 2) 1 (-2); DNode 5 (DInt 1) 3 4].

Example C16_sample0_hypotheses :
  let h := sample0_header in
  ∃ i2p L tbl,
    header_ok h = true ∧
    info2permid h empty_st = (Ok i2p, empty_st) ∧
    file_levels h empty_st = (Ok L, empty_st) ∧
    parse_body h i2p sample0_nodes empty_st = (Ok tbl, empty_st) ∧
    bool_decide (NoDup (L.*1)) = true ∧ bool_decide (NoDup (L.*2)) = true ∧
    wf_file_b tbl L = true ∧
    forallb (fun u => bool_decide (u ≠ 0%Z ∧ is_Some (alist_get tbl (absn u)))) (dh_roots h) = true.
Proof. do 3 eexists. by vm_compute. Qed.

Example C16_sample0_load :
  let '(w, r) := step_dddmp world2_empty 0 sample0_header sample0_nodes in
  let s := world2_get w 0 in
  r = Ok (VL [VZ (-5)]) ∧ map_to_list (vars s) = [(0, 0); (1, 1); (2, 2)] ∧
  forallb (fun '(a, b, c) =>
    bool_decide (denv s (-5) (fun v => match v with 0 => a | 1 => b | _ => c end) =
                 negb ((a && (b || c)) || (negb a && (b || negb c)))))
    [(false, false, false); (false, false, true); (false, true, false); (false, true, true);
     (true, false, false); (true, false, true); (true, true, false); (true, true, true)] = true.
Proof. by vm_compute. Qed.

(** The same function in the two other supported modes.  [.varinfo 1]: the
    node lines carry PERMIDS (here 4, 7, 9 of 50: gaps between the levels);
    [.varinfo 3]: they carry variable NAMES and the levels come from
    [.orderedvarnames] (here variable 2 on top, then 0, then 1, so variable 2
    plays [a], 0 plays [b], 1 plays [c]). *)
Definition sample1_header : dheader :=
  DHeader 50 1 None (Some [0; 1; 2]) 3 [1; 2; 3] [4; 7; 9] (Some [4; 7; 9]) 1 [(-5)%Z] 5.
Definition sample1_nodes : list dnode :=
  [DNode 1 DTerm 0 0; DNode 2 (DInt 9) 1 (-1); DNode 3 (DInt 7) 1 2;
   DNode 4 (DInt 7) 1 (-2); DNode 5 (DInt 4) 3 4].
Definition sample3_header : dheader :=
  DHeader 3 3 (Some [2; 0; 1]) (Some [0; 1; 2]) 3 [0; 1; 2] [0; 1; 2] None 1 [(-5)%Z] 5.
Definition sample3_nodes : list dnode :=
  [DNode 1 DTerm 0 0; DNode 2 (DName 1) 1 (-1); DNode 3 (DName 0) 1 2;
   DNode 4 (DName 0) 1 (-2); DNode 5 (DName 2) 3 4].

Example C16_sample1_hypotheses :
  let h := sample1_header in
  ∃ i2p L tbl,
    header_ok h = true ∧
    info2permid h empty_st = (Ok i2p, empty_st) ∧
    file_levels h empty_st = (Ok L, empty_st) ∧
    parse_body h i2p sample1_nodes empty_st = (Ok tbl, empty_st) ∧
    bool_decide (NoDup (L.*1)) = true ∧ bool_decide (NoDup (L.*2)) = true ∧
    wf_file_b tbl L = true ∧
    forallb (fun u => bool_decide (u ≠ 0%Z ∧ is_Some (alist_get tbl (absn u)))) (dh_roots h) = true.
Proof. do 3 eexists. by vm_compute. Qed.
Example C16_sample3_hypotheses :
  let h := sample3_header in
  ∃ i2p L tbl,
    header_ok h = true ∧
    info2permid h empty_st = (Ok i2p, empty_st) ∧
    file_levels h empty_st = (Ok L, empty_st) ∧
    parse_body h i2p sample3_nodes empty_st = (Ok tbl, empty_st) ∧
    bool_decide (NoDup (L.*1)) = true ∧ bool_decide (NoDup (L.*2)) = true ∧
    wf_file_b tbl L = true ∧
    forallb (fun u => bool_decide (u ≠ 0%Z ∧ is_Some (alist_get tbl (absn u)))) (dh_roots h) = true.
Proof. do 3 eexists. by vm_compute. Qed.

Example C16_sample1_load :
  let '(w, r) := step_dddmp world2_empty 0 sample1_header sample1_nodes in
  let s := world2_get w 0 in
  r = Ok (VL [VZ (-5)]) ∧ map_to_list (vars s) = [(0, 0); (1, 1); (2, 2)] ∧
  forallb (fun '(a, b, c) =>
    bool_decide (denv s (-5) (fun v => match v with 0 => a | 1 => b | _ => c end) =
                 negb ((a && (b || c)) || (negb a && (b || negb c)))))
    [(false, false, false); (false, false, true); (false, true, false); (false, true, true);
     (true, false, false); (true, false, true); (true, true, false); (true, true, true)] = true.
Proof. by vm_compute. Qed.
Example C16_sample3_load :
  let '(w, r) := step_dddmp world2_empty 0 sample3_header sample3_nodes in
  let s := world2_get w 0 in
  r = Ok (VL [VZ (-5)]) ∧ map_to_list (vars s) = [(0, 1); (1, 2); (2, 0)] ∧
  forallb (fun '(a, b, c) =>
    bool_decide (denv s (-5) (fun v => match v with 2 => a | 0 => b | _ => c end) =
                 negb ((a && (b || c)) || (negb a && (b || negb c)))))
    [(false, false, false); (false, false, true); (false, true, false); (false, true, true);
     (true, false, false); (true, false, true); (true, true, false); (true, true, true)] = true.
Proof. by vm_compute. Qed.
