(** * Property C02 — [BDD.assert_consistent], dd's own check of its tables.

    The model of the method is [Model/Consistent.v].  The check is a Boolean
    test: it never changes the manager and can only raise [AssertionError].
    It succeeds exactly on the states that satisfy the structural clauses
    [checked_clauses]; every state that satisfies [Inv] (the independent
    statement of "reduced, ordered, shared") and whose roots are nodes passes
    it.  The converse fails: the check does not look at reducedness
    ([low ≠ high]), at the terminal (node 1, level = number of variables,
    uniqueness, its count), at the upper bound of the levels, at extra keys
    of [_ref], at [_min_free], at the computed table, or at the variable
    order.  Only statements closed by [exact]; proofs live in
    [Proofs/ConsistentOk.v]. *)
From DD Require Import Consistent Sem ConsistentOk.
Local Open Scope string_scope.

(** ** The check is a Boolean function of the state *)

Theorem C02_check_is_boolean s :
  assert_consistent s = (if consistent_b s then Ok tt else Err EAssert, s).
Proof. exact (assert_consistent_run s). Qed.

(** for ANY state, either outcome: the manager is untouched *)
Theorem C02_check_read_only s r s' : assert_consistent s = (r, s') → s' = s.
Proof. exact (check_read_only s r s'). Qed.

Theorem C02_check_outcome s r s' :
  assert_consistent s = (r, s') → r = Ok tt ∨ r = Err EAssert.
Proof. exact (check_outcome s r s'). Qed.

(** ** [Inv] passes the check *)

Theorem C02_inv_passes_check s :
  Inv s → Forall (fun r => mem r s = true) (roots s) →
  assert_consistent s = (Ok tt, s).
Proof. exact (inv_passes_check s). Qed.

(** ** What a successful check establishes, exactly *)

Theorem C02_checked_clauses_unfold s :
  checked_clauses s =
  (Forall (valid s) (roots s) ∧
   (* the nodes are the values of [_pred] *)
   (∀ n, is_Some (succ s !! n) ↔ ∃ t, pred s !! t = Some n) ∧
   (* the keys of [_pred] are the triples of the nodes *)
   (∀ t, is_Some (pred s !! t) ↔ ∃ n, succ s !! n = Some t) ∧
   (* distinct nodes have distinct triples *)
   (∀ n n' t, succ s !! n = Some t → succ s !! n' = Some t → n = n') ∧
   (* a node without low child has no high child *)
   (∀ n t, succ s !! n = Some t → t_lo t = 0%Z → t_hi t = 0%Z) ∧
   (* every other node: children exist, the high edge is regular, levels
      increase, [_pred] entry, count present *)
   (∀ n t, succ s !! n = Some t → t_lo t ≠ 0%Z →
      valid s (t_lo t) ∧ (0 < t_hi t)%Z ∧ valid s (t_hi t) ∧
      t_lvl t < lvl_of s (t_lo t) ∧ t_lvl t < lvl_of s (t_hi t) ∧
      pred s !! t = Some n ∧ is_Some (refc s !! n))).
Proof. exact eq_refl. Qed.

Theorem C02_Checked_unfold s : Checked s ↔ checked_clauses s.
Proof. exact (Checked_unfold s). Qed.

Theorem C02_check_iff s s' :
  assert_consistent s = (Ok tt, s') ↔ Checked s ∧ s' = s.
Proof. exact (assert_consistent_iff s s'). Qed.

Theorem C02_check_sound s s' : assert_consistent s = (Ok tt, s') → Checked s.
Proof. exact (check_sound s s'). Qed.

Theorem C02_check_complete s : Checked s → assert_consistent s = (Ok tt, s).
Proof. exact (check_complete s). Qed.

(** the key/value clauses as the set equalities of the code *)
Theorem C02_checked_sets s : Checked s →
  dom (succ s) =@{gset positive} list_to_set (map_to_list (pred s)).*2 ∧
  dom (pred s) =@{gset triple} list_to_set (map_to_list (succ s)).*2.
Proof. exact (Checked_sets s). Qed.

(** on non-terminal triples [_pred] is the inverse of [_succ] *)
Theorem C02_checked_inverse s n t : Checked s → t_lo t ≠ 0%Z →
  succ s !! n = Some t ↔ pred s !! t = Some n.
Proof. exact (Checked_inverse s n t). Qed.

Theorem C02_Inv_Checked s : Inv s → Forall (valid s) (roots s) → Checked s.
Proof. exact (Inv_Checked s). Qed.

(** ** What the check does not see *)

(** [_min_free], the computed table and the variable order are never read *)
Theorem C02_check_blind s mf it vs l2v :
  fst (assert_consistent
         (s <| min_free := mf |> <| ite_tab := it |> <| vars := vs |> <| lvl2var := l2v |>))
  = fst (assert_consistent s).
Proof. exact (check_blind s mf it vs l2v). Qed.

Theorem C02_check_weaker_than_Inv : ∃ s, assert_consistent s = (Ok tt, s) ∧ ¬ Inv s.
Proof. exact check_weaker_than_Inv. Qed.

(** from the manager [ck_s] (v0 < v1, 2 = v0, 3 = v1):
    a redundant node [4 = (0, 3, 3)] entered in all three tables ... *)
Theorem C02_redundant_node_passes :
  ck_redundant =
    ck_s <| succ ::= <[4%positive := Triple 0 3 3]> |>
         <| pred ::= <[Triple 0 3 3 := 4%positive]> |>
         <| refc ::= <[4%positive := 0]> |>
         <| min_free := 5%positive |> ∧
  assert_consistent ck_redundant = (Ok tt, ck_redundant) ∧ ¬ Inv ck_redundant.
Proof. exact (conj eq_refl (conj ck_redundant_passes ck_redundant_not_Inv)). Qed.

(** ... the terminal moved to level 9 (two variables are declared) ... *)
Theorem C02_terminal_level_passes :
  ck_terminal =
    ck_s <| succ ::= <[1%positive := tterm 9]> |>
         <| pred := <[tterm 9 := 1%positive]> (delete (tterm 2) (pred ck_s)) |> ∧
  assert_consistent ck_terminal = (Ok tt, ck_terminal) ∧ ¬ Inv ck_terminal.
Proof. exact (conj eq_refl (conj ck_terminal_passes ck_terminal_not_Inv)). Qed.

(** ... the variable order erased, a junk entry in the computed table, the
    free pointer on a live node *)
Theorem C02_junk_passes :
  ck_junk =
    ck_s <| min_free := 2%positive |> <| ite_tab := {[ (2, 3, 3)%Z := 99%Z ]} |>
         <| vars := ∅ |> <| lvl2var := ∅ |> ∧
  fst (assert_consistent ck_junk) = Ok tt ∧ ¬ Inv ck_junk.
Proof. exact (conj eq_refl (conj ck_junk_passes ck_junk_not_Inv)). Qed.

(** the ill-ordered node created by [find_or_add(1, 2, 1)] (C17) IS caught *)
Theorem C02_ill_ordered_caught :
  ck_cx_s' = snd (find_or_add 1 2 1 (snd (var 0 (snd (declare [0; 1] init))))) ∧
  fst (assert_consistent ck_cx_s') = Err EAssert.
Proof. exact (conj eq_refl ck_cx_caught). Qed.

(** ** Example (by evaluation) *)

(** manager 0 after [BDD({v0:0, v1:1, v2:2})], the three variables (2, 3, 4),
    [v0 & v1] (5), [(v0 & v1) | ~v2] (7), [incref(7)], roots [7, -4];
    then a dangling root, a deleted count and a deleted [_pred] entry *)
Definition hist_c02 : list op :=
  [ONew [(0, 0); (1, 1); (2, 2)]; OVar 0; OVar 1; OVar 2;
   OApply "and" 2 (Some 3%Z) None; OApply "or" 5 (Some (-4)%Z) None;
   OIncref 7; OSetRoots [7; -4]%Z].
Definition w_c02 : world := fold_left (fun w o => fst (step w 0 o)) hist_c02 world_empty.
Definition s_c02 : st := world_get w_c02 0.

Example C02_consistent_example :
  size (succ s_c02) = 7 ∧
  assert_consistent s_c02 = (Ok tt, s_c02) ∧
  fst (assert_consistent (s_c02 <| roots := [77%Z] |>)) = Err EAssert ∧
  fst (assert_consistent (s_c02 <| refc ::= delete 5%positive |>)) = Err EAssert ∧
  fst (assert_consistent (s_c02 <| pred ::= delete (Triple 0 (-1) 3) |>)) = Err EAssert.
Proof. by vm_compute. Qed.

Print Assumptions C02_check_is_boolean.
Print Assumptions C02_check_read_only.
Print Assumptions C02_check_outcome.
Print Assumptions C02_inv_passes_check.
Print Assumptions C02_check_iff.
Print Assumptions C02_checked_sets.
Print Assumptions C02_checked_inverse.
Print Assumptions C02_check_blind.
Print Assumptions C02_check_weaker_than_Inv.
Print Assumptions C02_redundant_node_passes.
Print Assumptions C02_terminal_level_passes.
Print Assumptions C02_junk_passes.
Print Assumptions C02_ill_ordered_caught.
Print Assumptions C02_consistent_example.
