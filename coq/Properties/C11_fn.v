(** * Property C11 (Function interface) — [dd._copy.copy_bdd] /
      [copy_bdds_from] between two [dd.autoref] managers
      ([Model/CopyFn.v]).  Only statements closed by [exact]; the proofs live
      in [Proofs/CopyFnOk.v].

    Every source node is rebuilt in the target with [ite(var, high, low)], so
    the two variable orders are unrelated.  Vocabulary: [same_fun src r u u']
    ([u'] is a reference of [r] denoting, as a function of the variable NAMES,
    what [u] denotes in [src]); [ledger_add L us] (the ledger [L] of external
    references plus one per listed reference). *)
From DD Require Import CopyFnOk.
Local Open Scope string_scope.

(** ** 1. Success.  ANY consistent target [b] with dynamic reordering
    disabled, no bound on the number of nodes ([max_nodes = None], the
    default) and exact counts in which the variables of the source are
    declared, whatever the two orders and whatever the target already holds.

    The call does not fail and returns one handle per root.  [us] lists the
    nodes of the NEW handles, numbered consecutively from [next_hid b]; every
    new handle is returned; each returned handle denotes the function of its
    root; two occurrences of the same positive non-terminal root get the SAME
    handle (the memo's object), complemented roots and constants get fresh
    ones.  No other handle changes; the target only grows and every old
    reference keeps its meaning; the counts end as: old ledger + one
    reference per new (= per distinct returned) handle: every other reference
    of the memo and of the locals has been released. *)
Theorem C11_copy_bdds_from_correct src roots b L :
  Inv src → Forall (valid src) roots →
  Inv (mgr b) → last_len (mgr b) = None → max_nodes (mgr b) = None → Counts (mgr b) L →
  (∀ v, is_Some (vars src !! v) → is_Some (vars (mgr b) !! v)) →
  ∃ hs us b',
    copy_bdds_from src roots b = (Ok hs, b') ∧ length hs = length roots ∧
    (* the target *)
    Inv (mgr b') ∧ extends (mgr b) (mgr b') ∧ frame (mgr b) (mgr b') ∧
    (∀ u, valid (mgr b) u →
       valid (mgr b') u ∧ ∀ ρ, denv (mgr b') u ρ = denv (mgr b) u ρ) ∧
    (* the handles: [us] lists the nodes of the new ones *)
    next_hid b' = next_hid b + length us ∧
    (∀ h, h < next_hid b ∨ next_hid b' ≤ h → handles b' !! h = handles b !! h) ∧
    (∀ j u', us !! j = Some u' → handles b' !! (next_hid b + j) = Some u') ∧
    (∀ j, j < length us → next_hid b + j ∈ hs) ∧
    Forall2 (fun u h => ∃ u', next_hid b ≤ h < next_hid b' ∧
               handles b' !! h = Some u' ∧ same_fun src (mgr b') u u') roots hs ∧
    (∀ i j u, roots !! i = Some u → roots !! j = Some u → (1 < u)%Z → hs !! i = hs !! j) ∧
    (* the counts: one reference per new handle *)
    Counts (mgr b') (ledger_add L us).
Proof. exact (copy_bdds_from_correct src roots b L). Qed.
Print Assumptions C11_copy_bdds_from_correct.

(** ** 2. Failure (a root that is not a reference of the source, a variable
    of the source that the target does not declare: [var] raises
    [ValueError]; a target with a bound [max_nodes] whose table is full: [var]
    or [ite] raises [RuntimeError]): no handle is created, nothing is leaked (the objects built
    so far and the memo are released), the target only grows and every old
    reference keeps its meaning.  No hypothesis on the roots. *)
Theorem C11_copy_bdds_from_failure src roots b L e b' :
  Inv src → Inv (mgr b) → last_len (mgr b) = None → Counts (mgr b) L →
  copy_bdds_from src roots b = (Err e, b') →
  handles b' = handles b ∧ next_hid b' = next_hid b ∧
  Inv (mgr b') ∧ extends (mgr b) (mgr b') ∧ frame (mgr b) (mgr b') ∧
  Counts (mgr b') L ∧
  (∀ u, valid (mgr b) u →
     valid (mgr b') u ∧ ∀ ρ, denv (mgr b') u ρ = denv (mgr b) u ρ).
Proof. exact (copy_bdds_from_failure src roots b L e b'). Qed.
Print Assumptions C11_copy_bdds_from_failure.

(** both outcomes at once, on explicit states (the call always returns) *)
Theorem C11_copy_bdds_from_any src roots r0 H n L :
  Inv src → Inv r0 → last_len r0 = None → Counts r0 L →
  ∃ res r' H' n',
    copy_bdds_from src roots (ASt r0 H n) = (res, ASt r' H' n') ∧
    Inv r' ∧ grows r0 r' ∧
    match res with
    | Err e => H' = H ∧ n' = n ∧ Counts r' L
    | Ok hs =>
        ∃ us, H' = hins H n us ∧ n' = n + length us ∧ Counts r' (ledger_add L us) ∧
          Forall2 (fun u h => ∃ j u', h = n + j ∧ us !! j = Some u' ∧ same_fun src r' u u')
            roots hs ∧
          (∀ i j u, roots !! i = Some u → roots !! j = Some u → (1 < u)%Z →
             hs !! i = hs !! j) ∧
          (∀ j, j < length us → n + j ∈ hs)
    end ∧
    (decl src r0 → max_nodes r0 = None → Forall (valid src) roots → ∃ hs, res = Ok hs).
Proof. exact (copy_bdds_from_spec src roots r0 H n L). Qed.
Print Assumptions C11_copy_bdds_from_any.

(** ** 3. Non-vacuity.  Source manager 0: levels v1:0, v0:1, v2:2; handle 3
    is f = v0 xor v1 (a complemented reference), handle 4 is g = v1 /\ v2 (a
    positive reference), handle 5 is ~g, handle 6 is TRUE.  Target 1: four
    variables in another order (v2, v3, v0, v1), one live handle (2, on
    v3 \/ v0) and two dropped ones.  Target 2 lacks v1. *)
Definition cw0 : aworld :=
  fold_left (fun w o => fst (astep w 0 o))
    [ANew [(0, 1); (1, 0); (2, 2)]; AVar 0; AVar 1; AVar 2;
     AApply "xor" 0 (Some 1) None; AApply "and" 1 (Some 2) None;
     AFApply "not" 4 None; ATrue]
    aworld_empty.
Definition cw1 : aworld :=
  fold_left (fun w o => fst (astep w 1 o))
    [ANew [(2, 0); (3, 1); (0, 2); (1, 3)]; AVar 3; AVar 0;
     AApply "or" 0 (Some 1) None; ADrop 0; ADrop 1]
    cw0.
Definition cw2 : aworld :=
  fold_left (fun w o => fst (astep w 2 o))
    [ANew [(2, 0); (0, 1)]; AVar 2; AVar 0; AApply "or" 0 (Some 1) None]
    cw0.

Definition cnames : list (nat → bool) :=
  (fun '(x, y, z) => fun v : nat =>
     match v with 0 => x | 1 => y | 2 => z | _ => false end) <$>
  [(false, false, false); (false, false, true); (false, true, false);
   (false, true, true); (true, false, false); (true, false, true);
   (true, true, false); (true, true, true)].
Definition chn (a : ast) (h : nat) : Z := default 0%Z (handles a !! h).

Example C11_fn_nonvacuous :
  let a0 := aworld_get cw0 0 in
  let s := mgr a0 in
  (chn a0 <$> [3; 4; 5; 6]) = [-5; 6; -6; 1]%Z ∧
  (* roots [g; ~g; f; g; TRUE]: the two occurrences of g share handle 3 *)
  (let b := aworld_get cw1 1 in
   let b' := aworld_get (fst (astep_copy_fn cw1 1 0 [4; 5; 3; 4; 6])) 1 in
   snd (astep_copy_fn cw1 1 0 [4; 5; 3; 4; 6]) = Ok (VL [VN 3; VN 4; VN 5; VN 3; VN 6]) ∧
   map_to_list (handles b) = [(2, 4%Z)] ∧ next_hid b = 3 ∧ next_hid b' = 7 ∧
   (chn b' <$> [2; 3; 4; 5; 6]) = [4; 7; -7; -8; 1]%Z ∧
   (denv (mgr b') (chn b' 3) <$> cnames) = (denv s 6 <$> cnames) ∧
   (denv (mgr b') (chn b' 4) <$> cnames) = (denv s (-6) <$> cnames) ∧
   (denv (mgr b') (chn b' 5) <$> cnames) = (denv s (-5) <$> cnames) ∧
   (denv s 6 <$> cnames) = [false; false; false; true; false; false; false; true] ∧
   (denv s (-5) <$> cnames) = [false; false; true; true; true; true; false; false] ∧
   (* counts: node 7 is held by handles 3 and 4 (count 2), node 8 by handle 5
      (count 1); node 5, which only the memo referenced, ends with count 0 *)
   map_to_list (refc (mgr b))
     = [(1%positive, 6); (2%positive, 0); (4%positive, 1); (3%positive, 1)] ∧
   map_to_list (refc (mgr b'))
     = [(1%positive, 12); (2%positive, 0); (4%positive, 1); (8%positive, 1);
        (6%positive, 3); (3%positive, 1); (5%positive, 0); (7%positive, 2)]) ∧
  (* target 2 does not declare v1: ValueError, counts and handles unchanged *)
  (let b := aworld_get cw2 2 in
   let b' := aworld_get (fst (astep_copy_fn cw2 2 0 [4; 5; 3; 4; 6])) 2 in
   snd (astep_copy_fn cw2 2 0 [4; 5; 3; 4; 6]) = Err EValue ∧
   map_to_list (handles b') = map_to_list (handles b) ∧ next_hid b' = next_hid b ∧
   map_to_list (refc (mgr b')) = map_to_list (refc (mgr b)) ∧
   map_to_list (refc (mgr b))
     = [(1%positive, 6); (2%positive, 1); (4%positive, 1); (3%positive, 2)]).
Proof. by vm_compute. Qed.

(** A bounded target.  Target 1 holds 4 nodes (next free id 5); with the bound
    [max_nodes = 5] the first new node is refused: [RuntimeError], counts and
    handles unchanged (the failure theorem makes no assumption on
    [max_nodes]; the success theorem needs [max_nodes = None]). *)
Example C11_fn_max_nodes :
  let b := aworld_get cw1 1 in
  let w := <[1 := b <| mgr := mgr b <| max_nodes := Some 5%positive |> |>]> cw1 in
  let b' := aworld_get (fst (astep_copy_fn w 1 0 [4; 5; 3; 4; 6])) 1 in
  snd (astep_copy_fn w 1 0 [4; 5; 3; 4; 6]) = Err ERuntime ∧
  map_to_list (handles b') = map_to_list (handles b) ∧ next_hid b' = next_hid b ∧
  map_to_list (refc (mgr b')) = map_to_list (refc (mgr b)).
Proof. by vm_compute. Qed.
