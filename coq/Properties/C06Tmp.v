From DD Require Import GC.
Local Open Scope string_scope.
Definition w := fold_left (fun w o => fst (step w 0 o))
             [ONew [(0, 0); (1, 1); (2, 2)]; OVar 0; OVar 1; OVar 2;
              OApply "and" 2 (Some 3%Z) None; OApply "\/" 5 (Some 4%Z) None;
              OIncref 7]
             world_empty.
Definition s := world_get w 0.
Definition L := fun n : positive =>
             if decide (n = 1%positive ∨ n = 7%positive) then 1 else 0.
Definition exact (s : st) :=
    forallb (fun '(n, c) => bool_decide (c = indeg (succ s) n + L n))
            (map_to_list (refc s)).
Definition s' := world_get (fst (step w 0 (OGc None))) 0.
Eval vm_compute in bool_decide (dom (succ s) = list_to_set [1; 2; 3; 4; 5; 6; 7]%positive).
Eval vm_compute in exact s.
Eval vm_compute in exact s'.
Eval vm_compute in bool_decide (dom (succ s') = list_to_set [1; 4; 6; 7]%positive).
Eval vm_compute in bool_decide (ite_tab s' = ∅).
Eval vm_compute in (map_to_list (refc s)).
Eval vm_compute in (indeg (succ s) 1).
