(** * Property C15d — a failing call leaves an MDD manager intact
      ([dd.mdd.MDD]); the MDD analogue of C17.

    "Whenever a call fails with an exception (unknown or zero successor at
    any position, wrong number of successors, level out of range, empty
    list, unknown operand, unknown operator, wrong operator arity, unknown
    node to [incref] / [decref]), every live reference still denotes the
    same function, the manager is still consistent with exact reference
    counts, and later operations behave normally."

    In the model an exception is an [Err e] outcome whose state is the state
    reached at the raise point.  The theorems are TOTAL: no precondition on
    the arguments (any integers, any lists, any strings), both outcomes.
    [MInv s]: the invariant of C15; [MCounts s L]: every counter equals the
    number of stored edges to the node plus the caller's ledger [L] of
    external references; [MD s u I]: value of the reference [u] under the
    integer assignment [I]; [mextends s s']: every node of [s] is a node of
    [s'] with the same tuple, same variables; [mframe s s']: the allocation
    oracle tape is only consumed.

    Outcome of the failure analysis, per operation:
    - every exception other than [EOracle] leaves the state EQUAL to the
      state of the call ([s' = s]);
    - [EOracle] (the harness tape proposes an id that is not free) only
      arises with a non-empty tape, possibly after the state has grown
      ([mextends s s'], e.g. an [ite] that fails deep inside after creating
      nodes); it never arises with Python's own pop order (empty tape).

    The single unchecked obligation on arguments is the level guard of
    [find_or_add] (as for [dd.bdd], C17): the method trusts the caller with
    the level.  Only statements closed by [exact]; proofs live in
    [Proofs/MddTotal.v]. *)
From DD Require Import MddTotal.
Local Open Scope string_scope.

(** ** [find_or_add(i, *nodes)] *)

(** the checks made by the method: level in range, as many successors as the
    variable at that level has values, at least one, all of them nodes *)
Theorem C15d_accepted_unfold s i nodes :
  mfa_accepted s i nodes ↔
  i < mnvars s ∧ mlen_at s i (length nodes) ∧ nodes ≠ [] ∧ ∀ x, x ∈ nodes → mvalid s x.
Proof. exact (conj (fun H => H) (fun H => H)). Qed.

(** the obligation of the caller, NOT checked by the method: when the call
    is accepted and the successors are not all equal (a node may be
    created), the level is above the levels of the successors *)
Theorem C15d_guard_unfold s i nodes :
  mfa_guard s i nodes ↔
  (mfa_accepted s i nodes → ¬ all_eq nodes → ∀ x, x ∈ nodes → i < mlvl_of s x).
Proof. exact (conj (fun H => H) (fun H => H)). Qed.

(** ANY level, ANY list of successors, either outcome.  Under the guard: the
    invariant and the counters (same ledger) are kept, the manager only
    grows, every reference keeps validity and meaning; a call that is not
    accepted is a [ValueError] with the state unchanged; an accepted call
    returns a reference denoting "successor number [I i]"; the only other
    error is the oracle. *)
Theorem C15d_find_or_add_total s L i nodes r s' :
  MInv s → MCounts s L → mfa_guard s i nodes →
  m_find_or_add i nodes s = (r, s') →
  MInv s' ∧ MCounts s' L ∧ mextends s s' ∧ mframe s s' ∧
  (∀ x, mvalid s x → mvalid s' x ∧ ∀ I, MD s' x I = MD s x I) ∧
  (¬ mfa_accepted s i nodes → r = Err EValue ∧ s' = s) ∧
  (mfa_accepted s i nodes → all_eq nodes → r = Ok (hd 0%Z nodes) ∧ s' = s) ∧
  (mfa_accepted s i nodes → ∀ u, r = Ok u →
     mvalid s' u ∧ ∀ I, MD s' u I = MD s (msel nodes (I i)) I) ∧
  (∀ e, r = Err e → e ≠ EOracle → s' = s) ∧
  (r = Err EOracle → mtape s ≠ []).
Proof. exact (m_find_or_add_total s L i nodes r s'). Qed.

(** level out of range, wrong arity, empty list, unknown / zero successor at
    any position: [ValueError] before anything is touched (no guard needed) *)
Theorem C15d_find_or_add_rejected s i nodes :
  MInv s →
  ¬ (i < mnvars s ∧ mlen_at s i (length nodes) ∧ nodes ≠ [] ∧ ∀ x, x ∈ nodes → mvalid s x) →
  m_find_or_add i nodes s = (Err EValue, s).
Proof. exact (m_find_or_add_rejected s i nodes). Qed.

(** without the guard the call is accepted, succeeds and breaks the
    invariant: in the manager [mcx_s] (x0 ∈ {0,1,2} at level 0, x1 ∈ {0,1} at
    level 1, node 2 = (0, [1; -1; 1])) the call [find_or_add(1, 2, 1)]
    returns the new node 3 at level 1 whose first successor is at level 0 *)
Theorem C15d_find_or_add_unguarded_refuted :
  mfa_accepted mcx_s 1 [2; 1]%Z ∧
  fst (m_find_or_add 1 [2; 1]%Z mcx_s) = Ok 3%Z ∧ ¬ MInv mcx_s'.
Proof. exact m_find_or_add_unguarded_refuted. Qed.
Theorem C15d_find_or_add_unguarded_refuted_hyp :
  MInv mcx_s ∧ MCounts mcx_s (fun _ => 0).
Proof. exact mcx_s_good. Qed.

(** ** [ite(g, u, v)], any integers.
    An unknown node is a [KeyError], nothing is touched ([ite(1, u, v)] and
    [ite(-1, u, v)] return [u] / [v] without looking at them). *)
Theorem C15d_ite_total s L g u v r s' :
  MInv s → MCounts s L → m_ite_ g u v s = (r, s') →
  MInv s' ∧ MCounts s' L ∧ mextends s s' ∧ mframe s s' ∧
  (∀ x, mvalid s x → mvalid s' x ∧ ∀ I, MD s' x I = MD s x I) ∧
  (mvalid s g → mvalid s u → mvalid s v → ∀ w, r = Ok w →
     mvalid s' w ∧ ∀ I, MD s' w I = if MD s g I then MD s u I else MD s v I) ∧
  (¬ (mvalid s g ∧ mvalid s u ∧ mvalid s v) →
     s' = s ∧ (g ≠ 1%Z → g ≠ (-1)%Z → r = Err EKey)) ∧
  (∀ e, r = Err e → e ≠ EOracle → e = EKey ∧ s' = s) ∧
  (r = Err EOracle → mtape s ≠ []).
Proof. exact (m_ite__total s L g u v r s'). Qed.

(** ** [apply(op, u, v, w)], any operator string, any arity, any operands *)
Theorem C15d_apply_total s L op u v w r s' :
  MInv s → MCounts s L → mdd_apply_with mdd_apply_table op u v w s = (r, s') →
  MInv s' ∧ MCounts s' L ∧ mextends s s' ∧ mframe s s' ∧
  (∀ x, mvalid s x → mvalid s' x ∧ ∀ I, MD s' x I = MD s x I) ∧
  (∀ e, r = Err e → e ≠ EOracle → s' = s) ∧
  (r = Err EOracle → mtape s ≠ []).
Proof. exact (mdd_apply_total mdd_apply_table s L op u v w r s'). Qed.

(** unknown operator, wrong arity, unknown operand: [ValueError] before
    anything is touched *)
Theorem C15d_apply_rejected s op u v w :
  arity_ok op v w = false ∨ ¬ mvalid s u ∨ ¬ movalid s v ∨ ¬ movalid s w ∨
  mdd_find mdd_apply_table op = None →
  mdd_apply_with mdd_apply_table op u v w s = (Err EValue, s).
Proof. exact (mdd_apply_rejected mdd_apply_table s op u v w). Qed.

(** ** [incref(u)] / [decref(u)] / [ref(u)], any integer: an unknown node
    (or 0) is a [KeyError], nothing changes; the ledger moves only when the
    call succeeds *)
Theorem C15d_incref_total s L u r s' :
  MInv s → MCounts s L → m_incref u s = (r, s') →
  MInv s' ∧ mextends s s' ∧ mframe s s' ∧
  (∀ x, mvalid s x → mvalid s' x ∧ ∀ I, MD s' x I = MD s x I) ∧
  (mvalid s u → r = Ok tt ∧ MCounts s' (ledger_inc L (absn u))) ∧
  (¬ mvalid s u → r = Err EKey ∧ s' = s).
Proof. exact (m_incref_total s L u r s'). Qed.

(** [decref] of a node the caller holds ([0 < L]): the ledger entry drops.
    Without an external reference the call still succeeds: when the counter
    is already zero it floors and NOTHING changes; otherwise the counter
    falls below the number of stored edges and no ledger explains the
    counters any more — hence "only of references the caller holds" is the
    caller's obligation in histories (as C06 / C08 / C17 for [dd.bdd]). *)
Theorem C15d_decref_total s L u r s' :
  MInv s → MCounts s L → m_decref u s = (r, s') →
  MInv s' ∧ mextends s s' ∧ mframe s s' ∧
  (∀ x, mvalid s x → mvalid s' x ∧ ∀ I, MD s' x I = MD s x I) ∧
  (mvalid s u → r = Ok tt ∧
     (0 < L (absn u) → MCounts s' (ledger_dec L (absn u))) ∧
     (L (absn u) = 0 → m_indeg (msucc s) (absn u) = 0 → s' = s) ∧
     (L (absn u) = 0 → 0 < m_indeg (msucc s) (absn u) → ∀ L', ¬ MCounts s' L')) ∧
  (¬ mvalid s u → r = Err EKey ∧ s' = s).
Proof. exact (m_decref_total s L u r s'). Qed.

Theorem C15d_ref_total s u r s' :
  MInv s → m_ref u s = (r, s') →
  s' = s ∧ (mvalid s u → ∃ c, r = Ok c) ∧ (¬ mvalid s u → r = Err EKey).
Proof. exact (m_ref_total s u r s'). Qed.

(** ** [collect_garbage()] (the method has no [roots] argument): never
    fails; nodes only disappear; every reference that is held (the terminal,
    or a positive ledger entry) or reachable from a held one keeps validity
    and meaning; the tape is untouched *)
Theorem C15d_held_unfold L u :
  mheld L u ↔ absn u = 1%positive ∨ 0 < L (absn u).
Proof. exact (conj (fun H => H) (fun H => H)). Qed.

Theorem C15d_gc_total s L r s' :
  MInv s → MCounts s L → m_collect_garbage s = (r, s') →
  r = Ok tt ∧ MInv s' ∧ MCounts s' L ∧ mite s' = ∅ ∧ mvars s' = mvars s ∧
  mtape s' = mtape s ∧ msucc s' ⊆ msucc s ∧
  (∀ n, n ∈ dom (msucc s') ↔ n = 1%positive ∨ mreach (msucc s) (fun k => 0 < L k) n) ∧
  (∀ u, mvalid s u → mheld L u ∨ mreach (msucc s) (fun k => 0 < L k) (absn u) →
        mvalid s' u ∧ ∀ I, MD s' u I = MD s u I).
Proof. exact (m_gc_total s L r s'). Qed.

(** ** One call over the alphabet of the correspondence check
    ([Driver5.mop]: new / find_or_add / ite / apply / incref / decref / ref /
    collect_garbage / set the oracle tape) *)

(** [mexec s o] is what the step function [Driver5.mstep] of the
    differential test does to the manager it is applied to (the tape is
    reset after every call but [MTape]) *)
Theorem C15d_mexec_unfold s o :
  mexec s o =
  (fst (run_mop o s),
   match o with
   | MTape _ => snd (run_mop o s)
   | _ => snd (run_mop o s) <| mtape := [] |>
   end).
Proof. exact eq_refl. Qed.
Theorem C15d_mstep_is_mexec w m o :
  mstep w m o = (<[m := snd (mexec (mworld_get w m) o)]> w, fst (mexec (mworld_get w m) o)).
Proof. exact (mstep_mexec w m o). Qed.

(** the caller's ledger: [incref] / [decref] move an entry when they
    succeed; a new manager starts with no external reference *)
Theorem C15d_ledger_unfold L o r :
  mledger L o r =
  match o, r with
  | MNew _, _ => fun _ => 0
  | MIncref u, Ok _ => ledger_inc L (absn u)
  | MDecref u, Ok _ => ledger_dec L (absn u)
  | _, _ => L
  end.
Proof. exact eq_refl. Qed.

(** the obligations of the caller that the code does not check *)
Theorem C15d_caller_ok_unfold s L o :
  mcaller_ok s L o =
  match o with
  | MNew dvars => dvars_ok dvars
  | MFindOrAdd i nodes => mfa_guard s i nodes
  | MDecref u => mvalid s u → 0 < L (absn u)
  | _ => True
  end.
Proof. exact eq_refl. Qed.

(** any call, any arguments, either outcome: the state reached is consistent
    with exact counters for the updated ledger; unless the manager is
    re-created, every reference keeps validity and meaning (across a
    collection: every HELD reference); except across a collection the manager
    only grows; the oracle error only with a non-empty tape; any other
    exception leaves the manager as it was *)
Theorem C15d_call_total s L o :
  MInv s → MCounts s L → mcaller_ok s L o →
  let r := fst (mexec s o) in
  let s' := snd (mexec s o) in
  MInv s' ∧ MCounts s' (mledger L o r) ∧
  (is_mnew o = false → ∀ u, mvalid s u → (o = MGc → mheld L u) →
     mvalid s' u ∧ ∀ I, MD s' u I = MD s u I) ∧
  (is_mnew o = false → o ≠ MGc → mextends s s') ∧
  (r = Err EOracle → mtape s ≠ []) ∧
  (∀ e, r = Err e → e ≠ EOracle → s' = s <| mtape := [] |>).
Proof. exact (mexec_good s L o). Qed.

(** ** Histories: ANY list of calls with ANY arguments *)

(** the state and the ledger after a history *)
Theorem C15d_run_unfold s L o ops :
  mrun s L [] = (s, L) ∧
  mrun s L (o :: ops) = mrun (snd (mexec s o)) (mledger L o (fst (mexec s o))) ops.
Proof. exact (conj eq_refl eq_refl). Qed.

(** the caller meets its obligations at every call *)
Theorem C15d_hist_ok_unfold s L o ops :
  (mhist_ok s L [] ↔ True) ∧
  (mhist_ok s L (o :: ops) ↔
   mcaller_ok s L o ∧ mhist_ok (snd (mexec s o)) (mledger L o (fst (mexec s o))) ops).
Proof. exact (conj (conj (fun H => H) (fun H => H)) (conj (fun H => H) (fun H => H))). Qed.

(** every state reached along the history (after ANY prefix) satisfies the
    invariant with exact counters for the ledger obtained by folding the
    ledger updates, and the rest of the history meets its hypotheses there:
    "later operations behave normally" (every theorem of C15 applies) *)
Theorem C15d_history_good pre post s L :
  MInv s → MCounts s L → mhist_ok s L (pre ++ post) →
  MInv (fst (mrun s L pre)) ∧ MCounts (fst (mrun s L pre)) (snd (mrun s L pre)) ∧
  mhist_ok (fst (mrun s L pre)) (snd (mrun s L pre)) post.
Proof. exact (mhistory_good pre post s L). Qed.

(** the outcomes: (state before, call, outcome, state after) *)
Theorem C15d_outs_unfold s L o ops :
  mouts s L [] = [] ∧
  mouts s L (o :: ops) =
    (s, o, fst (mexec s o), snd (mexec s o)) ::
    mouts (snd (mexec s o)) (mledger L o (fst (mexec s o))) ops.
Proof. exact (conj eq_refl eq_refl). Qed.

Theorem C15d_out_ok_unfold s o r s' :
  mout_ok (s, o, r, s') ↔
  (r = Err EOracle → mtape s ≠ []) ∧
  (∀ e, r = Err e → e ≠ EOracle → s' = s <| mtape := [] |>).
Proof. exact (conj (fun H => H) (fun H => H)). Qed.

(** every failing call of the history: not the oracle error unless the
    harness set a tape; any other exception leaves the manager as it was *)
Theorem C15d_history_outs ops s L :
  MInv s → MCounts s L → mhist_ok s L ops → Forall mout_ok (mouts s L ops).
Proof. exact (mhistory_outs ops s L). Qed.

(** without the harness operation [MTape] (i.e. Python's own pop order) the
    oracle error never arises *)
Theorem C15d_history_no_oracle ops s L :
  MInv s → MCounts s L → mhist_ok s L ops → mtape s = [] →
  Forall (fun o => is_mtape o = false) ops →
  Forall (fun x : mst * mop * res value * mst => x.1.2 ≠ Err EOracle) (mouts s L ops).
Proof. exact (mhistory_no_oracle ops s L). Qed.

(** a reference keeps validity and meaning along a history as long as the
    manager is not re-created and the reference is held (terminal, or
    positive ledger entry) whenever the collector runs, i.e. until it is
    released *)
Theorem C15d_held_along_unfold s L o ops u :
  (mheld_along s L [] u ↔ True) ∧
  (mheld_along s L (o :: ops) u ↔
   is_mnew o = false ∧ (o = MGc → mheld L u) ∧
   mheld_along (snd (mexec s o)) (mledger L o (fst (mexec s o))) ops u).
Proof. exact (conj (conj (fun H => H) (fun H => H)) (conj (fun H => H) (fun H => H))). Qed.

Theorem C15d_history_keeps ops s L u :
  MInv s → MCounts s L → mhist_ok s L ops → mheld_along s L ops u → mvalid s u →
  mvalid (fst (mrun s L ops)) u ∧ ∀ I, MD (fst (mrun s L ops)) u I = MD s u I.
Proof. exact (mhistory_keeps ops s L u). Qed.

(** from [MDD(dvars)], empty tape, empty ledger: after any prefix [pre] the
    manager is consistent with exact counters; every failing call left it
    untouched (or was the oracle); and a reference valid after [pre] and held
    along [post] keeps its meaning to the end *)
Theorem C15d_history_from_init dvars pre post :
  dvars_ok dvars → mhist_ok (mdd_init dvars) (fun _ => 0) (pre ++ post) →
  let s1 := fst (mrun (mdd_init dvars) (fun _ => 0) pre) in
  let L1 := snd (mrun (mdd_init dvars) (fun _ => 0) pre) in
  MInv s1 ∧ MCounts s1 L1 ∧
  Forall mout_ok (mouts (mdd_init dvars) (fun _ => 0) (pre ++ post)) ∧
  ∀ u, mvalid s1 u → mheld_along s1 L1 post u →
       mvalid (fst (mrun s1 L1 post)) u ∧ ∀ I, MD (fst (mrun s1 L1 post)) u I = MD s1 u I.
Proof. exact (mhistory_from_init dvars pre post). Qed.

(** the hypotheses can be checked by computation (sound checkers) *)
Theorem C15d_dvars_check dvars : dvars_ok_b dvars = true → dvars_ok dvars.
Proof. exact (dvars_ok_b_sound dvars). Qed.
Theorem C15d_hist_check ops s L : mhist_ok_b s L ops = true → mhist_ok s L ops.
Proof. exact (mhist_ok_b_sound ops s L). Qed.

(** ** Non-vacuity (by evaluation) *)

(** a manager with x0 ∈ {0,1,2} (level 0) and x1 ∈ {0,1} (level 1) and a
    history mixing successful and REJECTED calls *)
Definition C15d_dvars : list (nat * (nat * nat)) := [(0, (0, 3)); (1, (1, 2))].
Definition C15d_ops : list mop :=
  [MFindOrAdd 1 [(-1)%Z; 1%Z];            (* -2 *)
   MFindOrAdd 0 [1%Z; 77%Z; 2%Z];         (* unknown successor in 2nd position *)
   MFindOrAdd 0 [1%Z; 2%Z];               (* wrong arity *)
   MFindOrAdd 7 [1%Z; 2%Z];               (* level out of range *)
   MFindOrAdd 1 [];                       (* empty list *)
   MFindOrAdd 0 [1%Z; 0%Z; 2%Z];          (* zero successor *)
   MFindOrAdd 0 [1%Z; (-2)%Z; 2%Z];       (* 3 *)
   MIte 3 88 1;                           (* unknown operand of ite *)
   MIncref 99;                            (* incref of an unknown node *)
   MDecref 0;                             (* decref of 0 *)
   MApply "and" (-2) (Some 3%Z) None;     (* -4 *)
   MApply "nand" 2 (Some 3%Z) None;       (* unknown operator *)
   MApply "and" 2 None None;              (* wrong operator arity *)
   MApply "and" 2 (Some 66%Z) None;       (* unknown operand *)
   MApply "\E" 2 (Some 3%Z) None;         (* quantifier: NotImplementedError *)
   MIncref 4;
   MIte 3 (-2) 2;                         (* -5 *)
   MGc;                                   (* frees 3 and 5; 4 is held *)
   MRef 5;                                (* a freed node is unknown *)
   MTape [9%positive];                    (* the harness proposes an id that is not free *)
   MFindOrAdd 0 [1%Z; (-1)%Z; (-2)%Z];    (* ... the oracle error *)
   MFindOrAdd 0 [1%Z; (-1)%Z; (-2)%Z];    (* 3: reuses a freed id *)
   MDecref 4;                             (* released *)
   MGc].

Definition C15d_outs : list (mst * mop * res value * mst) :=
  mouts (mdd_init C15d_dvars) (fun _ => 0) C15d_ops.

(** the hypotheses of [C15d_history_from_init] hold *)
Example C15d_history_hypotheses_hold :
  dvars_ok C15d_dvars ∧ mhist_ok (mdd_init C15d_dvars) (fun _ => 0) C15d_ops.
Proof.
  split.
  - apply dvars_ok_b_sound. vm_compute. reflexivity.
  - apply mhist_ok_b_sound. vm_compute. reflexivity.
Qed.

Example C15d_history_outcomes :
  (fun x : mst * mop * res value * mst => x.1.2) <$> C15d_outs =
  [Ok (VZ (-2)); Err EValue; Err EValue; Err EValue; Err EValue; Err EValue;
   Ok (VZ 3); Err EKey; Err EKey; Err EKey;
   Ok (VZ (-4)); Err EValue; Err EValue; Err EValue; Err ERuntime;
   Ok VU; Ok (VZ (-5)); Ok VU; Err EKey; Ok VU; Err EOracle; Ok (VZ 3); Ok VU; Ok VU].
Proof. vm_compute. reflexivity. Qed.

(** the calls that failed with an exception other than the oracle error *)
Definition C15d_is_rejected (x : mst * mop * res value * mst) : bool :=
  match x.1.2 with
  | Err e => negb (bool_decide (e = EOracle))
  | Ok _ => false
  end.

(** every rejected call of the history left the state — every field of the
    record — EQUAL to the state before the call *)
Example C15d_rejected_leave_state :
  length (List.filter C15d_is_rejected C15d_outs) = 13 ∧
  (fun x : mst * mop * res value * mst => x.2) <$>
    List.filter C15d_is_rejected C15d_outs =
  (fun x : mst * mop * res value * mst => x.1.1.1) <$>
    List.filter C15d_is_rejected C15d_outs.
Proof. split; vm_compute; exact eq_refl. Qed.

(** ... in particular the digest of the differential test (every table) *)
Example C15d_rejected_leave_digest :
  (fun x : mst * mop * res value * mst => mdigest x.2) <$>
    List.filter C15d_is_rejected C15d_outs =
  (fun x : mst * mop * res value * mst => mdigest x.1.1.1) <$>
    List.filter C15d_is_rejected C15d_outs.
Proof. vm_compute. reflexivity. Qed.

(** the oracle error consumed the tape and nothing else *)
Example C15d_oracle_error_state :
  match C15d_outs !! 20 with
  | Some (s, _, r, s') => r = Err EOracle ∧ mtape s = [9%positive] ∧ mdigest s' = mdigest s
  | None => False
  end.
Proof. vm_compute. done. Qed.

(** the result -4 of "and", held from [incref(4)] to [decref(4)], keeps its
    function across the rejected calls, the collection and the oracle error:
    -2 is (x1 = 1); node 3 was x0 = 0, or x0 = 1 ∧ x1 = 1, or x0 = 2 ∧ x1 = 0 *)
Example C15d_held_reference :
  let s := fst (mrun (mdd_init C15d_dvars) (fun _ => 0) (take 23 C15d_ops)) in
  snd (mrun (mdd_init C15d_dvars) (fun _ => 0) (take 22 C15d_ops)) 4%positive = 1 ∧
  elements (dom (msucc s)) = [1; 2; 4; 3]%positive ∧
  forallb (fun '(i0, i1) =>
    bool_decide (MD s (-4) (fun l => match l with 0 => i0 | _ => i1 end) =
                 (bool_decide (i1 = 1) &&
                  (bool_decide (i0 = 0) || (bool_decide (i0 = 1) && bool_decide (i1 = 1)) ||
                   (bool_decide (i0 = 2) && bool_decide (i1 = 0))))))
    [(0, 0); (0, 1); (1, 0); (1, 1); (2, 0); (2, 1)] = true.
Proof. vm_compute. done. Qed.
