(** * Property C08 — [dd.autoref.copy_bdd(u, target)] into the manager of [u]

    The module-level function is
    [r = dd.bdd.copy_bdd(u.node, u.manager, target._bdd); return target._wrap(r)],
    and [dd.bdd.copy_bdd] starts with [if from_bdd is to_bdd: return u].  For a
    copy into the manager of [u] itself nothing is computed: no node is
    created and the [ite] cache is not touched.  The result is a second
    [Function] on the same node, with a reference of its own.

    Model: a step [ACopy src hu] on manager [m] with [src = m] is
    [Driver3.a_copy_same hu] = "look the handle up, [wrap] its node"
    (the dispatch is [Driver3.run_aop'], used by [astep]).
    Only statements closed by [exact]; proofs live in [Proofs/AutorefInv.v]. *)
From DD Require Import AutorefInv.
Local Open Scope string_scope.

(** the dispatch of the driver *)
Theorem C08_copy_dispatch w m src hu :
  run_aop' w m (ACopy src hu) =
    if decide (src = m) then (u <- node_of hu ;; h <- wrap u ;; ret (VN h))
    else run_aop w (ACopy src hu).
Proof. reflexivity. Qed.
Print Assumptions C08_copy_dispatch.

(** a copy of a live [Function] into its own manager returns a NEW handle on
    the SAME node; of the wrapped manager nothing changes but the count of
    that node, which goes up by one ([astep] empties the oracle tape of the
    model as after every call); the invariant holds afterwards *)
Theorem C08_copy_same_manager w m hu u :
  let a := aworld_get w m in
  let a' := aworld_get (fst (astep w m (ACopy m hu))) m in
  AInv a → handles a !! hu = Some u →
  snd (astep w m (ACopy m hu)) = Ok (VN (next_hid a)) ∧
  next_hid a ∉ dom (handles a) ∧
  handles a' = <[next_hid a := u]> (handles a) ∧
  next_hid a' = S (next_hid a) ∧
  mgr a' = mgr a <| refc ::= alter S (absn u) |> <| tape := [] |> ∧
  (succ (mgr a') = succ (mgr a) ∧ pred (mgr a') = pred (mgr a) ∧
   ite_tab (mgr a') = ite_tab (mgr a) ∧ vars (mgr a') = vars (mgr a) ∧
   lvl2var (mgr a') = lvl2var (mgr a) ∧ min_free (mgr a') = min_free (mgr a) ∧
   roots (mgr a') = roots (mgr a)) ∧
  (∃ c, refc (mgr a) !! absn u = Some c ∧ refc (mgr a') !! absn u = Some (S c)) ∧
  (∀ n, n ≠ absn u → refc (mgr a') !! n = refc (mgr a) !! n) ∧
  AInv a'.
Proof. exact (astep_copy_same w m hu u). Qed.
Print Assumptions C08_copy_same_manager.

(** the histories of [C08]: the step keeps the invariant and every other
    handle whether the source is the manager itself or another one *)
Theorem C08_copy_call w m o a r a' :
  a_allowed o = true → is_anew o = false → AInv a → a_caller_ok a o →
  run_aop' w m o a = (r, a') → AInv a' ∧ AKeep o a a'.
Proof. exact (run_aop'_AInv w m o a r a'). Qed.
Print Assumptions C08_copy_call.

(** ** The scenario of the differential test:
    [a0 new [0:0,1:1,2:2]; a0 var 2; a0 copy 0 0] *)
Definition cw2 : aworld :=
  fold_left (fun w o => fst (astep w 0 o)) [ANew [(0, 0); (1, 1); (2, 2)]; AVar 2] aworld_empty.
Definition cw3 : aworld := fst (astep cw2 0 (ACopy 0 0)).
(** for contrast: a second manager with the same variables receives the copy *)
Definition cw4 : aworld :=
  fst (astep (fst (astep cw2 1 (ANew [(0, 0); (1, 1); (2, 2)]))) 1 (ACopy 0 0)).

Example C08_copy_same_manager_scenario :
  let b := aworld_get cw2 0 in
  let b' := aworld_get cw3 0 in
  (* after [var 2]: node 2 = (level 2, -1, 1), one handle, no [ite] entry
     ([var] is a plain [find_or_add]) *)
  map_to_list (handles b) = [(0, 2%Z)] ∧
  map_to_list (refc (mgr b)) = [(1%positive, 3); (2%positive, 1)] ∧
  map_to_list (ite_tab (mgr b)) = [] ∧
  (* the copy into the same manager: handle 1 on node 2, whose count is 2;
     the [ite] cache, the nodes and [pred] are what [var] left *)
  snd (astep cw2 0 (ACopy 0 0)) = Ok (VN 1) ∧
  map_to_list (handles b') = [(0, 2%Z); (1, 2%Z)] ∧
  map_to_list (refc (mgr b')) = [(1%positive, 3); (2%positive, 2)] ∧
  map_to_list (ite_tab (mgr b')) = map_to_list (ite_tab (mgr b)) ∧
  map_to_list (ite_tab (mgr b')) = [] ∧
  map_to_list (succ (mgr b')) = map_to_list (succ (mgr b)) ∧
  map_to_list (pred (mgr b')) = map_to_list (pred (mgr b)) ∧
  min_free (mgr b') = min_free (mgr b) ∧
  (* a dead handle: [KeyError], nothing changes *)
  snd (astep cw2 0 (ACopy 0 7)) = Err EKey ∧
  adigest (aworld_get (fst (astep cw2 0 (ACopy 0 7))) 0) = adigest b ∧
  (* the copy into ANOTHER manager is computed (it fills the [ite] cache of
     the target): the dispatch matters *)
  map_to_list (ite_tab (mgr (aworld_get cw4 1))) = [(2%Z, 1%Z, (-1)%Z, 2%Z)] ∧
  map_to_list (handles (aworld_get cw4 1)) = [(0, 2%Z)].
Proof. vm_compute. repeat split. Qed.
Print Assumptions C08_copy_same_manager_scenario.
