(** * Property C05 / C09 — [autoref.BDD.add_expr] with dynamic reordering
      possibly ENABLED: the MEANING of the result (the functional statement
      that [C05a_add_expr_any_dynamic] of [Properties/C05_autoref.v] leaves
      open).  Only statements closed by [exact]; proofs live in
      [Proofs/AutorefExprDyn.v] (which applies [C09_add_expr_dynamic] of
      [Properties/C09_add_expr.v] to the wrapped manager).

      [astep_expr w m spellings] ([C05a_astep_expr_unfold]): parse and
      evaluate on the wrapped [dd.bdd] manager, wrap the integer in a new
      [Function] (handle), empty the oracle tape of the model.
      [AInvDT a] ([Properties/C08b.v]): the wrapped manager satisfies [Inv],
      is not inside a reordering context, its counters are in-degree plus
      live handles ([hledger a]), every handle is on a node, and the oracle
      tape is empty; [last_len] is ARBITRARY (reordering enabled or not, any
      threshold), and so is the forced trigger [trig].
      [refs_in (heldn (hledger a)) t]: every [@n] leaf of the tree is the
      terminal or a node with a live handle ([C05d_refs_in_handles]) -- in
      dd.autoref an integer that is not the node of a live [Function] may be
      collected at any time.
      [AKeepAll a a'] ([C05a_AKeepAll_unfold]): every live handle keeps node,
      validity and function by name. *)
From stdpp Require Import strings.
From DD Require Import AutorefExprDyn.
Local Open Scope string_scope.

(** every [@n] leaf is the terminal or the node of a live handle *)
Theorem C05d_refs_in_handles a (t : Parser.ast) :
  Forall (fun z => absn z = 1%positive ∨ ∃ h, handles a !! h = Some z) (ast_refs t) →
  refs_in (heldn (hledger a)) t.
Proof. exact (refs_in_handles a t). Qed.
Print Assumptions C05d_refs_in_handles.

(** [add_expr] on the spellings of an accepted formula: whether or not a
    reordering request fires during the evaluation (and wherever), the call
    returns the FRESH handle [next_hid a] on a node [u] that denotes the
    reading [asem] of the tree ([@n] read in the manager before the call);
    the table is the old one plus this handle; the dynamic invariant holds;
    every previously live handle keeps node, validity and function; the
    reordering mode is kept; the other managers are untouched.  Neither the
    reordering signal nor the oracle error reaches the caller. *)
Theorem C05d_add_expr_dynamic w m sp ts (t : Parser.ast) :
  let a := aworld_get w m in
  let w' := fst (astep_expr w m sp) in
  let a' := aworld_get w' m in
  AInvDT a → max_nodes (mgr a) = None →
  lex sp = Some ts → parse code_prec ts = Some t → ok_ast (mgr a) t →
  refs_in (heldn (hledger a)) t →
  ∃ u, snd (astep_expr w m sp) = Ok (VN (next_hid a)) ∧
    handles a' = <[next_hid a := u]> (handles a) ∧
    next_hid a' = S (next_hid a) ∧
    valid (mgr a') u ∧ (∀ ρ, denv (mgr a') u ρ = asem (mgr a) t ρ) ∧
    AInvDT a' ∧ AKeepAll a a' ∧
    (last_len (mgr a) = None → last_len (mgr a') = None) ∧
    (is_Some (last_len (mgr a)) → is_Some (last_len (mgr a'))) ∧
    (∀ m', m' ≠ m → aworld_get w' m' = aworld_get w m').
Proof. exact (astep_expr_semD w m sp ts t). Qed.
Print Assumptions C05d_add_expr_dynamic.

(** ** Running the model: [BDD({v0:0, v1:1, v2:2, v3:3})] of dd.autoref;
    handles 0..3 on the variables, 4 = v0 /\ v2, 5 = v1 /\ v3,
    6 = f = 4 \/ 5, which is node 10; [configure(reordering=True)]
    ([dx_w0]); then the 9th reordering request is forced to fire ([dx_w]).
    [add_expr("\E v0: @10 /\ v1")] ([expr_sp], [expr_tree]:
    [C09_expr_defs]). *)
Theorem C05d_example_worlds :
  dx_lv = [(0, 0); (1, 1); (2, 2); (3, 3)] ∧
  dx_pre = [Driver3.AVar 0; Driver3.AVar 1; Driver3.AVar 2; Driver3.AVar 3;
            AApply "and" 0 (Some 2) None; AApply "and" 1 (Some 3) None;
            AApply "or" 4 (Some 5) None] ∧
  arun aworld_empty 0 (ANew dx_lv :: dx_pre) = dx_wS ∧
  arun dx_wS 0 [AConfigure (Some true)] = dx_w0 ∧
  arun dx_wS 0 [AConfigure (Some true); ASetTrig (Some 9)] = dx_w.
Proof. exact (conj eq_refl (conj eq_refl (conj eq_refl (conj eq_refl eq_refl)))). Qed.
Print Assumptions C05d_example_worlds.

(** the hypotheses of [C05d_add_expr_dynamic] hold in both worlds *)
Example C05d_example_hypotheses :
  (AInvDT (aworld_get dx_w0 0) ∧ AInvDT (aworld_get dx_w 0)) ∧
  (lex expr_sp ≫= parse code_prec) = Some expr_tree ∧
  (ok_ast (mgr (aworld_get dx_w0 0)) expr_tree ∧ ok_ast (mgr (aworld_get dx_w 0)) expr_tree) ∧
  (refs_in (heldn (hledger (aworld_get dx_w0 0))) expr_tree ∧
   refs_in (heldn (hledger (aworld_get dx_w 0))) expr_tree) ∧
  (max_nodes (mgr (aworld_get dx_w0 0)) = None ∧ max_nodes (mgr (aworld_get dx_w 0)) = None).
Proof. exact astep_expr_dyn_hypotheses. Qed.
Print Assumptions C05d_example_hypotheses.

(** without the trigger the request does not fire; with it the request fires
    inside the quantification (see [C09_add_expr_example]): both calls return
    the fresh handle 7, on nodes with the same truth table by name, the table
    of the reading [asem]; the variable order changed (v2 on top), requests
    are on again, and the old handles keep node and table *)
Example C05d_example :
  let a0 := aworld_get dx_w0 0 in
  let '(wA, rA) := astep_expr dx_w0 0 expr_sp in
  let '(wB, rB) := astep_expr dx_w 0 expr_sp in
  let aA := aworld_get wA 0 in let aB := aworld_get wB 0 in
  handles a0 !! 6 = Some 10%Z ∧ next_hid a0 = 7 ∧ last_len (mgr a0) = Some 100 ∧
  rA = Ok (VN 7) ∧ rB = Ok (VN 7) ∧
  handles aA !! 7 = Some 11%Z ∧ handles aB !! 7 = Some 12%Z ∧
  map_to_list (vars (mgr aA)) = map_to_list (vars (mgr a0)) ∧
  vars (mgr a0) !! 2 = Some 2 ∧ vars (mgr aB) !! 2 = Some 0 ∧
  trig (mgr aB) = None ∧ last_len (mgr aA) = Some 100 ∧ last_len (mgr aB) = Some 18 ∧
  table 4 (mgr aB) (Ok (VZ 12)) = table 4 (mgr aA) (Ok (VZ 11)) ∧
  table 4 (mgr aB) (Ok (VZ 12)) = Some (asem (mgr a0) expr_tree <$> envs 4) ∧
  forallb (fun h => bool_decide (handles aB !! h = handles a0 !! h) &&
                    match handles a0 !! h with
                    | Some u => bool_decide (table 4 (mgr aB) (Ok (VZ u)) =
                                             table 4 (mgr a0) (Ok (VZ u)))
                    | None => false
                    end) (seq 0 7) = true.
Proof. exact astep_expr_dyn_example. Qed.
Print Assumptions C05d_example.
