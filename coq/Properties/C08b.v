(** * Property C08, second part — [dd.autoref] through explicit reorderings
      and with dynamic reordering enabled.

    [Properties/C08.v] covers every operation of the [Driver3] alphabet except
    the reordering entry points, with dynamic reordering disabled.

    SUPERSEDED: [C08_with_reorder_partial] took as premise [keeps_refs], which
    asks every node REACHABLE from a held node to keep its identity.  That is
    false of reordering: a swap may free an inner node that nobody holds and
    build its replacement under another number, while the held node above it
    keeps number and function ([C07_reach_clause_false],
    [C09_sifting_ok_reach_false]).  In such runs the premise is unsatisfiable,
    so the theorem says nothing.  The exact replacement is [keeps_held] (only
    the HELD nodes — here the nodes of the live [Function] objects — keep
    number and function), proved of [reorder_pub] in [Proofs/Sift9.v] and
    lifted to the wrapper in [Proofs/Sift10.v].  The theorems below are
    unconditional.

    Part A: the alphabet [a_allowed2] = [a_allowed] + [AReorder] (sifting and
    reorder-to-order), dynamic reordering disabled.  The oracle tape of the
    model must be empty when a reordering starts; [Driver3.astep] empties it
    after every step, so with histories that do not load it ([a_tape_ok])
    this is part of the invariant [AInvT] and the oracle error is excluded.

    Part B: dynamic reordering ENABLED ([configure(reordering=True)]): the
    decorated methods may sift in the middle of a call.  Specifications of the
    successful calls (B1) and a total theorem over the alphabet [a_allowedD]
    with histories (B2).  Outside [a_allowedD]: [u <= v], [u < v] (their
    temporaries live across decorated calls), [find_or_add], [image],
    [preimage], [copy] (not decorated: the signal escapes, C09), [count],
    [len] (not needed), [reorder] with requests enabled, the tape setter,
    [BDD(...)] and the shutdown.

    Node limit ([max_nodes], [RuntimeError] of a full table; set through the
    wrapper by [ASetMaxNodes n], [bdd._bdd.max_nodes = n], an operation of
    [a_allowed] and of [a_allowedD] with any value).  Part A and B2
    are safety statements and cover that outcome like any other failure
    (a reordering that a full table stops in the middle keeps the held nodes,
    [Sift9.reorder_pub_keeps_held]; in the comparisons [u <= v], [u < v] the
    temporary [~ self] dies with the frame that the exception unwinds).  The
    specifications B1
    conclude success and assume [max_nodes (mgr a) = None].

    Only statements closed by [exact]; proofs live in [Proofs/AutorefInv2.v]. *)
From DD Require Import AutorefInv2 C01proof.
Local Open Scope string_scope.

(** ** Part A: explicit reorderings *)

Theorem C08b_allowed2_unfold o :
  a_allowed2 o = (a_allowed o || match o with AReorder _ => true | _ => false end).
Proof. exact eq_refl. Qed.
Print Assumptions C08b_allowed2_unfold.

Theorem C08b_tape_ok_unfold o :
  a_tape_ok o = match o with ATape t => bool_decide (t = []) | _ => true end.
Proof. exact eq_refl. Qed.
Print Assumptions C08b_tape_ok_unfold.

Theorem C08b_AInvT_unfold a : AInvT a ↔ AInv a ∧ tape (mgr a) = [].
Proof. exact (conj (fun H => H) (fun H => H)). Qed.
Print Assumptions C08b_AInvT_unfold.

(** one call: any allowed operation, or a reordering started with an empty
    tape; any arguments, either outcome *)
Theorem C08b_call w o a r a' :
  a_allowed2 o = true → is_anew o = false → AInv a → a_caller_ok a o →
  (is_areorder o = true → tape (mgr a) = []) →
  run_aop w o a = (r, a') → AInv a' ∧ AKeep o a a'.
Proof. exact (run_aop_AInv2 w o a r a'). Qed.
Print Assumptions C08b_call.

Theorem C08b_step w m o :
  a_allowed2 o = true → a_tape_ok o = true →
  (is_anew o = false → AInvT (aworld_get w m) ∧ a_caller_ok (aworld_get w m) o) →
  AInvT (aworld_get (fst (astep w m o)) m) ∧
  (is_anew o = false → AKeep o (aworld_get w m) (aworld_get (fst (astep w m o)) m)).
Proof. exact (astep_AInv2 w m o). Qed.
Print Assumptions C08b_step.

Theorem C08b_ahist_ok2_unfold w m ops :
  ahist_ok2 w m ops =
  match ops with
  | [] => True
  | o :: ops =>
      a_allowed2 o = true ∧ a_tape_ok o = true ∧ a_caller_ok (aworld_get w m) o ∧
      ahist_ok2 (fst (astep w m o)) m ops
  end.
Proof. exact (match ops with [] => eq_refl | _ :: _ => eq_refl end). Qed.
Print Assumptions C08b_ahist_ok2_unfold.

Theorem C08b_history ops : ∀ w m,
  AInvT (aworld_get w m) → ahist_ok2 w m ops → AInvT (aworld_get (arun w m ops) m).
Proof. exact (arun_AInv2 ops). Qed.
Print Assumptions C08b_history.

Theorem C08b_history_from_new levels ops m :
  a_allowed (ANew levels) = true →
  ahist_ok2 (fst (astep aworld_empty m (ANew levels))) m ops →
  AInvT (aworld_get (arun aworld_empty m (ANew levels :: ops)) m).
Proof. exact (arun_from_new2 levels ops m). Qed.
Print Assumptions C08b_history_from_new.

(** "every live Function keeps denoting the same function through any
    sequence of operations, explicit collections AND REORDERINGS, no matter
    when other Function objects are dropped" *)
Theorem C08b_live_function_keeps_its_function ops : ∀ w m h u,
  AInvT (aworld_get w m) → ahist_ok2 w m ops →
  Forall (fun o => is_anew o = false ∧ o ≠ ADrop h) ops →
  handles (aworld_get w m) !! h = Some u →
  handles (aworld_get (arun w m ops) m) !! h = Some u ∧
  valid (mgr (aworld_get (arun w m ops) m)) u ∧
  ∀ ρ, denv (mgr (aworld_get (arun w m ops) m)) u ρ = denv (mgr (aworld_get w m)) u ρ.
Proof. exact (arun_keeps2 ops). Qed.
Print Assumptions C08b_live_function_keeps_its_function.

(** the histories of [C08_history] are histories here as soon as they do not
    load the tape *)
Theorem C08b_old_histories ops : ∀ w m, ahist_ok w m ops →
  Forall (fun o => a_tape_ok o = true) ops → ahist_ok2 w m ops.
Proof. exact (ahist_ok_ok2 ops). Qed.
Print Assumptions C08b_old_histories.

(** ** Part B1: dynamic reordering enabled, the decorated methods *)

(** [AInv] without "requests are off", plus "not inside a reordering" *)
Theorem C08b_AInvD_unfold a :
  AInvD a ↔
  Inv (mgr a) ∧ rctx (mgr a) = false ∧ Counts (mgr a) (hledger a) ∧
  (∀ h u, handles a !! h = Some u → valid (mgr a) u) ∧
  (∀ h u, handles a !! h = Some u → h < next_hid a).
Proof. exact (conj (fun H => H) (fun H => H)). Qed.
Print Assumptions C08b_AInvD_unfold.

Theorem C08b_AKeepAll_unfold a a' :
  AKeepAll a a' ↔
  ∀ h u, handles a !! h = Some u →
    handles a' !! h = Some u ∧ valid (mgr a') u ∧
    ∀ ρ, denv (mgr a') u ρ = denv (mgr a) u ρ.
Proof. exact (conj (fun H => H) (fun H => H)). Qed.
Print Assumptions C08b_AKeepAll_unfold.

(** outcome of a decorated method: the oracle error of the model, or a new
    [Function] [next_hid a] on a result [x] satisfying [P]; the invariant
    holds, every other live [Function] keeps node and function, requests stay
    enabled (or disabled) *)
Theorem C08b_dyn_out_unfold a P r a' :
  dyn_out a P r a' ↔
  r = Err EOracle ∨
  (r = Ok (next_hid a) ∧ AInvD a' ∧ AKeepAll a a' ∧
   (last_len (mgr a) = None → last_len (mgr a') = None) ∧
   (is_Some (last_len (mgr a)) → is_Some (last_len (mgr a'))) ∧
   next_hid a' = S (next_hid a) ∧
   ∃ x, handles a' = <[next_hid a := x]> (handles a) ∧ valid (mgr a') x ∧ P x (mgr a')).
Proof. exact (conj (fun H => H) (fun H => H)). Qed.
Print Assumptions C08b_dyn_out_unfold.

Theorem C08b_var v a r a' :
  AInvD a → max_nodes (mgr a) = None → is_Some (vars (mgr a) !! v) → a_var v a = (r, a') →
  dyn_out a (fun x s' => ∀ ρ, denv s' x ρ = ρ v) r a'.
Proof. exact (a_var_dyn v a r a'). Qed.
Print Assumptions C08b_var.

Theorem C08b_ite hg hu hv a r a' :
  AInvD a → max_nodes (mgr a) = None → a_ite hg hu hv a = (r, a') →
  (r = Err EKey ∧ a' = a ∧
   (handles a !! hg = None ∨ handles a !! hu = None ∨ handles a !! hv = None)) ∨
  ∃ g u v, handles a !! hg = Some g ∧ handles a !! hu = Some u ∧ handles a !! hv = Some v ∧
    dyn_out a (fun x s' => ∀ ρ, denv s' x ρ =
                 if denv (mgr a) g ρ then denv (mgr a) u ρ else denv (mgr a) v ρ) r a'.
Proof. exact (a_ite_dyn hg hu hv a r a'). Qed.
Print Assumptions C08b_ite.

Theorem C08b_quantify hu qvars fa a r a' :
  AInvD a → max_nodes (mgr a) = None →
  Forall (fun k => is_Some (vars (mgr a) !! k)) qvars →
  a_quantify hu qvars fa a = (r, a') →
  (r = Err EKey ∧ a' = a ∧ handles a !! hu = None) ∨
  ∃ u, handles a !! hu = Some u ∧
    dyn_out a (fun x s' => ∀ ρ, denv s' x ρ = true ↔
                 qsemv (mgr a) fa (list_to_set qvars) u ρ) r a'.
Proof. exact (a_quantify_dyn hu qvars fa a r a'). Qed.
Print Assumptions C08b_quantify.

Theorem C08b_cube d a r a' :
  AInvD a → max_nodes (mgr a) = None →
  Forall (fun p => is_Some (vars (mgr a) !! p.1)) d →
  a_cube d a = (r, a') →
  dyn_out a (fun x s' => ∀ ρ, denv s' x ρ = true ↔ ∀ v b, (v, b) ∈ d → ρ v = b) r a'.
Proof. exact (a_cube_dyn d a r a'). Qed.
Print Assumptions C08b_cube.

(** the optional operand handles, looked up *)
Theorem C08b_olook_unfold a ho vo :
  olook a ho vo =
  match ho, vo with
  | None, None => True
  | Some h, Some v => handles a !! h = Some v
  | _, _ => False
  end.
Proof. exact eq_refl. Qed.
Print Assumptions C08b_olook_unfold.

(** [~u], [u & v], [u | v], ...: a connective [f] of the vocabulary *)
Theorem C08b_function_apply op hu hv a r a' f u v :
  AInvD a → max_nodes (mgr a) = None → handles a !! hu = Some u → olook a hv v →
  op ∈ py_vocab → conn_sem op = Some f → arity_ok op v None = true →
  f_apply op hu hv a = (r, a') →
  dyn_out a (fun x s' => ∀ ρ, denv s' x ρ =
               f (denv (mgr a) u ρ) (odenv (mgr a) v ρ) false) r a'.
Proof. exact (f_apply_dyn op hu hv a r a' f u v). Qed.
Print Assumptions C08b_function_apply.

Theorem C08b_apply op hu hv hw a r a' f u v w :
  AInvD a → max_nodes (mgr a) = None →
  handles a !! hu = Some u → olook a hv v → olook a hw w →
  op ∈ py_vocab → conn_sem op = Some f → arity_ok op v w = true →
  a_apply op hu hv hw a = (r, a') →
  dyn_out a (fun x s' => ∀ ρ, denv s' x ρ =
               f (denv (mgr a) u ρ) (odenv (mgr a) v ρ) (odenv (mgr a) w ρ)) r a'.
Proof. exact (a_apply_dyn op hu hv hw a r a' f u v w). Qed.
Print Assumptions C08b_apply.

(** unknown operator or wrong arity: [ValueError], nothing changes *)
Theorem C08b_function_apply_rejected op hu hv a r a' u v :
  handles a !! hu = Some u → olook a hv v →
  arity_ok op v None = false ∨ find_template apply_table op = None →
  f_apply op hu hv a = (r, a') →
  r = Err EValue ∧ mgr a' = mgr a ∧ handles a' = handles a ∧ next_hid a' = next_hid a.
Proof. exact (f_apply_rejected op hu hv a r a' u v). Qed.
Print Assumptions C08b_function_apply_rejected.

(** [bdd.let]: the definitions with their handles looked up ([alet_nodes]),
    every defined name declared ([alet_declared]) *)
Theorem C08b_alet_nodes_unfold a d d' :
  alet_nodes a d d' =
  match d, d' with
  | ALetBool l, LetBool l' => l' = l
  | ALetName l, LetName l' => l' = l
  | ALetRef l, LetRef l' =>
      Forall2 (fun p q => q.1 = p.1 ∧ handles a !! p.2 = Some q.2) l l'
  | _, _ => False
  end.
Proof. exact eq_refl. Qed.
Print Assumptions C08b_alet_nodes_unfold.

Theorem C08b_alet_declared_unfold s d :
  alet_declared s d =
  match d with
  | ALetBool l => Forall (fun p => is_Some (vars s !! p.1)) l
  | ALetRef l => Forall (fun p => is_Some (vars s !! p.1)) l
  | ALetName l => ∀ x y, (x, y) ∈ l → is_Some (vars s !! y)
  end.
Proof. exact eq_refl. Qed.
Print Assumptions C08b_alet_declared_unfold.

Theorem C08b_let d hu a r a' u d' :
  AInvD a → max_nodes (mgr a) = None → handles a !! hu = Some u → alet_empty d = false →
  alet_nodes a d d' → alet_declared (mgr a) d →
  a_let d hu a = (r, a') →
  dyn_out a (fun x s' => ∀ ρ, denv s' x ρ = denv (mgr a) u (let_sem (mgr a) d' ρ)) r a'.
Proof. exact (a_let_dyn d hu a r a' u d'). Qed.
Print Assumptions C08b_let.

Theorem C08b_let_empty d hu a r a' :
  alet_empty d = true → a_let d hu a = (r, a') →
  a' = a ∧ (r = Ok hu ∨ r = Err EKey ∨ r = Err EValue).
Proof. exact (a_let_empty d hu a r a'). Qed.
Print Assumptions C08b_let_empty.

(** switching dynamic reordering on and off *)
Theorem C08b_configure w b a r a' :
  AInvD a → run_aop w (AConfigure b) a = (r, a') →
  AInvD a' ∧ AKeepAll a a' ∧
  r = Ok (VB (bool_decide (is_Some (last_len (mgr a))))) ∧
  last_len (mgr a') = match b with
                      | None => last_len (mgr a)
                      | Some true => Some (Nat.max REORDER_STARTS (len (mgr a)))
                      | Some false => None
                      end.
Proof. exact (configure_dyn w b a r a'). Qed.
Print Assumptions C08b_configure.

Theorem C08b_set_last_len w l a r a' :
  AInvD a → run_aop w (ASetLastLen l) a = (r, a') →
  AInvD a' ∧ AKeepAll a a' ∧ r = Ok VU ∧ last_len (mgr a') = l.
Proof. exact (set_last_len_dyn w l a r a'). Qed.
Print Assumptions C08b_set_last_len.

(** ** Part B2: dynamic reordering enabled, TOTAL over [a_allowedD] *)

Theorem C08b_AInvDT_unfold a : AInvDT a ↔ AInvD a ∧ tape (mgr a) = [].
Proof. exact (conj (fun H => H) (fun H => H)). Qed.
Print Assumptions C08b_AInvDT_unfold.

Theorem C08b_allowedD_unfold o :
  a_allowedD o =
  match o with
  | ADeclare _ | AVar _ | ATrue | AFalse | AApply _ _ _ _ | AIte _ _ _ | ALet _ _
  | AQuantify _ _ _ | ACube _ | ASupport _ | AFApply _ _ _ | AEq _ _ | ANe _ _
  | AChild _ _ | ASucc _ | ALevel _ | AVarOf _ | ARef _ | ANegated _ | AInt _
  | ADrop _ | AGc | AConfigure _ | ASetLastLen _ | ASetTrig _ | ASetMaxNodes _ => true
  | _ => false
  end.
Proof. exact eq_refl. Qed.
Print Assumptions C08b_allowedD_unfold.

(** any allowed call, any arguments, either outcome, whatever the reordering
    mode: the invariant holds, every surviving [Function] keeps node and
    function, and neither the reordering signal nor the oracle error reaches
    the caller *)
Theorem C08b_call_dynamic w o a r a' :
  a_allowedD o = true → AInvDT a → run_aop w o a = (r, a') →
  AInvDT a' ∧ AKeep o a a' ∧ r ≠ Err ENeedsReordering ∧ r ≠ Err EOracle.
Proof. exact (run_aop_AInvD w o a r a'). Qed.
Print Assumptions C08b_call_dynamic.

Theorem C08b_step_dynamic w m o :
  a_allowedD o = true → AInvDT (aworld_get w m) →
  AInvDT (aworld_get (fst (astep w m o)) m) ∧
  AKeep o (aworld_get w m) (aworld_get (fst (astep w m o)) m) ∧
  snd (astep w m o) ≠ Err ENeedsReordering ∧ snd (astep w m o) ≠ Err EOracle.
Proof. exact (astep_AInvD w m o). Qed.
Print Assumptions C08b_step_dynamic.

Theorem C08b_history_dynamic ops : ∀ w m,
  AInvDT (aworld_get w m) → Forall (fun o => a_allowedD o = true) ops →
  AInvDT (aworld_get (arun w m ops) m).
Proof. exact (arun_AInvD ops). Qed.
Print Assumptions C08b_history_dynamic.

Theorem C08b_live_function_dynamic ops : ∀ w m h u,
  AInvDT (aworld_get w m) → Forall (fun o => a_allowedD o = true) ops →
  Forall (fun o => o ≠ ADrop h) ops →
  handles (aworld_get w m) !! h = Some u →
  handles (aworld_get (arun w m ops) m) !! h = Some u ∧
  valid (mgr (aworld_get (arun w m ops) m)) u ∧
  ∀ ρ, denv (mgr (aworld_get (arun w m ops) m)) u ρ = denv (mgr (aworld_get w m)) u ρ.
Proof. exact (arun_keepsD ops). Qed.
Print Assumptions C08b_live_function_dynamic.

(** a state of the static histories is a state of the dynamic ones *)
Theorem C08b_enter_dynamic a : AInvT a → rctx (mgr a) = false → AInvDT a.
Proof. exact (AInvDT_of_AInvT a). Qed.
Print Assumptions C08b_enter_dynamic.

(** ** Examples (by evaluation) *)

(** manager 0: four variables; f = (v0 & v2) | (v1 & v3) (handle 6); the
    intermediate handles die; a collection; sifting; the reversed order;
    [~f] (handle 7); sifting again *)
Definition lv1 : list (nat * nat) := [(0, 0); (1, 1); (2, 2); (3, 3)].
Definition pre1 : list aop :=
  [AVar 0; AVar 1; AVar 2; AVar 3;
   AApply "and" 0 (Some 2) None; AApply "and" 1 (Some 3) None; AFApply "or" 4 (Some 5);
   ADrop 4; ADrop 5; AGc].
Definition reo1 : list aop :=
  [AReorder None; AReorder (Some [(0, 3); (1, 2); (2, 1); (3, 0)]);
   AFApply "not" 6 None; AReorder None].
Definition wA : aworld := arun aworld_empty 0 (ANew lv1 :: pre1).
Definition wB : aworld := arun wA 0 reo1.

(** the hypotheses of [C08b_history_from_new] hold *)
Example C08b_history_hypotheses_hold :
  a_allowed (ANew lv1) = true ∧
  ahist_ok2 (fst (astep aworld_empty 0 (ANew lv1))) 0 (pre1 ++ reo1).
Proof.
  split; [by vm_compute|]. cbn [ahist_ok2 pre1 reo1 app].
  repeat (split; [by vm_compute|]). done.
Qed.

Theorem C08b_example_invariant :
  AInvT (aworld_get (arun aworld_empty 0 (ANew lv1 :: pre1 ++ reo1)) 0).
Proof.
  exact (arun_from_new2 lv1 (pre1 ++ reo1) 0 (proj1 C08b_history_hypotheses_hold)
           (proj2 C08b_history_hypotheses_hold)).
Qed.
Print Assumptions C08b_example_invariant.

(** truth table of a handle, by variable names *)
Definition tbl (a : ast) (h : nat) : option (list bool) :=
  (fun u => (fun ρ => denv (mgr a) u ρ) <$> envs 4) <$> handles a !! h.

(** the reorderings really change the variable order; every call succeeds;
    handle 6 keeps its node and its truth table; the counters are exact *)
Example C08b_example_reorderings :
  let a := aworld_get wA 0 in let b := aworld_get wB 0 in
  map_to_list (vars (mgr a)) = [(0, 0); (1, 1); (3, 3); (2, 2)] ∧
  map_to_list (vars (mgr b)) = [(0, 2); (1, 1); (3, 0); (2, 3)] ∧
  handles a !! 6 = Some 10%Z ∧ handles b !! 6 = Some 10%Z ∧
  handles b !! 7 = Some (-10)%Z ∧
  tbl a 6 = tbl b 6 ∧
  tbl a 6 = Some [false; false; false; false; false; true; false; true; false;
                  false; true; true; false; true; true; true] ∧
  forallb (fun '(n, c) =>
      bool_decide (c = indeg (succ (mgr b)) n + (if decide (n = 1%positive) then 1 else 0) +
                   length (filter (fun p => absn (p.2) = n) (map_to_list (handles b)))))
    (map_to_list (refc (mgr b))) = true.
Proof. by vm_compute. Qed.

(** dynamic reordering: enabled on [wA]; the forced trigger fires at the
    first node creation of [f & v1], which therefore sifts in the middle *)
Definition dyn1 : list aop :=
  [AConfigure (Some true); ASetTrig (Some 1);
   AApply "and" 6 (Some 1) None; AIte 0 1 2; AQuantify 6 [0] false;
   AIte 0 99 1; AApply "nand" 6 (Some 1) None; AVar 9].
Definition wD : aworld := arun wA 0 dyn1.

(** the hypotheses of [C08b_history_dynamic] and
    [C08b_live_function_dynamic] (for handle 6) hold *)
Example C08b_dynamic_hypotheses_hold :
  AInvDT (aworld_get wA 0) ∧ Forall (fun o => a_allowedD o = true) dyn1 ∧
  Forall (fun o => o ≠ ADrop 6) dyn1.
Proof.
  split; [|split].
  - apply AInvDT_of_AInvT; [|by vm_compute].
    apply (arun_from_new2 lv1 pre1 0); [by vm_compute|].
    cbn [ahist_ok2 pre1]. repeat (split; [by vm_compute|]). done.
  - repeat (apply Forall_cons; split; [done|]). by apply Forall_nil.
  - repeat (apply Forall_cons; split; [congruence|]). by apply Forall_nil.
Qed.

Example C08b_example_dynamic :
  let a := aworld_get wA 0 in let d := aworld_get wD 0 in
  (fix go (w : aworld) (ops : list aop) : list (res value) :=
     match ops with
     | [] => []
     | o :: ops => snd (astep w 0 o) :: go (fst (astep w 0 o)) ops
     end) wA dyn1 =
  [Ok (VB false); Ok VU; Ok (VN 7); Ok (VN 8); Ok (VN 9);
   Err EKey; Err EValue; Err EValue] ∧
  (* a reordering happened, requests are enabled again *)
  map_to_list (vars (mgr d)) = [(0, 1); (1, 2); (3, 3); (2, 0)] ∧
  last_len (mgr d) = Some 16 ∧
  (* the old handles keep node and truth table *)
  handles d !! 6 = Some 10%Z ∧ tbl d 6 = tbl a 6 ∧ tbl d 0 = tbl a 0 ∧
  tbl d 1 = tbl a 1 ∧ tbl d 2 = tbl a 2 ∧ tbl d 3 = tbl a 3 ∧
  (* the counters are exact *)
  forallb (fun '(n, c) =>
      bool_decide (c = indeg (succ (mgr d)) n + (if decide (n = 1%positive) then 1 else 0) +
                   length (filter (fun p => absn (p.2) = n) (map_to_list (handles d)))))
    (map_to_list (refc (mgr d))) = true.
Proof. by vm_compute. Qed.
