(** * Property C03 — [quantify] (and the recursion [_quantify]) computes
      existential / universal abstraction over the given levels.  Only
      statements closed by [exact]; proofs live in [Proofs/Quantify.v].

      Vocabulary (defined in [Proofs/Quantify.v]):
      - [agree_off q a b]: the level assignments [a] and [b] agree on every
        level outside [q];
      - [qsem s fa q u a]: [∀ b, agree_off q a b → D s u b = true] when
        [fa = true], [∃ b, agree_off q a b ∧ D s u b = true] otherwise;
      - [ord_ok s u ord q]: every level of [q] at or below the level of [u]
        occurs in [ord];
      - [cache_ok s q fa cache]: every memo entry [k ↦ x] has [k], [x] valid,
        [lvl_of s k ≤ lvl_of s x] and [x] denotes the abstraction of [k]. *)
From DD Require Import Quantify.
Local Open Scope string_scope.

(** The definitions the statements below are read against. *)
Theorem C03_definitions :
  (∀ q a b, agree_off q a b ↔ ∀ j, j ∉ q → a j = b j) ∧
  (∀ s q u a, qsem s true q u a ↔ ∀ b, agree_off q a b → D s u b = true) ∧
  (∀ s q u a, qsem s false q u a ↔ ∃ b, agree_off q a b ∧ D s u b = true) ∧
  (∀ s u ord q, ord_ok s u ord q ↔ ∀ j, j ∈ q → lvl_of s u ≤ j → j ∈ ord) ∧
  (∀ s q fa cache, cache_ok s q fa cache ↔
     ∀ k x, cache !! k = Some x →
       valid s k ∧ valid s x ∧ lvl_of s k ≤ lvl_of s x ∧
       ∀ a, D s x a = true ↔ qsem s fa q k a).
Proof. by split_and!. Qed.

(** The recursion, for every manager satisfying the invariant, any memo
    whose entries are correct, any list [ord] that still contains the
    quantified levels at or below [u]; the only exceptions are the reordering
    request (nested call or reordering enabled) and the full table
    ([RuntimeError], only when a bound [max_nodes] is set). *)
Theorem C03_quantify_rec fuel s u ord q fa cache r s' :
  Inv s → valid s u → no_reorder s →
  ord_ok s u ord q →
  cache_ok s q fa cache →
  nvars s - lvl_of s u < fuel →
  quantify_rec fuel u ord q fa cache s = (r, s') →
  Inv s' ∧ extends s s' ∧ frame s s' ∧
  match r with
  | Ok (x, cache') => valid s' x ∧ lvl_of s u ≤ lvl_of s' x ∧ cache_ok s' q fa cache' ∧
        ∀ a, D s' x a = true ↔ qsem s fa q u a
  | Err e => (e = ENeedsReordering ∧ is_Some (last_len s)) ∨
               (e = ERuntime ∧ is_Some (max_nodes s))
  end.
Proof. exact (quantify_rec_spec fuel s u ord q fa cache r s'). Qed.

(** The top-level call starts the recursion in a state where its
    hypotheses hold. *)
Theorem C03_quantify_rec_initial s u q fa :
  ord_ok s u (sorted_levels q) q ∧ cache_ok s q fa ∅.
Proof. exact (conj (ord_ok_sorted_levels s u q) (cache_ok_empty s q fa)). Qed.

(** The public method, dynamic reordering disabled and no bound on the
    number of nodes ([max_nodes s = None]): whenever the quantified
    variables map to the level set [q], the call succeeds and the result
    denotes the abstraction of [u] over [q]; every old reference keeps its
    meaning ([extends]). *)
Theorem C03_quantify_correct s u byname qvars fa q r s' :
  Inv s → valid s u → last_len s = None → max_nodes s = None →
  fst (map_to_level_set byname qvars s) = Ok q →
  quantify u byname qvars fa s = (r, s') →
  ∃ x, r = Ok x ∧ Inv s' ∧ extends s s' ∧ valid s' x ∧
       ∀ a, D s' x a = true ↔ qsem s fa q u a.
Proof. exact (quantify_spec s u byname qvars fa q r s'). Qed.

(** The same with the hypothesis on [_map_to_level] stated in the state in
    which the decorated body runs. *)
Theorem C03_quantify_correct_ctx s u byname qvars fa q r s' :
  Inv s → valid s u → last_len s = None → max_nodes s = None →
  map_to_level_set byname qvars (s <| rctx := true |>) = (Ok q, s <| rctx := true |>) →
  quantify u byname qvars fa s = (r, s') →
  ∃ x, r = Ok x ∧ Inv s' ∧ extends s s' ∧ valid s' x ∧
       ∀ a, D s' x a = true ↔ qsem s fa q u a.
Proof. exact (quantify_spec_ctx s u byname qvars fa q r s'). Qed.

(** [_map_to_level] returns the state unchanged and does not read the
    context flag; for declared names (resp. declared levels) it returns the
    set of their levels. *)
Theorem C03_map_to_level_readonly bn ks s b :
  map_to_level_set bn ks s = (fst (map_to_level_set bn ks s), s) ∧
  map_to_level_set bn ks (s <| rctx := b |>)
  = (fst (map_to_level_set bn ks s), s <| rctx := b |>).
Proof. exact (conj (map_to_level_set_state bn ks s) (map_to_level_set_rctx bn ks s b)). Qed.

Theorem C03_map_to_level_names s ks ls :
  Forall2 (λ k l, vars s !! k = Some l) ks ls →
  map_to_level_set true ks s = (Ok (list_to_set ls), s).
Proof. exact (map_to_level_set_names s ks ls). Qed.

Theorem C03_map_to_level_levels s ks :
  Forall (λ k, is_Some (lvl2var s !! k)) ks →
  map_to_level_set false ks s = (Ok (list_to_set ks), s).
Proof. exact (map_to_level_set_levels s ks). Qed.

(** The result does not depend on the quantified levels (whenever the call
    returns: for every value of [max_nodes]). *)
Theorem C03_quantify_independent s u byname qvars fa q x s' a a' :
  Inv s → valid s u → last_len s = None →
  fst (map_to_level_set byname qvars s) = Ok q →
  quantify u byname qvars fa s = (Ok x, s') →
  agree_off q a a' → D s' x a = D s' x a'.
Proof. exact (quantify_indep s u byname qvars fa q x s' a a'). Qed.

(** Quantifying over levels on which [u] does not depend returns the very
    same reference; in particular for the empty set of variables. *)
Theorem C03_quantify_noop s u byname qvars fa q x s' :
  Inv s → valid s u → last_len s = None →
  fst (map_to_level_set byname qvars s) = Ok q →
  quantify u byname qvars fa s = (Ok x, s') →
  (∀ a b, agree_off q a b → D s u a = D s u b) →
  x = u.
Proof. exact (quantify_noop s u byname qvars fa q x s'). Qed.

Theorem C03_quantify_noop_empty s u byname qvars fa x s' :
  Inv s → valid s u → last_len s = None →
  fst (map_to_level_set byname qvars s) = Ok ∅ →
  quantify u byname qvars fa s = (Ok x, s') →
  x = u.
Proof. exact (quantify_noop_empty s u byname qvars fa x s'). Qed.

(** Non-vacuity, by running the model: a manager with three variables
    v0 < v1 < v2 and f = (v0 /\ v1) \/ v2 (reference 7).  The hypotheses of
    [C03_quantify_correct] are satisfiable, and
    - \E v1. f is a fresh node 8 = (v0 \/ v2) (the reference that [apply
      "or" v0 v2] then returns);
    - \A v1. f = v2 (reference 4);  \A v1. ~f = ~(\E v1. f) = -8 (the
      complemented edge is pushed down and the memo is keyed by the signed
      reference);
    - \E v0 v1. f (given as levels) = TRUE;
    - \E v2. f = TRUE although the recursion leaves through the "exhausted
      valuation" exit only below level 2;
    - quantifying over no variable returns the reference itself. *)
Example C03_nonvacuous :
  let w := fold_left (fun w o => fst (step w 0 o))
             [ONew [(0, 0); (1, 1); (2, 2)]; OVar 0; OVar 1; OVar 2;
              OApply "and" 2 (Some 3%Z) None; OApply "\/" 5 (Some 4%Z) None]
             world_empty in
  let s := world_get w 0 in
  mem 7 s = true ∧ last_len s = None ∧ max_nodes s = None ∧
  match fst (map_to_level_set true [1] s) with
  | Ok q => Some (elements q) | Err _ => None end = Some [1] ∧
  succ s !! 8%positive = None ∧
  snd (step w 0 (OQuantify 7 true [1] false)) = Ok (VZ 8) ∧
  succ (world_get (fst (step w 0 (OQuantify 7 true [1] false))) 0) !! 8%positive
    = Some (Triple 0 4 1) ∧
  snd (step (fst (step w 0 (OQuantify 7 true [1] false))) 0
         (OApply "or" 2 (Some 4%Z) None)) = Ok (VZ 8) ∧
  snd (step w 0 (OQuantify 7 true [1] true)) = Ok (VZ 4) ∧
  snd (step w 0 (OQuantify (-7) true [1] true)) = Ok (VZ (-8)) ∧
  snd (step w 0 (OQuantify 7 false [0; 1] false)) = Ok (VZ 1) ∧
  snd (step w 0 (OQuantify 7 true [2] false)) = Ok (VZ 1) ∧
  snd (step w 0 (OQuantify 7 true [] true)) = Ok (VZ 7).
Proof. by vm_compute. Qed.
