(** * C07c: [reorder(order)] through the autoref wrapper keeps the invariant
      and every live [Function] (the premise [keeps_refs] of
      [C08_with_reorder_partial] discharged in its true, held-nodes form) *)
From DD Require Import Sift10.

Theorem C07c_autoref_reorder w order a r a' :
  AInv a → run_aop w (AReorder order) a = (r, a') →
  r = Err EOracle ∨ (AInv a' ∧ AKeep (AReorder order) a a').
Proof. exact (run_aop_reorder_correct w order a r a'). Qed.

Theorem C07c_autoref_reorder_notape w order a r a' :
  AInv a → tape (mgr a) = [] → run_aop w (AReorder order) a = (r, a') →
  AInv a' ∧ AKeep (AReorder order) a a'.
Proof. exact (run_aop_reorder_notape w order a r a'). Qed.
