(** * Property C12 — dump/load round-trips: the pickle of roots
      ([_dump_bdd] / [load], [_load_pickle], [_load]) and the pickle of a whole
      manager ([_dump_manager] / [_load_manager]) of dd/bdd.py.  Only
      statements closed by [exact]; the proofs live in [Proofs/Pickle.v].

    The file is the record [pfile] (variables with their levels in the
    iteration order [vorder] of the [vars] dict, nodes in the iteration order
    [order] of the node collection, the roots container).  [dump_pickle]
    checks that [order] and [vorder] are duplicate-free enumerations of what
    they stand for (otherwise [EOracle]), so the theorems hold for EVERY
    iteration order.

    - [roots_rel P roots roots']: same container shape (None / list / dict
      with the same keys in the same positions) and [P u u'] position-wise;
    - [same_fun s r u u']: [u'] is a reference of [r] and
      [∀ ρ, denv r u' ρ = denv s u ρ] (same function of the variable NAMES). *)
From DD Require Import Pickle.
Local Open Scope string_scope.

(** ** Loading with [levels=True] into a FRESH manager ([BDD()]): the load
    succeeds, the receiver is consistent, has the variable order of the
    source, and every root denotes the function it denoted in the source.
    ([vorder] need not be sorted by level: in the middle of the variable loop
    the receiver has gaps in its levels.)  [roots = None] returns [None]. *)
Theorem C12_pickle_roundtrip_fresh s roots order vorder pf sd :
  Inv s → Forall (valid s) (roots_values roots) →
  dump_pickle roots order vorder s = (Ok pf, sd) →
  sd = s ∧
  ∃ roots' s1, load_pickle pf true init = (Ok roots', s1) ∧
    Inv s1 ∧ vars s1 = vars s ∧ lvl2var s1 = lvl2var s ∧
    roots_rel (same_fun s s1) roots roots'.
Proof. exact (pickle_roundtrip_fresh s roots order vorder pf sd). Qed.

(** ** Loading into the manager that wrote the file (dynamic reordering
    disabled): exactly the dumped references come back and the manager is
    untouched. *)
Theorem C12_pickle_roundtrip_same s roots order vorder pf sd :
  Inv s → last_len s = None → Forall (valid s) (roots_values roots) →
  dump_pickle roots order vorder s = (Ok pf, sd) →
  sd = s ∧ load_pickle pf true s = (Ok roots, s).
Proof. exact (pickle_roundtrip_same s roots order vorder pf sd). Qed.

(** ** Loading into any consistent manager [r] with the same variable order
    (reordering disabled): [r] only grows ([extends]) and the roots denote the
    same functions. *)
Theorem C12_pickle_roundtrip_into s roots order vorder pf sd r :
  Inv s → Forall (valid s) (roots_values roots) →
  dump_pickle roots order vorder s = (Ok pf, sd) →
  Inv r → vars r = vars s → lvl2var r = lvl2var s → last_len r = None →
  sd = s ∧
  ∃ roots' r', load_pickle pf true r = (Ok roots', r') ∧
    Inv r' ∧ extends r r' ∧ frame r r' ∧
    roots_rel (same_fun s r') roots roots'.
Proof. exact (pickle_roundtrip_into s roots order vorder pf sd r). Qed.

(** ** Whole-manager pickle: [_load_manager] (whatever manager [s0] it
    replaces) restores every table; the computed table is empty and dynamic
    reordering is off in the new manager. *)
Theorem C12_manager_roundtrip s vorder mf sd s0 :
  Inv s → dump_manager vorder s = (Ok mf, sd) →
  sd = s ∧
  ∃ s1, load_manager mf s0 = (Ok tt, s1) ∧
    succ s1 = succ s ∧ pred s1 = pred s ∧ refc s1 = refc s ∧
    min_free s1 = min_free s ∧ vars s1 = vars s ∧ lvl2var s1 = lvl2var s ∧
    roots s1 = roots s ∧ ite_tab s1 = ∅ ∧
    last_len s1 = None ∧ rctx s1 = false ∧ trig s1 = None ∧
    Inv s1 ∧ ∀ u ρ, denv s1 u ρ = denv s u ρ.
Proof. exact (manager_roundtrip s vorder mf sd s0). Qed.

(** ** Non-vacuity.  Three variables declared with levels v0:1, v1:0, v2:2;
    node 8 is (v0 <-> v1) \/ ~v2, so -8 is (v0 xor v1) /\ v2.  The dump names
    three roots (a complemented reference, a variable, the constant FALSE);
    the file orders are neither sorted by node nor by level. *)
Definition ex_world : world2 :=
  fold_left (fun w o => fst (step2 w 0 o))
    [O1 (ONew [(0, 1); (1, 0); (2, 2)]); O1 (OVar 0); O1 (OVar 1); O1 (OVar 2);
     O1 (OApply "xor" 2 (Some 3%Z) None); O1 (OApply "\/" 5 (Some (-4)%Z) None);
     O1 (OSetRoots [8%Z]);
     ODump 0 (RDict [(7, (-8)%Z); (3, 3%Z); (9, (-1)%Z)])
             [8; 3; 1; 6; 7; 4]%positive [2; 0; 1];
     ODump 1 RNone [4; 8; 2; 1; 7; 3; 6; 5]%positive [0; 1; 2];
     ODumpManager 5 [1; 2; 0]]
    world2_empty.

Definition names3 : list (nat → bool) :=
  (fun '(x, y, z) => fun v : nat =>
     match v with 0 => x | 1 => y | 2 => z | _ => false end) <$>
  [(false, false, false); (false, false, true); (false, true, false);
   (false, true, true); (true, false, false); (true, false, true);
   (true, true, false); (true, true, true)].

Example C12_nonvacuous :
  let s := world2_get ex_world 0 in
  (w_files ex_world !! 0 ≫= fun pf => Some (pf_vars pf)) = Some [(2, 2); (0, 1); (1, 0)] ∧
  (* fresh manager 1: other node numbers, same functions *)
  let w1 := fst (step2 ex_world 1 (O1 (ONew []))) in
  snd (step2 w1 1 (OLoad 0 true))
    = Ok (VL [VL [VN 7; VZ (-5)]; VL [VN 3; VZ 6]; VL [VN 9; VZ (-1)]]) ∧
  (let s1 := world2_get (fst (step2 w1 1 (OLoad 0 true))) 1 in
   (denv s1 (-5) <$> names3) = (denv s (-8) <$> names3) ∧
   (denv s1 6 <$> names3) = (denv s 3 <$> names3) ∧
   (denv s (-8) <$> names3) = [false; false; false; true; false; true; false; false] ∧
   bool_decide (vars s1 = vars s) = true ∧ len s1 = 6) ∧
  (* roots=None: the whole table, load returns None *)
  snd (step2 w1 1 (OLoad 1 true)) = Ok VU ∧
  len (world2_get (fst (step2 w1 1 (OLoad 1 true))) 1) = 8 ∧
  (* same manager: the same references, nothing changes *)
  snd (step2 ex_world 0 (OLoad 0 true))
    = Ok (VL [VL [VN 7; VZ (-8)]; VL [VN 3; VZ 3]; VL [VN 9; VZ (-1)]]) ∧
  digest (world2_get (fst (step2 ex_world 0 (OLoad 0 true))) 0) = digest s ∧
  (* whole manager into manager 2 *)
  snd (step2 ex_world 2 (OLoadManager 5)) = Ok VU ∧
  (let s2 := world2_get (fst (step2 ex_world 2 (OLoadManager 5))) 2 in
   bool_decide (succ s2 = succ s ∧ pred s2 = pred s ∧ refc s2 = refc s ∧
                min_free s2 = min_free s ∧ vars s2 = vars s ∧
                lvl2var s2 = lvl2var s ∧ roots s2 = [8%Z] ∧ ite_tab s2 = ∅) = true) ∧
  (* an enumeration that is not a permutation is refused by the model *)
  snd (step2 ex_world 0 (ODump 3 (RList [8%Z]) [8; 1]%positive [0; 1; 2])) = Err EOracle.
Proof. by vm_compute. Qed.

(** The hypothesis [last_len s = None] of [C12_pickle_roundtrip_same] is
    needed: with dynamic reordering enabled [_load] calls [find_or_add]
    outside [_try_to_reorder], so the reordering request escapes to the caller
    (known finding, cf. C09). *)
Example C12_reordering_request_escapes :
  let w := fst (step2 ex_world 0 (O1 (OSetLastLen (Some 1)))) in
  snd (step2 w 0 (OLoad 0 true)) = Err ENeedsReordering.
Proof. by vm_compute. Qed.
