(** * Property C12 — dump/load round-trips: the pickle of roots
      ([_dump_bdd] / [load], [_load_pickle], [_load]) and the pickle of a whole
      manager ([_dump_manager] / [_load_manager]) of dd/bdd.py.  Only
      statements closed by [exact]; the proofs live in [Proofs/Pickle.v].

    The file is the record [pfile] (variables with their levels in the
    iteration order [vorder] of the [vars] dict, nodes in the iteration order
    [order] of the node collection, the roots container).  [dump_pickle]
    checks that [order] and [vorder] are duplicate-free enumerations of what
    they stand for (otherwise [EOracle]), so the theorems hold for EVERY
    iteration order.

    - [roots_rel P roots roots']: same container shape (None / list / dict
      with the same keys in the same positions) and [P u u'] position-wise;
    - [same_fun s r u u']: [u'] is a reference of [r] and
      [∀ ρ, denv r u' ρ = denv s u ρ] (same function of the variable NAMES).

    The loader (since its repair in dd) rebuilds every node of the file with
    [ite(var at level_map[level], high, low)] instead of [find_or_add], and
    runs the node loop with reordering requests disabled.  Hence (i) the
    variable order of the receiver need not be that of the file
    ([levels=False]: [C12_pickle_roundtrip_other_order],
    [C12_pickle_roundtrip_any], [C12_pickle_roundtrip_fresh_names]); (ii) no
    theorem below assumes [last_len = None]: dynamic reordering may be
    enabled in the receiver, the threshold is restored by the load.

    The theorems that conclude that a load into an EXISTING manager succeeds
    assume that this manager has no bound on its number of nodes
    ([max_nodes = None], the default [sys.maxsize]): with a bound the loader's
    [find_or_add] can raise [RuntimeError] when the table is full.  A fresh
    manager ([init]) has no bound. *)
From DD Require Import Pickle.
Local Open Scope string_scope.

(** ** Loading with [levels=True] into a FRESH manager ([BDD()]): the load
    succeeds, the receiver is consistent, has the variable order of the
    source, and every root denotes the function it denoted in the source.
    ([vorder] need not be sorted by level: in the middle of the variable loop
    the receiver has gaps in its levels.)  [roots = None] returns [None]. *)
Theorem C12_pickle_roundtrip_fresh s roots order vorder pf sd :
  Inv s → Forall (valid s) (roots_values roots) →
  dump_pickle roots order vorder s = (Ok pf, sd) →
  sd = s ∧
  ∃ roots' s1, load_pickle pf true init = (Ok roots', s1) ∧
    Inv s1 ∧ vars s1 = vars s ∧ lvl2var s1 = lvl2var s ∧
    roots_rel (same_fun s s1) roots roots'.
Proof. exact (pickle_roundtrip_fresh s roots order vorder pf sd). Qed.

(** ** Loading into the manager that wrote the file, dynamic reordering
    enabled or not: exactly the dumped references come back (the manager is
    canonical), the manager only grows (the loader creates the variable nodes
    and fills the computed table; [extends]: the nodes of [s] are kept, same
    variable order; [frame]: [last_len], the reordering context, the roots
    and the oracle tape are unchanged). *)
Theorem C12_pickle_roundtrip_same s roots order vorder pf sd :
  Inv s → max_nodes s = None → Forall (valid s) (roots_values roots) →
  dump_pickle roots order vorder s = (Ok pf, sd) →
  sd = s ∧
  ∃ s', load_pickle pf true s = (Ok roots, s') ∧
    Inv s' ∧ extends s s' ∧ frame s s' ∧ last_len s' = last_len s.
Proof. exact (pickle_roundtrip_same s roots order vorder pf sd). Qed.

(** ** Loading with [levels=True] into any consistent manager [r] with the
    same variable order (dynamic reordering enabled or not): [r] only grows
    and the roots denote the same functions. *)
Theorem C12_pickle_roundtrip_into s roots order vorder pf sd r :
  Inv s → Forall (valid s) (roots_values roots) →
  dump_pickle roots order vorder s = (Ok pf, sd) →
  Inv r → max_nodes r = None → vars r = vars s → lvl2var r = lvl2var s →
  sd = s ∧
  ∃ roots' r', load_pickle pf true r = (Ok roots', r') ∧
    Inv r' ∧ extends r r' ∧ frame r r' ∧ last_len r' = last_len r ∧
    roots_rel (same_fun s r') roots roots'.
Proof. exact (pickle_roundtrip_into s roots order vorder pf sd r). Qed.

(** ** Loading with [levels=False] into any consistent manager [r] that
    declares every variable of the file, in ANY order, and possibly other
    variables (dynamic reordering enabled or not): the load succeeds, [r]
    only grows, keeps ITS variable order and its threshold, and the roots
    denote the same functions of the variable names.  No side condition on
    the oracle fields ([tape], [trig]) is needed: the node loop runs with
    requests disabled, so it reads neither. *)
Theorem C12_pickle_roundtrip_other_order s roots order vorder pf sd r :
  Inv s → Forall (valid s) (roots_values roots) →
  dump_pickle roots order vorder s = (Ok pf, sd) →
  Inv r → max_nodes r = None → dom (vars s) ⊆ dom (vars r) →
  sd = s ∧
  ∃ roots' r', load_pickle pf false r = (Ok roots', r') ∧
    Inv r' ∧ extends r r' ∧ frame r r' ∧
    vars r' = vars r ∧ lvl2var r' = lvl2var r ∧ last_len r' = last_len r ∧
    roots_rel (same_fun s r') roots roots'.
Proof. exact (pickle_roundtrip_other_order s roots order vorder pf sd r). Qed.

(** ** Loading with [levels=False] into ANY consistent manager [r], whatever
    variables it declares: the variables of [r] keep their levels
    ([vars r ⊆ vars r']), the variables of the file that [r] does not know
    are declared below them — in the iteration order [vorder] of the file
    when [r] knows none of them —, every reference of [r] keeps its meaning,
    and the roots denote the same functions of the variable names.  ([r'] is
    not an extension of [r] in general: declaring a variable moves the
    terminal node one level down.) *)
Theorem C12_pickle_roundtrip_any s roots order vorder pf sd r :
  Inv s → Forall (valid s) (roots_values roots) →
  dump_pickle roots order vorder s = (Ok pf, sd) →
  Inv r → max_nodes r = None →
  sd = s ∧
  ∃ roots' r', load_pickle pf false r = (Ok roots', r') ∧
    Inv r' ∧ frame r r' ∧ last_len r' = last_len r ∧
    vars r ⊆ vars r' ∧ dom (vars r') = dom (vars r) ∪ dom (vars s) ∧
    (∀ u, valid r u → valid r' u ∧ ∀ ρ, denv r' u ρ = denv r u ρ) ∧
    roots_rel (same_fun s r') roots roots' ∧
    (dom (vars s) ⊆ dom (vars r) → extends r r') ∧
    (dom (vars s) ## dom (vars r) →
     ∀ k v, vorder !! k = Some v → vars r' !! v = Some (nvars r + k)).
Proof. exact (pickle_roundtrip_any s roots order vorder pf sd r). Qed.

(** ** Loading with [levels=False] into a FRESH manager: the variables are
    declared in the iteration order [vorder] of the file's [vars] dict,
    whatever their levels in the source. *)
Theorem C12_pickle_roundtrip_fresh_names s roots order vorder pf sd :
  Inv s → Forall (valid s) (roots_values roots) →
  dump_pickle roots order vorder s = (Ok pf, sd) →
  sd = s ∧
  ∃ roots' s1, load_pickle pf false init = (Ok roots', s1) ∧
    Inv s1 ∧ dom (vars s1) = dom (vars s) ∧
    (∀ k v, vorder !! k = Some v → vars s1 !! v = Some k) ∧
    roots_rel (same_fun s s1) roots roots'.
Proof. exact (pickle_roundtrip_fresh_names s roots order vorder pf sd). Qed.

(** ** Whole-manager pickle: [_load_manager] (whatever manager [s0] it
    replaces) restores every table and the bound [max_nodes]; the computed
    table is empty and dynamic reordering is off in the new manager. *)
Theorem C12_manager_roundtrip s vorder mf sd s0 :
  Inv s → dump_manager vorder s = (Ok mf, sd) →
  sd = s ∧
  ∃ s1, load_manager mf s0 = (Ok tt, s1) ∧
    succ s1 = succ s ∧ pred s1 = pred s ∧ refc s1 = refc s ∧
    min_free s1 = min_free s ∧ vars s1 = vars s ∧ lvl2var s1 = lvl2var s ∧
    roots s1 = roots s ∧ ite_tab s1 = ∅ ∧
    last_len s1 = None ∧ rctx s1 = false ∧ trig s1 = None ∧
    max_nodes s1 = max_nodes s ∧
    Inv s1 ∧ ∀ u ρ, denv s1 u ρ = denv s u ρ.
Proof. exact (manager_roundtrip s vorder mf sd s0). Qed.

(** ** Non-vacuity.  Three variables declared with levels v0:1, v1:0, v2:2;
    node 8 is (v0 <-> v1) \/ ~v2, so -8 is (v0 xor v1) /\ v2.  The dump names
    three roots (a complemented reference, a variable, the constant FALSE);
    the file orders are neither sorted by node nor by level. *)
Definition ex_world : world2 :=
  fold_left (fun w o => fst (step2 w 0 o))
    [O1 (ONew [(0, 1); (1, 0); (2, 2)]); O1 (OVar 0); O1 (OVar 1); O1 (OVar 2);
     O1 (OApply "xor" 2 (Some 3%Z) None); O1 (OApply "\/" 5 (Some (-4)%Z) None);
     O1 (OSetRoots [8%Z]);
     ODump 0 (RDict [(7, (-8)%Z); (3, 3%Z); (9, (-1)%Z)])
             [8; 3; 1; 6; 7; 4]%positive [2; 0; 1];
     ODump 1 RNone [4; 8; 2; 1; 7; 3; 6; 5]%positive [0; 1; 2];
     ODumpManager 5 [1; 2; 0]]
    world2_empty.

Definition names3 : list (nat → bool) :=
  (fun '(x, y, z) => fun v : nat =>
     match v with 0 => x | 1 => y | 2 => z | _ => false end) <$>
  [(false, false, false); (false, false, true); (false, true, false);
   (false, true, true); (true, false, false); (true, false, true);
   (true, true, false); (true, true, true)].

Example C12_nonvacuous :
  let s := world2_get ex_world 0 in
  (w_files ex_world !! 0 ≫= fun pf => Some (pf_vars pf)) = Some [(2, 2); (0, 1); (1, 0)] ∧
  (* fresh manager 1: other node numbers, same functions *)
  let w1 := fst (step2 ex_world 1 (O1 (ONew []))) in
  snd (step2 w1 1 (OLoad 0 true))
    = Ok (VL [VL [VN 7; VZ (-7)]; VL [VN 3; VZ 6]; VL [VN 9; VZ (-1)]]) ∧
  (let s1 := world2_get (fst (step2 w1 1 (OLoad 0 true))) 1 in
   (denv s1 (-7) <$> names3) = (denv s (-8) <$> names3) ∧
   (denv s1 6 <$> names3) = (denv s 3 <$> names3) ∧
   (denv s (-8) <$> names3) = [false; false; false; true; false; true; false; false] ∧
   (* the 6 nodes of the file and the variable node of v0, which the
      loader creates for [ite] *)
   bool_decide (vars s1 = vars s) = true ∧ len s1 = 7) ∧
  (* roots=None: the whole table, load returns None *)
  snd (step2 w1 1 (OLoad 1 true)) = Ok VU ∧
  len (world2_get (fst (step2 w1 1 (OLoad 1 true))) 1) = 8 ∧
  (* same manager: the same references, no new node *)
  snd (step2 ex_world 0 (OLoad 0 true))
    = Ok (VL [VL [VN 7; VZ (-8)]; VL [VN 3; VZ 3]; VL [VN 9; VZ (-1)]]) ∧
  bool_decide (succ (world2_get (fst (step2 ex_world 0 (OLoad 0 true))) 0) = succ s) = true ∧
  (* whole manager into manager 2 *)
  snd (step2 ex_world 2 (OLoadManager 5)) = Ok VU ∧
  (let s2 := world2_get (fst (step2 ex_world 2 (OLoadManager 5))) 2 in
   bool_decide (succ s2 = succ s ∧ pred s2 = pred s ∧ refc s2 = refc s ∧
                min_free s2 = min_free s ∧ vars s2 = vars s ∧
                lvl2var s2 = lvl2var s ∧ roots s2 = [8%Z] ∧ ite_tab s2 = ∅) = true) ∧
  (* an enumeration that is not a permutation is refused by the model *)
  snd (step2 ex_world 0 (ODump 3 (RList [8%Z]) [8; 1]%positive [0; 1; 2])) = Err EOracle.
Proof. by vm_compute. Qed.

(** Dynamic reordering ENABLED in the manager that loads its own file (the
    threshold 1 is exceeded by the 8 nodes of the manager, so every
    [find_or_add] outside the guard would raise the request): the load
    returns the dumped references and the threshold is still [Some 1].
    (Before the repair of dd the internal [_NeedsReordering] escaped to the
    caller here.) *)
Example C12_load_with_reordering_enabled :
  let w := fst (step2 ex_world 0 (O1 (OSetLastLen (Some 1)))) in
  snd (step2 w 0 (OLoad 0 true))
    = Ok (VL [VL [VN 7; VZ (-8)]; VL [VN 3; VZ 3]; VL [VN 9; VZ (-1)]]) ∧
  last_len (world2_get (fst (step2 w 0 (OLoad 0 true))) 0) = Some 1.
Proof. by vm_compute. Qed.

(** Another variable ORDER.  Manager 3 declares v2:0, v1:1, v3:2, v0:3 (the
    file has v1:0, v0:1, v2:2), holds two nodes and has dynamic reordering
    enabled.  Loading file 0 with [levels=False]: other references, the same
    truth tables by NAME; the order and the threshold of manager 3 are
    unchanged.  With [levels=True] the same load is refused ([ValueError]:
    the levels of the file contradict those of the manager).  Into the fresh
    manager 4 the variables are declared in the file's iteration order
    [2; 0; 1]. *)
Definition ex_world3 : world2 :=
  fold_left (fun w o => fst (step2 w 3 o))
    [O1 (ONew [(0, 3); (1, 1); (2, 0); (3, 2)]); O1 (OVar 3); O1 (OVar 0);
     O1 (OSetLastLen (Some 1))]
    ex_world.

Example C12_other_order :
  let s := world2_get ex_world 0 in
  let r := world2_get ex_world3 3 in
  snd (step2 ex_world3 3 (OLoad 0 false))
    = Ok (VL [VL [VN 7; VZ (-9)]; VL [VN 3; VZ 7]; VL [VN 9; VZ (-1)]]) ∧
  (let r' := world2_get (fst (step2 ex_world3 3 (OLoad 0 false))) 3 in
   (denv r' (-9) <$> names3) = (denv s (-8) <$> names3) ∧
   (denv r' 7 <$> names3) = (denv s 3 <$> names3) ∧
   (denv s (-8) <$> names3) = [false; false; false; true; false; true; false; false] ∧
   (denv s 3 <$> names3) = [false; false; true; true; false; false; true; true] ∧
   map_to_list (vars r') = [(0, 3); (1, 1); (3, 2); (2, 0)] ∧
   bool_decide (vars r' = vars r ∧ lvl2var r' = lvl2var r ∧ succ r ⊆ succ r') = true ∧
   last_len r' = Some 1 ∧ len r = 3 ∧ len r' = 9) ∧
  snd (step2 ex_world3 3 (OLoad 0 true)) = Err EValue ∧
  (let w4 := fst (step2 ex_world 4 (O1 (ONew []))) in
   snd (step2 w4 4 (OLoad 0 false))
     = Ok (VL [VL [VN 7; VZ (-8)]; VL [VN 3; VZ 6]; VL [VN 9; VZ (-1)]]) ∧
   let s4 := world2_get (fst (step2 w4 4 (OLoad 0 false))) 4 in
   map_to_list (vars s4) = [(0, 1); (1, 2); (2, 0)] ∧
   (denv s4 (-8) <$> names3) = (denv s (-8) <$> names3) ∧
   (denv s4 6 <$> names3) = (denv s 3 <$> names3)).
Proof. by vm_compute. Qed.

(** The bound [max_nodes] travels with the whole-manager pickle: manager 0
    gets the bound 9 (it holds 8 nodes), is dumped, and manager 2 loaded from
    the file has the bound 9.  With the bound 8 the table of manager 0 is
    full: loading file 0 back into it still succeeds here (every node of the
    file is found, none is created), whereas loading it with [levels=False]
    into manager 3 bounded at its current size fails with [RuntimeError] —
    the hypothesis [max_nodes r = None] of the theorems above cannot be
    dropped. *)
Example C12_max_nodes :
  let w := fst (step2 ex_world 0 (O1 (OSetMaxNodes (Some 9%positive)))) in
  let w' := fst (step2 w 0 (ODumpManager 6 [0; 1; 2])) in
  snd (step2 w' 2 (OLoadManager 6)) = Ok VU ∧
  max_nodes (world2_get (fst (step2 w' 2 (OLoadManager 6))) 2) = Some 9%positive ∧
  max_nodes (world2_get (fst (step2 ex_world 2 (OLoadManager 5))) 2) = None ∧
  (let w3 := fst (step2 ex_world3 3 (O1 (OSetMaxNodes (Some 4%positive)))) in
   snd (step2 w3 3 (OLoad 0 false)) = Err ERuntime) ∧
  (let w8 := fst (step2 ex_world 0 (O1 (OSetMaxNodes (Some 8%positive)))) in
   snd (step2 w8 0 (OLoad 0 true))
     = Ok (VL [VL [VN 7; VZ (-8)]; VL [VN 3; VZ 3]; VL [VN 9; VZ (-1)]])).
Proof. by vm_compute. Qed.
