(** * Property C10 — support, counting and enumeration of models.

    "support(u) is exactly the set of variables u depends on (and
    is_essential agrees); count(u, n) is the number of satisfying assignments
    over n variables for every n not smaller than the support and is refused
    for smaller n.  pick_iter(u, care_vars) yields assignments that each
    satisfy u however completed, mention every care variable, never overlap,
    and together cover all models of u (with the default they are exactly the
    models over the support, count(u) many); pick returns one of them, or
    None exactly for false."

    Only statements closed by [exact]; proofs live in [Proofs/Support.v],
    [Proofs/SatCount.v], [Proofs/Pick.v].  All operations are read-only
    ([s' = s]) and never fail on a valid reference of a manager satisfying
    [Inv] (no fuel exhaustion, no assertion, no key error). *)
From DD Require Import Pick Driver2.
Local Open Scope string_scope.

(** ** Support *)

(** [depends s u l]: flipping level [l] changes the value of [u] under some
    assignment.  [support(u, as_levels=True)] is exactly that set. *)
Theorem C10_support_levels s u r s' : Inv s → valid s u →
  support_levels u s = (r, s') →
  s' = s ∧ ∃ X, r = Ok X ∧ ∀ l, l ∈ X ↔ depends s u l.
Proof. exact (support_levels_spec s u r s'). Qed.

(** [support(u)], by variable names. *)
Theorem C10_support s u r s' : Inv s → valid s u →
  support u s = (r, s') →
  s' = s ∧ ∃ X, r = Ok X ∧
    ∀ v, v ∈ X ↔ ∃ l, vars s !! v = Some l ∧ depends s u l.
Proof. exact (support_spec s u r s'). Qed.

(** [is_essential(u, var)] agrees (undeclared names are not essential). *)
Theorem C10_is_essential s u v r s' : Inv s → valid s u →
  is_essential u v s = (r, s') →
  s' = s ∧ ∃ b, r = Ok b ∧
    (b = true ↔ ∃ l, vars s !! v = Some l ∧ depends s u l).
Proof. exact (is_essential_spec s u v r s'). Qed.

(** Semantic dependence coincides with labelling a reachable node (this is
    where reducedness and canonicity enter), and canonicity has a
    constructive reading: different references are told apart by an
    assignment. *)
Theorem C10_depends_iff_occurs s u l : Inv s → valid s u →
  depends s u l ↔ occurs s u l.
Proof. exact (fun HI => depends_iff_occurs s HI u l). Qed.

Theorem C10_distinct_witness s u v : Inv s → valid s u → valid s v → u ≠ v →
  ∃ a, D s u a ≠ D s v a.
Proof. exact (fun HI => distinct_witness s HI u v). Qed.

(** ** Counting *)

(** [nsat s u ls a]: the number of assignments to the levels [ls] (the other
    levels fixed by [a]) that satisfy [u].  With [X] the support levels,
    [count(u)] is [nsat] over [X]; [count(u, k)] multiplies by
    [2^(k - |X|)]; [k < |X|] is refused with [ValueError]. *)
Theorem C10_count s u n r s' X : Inv s → valid s u →
  support_levels u s = (Ok X, s) →
  count u n s = (r, s') → s' = s ∧
  match n with
  | Some k => if decide (k < size X) then r = Err EValue
              else r = Ok (nsat s u (elements X) (fun _ => false) *
                           2 ^ Z.of_nat (k - size X))%Z
  | None => r = Ok (nsat s u (elements X) (fun _ => false))
  end.
Proof. exact (count_spec s u n r s' X). Qed.

(** The same read as "the number of satisfying assignments over [k]
    variables": the support together with any [k - |X|] other levels, the
    remaining levels fixed arbitrarily. *)
Theorem C10_count_over_variables s u k r s' X extra a : Inv s → valid s u →
  support_levels u s = (Ok X, s) →
  size X ≤ k → length extra = k - size X → (∀ l, l ∈ extra → l ∉ X) →
  count u (Some k) s = (r, s') →
  s' = s ∧ r = Ok (nsat s u (extra ++ elements X) a).
Proof. exact (count_spec_vars s u k r s' X extra a). Qed.

(** [nsat] is a count: it does not depend on the order of the levels, nor,
    over the support, on the assignment outside it; it lies in [0, 2^|ls|]. *)
Theorem C10_nsat_perm s u l1 l2 : l1 ≡ₚ l2 → ∀ a, nsat s u l1 a = nsat s u l2 a.
Proof. exact (nsat_perm s u l1 l2). Qed.

Theorem C10_nsat_support_indep s u ls a b : Inv s → valid s u →
  (∀ j, occurs s u j → j ∈ ls) → nsat s u ls a = nsat s u ls b.
Proof. exact (nsat_support_indep s u ls a b). Qed.

Theorem C10_nsat_bounds s u ls a :
  (0 ≤ nsat s u ls a ≤ 2 ^ Z.of_nat (length ls))%Z.
Proof. exact (nsat_bounds s u ls a). Qed.

(** ** Enumeration *)

(** [pick_iter(u, care_vars)] as the list of yielded assignments ([sup] is
    [support(u)], [C] the care set, the support by default):
    - every assignment mentions every care variable, and only care variables
      and variables of the support;
    - every valuation that extends an assignment satisfies [u];
    - two assignments yielded at different positions disagree on a common
      variable;
    - every model of [u] extends one of the assignments;
    - nothing is yielded exactly for the constant false. *)
Theorem C10_pick_iter s u care sup r s' : Inv s → valid s u →
  support u s = (Ok sup, s) →
  pick_iter u care s = (r, s') →
  s' = s ∧ ∃ ms, r = Ok ms ∧
    let C : gset nat := match care with None => sup | Some l => list_to_set l end in
    (∀ m, m ∈ ms →
       (∀ k, k ∈ C → is_Some (m !! k)) ∧
       (∀ k, is_Some (m !! k) → k ∈ C ∨ k ∈ sup) ∧
       (∀ ρ, (∀ k b, m !! k = Some b → ρ k = b) → denv s u ρ = true)) ∧
    (∀ i j m1 m2, i ≠ j → ms !! i = Some m1 → ms !! j = Some m2 →
       ∃ k b, m1 !! k = Some b ∧ m2 !! k = Some (negb b)) ∧
    (∀ ρ, denv s u ρ = true →
       ∃ m, m ∈ ms ∧ ∀ k b, m !! k = Some b → ρ k = b) ∧
    (ms = [] ↔ u = (-1)%Z).
Proof. exact (pick_iter_spec s u care sup r s'). Qed.

(** With the default care set the assignments are total on the support and
    on nothing else, pairwise different, and there are [count(u)] of them;
    together with [C10_pick_iter] (sound, covering) they are exactly the
    models of [u] over its support. *)
Theorem C10_pick_iter_default s u X r s' : Inv s → valid s u →
  support_levels u s = (Ok X, s) →
  pick_iter u None s = (r, s') →
  s' = s ∧ ∃ ms sup, support u s = (Ok sup, s) ∧ r = Ok ms ∧
    (∀ m, m ∈ ms → dom m = sup) ∧ NoDup ms ∧
    Z.of_nat (length ms) = nsat s u (elements X) (fun _ => false) ∧
    count u None s = (Ok (Z.of_nat (length ms)), s).
Proof. exact (pick_iter_default s u X r s'). Qed.

(** [pick] returns the first assignment of [pick_iter], and [None] exactly
    for the constant false. *)
Theorem C10_pick s u care r s' : Inv s → valid s u →
  pick u care s = (r, s') →
  s' = s ∧ ∃ ms, pick_iter u care s = (Ok ms, s) ∧ r = Ok (head ms) ∧
    (head ms = None ↔ u = (-1)%Z).
Proof. exact (pick_spec s u care r s'). Qed.

(** The cubes of [_sat_iter] are the paths of the diagram to TRUE. *)
Theorem C10_sat_iter s fuel : Inv s → ∀ u cube v r s',
  valid s u → nvars s - lvl_of s u < fuel →
  (∀ i b, (i, b) ∈ cube → i < nvars s) →
  sat_iter fuel u cube v s = (r, s') →
  s' = s ∧ r = Ok ((fun p => namec s (cube ++ p)) <$> paths fuel s u v).
Proof. exact (sat_iter_spec s fuel). Qed.

(** Non-vacuity: a manager with four variables; node 7 is
    (v0 /\ v1) \/ v2, node 5 is v0 /\ v1.  The results below are the ones
    the implementation returns on the same calls. *)
Example C10_run :
  let w := fold_left (fun w o => fst (step2 w 0 o))
             [O1 (ONew [(0, 0); (1, 1); (2, 2); (3, 3)]);
              O1 (OVar 0); O1 (OVar 1); O1 (OVar 2);
              O1 (OApply "and" 2 (Some 3%Z) None);
              O1 (OApply "\/" 5 (Some 4%Z) None)]
             world2_empty in
  let s := world2_get w 0 in
  let asg l := VL ((fun '(k, b) => VL [VN k; VB b]) <$> l) in
  mem 7 s = true ∧ mem 5 s = true ∧
  snd (step2 w 0 (O1 (OSupport 7))) = Ok (VL [VN 0; VN 1; VN 2]) ∧
  snd (step2 w 0 (O1 (OSupport 5))) = Ok (VL [VN 0; VN 1]) ∧
  snd (step2 w 0 (O1 (OIsEssential 7 2))) = Ok (VB true) ∧
  snd (step2 w 0 (O1 (OIsEssential 5 2))) = Ok (VB false) ∧
  snd (step2 w 0 (OCount 7 None)) = Ok (VZ 5) ∧
  snd (step2 w 0 (OCount 7 (Some 4))) = Ok (VZ 10) ∧
  snd (step2 w 0 (OCount 7 (Some 2))) = Err EValue ∧
  snd (step2 w 0 (OCount (-7) None)) = Ok (VZ 3) ∧
  snd (step2 w 0 (OPickIter 7 None)) =
    Ok (VL [asg [(0, false); (1, false); (2, true)];
            asg [(0, false); (1, true); (2, true)];
            asg [(0, true); (1, false); (2, true)];
            asg [(0, true); (1, true); (2, false)];
            asg [(0, true); (1, true); (2, true)]]) ∧
  snd (step2 w 0 (OPickIter 5 (Some [0; 3]))) =
    Ok (VL [asg [(0, true); (1, true); (3, false)];
            asg [(0, true); (1, true); (3, true)]]) ∧
  snd (step2 w 0 (OPick 7 None)) = Ok (asg [(0, false); (1, false); (2, true)]) ∧
  snd (step2 w 0 (OPick (-1) None)) = Ok VU ∧
  snd (step2 w 0 (OPick 1 None)) = Ok (VL []).
Proof. by vm_compute. Qed.
