(** * C07: reordering never changes what a held reference denotes.

    The adjacent-level swap of the model ([Model/Reorder.v], mirroring
    [dd.bdd.BDD.swap], bdd.py:1632-1849) is correct for EVERY iteration order
    of the two level sets (the oracle tape): unless the tape is rejected as
    not being a permutation ([Err EOracle], which has no Python counterpart),
    the call succeeds, none of its internal assertions can fire, and

    - the result is a well-formed manager with exact reference counts
      (same ledger of external references),
    - the returned level sets are again exact,
    - the two variables exchanged their levels,
    - every reference that is valid before and after denotes the same
      function BY VARIABLE NAME,
    - every externally referenced node (and the terminal) survives, and
      only nodes of the old level [x+1] can disappear at all.

    With a bounded table ([max_nodes = Some n]) there is one more outcome: the
    pre-check of [swap] (dd 6c37b8b) refuses the call with [RuntimeError]
    BEFORE anything is written ([s' = s]; for [all_levels=None] only the
    initial collection has happened).  Once the pre-check has passed, no
    [find_or_add] inside the swap can meet a full table: the swap never stops
    midway (the counting argument is [FindOrAdd.find_or_add_room] threaded
    through the loop as [SwapB.room]). *)
From DD Require Import Swap SwapJ.

Theorem C07_swap_correct s x al L r s' :
  Inv s → Counts s L → last_len s = None →
  x + 1 < nvars s →
  levels_ok s al →
  swap x (x + 1) (Some al) s = (r, s') →
  r = Err EOracle ∨
  (r = Err ERuntime ∧ s' = s ∧ is_Some (max_nodes s)) ∨
  ∃ oldn newn al', r = Ok ((oldn, newn), al') ∧
    Inv s' ∧ Counts s' L ∧ levels_ok s' al' ∧ oldn = len s ∧ newn = len s' ∧
    (∀ v l, vars s !! v = Some l →
       vars s' !! v = Some (if decide (l = x) then x + 1
                            else if decide (l = x + 1) then x else l)) ∧
    (∀ u, valid s u → valid s' u → ∀ ρ, denv s' u ρ = denv s u ρ) ∧
    (∀ n, n = 1%positive ∨ 0 < L n → n ∈ dom (succ s')) ∧
    (∀ n t, succ s !! n = Some t → t_lvl t ≠ x + 1 → n ∈ dom (succ s')) ∧
    last_len s' = None.
Proof. exact (swap_correct s x al L r s'). Qed.

(** [_levels()] computes exact level sets *)
Theorem C07_levels_spec s : Inv s → ∃ al, levels_ s = (Ok al, s) ∧ levels_ok s al.
Proof. exact (levels_spec s). Qed.

(** the public calling conventions: arguments in either order, and
    [all_levels=None] (a full collection runs first, so node numbers of
    unreferenced nodes may be reused: the statement is about HELD references) *)
Theorem C07_swap_correct_any s x y all_levels L r s' :
  Inv s → Counts s L → last_len s = None →
  y = x + 1 ∨ x = y + 1 → x < nvars s → y < nvars s →
  match all_levels with Some al => levels_ok s al | None => True end →
  swap x y all_levels s = (r, s') →
  r = Err EOracle ∨
  (r = Err ERuntime ∧ is_Some (max_nodes s) ∧
   match all_levels with
   | Some _ => s' = s
   | None => collect_garbage None s = (Ok tt, s')
   end) ∨
  ∃ oldn newn al', r = Ok ((oldn, newn), al') ∧
    Inv s' ∧ Counts s' L ∧ levels_ok s' al' ∧ oldn ≤ len s ∧ newn = len s' ∧
    (∀ v l, vars s !! v = Some l →
       vars s' !! v = Some (if decide (l = x) then y else if decide (l = y) then x else l)) ∧
    (∀ u, u ≠ 0%Z → absn u = 1%positive ∨ 0 < L (absn u) →
       valid s u ∧ valid s' u ∧ ∀ ρ, denv s' u ρ = denv s u ρ) ∧
    last_len s' = None.
Proof. exact (swap_correct_any s x y all_levels L r s'). Qed.

(** the public entry point [BDD.swap] (model: [swap_pub], the operation
    [OSwap] of the driver), for ANY setting of dynamic reordering: requests
    are disabled during the call and the threshold is restored *)
Theorem C07_swap_pub_correct s x y L r s' :
  Inv s → Counts s L →
  y = x + 1 ∨ x = y + 1 → x < nvars s → y < nvars s →
  swap_pub x y s = (r, s') →
  r = Err EOracle ∨
  (r = Err ERuntime ∧ is_Some (max_nodes s) ∧
   ∃ s1, collect_garbage None (s <| last_len := None |>) = (Ok tt, s1) ∧
         s' = s1 <| last_len := last_len s |>) ∨
  ∃ oldn newn al', r = Ok ((oldn, newn), al') ∧
    Inv s' ∧ Counts s' L ∧ levels_ok s' al' ∧ oldn ≤ len s ∧ newn = len s' ∧
    (∀ v l, vars s !! v = Some l →
       vars s' !! v = Some (if decide (l = x) then y else if decide (l = y) then x else l)) ∧
    (∀ u, u ≠ 0%Z → absn u = 1%positive ∨ 0 < L (absn u) →
       valid s u ∧ valid s' u ∧ ∀ ρ, denv s' u ρ = denv s u ρ) ∧
    last_len s' = last_len s.
Proof. exact (swap_pub_correct s x y L r s'). Qed.

(** the semantic core: after the last loop and the exchange of the two
    variables (before the collection), every old reference denotes what it
    denoted, read through the transposition of the two levels *)
Theorem C07_swap_sem s0 x vx vy s :
  Inv s0 → x + 1 < nvars s0 →
  lvl2var s0 !! x = Some vx → lvl2var s0 !! (x + 1) = Some vy →
  Mid s0 x s ∅ →
  ∀ u, valid s0 u → ∀ b, D (swap_vars s x vx vy) u b = D s0 u (fun l => b (tr x l)).
Proof. intros HI Hy Hvx Hvy. exact (swap_sem s0 HI x Hy vx vy Hvx Hvy s). Qed.

(** ** A run of the model: f = (v0 ∧ v1) ∨ v2 on three variables.
    Node 7 = (level 0, low 4, high 6) depends on level 1 through its high
    child 6 = (1, 4, 1); swapping levels 0 and 1 rewrites node 7 IN PLACE to
    (0, 4, 2) with the fresh node 2 = (1, 4, 1).  The held reference keeps
    its number and its function by variable name. *)
Definition run (ops : list op) : world * list (res value) :=
  foldl (fun '(w, rs) o => let '(w', r) := step w 0 o in (w', rs ++ [r]))
        (world_empty, []) ops.
Definition ops_pre : list op :=
  [ONew [(0, 0); (1, 1); (2, 2)]; OVar 0; OVar 1; OVar 2;
   OApply "and"%string 2%Z (Some 3%Z) None; OApply "or"%string 5%Z (Some 4%Z) None;
   OIncref 7%Z].
Definition s_pre : st := world_get (fst (run ops_pre)) 0.
Definition s_post : st := world_get (fst (run (ops_pre ++ [OSwap 0 1]))) 0.
Definition assigns : list (nat → bool) :=
  (fun bits v => nth v bits false) <$>
  [[false; false; false]; [false; false; true]; [false; true; false]; [false; true; true];
   [true; false; false]; [true; false; true]; [true; true; false]; [true; true; true]].

Example C07_swap_example :
  snd (run (ops_pre ++ [OSwap 0 1])) =
    [Ok VU; Ok (VZ 2); Ok (VZ 3); Ok (VZ 4); Ok (VZ 5); Ok (VZ 7); Ok VU;
     Ok (VL [VN 4; VN 4])] ∧
  succ s_pre !! 7%positive = Some (Triple 0 4 6) ∧
  succ s_pre !! 6%positive = Some (Triple 1 4 1) ∧
  succ s_post !! 7%positive = Some (Triple 0 4 2) ∧
  succ s_post !! 2%positive = Some (Triple 1 4 1) ∧
  refc s_post !! 7%positive = Some 1 ∧
  map_to_list (vars s_post) = [(0, 1); (1, 0); (2, 2)] ∧
  forallb (fun ρ => bool_decide (denv s_post 7 ρ = denv s_pre 7 ρ)) assigns = true.
Proof. vm_compute. repeat split; reflexivity. Qed.

(** ** A clause that is FALSE of the model (and of the implementation).
    "Nothing reachable from an externally referenced node is lost", i.e.
    [∀ n, reach (succ s) (fun k => 0 < L k) n → n ∈ dom (succ s')],
    does not hold: in the run above the old level-1 node 6 is the high child
    of the referenced node 7, yet the swap replaces it by the fresh node 2
    and the rooted collection frees it.  [C07_swap_correct] therefore states
    survival for the referenced nodes themselves (and for every node not on
    the old level [x+1]). *)
Definition s_gc : st := snd (collect_garbage None s_pre).
Definition al_gc : levels_t := match fst (levels_ s_gc) with Ok a => a | Err _ => ∅ end.
Definition s_sw : st := snd (swap 0 1 (Some al_gc) s_gc).

Example C07_reach_clause_refuted :
  refc s_gc !! 7%positive = Some 1 ∧ indeg (succ s_gc) 7%positive = 0 ∧
  reach (succ s_gc) (fun k => k = 7%positive) 6%positive ∧
  match fst (swap 0 1 (Some al_gc) s_gc) with Ok (sz, _) => sz = (4, 4) | Err _ => False end ∧
  succ s_sw !! 6%positive = None ∧
  succ s_sw !! 7%positive = Some (Triple 0 4 2).
Proof.
  split; [by vm_compute|]. split; [by vm_compute|]. split.
  - change 6%positive with (absn (t_hi (Triple 0 4 6))).
    apply (reach_hi _ _ 7%positive); [|by vm_compute|done].
    apply reach_root; [done|].
    apply (proj2 (elem_of_dom (succ s_gc) 7%positive)). exists (Triple 0 4 6). by vm_compute.
  - split; [|split]; by vm_compute.
Qed.
