(** * Property C15 (continued) — [bdd_to_mdd(bdd, dvars)] with dynamic
      reordering ENABLED or disabled on the BDD manager.
      Only statements closed by [exact]; proofs live in [Proofs/MddOps3.v]
      (on top of [MddOps2.v]).

    [bdd_to_mdd] calls the public [reorder(bdd, order)] — guarded: [BDD.swap]
    disables reordering requests while it moves nodes and restores the
    threshold afterwards ([reorder_pub]) — and then, in its loop, the
    DECORATED [bdd.cofactor(u, d)].  The theorems of [C15b] assume
    [last_len s = None] (dynamic reordering disabled).  Here [last_len s] is
    arbitrary: [None], or [Some n] (enabled with threshold [n]); the
    conversion behaves the same, and the threshold is unchanged at the end.
    The reason: every cofactor of the loop is by all the bits of the zone of
    the node, which are contiguous levels after the reordering; the recursion
    walks down to an existing node below the zone and never reaches
    [find_or_add], so no request is ever raised
    ([C15c_zone_cofactors_any_threshold]).

    Vocabulary: as in [C15b] ([held], [keepsH], [dvars_wf], [bitval],
    [b2m_order_ok]). *)
From DD Require Import MddOps3 Driver5.
Local Open Scope string_scope.

(** The cofactors of the loop.  In a manager with the invariant whose
    variables are in zones ([b2m_wf]), for every non-terminal node [u] and the
    integer variable [var] (level [j], bits [bits]) that owns the bit at the
    level of [u], the cofactors of [u] by dicts over [bits] all return, leave
    the manager unchanged, and are the same whatever the threshold
    [last_len] is set to (in particular when every node creation would raise
    the request: threshold [Some 0]). *)
Theorem C15c_zone_cofactors_any_threshold dvars s u t bit var j bits :
  Inv s → dvars_wf dvars s → b2m_wf dvars s →
  succ s !! u = Some t → u ≠ 1%positive → lvl2var s !! t_lvl t = Some bit →
  (var, (j, bits)) ∈ dvars → bit ∈ bits →
  ∀ ds, (∀ d, d ∈ ds → d.*1 = bits) →
  ∃ zs, ∀ v, mapM (fun d => cofactor (Z.pos u) true d) ds (s <| last_len := v |>)
             = (Ok zs, s <| last_len := v |>).
Proof.
  exact (fun HI Hdw Hwf => zone_cofactors_stab dvars s HI Hdw Hwf u t bit var j bits).
Qed.

(** (a) The link, for any threshold.  From a manager with the invariant,
    exact counters, no bound on the number of nodes ([max_nodes = None]: with
    a bound the swaps of [reorder] may raise [RuntimeError]), an empty oracle
    tape and held [roots], the prefix
    [collect_garbage() ; reorder(bdd, order)] of [bdd_to_mdd] succeeds and
    reaches a state that satisfies the hypotheses of the conversion proper,
    with the threshold of the start. *)
Theorem C15c_prefix_link_dyn dvars s L :
  Inv s → Counts s L → max_nodes s = None → tape s = [] →
  (∀ u, u ∈ roots s → held L u) → dvars_wf dvars s →
  ∃ s1 s2, collect_garbage None s = (Ok tt, s1) ∧
    reorder_pub (Some (list_to_map (b2m_b2s dvars))) s1 = (Ok tt, s2) ∧
    Inv s2 ∧ Counts s2 L ∧ last_len s2 = last_len s ∧ tape s2 = [] ∧ nozero s2 ∧
    keepsH L s s2 ∧ vars s2 = list_to_map (b2m_b2s dvars) ∧
    dvars_wf dvars s2 ∧ b2m_wf dvars s2.
Proof. exact (b2m_prefix_link_dyn dvars s L). Qed.

(** (b) Totality of the conversion proper, for any threshold: the selection
    of the zone-entry nodes succeeds and selects the held nodes and the nodes
    with a parent in a zone above their own; *)
Theorem C15c_keep_total_dyn dvars s L :
  Inv s → Counts s L → nozero s → 0 < L 1%positive →
  dvars_wf dvars s → vars s = list_to_map (b2m_b2s dvars) → b2m_wf dvars s →
  ∃ K : gset positive,
    b2m_keep dvars (b2m_b2s dvars) s s = (Ok K, s) ∧
    ∀ u t, succ s !! u = Some t →
      (0 < L u → u ∈ K) ∧
      (∀ w tw, succ s !! w = Some tw → w ≠ 1%positive →
         (absn (t_lo tw) = u ∨ absn (t_hi tw) = u) →
         ilvl dvars s (t_lvl tw) < ilvl dvars s (t_lvl t) → u ∈ K).
Proof. exact (keep_total_dyn dvars s L). Qed.

(** and the conversion proper does not raise, does not change the BDD
    manager (threshold included), and [umap] has an entry for every node with
    an external reference; every entry is an MDD reference with the value of
    the BDD node. *)
Theorem C15c_tail_total_dyn dvars s L order :
  Inv s → Counts s L → nozero s → 0 < L 1%positive →
  dvars_wf dvars s → vars s = list_to_map (b2m_b2s dvars) → b2m_wf dvars s →
  b2m_order_ok order s →
  ∃ mdd umap, bdd_to_mdd_tail dvars (b2m_b2s dvars) order s = (Ok (mdd, umap), s) ∧
    MInv mdd ∧ mextends (b2m_mdd0 dvars) mdd ∧
    (∀ u x, (u, x) ∈ umap →
       valid s (Z.pos u) ∧ mvalid mdd x ∧ nilvl dvars s u ≤ mlvl_of mdd x ∧
       ∀ I, minrange (b2m_mdd0 dvars) I →
            MD mdd x I = D s (Z.pos u) (bits_of dvars s I)) ∧
    ∀ u, 0 < L u → u ∈ umap.*1.
Proof. exact (bdd_to_mdd_tail_total_dyn dvars s L order). Qed.

(** The full theorem, for any threshold.  [bdd_to_mdd(bdd, dvars)] on a
    manager with the invariant, exact counters [L], no bound on the number
    of nodes, an empty oracle tape,
    held roots, the terminal held, and a well-formed [dvars] — dynamic
    reordering enabled or not:
    - the collection and the (public, guarded) reordering succeed; the BDD
      manager keeps the invariant, the counters and its THRESHOLD
      ([last_len s' = last_len s]), and every held reference keeps its
      function by name;
    - if the oracle [order] is not the level order of the reordered manager
      the model answers [Err EOracle] (no Python counterpart);
    - otherwise the result is [(mdd, umap)] with [MInv mdd], the variables of
      [dvars], and for every node [u] with an external reference an entry
      [u ↦ x] of [umap] such that, on every in-range integer assignment [I],
      [MD mdd x I = denv s u (bitval dvars I)]: the value of the ORIGINAL BDD
      node on the bit assignment given by the binary digits, by bit name. *)
Theorem C15c_bdd_to_mdd_correct_dyn dvars order s L r s' :
  Inv s → Counts s L → max_nodes s = None → tape s = [] →
  (∀ u, u ∈ roots s → held L u) → 0 < L 1%positive → dvars_wf dvars s →
  bdd_to_mdd dvars order s = (r, s') →
  ∃ s1 s2, collect_garbage None s = (Ok tt, s1) ∧
    reorder_pub (Some (list_to_map (b2m_b2s dvars))) s1 = (Ok tt, s2) ∧ s' = s2 ∧
    Inv s' ∧ Counts s' L ∧ last_len s' = last_len s ∧ tape s' = [] ∧ keepsH L s s' ∧
    ((¬ b2m_order_ok order s2 ∧ r = Err EOracle) ∨
     (b2m_order_ok order s2 ∧
      ∃ mdd umap, r = Ok (mdd, umap) ∧ MInv mdd ∧ mextends (b2m_mdd0 dvars) mdd ∧
        ∀ u, 0 < L u → ∃ x, (u, x) ∈ umap ∧ mvalid mdd x ∧
          ∀ I, minrange mdd I → MD mdd x I = denv s (Z.pos u) (bitval dvars I))).
Proof. exact (bdd_to_mdd_correct_dyn dvars order s L r s'). Qed.

(** with requests disabled the public [reorder] is the inner one *)
Theorem C15c_reorder_pub_off o s : last_len s = None → reorder_pub o s = reorder o s.
Proof. exact (reorder_pub_off o s). Qed.

(** Non-vacuity, with dynamic reordering ENABLED.  The manager of
    [C15b_conversion] (bits v0, v1, v2; the node 6 = v1 ∨ v2 referenced),
    then either [configure(reordering=True)] (threshold 100) or the threshold
    set to 0 — with [Some 0] EVERY node creation raises the request
    ([2 * 0 <= len]).  [dvars]: x10 = [v2; v0], x11 = [v1], so the reordering
    really moves the variables (to v2, v0, v1; the swaps run under the
    guard).  The checkable hypotheses hold, the conversion returns, the
    threshold is unchanged, the oracle is accepted, and the entry of node 6
    has, on every integer assignment, the value of the ORIGINAL node 6 by bit
    name. *)
Definition C15c_bdd (enable : op) : world2 :=
  fold_left (fun w o => fst (step2 w 0 (O1 o)))
    [ONew [(0, 0); (1, 1); (2, 2)]; OVar 0; OVar 1; OVar 2;
     OApply "and" 2 (Some 3%Z) None; OApply "\/" 5 (Some 4%Z) None; OIncref 6;
     enable] world2_empty.
Definition C15c_dvars : list (nat * (nat * list nat)) := [(10, (0, [2; 0])); (11, (1, [1]))].

Definition C15c_check (enable : op) (threshold : option nat) : Prop :=
  let s := world2_get (C15c_bdd enable) 0 in
  last_len s = threshold ∧ max_nodes s = None ∧ tape s = [] ∧ roots s = [] ∧
  dvars_wf_b C15c_dvars s = true ∧
  match bdd_to_mdd C15c_dvars [2%positive; 6%positive] s with
  | (Ok (mdd, umap), s') =>
      last_len s' = threshold ∧
      map_to_list (vars s') = [(0, 1); (1, 2); (2, 0)] ∧
      bool_decide (b2m_order_ok [2%positive; 6%positive] s') = true ∧
      umap = [(1%positive, 1%Z); (2%positive, (-2)%Z); (6%positive, (-3)%Z)] ∧
      forallb (fun '(i0, i1) =>
        let I := fun l => match l with 0 => i0 | _ => i1 end in
        bool_decide (MD mdd (-3) I = denv s 6 (bitval C15c_dvars I)) &&
        bool_decide (denv s 6 (bitval C15c_dvars I) = (Nat.testbit i0 0 || Nat.testbit i1 0)))
        [(0, 0); (0, 1); (1, 0); (1, 1); (2, 0); (2, 1); (3, 0); (3, 1)] = true
  | _ => False
  end.

Example C15c_conversion_enabled : C15c_check (OConfigure (Some true)) (Some 100).
Proof. vm_compute. by repeat split. Qed.

Example C15c_conversion_threshold_0 : C15c_check (OSetLastLen (Some 0)) (Some 0).
Proof. vm_compute. by repeat split. Qed.

Print Assumptions C15c_zone_cofactors_any_threshold.
Print Assumptions C15c_prefix_link_dyn.
Print Assumptions C15c_keep_total_dyn.
Print Assumptions C15c_tail_total_dyn.
Print Assumptions C15c_bdd_to_mdd_correct_dyn.
Print Assumptions C15c_reorder_pub_off.
Print Assumptions C15c_conversion_enabled.
Print Assumptions C15c_conversion_threshold_0.
