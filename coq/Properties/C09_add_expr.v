(** * Property C09 for [dd.bdd.BDD.add_expr] — with dynamic reordering
      enabled, [add_expr(e)] returns a reference denoting the same function
      as with reordering disabled ([C05_add_expr_sem]: the reading [asem] of
      the syntax tree, by variable names), at whichever node creation the
      reordering request fires and whatever the threshold.  Only statements
      closed by [exact]; proofs live in [Proofs/AddExprDynamic.v].

      [add_expr lt rw P spellings] is the decorator [_try_to_reorder] around
      "lex, parse, evaluate the tree" ([C17e_add_expr_unfold]); the evaluator
      [eval_ast] calls the decorated [var], [apply] (-> [ite]), [quantify],
      [rename].  [Properties/C17_add_expr.v] has the TOTALITY statement under
      dynamic reordering ([C17e_add_expr_total_dynamic]); here is the
      FUNCTIONAL one.

      Reading:
      - [asem s0 a ρ]: the value of the tree [a] under the assignment [ρ] of
        variable NAMES; an [@n] leaf is read as [denv s0 n ρ], the function
        of reference [n] in the manager [s0] AT THE TIME OF THE CALL
        (clauses: [C05_asem_clauses]); [ok_ast s0 a]: declared names,
        existing [@n] references, operators of the vocabulary;
      - [ast_refs a]: the [@n] leaves of the tree; [refs_in K a]: they all
        lie in the node set [K].  In the theorems [K] is [heldn L]: the
        terminal and the nodes the user holds a reference on (ledger [L],
        [Counts s L]).  An [@n] leaf that is NOT held may be freed by the
        sifting that serves the request ([C09_unheld_operand_refuted]);
      - the intermediate results of the evaluator (sub-formulas) are not held
        by anybody: inside the decorator a context is active, the nested
        decorated calls never reorder ([C09_eval_ast_in_context]: under
        [no_reorder] the evaluator only ADDS nodes, and either returns the
        reading of the tree or stops with the signal), and the decorator of
        [add_expr] serves the signal by sifting and evaluating the WHOLE tree
        again;
      - [keeps K s s']: same declared variables, every reference into [K]
        keeps validity and function by name ([C09_keeps_def]);
        [op_spec]: [C09_op_spec_def]; [heldn]: [C09_heldn_def].
      The first disjunct [Err EOracle] is the model's iteration-order oracle
      error inside sifting (no Python counterpart); it disappears with an
      empty tape ([C09_add_expr_dynamic_notape]).  The premise [sifting_ok']
      of [Properties/C09.v] is not needed: it is the theorem
      [C07b_sifting_ok']. *)
From stdpp Require Import strings.
From DD Require Import AddExprDynamic.
Local Open Scope string_scope.

(** ** Vocabulary *)
Theorem C09_ast_refs_def :
  (∀ b, ast_refs (ABool b) = []) ∧ (∀ n, ast_refs (AVar n) = []) ∧
  (∀ z, ast_refs (ANum z) = [z]) ∧
  (∀ op a, ast_refs (AOp1 op a) = ast_refs a) ∧
  (∀ op a b, ast_refs (AOp2 op a b) = (ast_refs a ++ ast_refs b)%list) ∧
  (∀ a b c, ast_refs (AIte a b c) = (ast_refs a ++ ast_refs b ++ ast_refs c)%list) ∧
  (∀ op ns a, ast_refs (AQuant op ns a) = ast_refs a) ∧
  (∀ subs a, ast_refs (ASubst subs a) = ast_refs a).
Proof. exact (conj (fun _ => eq_refl) (conj (fun _ => eq_refl) (conj (fun _ => eq_refl)
  (conj (fun _ _ => eq_refl) (conj (fun _ _ _ => eq_refl) (conj (fun _ _ _ => eq_refl)
  (conj (fun _ _ _ => eq_refl) (fun _ _ => eq_refl)))))))). Qed.
Print Assumptions C09_ast_refs_def.

Theorem C09_refs_in_def (K : positive → Prop) a :
  refs_in K a ↔ Forall (fun z => K (absn z)) (ast_refs a).
Proof. exact (conj (fun H => H) (fun H => H)). Qed.
Print Assumptions C09_refs_in_def.

(** the body of the decorated method *)
Theorem C09_add_expr_body_def lt rw P sp :
  add_expr lt rw P sp = try_to_reorder (add_expr_body lt rw P sp) ∧
  add_expr_body lt rw P sp =
    (ts <- of_opt EValue (lex_all lt rw sp) ;; a <- of_opt EValue (parse P ts) ;; eval_ast a).
Proof. exact (conj eq_refl eq_refl). Qed.
Print Assumptions C09_add_expr_body_def.

(** ** The reading is stable under a change of state that keeps the [@n]
    leaves (e.g. a reordering that keeps the held nodes) *)
Theorem C09_ok_ast_keeps (K : positive → Prop) s s' a :
  keeps K s s' → refs_in K a → ok_ast s a → ok_ast s' a.
Proof. exact (ok_ast_keeps K s s' a). Qed.
Print Assumptions C09_ok_ast_keeps.

Theorem C09_asem_keeps (K : positive → Prop) s s' a :
  keeps K s s' → refs_in K a → ok_ast s a → ∀ ρ, asem s' a ρ = asem s a ρ.
Proof. exact (asem_keeps K s s' a). Qed.
Print Assumptions C09_asem_keeps.

(** ** The evaluator inside a context or with requests off ([no_reorder s]:
    [rctx s = true ∨ last_len s = None]): the manager only grows, the
    counts of every ledger are kept, and the outcome is either a reference
    denoting the reading of the tree (the [@n] leaves read in [s0], any state
    that [s] extends) or the reordering signal -- possible only with
    requests on *)
Theorem C09_eval_ast_in_context a s0 s r s' :
  Inv s0 → extends s0 s → Inv s → no_reorder s → ok_ast s0 a →
  eval_ast a s = (r, s') →
  (Inv s' ∧ extends s s' ∧ frame s s' ∧ ∀ L, Counts s L → Counts s' L) ∧
  match r with
  | Ok u => valid s' u ∧ ∀ ρ, denv s' u ρ = asem s0 a ρ
  | Err e => (e = ENeedsReordering ∧ is_Some (last_len s)) ∨
             (e = ERuntime ∧ is_Some (max_nodes s))
  end.
Proof. exact (eval_ast_nr a s0 s r s'). Qed.
Print Assumptions C09_eval_ast_in_context.

(** ** [op_spec] (the hypothesis of the decorator theorem
    [C09_decorator_correct] / [C09c_decorator_correct]) for the evaluator and
    for the whole body of [add_expr], for any node set [K] containing the
    [@n] leaves of the tree *)
Theorem C09_eval_ast_meets_spec (K : positive → Prop) a :
  refs_in K a →
  op_spec (eval_ast a) K
    (fun s => ok_ast s a)
    (fun s x s' => valid s' x ∧ ∀ ρ, denv s' x ρ = asem s a ρ).
Proof. exact (eval_ast_op_spec K a). Qed.
Print Assumptions C09_eval_ast_meets_spec.

Theorem C09_add_expr_body_meets_spec (K : positive → Prop) lt rw P sp ts a :
  lex_all lt rw sp = Some ts → parse P ts = Some a → refs_in K a →
  op_spec (add_expr_body lt rw P sp) K
    (fun s => ok_ast s a)
    (fun s x s' => valid s' x ∧ ∀ ρ, denv s' x ρ = asem s a ρ).
Proof. exact (add_expr_body_op_spec K lt rw P sp ts a). Qed.
Print Assumptions C09_add_expr_body_meets_spec.

(** ** C09 for [add_expr]: a well-formed manager with exact counts for the
    ledger [L], a top-level call; spellings that lex and parse to an accepted
    tree whose [@n] leaves are held.  No hypothesis on [last_len] (requests
    enabled or not, any threshold) nor on [trig] (the forced trigger of the
    harness): whether or not the request fires, and at whichever node
    creation, the call returns a reference denoting the reading of the tree
    in the ORIGINAL state; the manager is well formed with the same ledger,
    the context flag is off, reordering is enabled afterwards iff it was
    before, every held reference keeps its number and its function. *)
Theorem C09_add_expr_dynamic lt rw P sp ts a s L r s' :
  Inv s → Counts s L → rctx s = false → max_nodes s = None →
  lex_all lt rw sp = Some ts → parse P ts = Some a →
  ok_ast s a → refs_in (heldn L) a →
  add_expr lt rw P sp s = (r, s') →
  r = Err EOracle ∨
  ∃ x, r = Ok x ∧ Inv s' ∧ Counts s' L ∧ rctx s' = false ∧
       (last_len s = None → last_len s' = None) ∧
       (is_Some (last_len s) → is_Some (last_len s')) ∧
       keeps (heldn L) s s' ∧
       valid s' x ∧ ∀ ρ, denv s' x ρ = asem s a ρ.
Proof. exact (add_expr_dynamic lt rw P sp ts a s L r s'). Qed.
Print Assumptions C09_add_expr_dynamic.

(** the same relative to the premise on sifting, as in [Properties/C09.v] *)
Theorem C09_add_expr_dynamic_prem lt rw P sp ts a s L r s' :
  sifting_ok' →
  Inv s → Counts s L → rctx s = false → max_nodes s = None →
  lex_all lt rw sp = Some ts → parse P ts = Some a →
  ok_ast s a → refs_in (heldn L) a →
  add_expr lt rw P sp s = (r, s') →
  r = Err EOracle ∨
  ∃ x, r = Ok x ∧ Inv s' ∧ Counts s' L ∧ rctx s' = false ∧
       (last_len s = None → last_len s' = None) ∧
       (is_Some (last_len s) → is_Some (last_len s')) ∧
       keeps (heldn L) s s' ∧
       valid s' x ∧ ∀ ρ, denv s' x ρ = asem s a ρ.
Proof. exact (add_expr_dynamic_prem lt rw P sp ts a s L r s'). Qed.
Print Assumptions C09_add_expr_dynamic_prem.

(** with an empty oracle tape (the literal code; the state between two calls
    of the driver): the call RETURNS [Ok] *)
Theorem C09_add_expr_dynamic_notape lt rw P sp ts a s L r s' :
  Inv s → Counts s L → rctx s = false → tape s = [] → max_nodes s = None →
  lex_all lt rw sp = Some ts → parse P ts = Some a →
  ok_ast s a → refs_in (heldn L) a →
  add_expr lt rw P sp s = (r, s') →
  (∃ x, r = Ok x ∧ Inv s' ∧ Counts s' L ∧ rctx s' = false ∧
        (last_len s = None → last_len s' = None) ∧
        (is_Some (last_len s) → is_Some (last_len s')) ∧
        keeps (heldn L) s s' ∧
        valid s' x ∧ ∀ ρ, denv s' x ρ = asem s a ρ) ∧
  tape s' = [].
Proof. exact (add_expr_notape lt rw P sp ts a s L r s'). Qed.
Print Assumptions C09_add_expr_dynamic_notape.

(** ** Running the model.  History [dyn_history] ([C09_dyn_history_def]): four
    variables in the order v0 < v1 < v2 < v3, which is poor for
    f = (v0 /\ v2) \/ (v1 /\ v3) = node 10 (held, one external reference, no
    parent); v0..v3, 6 = v0 /\ v2, 7 = v1 /\ v3 held too; requests enabled
    ([last_len = Some 100]).  The formula [\E v0: @10 /\ v1] refers to f as
    [@10]; [expr_run k] (local to the example) is [add_expr] of its lexemes
    with the forced trigger [trig := k] (the k-th reordering request fires).
    The call makes 11 requests: 7 while the conjunction [@10 /\ v1] is built,
    4 inside [quantify].  With [k = 9] the request fires in the MIDDLE of the
    quantification, when the conjunction exists as the unheld node 12; sifting
    moves v2 to the top; the second attempt returns a reference with the same
    truth table by name as the call without trigger, which is the table of
    the reading [asem]; the held references keep number and table; requests
    are on again.  The same for every k = 1..11; with k = 12 the trigger is
    not reached. *)
Theorem C09_expr_defs :
  expr_sp = ["\E"; "v0"; ":"; "@"; "10"; "/\"; "v1"] ∧
  expr_tree = AQuant "\E" ["v0"] (AOp2 "&" (ANum 10) (AVar "v1")) ∧
  ∀ r, zval r = match r with Ok u => Ok (VZ u) | Err e => Err e end.
Proof. exact (conj eq_refl (conj eq_refl (fun _ => eq_refl))). Qed.
Print Assumptions C09_expr_defs.

Example C09_add_expr_example :
  let s := world_get (run_ops dyn_history) 0 in
  let expr_run := fun k : option nat =>
    add_expr lex_alias reserved_words code_prec expr_sp (s <| trig := k |>) in
  let '(rA, sA) := expr_run None in
  let '(rB, sB) := expr_run (Some 9) in
  (lex expr_sp ≫= parse code_prec) = Some expr_tree ∧
  ok_astb s expr_tree = true ∧ ast_refs expr_tree = [10%Z] ∧
  refc s !! 10%positive = Some 1 ∧ indeg (succ s) 10%positive = 0 ∧
  rctx s = false ∧ last_len s = Some 100 ∧
  (let '(r1, s1) := eval_ast (AOp2 "&" (ANum 10) (AVar "v1"))
                      (s <| trig := Some 9 |> <| rctx := true |>) in
   r1 = Ok 12%Z ∧ trig s1 = Some 2) ∧
  rA = Ok 11%Z ∧ rB = Ok 12%Z ∧
  map_to_list (vars sA) = map_to_list (vars s) ∧
  vars s !! 2 = Some 2 ∧ vars sB !! 2 = Some 0 ∧
  trig sB = None ∧ last_len sA = Some 100 ∧ last_len sB = Some 18 ∧ rctx sB = false ∧
  table 4 sB (zval rB) = table 4 sA (zval rA) ∧
  table 4 sB (zval rB) = Some (asem s expr_tree <$> envs 4) ∧
  forallb (fun u => bool_decide (table 4 sB (Ok (VZ u)) = table 4 s (Ok (VZ u))))
          [2; 3; 4; 5; 6; 7; 10]%Z = true ∧
  forallb (fun k => let '(r, s') := expr_run (Some k) in
                    bool_decide (table 4 s' (zval r) = table 4 sA (zval rA)) &&
                    bool_decide (trig s' = None) && bool_decide (vars s' !! 2 = Some 0))
          (seq 1 11) = true ∧
  fst (expr_run (Some 12)) = Ok 11%Z ∧ trig (snd (expr_run (Some 12))) = Some 1.
Proof. exact add_expr_dynamic_example. Qed.
Print Assumptions C09_add_expr_example.

(** the hypotheses of [C09_add_expr_dynamic] hold in the states of the
    example, [s <| trig := k |>] for every value [k] of the forced trigger:
    the manager is well formed ([Inv]: it is the state after the history
    [dyn_history] of allowed calls, [Proofs/Dynamic3.v] [run_goodD_from_new]),
    its counters are exact for the ledger [dyn_ledger] (one external reference
    on the terminal and on each of the nodes 2..7 and 10), no context is
    active, the table is unbounded, the lexemes lex and parse to [expr_tree],
    which is accepted, and its only [@n] leaf, 10, is held *)
Theorem C09_dyn_ledger_def n :
  dyn_ledger n = if bool_decide (n ∈ [1; 2; 3; 4; 5; 6; 7; 10]%positive) then 1 else 0.
Proof. exact eq_refl. Qed.
Print Assumptions C09_dyn_ledger_def.

Example C09_add_expr_example_hypotheses :
  let s := world_get (run_ops dyn_history) 0 in
  ∀ k : option nat, let sk := s <| trig := k |> in
  Inv sk ∧ Counts sk dyn_ledger ∧ rctx sk = false ∧ max_nodes sk = None ∧
  (lex expr_sp ≫= parse code_prec) = Some expr_tree ∧
  ok_ast sk expr_tree ∧ refs_in (heldn dyn_ledger) expr_tree.
Proof. exact add_expr_dynamic_example_hypotheses. Qed.
Print Assumptions C09_add_expr_example_hypotheses.
