(** * Property C14, the levels of SEVERAL new names, and the views.

    (a) [declare(v1, ..., vk)] ([Model/Core.v]: [add_var v None] for each name
    in the order given; driver operation [ODeclare]): the names that are not
    declared yet — a name repeated in the call counts at its first
    occurrence — receive the next bottom levels [n, n+1, ...] in the order
    given; the names already declared are skipped and nobody moves.
    [C14_add_var_new] is the one-name case, [C14_declare] gives the domain and
    the preservation of every reference.

    (b) Views.  The model has no [var_levels]-like view separate from [vars]:
    [bdd.vars] IS the field [vars s] (name ↦ level; observed whole by
    [Driver.digest], component [d_vars]), and the only other table is its
    inverse [lvl2var s] (Python [_level_to_var]).  [C14_views_inverse] states
    that the two are one bijection; the method views [level_of_var] /
    [var_at_level] are [C14_vars_bijection].

    Only statements closed by [exact]; proofs live in [Proofs/DeclareLevels.v]. *)
From DD Require Import DeclareLevels.

(** ** (a) the new names of a call, in order *)
Theorem C14_new_names_unfold D vs :
  new_names D vs =
  match vs with
  | [] => []
  | v :: vs => if decide (v ∈ D) then new_names D vs else v :: new_names ({[v]} ∪ D) vs
  end.
Proof. exact (match vs with [] => eq_refl | _ :: _ => eq_refl end). Qed.
Print Assumptions C14_new_names_unfold.

(** exactly the names of the call that are not declared, each once, in the
    order of the call *)
Theorem C14_new_names_spec D vs :
  (∀ v, v ∈ new_names D vs ↔ v ∈ vs ∧ v ∉ D) ∧ NoDup (new_names D vs) ∧
  sublist (new_names D vs) vs.
Proof.
  exact (conj (new_names_elem D vs) (conj (new_names_NoDup D vs) (new_names_sublist D vs))).
Qed.
Print Assumptions C14_new_names_spec.

Theorem C14_new_names_all D vs :
  NoDup vs → (∀ v, v ∈ vs → v ∉ D) → new_names D vs = vs.
Proof. exact (new_names_all D vs). Qed.
Print Assumptions C14_new_names_all.

Theorem C14_new_names_none D vs : (∀ v, v ∈ vs → v ∈ D) → new_names D vs = [].
Proof. exact (new_names_none D vs). Qed.
Print Assumptions C14_new_names_none.

(** [declare]: never fails; the [i]-th new name gets level [n + i] (in both
    tables); declared names keep their level; nothing else is declared *)
Theorem C14_declare_levels s vs r s' :
  Inv s → declare vs s = (r, s') →
  r = Ok tt ∧ Inv s' ∧
  nvars s' = nvars s + length (new_names (dom (vars s)) vs) ∧
  (∀ v l, vars s !! v = Some l → vars s' !! v = Some l) ∧
  (∀ i v, new_names (dom (vars s)) vs !! i = Some v →
     vars s !! v = None ∧ vars s' !! v = Some (nvars s + i) ∧
     lvl2var s' !! (nvars s + i) = Some v) ∧
  (∀ v, is_Some (vars s' !! v) ↔
        is_Some (vars s !! v) ∨ v ∈ new_names (dom (vars s)) vs).
Proof. exact (declare_levels s vs r s'). Qed.
Print Assumptions C14_declare_levels.

(** the same for the driver operation *)
Theorem C14_op_declare_levels w s vs r s' :
  Inv s → run_op w (ODeclare vs) s = (r, s') →
  r = Ok VU ∧ Inv s' ∧
  nvars s' = nvars s + length (new_names (dom (vars s)) vs) ∧
  (∀ v l, vars s !! v = Some l → vars s' !! v = Some l) ∧
  (∀ i v, new_names (dom (vars s)) vs !! i = Some v →
     vars s !! v = None ∧ vars s' !! v = Some (nvars s + i) ∧
     lvl2var s' !! (nvars s + i) = Some v) ∧
  (∀ v, is_Some (vars s' !! v) ↔
        is_Some (vars s !! v) ∨ v ∈ new_names (dom (vars s)) vs).
Proof. exact (op_declare_levels w s vs r s'). Qed.
Print Assumptions C14_op_declare_levels.

(** the common case: [k] distinct undeclared names get [n, ..., n+k-1] in the
    order given *)
Theorem C14_declare_fresh s vs r s' :
  Inv s → NoDup vs → (∀ v, v ∈ vs → vars s !! v = None) → declare vs s = (r, s') →
  r = Ok tt ∧ Inv s' ∧ nvars s' = nvars s + length vs ∧
  (∀ v l, vars s !! v = Some l → vars s' !! v = Some l) ∧
  (∀ i v, vs !! i = Some v →
     vars s' !! v = Some (nvars s + i) ∧ lvl2var s' !! (nvars s + i) = Some v).
Proof. exact (declare_levels_fresh s vs r s'). Qed.
Print Assumptions C14_declare_fresh.

(** only declared names: idempotent, the state is the same *)
Theorem C14_declare_existing s vs :
  (∀ v, v ∈ vs → is_Some (vars s !! v)) → declare vs s = (Ok tt, s).
Proof. exact (declare_levels_existing s vs). Qed.
Print Assumptions C14_declare_existing.

(** ** (b) the two tables are one bijection *)
Theorem C14_views_inverse s : Inv s →
  ∀ v l, vars s !! v = Some l ↔ lvl2var s !! l = Some v.
Proof. exact (inv_vars s). Qed.
Print Assumptions C14_views_inverse.

(** ** Examples (by evaluation) *)

(** v5, v7 declared (levels 0, 1); [declare(v7, v2, v9, v2, v5, v4)]: the new
    names are v2, v9, v4 in this order and get levels 2, 3, 4 *)
Definition sv : st := snd (declare [5; 7] init).
Example C14_declare_levels_example :
  let s' := snd (declare [7; 2; 9; 2; 5; 4] sv) in
  new_names (dom (vars sv)) [7; 2; 9; 2; 5; 4] = [2; 9; 4] ∧
  fst (declare [7; 2; 9; 2; 5; 4] sv) = Ok tt ∧
  (vars sv !! 5, vars sv !! 7, nvars sv) = (Some 0, Some 1, 2) ∧
  (vars s' !! 5, vars s' !! 7, vars s' !! 2, vars s' !! 9, vars s' !! 4, nvars s') =
  (Some 0, Some 1, Some 2, Some 3, Some 4, 5) ∧
  (lvl2var s' !! 2, lvl2var s' !! 3, lvl2var s' !! 4) = (Some 2, Some 9, Some 4).
Proof. by vm_compute. Qed.

Example C14_declare_levels_hypothesis : Inv sv.
Proof.
  exact (proj1 (proj2 (declare_levels init [5; 7] _ _ Inv_init
                         (surjective_pairing (declare [5; 7] init))))).
Qed.
