(** * Property C12 — what a pickle dump contains.

    "A pickle dump made without naming roots stores every node": the file
    written by [dump] (model: [dump_pickle], which reads the iteration orders
    of the node set and of the [vars] dict back from the file as oracles
    [order] / [vorder]) leaves the manager untouched and lists, with the
    stored triples of the manager,
    - every node of the table when no roots are named ([RNone]),
    - exactly the nodes reachable from the roots otherwise,
    each once, together with every declared variable and its level.
    Only statements closed by [exact]; the proof is [dump_pickle_inv] of
    [Proofs/Pickle.v]. *)
From DD Require Import Pickle.

Theorem C12_vars_file_def s vl :
  vars_file s vl ↔ NoDup vl.*1 ∧ ∀ v l, (v, l) ∈ vl ↔ vars s !! v = Some l.
Proof. exact (conj (fun H => H) (fun H => H)). Qed.

Theorem C12_dump_contents s roots order vorder pf sd :
  Inv s → Forall (valid s) (roots_values roots) →
  dump_pickle roots order vorder s = (Ok pf, sd) →
  sd = s ∧ pf_roots pf = roots ∧ vars_file s (pf_vars pf) ∧
  nodes_file s (pf_succ pf) ∧ (pf_succ pf).*1 = order ∧ (pf_vars pf).*1 = vorder ∧
  (∀ u, u ∈ roots_values roots → absn u ∈ (pf_succ pf).*1) ∧
  (∀ n, n ∈ order ↔ match roots with
                     | RNone => n ∈ dom (succ s)
                     | _ => reach (succ s) (rootsR (roots_values roots)) n
                     end).
Proof. exact (dump_pickle_inv s roots order vorder pf sd). Qed.

(** the entries are the manager's own triples, each node once *)
Theorem C12_nodes_file_entries s sl k t :
  nodes_file s sl → (k, t) ∈ sl → succ s !! k = Some t.
Proof. exact (fun H => nf_sub s sl H k t). Qed.
Theorem C12_nodes_file_nodup s sl : nodes_file s sl → NoDup sl.*1.
Proof. exact (nf_nodup s sl). Qed.

Print Assumptions C12_dump_contents.
