(** * Decor: the [_try_to_reorder] decorator when no reordering happens
      (nested call, or dynamic reordering disabled), and the decorated [ite]. *)
From DD Require Export Ite.

Lemma try_to_reorder_inert {A} (func : MS A) s r s' :
  try_to_reorder func s = (r, s') →
  ∃ r1 s1, func (s <| rctx := true |>) = (r1, s1) ∧
    ((r1 = Err ENeedsReordering ∧ rctx s = false) ∨
     (r = r1 ∧ s' = s1 <| rctx := rctx s |>)).
Proof.
  unfold try_to_reorder. intros H. cbn [bind get modify] in H.
  unfold bind at 1, catch at 1 in H.
  destruct (func (s <| rctx := true |>)) as [r1 s1] eqn:E.
  cbn [bind modify] in H. exists r1, s1. split; [done|].
  destruct r1 as [a|e].
  - right. unfold ret in H. by simplify_eq.
  - destruct (decide (e = ENeedsReordering ∧ rctx s = false)) as [[-> ?]|Hn].
    + by left.
    + right. unfold raise in H. by simplify_eq.
Qed.

(** properties insensitive to the context flag *)
Lemma Inv_rctx s b : Inv (s <| rctx := b |>) ↔ Inv s.
Proof. split; apply Inv_same; by repeat split. Qed.
Lemma extends_rctx_r s s' b : extends s (s' <| rctx := b |>) ↔ extends s s'.
Proof. done. Qed.
Lemma extends_rctx_l s s' b : extends (s <| rctx := b |>) s' ↔ extends s s'.
Proof. done. Qed.
Lemma D_rctx s b u a : D (s <| rctx := b |>) u a = D s u a.
Proof. by apply D_same. Qed.

(** weaker frame: the context flag may differ *)
Definition frame' (s s' : st) : Prop :=
  last_len s' = last_len s ∧ roots s' = roots s ∧ tape s' = tape s.

Definition no_reorder (s : st) : Prop := rctx s = true ∨ last_len s = None.

Lemma no_reorder_frame s s' : frame s s' → no_reorder s → no_reorder s'.
Proof. intros (E1&E2&_) [?|?]; [left|right]; congruence. Qed.

(** ** the decorated [ite] *)
Theorem ite_spec s g u v r s' :
  Inv s → valid s g → valid s u → valid s v → no_reorder s →
  ite g u v s = (r, s') →
  Inv s' ∧ extends s s' ∧ frame s s' ∧
  match r with
  | Ok w => valid s' w ∧ minlvl3 s g u v ≤ lvl_of s' w ∧
            ∀ a, D s' w a = if D s g a then D s u a else D s v a
  | Err e => benign s e
  end.
Proof.
  intros HI Hg Hu Hv Hnr Hrun. unfold ite in Hrun.
  apply try_to_reorder_inert in Hrun as (r1&s1&Hrun&Hcase).
  unfold ite_ in Hrun. cbn [bind get] in Hrun.
  set (s0 := s <| rctx := true |>) in *.
  assert (HI0 : Inv s0) by (by apply Inv_rctx).
  apply (ite_rec_spec _ s0 g u v r1 s1 HI0 Hg Hu Hv) in Hrun as (HI1&He1&Hf1&Hr);
    [|change (nvars s0) with (nvars s); lia].
  destruct Hcase as [[-> Hctx]|[-> ->]].
  - (* a reordering request at top level with reordering disabled: impossible *)
    destruct Hr as [[_ [l Hl]]|[[=] _]]. destruct Hnr as [?|Hn]; [congruence|].
    change (last_len s0) with (last_len s) in Hl. congruence.
  - split_and!.
    + by apply Inv_rctx.
    + done.
    + destruct Hf1 as (?&?&?&?&?). by split_and!.
    + destruct r1 as [w|e]; [|done]. destruct Hr as (?&?&HD).
      split_and!; try done. intros a. rewrite D_rctx, HD. unfold s0. by rewrite !D_rctx.
Qed.

(** when dynamic reordering is disabled nothing raises [_NeedsReordering];
    with an unbounded table the call succeeds *)
Corollary ite_spec_off s g u v r s' :
  Inv s → valid s g → valid s u → valid s v → last_len s = None →
  max_nodes s = None →
  ite g u v s = (r, s') →
  ∃ w, r = Ok w ∧ Inv s' ∧ extends s s' ∧ frame s s' ∧ valid s' w ∧
       ∀ a, D s' w a = if D s g a then D s u a else D s v a.
Proof.
  intros HI Hg Hu Hv Hoff Hmx Hrun.
  apply ite_spec in Hrun as (?&?&?&Hr); try done; [|by right].
  destruct r as [w|e].
  - exists w. destruct Hr as (?&?&?). by split_and!.
  - by destruct (benign_never s e Hoff Hmx).
Qed.
