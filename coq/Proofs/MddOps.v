(** * MddOps: [MDD.find_or_add], [MDD.ite], [MDD.apply], canonicity and
      [MDD.collect_garbage] *)
From DD Require Export MddSem C01proof GC DddmpLoad.
Local Open Scope string_scope.

Lemma hd_head (l : list Z) : default 0%Z (head l) = hd 0%Z l.
Proof. by destruct l. Qed.

(** ** Primitive steps *)
Lemma m_var_at_level_ok s i n : MInv s → mlen_at s i n →
  ∃ v, m_var_at_level i s = (Ok v, s) ∧ mvars s !! v = Some (i, n).
Proof.
  intros HI [v Hv]. unfold m_var_at_level. cbn [bind get].
  destruct (list_find _ _) as [[k [v' [l n']]]|] eqn:Hf.
  - apply list_find_Some in Hf as (Hf&Hb&_). apply bool_decide_unpack in Hb. subst l.
    apply elem_of_list_lookup_2, elem_of_map_to_list in Hf.
    pose proof (minv_vars _ HI _ _ _ _ _ Hf Hv) as ->. exists v. by split.
  - exfalso. apply list_find_None in Hf. rewrite Forall_forall in Hf.
    apply (Hf (v, (i, n))); [by apply elem_of_map_to_list|]. cbn. by apply bool_decide_pack.
Qed.

Lemma m_len_of_ok s v i n : mvars s !! v = Some (i, n) → m_len_of v s = (Ok n, s).
Proof. intros H. unfold m_len_of. cbn [bind get]. by rewrite H. Qed.

Lemma m_getsucc_ok s u (t : mtuple) : u ≠ 0%Z → mlk s (absn u) = Some t →
  m_getsucc u s = (Ok t, s).
Proof.
  intros Hu Ht. unfold m_getsucc. cbn [bind get]. rewrite decide_False by done. by rewrite Ht.
Qed.

(** the oracle tape is only consumed: once empty it stays empty (and then
    [_allocate] cannot fail) *)
Definition mframe (s s' : mst) : Prop := mtape s = [] → mtape s' = [].
Global Instance mframe_refl : Reflexive mframe.
Proof. intros s H. exact H. Qed.
Global Instance mframe_trans : Transitive mframe.
Proof. intros s1 s2 s3 H1 H2 H. by apply H2, H1. Qed.

(** ** [_allocate]: for every tape *)
Lemma m_allocate_spec s r s1 : MInv s → m_allocate s = (r, s1) →
  MInv s1 ∧ msucc s1 = msucc s ∧ mpred s1 = mpred s ∧ mref s1 = mref s ∧
  mite s1 = mite s ∧ mvars s1 = mvars s ∧ mframe s s1 ∧
  match r with
  | Ok u => mlk s u = None ∧ (u <= mmax s1)%positive ∧ u ∉ mfree s1
  | Err e => e = EOracle ∧ mtape s ≠ []
  end.
Proof.
  intros HI. unfold m_allocate. cbn [bind get].
  destruct (elements (mfree s)) as [|e l] eqn:Hel.
  - cbn [bind modify ret]. intros [= <- <-].
    apply elements_empty_inv, leibniz_equiv in Hel.
    split_and!; try done.
    + apply (MInv_same s); try done. cbn. lia.
    + by intros ?.
    + apply (minv_max _ HI). lia.
    + cbn. rewrite Hel. set_solver.
  - assert (He : e ∈ mfree s) by (apply elem_of_elements; rewrite Hel; left).
    assert (Hgen : ∀ u s0, u ∈ mfree s → msucc s0 = msucc s → mpred s0 = mpred s →
              mref s0 = mref s → mite s0 = mite s → mvars s0 = mvars s →
              mmax s0 = mmax s → mfree s0 = mfree s → mframe s s0 →
              let s1 := s0 <| mfree ::= fun f => f ∖ {[u]} |> in
              MInv s1 ∧ msucc s1 = msucc s ∧ mpred s1 = mpred s ∧ mref s1 = mref s ∧
              mite s1 = mite s ∧ mvars s1 = mvars s ∧ mframe s s1 ∧
              mlk s u = None ∧ (u <= mmax s1)%positive ∧ u ∉ mfree s1).
    { intros u s0 Hu E1 E2 E3 E4 E5 E6 E7 Hfr s1'.
      destruct (minv_free _ HI u Hu) as [Hn Hm].
      split_and!; try done.
      - apply (MInv_same s); try done.
        + cbn. by rewrite E3.
        + cbn. rewrite E6. lia.
        + cbn. rewrite E7. set_solver.
      - cbn. rewrite E6. done.
      - cbn. set_solver. }
    destruct (mtape s) as [|t rest] eqn:Htape.
    + cbn [bind ret modify]. intros [= <- <-]. apply Hgen; try done.
    + cbn [bind ret modify]. destruct (decide (t ∈ mfree s)) as [Ht|Ht].
      * cbn [bind ret modify]. intros [= <- <-]. apply Hgen; try done.
        unfold mframe. by rewrite Htape.
      * cbn [bind raise]. intros [= <- <-]. split_and!; try done.
        -- apply (MInv_same s); try done.
        -- unfold mframe. by rewrite Htape.
Qed.

(** ** State after adding a node *)
Definition madd_node (s : mst) (u : positive) (t : mtuple) : mst :=
  s <| mpred ::= <[t := u]> |> <| msucc ::= <[u := t]> |> <| mref ::= <[u := 0]> |>.

Lemma MInv_madd_node s u i nodes :
  MInv s → mlk s u = None → (u <= mmax s)%positive → u ∉ mfree s →
  i < mnvars s → mlen_at s i (length nodes) →
  (∀ x, x ∈ nodes → mvalid s x ∧ i < mlvl_of s x) →
  (0 < hd 0%Z nodes)%Z → ¬ all_eq nodes → mpred s !! ((i, nodes) : mtuple) = None →
  let s' := madd_node s u (i, nodes) in
  MInv s' ∧ mextends s s' ∧ mlk s' u = Some (i, nodes).
Proof.
  intros HI Hfree Hmax Hnf Hi Hlen Hch Hhd Hne Hpred s'.
  set (t := (i, nodes) : mtuple) in *.
  assert (Hu1 : u ≠ 1%positive).
  { intros E. rewrite E, (minv_term _ HI) in Hfree. done. }
  assert (Hext : mextends s s').
  { split; [|done]. cbn. by apply insert_subseteq. }
  assert (Hnv : mnvars s' = mnvars s) by done.
  split_and!; [|done|by apply lookup_insert].
  split.
  - cbn. rewrite lookup_insert_ne by done. apply HI.
  - intros n i' nodes' Hn Hn1. cbn in Hn. rewrite Hnv.
    assert (Hold : ∀ j l, j < mnvars s → mlen_at s j (length l) →
               (∀ x, x ∈ l → mvalid s x ∧ j < mlvl_of s x) →
               (0 < hd 0%Z l)%Z → ¬ all_eq l →
               j < mnvars s ∧ mlen_at s' j (length l) ∧
               (∀ x, x ∈ l → mvalid s' x ∧ j < mlvl_of s' x) ∧
               (0 < hd 0%Z l)%Z ∧ ¬ all_eq l).
    { intros j l ? ? Hc ? ?. split_and!; try done.
      intros x Hx. destruct (Hc x Hx) as [Hvx Hlx].
      rewrite (mlvl_extends s s') by done. split; [|done]. by apply (mvalid_extends s s'). }
    destruct (decide (n = u)) as [->|Hnu].
    + rewrite lookup_insert in Hn. injection Hn as <- <-. by apply Hold.
    + rewrite lookup_insert_ne in Hn by done.
      destruct (minv_node _ HI _ _ _ Hn Hn1) as (?&?&?&?&?). by apply Hold.
  - intros n t'. cbn.
    destruct (decide (n = u)) as [->|Hnu]; destruct (decide (t' = t)) as [->|Htt].
    + rewrite !lookup_insert. by split.
    + rewrite lookup_insert, lookup_insert_ne by done. split.
      * intros Hp. apply (minv_pred _ HI) in Hp as [Hp _]. congruence.
      * intros [? _]. congruence.
    + rewrite lookup_insert, lookup_insert_ne by done. split; [congruence|].
      intros [Hs Hn1]. assert (mpred s !! t = Some n) by (by apply (minv_pred _ HI)). congruence.
    + rewrite !lookup_insert_ne by done. apply HI.
  - cbn. rewrite !dom_insert_L. by rewrite (minv_ref _ HI).
  - intros k Hk. cbn in Hk |- *. destruct (minv_free _ HI k Hk) as [? ?].
    rewrite lookup_insert_ne; [done|]. intros ->. done.
  - intros k Hk. cbn in Hk |- *. rewrite lookup_insert_ne by lia. by apply (minv_max _ HI).
  - intros g a b c Hite. cbn in Hite.
    destruct (minv_ite _ HI _ _ _ _ Hite) as (?&?&?&?&?&HD).
    rewrite !(mlvl_extends s s') by done.
    split_and!; try done; try by eapply mvalid_extends.
    intros x. rewrite !(MD_extends s s') by done. apply HD.
  - apply HI.
  - rewrite Hnv. apply HI.
Qed.

(** ** The reference-count loop of [find_or_add] *)
Definition mbump_all (l : list Z) (m : gmap positive nat) : gmap positive nat :=
  foldl (fun m x => alter S (absn x) m) m l.

Lemma dom_mbump_all l m : dom (mbump_all l m) = dom m.
Proof.
  revert m. induction l as [|x l IH]; intros m; [done|].
  unfold mbump_all in *. cbn [foldl]. rewrite IH. apply dom_alter_L.
Qed.

Lemma m_incref_run s u : u ≠ 0%Z → is_Some (mref s !! absn u) →
  m_incref u s = (Ok tt, s <| mref ::= alter S (absn u) |>).
Proof.
  intros Hu [n Hn]. unfold m_incref. cbn [bind get].
  rewrite decide_False by done. by rewrite Hn.
Qed.

Lemma m_incref_loop l : ∀ s, (∀ x, x ∈ l → x ≠ 0%Z ∧ absn x ∈ dom (mref s)) →
  forM l m_incref s = (Ok tt, s <| mref := mbump_all l (mref s) |>).
Proof.
  induction l as [|x l IH]; intros s Hl.
  - cbn. by destruct s.
  - cbn [forM]. destruct (Hl x ltac:(left)) as [Hx Hd].
    rewrite (bind_ok _ _ _ _ _ (m_incref_run s x Hx (proj1 (elem_of_dom _ _) Hd))).
    rewrite IH.
    + by destruct s.
    + intros y Hy. destruct (Hl y ltac:(by right)) as [? ?]. split; [done|].
      cbn. by rewrite dom_alter_L.
Qed.

(** ** [find_or_add] *)
Theorem m_find_or_add_spec s i nodes r s' :
  MInv s → nodes ≠ [] → mlen_at s i (length nodes) →
  (∀ x, x ∈ nodes → mvalid s x ∧ i < mlvl_of s x) →
  m_find_or_add i nodes s = (r, s') →
  MInv s' ∧ mextends s s' ∧ mframe s s' ∧
  match r with
  | Ok u => mvalid s' u ∧ i ≤ mlvl_of s' u ∧
            ∀ I, MD s' u I = MD s (msel nodes (I i)) I
  | Err e => e = EOracle ∧ mtape s ≠ []
  end.
Proof.
  intros HI Hne Hlen Hch.
  assert (Hi : i < mnvars s).
  { destruct nodes as [|x l]; [done|]. destruct (Hch x ltac:(left)) as [Hx Hl].
    pose proof (mlvl_le s HI x Hx). lia. }
  unfold m_find_or_add. cbn [bind get]. unfold ensure.
  rewrite bool_decide_eq_true_2 by exact Hi. rewrite (bind_ok _ _ s tt s) by done.
  destruct (m_var_at_level_ok s i _ HI Hlen) as (v&Ev&Hv).
  rewrite (bind_ok _ _ _ _ _ Ev).
  rewrite (bind_ok _ _ _ _ _ (m_len_of_ok s v _ _ Hv)).
  rewrite bool_decide_eq_true_2 by done. rewrite (bind_ok _ _ s tt s) by done.
  rewrite bool_decide_eq_true_2 by done. rewrite (bind_ok _ _ s tt s) by done.
  assert (Hmem : forallb (fun u => m_mem u s) nodes = true).
  { apply forallb_forall. intros x Hx%elem_of_list_In. apply m_mem_valid, Hch, Hx. }
  rewrite Hmem. rewrite (bind_ok _ _ s tt s) by done.
  rewrite !hd_head.
  set (σ := bool_decide (hd 0 nodes < 0)%Z).
  assert (Er : (if decide (hd 0 nodes < 0)%Z then -1 else 1)%Z = (if σ then -1 else 1)%Z).
  { subst σ. case_decide; case_bool_decide; done. }
  rewrite Er. clear Er. set (r0 := (if σ then -1 else 1)%Z).
  set (nodes' := (fun x => (r0 * x)%Z) <$> nodes).
  assert (Hsel : ∀ k, msel nodes' k = (r0 * msel nodes k)%Z).
  { intros k. subst nodes'. rewrite (msel_fmap (fun x => (r0 * x)%Z)) by lia. done. }
  assert (Hch' : ∀ x, x ∈ nodes' → mvalid s x ∧ i < mlvl_of s x).
  { intros x Hx. apply elem_of_list_fmap in Hx as (y&->&Hy). destruct (Hch y Hy) as [Hvy Hly].
    destruct (MD_sign s HI σ y Hvy) as (?&El&_). fold r0 in El |- *. rewrite El. by split. }
  assert (Hhd : hd 0%Z nodes' = (r0 * hd 0 nodes)%Z).
  { subst nodes'. destruct nodes; [done|]. done. }
  assert (Hhdpos : (0 < hd 0 nodes')%Z).
  { rewrite Hhd. assert (hd 0%Z nodes ∈ nodes) as Hin by (destruct nodes; [done|left]).
    destruct (Hch _ Hin) as [[Hh0 _] _]. subst r0 σ. case_bool_decide; lia. }
  assert (Hne' : nodes' ≠ []) by (subst nodes'; by destruct nodes).
  assert (HDsel : ∀ I, MD s (msel nodes' (I i)) I = xorb σ (MD s (msel nodes (I i)) I)).
  { intros I. rewrite Hsel. destruct (Hch _ (msel_in nodes (I i) Hne)) as [Hvy _].
    destruct (MD_sign s HI σ _ Hvy) as (_&_&HD). apply HD. }
  (* the result is [r0 * x] for a valid [x] denoting the node (i, nodes') *)
  assert (Hfin : ∀ s2 x, MInv s2 → mextends s s2 → mvalid s2 x → i ≤ mlvl_of s2 x →
            (∀ I, MD s2 x I = MD s (msel nodes' (I i)) I) →
            mvalid s2 (r0 * x)%Z ∧ i ≤ mlvl_of s2 (r0 * x)%Z ∧
            ∀ I, MD s2 (r0 * x)%Z I = MD s (msel nodes (I i)) I).
  { intros s2 x HI2 He2 Hx Hlx HDx.
    destruct (MD_sign s2 HI2 σ x Hx) as (Hv2&El&HD). fold r0 in Hv2, El, HD.
    rewrite El. split_and!; try done. intros I. rewrite HD, HDx, HDsel.
    by destruct σ, (MD s (msel nodes (I i)) I). }
  destruct (forallb (fun x => bool_decide (x = hd 0%Z nodes')) nodes') eqn:Hall.
  { intros [= <- <-]. split; [done|split; [reflexivity|split; [reflexivity|]]].
    assert (Hae : all_eq nodes').
    { intros x Hx. rewrite forallb_forall in Hall.
      apply elem_of_list_In, Hall, bool_decide_eq_true in Hx. done. }
    assert (hd 0%Z nodes' ∈ nodes') as Hin by (destruct nodes'; [done|left]).
    destruct (Hch' _ Hin) as [Hvh Hlh].
    apply (Hfin s _ HI (reflexivity _) Hvh); [lia|].
    intros I. by rewrite (Hae _ (msel_in nodes' (I i) Hne')). }
  assert (Hnae : ¬ all_eq nodes').
  { intros Hae. apply not_true_iff_false in Hall. apply Hall, forallb_forall.
    intros x Hx%elem_of_list_In. apply bool_decide_eq_true. by apply Hae. }
  destruct (mpred s !! ((i, nodes') : mtuple)) as [u|] eqn:Hp.
  { intros [= <- <-]. split; [done|split; [reflexivity|split; [reflexivity|]]].
    apply (minv_pred _ HI) in Hp as [Hp Hu1].
    assert (Hvu : mvalid s (Z.pos u)) by (split; [done|]; rewrite absn_pos; by eexists).
    apply (Hfin s (Z.pos u) HI (reflexivity _) Hvu).
    - unfold mlvl_of. rewrite absn_pos, Hp. done.
    - intros I. rewrite (MD_step s HI (Z.pos u) I _ _ Hvu Hp) by done.
      rewrite bool_decide_eq_false_2 by lia. by rewrite xorb_false_l. }
  destruct (m_allocate s) as [ru s1] eqn:Eal.
  pose proof Eal as Eal'. apply m_allocate_spec in Eal' as (HI1&E1&E2&E3&E4&E5&Hfr1&Hu); [|done].
  assert (He1 : mextends s s1) by (split; by rewrite ?E1, ?E5).
  destruct ru as [u|e]; cycle 1.
  { rewrite (bind_err _ _ _ _ _ Eal). intros [= <- <-]. split; [done|split; [done|split; [done|exact Hu]]]. }
  rewrite (bind_ok _ _ _ _ _ Eal). cbn [bind get].
  destruct Hu as (Hfree&Hmax&Hnf).
  assert (Hfree1 : mlk s1 u = None) by (by rewrite E1).
  unfold m_mem, assert. rewrite bool_decide_eq_false_2; cycle 1.
  { intros [_ [t Ht]]. rewrite absn_pos, Hfree1 in Ht. done. }
  cbn [negb]. rewrite (bind_ok _ _ s1 tt s1) by done. cbn [bind modify].
  change (s1 <| mpred ::= <[((i, nodes') : mtuple) := u]> |> <| msucc ::= <[u := ((i, nodes') : mtuple)]> |>
             <| mref ::= <[u := 0]> |>) with (madd_node s1 u (i, nodes')).
  assert (Hch1 : ∀ x, x ∈ nodes' → mvalid s1 x ∧ i < mlvl_of s1 x).
  { intros x Hx. destruct (Hch' x Hx) as [? ?]. rewrite (mlvl_extends s s1) by done.
    split; [by apply (mvalid_extends s s1)|done]. }
  destruct (MInv_madd_node s1 u i nodes' HI1 Hfree1 Hmax Hnf) as (HI2&He2&Hnew); try done.
  { by rewrite (mextends_nvars s s1). }
  { destruct Hlen as [v0 Hv0]. exists v0. subst nodes'. by rewrite fmap_length, E5. }
  { by rewrite E2. }
  set (s2 := madd_node s1 u (i, nodes')) in *.
  assert (Hinc : ∀ x, x ∈ nodes' → x ≠ 0%Z ∧ absn x ∈ dom (mref s2)).
  { intros x Hx. destruct (Hch1 x Hx) as [[Hx0 Hxs] _]. split; [done|].
    rewrite (minv_ref _ HI2). apply elem_of_dom.
    destruct Hxs as [t Ht]. exists t. apply (lookup_weaken _ _ _ _ Ht (proj1 He2)). }
  rewrite (bind_ok _ _ _ _ _ (m_incref_loop nodes' s2 Hinc)).
  set (s3 := s2 <| mref := mbump_all nodes' (mref s2) |>).
  unfold ret. intros [= <- <-].
  assert (HI3 : MInv s3).
  { apply (MInv_same s2); try done. cbn. apply dom_mbump_all. }
  assert (He3 : mextends s s3) by (by etrans).
  split; [done|split; [done|split; [exact Hfr1|]]].
  assert (Hvu : mvalid s3 (Z.pos u)) by (split; [done|]; rewrite absn_pos; by eexists).
  apply (Hfin _ (Z.pos u)); try done.
  - unfold mlvl_of. rewrite absn_pos.
    assert (mlk s3 u = Some (i, nodes')) as -> by exact Hnew. done.
  - intros I. rewrite (MD_step _ HI3 (Z.pos u) I i nodes' Hvu Hnew) by (rewrite absn_pos; intros ->; by rewrite (minv_term _ HI1) in Hfree1).
    rewrite bool_decide_eq_false_2 by lia. rewrite xorb_false_l.
    destruct (Hch' _ (msel_in nodes' (I i) Hne')) as [Hvs _].
    by rewrite (MD_extends s s3).
Qed.

(** ** [_top_cofactor] *)
Lemma mlen_at_inj s i n1 n2 : MInv s → mlen_at s i n1 → mlen_at s i n2 → n1 = n2.
Proof.
  intros HI [v1 H1] [v2 H2]. pose proof (minv_vars _ HI _ _ _ _ _ H1 H2) as ->. congruence.
Qed.

Lemma mlen_of_level s x : MInv s → mvalid s x → mlvl_of s x < mnvars s →
  ∃ n, mlen_at s (mlvl_of s x) n ∧ 0 < n.
Proof.
  intros HI Hx Hl.
  destruct (mnode_cases s HI x Hx) as [[E El]|(i&nodes&Ht&Hn1&Hne&Hli&Hin&Hlen&_)]; [lia|].
  exists (length nodes). rewrite Hli. split; [done|]. destruct nodes; [done|cbn; lia].
Qed.

Lemma m_top_cofactor_ok s u z n : MInv s → mvalid s u → z ≤ mlvl_of s u → z < mnvars s →
  mlen_at s z n → 0 < n →
  ∃ uc, m_top_cofactor u z s = (Ok uc, s) ∧ length uc = n ∧
    (∀ x, x ∈ uc → mvalid s x ∧ z < mlvl_of s x) ∧
    ∀ I, MD s u I = MD s (msel uc (I z)) I.
Proof.
  intros HI Hv Hz Hzn Hlen Hn. unfold m_top_cofactor.
  destruct (m_var_at_level_ok s z n HI Hlen) as (v&Ev&Hvv).
  rewrite (bind_ok _ _ _ _ _ Ev), (bind_ok _ _ _ _ _ (m_len_of_ok s v _ _ Hvv)).
  assert (Hrep : z < mlvl_of s u →
    length (replicate n u) = n ∧
    (∀ x, x ∈ replicate n u → mvalid s x ∧ z < mlvl_of s x) ∧
    ∀ I, MD s u I = MD s (msel (replicate n u) (I z)) I).
  { intros Hlt. split; [by rewrite replicate_length|]. split.
    - intros x Hx%elem_of_replicate. destruct Hx as [-> _]. by split.
    - intros I. by rewrite msel_replicate. }
  destruct (mnode_cases s HI u Hv) as [[E El]|(i&nodes&Ht&Hn1&Hne&Hl&Hin&Hlen'&Hch&Hhd&Hnae)].
  - rewrite decide_True by (split; [done|apply Hv]).
    exists (replicate n u). split; [done|]. apply Hrep. lia.
  - rewrite decide_False by (intros [? ?]; done).
    rewrite (bind_ok _ _ _ _ _ (m_getsucc_ok s u _ (proj1 Hv) Ht)). cbv beta iota.
    destruct (decide (z < i)) as [Hlt|Hge].
    + exists (replicate n u). split; [done|]. apply Hrep. lia.
    + assert (i = z) as -> by lia.
      assert (forallb (fun x => bool_decide (x ≠ 0%Z)) nodes = true) as Hnz.
      { apply forallb_forall. intros x Hx%elem_of_list_In. apply bool_decide_eq_true.
        apply (Hch x Hx). }
      unfold assert. rewrite Hnz. rewrite (bind_ok _ _ s tt s) by done.
      rewrite bool_decide_eq_true_2 by done. rewrite (bind_ok _ _ s tt s) by done.
      pose proof (mlen_at_inj s z _ _ HI Hlen' Hlen) as Hln.
      destruct (decide (0 < u)%Z) as [Hpos|Hneg].
      * exists nodes. split_and!; try done.
        intros I. rewrite (MD_step s HI u I z nodes Hv Ht Hn1).
        rewrite bool_decide_eq_false_2 by lia. by rewrite xorb_false_l.
      * exists ((fun x => (- x)%Z) <$> nodes). split_and!; try done.
        -- by rewrite fmap_length.
        -- intros x Hx. apply elem_of_list_fmap in Hx as (y&->&Hy).
           destruct (Hch y Hy). rewrite mlvl_neg. split; [by apply mvalid_neg|done].
        -- intros I. rewrite (MD_step s HI u I z nodes Hv Ht Hn1).
           destruct Hv as [Hu0 _]. rewrite bool_decide_eq_true_2 by lia.
           rewrite (msel_fmap (fun x => (- x)%Z)) by done.
           destruct (Hch _ (msel_in nodes (I z) Hne)) as [Hvs _].
           rewrite MD_neg by done. by destruct (MD s _ I).
Qed.

(** ** [zip3] *)
Lemma zip3_length {A B C} (a : list A) (b : list B) (c : list C) n :
  length a = n → length b = n → length c = n → length (zip3 a b c) = n.
Proof.
  revert a b c. induction n as [|n IH]; intros [|x a] [|y b] [|z c]; cbn; try done.
  intros. f_equal. apply IH; lia.
Qed.
Lemma zip3_lookup (a b c : list Z) k : length b = length a → length c = length a →
  k < length a →
  zip3 a b c !! k = Some (nth k a 0%Z, nth k b 0%Z, nth k c 0%Z).
Proof.
  revert b c k. induction a as [|x a IH]; intros [|y b] [|z c] k; cbn; try lia.
  intros. destruct k; [done|]. cbn. apply IH; lia.
Qed.
Lemma zip3_elem (a b c : list Z) x y z : (x, y, z) ∈ zip3 a b c → x ∈ a ∧ y ∈ b ∧ z ∈ c.
Proof.
  revert b c. induction a as [|x' a IH]; intros [|y' b] [|z' c]; cbn;
    try (intros H; by apply elem_of_nil in H).
  intros H. apply elem_of_cons in H as [[= -> -> ->]|H].
  - split_and!; left.
  - destruct (IH _ _ H) as (?&?&?). split_and!; by right.
Qed.

Definition knorm (n k : nat) : nat := if decide (k < n) then k else 0.
Lemma knorm_lt n k : 0 < n → knorm n k < n.
Proof. unfold knorm. case_decide; lia. Qed.
Lemma msel_norm l k : msel l k = msel l (knorm (length l) k).
Proof. unfold knorm. case_decide; [done|]. apply msel_overflow. lia. Qed.
Lemma msel_lookup l k (y : Z) : l !! k = Some y → msel l k = y.
Proof. intros H. unfold msel. by rewrite nth_lookup, H. Qed.

(** ** [ite] *)
Definition mminlvl3 (s : mst) (g u v : Z) : nat :=
  mlvl_of s g `min` mlvl_of s u `min` mlvl_of s v.
Lemma mminlvl3_extends s s' g u v : mextends s s' → mvalid s g → mvalid s u → mvalid s v →
  mminlvl3 s' g u v = mminlvl3 s g u v.
Proof. intros. unfold mminlvl3. by rewrite !(mlvl_extends s s'). Qed.
Lemma min3_attained a b c :
  a `min` b `min` c = a ∨ a `min` b `min` c = b ∨ a `min` b `min` c = c.
Proof. lia. Qed.

Lemma MInv_mite_insert s g u v w :
  MInv s → mvalid s g → mvalid s u → mvalid s v → mvalid s w →
  mminlvl3 s g u v ≤ mlvl_of s w →
  (∀ I, MD s w I = if MD s g I then MD s u I else MD s v I) →
  MInv (s <| mite ::= <[(g, u, v) := w]> |>).
Proof.
  intros HI Hg Hu Hv Hw Hl HD.
  set (s' := s <| mite ::= <[(g, u, v) := w]> |>).
  assert (Hval : ∀ x, mvalid s' x ↔ mvalid s x) by done.
  assert (Hlvl : ∀ x, mlvl_of s' x = mlvl_of s x) by done.
  assert (HDs : ∀ x I, MD s' x I = MD s x I) by (intros; by apply MD_same).
  split; [apply HI|apply HI|apply HI|apply HI|apply HI|apply HI| |apply HI|apply HI].
  intros g' u' v' w' Hi. cbn in Hi.
  rewrite !Hval, !Hlvl.
  destruct (decide ((g', u', v') = (g, u, v))) as [E|Hne].
  - rewrite E, lookup_insert in Hi. simplify_eq. split_and!; try done.
    intros I. rewrite !HDs. apply HD.
  - rewrite lookup_insert_ne in Hi by done.
    destruct (minv_ite _ HI _ _ _ _ Hi) as (?&?&?&?&?&HD'). split_and!; try done.
    intros I. rewrite !HDs. apply HD'.
Qed.

Definition ite_post (s : mst) (g u v : Z) (s' : mst) (w : Z) : Prop :=
  mvalid s' w ∧ mminlvl3 s g u v ≤ mlvl_of s' w ∧
  ∀ I, MD s' w I = if MD s g I then MD s u I else MD s v I.

Definition ite_spec_at (f : nat) : Prop := ∀ s g u v r s',
  MInv s → mvalid s g → mvalid s u → mvalid s v →
  mnvars s - mminlvl3 s g u v < f →
  m_ite f g u v s = (r, s') →
  MInv s' ∧ mextends s s' ∧ mframe s s' ∧
  match r with
  | Ok w => ite_post s g u v s' w
  | Err e => e = EOracle ∧ mtape s ≠ []
  end.

Lemma ite_post_extends s s1 s2 g u v w :
  MInv s1 → mextends s1 s2 → ite_post s g u v s1 w → ite_post s g u v s2 w.
Proof.
  intros HI1 He (Hw&Hl&HD). split_and!.
  - by apply (mvalid_extends s1 s2).
  - by rewrite (mlvl_extends s1 s2).
  - intros I. by rewrite (MD_extends s1 s2).
Qed.
Lemma ite_post_base s s1 s2 g u v w :
  MInv s → mextends s s1 → mvalid s g → mvalid s u → mvalid s v →
  ite_post s1 g u v s2 w → ite_post s g u v s2 w.
Proof.
  intros HI He Hg Hu Hv (Hw&Hl&HD). split_and!; [done| |].
  - by rewrite <- (mminlvl3_extends s s1).
  - intros I. rewrite HD. by rewrite !(MD_extends s s1).
Qed.

Lemma mapM_ite_spec f (IHf : ite_spec_at f) : ∀ l s r s', MInv s →
  (∀ a b c, (a, b, c) ∈ l →
     mvalid s a ∧ mvalid s b ∧ mvalid s c ∧ mnvars s - mminlvl3 s a b c < f) →
  mapM (fun '(a, b, c) => m_ite f a b c) l s = (r, s') →
  MInv s' ∧ mextends s s' ∧ mframe s s' ∧
  match r with
  | Ok ws => length ws = length l ∧
      ∀ k a b c w, l !! k = Some (a, b, c) → ws !! k = Some w → ite_post s a b c s' w
  | Err e => e = EOracle ∧ mtape s ≠ []
  end.
Proof.
  induction l as [|[[a b] c] l IHl]; intros s r s' HI Hl.
  - cbn. intros [= <- <-]. split_and!; try done.
  - cbn [mapM].
    destruct (Hl a b c ltac:(left)) as (Ha&Hb&Hc&Hm).
    destruct (m_ite f a b c s) as [rw s1] eqn:Ew.
    pose proof Ew as Ew'. apply IHf in Ew' as (HI1&He1&Hf1&Hw); try done.
    destruct rw as [w|e]; cycle 1.
    { rewrite (bind_err _ _ _ _ _ Ew). intros [= <- <-]. done. }
    rewrite (bind_ok _ _ _ _ _ Ew).
    destruct (mapM (fun '(a, b, c) => m_ite f a b c) l s1) as [rws s2] eqn:Ews.
    pose proof Ews as Ews'. apply IHl in Ews' as (HI2&He2&Hf2&Hws); [|done|].
    2:{ intros a' b' c' Hin. destruct (Hl a' b' c' ltac:(by right)) as (?&?&?&?).
        rewrite (mextends_nvars s s1) by done. rewrite (mminlvl3_extends s s1) by done.
        split_and!; try done; by apply (mvalid_extends s s1). }
    destruct rws as [ws|e]; cycle 1.
    { rewrite (bind_err _ _ _ _ _ Ews). intros [= <- <-]. destruct Hws as [-> Ht].
      split_and!; [done|by etrans|by etrans|done|]. intros E. apply Ht. by apply Hf1. }
    rewrite (bind_ok _ _ _ _ _ Ews). cbn [ret]. intros [= <- <-].
    destruct Hws as [Hlen Hlk].
    split_and!; [done|by etrans|by etrans|cbn; by rewrite Hlen|].
    intros k a' b' c' w' Hk Hk'. destruct k as [|k]; cbn in Hk, Hk'.
    + injection Hk as -> -> ->. injection Hk' as ->.
      by apply (ite_post_extends s s1 s2).
    + pose proof (elem_of_list_lookup_2 _ _ _ Hk) as Hin.
      destruct (Hl a' b' c' ltac:(by right)) as (?&?&?&?).
      apply (ite_post_base s s1 s2); try done. by apply (Hlk k).
Qed.

Theorem m_ite_spec fuel : ite_spec_at fuel.
Proof.
  induction fuel as [|f IH]; intros s g u v r s' HI Hg Hu Hv Hfuel; [lia|].
  cbn [m_ite].
  destruct (decide (g = 1%Z)) as [->|Hgn1].
  { intros [= <- <-]. split; [done|split; [reflexivity|split; [reflexivity|]]].
    split_and!; [done|apply min3_le|intros I; by rewrite MD_1]. }
  destruct (decide (g = (-1)%Z)) as [->|Hgnm1].
  { intros [= <- <-]. split; [done|split; [reflexivity|split; [reflexivity|]]].
    split_and!; [done|apply min3_le|intros I; by rewrite MD_m1]. }
  cbn [bind get].
  destruct (mite s !! (g, u, v)) as [w|] eqn:Hc.
  { intros [= <- <-]. destruct (minv_ite _ HI _ _ _ _ Hc) as (?&?&?&?&?&?).
    split; [done|split; [reflexivity|split; [reflexivity|]]]. by split_and!. }
  pose proof Hg as [Hg0 [tg Htg]]. pose proof Hu as [Hu0 [tu Htu]].
  pose proof Hv as [Hv0 [tv Htv]].
  rewrite (bind_ok _ _ _ _ _ (m_getsucc_ok s g tg Hg0 Htg)).
  rewrite (bind_ok _ _ _ _ _ (m_getsucc_ok s u tu Hu0 Htu)).
  rewrite (bind_ok _ _ _ _ _ (m_getsucc_ok s v tv Hv0 Htv)).
  assert (Ez : tg.1 `min` tu.1 `min` tv.1 = mminlvl3 s g u v).
  { unfold mminlvl3, mlvl_of. by rewrite Htg, Htu, Htv. }
  rewrite Ez. clear Ez Htg Htu Htv tg tu tv.
  set (z := mminlvl3 s g u v) in *.
  destruct (min3_le (mlvl_of s g) (mlvl_of s u) (mlvl_of s v)) as (Hzg&Hzu&Hzv).
  fold (mminlvl3 s g u v) in Hzg, Hzu, Hzv. fold z in Hzg, Hzu, Hzv.
  assert (Hzn : z < mnvars s).
  { destruct (mnode_cases s HI g Hg) as [[E _]|(i&nodes&?&?&?&Hl&?&_)]; [|lia].
    destruct (absn_1 g E Hg0); done. }
  assert (∃ n, mlen_at s z n ∧ 0 < n) as (n&Hlen&Hn).
  { destruct (min3_attained (mlvl_of s g) (mlvl_of s u) (mlvl_of s v)) as [E|[E|E]];
      fold (mminlvl3 s g u v) in E; fold z in E; rewrite E; apply mlen_of_level; try done; lia. }
  destruct (m_top_cofactor_ok s g z n HI Hg Hzg Hzn Hlen Hn) as (gc&Eg&Lg&Cg&Dg).
  destruct (m_top_cofactor_ok s u z n HI Hu Hzu Hzn Hlen Hn) as (uc&Eu&Lu&Cu&Du).
  destruct (m_top_cofactor_ok s v z n HI Hv Hzv Hzn Hlen Hn) as (vc&Ev&Lv&Cv&Dv).
  rewrite (bind_ok _ _ _ _ _ Eg), (bind_ok _ _ _ _ _ Eu), (bind_ok _ _ _ _ _ Ev).
  clear Hzg Hzu Hzv.
  (* the recursive calls *)
  assert (Hzip : ∀ a b c, (a, b, c) ∈ zip3 gc uc vc →
            mvalid s a ∧ mvalid s b ∧ mvalid s c ∧ z < mminlvl3 s a b c).
  { intros a b c Hin. apply zip3_elem in Hin as (Hia&Hib&Hic).
    destruct (Cg a Hia), (Cu b Hib), (Cv c Hic). split_and!; try done.
    unfold mminlvl3. lia. }
  destruct (mapM (fun '(a, b, c) => m_ite f a b c) (zip3 gc uc vc) s) as [rn s1] eqn:En.
  pose proof En as En'. apply (mapM_ite_spec f IH) in En' as (HI1&He1&Hf1&Hnodes); [|done|].
  2:{ intros a b c Hin. destruct (Hzip a b c Hin) as (?&?&?&?). split_and!; try done. lia. }
  destruct rn as [nodes|e]; cycle 1.
  { rewrite (bind_err _ _ _ _ _ En). intros [= <- <-]. done. }
  rewrite (bind_ok _ _ _ _ _ En).
  destruct Hnodes as [Hlenn Hlk]. rewrite (zip3_length gc uc vc n) in Hlenn by done.
  assert (Hknode : ∀ k, k < n → ∃ y, nodes !! k = Some y ∧
            ite_post s (nth k gc 0%Z) (nth k uc 0%Z) (nth k vc 0%Z) s1 y ∧
            z < mminlvl3 s (nth k gc 0%Z) (nth k uc 0%Z) (nth k vc 0%Z)).
  { intros k Hk. destruct (lookup_lt_is_Some_2 nodes k ltac:(lia)) as [y Hy].
    exists y. split; [done|].
    pose proof (zip3_lookup gc uc vc k ltac:(lia) ltac:(lia) ltac:(lia)) as Hz3.
    split; [by apply (Hlk k)|].
    destruct (Hzip _ _ _ (elem_of_list_lookup_2 _ _ _ Hz3)) as (_&_&_&?). done. }
  (* the node *)
  destruct (m_find_or_add z nodes s1) as [rw s2] eqn:Ew.
  pose proof Ew as Ew'. apply m_find_or_add_spec in Ew' as (HI2&He2&Hf2&Hw); [|done| | |].
  2:{ intros ->. cbn in Hlenn. lia. }
  2:{ destruct Hlen as [x0 Hx0]. exists x0. rewrite Hlenn. destruct He1 as [_ <-]. done. }
  2:{ intros x Hx. apply elem_of_list_lookup in Hx as [k Hk].
      pose proof (lookup_lt_Some _ _ _ Hk) as Hkn. rewrite Hlenn in Hkn.
      destruct (Hknode k Hkn) as (y&Hy&(Hvy&Hly&_)&Hzl). simplify_eq. split; [done|lia]. }
  destruct rw as [w|e]; cycle 1.
  { rewrite (bind_err _ _ _ _ _ Ew). intros [= <- <-]. destruct Hw as [-> Ht].
    split_and!; [done|by etrans|by etrans|done|]. intros E. apply Ht. by apply Hf1. }
  rewrite (bind_ok _ _ _ _ _ Ew).
  destruct Hw as (Hwv&Hwl&HwD).
  cbn [bind modify ret]. intros [= <- <-].
  assert (He02 : mextends s s2) by (by etrans).
  assert (HDw : ∀ I, MD s2 w I = if MD s g I then MD s u I else MD s v I).
  { intros I. rewrite HwD.
    set (k := knorm n (I z)).
    assert (Hk : k < n) by (by apply knorm_lt).
    destruct (Hknode k Hk) as (y&Hy&(Hvy&Hly&HyD)&_).
    rewrite (msel_norm nodes), Hlenn. fold k. rewrite (msel_lookup nodes k y Hy).
    rewrite HyD. rewrite (Dg I), (Du I), (Dv I).
    rewrite (msel_norm gc), (msel_norm uc), (msel_norm vc), Lg, Lu, Lv. fold k.
    rewrite (msel_lt gc k 0%Z), (msel_lt uc k 0%Z), (msel_lt vc k 0%Z) by lia. done. }
  split_and!.
  - apply MInv_mite_insert; [done|by apply (mvalid_extends s s2)..|done| |].
    + rewrite (mminlvl3_extends s s2) by done. fold z. done.
    + intros I. rewrite (MD_extends s s2 g), (MD_extends s s2 u), (MD_extends s s2 v) by done.
      apply HDw.
  - done.
  - intros E. cbn. by apply Hf2, Hf1.
  - split; [exact Hwv|split; [exact Hwl|]].
    intros I. rewrite <- HDw. by apply MD_same.
Qed.

(** the entry point [MDD.ite] *)
Theorem m_ite__spec s g u v r s' :
  MInv s → mvalid s g → mvalid s u → mvalid s v →
  m_ite_ g u v s = (r, s') →
  MInv s' ∧ mextends s s' ∧ mframe s s' ∧
  match r with
  | Ok w => mvalid s' w ∧ ∀ I, MD s' w I = if MD s g I then MD s u I else MD s v I
  | Err e => e = EOracle ∧ mtape s ≠ []
  end.
Proof.
  intros HI Hg Hu Hv. unfold m_ite_. cbn [bind get]. intros Hrun.
  apply m_ite_spec in Hrun as (HI'&He&Hf&Hr); try done.
  - split_and!; try done. destruct r as [w|e]; [|done]. destruct Hr as (?&?&?). by split.
  - fold (mnvars s). lia.
Qed.

(** ** [MDD.apply] *)
Definition movalid (s : mst) (o : option Z) : Prop :=
  match o with Some x => mvalid s x | None => True end.
(** denotation of an optional operand (absent operands read as [false]) *)
Definition moden (s : mst) (o : option Z) (I : nat → nat) : bool :=
  match o with Some x => MD s x I | None => false end.

Lemma m_eval_operand_spec s o u v w :
  MInv s → mvalid s u → movalid s v → movalid s w → avail (operand_uses o) v w →
  mvalid s (eval_operand o u (default 0%Z v) (default 0%Z w)) ∧
  ∀ I, MD s (eval_operand o u (default 0%Z v) (default 0%Z w)) I =
       operand_sem o (MD s u I) (MD s (default 0%Z v) I) (MD s (default 0%Z w) I).
Proof.
  intros HI Hu Hv Hw. induction o as [| | |o IH| |]; cbn; intros [Hav Haw].
  - done.
  - destruct v; [done|]. by destruct Hav.
  - destruct w; [done|]. by destruct Haw.
  - destruct (IH (conj Hav Haw)) as [Hval HD]. split; [by apply mvalid_neg|].
    intros I. by rewrite MD_neg, HD.
  - split; [by apply mvalid_1|]. intros; by apply MD_1.
  - split; [by apply mvalid_m1|]. intros; by apply MD_m1.
Qed.

(** the row of the MDD table selected for a symbol *)
Definition mdd_find (tbl : list (list string * option template)) (op : string)
  : option (option template) :=
  match list_find (fun '(names, _) => bool_decide (op ∈ names)) tbl with
  | None => None
  | Some (_, (_, o)) => Some o
  end.

(** on the whole vocabulary, the MDD table selects the row that the
    (generated) BDD table selects, with the quantifier rows blanked *)
Lemma mdd_table_rows :
  forallb (fun op => bool_decide (mdd_find mdd_apply_table op =
     (fun t => match t with TQuant _ _ _ => None | t => Some t end)
       <$> find_template py_apply_table op)) py_vocab = true.
Proof. by vm_compute. Qed.

Lemma mdd_apply_run tbl op u v w s :
  arity_ok op v w = true → mvalid s u → movalid s v → movalid s w →
  mdd_apply_with tbl op u v w s =
  match mdd_find tbl op with
  | None => (Err EValue, s)
  | Some None => (Err ERuntime, s)
  | Some (Some (TRet o)) => (Ok (eval_operand o u (default 0%Z v) (default 0%Z w)), s)
  | Some (Some (TIte a b c)) =>
      m_ite_ (eval_operand a u (default 0%Z v) (default 0%Z w))
             (eval_operand b u (default 0%Z v) (default 0%Z w))
             (eval_operand c u (default 0%Z v) (default 0%Z w)) s
  | Some (Some (TQuant _ _ _)) => (Err ERuntime, s)
  end.
Proof.
  intros Har Hu Hv Hw. unfold mdd_apply_with, ensure.
  rewrite Har. rewrite (bind_ok _ _ s tt s) by done. cbn [bind get].
  rewrite (proj2 (m_mem_valid s u) Hu). rewrite (bind_ok _ _ s tt s) by done.
  assert (Hmv : match v with Some v => m_mem v s | None => true end = true).
  { destruct v; [|done]. by apply m_mem_valid. }
  assert (Hmw : match w with Some w => m_mem w s | None => true end = true).
  { destruct w; [|done]. by apply m_mem_valid. }
  rewrite Hmv, Hmw. rewrite !(bind_ok _ _ s tt s) by done.
  unfold mdd_find.
  destruct (list_find _ tbl) as [[k [names [[o|a b c|fa a b]|]]]|]; done.
Qed.

(** [MDD.apply] for every propositional symbol and alias of the vocabulary *)
Theorem mdd_apply_correct s op u v w r s' f :
  MInv s → op ∈ py_vocab → conn_sem op = Some f →
  mvalid s u → movalid s v → movalid s w → arity_ok op v w = true →
  mdd_apply_with mdd_apply_table op u v w s = (r, s') →
  MInv s' ∧ mextends s s' ∧ mframe s s' ∧
  match r with
  | Ok x => mvalid s' x ∧ ∀ I, MD s' x I = f (MD s u I) (moden s v I) (moden s w I)
  | Err e => e = EOracle ∧ mtape s ≠ []
  end.
Proof.
  intros HI Hop Hf Hu Hv Hw Har Hrun.
  pose proof alias_table_ok as Htab. rewrite forallb_forall in Htab.
  pose proof mdd_table_rows as Hrows. rewrite forallb_forall in Hrows.
  apply elem_of_list_In in Hop. specialize (Htab op Hop). specialize (Hrows op Hop).
  apply elem_of_list_In in Hop. apply bool_decide_eq_true in Hrows.
  apply orb_true_iff in Htab as [Hq|Hok].
  { exfalso. apply bool_decide_eq_true in Hq. unfold quantifier_ops in Hq.
    repeat (apply elem_of_cons in Hq as [->|Hq]; [by vm_compute in Hf|]).
    by apply elem_of_nil in Hq. }
  unfold class_uses_ok in Hok.
  destruct (find_template py_apply_table op) as [t|] eqn:Ht; [|done].
  destruct (template_uses t) as [uv uw] eqn:Hus.
  apply andb_true_iff in Hok as [Hcl Hsem]. rewrite Hf in Hsem.
  rewrite forallb_forall in Hsem.
  assert (Hsem' : ∀ b1 b2 b3, template_sem t b1 b2 b3 = Some (f b1 b2 b3)).
  { intros b1 b2 b3.
    pose proof (Hsem (b1, b2, b3) (proj1 (elem_of_list_In _ _) (bools3_all b1 b2 b3))) as H.
    by apply bool_decide_eq_true in H. }
  clear Hsem.
  destruct py_table_is_model_table as (Etab&Eu&Eb&Et).
  pose proof Har as Har'. unfold arity_ok in Har. rewrite <- Eu, <- Eb, <- Et in Har.
  assert (Hav : avail (template_uses t) v w).
  { rewrite Hus. unfold avail. cbn.
    destruct (bool_decide (op ∈ py_unary)).
    - apply andb_true_iff in Hcl as [?%negb_true_iff ?%negb_true_iff]. split; congruence.
    - destruct (bool_decide (op ∈ py_binary)).
      + apply negb_true_iff in Hcl. apply bool_decide_eq_true in Har as [? ?]. split; congruence.
      + rewrite Hcl in Har. apply bool_decide_eq_true in Har as [? ?]. by split. }
  (* the value computed is the connective *)
  assert (Hconn : ∀ I, f (MD s u I) (MD s (default 0%Z v) I) (MD s (default 0%Z w) I) =
                       f (MD s u I) (moden s v I) (moden s w I)).
  { intros I. destruct (bool_decide (op ∈ py_unary)) eqn:Hcu.
    - apply bool_decide_eq_true in Hcu. apply (conn_unary op f Hf Hcu).
    - destruct (bool_decide (op ∈ py_binary)) eqn:Hcb.
      + apply bool_decide_eq_true in Hcb, Har. destruct Har as [Hvn ->].
        destruct v as [v|]; [|done]. cbn [default moden].
        apply (conn_binary op f Hf Hcb).
      + rewrite Hcl in Har. apply bool_decide_eq_true in Har as [? ?].
        destruct v as [v|], w as [w|]; done. }
  rewrite (mdd_apply_run _ _ _ _ _ _ Har' Hu Hv Hw), Hrows in Hrun. cbn [fmap option_fmap option_map] in Hrun.
  destruct t as [o|a b c|fa a b]; [| |by specialize (Hsem' true true true)].
  - injection Hrun as <- <-.
    destruct (m_eval_operand_spec s o u v w HI Hu Hv Hw Hav) as [Hval HD].
    split; [done|split; [reflexivity|split; [reflexivity|]]]. split; [done|].
    intros I. rewrite HD, <- Hconn. specialize (Hsem' (MD s u I) (MD s (default 0%Z v) I) (MD s (default 0%Z w) I)).
    cbn in Hsem'. by injection Hsem'.
  - cbn in Hav.
    destruct (m_eval_operand_spec s a u v w HI Hu Hv Hw (avail_por_l _ _ _ _ Hav)) as [Va Da].
    destruct (m_eval_operand_spec s b u v w HI Hu Hv Hw
                (avail_por_l _ _ _ _ (avail_por_r _ _ _ _ Hav))) as [Vb Db].
    destruct (m_eval_operand_spec s c u v w HI Hu Hv Hw
                (avail_por_r _ _ _ _ (avail_por_r _ _ _ _ Hav))) as [Vc Dc].
    apply m_ite__spec in Hrun as (HI'&He&Hfr&Hr); try done.
    split; [done|split; [done|split; [done|]]].
    destruct r as [x|e]; [|done]. destruct Hr as [Hx HD]. split; [done|].
    intros I. rewrite HD, Da, Db, Dc, <- Hconn.
    specialize (Hsem' (MD s u I) (MD s (default 0%Z v) I) (MD s (default 0%Z w) I)).
    cbn in Hsem'. by injection Hsem'.
Qed.

(** the quantifier spellings raise [NotImplementedError] and leave the
    manager untouched *)
Theorem mdd_apply_quantifier s op u v w :
  op ∈ quantifier_ops → arity_ok op v w = true →
  mvalid s u → movalid s v → movalid s w →
  mdd_apply_with mdd_apply_table op u v w s = (Err ERuntime, s).
Proof.
  intros Hq Har Hu Hv Hw. rewrite (mdd_apply_run _ _ _ _ _ _ Har Hu Hv Hw).
  unfold quantifier_ops in Hq.
  repeat (apply elem_of_cons in Hq as [->|Hq];
          [set (row := mdd_find _ _); vm_compute in row; by subst row|]).
  by apply elem_of_nil in Hq.
Qed.

(** ** Canonicity: equal functions (on in-range assignments) have equal references *)
Definition mlens_pos (s : mst) : Prop := ∀ v l n, mvars s !! v = Some (l, n) → 0 < n.

Lemma minrange_zero s : mlens_pos s → minrange s (fun _ => 0).
Proof. intros H v l n Hv. by apply (H v l n). Qed.

Lemma minrange_iupd s I z n k : MInv s → minrange s I → mlen_at s z n → k < n →
  minrange s (iupd I z k).
Proof.
  intros HI Hr Hlen Hk v l n' Hv. destruct (decide (l = z)) as [->|Hne].
  - rewrite iupd_same. rewrite (mlen_at_inj s z n' n HI) by (done || by exists v). done.
  - rewrite iupd_other by done. by apply (Hr v).
Qed.

Section mcanon.
Context (s : mst) (HI : MInv s) (Hpos : mlens_pos s).

(** the cofactor functions of a stored node *)
Lemma MD_cofactor u i nodes j I : mvalid s u → mlk s (absn u) = Some (i, nodes) →
  absn u ≠ 1%positive → nodes ≠ [] →
  (∀ x, x ∈ nodes → mvalid s x ∧ i < mlvl_of s x) →
  MD s u (iupd I i j) = xorb (bool_decide (u < 0)%Z) (MD s (msel nodes j) I).
Proof.
  intros Hu Ht Hn Hne Hch.
  rewrite (MD_step s HI u _ i nodes Hu Ht Hn). rewrite iupd_same. f_equal.
  destruct (Hch _ (msel_in nodes j Hne)) as [Hvc Hlc].
  by apply MD_upd_above.
Qed.

Lemma mcanonical_aux k : ∀ u v, mvalid s u → mvalid s v →
  mnvars s - k ≤ mlvl_of s u → mnvars s - k ≤ mlvl_of s v →
  (∀ I, minrange s I → MD s u I = MD s v I) → u = v.
Proof.
  induction k as [|k IH]; intros u v Hu Hv Lu Lv Heq.
  - destruct (mnode_cases s HI u Hu) as [[Eu _]|(i&nodes&?&?&?&Hl&?&_)]; [|lia].
    destruct (mnode_cases s HI v Hv) as [[Ev _]|(i&nodes&?&?&?&Hl&?&_)]; [|lia].
    specialize (Heq _ (minrange_zero s Hpos)). rewrite !MD_term in Heq by done.
    destruct Hu, Hv. unfold absn in *.
    repeat case_bool_decide; try done; lia.
  - (* a node strictly above the other operand cannot denote the same function *)
    assert (Habove : ∀ u v, mvalid s u → mvalid s v →
               mnvars s - S k ≤ mlvl_of s u → mlvl_of s u < mlvl_of s v →
               (∀ I, minrange s I → MD s u I = MD s v I) → False).
    { clear u v Hu Hv Lu Lv Heq. intros u v Hu Hv Lu Luv Heq.
      destruct (mnode_cases s HI u Hu) as [[Eu El]|(i&nodes&Ht&Hn&Hne&Hl&Hin&Hlen&Hch&Hhd&Hnae)].
      { pose proof (mlvl_le s HI v Hv). lia. }
      assert (H0 : 0 < length nodes) by (destruct nodes; [done|cbn; lia]).
      apply Hnae. apply all_eq_sel. intros j Hj.
      assert (msel nodes j = msel nodes 0) as ->; [|unfold msel; by destruct nodes].
      destruct (Hch _ (msel_in nodes j Hne)) as [Hvj Hlj].
      destruct (Hch _ (msel_in nodes 0 Hne)) as [Hv0 Hl0].
      apply IH; try done; try lia. intros I Hr.
      pose proof (Heq _ (minrange_iupd s I i _ j HI Hr Hlen Hj)) as HQj.
      pose proof (Heq _ (minrange_iupd s I i _ 0 HI Hr Hlen H0)) as HQ0.
      rewrite (MD_cofactor u i nodes) in HQj, HQ0 by done.
      rewrite (MD_upd_above s HI v) in HQj, HQ0 by first [done | lia].
      destruct (MD s (msel nodes j) I), (MD s (msel nodes 0) I), (MD s v I),
        (bool_decide (u < 0)%Z); done. }
    destruct (lt_eq_lt_dec (mlvl_of s u) (mlvl_of s v)) as [[Hlt|Heql]|Hgt].
    + exfalso. by apply (Habove u v).
    + destruct (mnode_cases s HI u Hu) as [[Eu El]|(i&nodes&Ht&Hn&Hne&Hl&Hin&Hlen&Hch&Hhd&Hnae)];
      destruct (mnode_cases s HI v Hv) as [[Ev El']|(i'&nodes'&Ht'&Hn'&Hne'&Hl'&Hin'&Hlen'&Hch'&Hhd'&Hnae')]; try lia.
      * specialize (Heq _ (minrange_zero s Hpos)). rewrite !MD_term in Heq by done.
        destruct Hu, Hv. unfold absn in *. repeat case_bool_decide; try done; lia.
      * assert (i' = i) as -> by lia.
        pose proof (mlen_at_inj s i _ _ HI Hlen' Hlen) as Elen.
        set (σu := bool_decide (u < 0)%Z). set (σv := bool_decide (v < 0)%Z).
        set (su := if σu then (-1)%Z else 1%Z). set (sv := if σv then (-1)%Z else 1%Z).
        assert (Hsel : ∀ j, j < length nodes →
                  (su * msel nodes j = sv * msel nodes' j)%Z).
        { intros j Hj.
          destruct (Hch _ (msel_in nodes j Hne)) as [Hvj Hlj].
          destruct (Hch' _ (msel_in nodes' j Hne')) as [Hvj' Hlj'].
          destruct (MD_sign s HI σu _ Hvj) as (?&Hl1&HD1), (MD_sign s HI σv _ Hvj') as (?&Hl2&HD2).
          apply IH; try done; try (subst su sv; rewrite ?Hl1, ?Hl2; lia).
          intros I Hr. subst su sv. rewrite HD1, HD2.
          pose proof (Heq _ (minrange_iupd s I i _ j HI Hr Hlen Hj)) as HQ.
          rewrite (MD_cofactor u i nodes), (MD_cofactor v i nodes') in HQ by done.
          done. }
        assert (H0 : 0 < length nodes) by (destruct nodes; [done|cbn; lia]).
        assert (Hh : msel nodes 0 = hd 0%Z nodes ∧ msel nodes' 0 = hd 0%Z nodes').
        { unfold msel. by destruct nodes, nodes'. }
        destruct Hh as [Hh Hh'].
        assert (su = sv) as Es.
        { pose proof (Hsel 0 H0) as E0. rewrite Hh, Hh' in E0.
          subst su sv; destruct σu, σv; lia. }
        assert (nodes = nodes') as <-.
        { apply (nth_ext _ _ 0%Z 0%Z); [done|]. intros j Hj.
          pose proof (Hsel j Hj) as Ej. rewrite Es in Ej.
          rewrite <- (msel_lt nodes j 0%Z), <- (msel_lt nodes' j 0%Z) by lia.
          subst sv. destruct σv; lia. }
        assert (absn u = absn v) as Eabs.
        { assert (mpred s !! ((i, nodes) : mtuple) = Some (absn u)) as H1
            by (by apply (minv_pred _ HI)).
          assert (mpred s !! ((i, nodes) : mtuple) = Some (absn v)) as H2
            by (by apply (minv_pred _ HI)).
          congruence. }
        subst su sv σu σv. destruct Hu as [Hu0 _], Hv as [Hv0 _]. unfold absn in Eabs.
        repeat case_bool_decide; try done; lia.
    + exfalso. apply (Habove v u); try done; try lia.
      intros I Hr. symmetry. by apply Heq.
Qed.

Theorem mdd_canonical u v : mvalid s u → mvalid s v →
  (∀ I, minrange s I → MD s u I = MD s v I) → u = v.
Proof.
  intros Hu Hv. apply (mcanonical_aux (mnvars s)); try done; lia.
Qed.
End mcanon.

(** ** Reference counts of an MDD manager *)
Definition m_edges_to (t : mtuple) (n : positive) : nat :=
  length (filter (fun x => absn x = n) t.2).
Definition m_indeg (m : gmap positive mtuple) (n : positive) : nat :=
  map_fold (fun _ t acc => m_edges_to t n + acc) 0 m.
(** the counters are exact w.r.t. a ledger [L] of external references *)
Definition MCounts (s : mst) (L : positive → nat) : Prop :=
  (∀ n, n ∈ dom (msucc s) → mref s !! n = Some (m_indeg (msucc s) n + L n)) ∧
  (∀ n, n ∉ dom (msucc s) → L n = 0).

Lemma m_indeg_empty n : m_indeg ∅ n = 0.
Proof. unfold m_indeg. by rewrite map_fold_empty. Qed.
Lemma m_indeg_insert_fresh m u t n : m !! u = None →
  m_indeg (<[u := t]> m) n = m_edges_to t n + m_indeg m n.
Proof.
  intros H. unfold m_indeg. rewrite map_fold_insert_L; [done| |done].
  intros; lia.
Qed.
Lemma m_indeg_delete m u t n : m !! u = Some t →
  m_indeg m n = m_edges_to t n + m_indeg (delete u m) n.
Proof.
  intros H. rewrite <- (insert_delete m u t) at 1 by done.
  apply m_indeg_insert_fresh. apply lookup_delete.
Qed.
Lemma m_indeg_ge m k t n : m !! k = Some t → m_edges_to t n ≤ m_indeg m n.
Proof. intros H. rewrite (m_indeg_delete m k t n H). lia. Qed.
Lemma m_indeg_pos m n : 0 < m_indeg m n →
  ∃ k t, m !! k = Some t ∧ 0 < m_edges_to t n.
Proof.
  induction m as [|i x m Hi IH] using map_ind.
  - rewrite m_indeg_empty. lia.
  - rewrite m_indeg_insert_fresh by done. intros H.
    destruct (decide (0 < m_edges_to x n)) as [Hx|Hx].
    + exists i, x. by rewrite lookup_insert.
    + destruct IH as (k&t&Hk&Ht); [lia|]. exists k, t. split; [|done].
      rewrite lookup_insert_ne; [done|]. congruence.
Qed.

Lemma m_edges_to_pos (t : mtuple) n : 0 < m_edges_to t n ↔ ∃ x, x ∈ t.2 ∧ absn x = n.
Proof.
  unfold m_edges_to. split.
  - intros H. destruct (filter _ t.2) as [|x l] eqn:E; [cbn in H; lia|].
    assert (x ∈ filter (fun x => absn x = n) t.2) as Hx by (rewrite E; left).
    apply elem_of_list_filter in Hx as [? ?]. by exists x.
  - intros (x&Hx&E).
    assert (x ∈ filter (fun x => absn x = n) t.2) as Hin by (by apply elem_of_list_filter).
    destruct (filter _ t.2); [by apply elem_of_nil in Hin|cbn; lia].
Qed.

Inductive mreach (m : gmap positive mtuple) (R : positive → Prop) : positive → Prop :=
  | mreach_root n : R n → n ∈ dom m → mreach m R n
  | mreach_step p (t : mtuple) x : mreach m R p → m !! p = Some t → x ∈ t.2 →
      mreach m R (absn x).

(** ** The invariant without the computed table *)
Definition mclr (s : mst) : mst := s <| mite := ∅ |>.
Definition MW (s : mst) : Prop := MInv (mclr s).

Lemma MInv_MW s : MInv s → MW s.
Proof.
  intros HI. split; [apply HI|apply HI|apply HI|apply HI|apply HI|apply HI| |apply HI|apply HI].
  intros g u v w Hi. cbn in Hi. by rewrite lookup_empty in Hi.
Qed.

Section MW.
Context (s : mst) (HW : MW s).
Lemma MW_term : mlk s 1%positive = Some (mnvars s, []).
Proof. exact (minv_term _ HW). Qed.
Lemma MW_node n i nodes : mlk s n = Some (i, nodes) → n ≠ 1%positive →
  i < mnvars s ∧ mlen_at s i (length nodes) ∧
  (∀ x, x ∈ nodes → mvalid s x ∧ i < mlvl_of s x) ∧
  (0 < hd 0%Z nodes)%Z ∧ ¬ all_eq nodes.
Proof. exact (minv_node _ HW n i nodes). Qed.
Lemma MW_pred n (t : mtuple) : mpred s !! t = Some n ↔ (mlk s n = Some t ∧ n ≠ 1%positive).
Proof. exact (minv_pred _ HW n t). Qed.
Lemma MW_ref : dom (mref s) = dom (msucc s).
Proof. exact (minv_ref _ HW). Qed.
Lemma MW_free k : k ∈ mfree s → mlk s k = None ∧ (k <= mmax s)%positive.
Proof. exact (minv_free _ HW k). Qed.
Lemma MW_max k : (mmax s < k)%positive → mlk s k = None.
Proof. exact (minv_max _ HW k). Qed.

(** edges of a well-formed manager only point to stored nodes, never from
    the terminal, never to the node itself *)
Lemma MW_edges_dom k (t : mtuple) n : mlk s k = Some t → 0 < m_edges_to t n →
  n ∈ dom (msucc s) ∧ k ≠ 1%positive ∧ n ≠ k.
Proof.
  intros Hk He. apply m_edges_to_pos in He as (x&Hx&<-).
  assert (k ≠ 1%positive) as Hk1.
  { intros ->. rewrite MW_term in Hk. injection Hk as <-. by apply elem_of_nil in Hx. }
  destruct t as [i nodes]. destruct (MW_node k i nodes Hk Hk1) as (_&_&Hch&_).
  destruct (Hch x Hx) as [[_ Hs] Hl]. split_and!; [by apply elem_of_dom|done|].
  intros E. unfold mlvl_of in Hl. rewrite E, Hk in Hl. cbn in Hl. lia.
Qed.
End MW.

Lemma mreach_dom s R n : MInv s → mreach (msucc s) R n → n ∈ dom (msucc s).
Proof.
  intros HI. induction 1 as [n _ Hn|p t x _ IH Hp Hx]; [done|].
  apply (MW_edges_dom s (MInv_MW s HI) p t). { done. }
  apply m_edges_to_pos. by exists x.
Qed.

(** ** Decrementing the counters of a list of successors *)
Definition mdecs (l : list Z) (m : gmap positive nat) : gmap positive nat :=
  foldl (fun m x => alter Nat.pred (absn x) m) m l.

Lemma mdecs_lookup l : ∀ m n,
  mdecs l m !! n = (fun y => y - length (filter (fun x => absn x = n) l)) <$> m !! n.
Proof.
  induction l as [|x l IH]; intros m n.
  - cbn. destruct (m !! n); cbn; [f_equal; lia|done].
  - unfold mdecs. cbn [foldl]. fold (mdecs l (alter Nat.pred (absn x) m)). rewrite IH.
    destruct (decide (absn x = n)) as [E|E].
    + rewrite filter_cons_True by done. rewrite <- E, lookup_alter.
      destruct (m !! absn x); cbn; [f_equal; lia|done].
    + rewrite filter_cons_False by done. by rewrite lookup_alter_ne.
Qed.
Lemma dom_mdecs l m : dom (mdecs l m) = dom m.
Proof.
  apply stdpp.sets.set_eq. intros n. rewrite !elem_of_dom, mdecs_lookup. by rewrite fmap_is_Some.
Qed.
Lemma mdecs_other l : ∀ m n, n ∉ absn <$> l → mdecs l m !! n = m !! n.
Proof.
  induction l as [|x l IH]; intros m n Hn; [done|].
  rewrite fmap_cons, not_elem_of_cons in Hn. destruct Hn as [Hx Hn].
  unfold mdecs. cbn [foldl]. fold (mdecs l (alter Nat.pred (absn x) m)).
  rewrite IH by done. by rewrite lookup_alter_ne.
Qed.
Lemma mdecs_zero l m n : m !! n = Some 0 → mdecs l m !! n = Some 0.
Proof. intros H. rewrite mdecs_lookup, H. done. Qed.

Lemma m_decref_run s u : u ≠ 0%Z → is_Some (mref s !! absn u) →
  m_decref u s = (Ok tt, s <| mref ::= alter Nat.pred (absn u) |>).
Proof.
  intros Hu [n Hn]. unfold m_decref. cbn [bind get].
  rewrite decide_False by done. by rewrite Hn.
Qed.
Lemma m_ref_run s u r : u ≠ 0%Z → mref s !! absn u = Some r → m_ref u s = (Ok r, s).
Proof.
  intros Hu Hn. unfold m_ref. cbn [bind get].
  rewrite decide_False by done. by rewrite Hn.
Qed.

Definition m_dec_body (unused : gset positive) (v : Z) : MM (gset positive) :=
  m_decref v ;;;
  r <- m_ref v ;;
  if decide (r = 0 ∧ absn v ≠ 1%positive)
  then ret (unused ∪ {[absn v]}) else ret unused.

Lemma m_dec_loop l : ∀ s (U : gset positive),
  (∀ x, x ∈ l → x ≠ 0%Z ∧ is_Some (mref s !! absn x)) →
  ∃ U' : gset positive,
    foldM m_dec_body U l s = (Ok U', s <| mref := mdecs l (mref s) |>) ∧
    U ⊆ U' ∧
    (∀ n, n ∈ U' → n ∈ U ∨ (n ≠ 1%positive ∧ n ∈ absn <$> l ∧
                              mdecs l (mref s) !! n = Some 0)) ∧
    (∀ n, n ∈ absn <$> l → n ≠ 1%positive → mdecs l (mref s) !! n = Some 0 → n ∈ U').
Proof.
  induction l as [|x l IH]; intros s U Hl.
  - exists U. split; [cbn; by destruct s|]. split; [done|]. split; [by left|].
    intros n Hn. by apply elem_of_nil in Hn.
  - destruct (Hl x ltac:(left)) as [Hx0 [c Hc]].
    set (s1 := s <| mref ::= alter Nat.pred (absn x) |>).
    set (U1 := if decide (Nat.pred c = 0 ∧ absn x ≠ 1%positive)
               then U ∪ {[absn x]} else U).
    assert (Hbody : m_dec_body U x s = (Ok U1, s1)).
    { unfold m_dec_body. rewrite (bind_ok _ _ _ _ _ (m_decref_run s x Hx0 ltac:(by eexists))).
      fold s1. rewrite (bind_ok _ _ _ _ _ (m_ref_run s1 x (Nat.pred c) Hx0
        ltac:(cbn; by rewrite lookup_alter, Hc))).
      subst U1. by case_decide. }
    destruct (IH s1 U1) as (U'&EU&Hsub&Hb&Hc').
    { intros y Hy. destruct (Hl y ltac:(by right)) as [? ?]. split; [done|].
      cbn. by apply lookup_alter_is_Some. }
    exists U'. split.
    { cbn [foldM]. rewrite (bind_ok _ _ _ _ _ Hbody), EU. by destruct s. }
    assert (Hm : mdecs (x :: l) (mref s) = mdecs l (mref s1)) by done.
    rewrite Hm.
    assert (HU1 : U ⊆ U1) by (subst U1; case_decide; set_solver).
    split; [set_solver|]. split.
    + intros n Hn. destruct (Hb n Hn) as [Hn1|(?&?&?)].
      * subst U1. case_decide as Hd; [|by left].
        apply elem_of_union in Hn1 as [?|Hn1]; [by left|].
        apply elem_of_singleton in Hn1 as ->. right. destruct Hd as [Hd ?].
        split; [done|]. split; [rewrite fmap_cons; left|].
        apply mdecs_zero. cbn. rewrite lookup_alter, Hc. cbn. by rewrite Hd.
      * right. split; [done|]. split; [rewrite fmap_cons; by right|done].
    + intros n Hn Hn1 Hz. rewrite fmap_cons in Hn.
      destruct (decide (n ∈ absn <$> l)) as [Hin|Hnin]; [by apply Hc'|].
      apply elem_of_cons in Hn as [->|?]; [|done].
      rewrite mdecs_other in Hz by done. cbn in Hz. rewrite lookup_alter, Hc in Hz.
      injection Hz as Hz. apply Hsub. subst U1. rewrite decide_True by done. set_solver.
Qed.

Lemma m_release_ok s u : (u <= mmax s)%positive → u ∉ mfree s →
  mlk s u = None → mref s !! u = None →
  m_release u s = (Ok tt, s <| mfree ::= fun f => f ∪ {[u]} |>).
Proof.
  intros. unfold m_release. cbn [bind get]. unfold assert.
  rewrite !bool_decide_eq_true_2 by done. done.
Qed.

(** ** One removal *)
Definition m_gc_del (s : mst) (u : positive) (t : mtuple) : mst :=
  let s1 := s <| msucc ::= delete u |> <| mpred ::= delete t |> <| mref ::= delete u |>
              <| mfree ::= fun f => f ∪ {[u]} |> in
  s1 <| mref := mdecs t.2 (mref s1) |>.

Lemma mref_gc_del s u (t : mtuple) n : n ≠ u →
  mref (m_gc_del s u t) !! n = (fun y => y - m_edges_to t n) <$> mref s !! n.
Proof. intros Hn. cbn. rewrite mdecs_lookup, lookup_delete_ne by done. done. Qed.

Lemma m_gc_loop_unfold f (U : gset positive) s u l (t : mtuple) :
  elements U = u :: l → u ≠ 1%positive → mlk s u = Some t →
  mpred s !! t = Some u → mref s !! u = Some 0 →
  (u <= mmax s)%positive → u ∉ mfree s →
  (∀ x, x ∈ t.2 → x ≠ 0%Z ∧ absn x ≠ u ∧ is_Some (mref s !! absn x)) →
  ∃ U' : gset positive,
    m_gc_loop (S f) U s = m_gc_loop f U' (m_gc_del s u t) ∧
    U ∖ {[u]} ⊆ U' ∧
    (∀ n, n ∈ U' → n ∈ U ∖ {[u]} ∨ (n ≠ 1%positive ∧ n ∈ absn <$> t.2 ∧
                                    mref (m_gc_del s u t) !! n = Some 0)) ∧
    (∀ n, n ∈ absn <$> t.2 → n ≠ 1%positive →
          mref (m_gc_del s u t) !! n = Some 0 → n ∈ U').
Proof.
  intros Hel Hu1 Ht Hp Hr Hmax Hnf Hch.
  set (s1 := s <| msucc ::= delete u |> <| mpred ::= delete t |> <| mref ::= delete u |>
               <| mfree ::= fun f => f ∪ {[u]} |>).
  destruct (m_dec_loop t.2 s1 (U ∖ {[u]})) as (U'&EU&Hsub&Hb&Hc).
  { intros x Hx. destruct (Hch x Hx) as (?&?&?). split; [done|].
    cbn. by rewrite lookup_delete_ne. }
  exists U'. split; [|done].
  cbn [m_gc_loop]. rewrite Hel. unfold assert.
  rewrite bool_decide_eq_true_2 by done. cbn [bind ret get].
  assert (H1 : of_opt (S := mst) EKey (mlk s u) s = (Ok t, s)) by (by rewrite Ht).
  rewrite (bind_ok _ _ _ _ _ H1). cbn [bind modify].
  assert (H2 : ∀ s0 : mst, of_opt (S := mst) EKey (mpred s !! t) s0 = (Ok u, s0))
    by (intros; by rewrite Hp).
  rewrite (bind_ok _ _ _ _ _ (H2 _)). cbn [bind modify].
  rewrite Hr. cbn [of_opt bind ret modify].
  erewrite (bind_ok (m_release u));
    [|apply m_release_ok; [exact Hmax|exact Hnf|apply lookup_delete|apply lookup_delete]].
  rewrite !bool_decide_eq_true_2 by done. cbn [bind ret].
  erewrite bind_ok by exact EU. reflexivity.
Qed.

Lemma m_edges_to_zero (t : mtuple) n : n ∉ absn <$> t.2 → m_edges_to t n = 0.
Proof.
  intros Hn. destruct (decide (0 < m_edges_to t n)) as [H|H]; [|lia].
  apply m_edges_to_pos in H as (x&Hx&<-). exfalso. apply Hn.
  apply elem_of_list_fmap. by exists x.
Qed.

(** ** What one removal preserves *)
Lemma MW_gc_del s u (t : mtuple) : MW s → mlk s u = Some t → u ≠ 1%positive →
  m_indeg (msucc s) u = 0 → MW (m_gc_del s u t).
Proof.
  intros HW Ht Hu1 Hin.
  assert (Hnop : ∀ n (t' : mtuple), mlk s n = Some t' → ∀ x, x ∈ t'.2 → absn x ≠ u).
  { intros n t' Hn x Hx E.
    pose proof (m_indeg_ge (msucc s) n t' u Hn) as Hle. rewrite Hin in Hle.
    assert (0 < m_edges_to t' u); [|lia]. apply m_edges_to_pos. by exists x. }
  assert (Hval : ∀ x, mvalid s x → absn x ≠ u → mvalid (mclr (m_gc_del s u t)) x).
  { intros x [Hx0 Hx] Hxu. split; [done|]. cbn. by rewrite lookup_delete_ne. }
  assert (Hlvl : ∀ x, absn x ≠ u → mlvl_of (mclr (m_gc_del s u t)) x = mlvl_of s x).
  { intros x Hxu. unfold mlvl_of. cbn. by rewrite lookup_delete_ne. }
  split.
  - cbn. rewrite lookup_delete_ne by done. apply (MW_term s HW).
  - intros n i nodes Hn Hn1. cbn in Hn. apply lookup_delete_Some in Hn as [Hnu Hn].
    destruct (MW_node s HW n i nodes Hn Hn1) as (?&?&Hch&?&?).
    split_and!; try done. intros x Hx. destruct (Hch x Hx) as [? ?].
    pose proof (Hnop n (i, nodes) Hn x Hx) as Hxu.
    rewrite Hlvl by done. split; [by apply Hval|done].
  - intros n t'. cbn. rewrite !lookup_delete_Some. split.
    + intros [Htt Hp]. apply (MW_pred s HW) in Hp as [Hn Hn1]. split; [|done].
      split; [|done]. intros <-. pose proof (eq_trans (eq_sym Ht) Hn) as E. by injection E.
    + intros [[Hnu Hn] Hn1]. split.
      * intros <-. apply Hnu. assert (mpred s !! t = Some n) as E1 by (by apply (MW_pred s HW)).
        assert (mpred s !! t = Some u) as E2 by (by apply (MW_pred s HW)). congruence.
      * by apply (MW_pred s HW).
  - cbn. rewrite dom_mdecs, !dom_delete_L. by rewrite (MW_ref s HW).
  - intros k Hk. cbn in Hk |- *. apply elem_of_union in Hk as [Hk|Hk].
    + destruct (MW_free s HW k Hk) as [? ?]. split; [|done].
      apply lookup_delete_None. by right.
    + apply elem_of_singleton in Hk as ->. split; [apply lookup_delete|].
      destruct (decide (mmax s < u)%positive) as [Hlt|]; [|lia].
      rewrite (MW_max s HW u Hlt) in Ht. done.
  - intros k Hk. cbn in Hk |- *. apply lookup_delete_None. right. by apply (MW_max s HW).
  - intros g a b c Hi. cbn in Hi. by rewrite lookup_empty in Hi.
  - exact (minv_vars _ HW).
  - exact (minv_lvls _ HW).
Qed.

Lemma MCounts_gc_del s L u (t : mtuple) : MCounts s L → mlk s u = Some t →
  mref s !! u = Some 0 → MCounts (m_gc_del s u t) L.
Proof.
  intros [H1 H2] Ht Hr.
  assert (Hud : u ∈ dom (msucc s)) by (apply elem_of_dom; eauto).
  pose proof (H1 u Hud) as Hu. rewrite Hr in Hu. injection Hu as Hu.
  split.
  - intros n Hn. change (msucc (m_gc_del s u t)) with (delete u (msucc s)) in Hn |- *.
    rewrite dom_delete_L in Hn.
    assert (n ≠ u ∧ n ∈ dom (msucc s)) as [Hnu Hnd] by set_solver.
    rewrite mref_gc_del by done. rewrite (H1 n Hnd).
    rewrite (m_indeg_delete (msucc s) u t n Ht). cbn. f_equal. lia.
  - intros n Hn. change (msucc (m_gc_del s u t)) with (delete u (msucc s)) in Hn.
    rewrite dom_delete_L in Hn.
    destruct (decide (n = u)) as [->|]; [lia|]. apply H2. set_solver.
Qed.

(** ** The loop invariant *)
Record MJ (s0 : mst) (L : positive → nat) (s : mst) (U : gset positive) : Prop := {
  mj_inv : MW s;
  mj_counts : MCounts s L;
  mj_sub : msucc s ⊆ msucc s0;
  mj_vars : mvars s = mvars s0;
  mj_max : mmax s = mmax s0;
  mj_free : mfree s = mfree s0 ∪ (dom (msucc s0) ∖ dom (msucc s));
  mj_unused : ∀ n, n ∈ U →
     n ≠ 1%positive ∧ n ∈ dom (msucc s) ∧ mref s !! n = Some 0;
  mj_reach : ∀ n, mreach (msucc s0) (fun k => 0 < L k) n → n ∈ dom (msucc s);
  mj_complete : ∀ n, n ∈ dom (msucc s) → n ≠ 1%positive →
     mref s !! n = Some 0 → n ∈ U;
}.

Lemma MJ_step s0 L s (U U' : gset positive) u (t : mtuple) :
  MJ s0 L s U → u ∈ U → mlk s u = Some t →
  U ∖ {[u]} ⊆ U' →
  (∀ n, n ∈ U' → n ∈ U ∖ {[u]} ∨ (n ≠ 1%positive ∧ n ∈ absn <$> t.2 ∧
                                  mref (m_gc_del s u t) !! n = Some 0)) →
  (∀ n, n ∈ absn <$> t.2 → n ≠ 1%positive →
        mref (m_gc_del s u t) !! n = Some 0 → n ∈ U') →
  MJ s0 L (m_gc_del s u t) U'.
Proof.
  intros HJ HuU Ht Hsub Hb Hc.
  destruct (mj_unused _ _ _ _ HJ u HuU) as (Hu1&Hud&Hr).
  pose proof (mj_inv _ _ _ _ HJ) as HW.
  pose proof (mj_counts _ _ _ _ HJ) as HC.
  assert (Hin : m_indeg (msucc s) u = 0 ∧ L u = 0).
  { destruct HC as [H1 _]. specialize (H1 u Hud). rewrite Hr in H1.
    injection H1 as H1. lia. }
  destruct Hin as [Hin HLu].
  assert (Hdom : dom (msucc (m_gc_del s u t)) = dom (msucc s) ∖ {[u]})
    by apply dom_delete_L.
  assert (Hkids : ∀ x, x ∈ t.2 → absn x ≠ u ∧ absn x ∈ dom (msucc s)).
  { intros x Hx.
    destruct (MW_edges_dom s HW u t (absn x) Ht) as (?&?&?); [|done].
    apply m_edges_to_pos. by exists x. }
  split.
  - by apply MW_gc_del.
  - by apply MCounts_gc_del.
  - etrans; [apply delete_subseteq|]. apply (mj_sub _ _ _ _ HJ).
  - apply (mj_vars _ _ _ _ HJ).
  - apply (mj_max _ _ _ _ HJ).
  - rewrite Hdom. change (mfree (m_gc_del s u t)) with (mfree s ∪ {[u]}).
    rewrite (mj_free _ _ _ _ HJ).
    assert (u ∈ dom (msucc s0)).
    { apply elem_of_dom. exists t. apply (lookup_weaken _ _ _ _ Ht (mj_sub _ _ _ _ HJ)). }
    apply stdpp.sets.set_eq. intros k. rewrite !elem_of_union, !elem_of_difference, elem_of_singleton.
    destruct (decide (k = u)) as [->|]; [tauto|]. tauto.
  - intros n Hn. rewrite Hdom. destruct (Hb n Hn) as [Hn'|(Hn1&Hnk&Hz)].
    + apply elem_of_difference in Hn' as [HnU Hnu]. rewrite elem_of_singleton in Hnu.
      destruct (mj_unused _ _ _ _ HJ n HnU) as (?&?&Hrn).
      split_and!; [done|set_solver|]. rewrite mref_gc_del by done. by rewrite Hrn.
    + apply elem_of_list_fmap in Hnk as (x&->&Hx). destruct (Hkids x Hx) as [? ?].
      split_and!; [done|set_solver|done].
  - intros n Hn. rewrite Hdom.
    pose proof (mj_reach _ _ _ _ HJ n Hn) as Hnd.
    apply elem_of_difference. split; [done|]. rewrite elem_of_singleton. intros ->.
    inversion Hn as [n' HR _ E|p tp x Hp Hsp Hx E].
    + lia.
    + pose proof (mj_reach _ _ _ _ HJ p Hp) as Hpd.
      apply elem_of_dom in Hpd as [tp' Hp'].
      pose proof (lookup_weaken _ _ _ _ Hp' (mj_sub _ _ _ _ HJ)) as Hp''.
      assert (tp' = tp) as -> by congruence.
      pose proof (m_indeg_ge (msucc s) p tp u Hp').
      assert (0 < m_edges_to tp u); [|lia]. apply m_edges_to_pos. by exists x.
  - intros n Hn Hn1 Hrn. rewrite Hdom in Hn.
    apply elem_of_difference in Hn as [Hn Hnu]. rewrite elem_of_singleton in Hnu.
    destruct (decide (n ∈ absn <$> t.2)) as [Hk|Hk]; [by apply Hc|].
    apply Hsub. apply elem_of_difference. split; [|by rewrite elem_of_singleton].
    apply (mj_complete _ _ _ _ HJ); try done.
    rewrite mref_gc_del in Hrn by done. rewrite (m_edges_to_zero t n Hk) in Hrn.
    destruct (mref s !! n) as [y|]; [|done]. cbn in Hrn. injection Hrn as Hrn. f_equal. lia.
Qed.

Lemma m_gc_loop_spec s0 L fuel : ∀ (U : gset positive) s r s',
  MJ s0 L s U → size (msucc s) < fuel → m_gc_loop fuel U s = (r, s') →
  r = Ok tt ∧ MJ s0 L s' ∅.
Proof.
  induction fuel as [|f IH]; intros U s r s' HJ Hsz; [lia|].
  destruct (elements U) as [|u l] eqn:Hel.
  { cbn [m_gc_loop]. rewrite Hel. intros [= <- <-]. split; [done|].
    apply elements_empty_inv, leibniz_equiv in Hel. by subst. }
  assert (HuU : u ∈ U) by (apply elem_of_elements; rewrite Hel; left).
  destruct (mj_unused _ _ _ _ HJ u HuU) as (Hu1&Hud&Hr).
  pose proof (mj_inv _ _ _ _ HJ) as HW.
  apply elem_of_dom in Hud as [t Ht].
  destruct (m_gc_loop_unfold f U s u l t Hel Hu1 Ht) as (U'&->&Hsub&Hb&Hc); try done.
  - by apply (MW_pred s HW).
  - destruct (decide (mmax s < u)%positive) as [Hlt|]; [|lia].
    rewrite (MW_max s HW u Hlt) in Ht. done.
  - intros Hf. destruct (MW_free s HW u Hf) as [Hn _]. rewrite Hn in Ht. done.
  - intros x Hx.
    destruct (MW_edges_dom s HW u t (absn x) Ht) as (Hd&_&Hne);
      [apply m_edges_to_pos; by exists x|].
    destruct t as [i nodes]. destruct (MW_node s HW u i nodes Ht Hu1) as (_&_&Hch&_).
    destruct (Hch x Hx) as [[Hx0 _] _]. split_and!; [done|done|].
    apply elem_of_dom. by rewrite (MW_ref s HW).
  - apply IH.
    + by apply (MJ_step s0 L s U U' u t).
    + change (msucc (m_gc_del s u t)) with (delete u (msucc s)).
      rewrite map_size_delete, Ht.
      assert (size (msucc s) ≠ 0); [|lia].
      intros E. apply map_size_empty_inv in E. rewrite E in Ht. done.
Qed.

(** at exit every remaining node is reachable from an external reference *)
Lemma m_exit_reach s0 L s : MJ s0 L s ∅ →
  ∀ n, n ∈ dom (msucc s) → n ≠ 1%positive → mreach (msucc s0) (fun k => 0 < L k) n.
Proof.
  intros HJ.
  pose proof (mj_inv _ _ _ _ HJ) as HW.
  pose proof (mj_counts _ _ _ _ HJ) as [HC1 HC2].
  assert (Hgen : ∀ k n (t : mtuple), mlk s n = Some t → t.1 = k → n ≠ 1%positive →
             mreach (msucc s0) (fun k => 0 < L k) n).
  { intros k. induction (lt_wf k) as [k _ IH]. intros n t Hn Hk Hn1.
    assert (Hnd : n ∈ dom (msucc s)) by (apply elem_of_dom; eauto).
    pose proof (HC1 n Hnd) as Hrn.
    destruct (decide (0 < L n)) as [HL|HL].
    { apply mreach_root; [done|]. apply elem_of_dom. exists t.
      apply (lookup_weaken _ _ _ _ Hn (mj_sub _ _ _ _ HJ)). }
    destruct (decide (0 < m_indeg (msucc s) n)) as [Hi|Hi]; cycle 1.
    { exfalso. apply (not_elem_of_empty (C := gset positive) n).
      apply (mj_complete _ _ _ _ HJ n Hnd Hn1). rewrite Hrn. f_equal. lia. }
    destruct (m_indeg_pos _ _ Hi) as (p&tp&Hp&He).
    destruct (MW_edges_dom s HW p tp n Hp He) as (_&Hp1&_).
    apply m_edges_to_pos in He as (x&Hx&E).
    destruct tp as [ip nodesp]. destruct (MW_node s HW p ip nodesp Hp Hp1) as (_&_&Hch&_).
    destruct (Hch x Hx) as [_ Hlx]. unfold mlvl_of in Hlx. rewrite E, Hn in Hlx.
    pose proof (lookup_weaken _ _ _ _ Hp (mj_sub _ _ _ _ HJ)) as Hp0.
    rewrite <- E. apply (mreach_step _ _ p (ip, nodesp) x); [|done|done].
    apply (IH ip) with (ip, nodesp); [lia|done|done|done]. }
  intros n Hn Hn1. apply elem_of_dom in Hn as [t Hn]. by apply (Hgen t.1 n t).
Qed.

(** ** [collect_garbage()] *)
Theorem m_gc_exact s L r s' :
  MInv s → MCounts s L →
  m_collect_garbage s = (r, s') →
  r = Ok tt ∧ MInv s' ∧ MCounts s' L ∧ mite s' = ∅ ∧
  mvars s' = mvars s ∧ mmax s' = mmax s ∧
  (∀ n, n ∈ dom (msucc s') ↔ n = 1%positive ∨ mreach (msucc s) (fun k => 0 < L k) n) ∧
  (∀ n (t : mtuple), mlk s' n = Some t → mlk s n = Some t) ∧
  mfree s' = mfree s ∪ (dom (msucc s) ∖ dom (msucc s')).
Proof.
  intros HI HC. unfold m_collect_garbage. cbn [bind get].
  set (X := list_to_set (omap (fun '(u, r) => if decide (r = 0) then Some u else None)
                              (map_to_list (mref s))) : gset positive).
  assert (HX : ∀ n, n ∈ X ↔ mref s !! n = Some 0).
  { intros n. subst X. rewrite elem_of_list_to_set, elem_of_list_omap. split.
    - intros ([u c]&Hin&Hf). apply elem_of_map_to_list in Hin.
      case_decide; [|done]. injection Hf as ->. by subst.
    - intros Hn. exists (n, 0). split; [by apply elem_of_map_to_list|]. by rewrite decide_True. }
  destruct (m_gc_loop (S (size (msucc s))) (X ∖ {[1%positive]}) s) as [r1 s1] eqn:Eloop.
  pose proof Eloop as Eloop'.
  apply (m_gc_loop_spec s L) in Eloop' as [-> HJ]; [| |lia].
  2:{ split.
      - by apply MInv_MW.
      - done.
      - done.
      - done.
      - done.
      - set_solver.
      - intros n Hn. apply elem_of_difference in Hn as [Hn Hn1].
        rewrite elem_of_singleton in Hn1. apply HX in Hn.
        split_and!; [done| |done]. rewrite <- (minv_ref _ HI). apply elem_of_dom. eauto.
      - intros n Hn. by apply (mreach_dom s (fun k => 0 < L k) n HI).
      - intros n Hn Hn1 Hr. apply elem_of_difference.
        split; [by apply HX|by rewrite elem_of_singleton]. }
  rewrite (bind_ok _ _ _ _ _ Eloop). cbn [modify]. intros [= <- <-].
  pose proof (mj_inv _ _ _ _ HJ) as HW.
  split; [done|]. split; [exact HW|]. split; [exact (mj_counts _ _ _ _ HJ)|].
  split; [done|]. split; [exact (mj_vars _ _ _ _ HJ)|]. split; [exact (mj_max _ _ _ _ HJ)|].
  split; [|split].
  - intros n. change (msucc (s1 <| mite := ∅ |>)) with (msucc s1). split.
    + intros Hn. destruct (decide (n = 1%positive)) as [|Hn1]; [by left|right].
      by apply (m_exit_reach s L s1 HJ).
    + intros [->|Hn]; [|by apply (mj_reach _ _ _ _ HJ)].
      apply elem_of_dom. rewrite (MW_term s1 HW). by eexists.
  - intros n t Hn. apply (lookup_weaken _ _ _ _ Hn (mj_sub _ _ _ _ HJ)).
  - exact (mj_free _ _ _ _ HJ).
Qed.

Local Close Scope string_scope.

(** ** [bdd_to_mdd] *)
Definition dvars_t := list (nat * (nat * list nat)).
Definition b2v (dvars : dvars_t) : list (nat * nat) :=
  flat_map (fun v : nat * (nat * list nat) => List.map (fun b => (b, v.1)) v.2.2) dvars.
Definition b2m_mdd0 (dvars : dvars_t) : mst :=
  mdd_init (List.map (fun x : nat * (nat * list nat) =>
                           (x.1, (x.2.1, 2 ^ length x.2.2))) dvars).

(** one iteration of the final loop: the MDD node of BDD node [u] *)
Definition b2m_step (dvars : dvars_t) (keep : gset positive) :
    mst * list (positive * Z) → positive → MS (mst * list (positive * Z)) :=
  fun '(mdd, umap) u =>
      if decide (u ∉ keep) then ret (mdd, umap) else
      t <- getsucc u ;;
      bit <- var_at_level (t_lvl t) ;;
      var <- of_opt EKey (Mdd.assoc (b2v dvars) bit) ;;
      lb <- of_opt EKey (Mdd.assoc dvars var) ;;
      let '(j, bits) := lb in
      bit_succ <- mapM (fun d => cofactor (Z.pos u) true d) (enumerate_integer bits) ;;
      int_succ <- mapM (fun z : Z =>
                    x <- of_opt EKey (Mdd.assoc umap (absn z)) ;;
                    ret (if decide (0 < z)%Z then x else (- x)%Z)) bit_succ ;;
      match m_find_or_add j int_succ mdd with
      | (Ok x, mdd') => ret (mdd', umap ++ [(u, x)])
      | (Err e, _) => raise e
      end.

(** the selection of the zone-entry nodes *)
Definition b2m_keep (dvars : dvars_t) (bit_to_sort : list (nat * nat)) (s : st)
  : MS (gset positive) :=
  let preds (u : positive) : list positive :=
    omap (M:=list) (fun pt : positive * triple =>
      if bool_decide (pt.1 ≠ 1%positive ∧ (absn (t_lo pt.2) = u ∨ absn (t_hi pt.2) = u))
      then Some pt.1 else None) (map_to_list (succ s)) in
  foldM (fun (keep : gset positive) '(u, t) =>
      let p := preds u in
      rc <- ref (Z.pos u) ;;
      if decide (length (remove_dups p) < rc) then ret (keep ∪ {[u]}) else
      bit <- var_at_level (t_lvl t) ;;
      var <- of_opt EKey (Mdd.assoc (b2v dvars) bit) ;;
      bits <- of_opt EKey (option_map snd (Mdd.assoc dvars var)) ;;
      lsb <- of_opt EKey (head bits) ;;
      min_level <- of_opt EKey (Mdd.assoc bit_to_sort lsb) ;;
      match List.map (fun q => lvl_of s (Z.pos q)) p with
      | [] => raise EValue
      | l :: ls =>
          if decide (foldr Nat.min l ls < min_level) then ret (keep ∪ {[u]}) else ret keep
      end) ∅ (map_to_list (succ s)).

(** the part of [bdd_to_mdd] after the call of [reorder] *)
Definition bdd_to_mdd_tail (dvars : dvars_t) (bit_to_sort : list (nat * nat))
    (order : list positive) : MS (mst * list (positive * Z)) :=
  s <- get ;;
  keep <- b2m_keep dvars bit_to_sort s ;;
  let nonterm := filter (fun u => u ≠ 1%positive) (elements (dom (succ s))) in
  if negb (bool_decide (NoDup order ∧ (list_to_set order : gset positive) = list_to_set nonterm ∧
                        Sorted (fun a b => lvl_of s (Z.pos b) <= lvl_of s (Z.pos a)) order))
  then raise EOracle else
  r <- foldM (b2m_step dvars keep) (b2m_mdd0 dvars, [(1%positive, 1%Z)]) order ;;
  ret r.

Lemma bdd_to_mdd_unfold dvars order :
  bdd_to_mdd dvars order =
  (let m := length dvars in
   bits_in_order <- mapM (fun j =>
      of_opt EKey (match list_find (fun '(_, (l, _)) => bool_decide (l = j)) dvars with
                   | Some (_, (_, (_, bits))) => Some bits
                   | None => None
                   end)) (seq 0 m) ;;
   let target := concat bits_in_order in
   let bit_to_sort : list (nat * nat) := imap (fun k b => (b, k)) target in
   collect_garbage None ;;;
   reorder_pub (Some (list_to_map bit_to_sort)) ;;;
   bdd_to_mdd_tail dvars bit_to_sort order).
Proof. reflexivity. Qed.

(** *** association lists of the MDD model *)
Lemma assoc_alist {K A} `{EqDecision K} (l : list (K * A)) k : Mdd.assoc l k = alist_get l k.
Proof. unfold Mdd.assoc, alist_get. by destruct (list_find _ l) as [[? [? ?]]|]. Qed.

Lemma b2v_elem dvars b v :
  (b, v) ∈ b2v dvars ↔ ∃ j bits, (v, (j, bits)) ∈ dvars ∧ b ∈ bits.
Proof.
  unfold b2v. rewrite elem_of_list_In, in_flat_map. split.
  - intros ([v' [j bits]]&Hin&Hb). cbn in Hb. apply in_map_iff in Hb as (b'&[= -> ->]&Hb).
    exists j, bits. by rewrite !elem_of_list_In.
  - intros (j&bits&Hin&Hb). exists (v, (j, bits)). rewrite <- elem_of_list_In. split; [done|].
    cbn. apply in_map_iff. exists b. by rewrite <- elem_of_list_In.
Qed.

(** *** the key mapping, by name *)
Lemma map_key_name_inv s first k r s' : map_key true first k s = (r, s') →
  s' = s ∧ match r with
           | Ok l => vars s !! k = Some l
           | Err e => e ≠ ENeedsReordering
           end.
Proof.
  unfold map_key. cbn [bind get]. destruct (vars s !! k) as [l|].
  - by intros [= <- <-].
  - intros [= <- <-]. split; [done|]. by destruct first.
Qed.

Lemma mapM_map_key_inv s (kv : list (nat * bool)) r s' :
  mapM (fun '(k, a) => l <- map_key true false k ;; ret (l, a)) kv s = (r, s') →
  s' = s ∧ match r with
           | Ok ls => Forall2 (fun ka la => la.2 = ka.2 ∧ vars s !! ka.1 = Some la.1) kv ls
           | Err e => e ≠ ENeedsReordering
           end.
Proof.
  revert r s'. induction kv as [|[k a] kv IH]; intros r s'.
  - cbn. intros [= <- <-]. split; [done|constructor].
  - cbn [mapM]. destruct (map_key true false k s) as [r1 s1] eqn:E1.
    apply map_key_name_inv in E1 as E1'. destruct E1' as [-> H1].
    destruct r1 as [l|e]; cycle 1.
    { rewrite bind_assoc, (bind_err _ _ _ _ _ E1). by intros [= <- <-]. }
    rewrite bind_assoc, (bind_ok _ _ _ _ _ E1). cbn [bind ret].
    destruct (mapM (fun '(k, a) => l <- map_key true false k ;; ret (l, a)) kv s)
      as [r2 s2] eqn:E2. destruct (IH _ _ eq_refl) as [-> H2].
    destruct r2 as [ls|e].
    + rewrite (bind_ok _ _ _ _ _ E2). intros [= <- <-]. split; [done|]. by constructor.
    + rewrite (bind_err _ _ _ _ _ E2). by intros [= <- <-].
Qed.

Lemma mtld_name_inv s (kv : list (nat * bool)) r s' :
  map_to_level_dict true kv s = (r, s') →
  match r with
  | Ok lv => (∀ l b, lv !! l = Some b → ∃ k, (k, b) ∈ kv ∧ vars s !! k = Some l) ∧
             (∀ k b, (k, b) ∈ kv → ∃ l, vars s !! k = Some l ∧ is_Some (lv !! l))
  | Err e => e ≠ ENeedsReordering
  end.
Proof.
  unfold map_to_level_dict. destruct kv as [|[k a] rest].
  { intros [= <- <-]. split.
    - intros l b Hl. by rewrite lookup_empty in Hl.
    - intros k b Hin. by apply elem_of_nil in Hin. }
  rewrite (bind_ok _ _ s tt s) by done.
  destruct (map_key true true k s) as [r1 s1] eqn:E1.
  apply map_key_name_inv in E1 as E1'. destruct E1' as [-> H1].
  destruct r1 as [l|e]; cycle 1.
  { rewrite (bind_err _ _ _ _ _ E1). by intros [= <- <-]. }
  rewrite (bind_ok _ _ _ _ _ E1).
  destruct (mapM (fun '(k, a) => l <- map_key true false k ;; ret (l, a)) rest s)
    as [r2 s2] eqn:E2.
  apply mapM_map_key_inv in E2 as E2'. destruct E2' as [-> H2].
  destruct r2 as [ls|e]; cycle 1.
  { rewrite (bind_err _ _ _ _ _ E2). by intros [= <- <-]. }
  rewrite (bind_ok _ _ _ _ _ E2).
  intros [= <- <-].
  assert (HF : Forall2 (fun ka la => la.2 = ka.2 ∧ vars s !! ka.1 = Some la.1)
                 ((k, a) :: rest) ((l, a) :: ls)) by (by constructor).
  split.
  - intros l' b Hl. apply elem_of_list_to_map_2 in Hl. rewrite elem_of_reverse in Hl.
    apply elem_of_list_lookup in Hl as [i Hi].
    destruct (Forall2_lookup_r _ _ _ _ _ HF Hi) as ([k' a']&Hk&E&Hv). cbn in E, Hv. subst.
    exists k'. split; [|done]. by eapply elem_of_list_lookup_2.
  - intros k' b Hin. apply elem_of_list_lookup in Hin as [i Hi].
    destruct (Forall2_lookup_l _ _ _ _ _ HF Hi) as ([l' a']&Hl&E&Hv). cbn in E, Hv. subst.
    exists l'. split; [done|]. apply elem_of_dom. rewrite dom_list_to_map_L.
    apply elem_of_list_to_set. rewrite fmap_reverse, elem_of_reverse.
    apply elem_of_list_fmap. exists (l', b). split; [done|]. by eapply elem_of_list_lookup_2.
Qed.

(** *** [cofactor] by name with a successful outcome: the level bound too *)
Lemma cofactor_ok_inv s u values x s' :
  Inv s → valid s u → last_len s = None →
  cofactor u true values s = (Ok x, s') →
  Inv s' ∧ extends s s' ∧ last_len s' = None ∧ valid s' x ∧ lvl_of s u ≤ lvl_of s' x ∧
  ∃ lv, (∀ l b, lv !! l = Some b → ∃ k, (k, b) ∈ values ∧ vars s !! k = Some l) ∧
        (∀ k b, (k, b) ∈ values → ∃ l, vars s !! k = Some l ∧ is_Some (lv !! l)) ∧
        ∀ a, D s' x a = D s u (override lv a).
Proof.
  intros HI Hu Hoff Hrun. unfold cofactor in Hrun.
  apply try_to_reorder_inert in Hrun as (r1&s1&Hrun&Hcase).
  set (s0 := s <| rctx := true |>) in *.
  assert (HI0 : Inv s0) by (by apply Inv_rctx).
  assert (Hu0 : valid s0 u) by done.
  destruct (map_to_level_dict true values s0) as [rl sl] eqn:Hmap.
  pose proof (map_to_level_dict_state _ _ _ _ _ Hmap) as ->.
  apply mtld_name_inv in Hmap as Hlv.
  destruct rl as [lv|e]; cycle 1.
  { rewrite (bind_err _ _ _ _ _ Hmap) in Hrun. injection Hrun as <- <-.
    destruct Hcase as [[[= ->] _]|[[=] _]]. done. }
  rewrite (bind_ok _ _ _ _ _ Hmap) in Hrun. cbn [bind get] in Hrun.
  rewrite (proj2 (mem_valid s0 u) Hu0) in Hrun. cbn [ensure bind ret] in Hrun.
  destruct (cofactor_rec (S (S (nvars s0))) u (sorted_levels (dom lv)) lv ∅ s0)
    as [rr s2] eqn:Erec.
  pose proof Erec as Erec'.
  apply cofactor_rec_aux in Erec' as (HI2&He2&Hf2&Hr);
    [|done|done| |apply cache_ok_empty|lia].
  2:{ intros k Hk _. apply elem_of_sorted_levels. by apply elem_of_dom. }
  destruct rr as [[x' c]|e]; cycle 1.
  { exfalso. rewrite (bind_err _ _ _ _ _ Erec) in Hrun. injection Hrun as <- <-.
    destruct (benign_off s0 e Hoff Hr) as [-> _].
    by destruct Hcase as [[[=] _]|[[=] _]]. }
  rewrite (bind_ok _ _ _ _ _ Erec) in Hrun. cbn [fst ret] in Hrun.
  injection Hrun as <- <-.
  destruct Hcase as [[[=] _]|[[= <-] ->]].
  destruct Hr as (Hxv&Hxl&_&HxD). destruct Hlv as [Hlv1 Hlv2].
  split_and!; [by apply Inv_rctx|done| |done|exact Hxl|].
  - destruct Hf2 as (E&_). cbn. rewrite E. exact Hoff.
  - exists lv. split_and!; [exact Hlv1|exact Hlv2|].
    intros a. rewrite D_rctx, HxD. unfold s0. by rewrite D_rctx.
Qed.

(** a stored node's function depends on the variable of its own level *)
Lemma top_level_dep s z : Inv s → valid s z → lvl_of s z < nvars s →
  (∀ a b, D s z (upd a (lvl_of s z) b) = D s z a) → False.
Proof.
  intros HI Hz Hl Hind.
  destruct (node_cases s HI z Hz) as [[_ ?]|(t&Ht&Hn&Hlo&Hlt&?&Hvl&Hvh&?&Hll&Hlh&Hne)]; [lia|].
  apply Hne. apply (canonical_levels s HI); try done. intros a.
  pose proof (Hind a true) as Q1. pose proof (Hind a false) as Q0.
  rewrite Hlt in Q1, Q0.
  rewrite (D_step s HI z (upd a (t_lvl t) true) t Hz Ht Hn) in Q1.
  rewrite (D_step s HI z (upd a (t_lvl t) false) t Hz Ht Hn) in Q0.
  rewrite (D_step s HI z a t Hz Ht Hn) in Q1, Q0.
  rewrite upd_same in Q1, Q0.
  rewrite (D_upd_above s HI (t_hi t)) in Q1 by first [done|lia].
  rewrite (D_upd_above s HI (t_lo t)) in Q0 by first [done|lia].
  destruct (a (t_lvl t)), (D s (t_lo t) a), (D s (t_hi t) a), (bool_decide (z < 0)%Z); done.
Qed.

(** *** the correspondence between integer and bit assignments *)
(** integer level of a BDD level ([length dvars] when it carries no bit) *)
Definition ilvl (dvars : dvars_t) (s : st) (l : nat) : nat :=
  match lvl2var s !! l with
  | Some b => match Mdd.assoc (b2v dvars) b with
              | Some var => match Mdd.assoc dvars var with
                            | Some (j, _) => j
                            | None => length dvars
                            end
              | None => length dvars
              end
  | None => length dvars
  end.
Definition nilvl (dvars : dvars_t) (s : st) (u : positive) : nat :=
  ilvl dvars s (lvl_of s (Z.pos u)).

(** the Boolean assignment of the BDD levels induced by an assignment [I] of
    the integer levels: the bit at BDD level [l] gets the value that
    [_enumerate_integer] gives it in the dict number [I j] of its integer
    variable (level [j]) *)
Definition bits_of (dvars : dvars_t) (s : st) (I : nat → nat) : nat → bool := fun l =>
  match lvl2var s !! l with
  | Some b => match Mdd.assoc (b2v dvars) b with
     | Some var => match Mdd.assoc dvars var with
        | Some (j, bits) =>
            default false (enumerate_integer bits !! (I j) ≫= fun d => Mdd.assoc d b)
        | None => false
        end
     | None => false
     end
  | None => false
  end.

Record b2m_wf (dvars : dvars_t) (s : st) : Prop := {
  bw_levels : dvars_ok (List.map (fun x : nat * (nat * list nat) =>
                                    (x.1, (x.2.1, 2 ^ length x.2.2))) dvars);
  bw_lt : ∀ v j bits, (v, (j, bits)) ∈ dvars → j < length dvars;
  bw_bits : ∀ v j bits, (v, (j, bits)) ∈ dvars → NoDup bits;
  bw_owner : ∀ b v1 v2, (b, v1) ∈ b2v dvars → (b, v2) ∈ b2v dvars → v1 = v2;
  (* zones: the integer level is monotone in the BDD level *)
  bw_mono : ∀ l l', l ≤ l' → l' < nvars s → ilvl dvars s l ≤ ilvl dvars s l';
}.

Lemma map_fst_mdd (dvars : dvars_t) :
  (List.map (fun x : nat * (nat * list nat) => (x.1, (x.2.1, 2 ^ length x.2.2))) dvars).*1
  = dvars.*1.
Proof. induction dvars as [|[v [j bits]] l IH]; [done|]. cbn. by rewrite <- IH. Qed.

Section b2m.
Context (dvars : dvars_t) (s0 : st) (HI0 : Inv s0) (Hwf : b2m_wf dvars s0).

Lemma bw_names : NoDup (dvars.*1).
Proof. destruct (bw_levels _ _ Hwf) as (H&_). by rewrite map_fst_mdd in H. Qed.

Lemma dvars_assoc v j bits : (v, (j, bits)) ∈ dvars → Mdd.assoc dvars v = Some (j, bits).
Proof. intros H. rewrite assoc_alist. apply alist_get_nodup; [apply bw_names|done]. Qed.
Lemma dvars_assoc_inv v j bits : Mdd.assoc dvars v = Some (j, bits) → (v, (j, bits)) ∈ dvars.
Proof. rewrite assoc_alist. apply alist_get_elem. Qed.

Lemma b2v_assoc b v : (b, v) ∈ b2v dvars → Mdd.assoc (b2v dvars) b = Some v.
Proof.
  intros H. rewrite assoc_alist.
  destruct (alist_get (b2v dvars) b) as [v'|] eqn:E.
  - apply alist_get_elem in E. f_equal. by apply (bw_owner _ _ Hwf b).
  - apply alist_get_None in E. exfalso. apply E. apply elem_of_list_fmap. by exists (b, v).
Qed.

Lemma mdd0_vars v j bits : (v, (j, bits)) ∈ dvars →
  mvars (b2m_mdd0 dvars) !! v = Some (j, 2 ^ length bits).
Proof.
  intros Hin. unfold b2m_mdd0. cbn. apply elem_of_list_to_map.
  - rewrite map_fst_mdd. apply bw_names.
  - apply elem_of_list_In, in_map_iff. exists (v, (j, bits)). split; [done|].
    by apply elem_of_list_In.
Qed.

Lemma MInv_mdd0 : MInv (b2m_mdd0 dvars).
Proof. apply mdd_init_MInv, Hwf. Qed.

(** two variables at the same integer level are the same *)
Lemma dvars_level_inj v1 v2 j b1 b2 :
  (v1, (j, b1)) ∈ dvars → (v2, (j, b2)) ∈ dvars → v1 = v2.
Proof.
  intros H1 H2.
  apply (minv_vars _ MInv_mdd0 v1 v2 j (2 ^ length b1) (2 ^ length b2)); by apply mdd0_vars.
Qed.

(** the integer level of a level that carries a bit of the variable at [j] *)
Lemma ilvl_bit l b v j bits :
  lvl2var s0 !! l = Some b → (v, (j, bits)) ∈ dvars → b ∈ bits → ilvl dvars s0 l = j.
Proof.
  intros Hl Hv Hb. unfold ilvl. rewrite Hl.
  rewrite (b2v_assoc b v) by (apply b2v_elem; eauto). by rewrite (dvars_assoc v j bits Hv).
Qed.
(** conversely *)
Lemma ilvl_inv l j : ilvl dvars s0 l = j → j < length dvars →
  ∃ b v bits, lvl2var s0 !! l = Some b ∧ (v, (j, bits)) ∈ dvars ∧ b ∈ bits.
Proof.
  unfold ilvl. intros E Hj.
  destruct (lvl2var s0 !! l) as [b|]; [|lia].
  destruct (Mdd.assoc (b2v dvars) b) as [v|] eqn:Eb; [|lia].
  destruct (Mdd.assoc dvars v) as [[j' bits]|] eqn:Ev; [|lia]. subst j'.
  exists b, v, bits. split; [done|]. apply dvars_assoc_inv in Ev. split; [done|].
  rewrite assoc_alist in Eb. apply alist_get_elem, b2v_elem in Eb as (j2&bits2&Hin2&Hb).
  pose proof (dvars_assoc _ _ _ Hin2) as E2. rewrite (dvars_assoc _ _ _ Ev) in E2.
  by injection E2 as -> ->.
Qed.


(** *** [_enumerate_integer] *)
Lemma bitvectors_length n : length (bitvectors n) = 2 ^ n.
Proof.
  induction n as [|n IH]; [done|]. cbn [bitvectors Nat.pow].
  rewrite app_length, !fmap_length, IH. lia.
Qed.
Lemma bitvectors_elem_length n bv : bv ∈ bitvectors n → length bv = n.
Proof.
  revert bv. induction n as [|n IH]; intros bv; cbn [bitvectors].
  - intros ->%elem_of_list_singleton. done.
  - rewrite elem_of_app, !elem_of_list_fmap. intros [(l&->&Hl)|(l&->&Hl)]; cbn; f_equal; by apply IH.
Qed.
Lemma enumerate_integer_length bits : length (enumerate_integer bits) = 2 ^ length bits.
Proof. unfold enumerate_integer. by rewrite fmap_length, bitvectors_length. Qed.
Lemma enumerate_integer_fst bits k d : enumerate_integer bits !! k = Some d → d.*1 = bits.
Proof.
  unfold enumerate_integer. rewrite list_lookup_fmap.
  destruct (bitvectors (length bits) !! k) as [bv|] eqn:E; [|done]. intros [= <-].
  apply fst_zip. rewrite reverse_length.
  by rewrite (bitvectors_elem_length _ _ (elem_of_list_lookup_2 _ _ _ E)).
Qed.

(** *** the cofactors of [u] by every value of its integer variable *)
Lemma b2m_cofactors u : ∀ ds sb zs sb',
  Inv sb → extends s0 sb → last_len sb = None → valid s0 (Z.pos u) →
  mapM (fun d => cofactor (Z.pos u) true d) ds sb = (Ok zs, sb') →
  Inv sb' ∧ extends sb sb' ∧ last_len sb' = None ∧
  Forall2 (fun d z => valid sb' z ∧ lvl_of s0 (Z.pos u) ≤ lvl_of sb' z ∧
     ∃ lv, (∀ l b, lv !! l = Some b → ∃ k, (k, b) ∈ d ∧ vars s0 !! k = Some l) ∧
           (∀ k b, (k, b) ∈ d → ∃ l, vars s0 !! k = Some l ∧ is_Some (lv !! l)) ∧
           ∀ a, D sb' z a = D s0 (Z.pos u) (override lv a)) ds zs.
Proof.
  induction ds as [|d ds IH]; intros sb zs sb' HI He Hoff Hu.
  - cbn. intros [= <- <-]. split_and!; done.
  - cbn [mapM].
    destruct (cofactor (Z.pos u) true d sb) as [r1 sb1] eqn:E1.
    destruct r1 as [z|e]; [|rewrite (bind_err _ _ _ _ _ E1); by intros [= ]].
    rewrite (bind_ok _ _ _ _ _ E1).
    assert (Hub : valid sb (Z.pos u)) by (by apply (valid_extends s0 sb)).
    destruct (cofactor_ok_inv sb (Z.pos u) d z sb1 HI Hub Hoff E1)
      as (HI1&He1&Hoff1&Hz&Hlz&lv&Hlv1&Hlv2&HD).
    assert (He01 : extends s0 sb1) by (by etrans).
    destruct (mapM (fun d => cofactor (Z.pos u) true d) ds sb1) as [r2 sb2] eqn:E2.
    destruct r2 as [zs'|e]; [|rewrite (bind_err _ _ _ _ _ E2); by intros [= ]].
    rewrite (bind_ok _ _ _ _ _ E2). cbn [ret]. intros [= <- <-].
    destruct (IH sb1 zs' sb2 HI1 He01 Hoff1 Hu E2) as (HI2&He2&Hoff2&HF).
    split_and!; [done|by etrans|done|]. constructor; [|done].
    split_and!.
    + by apply (valid_extends sb1 sb2).
    + rewrite (lvl_extends sb1 sb2) by done. by rewrite <- (lvl_extends s0 sb).
    + exists lv. pose proof He as (_&Ev&_). split_and!.
      * intros l b Hl. destruct (Hlv1 l b Hl) as (k&?&?). exists k. by rewrite Ev.
      * intros k b Hk. destruct (Hlv2 k b Hk) as (l&?&?). exists l. by rewrite Ev.
      * intros a. rewrite (D_extends sb1 sb2) by done. rewrite HD.
        by apply (D_extends s0 sb).
Qed.

(** *** the successors translated through [umap] *)
Lemma b2m_int_succ (umap : list (positive * Z)) : ∀ zs (sb : st) xs sb',
  mapM (fun z : Z => x <- of_opt EKey (Mdd.assoc umap (absn z)) ;;
                     ret (if decide (0 < z)%Z then x else (- x)%Z)) zs sb = (Ok xs, sb') →
  sb' = sb ∧
  Forall2 (fun z x => ∃ x0, (absn z, x0) ∈ umap ∧
                            x = if decide (0 < z)%Z then x0 else (- x0)%Z) zs xs.
Proof.
  set (f := fun z : Z => x <- of_opt EKey (Mdd.assoc umap (absn z)) ;;
                     ret (if decide (0 < z)%Z then x else (- x)%Z)).
  induction zs as [|z zs IH]; intros sb xs sb'.
  - cbn. intros [= <- <-]. split; [done|constructor].
  - cbn [mapM].
    destruct (Mdd.assoc umap (absn z)) as [x0|] eqn:Ez.
    + assert (Hf : f z sb = (Ok (if decide (0 < z)%Z then x0 else (- x0)%Z), sb))
        by (unfold f; by rewrite Ez).
      rewrite (bind_ok _ _ _ _ _ Hf).
      destruct (mapM f zs sb) as [r2 sb2] eqn:E2.
      destruct r2 as [xs'|e]; [|rewrite (bind_err _ _ _ _ _ E2); by intros [= ]].
      rewrite (bind_ok _ _ _ _ _ E2). intros [= <- <-].
      destruct (IH _ _ _ E2) as [-> HF]. split; [done|].
      constructor; [|done]. exists x0. split; [|done].
      rewrite assoc_alist in Ez. by apply alist_get_elem.
    + assert (Hf : f z sb = (Err EKey, sb)) by (unfold f; by rewrite Ez).
      rewrite (bind_err _ _ _ _ _ Hf). by intros [= ].
Qed.

(** *** the loop invariant of the conversion *)
Record B2M (sb : st) (mdd : mst) (umap : list (positive * Z)) : Prop := {
  b_inv : Inv sb;
  b_ext : extends s0 sb;
  b_off : last_len sb = None;
  b_minv : MInv mdd;
  b_mext : mextends (b2m_mdd0 dvars) mdd;
  b_umap : ∀ u x, (u, x) ∈ umap →
     valid s0 (Z.pos u) ∧ mvalid mdd x ∧ nilvl dvars s0 u ≤ mlvl_of mdd x ∧
     ∀ I, minrange (b2m_mdd0 dvars) I →
          MD mdd x I = D s0 (Z.pos u) (bits_of dvars s0 I);
}.

Lemma lvl_of_absn s z : lvl_of s (Z.pos (absn z)) = lvl_of s z.
Proof. done. Qed.
Lemma valid_absn s z : z ≠ 0%Z → valid s (Z.pos (absn z)) ↔ valid s z.
Proof. intros Hz. unfold valid. rewrite absn_pos. naive_solver. Qed.

(** one successor of the new MDD node *)
Lemma b2m_child sb mdd umap sb1 u t bit var j bits k d z x :
  B2M sb mdd umap → Inv sb1 → extends s0 sb1 →
  succ s0 !! u = Some t → lvl2var s0 !! t_lvl t = Some bit →
  (var, (j, bits)) ∈ dvars → bit ∈ bits →
  enumerate_integer bits !! k = Some d →
  valid sb1 z → t_lvl t ≤ lvl_of sb1 z →
  (∃ lv, (∀ l b, lv !! l = Some b → ∃ key, (key, b) ∈ d ∧ vars s0 !! key = Some l) ∧
         (∀ key b, (key, b) ∈ d → ∃ l, vars s0 !! key = Some l ∧ is_Some (lv !! l)) ∧
         ∀ a, D sb1 z a = D s0 (Z.pos u) (override lv a)) →
  (∃ x0, (absn z, x0) ∈ umap ∧ x = if decide (0 < z)%Z then x0 else (- x0)%Z) →
  mvalid mdd x ∧ j < mlvl_of mdd x ∧
  ∀ I, minrange (b2m_mdd0 dvars) I → I j = k →
       MD mdd x I = D s0 (Z.pos u) (bits_of dvars s0 I).
Proof.
  intros HB HI1 He1 Hu Hbit Hvar Hbin Hd Hz Hlz (lv&Hlv1&Hlv2&HD) (x0&Hx0&Ex).
  destruct (b_umap _ _ _ HB _ _ Hx0) as (Hvz0&Hvx0&Hlx0&HDx0).
  pose proof (b_minv _ _ _ HB) as HM.
  assert (Hz0 : z ≠ 0%Z) by apply Hz.
  assert (Hvz : valid s0 z) by (by apply valid_absn).
  assert (Elz : lvl_of sb1 z = lvl_of s0 z) by (by apply lvl_extends).
  assert (Hdfst : d.*1 = bits) by (by eapply enumerate_integer_fst).
  assert (Hnv1 : nvars sb1 = nvars s0) by (by apply extends_nvars).
  (* the level of the cofactor is below the zone of [var] *)
  assert (Hjz : j < nilvl dvars s0 (absn z)).
  { unfold nilvl. rewrite lvl_of_absn. set (lz := lvl_of s0 z) in *.
    destruct (decide (lz < nvars s0)) as [Hlt|Hge]; cycle 1.
    { unfold ilvl. assert (lvl2var s0 !! lz = None) as ->.
      { apply eq_None_not_Some. intros H. apply (inv_lvls _ HI0) in H. lia. }
      by apply (bw_lt _ _ Hwf var j bits). }
    pose proof (bw_mono _ _ Hwf (t_lvl t) lz ltac:(lia) Hlt) as Hmono.
    rewrite (ilvl_bit (t_lvl t) bit var j bits Hbit Hvar Hbin) in Hmono.
    destruct (decide (ilvl dvars s0 lz = j)) as [E|]; [|lia]. exfalso.
    destruct (ilvl_inv lz j E (bw_lt _ _ Hwf var j bits Hvar)) as (b'&v'&bits'&Hb'&Hv'&Hin').
    pose proof (dvars_level_inj _ _ _ _ _ Hv' Hvar) as ->.
    pose proof (dvars_assoc _ _ _ Hv') as E1. rewrite (dvars_assoc _ _ _ Hvar) in E1.
    injection E1 as <-.
    assert (b' ∈ d.*1) as Hbd by (by rewrite Hdfst).
    apply elem_of_list_fmap in Hbd as ([key bv]&->&Hkd). cbn in Hb'.
    destruct (Hlv2 key bv Hkd) as (l&Hl&Hsome).
    assert (l = lz) as -> by (apply (inv_vars _ HI0) in Hb'; congruence).
    apply (top_level_dep sb1 z HI1 Hz); [rewrite Elz, Hnv1; exact Hlt|].
    intros a b. rewrite !HD. apply (D_indep s0 HI0); [split; [done|]; rewrite absn_pos; by eexists|].
    intros i _. unfold override. rewrite Elz.
    destruct (decide (i = lz)) as [->|Hne].
    - destruct Hsome as [bb Hbb]. by rewrite Hbb.
    - rewrite upd_other by done. done. }
  assert (Hxprop : mvalid mdd x ∧ mlvl_of mdd x = mlvl_of mdd x0 ∧
                   ∀ I, MD mdd x I = xorb (negb (bool_decide (0 < z)%Z)) (MD mdd x0 I)).
  { subst x. destruct (decide (0 < z)%Z).
    - rewrite bool_decide_eq_true_2 by done. split_and!; try done.
      intros I. by destruct (MD mdd x0 I).
    - rewrite bool_decide_eq_false_2 by done.
      split_and!; [by apply mvalid_neg|by rewrite mlvl_neg|].
      intros I. by rewrite MD_neg. }
  destruct Hxprop as (Hvx&Elx&HDx). split; [done|]. split; [lia|].
  intros I Hr Hk. rewrite HDx, (HDx0 I Hr).
  assert (HDz : D s0 z (bits_of dvars s0 I) =
                xorb (negb (bool_decide (0 < z)%Z)) (D s0 (Z.pos (absn z)) (bits_of dvars s0 I))).
  { destruct (decide (0 < z)%Z).
    - rewrite bool_decide_eq_true_2 by done. cbn [negb xorb].
      replace (Z.pos (absn z)) with z by (unfold absn; lia). by destruct (D s0 z _).
    - rewrite bool_decide_eq_false_2 by done. cbn [negb xorb].
      replace z with (- Z.pos (absn z))%Z at 1 by (unfold absn; lia).
      rewrite D_neg by done. by destruct (D s0 _ _). }
  rewrite <- HDz. rewrite <- (D_extends s0 sb1) by done. rewrite HD.
  apply (D_indep s0 HI0); [split; [done|]; rewrite absn_pos; by eexists|].
  intros l _. unfold override.
  destruct (lv !! l) as [b|] eqn:El; [|done].
  destruct (Hlv1 l b El) as (key&Hkd&Hkl).
  assert (key ∈ bits) as Hkb.
  { rewrite <- Hdfst. apply elem_of_list_fmap. by exists (key, b). }
  unfold bits_of. apply (inv_vars _ HI0) in Hkl. rewrite Hkl.
  rewrite (b2v_assoc key var) by (apply b2v_elem; eauto).
  rewrite (dvars_assoc var j bits Hvar). rewrite Hk, Hd. cbn.
  rewrite assoc_alist, (alist_get_nodup d key b); [done| |done].
  rewrite Hdfst. by apply (bw_bits _ _ Hwf var j bits).
Qed.

(** *** one iteration of the final loop *)
Lemma b2m_step_spec keep sb mdd umap u r sb' :
  B2M sb mdd umap → u ∈ dom (succ s0) →
  b2m_step dvars keep (mdd, umap) u sb = (r, sb') →
  match r with
  | Ok (mdd', umap') => B2M sb' mdd' umap'
  | Err _ => True
  end.
Proof.
  intros HB Hud. unfold b2m_step.
  destruct (decide (u ∉ keep)) as [|_]; [by intros [= <- <-]|].
  pose proof (b_inv _ _ _ HB) as HIb. pose proof (b_ext _ _ _ HB) as Heb.
  pose proof (b_minv _ _ _ HB) as HM. pose proof (b_mext _ _ _ HB) as HMe.
  apply elem_of_dom in Hud as [t Hu].
  assert (Hub : succ sb !! u = Some t) by (apply (lookup_weaken _ _ _ _ Hu), Heb).
  rewrite (bind_ok _ _ _ _ _ (getsucc_ok sb u t Hub)).
  assert (El2v : lvl2var sb = lvl2var s0) by (symmetry; apply Heb).
  destruct (lvl2var s0 !! t_lvl t) as [bit|] eqn:Hbit; cycle 1.
  { assert (Hv : var_at_level (t_lvl t) sb = (Err EValue, sb))
      by (unfold var_at_level; cbn [bind get]; by rewrite El2v, Hbit).
    rewrite (bind_err _ _ _ _ _ Hv). by intros [= <- <-]. }
  assert (Hv : var_at_level (t_lvl t) sb = (Ok bit, sb))
    by (unfold var_at_level; cbn [bind get]; by rewrite El2v, Hbit).
  rewrite (bind_ok _ _ _ _ _ Hv).
  destruct (Mdd.assoc (b2v dvars) bit) as [var|] eqn:Hvar0; cycle 1.
  { rewrite (bind_err _ _ sb EKey sb) by done. by intros [= <- <-]. }
  rewrite (bind_ok _ _ sb var sb) by done.
  destruct (Mdd.assoc dvars var) as [[j bits]|] eqn:Hvar1; cycle 1.
  { rewrite (bind_err _ _ sb EKey sb) by done. by intros [= <- <-]. }
  rewrite (bind_ok _ _ sb (j, bits) sb) by done.
  apply dvars_assoc_inv in Hvar1 as Hvar.
  assert (Hbin : bit ∈ bits).
  { rewrite assoc_alist in Hvar0. apply alist_get_elem, b2v_elem in Hvar0 as (j2&bits2&Hin2&Hb).
    pose proof (dvars_assoc _ _ _ Hin2) as E2. rewrite Hvar1 in E2. by injection E2 as -> ->. }
  assert (Hvu : valid s0 (Z.pos u)) by (split; [done|]; rewrite absn_pos; by eexists).
  assert (Hlu : lvl_of s0 (Z.pos u) = t_lvl t) by (unfold lvl_of; by rewrite absn_pos, Hu).
  (* the cofactors *)
  destruct (mapM (fun d => cofactor (Z.pos u) true d) (enumerate_integer bits) sb)
    as [rz sb1] eqn:Ez.
  destruct rz as [zs|e]; [|rewrite (bind_err _ _ _ _ _ Ez); by intros [= <- <-]].
  rewrite (bind_ok _ _ _ _ _ Ez).
  destruct (b2m_cofactors u _ sb zs sb1 HIb Heb (b_off _ _ _ HB) Hvu Ez) as (HI1&He1&Hoff1&HFz).
  assert (He01 : extends s0 sb1) by (by etrans).
  (* their images *)
  destruct (mapM (fun z : Z => x <- of_opt EKey (Mdd.assoc umap (absn z)) ;;
                     ret (if decide (0 < z)%Z then x else (- x)%Z)) zs sb1)
    as [rx sb2] eqn:Ex.
  destruct rx as [xs|e]; [|rewrite (bind_err _ _ _ _ _ Ex); by intros [= <- <-]].
  rewrite (bind_ok _ _ _ _ _ Ex).
  destruct (b2m_int_succ umap zs sb1 xs sb2 Ex) as [-> HFx].
  (* the node *)
  destruct (m_find_or_add j xs mdd) as [[x|e] mdd'] eqn:Ef; cbn [ret raise];
    [|by intros [= <- <-]].
  intros [= <- <-].
  assert (Hlen_z : length zs = 2 ^ length bits).
  { rewrite <- (Forall2_length _ _ _ HFz). apply enumerate_integer_length. }
  assert (Hlen_x : length xs = 2 ^ length bits).
  { by rewrite <- (Forall2_length _ _ _ HFx). }
  assert (Hkid : ∀ k x', xs !! k = Some x' →
     mvalid mdd x' ∧ j < mlvl_of mdd x' ∧
     ∀ I, minrange (b2m_mdd0 dvars) I → I j = k →
          MD mdd x' I = D s0 (Z.pos u) (bits_of dvars s0 I)).
  { intros k x' Hk.
    destruct (Forall2_lookup_r _ _ _ _ _ HFx Hk) as (z&Hzk&Hzx).
    destruct (Forall2_lookup_r _ _ _ _ _ HFz Hzk) as (d&Hdk&Hvz&Hlz&Hlv).
    apply (b2m_child sb mdd umap sb1 u t bit var j bits k d z x'); try done.
    by rewrite <- Hlu. }
  pose proof Ef as Ef'.
  apply m_find_or_add_spec in Ef' as (HM'&HMe'&_&Hx); [|done| | |].
  2:{ intros ->. cbn in Hlen_x. pose proof (Nat.pow_nonzero 2 (length bits)). lia. }
  2:{ exists var. destruct HMe as [_ <-]. rewrite Hlen_x. by apply mdd0_vars. }
  2:{ intros x' [k Hk]%elem_of_list_lookup. destruct (Hkid k x' Hk) as (?&?&_). by split. }
  destruct Hx as (Hvx&Hlx&HDx).
  split; try done.
  - by etrans.
  - intros u' x' Hin. apply elem_of_app in Hin as [Hin|Hin].
    + destruct (b_umap _ _ _ HB _ _ Hin) as (?&?&?&HD).
      split_and!; [done|by apply (mvalid_extends mdd mdd')|by rewrite (mlvl_extends mdd mdd')|].
      intros I Hr. rewrite (MD_extends mdd mdd') by done. by apply HD.
    + apply elem_of_list_singleton in Hin as [= -> ->].
      split_and!; [done|done| |].
      * unfold nilvl. rewrite Hlu, (ilvl_bit (t_lvl t) bit var j bits Hbit Hvar Hbin). done.
      * intros I Hr. rewrite HDx.
        assert (I j < length xs) as HIj.
        { rewrite Hlen_x. apply (Hr var j). by apply mdd0_vars. }
        destruct (lookup_lt_is_Some_2 xs (I j) HIj) as [xk Hxk].
        rewrite (msel_lookup xs (I j) xk Hxk).
        destruct (Hkid (I j) xk Hxk) as (_&_&HDk). by apply HDk.
Qed.

(** the whole loop *)
Lemma b2m_fold_spec keep : ∀ order sb mdd umap r sb',
  B2M sb mdd umap → (∀ u, u ∈ order → u ∈ dom (succ s0)) →
  foldM (b2m_step dvars keep) (mdd, umap) order sb = (r, sb') →
  match r with
  | Ok (mdd', umap') => B2M sb' mdd' umap'
  | Err _ => True
  end.
Proof.
  induction order as [|u order IH]; intros sb mdd umap r sb' HB Hord.
  - cbn. by intros [= <- <-].
  - cbn [foldM].
    destruct (b2m_step dvars keep (mdd, umap) u sb) as [r1 sb1] eqn:E1.
    pose proof (b2m_step_spec keep sb mdd umap u r1 sb1 HB (Hord u ltac:(left)) E1) as H1.
    destruct r1 as [[mdd1 umap1]|e]; [|rewrite (bind_err _ _ _ _ _ E1); by intros [= <- <-]].
    rewrite (bind_ok _ _ _ _ _ E1). apply IH; [done|]. intros; apply Hord; by right.
Qed.

Lemma B2M_start : last_len s0 = None → B2M s0 (b2m_mdd0 dvars) [(1%positive, 1%Z)].
Proof.
  intros Hoff. split; try done.
  - apply MInv_mdd0.
  - intros u x [= -> ->]%elem_of_list_singleton.
    split_and!; [by apply valid_1|by apply mvalid_1, MInv_mdd0| |].
    + rewrite (mlvl_term _ MInv_mdd0 1) by done. unfold nilvl, ilvl.
      rewrite (lvl_term s0 HI0 1) by done.
      assert (lvl2var s0 !! nvars s0 = None) as ->.
      { apply eq_None_not_Some. intros H. apply (inv_lvls _ HI0) in H. lia. }
      unfold mnvars, b2m_mdd0. cbn.
      rewrite <- size_dom, dom_list_to_map_L, size_list_to_set, fmap_length, map_length; [done|].
      rewrite map_fst_mdd. apply bw_names.
    + intros I _. by rewrite (MD_1 _ MInv_mdd0), D_1.
Qed.
End b2m.

(** *** the selection of the zone-entry nodes only reads the manager *)
Lemma pure_of_opt {A} e (o : option A) : pure (of_opt e o).
Proof. destruct o; [apply pure_ret|apply pure_raise]. Qed.
Lemma pure_foldM {A B} (f : B → A → MS B) :
  (∀ b a, pure (f b a)) → ∀ l b, pure (foldM f b l).
Proof.
  intros Hf. induction l as [|a l IH]; intros b; cbn [foldM]; [apply pure_ret|].
  apply pure_bind; [apply Hf|]. intros b'. apply IH.
Qed.
Lemma pure_ref u : pure (ref u).
Proof.
  unfold ref. case_decide; [apply pure_raise|]. intros s r s'. unfold getref.
  by destruct (refc s !! absn u); intros [= <- <-].
Qed.
Lemma pure_var_at_level l : pure (var_at_level l).
Proof. unfold var_at_level. apply pure_bind; [apply pure_get|]. intros s. apply pure_of_opt. Qed.

Lemma pure_b2m_keep dvars b2s s : pure (b2m_keep dvars b2s s).
Proof.
  unfold b2m_keep. apply pure_foldM. intros keep [u t].
  apply pure_bind; [apply pure_ref|]. intros rc.
  case_decide; [apply pure_ret|].
  apply pure_bind; [apply pure_var_at_level|]. intros bit.
  apply pure_bind; [apply pure_of_opt|]. intros var.
  apply pure_bind; [apply pure_of_opt|]. intros bits.
  apply pure_bind; [apply pure_of_opt|]. intros lsb.
  apply pure_bind; [apply pure_of_opt|]. intros min_level.
  destruct (List.map _ _); [apply pure_raise|]. case_decide; apply pure_ret.
Qed.

(** *** [bdd_to_mdd] after the reordering: whenever it returns, every entry
    of [umap] is an MDD reference with the value of the BDD node *)
Theorem bdd_to_mdd_tail_partial_correct dvars b2s order s mdd umap s' :
  Inv s → last_len s = None → b2m_wf dvars s →
  bdd_to_mdd_tail dvars b2s order s = (Ok (mdd, umap), s') →
  Inv s' ∧ extends s s' ∧ (∀ v a, valid s v → D s' v a = D s v a) ∧
  MInv mdd ∧ mextends (b2m_mdd0 dvars) mdd ∧
  ∀ u x, (u, x) ∈ umap →
    valid s (Z.pos u) ∧ mvalid mdd x ∧
    ∀ I, minrange mdd I → MD mdd x I = D s (Z.pos u) (bits_of dvars s I).
Proof.
  intros HI Hoff Hwf. unfold bdd_to_mdd_tail. cbn [bind get].
  destruct (b2m_keep dvars b2s s s) as [rk sk] eqn:Ek.
  pose proof (pure_b2m_keep dvars b2s s s rk sk Ek) as ->.
  destruct rk as [keep|e]; [|rewrite (bind_err _ _ _ _ _ Ek); by intros [= ]].
  rewrite (bind_ok _ _ _ _ _ Ek).
  case_bool_decide as Hord; cbn [negb]; [|by intros [= ]].
  destruct Hord as (_&Hset&_).
  assert (Hdom : ∀ u, u ∈ order → u ∈ dom (succ s)).
  { intros u Hu. assert (u ∈ (list_to_set order : gset positive)) as H by (by apply elem_of_list_to_set).
    rewrite Hset in H. apply elem_of_list_to_set, elem_of_list_filter in H as [_ H].
    by apply elem_of_elements in H. }
  destruct (foldM (b2m_step dvars keep) (b2m_mdd0 dvars, [(1%positive, 1%Z)]) order s)
    as [rf sf] eqn:Ef.
  pose proof (b2m_fold_spec dvars s HI Hwf keep order s _ _ rf sf
                (B2M_start dvars s HI Hwf Hoff) Hdom Ef) as HB.
  destruct rf as [[mdd' umap']|e]; [|rewrite (bind_err _ _ _ _ _ Ef); by intros [= ]].
  rewrite (bind_ok _ _ _ _ _ Ef). cbn [ret]. intros [= <- <- <-].
  split; [apply HB|]. split; [apply HB|]. split.
  { intros v a Hv. apply D_extends; [apply HB|done|done]. }
  split; [apply HB|]. split; [apply HB|].
  intros u x Hin. destruct (b_umap _ _ _ _ _ HB u x Hin) as (?&?&_&HD).
  split_and!; try done. intros I Hr. apply HD.
  intros v l n Hv. apply (Hr v l n). destruct (b_mext _ _ _ _ _ HB) as [_ <-]. done.
Qed.

(** *** the dicts of [_enumerate_integer]: in dict number [k], the bit listed
    at position [p] gets binary digit [p] of [k] (first listed bit least
    significant) *)
Definition val_le (l : list bool) : nat := foldr (fun b acc => Nat.b2n b + 2 * acc) 0 l.

Lemma val_le_app l b : val_le (l ++ [b]) = val_le l + Nat.b2n b * 2 ^ length l.
Proof.
  induction l as [|x l IH]; cbn [val_le foldr app length Nat.pow].
  - lia.
  - fold (val_le (l ++ [b])). fold (val_le l). rewrite IH. lia.
Qed.

Lemma bitvectors_val n : ∀ k bv, bitvectors n !! k = Some bv → val_le (reverse bv) = k.
Proof.
  induction n as [|n IH]; intros k bv; cbn [bitvectors].
  - destruct k; [|done]. by intros [= <-].
  - intros [H|[Hk H]]%lookup_app_Some.
    + rewrite list_lookup_fmap in H. destruct (bitvectors n !! k) as [bv'|] eqn:E; [|done].
      injection H as <-. rewrite reverse_cons, val_le_app. cbn. rewrite (IH k bv' E). lia.
    + rewrite fmap_length, bitvectors_length in Hk, H. rewrite list_lookup_fmap in H.
      destruct (bitvectors n !! (k - 2 ^ n)) as [bv'|] eqn:E; [|done].
      injection H as <-. rewrite reverse_cons, val_le_app, reverse_length.
      rewrite (bitvectors_elem_length n bv' (elem_of_list_lookup_2 _ _ _ E)).
      rewrite (IH _ bv' E). cbn. lia.
Qed.

Lemma testbit_val_le l : ∀ p x, l !! p = Some x → Nat.testbit (val_le l) p = x.
Proof.
  induction l as [|b l IH]; intros p x; [done|].
  cbn [val_le foldr]. fold (val_le l). rewrite (Nat.add_comm (Nat.b2n b)).
  destruct p as [|p]; cbn [lookup list_lookup].
  - intros [= <-]. apply Nat.testbit_0_r.
  - intros H. rewrite Nat.testbit_succ_r. by apply IH.
Qed.

Theorem enumerate_integer_testbit bits k d p b :
  NoDup bits → enumerate_integer bits !! k = Some d → bits !! p = Some b →
  Mdd.assoc d b = Some (Nat.testbit k p).
Proof.
  intros Hnd Hd Hp. pose proof (enumerate_integer_fst bits k d Hd) as Hfst.
  unfold enumerate_integer in Hd. rewrite list_lookup_fmap in Hd.
  destruct (bitvectors (length bits) !! k) as [bv|] eqn:E; [|done]. injection Hd as <-.
  pose proof (bitvectors_elem_length _ _ (elem_of_list_lookup_2 _ _ _ E)) as Hlen.
  assert (is_Some (reverse bv !! p)) as [x Hx].
  { apply lookup_lt_is_Some. rewrite reverse_length, Hlen. by eapply lookup_lt_Some. }
  rewrite assoc_alist. rewrite (alist_get_nodup _ b x).
  - f_equal. rewrite <- (bitvectors_val _ _ _ E). symmetry. by apply testbit_val_le.
  - by rewrite Hfst.
  - apply elem_of_list_lookup. exists p. rewrite lookup_zip_with, Hp. cbn. by rewrite Hx.
Qed.

(** the induced bit assignment, in terms of binary digits *)
Lemma bits_of_testbit dvars s I l b var j bits p :
  Inv s → b2m_wf dvars s → lvl2var s !! l = Some b → (var, (j, bits)) ∈ dvars →
  bits !! p = Some b → I j < 2 ^ length bits →
  bits_of dvars s I l = Nat.testbit (I j) p.
Proof.
  intros HI Hwf Hl Hvar Hp HIj. unfold bits_of. rewrite Hl.
  rewrite (b2v_assoc dvars s Hwf b var)
    by (apply b2v_elem; exists j, bits; split; [done|by eapply elem_of_list_lookup_2]).
  rewrite (dvars_assoc dvars s Hwf var j bits Hvar).
  destruct (lookup_lt_is_Some_2 (enumerate_integer bits) (I j)) as [d Hd];
    [by rewrite enumerate_integer_length|].
  rewrite Hd. cbn.
  by rewrite (enumerate_integer_testbit bits (I j) d p b (bw_bits _ _ Hwf var j bits Hvar) Hd Hp).
Qed.

(** *** a checker for [b2m_wf] (to show the hypotheses satisfiable on
    concrete managers) *)
Definition b2m_wf_b (dvars : dvars_t) (s : st) : bool :=
  let lv := (fun x : nat * (nat * list nat) => x.2.1) <$> dvars in
  bool_decide (NoDup (dvars.*1)) && bool_decide (NoDup lv) &&
  forallb (fun l => bool_decide (l ∈ lv)) (seq 0 (length dvars)) &&
  forallb (fun x : nat * (nat * list nat) =>
             bool_decide (x.2.1 < length dvars) && bool_decide (NoDup x.2.2)) dvars &&
  bool_decide (NoDup (b2v dvars).*1) &&
  forallb (fun l' => forallb (fun l => bool_decide (ilvl dvars s l ≤ ilvl dvars s l'))
                             (seq 0 (S l'))) (seq 0 (nvars s)).

Lemma NoDup_fmap_inj_elem {A B} (f : A → B) (l : list A) x y :
  NoDup (f <$> l) → x ∈ l → y ∈ l → f x = f y → x = y.
Proof.
  intros Hnd [i Hi]%elem_of_list_lookup [j Hj]%elem_of_list_lookup E.
  assert (i = j); [|congruence].
  apply (NoDup_lookup (f <$> l) i j (f x)); [done|by rewrite list_lookup_fmap, Hi|].
  by rewrite list_lookup_fmap, Hj, E.
Qed.

Lemma b2m_wf_b_sound dvars s : b2m_wf_b dvars s = true → b2m_wf dvars s.
Proof.
  unfold b2m_wf_b. cbv zeta.
  intros [[[[[H1 H2]%andb_true_iff H3]%andb_true_iff H4]%andb_true_iff H5]%andb_true_iff H6]%andb_true_iff.
  apply bool_decide_eq_true in H1, H2, H5. rewrite forallb_forall in H3, H4, H6.
  set (L := List.map (fun x : nat * (nat * list nat) => (x.1, (x.2.1, 2 ^ length x.2.2))) dvars).
  assert (HL : ∀ v l n, (v, (l, n)) ∈ L → ∃ bits, (v, (l, bits)) ∈ dvars).
  { intros v l n Hin. apply elem_of_list_In, in_map_iff in Hin as ([v' [l' bits]]&[= -> -> _]&Hin).
    exists bits. by apply elem_of_list_In. }
  split.
  - split; [|split].
    + subst L. by rewrite map_fst_mdd.
    + intros v1 v2 l n1 n2 [b1 Hv1]%HL [b2 Hv2]%HL.
      by pose proof (NoDup_fmap_inj_elem (fun x : nat * (nat * list nat) => x.2.1) dvars
                  _ _ H2 Hv1 Hv2 eq_refl) as [= -> _].
    + intros l Hl. subst L. rewrite map_length in Hl.
      assert (In l (seq 0 (length dvars))) as Hin by (apply in_seq; lia).
      apply H3, bool_decide_eq_true, elem_of_list_fmap in Hin as ([v [l' bits]]&->&Hin).
      exists v, (2 ^ length bits). apply elem_of_list_In, in_map_iff.
      exists (v, (l', bits)). split; [done|]. by apply elem_of_list_In.
  - intros v j bits Hin%elem_of_list_In. apply H4, andb_true_iff in Hin as [Hj _].
    by apply bool_decide_eq_true in Hj.
  - intros v j bits Hin%elem_of_list_In. apply H4, andb_true_iff in Hin as [_ Hb].
    by apply bool_decide_eq_true in Hb.
  - intros b v1 v2 Hb1 Hb2.
    by pose proof (NoDup_fmap_inj_elem fst (b2v dvars) _ _ H5 Hb1 Hb2 eq_refl) as [= ->].
  - intros l l' Hle Hl'.
    assert (In l' (seq 0 (nvars s))) as Hin' by (apply in_seq; lia).
    apply H6 in Hin'. rewrite forallb_forall in Hin'.
    assert (In l (seq 0 (S l'))) as Hin by (apply in_seq; lia).
    apply Hin' in Hin. by apply bool_decide_eq_true in Hin.
Qed.

(** ** The counters stay exact *)
Lemma mbump_all_lookup l : ∀ m n,
  mbump_all l m !! n = (fun y => y + length (filter (fun x => absn x = n) l)) <$> m !! n.
Proof.
  induction l as [|x l IH]; intros m n.
  - cbn. destruct (m !! n); cbn; [f_equal; lia|done].
  - unfold mbump_all. cbn [foldl]. fold (mbump_all l (alter S (absn x) m)). rewrite IH.
    destruct (decide (absn x = n)) as [E|E].
    + rewrite filter_cons_True by done. rewrite <- E, lookup_alter.
      destruct (m !! absn x); cbn; [f_equal; lia|done].
    + rewrite filter_cons_False by done. by rewrite lookup_alter_ne.
Qed.

Lemma m_indeg_outside s n : MInv s → n ∉ dom (msucc s) → m_indeg (msucc s) n = 0.
Proof.
  intros HI Hn. destruct (decide (0 < m_indeg (msucc s) n)) as [H|]; [|lia].
  destruct (m_indeg_pos _ _ H) as (k&t&Hk&He).
  by destruct (MW_edges_dom s (MInv_MW s HI) k t n Hk He) as (?&_).
Qed.

Lemma MCounts_same s s' L : msucc s' = msucc s → mref s' = mref s → MCounts s L → MCounts s' L.
Proof. intros E1 E2. unfold MCounts. by rewrite E1, E2. Qed.

Lemma mdd_init_MCounts dvars : MCounts (mdd_init dvars) (fun _ => 0).
Proof.
  split; [|done]. intros n Hn. cbn in Hn |- *. rewrite dom_singleton_L in Hn.
  apply elem_of_singleton in Hn as ->. rewrite lookup_singleton. f_equal.

Qed.

Theorem m_find_or_add_counts s L i nodes r s' :
  MInv s → MCounts s L → (∀ x, x ∈ nodes → mvalid s x) →
  m_find_or_add i nodes s = (r, s') → MCounts s' L.
Proof.
  intros HI HC Hch. unfold m_find_or_add. cbn [bind get]. unfold ensure.
  case_bool_decide; [|by intros [= <- <-]]. rewrite (bind_ok _ _ s tt s) by done.
  destruct (m_var_at_level i s) as [rv sv] eqn:Ev.
  assert (sv = s) as ->.
  { revert Ev. unfold m_var_at_level. cbn [bind get].
    destruct (match list_find _ _ with Some _ => _ | None => _ end); by intros [= _ <-]. }
  destruct rv as [v|e]; [|rewrite (bind_err _ _ _ _ _ Ev); by intros [= <- <-]].
  rewrite (bind_ok _ _ _ _ _ Ev).
  destruct (m_len_of v s) as [rn sn] eqn:En.
  assert (sn = s) as ->.
  { revert En. unfold m_len_of. cbn [bind get]. destruct (snd <$> mvars s !! v); by intros [= _ <-]. }
  destruct rn as [n|e]; [|rewrite (bind_err _ _ _ _ _ En); by intros [= <- <-]].
  rewrite (bind_ok _ _ _ _ _ En).
  case_bool_decide; [|by intros [= <- <-]]. rewrite (bind_ok _ _ s tt s) by done.
  case_bool_decide; [|by intros [= <- <-]]. rewrite (bind_ok _ _ s tt s) by done.
  destruct (forallb (fun u => m_mem u s) nodes); [|by intros [= <- <-]].
  rewrite (bind_ok _ _ s tt s) by done.
  set (r0 := (if decide (default 0 (head nodes) < 0) then -1 else 1)%Z).
  set (nodes' := (fun x => (r0 * x)%Z) <$> nodes).
  assert (Hch' : ∀ x, x ∈ nodes' → mvalid s x).
  { intros x Hx. apply elem_of_list_fmap in Hx as (y&->&Hy). specialize (Hch y Hy).
    subst r0. case_decide.
    - replace (-1 * y)%Z with (- y)%Z by lia. by apply mvalid_neg.
    - by rewrite Z.mul_1_l. }
  destruct (forallb _ nodes'); [by intros [= <- <-]|].
  destruct (mpred s !! ((i, nodes') : mtuple)) as [u|]; [by intros [= <- <-]|].
  destruct (m_allocate s) as [ru s1] eqn:Eal.
  pose proof Eal as Eal'. apply m_allocate_spec in Eal' as (HI1&E1&E2&E3&E4&E5&_&Hu); [|done].
  assert (HC1 : MCounts s1 L) by (by apply (MCounts_same s)).
  destruct ru as [u|e]; [|rewrite (bind_err _ _ _ _ _ Eal); by intros [= <- <-]].
  rewrite (bind_ok _ _ _ _ _ Eal). cbn [bind get].
  destruct Hu as (Hfree&_&_).
  assert (Hfree1 : mlk s1 u = None) by (by rewrite E1).
  unfold m_mem, assert. rewrite bool_decide_eq_false_2; cycle 1.
  { intros [_ [t Ht]]. rewrite absn_pos, Hfree1 in Ht. done. }
  cbn [negb]. rewrite (bind_ok _ _ s1 tt s1) by done. cbn [bind modify].
  set (s2 := s1 <| mpred ::= _ |> <| msucc ::= _ |> <| mref ::= _ |>).
  assert (Hinc : ∀ x, x ∈ nodes' → x ≠ 0%Z ∧ absn x ∈ dom (mref s2)).
  { intros x Hx. destruct (Hch' x Hx) as [Hx0 Hxs]. split; [done|].
    subst s2. cbn. rewrite dom_insert_L, E3, (minv_ref _ HI). apply elem_of_union. right.
    by apply elem_of_dom. }
  rewrite (bind_ok _ _ _ _ _ (m_incref_loop nodes' s2 Hinc)).
  unfold ret. intros [= <- <-].
  destruct HC1 as [Hc1 Hc2].
  assert (Hud : u ∉ dom (msucc s1)) by (by apply not_elem_of_dom).
  assert (Hcnt : ∀ k, length (filter (fun x => absn x = k) nodes') = m_edges_to ((i, nodes') : mtuple) k) by done.
  split.
  - intros k Hk. cbn in Hk |- *. rewrite m_indeg_insert_fresh by done.
    rewrite mbump_all_lookup, Hcnt.
    destruct (decide (k = u)) as [->|Hnu].
    + rewrite lookup_insert. cbn. f_equal.
      rewrite (m_indeg_outside s1 u HI1 Hud), (Hc2 u Hud). lia.
    + rewrite lookup_insert_ne by done.
      rewrite dom_insert_L in Hk. assert (k ∈ dom (msucc s1)) as Hk' by set_solver.
      rewrite (Hc1 k Hk'). cbn. f_equal. lia.
  - intros k Hk. cbn in Hk. apply Hc2. rewrite dom_insert_L in Hk. set_solver.
Qed.

Definition ite_counts_at (f : nat) : Prop := ∀ s L g u v r s',
  MInv s → MCounts s L → mvalid s g → mvalid s u → mvalid s v →
  mnvars s - mminlvl3 s g u v < f →
  m_ite f g u v s = (r, s') → MCounts s' L.

Lemma mapM_ite_counts f (IHf : ite_counts_at f) L : ∀ l s r s', MInv s → MCounts s L →
  (∀ a b c, (a, b, c) ∈ l →
     mvalid s a ∧ mvalid s b ∧ mvalid s c ∧ mnvars s - mminlvl3 s a b c < f) →
  mapM (fun '(a, b, c) => m_ite f a b c) l s = (r, s') → MCounts s' L.
Proof.
  induction l as [|[[a b] c] l IHl]; intros s r s' HI HC Hl.
  - cbn. by intros [= <- <-].
  - cbn [mapM].
    destruct (Hl a b c ltac:(left)) as (Ha&Hb&Hc&Hm).
    destruct (m_ite f a b c s) as [rw s1] eqn:Ew.
    pose proof (IHf _ _ _ _ _ _ _ HI HC Ha Hb Hc Hm Ew) as HC1.
    pose proof Ew as Ew'. apply m_ite_spec in Ew' as (HI1&He1&_&_); try done.
    destruct rw as [w|e]; [|rewrite (bind_err _ _ _ _ _ Ew); by intros [= <- <-]].
    rewrite (bind_ok _ _ _ _ _ Ew).
    destruct (mapM (fun '(a, b, c) => m_ite f a b c) l s1) as [rws s2] eqn:Ews.
    assert (HC2 : MCounts s2 L).
    { apply (IHl s1 rws s2 HI1 HC1); [|done].
      intros a' b' c' Hin. destruct (Hl a' b' c' ltac:(by right)) as (?&?&?&?).
      rewrite (mextends_nvars s s1) by done. rewrite (mminlvl3_extends s s1) by done.
      split_and!; try done; by apply (mvalid_extends s s1). }
    destruct rws as [ws|e]; [|rewrite (bind_err _ _ _ _ _ Ews); by intros [= <- <-]].
    rewrite (bind_ok _ _ _ _ _ Ews). by intros [= <- <-].
Qed.

Theorem m_ite_counts fuel : ite_counts_at fuel.
Proof.
  induction fuel as [|f IH]; intros s L g u v r s' HI HC Hg Hu Hv Hfuel; [lia|].
  cbn [m_ite].
  destruct (decide (g = 1%Z)) as [->|Hgn1]; [by intros [= <- <-]|].
  destruct (decide (g = (-1)%Z)) as [->|Hgnm1]; [by intros [= <- <-]|].
  cbn [bind get].
  destruct (mite s !! (g, u, v)) as [w|] eqn:Hc; [by intros [= <- <-]|].
  pose proof Hg as [Hg0 [tg Htg]]. pose proof Hu as [Hu0 [tu Htu]].
  pose proof Hv as [Hv0 [tv Htv]].
  rewrite (bind_ok _ _ _ _ _ (m_getsucc_ok s g tg Hg0 Htg)).
  rewrite (bind_ok _ _ _ _ _ (m_getsucc_ok s u tu Hu0 Htu)).
  rewrite (bind_ok _ _ _ _ _ (m_getsucc_ok s v tv Hv0 Htv)).
  assert (Ez : tg.1 `min` tu.1 `min` tv.1 = mminlvl3 s g u v).
  { unfold mminlvl3, mlvl_of. by rewrite Htg, Htu, Htv. }
  rewrite Ez. clear Ez Htg Htu Htv tg tu tv.
  set (z := mminlvl3 s g u v) in *.
  destruct (min3_le (mlvl_of s g) (mlvl_of s u) (mlvl_of s v)) as (Hzg&Hzu&Hzv).
  fold (mminlvl3 s g u v) in Hzg, Hzu, Hzv. fold z in Hzg, Hzu, Hzv.
  assert (Hzn : z < mnvars s).
  { destruct (mnode_cases s HI g Hg) as [[E _]|(i&nodes&?&?&?&Hl&?&_)]; [|lia].
    destruct (absn_1 g E Hg0); done. }
  assert (∃ n, mlen_at s z n ∧ 0 < n) as (n&Hlen&Hn).
  { destruct (min3_attained (mlvl_of s g) (mlvl_of s u) (mlvl_of s v)) as [E|[E|E]];
      fold (mminlvl3 s g u v) in E; fold z in E; rewrite E; apply mlen_of_level; try done; lia. }
  destruct (m_top_cofactor_ok s g z n HI Hg Hzg Hzn Hlen Hn) as (gc&Eg&Lg&Cg&_).
  destruct (m_top_cofactor_ok s u z n HI Hu Hzu Hzn Hlen Hn) as (uc&Eu&Lu&Cu&_).
  destruct (m_top_cofactor_ok s v z n HI Hv Hzv Hzn Hlen Hn) as (vc&Ev&Lv&Cv&_).
  rewrite (bind_ok _ _ _ _ _ Eg), (bind_ok _ _ _ _ _ Eu), (bind_ok _ _ _ _ _ Ev).
  assert (Hzip : ∀ a b c, (a, b, c) ∈ zip3 gc uc vc →
            mvalid s a ∧ mvalid s b ∧ mvalid s c ∧ mnvars s - mminlvl3 s a b c < f).
  { intros a b c Hin. apply zip3_elem in Hin as (Hia&Hib&Hic).
    destruct (Cg a Hia), (Cu b Hib), (Cv c Hic). split_and!; try done.
    unfold mminlvl3. lia. }
  destruct (mapM (fun '(a, b, c) => m_ite f a b c) (zip3 gc uc vc) s) as [rn s1] eqn:En.
  pose proof (mapM_ite_counts f IH L _ _ _ _ HI HC Hzip En) as HC1.
  pose proof En as En'. apply (mapM_ite_spec f (m_ite_spec f)) in En' as (HI1&He1&_&Hnodes); [|done|done].
  destruct rn as [nodes|e]; [|rewrite (bind_err _ _ _ _ _ En); by intros [= <- <-]].
  rewrite (bind_ok _ _ _ _ _ En).
  destruct Hnodes as [Hlenn Hlk].
  destruct (m_find_or_add z nodes s1) as [rw s2] eqn:Ew.
  assert (HC2 : MCounts s2 L).
  { apply (m_find_or_add_counts s1 L z nodes rw s2 HI1 HC1); [|done].
    intros x [k Hk]%elem_of_list_lookup.
    pose proof (lookup_lt_Some _ _ _ Hk) as Hkn. rewrite Hlenn in Hkn.
    destruct (lookup_lt_is_Some_2 _ _ Hkn) as [[[a b] c] Habc].
    by destruct (Hlk k a b c x Habc Hk) as (?&_). }
  destruct rw as [w|e]; [|rewrite (bind_err _ _ _ _ _ Ew); by intros [= <- <-]].
  rewrite (bind_ok _ _ _ _ _ Ew). cbn [bind modify ret]. intros [= <- <-].
  by apply (MCounts_same s2).
Qed.

(** the entry points *)
Theorem m_ite__counts s L g u v r s' :
  MInv s → MCounts s L → mvalid s g → mvalid s u → mvalid s v →
  m_ite_ g u v s = (r, s') → MCounts s' L.
Proof.
  intros HI HC Hg Hu Hv. unfold m_ite_. cbn [bind get].
  apply m_ite_counts; try done. fold (mnvars s). lia.
Qed.

Theorem mdd_apply_counts s L op u v w r s' f :
  MInv s → MCounts s L → op ∈ py_vocab → conn_sem op = Some f →
  mvalid s u → movalid s v → movalid s w → arity_ok op v w = true →
  mdd_apply_with mdd_apply_table op u v w s = (r, s') → MCounts s' L.
Proof.
  intros HI HC Hop Hf Hu Hv Hw Har Hrun.
  pose proof alias_table_ok as Htab. rewrite forallb_forall in Htab.
  pose proof mdd_table_rows as Hrows. rewrite forallb_forall in Hrows.
  apply elem_of_list_In in Hop. specialize (Htab op Hop). specialize (Hrows op Hop).
  apply elem_of_list_In in Hop. apply bool_decide_eq_true in Hrows.
  apply orb_true_iff in Htab as [Hq|Hok].
  { exfalso. apply bool_decide_eq_true in Hq. unfold quantifier_ops in Hq.
    repeat (apply elem_of_cons in Hq as [->|Hq]; [by vm_compute in Hf|]).
    by apply elem_of_nil in Hq. }
  unfold class_uses_ok in Hok.
  destruct (find_template py_apply_table op) as [t|] eqn:Ht; [|done].
  destruct (template_uses t) as [uv uw] eqn:Hus.
  apply andb_true_iff in Hok as [Hcl _].
  destruct py_table_is_model_table as (Etab&Eu&Eb&Et).
  pose proof Har as Har'. unfold arity_ok in Har. rewrite <- Eu, <- Eb, <- Et in Har.
  assert (Hav : avail (template_uses t) v w).
  { rewrite Hus. unfold avail. cbn.
    destruct (bool_decide (op ∈ py_unary)).
    - apply andb_true_iff in Hcl as [?%negb_true_iff ?%negb_true_iff]. split; congruence.
    - destruct (bool_decide (op ∈ py_binary)).
      + apply negb_true_iff in Hcl. apply bool_decide_eq_true in Har as [? ?]. split; congruence.
      + rewrite Hcl in Har. apply bool_decide_eq_true in Har as [? ?]. by split. }
  rewrite (mdd_apply_run _ _ _ _ _ _ Har' Hu Hv Hw), Hrows in Hrun.
  cbn [fmap option_fmap option_map] in Hrun.
  destruct t as [o|a b c|fa a b]; try (by injection Hrun as <- <-).
  cbn in Hav.
  destruct (m_eval_operand_spec s a u v w HI Hu Hv Hw (avail_por_l _ _ _ _ Hav)) as [Va _].
  destruct (m_eval_operand_spec s b u v w HI Hu Hv Hw
              (avail_por_l _ _ _ _ (avail_por_r _ _ _ _ Hav))) as [Vb _].
  destruct (m_eval_operand_spec s c u v w HI Hu Hv Hw
              (avail_por_r _ _ _ _ (avail_por_r _ _ _ _ Hav))) as [Vc _].
  by apply (m_ite__counts s L _ _ _ r s' HI HC Va Vb Vc).
Qed.

(** [incref] / [decref] move the ledger entry of the node by one *)
Lemma MCounts_incref s L u r s' :
  mvalid s u → MCounts s L → m_incref u s = (r, s') →
  r = Ok tt ∧ MCounts s' (ledger_inc L (absn u)).
Proof.
  intros [Hu0 Hu] [H1 H2] Hrun. apply elem_of_dom in Hu.
  rewrite (m_incref_run s u Hu0) in Hrun by (rewrite (H1 _ Hu); by eexists).
  injection Hrun as <- <-. split; [done|]. split.
  - intros n Hn. cbn in *. rewrite lookup_alter_if, (H1 n Hn). unfold ledger_inc.
    destruct (decide (absn u = n)), (decide (n = absn u)); try congruence; cbn; f_equal; lia.
  - intros n Hn. cbn in Hn. unfold ledger_inc. rewrite decide_False; [by apply H2|].
    intros ->. done.
Qed.

Lemma MCounts_decref s L u r s' :
  mvalid s u → MCounts s L → 0 < L (absn u) → m_decref u s = (r, s') →
  r = Ok tt ∧ MCounts s' (ledger_dec L (absn u)).
Proof.
  intros [Hu0 Hu] [H1 H2] HL Hrun. apply elem_of_dom in Hu.
  rewrite (m_decref_run s u Hu0) in Hrun by (rewrite (H1 _ Hu); by eexists).
  injection Hrun as <- <-. split; [done|]. split.
  - intros n Hn. cbn in *. rewrite lookup_alter_if, (H1 n Hn). unfold ledger_dec.
    destruct (decide (absn u = n)), (decide (n = absn u)); try congruence; cbn; f_equal.
    subst. lia.
  - intros n Hn. cbn in Hn. unfold ledger_dec. rewrite decide_False; [by apply H2|].
    intros ->. done.
Qed.
