(** * FnCompare: what the comparisons of [dd.autoref.Function] RETURN
      ([u == v], [u != v], [u <= v], [u < v]; [AEq]/[ANe]/[ALe]/[ALt] of the
      [Driver3] alphabet), and what they leave behind.

    [==]/[!=] compare the node numbers of the two live handles and touch
    nothing.  [u <= v] is [(v | ~u) == true]: it calls [apply "not"] (no node
    is created), [apply "or"] (an [ite]: nodes may be created, and with
    dynamic reordering enabled the manager may sift in the middle), and holds
    three temporaries whose counts net to zero.  [u < v] is [u <= v and u != v].

    Part 1: under the static invariant [AInv] (requests disabled): the exact
    result and the frame ([AInv], [extends], handles and ledger unchanged).
    Part 2: under the dynamic invariant [AInvDT] = [AInvD] + empty oracle
    tape: the same result; the frame is "every handle keeps node and
    function" instead of [extends], because the manager may reorder. *)
From DD Require Import AutorefInv2 C01proof Dynamic3.
Local Open Scope string_scope.

(** ** 0. Semantics by names *)
Lemma denv_neg s u ρ : Inv s → valid s u → denv s (- u) ρ = negb (denv s u ρ).
Proof. intros HI Hu. unfold denv. by apply D_neg. Qed.
Lemma denv_1 s ρ : Inv s → denv s 1 ρ = true.
Proof. intros HI. unfold denv. by apply D_1. Qed.

(** two different references differ under some assignment of the names *)
Lemma distinct_witness_names s u v : Inv s → valid s u → valid s v → u ≠ v →
  ∃ ρ, denv s u ρ ≠ denv s v ρ.
Proof.
  intros HI Hu Hv Hne. destruct (distinct_witness s HI u v Hu Hv Hne) as [a Ha].
  set (ρ := fun x => match vars s !! x with Some l => a l | None => false end).
  exists ρ. unfold denv.
  rewrite <- (D_indep_lt s HI u a
    (fun l => match lvl2var s !! l with Some x => ρ x | None => false end)),
          <- (D_indep_lt s HI v a
    (fun l => match lvl2var s !! l with Some x => ρ x | None => false end));
    try done.
  all: intros j Hj; apply (inv_lvls _ HI) in Hj as [x Hx]; rewrite Hx; subst ρ; cbn;
    apply (inv_vars _ HI) in Hx; by rewrite Hx.
Qed.

Lemma eq_char s u v : Inv s → valid s u → valid s v →
  bool_decide (u = v) = true ↔ ∀ ρ, denv s u ρ = denv s v ρ.
Proof.
  intros HI Hu Hv. rewrite bool_decide_eq_true. split; [by intros ->|].
  by apply canonical_names.
Qed.
Lemma ne_char s u v : Inv s → valid s u → valid s v →
  negb (bool_decide (u = v)) = true ↔ ∃ ρ, denv s u ρ ≠ denv s v ρ.
Proof.
  intros HI Hu Hv. rewrite negb_true_iff, bool_decide_eq_false. split.
  - by apply distinct_witness_names.
  - intros [ρ Hρ] ->. done.
Qed.

(** [o] denotes [v ∨ ¬u] (in a later state [s3]): [o] is the terminal
    exactly when [u] implies [v] *)
Lemma le_char s s3 o u v : Inv s3 → valid s3 o →
  (∀ ρ, denv s3 o ρ = denv s v ρ || negb (denv s u ρ)) →
  bool_decide (o = 1%Z) = true ↔ ∀ ρ, denv s u ρ = true → denv s v ρ = true.
Proof.
  intros HI Ho HD. rewrite bool_decide_eq_true. split.
  - intros -> ρ Hu. specialize (HD ρ). rewrite (denv_1 s3 ρ HI), Hu in HD.
    by destruct (denv s v ρ).
  - intros Himp. apply (canonical_names s3 HI); [done|by apply valid_1|].
    intros ρ. rewrite (denv_1 s3 ρ HI), HD. destruct (denv s u ρ) eqn:E.
    + by rewrite (Himp ρ E).
    + by rewrite orb_true_r.
Qed.

(** ** 1. [u == v], [u != v]: nothing changes, whatever the invariant *)
Lemma f_eq_run hu hv a :
  f_eq hu hv a =
  (match handles a !! hu, handles a !! hv with
   | Some u, Some v => Ok (bool_decide (u = v))
   | _, _ => Err EKey
   end, a).
Proof.
  unfold f_eq. rewrite node_of_bind. destruct (handles a !! hu) as [u|]; [|done].
  rewrite node_of_bind. by destruct (handles a !! hv).
Qed.

(** the hypotheses common to [AInv] and [AInvD] *)
Definition AHandles (a : ast) : Prop :=
  Inv (mgr a) ∧ ∀ h u, handles a !! h = Some u → valid (mgr a) u.
Lemma AHandles_AInv a : AInv a → AHandles a.
Proof. by intros (?&_&_&?&_). Qed.
Lemma AHandles_AInvD a : AInvD a → AHandles a.
Proof. by intros (?&_&_&?&_). Qed.

Theorem eq_returns w hu hv a r a' u v :
  AHandles a → handles a !! hu = Some u → handles a !! hv = Some v →
  run_aop w (AEq hu hv) a = (r, a') →
  a' = a ∧ ∃ b, r = Ok (VB b) ∧ (b = true ↔ ∀ ρ, denv (mgr a) u ρ = denv (mgr a) v ρ).
Proof.
  intros [HI Hv] Eu Ev. cbn [run_aop]. unfold bind at 1. rewrite f_eq_run, Eu, Ev.
  intros [= <- <-]. split; [done|]. eexists. split; [done|].
  apply eq_char; [done|by apply (Hv hu)|by apply (Hv hv)].
Qed.

Theorem ne_returns w hu hv a r a' u v :
  AHandles a → handles a !! hu = Some u → handles a !! hv = Some v →
  run_aop w (ANe hu hv) a = (r, a') →
  a' = a ∧ ∃ b, r = Ok (VB b) ∧
    (b = true ↔ ∃ ρ, denv (mgr a) u ρ ≠ denv (mgr a) v ρ) ∧
    (b = false ↔ ∀ ρ, denv (mgr a) u ρ = denv (mgr a) v ρ).
Proof.
  intros [HI Hv] Eu Ev. cbn [run_aop]. unfold bind at 1. rewrite f_eq_run, Eu, Ev.
  intros [= <- <-]. split; [done|]. eexists. split; [done|]. split.
  - apply ne_char; [done|by apply (Hv hu)|by apply (Hv hv)].
  - rewrite negb_false_iff. apply eq_char; [done|by apply (Hv hu)|by apply (Hv hv)].
Qed.

(** a dead (or unknown) handle: [KeyError] before anything happens *)
Definition is_acompare (o : aop) (hu hv : nat) : Prop :=
  o = AEq hu hv ∨ o = ANe hu hv ∨ o = ALe hu hv ∨ o = ALt hu hv.

Lemma f_le_dead hu hv a :
  handles a !! hu = None ∨ handles a !! hv = None → f_le hu hv a = (Err EKey, a).
Proof.
  intros Hd. unfold f_le. rewrite node_of_bind.
  destruct (handles a !! hu) as [u|]; [|done]. rewrite node_of_bind.
  destruct (handles a !! hv) as [v|]; [|done]. by destruct Hd.
Qed.

Theorem compare_dead w o hu hv a r a' :
  is_acompare o hu hv → handles a !! hu = None ∨ handles a !! hv = None →
  run_aop w o a = (r, a') → r = Err EKey ∧ a' = a.
Proof.
  intros Ho Hd.
  assert (Heq : f_eq hu hv a = (Err EKey, a)).
  { rewrite f_eq_run. destruct (handles a !! hu), (handles a !! hv), Hd; done. }
  destruct Ho as [-> | [-> | [-> | ->]]]; cbn [run_aop]; unfold bind at 1.
  - rewrite Heq. by intros [= <- <-].
  - rewrite Heq. by intros [= <- <-].
  - rewrite (f_le_dead hu hv a Hd). by intros [= <- <-].
  - unfold f_lt. unfold bind at 1. rewrite (f_le_dead hu hv a Hd). by intros [= <- <-].
Qed.

(** ** 2. [u <= v], [u < v] with reordering requests disabled ([AInv]) *)

(** the frame of a comparison: the invariant, only node creation in the
    wrapped manager, the same live handles, the same ledger of external
    references (hence the same counts up to the in-edges of new nodes) *)
Definition CmpFrame (a a' : ast) : Prop :=
  AInv a' ∧ extends (mgr a) (mgr a') ∧ handles a' = handles a ∧
  next_hid a' = next_hid a ∧ Counts (mgr a') (hledger a).

Lemma CmpFrame_refl a : AInv a → CmpFrame a a.
Proof. intros HA. split; [done|]. split; [reflexivity|]. split; [done|]. split; [done|]. apply HA. Qed.

Theorem f_le_spec hu hv a r a' u v :
  AInv a → max_nodes (mgr a) = None →
  handles a !! hu = Some u → handles a !! hv = Some v →
  f_le hu hv a = (r, a') →
  CmpFrame a a' ∧
  ∃ b, r = Ok b ∧ (b = true ↔ ∀ ρ, denv (mgr a) u ρ = true → denv (mgr a) v ρ = true).
Proof.
  intros HA Hmx Eu Ev. pose proof HA as (HI&Hl&HC&Hv&Hf). unfold f_le.
  rewrite node_of_bind, Eu, node_of_bind, Ev.
  pose proof (Hv _ _ Eu) as Hu0. pose proof (Hv _ _ Ev) as Hv0.
  set (L := hledger a) in *.
  (* n = ~u *)
  destruct (lift (apply "not" u None None) a) as [rn a1] eqn:E1.
  destruct (lift_G _ a L rn a1 (tsafe_apply _ _ _ _) HA E1) as (G1&M1&R1).
  rewrite (apply_not_run _ u Hu0) in R1. injection R1 as <- R1.
  rewrite (bind_ok _ _ _ _ _ E1).
  set (n := (- u)%Z) in *.
  assert (Hn1 : valid (mgr a1) n).
  { apply (valid_extends (mgr a)); [apply M1|by apply valid_neg]. }
  destruct (tmp_new n a1) as [r2 a2] eqn:E2.
  destruct (tmp_new_G n a1 _ r2 a2 G1 Hn1 E2) as (->&G2&M2).
  rewrite (bind_ok _ _ _ _ _ E2).
  (* o = v | n *)
  assert (Hn2 : valid (mgr a2) n) by (by apply (valid_extends (mgr a1)); [apply M2|]).
  assert (Hv2 : valid (mgr a2) v).
  { apply (valid_extends (mgr a1)); [apply M2|].
    by apply (valid_extends (mgr a)); [apply M1|]. }
  destruct (lift (apply "or" v (Some n) None) a2) as [ro a3] eqn:E3.
  destruct (lift_G _ a2 _ ro a3 (tsafe_apply _ _ _ _) G2 E3) as (G3&M3&R3).
  rewrite (apply_or_run _ v n Hv2 Hn2) in R3.
  pose proof G2 as (HI2&Hl2&_).
  assert (Hmx2 : max_nodes (mgr a2) = None).
  { destruct M2 as (_&_&_&->). by destruct M1 as (_&_&_&->). }
  apply ite_spec_off in R3 as (o&->&HI3&_&_&Ho&HoD);
    [|done|done|by apply valid_1|done|done|done].
  rewrite (bind_ok _ _ _ _ _ (catch_run_g _ _ _ _ E3)). cbv beta iota.
  (* the value of [o], by names, over the initial manager *)
  assert (M02 : extends (mgr a) (mgr a2)) by (etrans; [apply M1|apply M2]).
  assert (HoN : ∀ ρ, denv (mgr a3) o ρ = denv (mgr a) v ρ || negb (denv (mgr a) u ρ)).
  { intros ρ. unfold denv at 1. rewrite HoD.
    pose proof M3 as ((_&_&El)&_). rewrite <- El.
    change (D (mgr a2) v _) with (denv (mgr a2) v ρ).
    change (D (mgr a2) n _) with (denv (mgr a2) n ρ).
    rewrite (D_1 _ HI2).
    rewrite (denv_extends (mgr a) (mgr a2) v ρ M02 HI Hv0).
    rewrite (denv_extends (mgr a) (mgr a2) n ρ M02 HI (valid_neg _ _ Hu0)).
    subst n. rewrite (denv_neg _ u ρ HI Hu0). by destruct (denv (mgr a) v ρ). }
  pose proof (le_char (mgr a) (mgr a3) o u v HI3 Ho HoN) as Hres.
  destruct (tmp_new o a3) as [r4 a4] eqn:E4.
  destruct (tmp_new_G o a3 _ r4 a4 G3 Ho E4) as (->&G4&M4).
  rewrite (bind_ok _ _ _ _ _ E4).
  (* the temporary ~u dies *)
  assert (Hn4 : valid (mgr a4) n).
  { apply (valid_extends (mgr a3)); [apply M4|].
    by apply (valid_extends (mgr a2)); [apply M3|]. }
  destruct (tmp_del n a4) as [r5 a5] eqn:E5.
  destruct (tmp_del_G n a4 _ r5 a5 G4 Hn4) as (->&G5&M5); [|done|].
  { unfold ledger_inc. repeat case_decide; try done; lia. }
  rewrite (bind_ok _ _ _ _ _ E5).
  (* self.bdd.true *)
  pose proof G5 as (HI5&_).
  destruct (tmp_new 1 a5) as [r6 a6] eqn:E6.
  destruct (tmp_new_G 1 a5 _ r6 a6 G5 (valid_1 _ HI5) E6) as (->&G6&M6).
  rewrite (bind_ok _ _ _ _ _ E6). cbv zeta.
  assert (Ho6 : valid (mgr a6) o).
  { apply (valid_extends (mgr a5)); [apply M6|].
    apply (valid_extends (mgr a4)); [apply M5|].
    by apply (valid_extends (mgr a3)); [apply M4|]. }
  destruct (tmp_del o a6) as [r7 a7] eqn:E7.
  destruct (tmp_del_G o a6 _ r7 a7 G6 Ho6) as (->&G7&M7); [|done|].
  { unfold ledger_inc, ledger_dec. repeat case_decide; try done; lia. }
  rewrite (bind_ok _ _ _ _ _ E7).
  pose proof G7 as (HI7&_).
  destruct (tmp_del 1 a7) as [r8 a8] eqn:E8.
  destruct (tmp_del_G 1 a7 _ r8 a8 G7 (valid_1 _ HI7)) as (->&G8&M8); [|done|].
  { unfold ledger_inc, ledger_dec. repeat case_decide; try done; lia. }
  rewrite (bind_ok _ _ _ _ _ E8). intros [= <- <-].
  assert (M : MStep a a8).
  { repeat (eapply MStep_trans; [eassumption|]). done. }
  destruct M as (He&Hh&Hnx&_). destruct G8 as (HI8&Hl8&HC8&Hv8&Hf8).
  assert (HC8' : Counts (mgr a8) L).
  { eapply Counts_ext; [|exact HC8].
    intros k. unfold ledger_inc, ledger_dec. repeat case_decide; try done; lia. }
  split; [|by eexists].
  split; [|done].
  split; [done|]. split; [done|]. split; [|done].
  unfold hledger. rewrite Hh. exact HC8'.
Qed.

Theorem f_lt_spec hu hv a r a' u v :
  AInv a → max_nodes (mgr a) = None →
  handles a !! hu = Some u → handles a !! hv = Some v →
  f_lt hu hv a = (r, a') →
  CmpFrame a a' ∧
  ∃ b, r = Ok b ∧
    (b = true ↔ (∀ ρ, denv (mgr a) u ρ = true → denv (mgr a) v ρ = true) ∧
                ∃ ρ, denv (mgr a) u ρ ≠ denv (mgr a) v ρ).
Proof.
  intros HA Hmx Eu Ev. pose proof HA as (HI&_&_&Hv&_). unfold f_lt. unfold bind at 1.
  destruct (f_le hu hv a) as [rl a1] eqn:El.
  destruct (f_le_spec hu hv a rl a1 u v HA Hmx Eu Ev El) as (HF&b&->&Hb).
  destruct b.
  - unfold bind at 1. rewrite f_eq_run.
    destruct HF as (HA1&He&Hh&Hn&HC). rewrite Hh, Eu, Ev. intros [= <- <-].
    split; [by split_and!|]. eexists. split; [done|].
    rewrite (ne_char (mgr a) u v HI (Hv _ _ Eu) (Hv _ _ Ev)). split.
    + intros Hne. split; [by apply Hb|done].
    + by intros [_ ?].
  - intros [= <- <-]. split; [done|]. exists false. split; [done|]. split; [done|].
    intros [Himp _]. by apply Hb.
Qed.

Theorem le_returns w hu hv a r a' u v :
  AInv a → max_nodes (mgr a) = None →
  handles a !! hu = Some u → handles a !! hv = Some v →
  run_aop w (ALe hu hv) a = (r, a') →
  CmpFrame a a' ∧
  ∃ b, r = Ok (VB b) ∧
    (b = true ↔ ∀ ρ, denv (mgr a) u ρ = true → denv (mgr a) v ρ = true).
Proof.
  intros HA Hmx Eu Ev. cbn [run_aop]. unfold bind at 1.
  destruct (f_le hu hv a) as [rl a1] eqn:El.
  destruct (f_le_spec hu hv a rl a1 u v HA Hmx Eu Ev El) as (HF&b&->&Hb).
  intros [= <- <-]. split; [done|]. by exists b.
Qed.

Theorem lt_returns w hu hv a r a' u v :
  AInv a → max_nodes (mgr a) = None →
  handles a !! hu = Some u → handles a !! hv = Some v →
  run_aop w (ALt hu hv) a = (r, a') →
  CmpFrame a a' ∧
  ∃ b, r = Ok (VB b) ∧
    (b = true ↔ (∀ ρ, denv (mgr a) u ρ = true → denv (mgr a) v ρ = true) ∧
                ∃ ρ, denv (mgr a) u ρ ≠ denv (mgr a) v ρ).
Proof.
  intros HA Hmx Eu Ev. cbn [run_aop]. unfold bind at 1.
  destruct (f_lt hu hv a) as [rl a1] eqn:El.
  destruct (f_lt_spec hu hv a rl a1 u v HA Hmx Eu Ev El) as (HF&b&->&Hb).
  intros [= <- <-]. split; [done|]. by exists b.
Qed.

(** ** 3. [u <= v], [u < v] with dynamic reordering possibly enabled
    ([AInvDT] = [AInvD] + empty oracle tape).  The temporaries are counted, so
    they are HELD for the ledger "live handles + temporaries" and survive a
    sifting in the middle of [v | ~u]. *)

Lemma lift_run {A} (m : MS A) a r s' :
  m (mgr a) = (r, s') → lift m a = (r, a <| mgr := s' |>).
Proof. intros E. unfold lift. by rewrite E. Qed.

Lemma tmp_new_run u a : Inv (mgr a) → valid (mgr a) u →
  tmp_new u a = (Ok tt, a <| mgr := bump u (mgr a) |>).
Proof.
  intros HI Hu. unfold tmp_new. cbn [bind get]. rewrite (proj2 (mem_valid _ _) Hu).
  cbn [ensure bind ret]. unfold lift. by rewrite (incref_ok _ u HI Hu).
Qed.

(** the manager between two steps of a comparison *)
Definition DSt (s : st) (L : positive → nat) : Prop :=
  Inv s ∧ rctx s = false ∧ tape s = [] ∧ Counts s L.

Lemma DSt_bump s L u : DSt s L → valid s u → DSt (bump u s) (ledger_inc L (absn u)).
Proof.
  intros (HI&Hr&Ht&HC) Hu. split; [by apply Inv_bump|]. split; [done|]. split; [done|].
  by apply Counts_bump.
Qed.
Lemma extends_bump s u : extends s (bump u s).
Proof. by split. Qed.

Lemma DSt_decref s L u r s' : DSt s L → valid s u → 0 < L (absn u) →
  decref u s = (r, s') →
  r = Ok tt ∧ DSt s' (ledger_dec L (absn u)) ∧ extends s s' ∧ last_len s' = last_len s.
Proof.
  intros (HI&Hr&Ht&HC) Hu HL E.
  destruct (decref_total _ _ _ _ HI E) as (HI'&He&(Fl&Fr&_&Ft&_)&Hok&_).
  destruct (Hok Hu) as [-> HC']. split; [done|]. split; [|by split].
  split; [done|]. split; [congruence|]. split; [congruence|]. by apply HC'.
Qed.

Lemma or_in_vocab : "or" ∈ py_vocab.
Proof. apply (bool_decide_unpack _). by vm_compute. Qed.

(** the frame of a comparison when the manager may reorder: the invariant,
    every live handle keeps node and function, the same handles, the same
    ledger, the same reordering mode *)
Definition CmpFrameD (a a' : ast) : Prop :=
  AInvDT a' ∧ AKeepAll a a' ∧ handles a' = handles a ∧ next_hid a' = next_hid a ∧
  Counts (mgr a') (hledger a) ∧
  (last_len (mgr a) = None → last_len (mgr a') = None) ∧
  (is_Some (last_len (mgr a)) → is_Some (last_len (mgr a'))).

Theorem f_le_dyn hu hv a r a' u v :
  AInvDT a → max_nodes (mgr a) = None →
  handles a !! hu = Some u → handles a !! hv = Some v →
  f_le hu hv a = (r, a') →
  CmpFrameD a a' ∧
  ∃ b, r = Ok b ∧ (b = true ↔ ∀ ρ, denv (mgr a) u ρ = true → denv (mgr a) v ρ = true).
Proof.
  intros HA Hmx Eu Ev. pose proof HA as ((HI&Hr&HC&Hv&Hf)&Ht). unfold f_le.
  rewrite node_of_bind, Eu, node_of_bind, Ev.
  pose proof (Hv _ _ Eu) as Hu0. pose proof (Hv _ _ Ev) as Hv0.
  set (L := hledger a) in *.
  assert (D0 : DSt (mgr a) L) by done.
  (* n = ~u: nothing happens *)
  rewrite (bind_ok _ _ _ _ _ (lift_run _ a _ _ (apply_not_run (mgr a) u Hu0))).
  set (n := (- u)%Z). set (a1 := a <| mgr := mgr a |>).
  assert (Hn0 : valid (mgr a) n) by (by apply valid_neg).
  rewrite (bind_ok _ _ _ _ _ (tmp_new_run n a1 HI Hn0)).
  set (s2 := bump n (mgr a)). set (a2 := a1 <| mgr := bump n (mgr a1) |>).
  set (L2 := ledger_inc L (absn n)).
  assert (D2 : DSt s2 L2) by (by apply DSt_bump).
  assert (Hmono : ∀ k, heldn L k → heldn L2 k).
  { intros k [->|Hk]; [by left|right]. unfold L2, ledger_inc. case_decide; lia. }
  assert (Hheld : ∀ h x, handles a !! h = Some x → heldn L2 (absn x)).
  { intros h x Hx. apply Hmono. by apply (held_handle a h). }
  (* o = v | n: may reorder *)
  destruct (apply "or" v (Some n) None s2) as [ro s3] eqn:E3.
  pose proof D2 as (HI2&Hr2&Ht2&HC2).
  assert (Kn : heldn L2 (absn n)).
  { right. unfold L2, ledger_inc. rewrite decide_True by done. lia. }
  destruct (apply_notape s2 L2 HI2 HC2 Hr2 Ht2 Hmx "or" v (Some n) None ro s3
              (fun x y _ => x || y) or_in_vocab eq_refl Hv0 Hn0 I eq_refl
              (Hheld _ _ Ev) Kn I E3)
    as ((o&->&HI3&HC3&Hr3&Hl3a&Hl3b&[_ Hk3]&Ho&HoD)&Ht3).
  rewrite (bind_ok _ _ _ _ _ (catch_run_g _ _ _ _ (lift_run _ a2 _ _ E3))). cbv beta iota.
  set (a3 := a2 <| mgr := s3 |>).
  assert (HoN : ∀ ρ, denv s3 o ρ = denv (mgr a) v ρ || negb (denv (mgr a) u ρ)).
  { intros ρ. rewrite HoD. cbn [odenv]. unfold s2.
    rewrite (denv_same (mgr a) (bump n (mgr a)) v ρ eq_refl eq_refl eq_refl).
    rewrite (denv_same (mgr a) (bump n (mgr a)) n ρ eq_refl eq_refl eq_refl).
    unfold n. by rewrite (denv_neg _ u ρ HI Hu0). }
  pose proof (le_char (mgr a) s3 o u v HI3 Ho HoN) as Hres.
  assert (D3 : DSt s3 L2) by done.
  rewrite (bind_ok _ _ _ _ _ (tmp_new_run o a3 HI3 Ho)).
  set (s4 := bump o s3). set (a4 := a3 <| mgr := bump o (mgr a3) |>).
  set (L4 := ledger_inc L2 (absn o)).
  assert (D4 : DSt s4 L4) by (by apply DSt_bump).
  (* the temporary ~u dies *)
  assert (Hn3 : valid s3 n) by (by apply Hk3; [apply Hn0|done|done]).
  unfold tmp_del at 1. destruct (decref n s4) as [r5 s5] eqn:E5.
  destruct (DSt_decref s4 L4 n r5 s5 D4 Hn3) as (->&D5&He5&El5); [|done|].
  { unfold L4, L2, ledger_inc. repeat case_decide; try done; lia. }
  rewrite (bind_ok _ _ _ _ _ (lift_run _ a4 _ _ E5)).
  set (a5 := a4 <| mgr := s5 |>). set (L5 := ledger_dec L4 (absn n)) in *.
  (* self.bdd.true *)
  pose proof D5 as (HI5&_).
  rewrite (bind_ok _ _ _ _ _ (tmp_new_run 1 a5 HI5 (valid_1 _ HI5))). cbv zeta.
  set (s6 := bump 1 s5). set (a6 := a5 <| mgr := bump 1 (mgr a5) |>).
  set (L6 := ledger_inc L5 (absn 1)).
  assert (D6 : DSt s6 L6) by (apply DSt_bump; [done|by apply valid_1]).
  assert (Ho6 : valid s6 o) by (by apply (valid_extends s4 s5)).
  unfold tmp_del at 1. destruct (decref o s6) as [r7 s7] eqn:E7.
  destruct (DSt_decref s6 L6 o r7 s7 D6 Ho6) as (->&D7&He7&El7); [|done|].
  { unfold L6, L5, L4, L2, ledger_inc, ledger_dec. repeat case_decide; try done; lia. }
  rewrite (bind_ok _ _ _ _ _ (lift_run _ a6 _ _ E7)).
  set (a7 := a6 <| mgr := s7 |>). set (L7 := ledger_dec L6 (absn o)) in *.
  pose proof D7 as (HI7&_).
  unfold tmp_del. destruct (decref 1 s7) as [r8 s8] eqn:E8.
  destruct (DSt_decref s7 L7 1 r8 s8 D7 (valid_1 _ HI7)) as (->&D8&He8&El8); [|done|].
  { unfold L7, L6, L5, L4, L2, ledger_inc, ledger_dec. repeat case_decide; try done; lia. }
  rewrite (bind_ok _ _ _ _ _ (lift_run _ a7 _ _ E8)). intros [= <- <-].
  destruct D8 as (HI8&Hr8&Ht8&HC8).
  assert (HC8' : Counts s8 L).
  { eapply Counts_ext; [|exact HC8]. intros k.
    unfold L7, L6, L5, L4, L2, ledger_inc, ledger_dec. repeat case_decide; try done; lia. }
  assert (He38 : extends s3 s8).
  { etrans; [apply (extends_bump s3 o)|]. etrans; [exact He5|].
    etrans; [apply (extends_bump s5 1)|]. etrans; [exact He7|exact He8]. }
  assert (Hk : ∀ h x, handles a !! h = Some x →
            valid s8 x ∧ ∀ ρ, denv s8 x ρ = denv (mgr a) x ρ).
  { intros h x Hx. pose proof (Hv h x Hx) as Hx0.
    destruct (Hk3 x (proj1 Hx0) (Hheld h x Hx) Hx0) as [Hx3 HD3].
    split; [by apply (valid_extends s3 s8)|]. intros ρ.
    rewrite (denv_extends s3 s8 x ρ He38 HI3 Hx3), HD3.
    apply (denv_same (mgr a) (bump n (mgr a)) x ρ eq_refl eq_refl eq_refl). }
  assert (Hll : last_len s8 = last_len s3).
  { rewrite El8, El7. change (last_len s6) with (last_len s5). by rewrite El5. }
  split; [|by eexists].
  split; [|split; [|split; [done|split; [done|split; [done|split]]]]].
  - split; [|done]. split; [done|]. split; [done|]. split; [done|]. split; [|done].
    intros h x Hx. by apply (Hk h).
  - intros h x Hx. split; [done|]. by apply (Hk h).
  - intros Hn. change (last_len s8 = None). rewrite Hll. by apply Hl3a.
  - intros Hs. change (is_Some (last_len s8)). rewrite Hll. by apply Hl3b.
Qed.

Theorem f_lt_dyn hu hv a r a' u v :
  AInvDT a → max_nodes (mgr a) = None →
  handles a !! hu = Some u → handles a !! hv = Some v →
  f_lt hu hv a = (r, a') →
  CmpFrameD a a' ∧
  ∃ b, r = Ok b ∧
    (b = true ↔ (∀ ρ, denv (mgr a) u ρ = true → denv (mgr a) v ρ = true) ∧
                ∃ ρ, denv (mgr a) u ρ ≠ denv (mgr a) v ρ).
Proof.
  intros HA Hmx Eu Ev. pose proof HA as ((HI&_&_&Hv&_)&_). unfold f_lt. unfold bind at 1.
  destruct (f_le hu hv a) as [rl a1] eqn:El.
  destruct (f_le_dyn hu hv a rl a1 u v HA Hmx Eu Ev El) as (HF&b&->&Hb).
  destruct b.
  - unfold bind at 1. rewrite f_eq_run.
    pose proof HF as (_&_&Hh&_). rewrite Hh, Eu, Ev. intros [= <- <-].
    split; [done|]. eexists. split; [done|].
    rewrite (ne_char (mgr a) u v HI (Hv _ _ Eu) (Hv _ _ Ev)). split.
    + intros Hne. split; [by apply Hb|done].
    + by intros [_ ?].
  - intros [= <- <-]. split; [done|]. exists false. split; [done|]. split; [done|].
    intros [Himp _]. by apply Hb.
Qed.

Theorem le_returns_dyn w hu hv a r a' u v :
  AInvDT a → max_nodes (mgr a) = None →
  handles a !! hu = Some u → handles a !! hv = Some v →
  run_aop w (ALe hu hv) a = (r, a') →
  CmpFrameD a a' ∧
  ∃ b, r = Ok (VB b) ∧
    (b = true ↔ ∀ ρ, denv (mgr a) u ρ = true → denv (mgr a) v ρ = true).
Proof.
  intros HA Hmx Eu Ev. cbn [run_aop]. unfold bind at 1.
  destruct (f_le hu hv a) as [rl a1] eqn:El.
  destruct (f_le_dyn hu hv a rl a1 u v HA Hmx Eu Ev El) as (HF&b&->&Hb).
  intros [= <- <-]. split; [done|]. by exists b.
Qed.

Theorem lt_returns_dyn w hu hv a r a' u v :
  AInvDT a → max_nodes (mgr a) = None →
  handles a !! hu = Some u → handles a !! hv = Some v →
  run_aop w (ALt hu hv) a = (r, a') →
  CmpFrameD a a' ∧
  ∃ b, r = Ok (VB b) ∧
    (b = true ↔ (∀ ρ, denv (mgr a) u ρ = true → denv (mgr a) v ρ = true) ∧
                ∃ ρ, denv (mgr a) u ρ ≠ denv (mgr a) v ρ).
Proof.
  intros HA Hmx Eu Ev. cbn [run_aop]. unfold bind at 1.
  destruct (f_lt hu hv a) as [rl a1] eqn:El.
  destruct (f_lt_dyn hu hv a rl a1 u v HA Hmx Eu Ev El) as (HF&b&->&Hb).
  intros [= <- <-]. split; [done|]. by exists b.
Qed.
