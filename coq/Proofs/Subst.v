(** * Subst: [_vector_compose] (simultaneous substitution), [_copy_bdd]
      (copy between managers / renaming inside one manager), and the public
      operations [rename] and [copy_bdd] built on them (C04, C11). *)
From DD Require Export Decor.

(** ** Generic helpers *)

(** the denotation only looks at the assignment pointwise (no validity needed) *)
Lemma den_ext f s u a b : (∀ j, a j = b j) → den f s u a = den f s u b.
Proof.
  intros H. revert u. induction f as [|f IH]; intros u; [done|].
  cbn [den]. destruct (succ s !! absn u) as [t|]; [|done].
  by rewrite H, !IH.
Qed.
Lemma D_ext s u a b : (∀ j, a j = b j) → D s u a = D s u b.
Proof. apply den_ext. Qed.

Lemma valid_abs s u : valid s u → valid s (Z.pos (absn u)).
Proof. intros [? ?]. split; [done|]. by rewrite absn_pos. Qed.

Lemma Zpos_absn u : (u ≠ 0 → Z.pos (absn u) = Z.abs u)%Z.
Proof. intros. unfold absn. rewrite Z2Pos.id; lia. Qed.

(** a reference is its node, complemented when negative *)
Lemma D_abs s u a : Inv s → valid s u →
  D s u a = xorb (bool_decide (u < 0)%Z) (D s (Z.pos (absn u)) a).
Proof.
  intros HI Hv. pose proof (Zpos_absn u (proj1 Hv)) as E.
  destruct (decide (u < 0)%Z) as [Hn|Hp].
  - rewrite bool_decide_eq_true_2 by done.
    replace u with (- Z.pos (absn u))%Z at 1 by lia.
    rewrite (D_neg s HI) by (by apply valid_abs). by destruct (D s _ a).
  - rewrite bool_decide_eq_false_2 by done.
    replace (Z.pos (absn u)) with u by lia. by rewrite xorb_false_l.
Qed.

Lemma valid_flip s r u : valid s r → valid s (flip r u).
Proof. intros. unfold flip. case_decide; [by apply valid_neg|done]. Qed.

Lemma assert_true {S} (b : bool) (s : S) : b = true → assert b s = (Ok tt, s).
Proof. by intros ->. Qed.

Lemma frame_last s s' : frame s s' → is_Some (last_len s') → is_Some (last_len s).
Proof. intros (E&_). by rewrite E. Qed.

(** ** (a) [_vector_compose] *)

(** simultaneous substitution: level [l] is read as the replacement's value
    under the ORIGINAL assignment *)
Definition vsubst (s : st) (level_sub : gmap nat Z) (a : nat → bool) : nat → bool :=
  fun l => match level_sub !! l with Some g => D s g a | None => a l end.

Definition vcache_ok (s : st) (level_sub : gmap nat Z) (cache : gmap positive Z) : Prop :=
  ∀ n x, cache !! n = Some x →
    valid s (Z.pos n) ∧ valid s x ∧
    ∀ a, D s x a = D s (Z.pos n) (vsubst s level_sub a).

Lemma vsubst_extends s s' ls a l :
  extends s s' → Inv s → (∀ l g, ls !! l = Some g → valid s g) →
  vsubst s' ls a l = vsubst s ls a l.
Proof.
  intros He HI Hls. unfold vsubst. destruct (ls !! l) as [g|] eqn:E; [|done].
  apply D_extends; eauto.
Qed.

Lemma vcache_ok_extends s s' ls c :
  extends s s' → Inv s → (∀ l g, ls !! l = Some g → valid s g) →
  vcache_ok s ls c → vcache_ok s' ls c.
Proof.
  intros He HI Hls Hc n x Hn. destruct (Hc n x Hn) as (Hvn&Hvx&HD).
  split_and!; [by apply (valid_extends s s')..|].
  intros a. rewrite (D_extends s s' x), (D_extends s s' (Z.pos n)) by done.
  rewrite HD. apply D_ext. intros j. symmetry. by apply vsubst_extends.
Qed.

Theorem vector_compose_rec_spec fuel : ∀ s f_ level_sub cache r s',
  Inv s → valid s f_ → no_reorder s →
  (∀ l g, level_sub !! l = Some g → valid s g) →
  vcache_ok s level_sub cache →
  nvars s - lvl_of s f_ < fuel →
  vector_compose_rec fuel f_ level_sub cache s = (r, s') →
  Inv s' ∧ extends s s' ∧ frame s s' ∧
  match r with
  | Ok (x, cache') => valid s' x ∧ vcache_ok s' level_sub cache' ∧
        ∀ a, D s' x a = D s f_ (vsubst s level_sub a)
  | Err e => benign s e
  end.
Proof.
  induction fuel as [|fu IH]; intros s f_ ls cache r s' HI Hf Hnr Hls Hc Hfuel; [lia|].
  cbn [vector_compose_rec].
  destruct (decide (absn f_ = 1%positive ∧ f_ ≠ 0%Z)) as [[E1 _]|Hnt].
  { intros [= <- <-]. split; [done|split; [reflexivity|split; [reflexivity|]]].
    split_and!; [done|done|]. intros a. by rewrite !D_term. }
  rewrite decide_False by apply Hf.
  assert (Hn1 : absn f_ ≠ 1%positive) by (intros E; apply Hnt; split; [done|apply Hf]).
  destruct (cache !! absn f_) as [x|] eqn:Ec.
  { destruct (Hc _ _ Ec) as (Hvn&Hvx&HDx).
    assert (Hx0 : bool_decide (x ≠ 0%Z) = true) by (apply bool_decide_eq_true_2, Hvx).
    rewrite (bind_ok _ _ s tt s (assert_true _ _ Hx0)).
    intros [= <- <-]. split; [done|split; [reflexivity|split; [reflexivity|]]].
    split_and!; [by apply valid_flip|done|].
    intros a. rewrite D_flip, HDx by done. symmetry. by apply D_abs. }
  destruct (node_cases s HI f_ Hf) as [[E _]|(t&Ht&_&Hlo&Hl&Hln&Hvl&Hvh&Hhp&Hll&Hlh&Hne)]; [done|].
  assert (Egs : getsucc (absn f_) s = (Ok t, s)) by (unfold getsucc; by rewrite Ht).
  rewrite (bind_ok _ _ _ _ _ Egs).
  assert (Hnt' : negb (is_term t) = true)
    by (unfold is_term; by rewrite bool_decide_eq_false_2).
  rewrite (bind_ok _ _ s tt s (assert_true _ _ Hnt')).
  (* low branch *)
  destruct (vector_compose_rec fu (t_lo t) ls cache s) as [rp s1] eqn:Ep.
  pose proof Ep as Ep'.
  apply IH in Ep' as (HI1&He1&Hf1&Hp); [|done|done|done|done|done|lia].
  destruct rp as [[p c1]|e]; cycle 1.
  { rewrite (bind_err _ _ _ _ _ Ep). intros [= <- <-].
    by split_and!. }
  rewrite (bind_ok _ _ _ _ _ Ep). cbv beta iota.
  destruct Hp as (Hpv&Hc1&HpD).
  assert (Hnv1 : nvars s1 = nvars s) by (by apply extends_nvars).
  assert (Hls1 : ∀ l g, ls !! l = Some g → valid s1 g)
    by (intros l g Hg; apply (valid_extends s s1); eauto).
  (* high branch, in the extended manager *)
  destruct (vector_compose_rec fu (t_hi t) ls c1 s1) as [rq s2] eqn:Eq.
  pose proof Eq as Eq'.
  apply IH in Eq' as (HI2&He2&Hf2&Hq);
    [|done|by apply (valid_extends s s1)|by apply (no_reorder_frame s s1)|done|done
     |rewrite Hnv1, (lvl_extends s s1) by done; lia].
  destruct rq as [[q c2]|e]; cycle 1.
  { rewrite (bind_err _ _ _ _ _ Eq). intros [= <- <-].
    split_and!; [done|by etrans|by etrans|]. apply (benign_frame s s1); [done|apply Hq]. }
  rewrite (bind_ok _ _ _ _ _ Eq). cbv beta iota.
  destruct Hq as (Hqv&Hc2&HqD).
  assert (He02 : extends s s2) by (by etrans).
  assert (Hfr02 : frame s s2) by (by etrans).
  assert (Hls2 : ∀ l g, ls !! l = Some g → valid s2 g)
    by (intros l g Hg; apply (valid_extends s s2); eauto).
  (* the replacement of this level, or the variable itself *)
  set (i := t_lvl t) in *.
  set (mg := match ls !! i with
             | Some g => ret g
             | None => find_or_add i (-1) 1
             end).
  destruct (mg s2) as [rg s3] eqn:Eg.
  assert (Hg : Inv s3 ∧ extends s2 s3 ∧ frame s2 s3 ∧
            match rg with
            | Ok g => valid s3 g ∧ ∀ a, D s3 g a = vsubst s ls a i
            | Err e => benign s2 e
            end).
  { subst mg. unfold vsubst. destruct (ls !! i) as [g|] eqn:Eli.
    - injection Eg as <- <-. split; [done|split; [reflexivity|split; [reflexivity|]]].
      split; [by eauto|]. intros a. apply (D_extends s s2); eauto.
    - pose proof Eg as Eg'.
      apply find_or_add_spec in Eg' as (HI3&He3&Hf3&Hg);
        [|done|by apply valid_m1|by apply valid_1
         |rewrite (lvl_term s2 HI2) by done; rewrite (extends_nvars s s2) by done; lia
         |rewrite (lvl_term s2 HI2) by done; rewrite (extends_nvars s s2) by done; lia].
      split; [done|split; [done|split; [done|]]].
      destruct rg as [g|e]; [|by destruct Hg as (?&_)].
      destruct Hg as (Hgv&_&HgD). split; [done|].
      intros a. rewrite HgD, D_1, D_m1 by done. by destruct (a i). }
  destruct Hg as (HI3&He3&Hf3&Hg).
  destruct rg as [g|e]; cycle 1.
  { rewrite (bind_err _ _ _ _ _ Eg). intros [= <- <-].
    split_and!; [done|by etrans|by etrans|]. apply (benign_frame s s2); [done|apply Hg]. }
  rewrite (bind_ok _ _ _ _ _ Eg).
  destruct Hg as (Hgv&HgD).
  assert (He03 : extends s s3) by (by etrans).
  assert (Hfr03 : frame s s3) by (by etrans).
  (* the if-then-else *)
  destruct (ite g q p s3) as [rr s4] eqn:Er.
  pose proof Er as Er'.
  apply ite_spec in Er' as (HI4&He4&Hf4&Hr);
    [|done|done|by apply (valid_extends s2 s3)
     |apply (valid_extends s2 s3); [done|by apply (valid_extends s1 s2)]
     |by apply (no_reorder_frame s s3)].
  destruct rr as [x|e]; cycle 1.
  { rewrite (bind_err _ _ _ _ _ Er). intros [= <- <-].
    split_and!; [done|by etrans|by etrans|]. apply (benign_frame s s3); [done|apply Hr]. }
  rewrite (bind_ok _ _ _ _ _ Er).
  destruct Hr as (Hxv&_&HxD).
  intros [= <- <-].
  assert (He04 : extends s s4) by (by etrans).
  assert (He24 : extends s2 s4) by (by etrans).
  assert (HDx : ∀ a, D s4 x a = D s (Z.pos (absn f_)) (vsubst s ls a)).
  { intros a. rewrite HxD, HgD.
    rewrite (D_extends s2 s3 q) by done.
    rewrite (D_extends s2 s3 p) by first [done|by apply (valid_extends s1 s2)].
    rewrite (D_extends s1 s2 p) by done.
    rewrite HqD, HpD.
    rewrite (D_extends s s1 (t_hi t)) by done.
    rewrite (D_ext s (t_hi t) _ (vsubst s ls a))
      by (intros j; by apply vsubst_extends).
    rewrite (D_step s HI (Z.pos (absn f_)) _ t) by (by try apply valid_abs).
    rewrite bool_decide_eq_false_2 by lia. by rewrite xorb_false_l. }
  split; [done|split; [done|split; [by etrans|]]].
  split_and!.
  - by apply valid_flip.
  - intros n y Hn. destruct (decide (n = absn f_)) as [->|Hne'].
    + rewrite lookup_insert in Hn. injection Hn as <-.
      split_and!; [apply (valid_extends s s4); [done|by apply valid_abs]|done|].
      intros a. rewrite HDx.
      rewrite (D_extends s s4) by (by try apply valid_abs).
      apply D_ext. intros j. symmetry. by apply vsubst_extends.
    + rewrite lookup_insert_ne in Hn by done.
      by apply (vcache_ok_extends s2 s4 ls c2 He24 HI2 Hls2 Hc2).
  - intros a. rewrite D_flip, HDx by done. symmetry. by apply D_abs.
Qed.

(** ** (b) [_copy_bdd] *)

Lemma bind_ret {S A B} (a : A) (f : A → M S B) s : bind (ret a) f s = f a s.
Proof. reflexivity. Qed.
Lemma bind_get {S B} (f : S → M S B) s : bind get f s = f s s.
Proof. reflexivity. Qed.

(** the source assignment induced by a target assignment through the level map *)
Definition lmap (level_map : gmap nat nat) (a : nat → bool) : nat → bool :=
  fun l => match level_map !! l with Some l' => a l' | None => false end.

Definition ccache_ok (s0 s : st) (level_map : gmap nat nat)
    (cache : gmap positive Z) : Prop :=
  ∀ n x, cache !! n = Some x →
    valid s0 (Z.pos n) ∧ valid s x ∧ (0 < x)%Z ∧
    ∀ a, D s x a = D s0 (Z.pos n) (lmap level_map a).

Lemma ccache_ok_extends s0 s s' lm c :
  extends s s' → Inv s → ccache_ok s0 s lm c → ccache_ok s0 s' lm c.
Proof.
  intros He HI Hc n x Hn. destruct (Hc n x Hn) as (Hvn&Hvx&Hpos&HD).
  split_and!; [done|by apply (valid_extends s s')|done|].
  intros a. by rewrite (D_extends s s' x).
Qed.

(** levels that label a node reachable from [u] (the support is a subset) *)
Inductive occurs (s : st) : Z → nat → Prop :=
  | occ_here u t : succ s !! absn u = Some t → absn u ≠ 1%positive →
      occurs s u (t_lvl t)
  | occ_lo u t l : succ s !! absn u = Some t → absn u ≠ 1%positive →
      occurs s (t_lo t) l → occurs s u l
  | occ_hi u t l : succ s !! absn u = Some t → absn u ≠ 1%positive →
      occurs s (t_hi t) l → occurs s u l.

Lemma occurs_lt s u l : Inv s → occurs s u l → l < nvars s.
Proof.
  intros HI. induction 1 as [u t Ht Hn|u t l Ht Hn _ IH|u t l Ht Hn _ IH]; [|done..].
  by destruct (inv_node _ HI _ _ Ht Hn) as (?&_).
Qed.

(** the denotation only reads the levels that occur *)
Lemma D_indep_occ s u a b : Inv s → valid s u →
  (∀ l, occurs s u l → a l = b l) → D s u a = D s u b.
Proof.
  intros HI. remember (nvars s - lvl_of s u) as k eqn:Hk. revert u Hk.
  induction (lt_wf k) as [k _ IH]. intros u Hk Hv Hab.
  destruct (node_cases s HI u Hv) as [[E _]|(t&Ht&Hn&Hlo&Hl&?&Hvl&Hvh&?&Hll&Hlh&?)].
  - by rewrite !D_term.
  - rewrite (D_step s HI u a t), (D_step s HI u b t) by done. f_equal.
    rewrite <- (Hab (t_lvl t)) by (by apply (occ_here s u t)).
    destruct (a (t_lvl t)).
    + eapply (IH (nvars s - lvl_of s (t_hi t))); try done; [lia|].
      intros l Hl'. apply Hab. by apply (occ_hi s u t).
    + eapply (IH (nvars s - lvl_of s (t_lo t))); try done; [lia|].
      intros l Hl'. apply Hab. by apply (occ_lo s u t).
Qed.

Lemma flip_sign r u : (0 < r)%Z → u ≠ 0%Z → (0 < flip r u)%Z ↔ (0 < u)%Z.
Proof. intros. unfold flip. case_decide; lia. Qed.

Theorem copy_bdd_rec_spec_occ fuel : ∀ s0 src s u level_map cache r s',
  Inv s0 → Inv s → valid s0 u → no_reorder s →
  (src = Some s0 ∨ (src = None ∧ extends s0 s)) →
  (∀ l, occurs s0 u l → ∃ l', level_map !! l = Some l' ∧ l' < nvars s) →
  ccache_ok s0 s level_map cache →
  nvars s0 - lvl_of s0 u < fuel →
  copy_bdd_rec fuel src u level_map cache s = (r, s') →
  Inv s' ∧ extends s s' ∧ frame s s' ∧
  match r with
  | Ok (x, cache') => valid s' x ∧ ccache_ok s0 s' level_map cache' ∧
        ((0 < x)%Z ↔ (0 < u)%Z) ∧
        ∀ a, D s' x a = D s0 u (lmap level_map a)
  | Err e => benign s e
  end.
Proof.
  induction fuel as [|fu IH];
    intros s0 src s u lm cache r s' HI0 HI Hu Hnr Hsrc Hlm Hc Hfuel; [lia|].
  cbn [copy_bdd_rec].
  destruct (decide (absn u = 1%positive ∧ u ≠ 0%Z)) as [[E1 _]|Hnt].
  { intros [= <- <-]. split; [done|split; [reflexivity|split; [reflexivity|]]].
    split_and!; [|done|done|].
    - destruct (absn_1 u E1 (proj1 Hu)) as [->| ->]; [by apply valid_1|by apply valid_m1].
    - intros a. by rewrite !D_term. }
  rewrite decide_False by apply Hu.
  assert (Hn1 : absn u ≠ 1%positive) by (intros E; apply Hnt; split; [done|apply Hu]).
  destruct (cache !! absn u) as [x|] eqn:Ec.
  { destruct (Hc _ _ Ec) as (Hvn&Hvx&Hxp&HDx).
    assert (Hx0 : bool_decide (0 < x)%Z = true) by (by apply bool_decide_eq_true_2).
    rewrite (bind_ok _ _ s tt s (assert_true _ _ Hx0)).
    intros [= <- <-]. split; [done|split; [reflexivity|split; [reflexivity|]]].
    split_and!; [by apply valid_flip|done|apply flip_sign; [done|apply Hu]|].
    intros a. rewrite D_flip, HDx by done. symmetry. by apply D_abs. }
  destruct (node_cases s0 HI0 u Hu) as [[E _]|(t&Ht&_&Hlo&Hl&Hln&Hvl&Hvh&Hhp&Hll&Hlh&Hne)]; [done|].
  rewrite bind_get.
  assert (Hold : succ (default s src) !! absn u = Some t).
  { destruct Hsrc as [->|[-> He0]]; [done|]. cbn [default].
    destruct He0 as (Hsub&_). by apply (lookup_weaken _ _ _ _ Ht Hsub). }
  rewrite Hold. cbn [of_opt]. rewrite bind_ret. clear Hold.
  assert (Hnt' : negb (is_term t) = true)
    by (unfold is_term; by rewrite bool_decide_eq_false_2).
  rewrite (bind_ok _ _ s tt s (assert_true _ _ Hnt')).
  (* low branch *)
  destruct (copy_bdd_rec fu src (t_lo t) lm cache s) as [rp s1] eqn:Ep.
  pose proof Ep as Ep'.
  apply (IH s0) in Ep' as (HI1&He1&Hf1&Hp); [|done|done|done|done|done| |done|lia];
    cycle 1.
  { intros l Hocc. apply Hlm. by apply (occ_lo s0 u t). }
  destruct rp as [[p c1]|e]; cycle 1.
  { rewrite (bind_err _ _ _ _ _ Ep). intros [= <- <-].
    by split_and!. }
  rewrite (bind_ok _ _ _ _ _ Ep). cbv beta iota.
  destruct Hp as (Hpv&Hc1&Hps&HpD).
  assert (Hnv1 : nvars s1 = nvars s) by (by apply extends_nvars).
  (* high branch, in the extended manager *)
  destruct (copy_bdd_rec fu src (t_hi t) lm c1 s1) as [rq s2] eqn:Eq.
  pose proof Eq as Eq'.
  apply (IH s0) in Eq' as (HI2&He2&Hf2&Hq);
    [|done|done|done|by apply (no_reorder_frame s s1)| | |done|lia]; cycle 1.
  { destruct Hsrc as [?|[? ?]]; [by left|right]. split; [done|by etrans]. }
  { intros l Hocc. rewrite Hnv1. apply Hlm. by apply (occ_hi s0 u t). }
  destruct rq as [[q c2]|e]; cycle 1.
  { rewrite (bind_err _ _ _ _ _ Eq). intros [= <- <-].
    split_and!; [done|by etrans|by etrans|]. apply (benign_frame s s1); [done|apply Hq]. }
  rewrite (bind_ok _ _ _ _ _ Eq). cbv beta iota.
  destruct Hq as (Hqv&Hc2&Hqs&HqD).
  assert (He02 : extends s s2) by (by etrans).
  assert (Hfr02 : frame s s2) by (by etrans).
  assert (Hnv2 : nvars s2 = nvars s) by (by apply extends_nvars).
  (* the three assertions on signs never fire *)
  assert (Hp0 : p ≠ 0%Z) by apply Hpv.
  assert (Ha1 : bool_decide (0 < p * t_lo t)%Z = true).
  { apply bool_decide_eq_true_2.
    destruct (decide (0 < t_lo t)%Z) as [Hpos|Hneg].
    - apply Z.mul_pos_pos; [by apply Hps|done].
    - apply Z.mul_neg_neg; [|lia].
      destruct (decide (0 < p)%Z) as [Hpp|?]; [|lia]. apply Hps in Hpp. lia. }
  rewrite (bind_ok _ _ s2 tt s2 (assert_true _ _ Ha1)).
  assert (Hqp : (0 < q)%Z) by (by apply Hqs).
  assert (Ha2 : bool_decide (0 < q)%Z = true) by (by apply bool_decide_eq_true_2).
  rewrite (bind_ok _ _ s2 tt s2 (assert_true _ _ Ha2)).
  (* the new level *)
  destruct (Hlm (t_lvl t)) as (j&Ej&Hj); [by apply (occ_here s0 u t)|].
  rewrite Ej. cbn [of_opt]. rewrite bind_ret.
  destruct (find_or_add j (-1) 1 s2) as [rg s3] eqn:Eg.
  pose proof Eg as Eg'.
  apply find_or_add_spec in Eg' as (HI3&He3&Hf3&Hg);
    [|done|by apply valid_m1|by apply valid_1
     |rewrite (lvl_term s2 HI2) by done; lia
     |rewrite (lvl_term s2 HI2) by done; lia].
  destruct rg as [g|e]; cycle 1.
  { rewrite (bind_err _ _ _ _ _ Eg). intros [= <- <-].
    split_and!; [done|by etrans|by etrans|]. apply (benign_frame s s2); [done|apply Hg]. }
  rewrite (bind_ok _ _ _ _ _ Eg).
  destruct Hg as (Hgv&_&HgD0).
  assert (HgD : ∀ a, D s3 g a = a j).
  { intros a. rewrite HgD0, D_1, D_m1 by done. by destruct (a j). }
  clear HgD0.
  assert (He03 : extends s s3) by (by etrans).
  assert (Hfr03 : frame s s3) by (by etrans).
  assert (Hqv3 : valid s3 q) by (by apply (valid_extends s2 s3)).
  assert (Hpv2 : valid s2 p) by (by apply (valid_extends s1 s2)).
  assert (Hpv3 : valid s3 p) by (by apply (valid_extends s2 s3)).
  (* the if-then-else *)
  destruct (ite g q p s3) as [rr s4] eqn:Er.
  pose proof Er as Er'.
  apply ite_spec in Er' as (HI4&He4&Hf4&Hr);
    [|done|done|done|done|by apply (no_reorder_frame s s3)].
  destruct rr as [x|e]; cycle 1.
  { rewrite (bind_err _ _ _ _ _ Er). intros [= <- <-].
    split_and!; [done|by etrans|by etrans|]. apply (benign_frame s s3); [done|apply Hr]. }
  rewrite (bind_ok _ _ _ _ _ Er).
  destruct Hr as (Hxv&_&HxD0).
  assert (HxD1 : ∀ a, D s4 x a = if a j then D s2 q a else D s1 p a).
  { intros a. rewrite HxD0, HgD.
    by rewrite (D_extends s2 s3 q), (D_extends s2 s3 p), (D_extends s1 s2 p). }
  clear HxD0.
  assert (Hxp : (0 < x)%Z).
  { pose proof (D_all_true s4 HI4 x Hxv) as HT. rewrite HxD1 in HT.
    rewrite (D_all_true s2 HI2 q Hqv), Ha2 in HT.
    symmetry in HT. by apply bool_decide_eq_true_1 in HT. }
  assert (Ha3 : bool_decide (0 < x)%Z = true) by (by apply bool_decide_eq_true_2).
  rewrite (bind_ok _ _ s4 tt s4 (assert_true _ _ Ha3)).
  intros [= <- <-].
  assert (He24 : extends s2 s4) by (by etrans).
  assert (HDx : ∀ a, D s4 x a = D s0 (Z.pos (absn u)) (lmap lm a)).
  { intros a. rewrite HxD1, HqD, HpD.
    rewrite (D_step s0 HI0 (Z.pos (absn u)) _ t) by (by try apply valid_abs).
    rewrite bool_decide_eq_false_2 by lia. rewrite xorb_false_l.
    unfold lmap at 3. by rewrite Ej. }
  split; [done|split; [by etrans|split; [by etrans|]]].
  split_and!.
  - by apply valid_flip.
  - intros n y Hn. destruct (decide (n = absn u)) as [->|Hne'].
    + rewrite lookup_insert in Hn. injection Hn as <-.
      split_and!; [by apply valid_abs|done|done|done].
    + rewrite lookup_insert_ne in Hn by done.
      by apply (ccache_ok_extends s0 s2 s4 lm c2 He24 HI2 Hc2).
  - apply flip_sign; [done|apply Hu].
  - intros a. rewrite D_flip, HDx by done. symmetry. by apply D_abs.
Qed.

(** the version whose level map is total on the declared source levels *)
Theorem copy_bdd_rec_spec fuel : ∀ s0 src s u level_map cache r s',
  Inv s0 → Inv s → valid s0 u → no_reorder s →
  (src = Some s0 ∨ (src = None ∧ extends s0 s)) →
  (∀ l, l < nvars s0 → ∃ l', level_map !! l = Some l' ∧ l' < nvars s) →
  ccache_ok s0 s level_map cache →
  nvars s0 - lvl_of s0 u < fuel →
  copy_bdd_rec fuel src u level_map cache s = (r, s') →
  Inv s' ∧ extends s s' ∧ frame s s' ∧
  match r with
  | Ok (x, cache') => valid s' x ∧ ccache_ok s0 s' level_map cache' ∧
        ((0 < x)%Z ↔ (0 < u)%Z) ∧
        ∀ a, D s' x a = D s0 u (lmap level_map a)
  | Err e => benign s e
  end.
Proof.
  intros s0 src s u lm cache r s' HI0 HI Hu Hnr Hsrc Hlm.
  apply (copy_bdd_rec_spec_occ fuel s0 src s u lm cache r s'); try done.
  intros l Hocc. apply Hlm. by apply (occurs_lt s0 u).
Qed.

(** ** Level maps built from the variable tables *)

(** [{m[v] : h(v) for v in m if h(v) defined}] for an injective [m] *)
Lemma level_map_lookup (m : gmap nat nat) (h : nat → option nat)
    (G : nat * nat → option (nat * nat)) l l' :
  (∀ v k, G (v, k) = (fun k' => (k, k')) <$> h v) →
  (∀ v1 v2 k, m !! v1 = Some k → m !! v2 = Some k → v1 = v2) →
  (list_to_map (omap G (map_to_list m)) : gmap nat nat) !! l = Some l' ↔
  ∃ v, m !! v = Some l ∧ h v = Some l'.
Proof.
  intros HG Hinj.
  assert (Hel : ∀ k k', (k, k') ∈ omap G (map_to_list m) ↔
                        ∃ v, m !! v = Some k ∧ h v = Some k').
  { intros k k'. rewrite elem_of_list_omap. split.
    - intros ([v k0]&Hin&HGx). apply elem_of_map_to_list in Hin.
      rewrite HG in HGx. destruct (h v) as [k1|] eqn:Eh; [|done].
      injection HGx as -> ->. by exists v.
    - intros (v&Hv&Hh). exists (v, k). split; [by apply elem_of_map_to_list|].
      by rewrite HG, Hh. }
  split.
  - intros Hl. apply elem_of_list_to_map_2 in Hl. by apply Hel.
  - intros Hex. apply elem_of_list_to_map_1'; [|by apply Hel].
    intros y Hy. apply Hel in Hy as (v2&Hv2&Hh2). destruct Hex as (v1&Hv1&Hh1).
    assert (v1 = v2) as -> by (by eapply Hinj). congruence.
Qed.

Lemma vars_inj s v1 v2 k : Inv s →
  vars s !! v1 = Some k → vars s !! v2 = Some k → v1 = v2.
Proof.
  intros HI H1 H2. apply (inv_vars _ HI) in H1, H2. congruence.
Qed.

(** a declared level has a name, and a declared name a level below [nvars] *)
Lemma level_name s l : Inv s → l < nvars s → ∃ v, vars s !! v = Some l.
Proof.
  intros HI Hl. apply (inv_lvls _ HI) in Hl as [v Hv]. exists v.
  by apply (inv_vars _ HI).
Qed.
Lemma name_level s v l : Inv s → vars s !! v = Some l → l < nvars s.
Proof.
  intros HI Hv. apply (inv_lvls _ HI). exists v. by apply (inv_vars _ HI).
Qed.

(** ** [rename] *)

(** the level map that [rename] builds: level of [v] ↦ level of
    [dvars.get(v, v)], the last binding of a name in [dvars] wins *)
Definition rename_level_list (s : st) (dvars : list (nat * nat)) : list (nat * nat) :=
  let d : gmap nat nat := list_to_map (reverse dvars) in
  omap (fun '(var, l) => (fun l' => (l, l')) <$> vars s !! default var (d !! var))
       (map_to_list (vars s)).
Definition rename_level_map (s : st) (dvars : list (nat * nat)) : gmap nat nat :=
  list_to_map (rename_level_list s dvars).

Lemma rename_level_map_spec s dvars l l' : Inv s →
  rename_level_map s dvars !! l = Some l' ↔
  ∃ v, vars s !! v = Some l ∧
       vars s !! default v ((list_to_map (reverse dvars) : gmap nat nat) !! v) = Some l'.
Proof.
  intros HI. unfold rename_level_map, rename_level_list. cbv zeta.
  apply (level_map_lookup (vars s)
    (fun v => vars s !! default v ((list_to_map (reverse dvars) : gmap nat nat) !! v))).
  - done.
  - intros v1 v2 k. by apply vars_inj.
Qed.

(** the [mapM] of [rename_] cannot fail when the targets are declared *)
Lemma rename_mapM_ok (m d : gmap nat nat) (L : list (nat * nat)) (s : st) :
  (∀ var l, (var, l) ∈ L → is_Some (m !! default var (d !! var))) →
  mapM (fun '(var, l) =>
          l' <- of_opt EKey (m !! default var (d !! var)) ;; ret (l, l')) L s
  = (Ok (omap (fun '(var, l) => (fun l' => (l, l')) <$> m !! default var (d !! var)) L), s).
Proof.
  induction L as [|[var l] L IH]; intros H; [done|].
  destruct (H var l) as [l' El]; [by left|].
  cbn [mapM]. rewrite El. cbn [of_opt].
  assert (E1 : bind (S:=st) (ret l') (fun l'0 => ret (l, l'0)) s = (Ok (l, l'), s))
    by reflexivity.
  rewrite (bind_ok _ _ _ _ _ E1).
  rewrite (bind_ok _ _ _ _ _ (IH (fun v k Hin => H v k (elem_of_list_further _ _ _ Hin)))).
  cbv beta. unfold ret. do 2 f_equal.
  change (omap ?f ((var, l) :: L)) with
    (match f (var, l) with Some y => y :: omap f L | None => omap f L end).
  cbv beta iota. by rewrite El.
Qed.

Theorem rename_spec s u dvars r s' :
  Inv s → valid s u → last_len s = None → max_nodes s = None →
  rename u dvars s = (r, s') →
  (∀ x y, (x, y) ∈ dvars → is_Some (vars s !! y)) →
  ∃ x, r = Ok x ∧ Inv s' ∧ extends s s' ∧ valid s' x ∧
    ∀ a, D s' x a = D s u (lmap (rename_level_map s dvars) a).
Proof.
  intros HI Hu Hoff Hmx Hrun Hdecl. unfold rename in Hrun.
  apply try_to_reorder_inert in Hrun as (r1&s1&Hrun&Hcase).
  set (s0 := s <| rctx := true |>) in *.
  assert (HI0 : Inv s0) by (by apply Inv_rctx).
  assert (Hu0 : valid s0 u) by done.
  (* every name is renamed to a declared name *)
  assert (Hall : ∀ var l, vars s !! var = Some l →
            is_Some (vars s !! default var
                       ((list_to_map (reverse dvars) : gmap nat nat) !! var))).
  { intros var l Hv.
    destruct ((list_to_map (reverse dvars) : gmap nat nat) !! var) as [y|] eqn:Ed;
      simpl; [|by eexists].
    apply (Hdecl var). apply elem_of_list_to_map_2 in Ed.
    by rewrite elem_of_reverse in Ed. }
  (* so the level map is total on the declared levels *)
  assert (Htot : ∀ l, l < nvars s0 →
            ∃ l', rename_level_map s dvars !! l = Some l' ∧ l' < nvars s0).
  { intros l Hl. destruct (level_name s l HI Hl) as (v&Hv).
    destruct (Hall v l Hv) as [l' Hl']. exists l'. split.
    - apply rename_level_map_spec; [done|]. by exists v.
    - exact (name_level s _ l' HI Hl'). }
  unfold rename_ in Hrun. rewrite bind_get in Hrun.
  assert (Hm : ensure (S:=st) EValue (mem u s0) s0 = (Ok tt, s0)).
  { unfold ensure. by rewrite (proj2 (mem_valid s0 u) Hu0). }
  rewrite (bind_ok _ _ _ _ _ Hm) in Hrun.
  assert (Hid : dvars = [] → ∀ a, D s u a = D s u (lmap (rename_level_map s dvars) a)).
  { intros -> a. apply D_indep_lt; [done|done|]. intros j Hj.
    destruct (level_name s j HI Hj) as (v&Hv). unfold lmap.
    rewrite (proj2 (rename_level_map_spec s [] j j HI)); [done|].
    exists v. split; [done|].
    change (list_to_map (reverse [])) with (∅ : gmap nat nat). by rewrite lookup_empty. }
  destruct dvars as [|xy dv] eqn:Edv.
  { unfold ret in Hrun. injection Hrun as <- <-.
    destruct Hcase as [[? _]|[-> ->]]; [done|]. exists u.
    split_and!; [done|by apply Inv_rctx|done|done|].
    intros a. rewrite <- Hid by done. by apply D_same. }
  rewrite <- Edv in *. clear Hid.
  assert (Hrun' : bind (copy_bdd_rec (S (S (nvars s0))) None u (rename_level_map s dvars) ∅)
                       (fun r => ret (fst r)) s0 = (r1, s1)).
  { rewrite <- Hrun. change (vars s0) with (vars s).
    rewrite (bind_ok _ _ _ _ _ (rename_mapM_ok (vars s) (list_to_map (reverse dvars))
       (map_to_list (vars s)) s0
       (fun v l Hin => Hall v l (proj1 (elem_of_map_to_list _ _ _) Hin)))).
    done. }
  clear Hrun.
  destruct (copy_bdd_rec (S (S (nvars s0))) None u (rename_level_map s dvars) ∅ s0)
    as [rc s2] eqn:Ec.
  pose proof Ec as Ec'.
  apply (copy_bdd_rec_spec _ s0) in Ec' as (HI2&He2&Hf2&Hr);
    [|done|done|done|by left|by right|done|done|lia].
  destruct rc as [[x c]|e]; cycle 1.
  { by destruct (benign_never s0 e Hoff Hmx). }
  rewrite (bind_ok _ _ _ _ _ Ec) in Hrun'. unfold ret in Hrun'. injection Hrun' as <- <-.
  destruct Hcase as [[? _]|[-> ->]]; [done|].
  destruct Hr as (Hxv&_&_&HxD). exists x.
  split_and!; [done|by apply Inv_rctx|done|done|].
  intros a. rewrite D_rctx, HxD. by apply D_same.
Qed.

(** ** [copy_bdd] between two managers *)

Lemma copy_level_map_spec src s l l' : Inv src →
  copy_level_map src s !! l = Some l' ↔
  ∃ v, vars src !! v = Some l ∧ vars s !! v = Some l'.
Proof.
  intros HI. unfold copy_level_map.
  apply (level_map_lookup (vars src) (fun v => vars s !! v)).
  - intros v k. by destruct (vars s !! v).
  - intros v1 v2 k. by apply vars_inj.
Qed.

(** only the variables in the support of [u] need to be declared in the target *)
Theorem copy_bdd_spec_occ src s u r s' :
  Inv src → Inv s → valid src u → last_len s = None → max_nodes s = None →
  (∀ v l, vars src !! v = Some l → occurs src u l → is_Some (vars s !! v)) →
  copy_bdd src u s = (r, s') →
  ∃ x, r = Ok x ∧ Inv s' ∧ extends s s' ∧ valid s' x ∧
    ∀ ρ, denv s' x ρ = denv src u ρ.
Proof.
  intros HIs HI Hu Hoff Hmx Hdecl Hrun. unfold copy_bdd in Hrun. rewrite bind_get in Hrun.
  set (lm := copy_level_map src s) in *.
  (* a level that occurs is mapped to the level of the same name *)
  assert (Hlm : ∀ l, occurs src u l → ∃ v l', vars src !! v = Some l ∧
            vars s !! v = Some l' ∧ lm !! l = Some l' ∧ l' < nvars s).
  { intros l Hocc. pose proof (occurs_lt src u l HIs Hocc) as Hl.
    destruct (level_name src l HIs Hl) as (v&Hv).
    destruct (Hdecl v l Hv Hocc) as [l' Hl']. exists v, l'.
    split_and!; [done|done| |by apply (name_level s v)].
    apply copy_level_map_spec; [done|]. by exists v. }
  destruct (copy_bdd_rec (S (S (nvars src))) (Some src) u lm ∅ s) as [rc s2] eqn:Ec.
  pose proof Ec as Ec'.
  apply (copy_bdd_rec_spec_occ _ src) in Ec' as (HI2&He2&Hf2&Hr);
    [|done|done|done|by right|by left| |done|lia]; cycle 1.
  { intros l Hocc. destruct (Hlm l Hocc) as (v&l'&_&_&?&?). by exists l'. }
  destruct rc as [[x c]|e]; cycle 1.
  { by destruct (benign_never s e Hoff Hmx). }
  rewrite (bind_ok _ _ _ _ _ Ec) in Hrun. unfold ret in Hrun. injection Hrun as <- <-.
  destruct Hr as (Hxv&_&_&HxD). exists x. split_and!; try done.
  intros ρ. unfold denv. rewrite HxD. apply D_indep_occ; [done|done|].
  intros l Hocc. destruct (Hlm l Hocc) as (v&l'&Hv&Hv'&El&_).
  unfold lmap. rewrite El.
  destruct He2 as (_&_&<-).
  apply (inv_vars _ HI) in Hv'. apply (inv_vars _ HIs) in Hv. by rewrite Hv, Hv'.
Qed.

Theorem copy_bdd_spec src s u r s' :
  Inv src → Inv s → valid src u → last_len s = None → max_nodes s = None →
  (∀ v l, vars src !! v = Some l → is_Some (vars s !! v)) →
  copy_bdd src u s = (r, s') →
  ∃ x, r = Ok x ∧ Inv s' ∧ extends s s' ∧ valid s' x ∧
    ∀ ρ, denv s' x ρ = denv src u ρ.
Proof.
  intros HIs HI Hu Hoff Hmx Hdecl. apply copy_bdd_spec_occ; try done.
  intros v l Hv _. by apply (Hdecl v l).
Qed.
