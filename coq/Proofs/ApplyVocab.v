(** * ApplyVocab: the generated operator table of dd/bdd.py against the
      documented connectives (finite, re-checked whenever the source changes) *)
From DD Require Export Apply.
From DD Require Export Generated.PyApply.
Local Open Scope string_scope.

Definition py_vocab : list string := py_unary ++ py_binary ++ py_ternary.
Definition quantifier_ops : list string := ["\A"; "forall"; "\E"; "exists"].

(** the code's table is the table the model interprets *)
Lemma py_table_is_model_table :
  py_apply_table = apply_table ∧ py_unary = unary_ops ∧
  py_binary = binary_ops ∧ py_ternary = ternary_ops.
Proof. by vm_compute. Qed.

(** [assert_operator_arity] as translated rejects exactly what [arity_ok] rejects *)
Definition py_arity_ok (op : string) (v w : option Z) : bool :=
  let cond c := match c with
                | VNotNone => bool_decide (v ≠ None) | WNotNone => bool_decide (w ≠ None)
                | VNone => bool_decide (v = None) | WNone => bool_decide (w = None)
                end in
  let rejected k := match list_find (fun kc => bool_decide (kc.1 = k)) py_arity with
                    | Some (_, (_, cs)) => existsb cond cs
                    | None => true
                    end in
  if bool_decide (op ∈ py_vocab) then
    if bool_decide (op ∈ py_unary) then negb (rejected "unary")
    else if bool_decide (op ∈ py_binary) then negb (rejected "binary")
    else if bool_decide (op ∈ py_ternary) then negb (rejected "ternary")
    else true
  else false.

(** on every symbol of the vocabulary (and an unknown one) and every shape of
    the optional operands *)
Lemma py_arity_is_model_arity :
  forallb (fun op => forallb (fun '(v, w) =>
             bool_decide (py_arity_ok op v w = arity_ok op v w))
           [(None, None); (Some 1%Z, None); (None, Some 1%Z); (Some 1%Z, Some 1%Z)])
          ("unknown" :: py_vocab) = true.
Proof. by vm_compute. Qed.

Lemma alias_table_ok :
  forallb (fun op => bool_decide (op ∈ quantifier_ops) ||
                     class_uses_ok py_apply_table py_unary py_binary py_ternary op)
          py_vocab = true.
Proof. by vm_compute. Qed.

Lemma quantifier_rows_ok :
  forallb (fun op => bool_decide (find_template py_apply_table op =
             Some (TQuant (bool_decide (op ∈ ["\A"; "forall"])) OU OV)))
          quantifier_ops = true.
Proof. by vm_compute. Qed.
