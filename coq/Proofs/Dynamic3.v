(** * Dynamic3: the decorator theorems of [Dynamic]/[Dynamic2] without the
      premise (sifting is proved: [Sift9.sifting_ok'_holds]), without the
      oracle alternative when the tape is empty (the literal code), and a
      history theorem for dd.bdd with dynamic reordering ENABLED. *)
From DD Require Export Dynamic2 Sift9.
From DD Require Import C01proof.
Local Open Scope string_scope.

(** ** 1. The operations never touch the oracle tape ([Sift7.nt]) *)
Ltac ntx_step :=
  lazymatch goal with
  | |- nt (ret _) => apply nt_ret
  | |- nt (raise _) => apply nt_raise; discriminate
  | |- nt get => apply nt_get
  | |- nt (modify _) => apply nt_modify; intros; reflexivity
  | |- nt (assert _) => apply nt_assert
  | |- nt (ensure _ _) => apply nt_ensure; discriminate
  | |- nt (of_opt _ _) => apply nt_of_opt; discriminate
  | |- nt (getsucc _) => apply nt_getsucc
  | |- nt (getref _) => apply nt_getref
  | |- nt (getsuccZ _) => apply nt_getsuccZ
  | |- nt (level_of _) => apply nt_level_of
  | |- nt (level_of_var _) => apply nt_level_of_var
  | |- nt (var_at_level _) => apply nt_var_at_level
  | |- nt (find_or_add _ _ _) => apply nt_find_or_add
  | |- nt (incref _) => apply nt_incref
  | |- nt (decref _) => apply nt_decref
  | |- nt (ref _) => apply nt_ref
  | |- nt (bind _ _) => apply nt_bind; [|intros ?]
  | |- nt (forM _ _) => apply nt_forM; intros ?
  | |- nt (mapM _ _) => apply nt_mapM; intros ?
  | |- nt (foldM _ _ _) => apply nt_foldM; intros ? ?
  | |- nt (if decide _ then _ else _) => case_decide
  | |- nt (if ?b then _ else _) => destruct b
  | |- nt (match ?x with _ => _ end) => destruct x
  | |- nt (let '(_, _) := ?x in _) => destruct x
  end.
Ltac ntx := repeat first [assumption | ntx_step].

Lemma nt_top_cofactor u i : nt (top_cofactor u i).
Proof. unfold top_cofactor. ntx. Qed.
Lemma nt_ite_rec fuel : ∀ g u v, nt (ite_rec fuel g u v).
Proof.
  induction fuel as [|f IH]; intros g u v; cbn [ite_rec]; [by apply nt_raise|].
  ntx; first [apply nt_top_cofactor | apply IH].
Qed.
Lemma nt_ite_ g u v : nt (ite_ g u v).
Proof. unfold ite_. ntx. apply nt_ite_rec. Qed.

(** the decorator: sifting with an empty tape raises no oracle error *)
Lemma nt_try_to_reorder {A} (func : MS A) : nt func → nt (try_to_reorder func).
Proof.
  intros Hf s r s' Ht. unfold try_to_reorder. cbn [bind get modify].
  unfold bind at 1, catch at 1.
  destruct (func (s <| rctx := true |>)) as [r1 s1] eqn:E1.
  assert (Ht0 : tape (s <| rctx := true |>) = []) by done.
  destruct (Hf _ _ _ Ht0 E1) as [Ht1 Hr1].
  cbn [bind modify]. destruct r1 as [a|e].
  { unfold ret. by intros [= <- <-]. }
  case_decide as Hd; cycle 1.
  { unfold raise. by intros [= <- <-]. }
  cbn [bind modify].
  set (s2 := s1 <| rctx := rctx s |> <| last_len := None |>).
  destruct (reorder None s2) as [r3 s3] eqn:E3.
  destruct (nt_reorder None s2 r3 s3 Ht1 E3) as [Ht3 Hr3].
  destruct r3 as [[]|e3]; cycle 1.
  { rewrite (bind_err _ _ _ _ _ E3). intros [= <- <-]. split; [done|].
    intros [= ->]. by apply Hr3. }
  rewrite (bind_ok _ _ _ _ _ E3). cbn [bind get modify].
  unfold bind at 1, catch at 1.
  destruct (func (s3 <| rctx := true |>)) as [r4 s4] eqn:E4.
  assert (Ht3' : tape (s3 <| rctx := true |>) = []) by done.
  destruct (Hf _ _ _ Ht3' E4) as [Ht4 Hr4].
  cbn [bind modify]. destruct r4 as [a|e4]; cbn [reraise]; unfold ret, raise;
    by intros [= <- <-].
Qed.

Lemma nt_ite g u v : nt (ite g u v).
Proof. apply nt_try_to_reorder, nt_ite_. Qed.
Lemma nt_var name : nt (var name).
Proof. unfold var. apply nt_try_to_reorder. ntx. Qed.
Lemma nt_support_rec fuel : ∀ u acc, nt (support_rec fuel u acc).
Proof.
  induction fuel as [|f IH]; intros u acc; cbn [support_rec]; [by apply nt_raise|].
  ntx; apply IH.
Qed.
Lemma nt_support u : nt (support u).
Proof. unfold support, support_levels. ntx. apply nt_support_rec. Qed.
Lemma nt_is_essential_rec fuel : ∀ u i, nt (is_essential_rec fuel u i).
Proof.
  induction fuel as [|f IH]; intros u i; cbn [is_essential_rec]; [by apply nt_raise|].
  ntx; apply IH.
Qed.
Lemma nt_is_essential u v : nt (is_essential u v).
Proof. unfold is_essential. ntx. apply nt_is_essential_rec. Qed.
Lemma nt_map_key bn first k : nt (map_key bn first k).
Proof. unfold map_key. ntx. destruct first; by apply nt_raise. Qed.
Lemma nt_map_to_level_set bn ks : nt (map_to_level_set bn ks).
Proof. unfold map_to_level_set. ntx; apply nt_map_key. Qed.
Lemma nt_map_to_level_dict {A} bn (kv : list (nat * A)) : nt (map_to_level_dict bn kv).
Proof. unfold map_to_level_dict. ntx; apply nt_map_key. Qed.
Lemma nt_quantify_rec fuel : ∀ u ord q fa cache, nt (quantify_rec fuel u ord q fa cache).
Proof.
  induction fuel as [|f IH]; intros u ord q fa cache; cbn [quantify_rec];
    [by apply nt_raise|].
  ntx; first [apply IH | apply nt_ite].
Qed.
Lemma nt_quantify u bn qvars fa : nt (quantify u bn qvars fa).
Proof.
  unfold quantify. apply nt_try_to_reorder.
  ntx; [apply nt_map_to_level_set|apply nt_quantify_rec].
Qed.
Lemma nt_cofactor_rec fuel : ∀ u ord values cache, nt (cofactor_rec fuel u ord values cache).
Proof.
  induction fuel as [|f IH]; intros u ord values cache; cbn [cofactor_rec];
    [by apply nt_raise|].
  ntx; apply IH.
Qed.
Lemma nt_cofactor u bn values : nt (cofactor u bn values).
Proof.
  unfold cofactor. apply nt_try_to_reorder.
  ntx; [apply nt_map_to_level_dict|apply nt_cofactor_rec].
Qed.
Lemma nt_compose_rec fuel : ∀ f_ j g cache, nt (compose_rec fuel f_ j g cache).
Proof.
  induction fuel as [|f IH]; intros f_ j g cache; cbn [compose_rec];
    [by apply nt_raise|].
  ntx; first [apply IH | apply nt_ite | apply nt_top_cofactor].
Qed.
Lemma nt_vector_compose_rec fuel : ∀ f_ ls cache, nt (vector_compose_rec fuel f_ ls cache).
Proof.
  induction fuel as [|f IH]; intros f_ ls cache; cbn [vector_compose_rec];
    [by apply nt_raise|].
  ntx; first [apply IH | apply nt_ite].
Qed.
Lemma nt_compose f_ var_sub : nt (compose f_ var_sub).
Proof.
  unfold compose. apply nt_try_to_reorder.
  ntx; first [apply nt_compose_rec | apply nt_vector_compose_rec].
Qed.
Lemma nt_copy_bdd_rec fuel : ∀ src u lm cache, nt (copy_bdd_rec fuel src u lm cache).
Proof.
  induction fuel as [|f IH]; intros src u lm cache; cbn [copy_bdd_rec];
    [by apply nt_raise|].
  ntx; first [apply IH | apply nt_ite].
Qed.
Lemma nt_rename_ u dvars : nt (rename_ u dvars).
Proof. unfold rename_. ntx; apply nt_copy_bdd_rec. Qed.
Lemma nt_rename u dvars : nt (rename u dvars).
Proof. apply nt_try_to_reorder, nt_rename_. Qed.
Lemma nt_apply_with tbl op u v w : nt (apply_with tbl op u v w).
Proof.
  unfold apply_with. ntx; first [apply nt_ite | apply nt_support | apply nt_quantify].
Qed.
Lemma nt_apply op u v w : nt (apply op u v w).
Proof. apply nt_apply_with. Qed.
Lemma nt_cube dvars : nt (cube dvars).
Proof. unfold cube. apply nt_try_to_reorder. ntx; [apply nt_var|apply nt_apply]. Qed.
Lemma nt_let d u : nt (let_ d u).
Proof.
  unfold let_. destruct d as [[|]|[|]|[|]]; try apply nt_ret;
    [apply nt_cofactor|apply nt_compose|apply nt_rename].
Qed.

(** ** 2. The decorator without premise and without the oracle alternative *)
Theorem try_to_reorder_correct_notape {A} (func : MS A) Pre Post s L r s' :
  op_spec func (heldn L) Pre Post → nt func →
  Inv s → Counts s L → Pre s → rctx s = false → tape s = [] →
  try_to_reorder func s = (r, s') →
  ∃ a, r = Ok a ∧ Inv s' ∧ Counts s' L ∧ rctx s' = false ∧ tape s' = [] ∧
       (last_len s = None → last_len s' = None) ∧
       (is_Some (last_len s) → is_Some (last_len s')) ∧
       keeps (heldn L) s s' ∧ Post s a s'.
Proof.
  intros Hop Hnt HI HC HP Hc Ht Hrun.
  destruct (nt_try_to_reorder func Hnt s r s' Ht Hrun) as [Ht' Hne].
  destruct (try_to_reorder_correct func Pre Post s L r s' sifting_ok'_holds Hop HI HC HP Hc Hrun)
    as [->|(a&->&?&?&?&?&?&?&?)]; [done|].
  exists a. by split_and!.
Qed.

(** removing the oracle alternative from a proved disjunction *)
Lemma no_oracle {A} (m : MS A) s r s' (P : Prop) :
  nt m → tape s = [] → m s = (r, s') → (r = Err EOracle ∨ P) → P ∧ tape s' = [].
Proof.
  intros Hnt Ht Hrun H. destruct (Hnt s r s' Ht Hrun) as [Ht' Hne].
  by destruct H as [->|?].
Qed.

Section notape.
Context (s : st) (L : positive → nat) (HI : Inv s) (HC : Counts s L)
        (Hc : rctx s = false) (Ht : tape s = []).

Theorem ite_notape g u v r s' :
  valid s g → valid s u → valid s v →
  heldn L (absn g) → heldn L (absn u) → heldn L (absn v) →
  ite g u v s = (r, s') →
  (∃ w, r = Ok w ∧ Inv s' ∧ Counts s' L ∧ rctx s' = false ∧
        (last_len s = None → last_len s' = None) ∧
        (is_Some (last_len s) → is_Some (last_len s')) ∧
        keeps (heldn L) s s' ∧ valid s' w ∧
        ∀ ρ, denv s' w ρ = if denv s g ρ then denv s u ρ else denv s v ρ) ∧
  tape s' = [].
Proof.
  intros. apply (no_oracle (ite g u v) s r s'); [apply nt_ite|done|done|].
  by apply (ite_dynamic s L g u v r s' sifting_ok'_holds).
Qed.

Theorem var_notape name r s' :
  is_Some (vars s !! name) →
  var name s = (r, s') →
  (∃ w, r = Ok w ∧ Inv s' ∧ Counts s' L ∧ rctx s' = false ∧
        (last_len s = None → last_len s' = None) ∧
        (is_Some (last_len s) → is_Some (last_len s')) ∧
        keeps (heldn L) s s' ∧ valid s' w ∧ ∀ ρ, denv s' w ρ = ρ name) ∧
  tape s' = [].
Proof.
  intros. apply (no_oracle (var name) s r s'); [apply nt_var|done|done|].
  by apply (var_dynamic s L name r s' sifting_ok'_holds).
Qed.

Theorem apply_notape op u v w r s' f :
  op ∈ py_vocab → conn_sem op = Some f →
  valid s u → ovalid s v → ovalid s w → arity_ok op v w = true →
  heldn L (absn u) → oref L v → oref L w →
  apply op u v w s = (r, s') →
  (∃ x, r = Ok x ∧ Inv s' ∧ Counts s' L ∧ rctx s' = false ∧
        (last_len s = None → last_len s' = None) ∧
        (is_Some (last_len s) → is_Some (last_len s')) ∧
        keeps (heldn L) s s' ∧ valid s' x ∧
        ∀ ρ, denv s' x ρ = f (denv s u ρ) (odenv s v ρ) (odenv s w ρ)) ∧
  tape s' = [].
Proof.
  intros. apply (no_oracle (apply op u v w) s r s'); [apply nt_apply|done|done|].
  by apply (apply_dynamic s L op u v w r s' f sifting_ok'_holds).
Qed.

Theorem apply_quant_notape op fa u v r s' :
  (fa = true ∧ op ∈ ["\A"; "forall"]) ∨ (fa = false ∧ op ∈ ["\E"; "exists"]) →
  valid s u → valid s v → heldn L (absn v) →
  apply op u (Some v) None s = (r, s') →
  (∃ x Q, r = Ok x ∧ Inv s' ∧ Counts s' L ∧ rctx s' = false ∧
        (last_len s = None → last_len s' = None) ∧
        (is_Some (last_len s) → is_Some (last_len s')) ∧
        keeps (heldn L) s s' ∧ valid s' x ∧
        (∀ y, y ∈ Q ↔ ∃ l, vars s !! y = Some l ∧ depends s u l) ∧
        ∀ ρ, denv s' x ρ = true ↔ qsemv s fa Q v ρ) ∧
  tape s' = [].
Proof.
  intros. apply (no_oracle (apply op u (Some v) None) s r s'); [apply nt_apply|done|done|].
  by apply (apply_quant_dynamic s L op fa u v r s' sifting_ok'_holds).
Qed.

Theorem quantify_notape u qvars fa r s' :
  valid s u → heldn L (absn u) →
  Forall (fun k => is_Some (vars s !! k)) qvars →
  quantify u true qvars fa s = (r, s') →
  (∃ x, r = Ok x ∧ Inv s' ∧ Counts s' L ∧ rctx s' = false ∧
        (last_len s = None → last_len s' = None) ∧
        (is_Some (last_len s) → is_Some (last_len s')) ∧
        keeps (heldn L) s s' ∧ valid s' x ∧
        ∀ ρ, denv s' x ρ = true ↔ qsemv s fa (list_to_set qvars) u ρ) ∧
  tape s' = [].
Proof.
  intros. apply (no_oracle (quantify u true qvars fa) s r s'); [apply nt_quantify|done|done|].
  by apply (quantify_dynamic s L u qvars fa r s' sifting_ok'_holds).
Qed.

Theorem cofactor_notape u values r s' :
  valid s u → heldn L (absn u) →
  Forall (fun p => is_Some (vars s !! p.1)) values →
  cofactor u true values s = (r, s') →
  (∃ x, r = Ok x ∧ Inv s' ∧ Counts s' L ∧ rctx s' = false ∧
        (last_len s = None → last_len s' = None) ∧
        (is_Some (last_len s) → is_Some (last_len s')) ∧
        keeps (heldn L) s s' ∧ valid s' x ∧
        ∀ ρ, denv s' x ρ = denv s u (overridev (list_to_map (reverse values)) ρ)) ∧
  tape s' = [].
Proof.
  intros. apply (no_oracle (cofactor u true values) s r s'); [apply nt_cofactor|done|done|].
  by apply (cofactor_dynamic s L u values r s' sifting_ok'_holds).
Qed.

Theorem compose_notape f var_sub r s' :
  valid s f → heldn L (absn f) →
  Forall (fun p => is_Some (vars s !! p.1) ∧ valid s p.2 ∧ heldn L (absn p.2)) var_sub →
  compose f var_sub s = (r, s') →
  (∃ x, r = Ok x ∧ Inv s' ∧ Counts s' L ∧ rctx s' = false ∧
        (last_len s = None → last_len s' = None) ∧
        (is_Some (last_len s) → is_Some (last_len s')) ∧
        keeps (heldn L) s s' ∧ valid s' x ∧
        ∀ ρ, denv s' x ρ = denv s f (vsubstv s (list_to_map (reverse var_sub)) ρ)) ∧
  tape s' = [].
Proof.
  intros. apply (no_oracle (compose f var_sub) s r s'); [apply nt_compose|done|done|].
  by apply (compose_dynamic s L f var_sub r s' sifting_ok'_holds).
Qed.

Theorem rename_notape u dvars r s' :
  valid s u → heldn L (absn u) →
  (∀ x y, (x, y) ∈ dvars → is_Some (vars s !! y)) →
  rename u dvars s = (r, s') →
  (∃ x, r = Ok x ∧ Inv s' ∧ Counts s' L ∧ rctx s' = false ∧
        (last_len s = None → last_len s' = None) ∧
        (is_Some (last_len s) → is_Some (last_len s')) ∧
        keeps (heldn L) s s' ∧ valid s' x ∧
        ∀ ρ, denv s' x ρ = denv s u (renv (list_to_map (reverse dvars)) ρ)) ∧
  tape s' = [].
Proof.
  intros. apply (no_oracle (rename u dvars) s r s'); [apply nt_rename|done|done|].
  by apply (rename_dynamic s L u dvars r s' sifting_ok'_holds).
Qed.

Theorem cube_notape dvars r s' :
  Forall (fun p => is_Some (vars s !! p.1)) dvars →
  cube dvars s = (r, s') →
  (∃ x, r = Ok x ∧ Inv s' ∧ Counts s' L ∧ rctx s' = false ∧
        (last_len s = None → last_len s' = None) ∧
        (is_Some (last_len s) → is_Some (last_len s')) ∧
        keeps (heldn L) s s' ∧ valid s' x ∧
        ∀ ρ, denv s' x ρ = true ↔ ∀ v b, (v, b) ∈ dvars → ρ v = b) ∧
  tape s' = [].
Proof.
  intros. apply (no_oracle (cube dvars) s r s'); [apply nt_cube|done|done|].
  by apply (cube_dynamic s L dvars r s' sifting_ok'_holds).
Qed.

Theorem let_notape d u r s' :
  valid s u → heldn L (absn u) → let_ok L s d →
  let_ d u s = (r, s') →
  (∃ x, r = Ok x ∧ Inv s' ∧ Counts s' L ∧ rctx s' = false ∧
        (last_len s = None → last_len s' = None) ∧
        (is_Some (last_len s) → is_Some (last_len s')) ∧
        keeps (heldn L) s s' ∧ valid s' x ∧
        ∀ ρ, denv s' x ρ = denv s u (let_sem s d ρ)) ∧
  tape s' = [].
Proof.
  intros. apply (no_oracle (let_ d u) s r s'); [apply nt_let|done|done|].
  by apply (let_dynamic s L d u r s' sifting_ok'_holds).
Qed.
End notape.
