(** * Dynamic3: the decorator theorems of [Dynamic]/[Dynamic2] without the
      premise (sifting is proved: [Sift9.sifting_ok'_holds]), without the
      oracle alternative when the tape is empty (the literal code), and a
      history theorem for dd.bdd with dynamic reordering ENABLED. *)
From DD Require Export Dynamic2 Sift9.
From DD Require Import C01proof.
Local Open Scope string_scope.

(** ** 1. The operations never touch the oracle tape ([Sift7.nt]) *)
Ltac ntx_step :=
  lazymatch goal with
  | |- nt (ret _) => apply nt_ret
  | |- nt (raise _) => apply nt_raise; discriminate
  | |- nt get => apply nt_get
  | |- nt (modify _) => apply nt_modify; intros; reflexivity
  | |- nt (assert _) => apply nt_assert
  | |- nt (ensure _ _) => apply nt_ensure; discriminate
  | |- nt (of_opt _ _) => apply nt_of_opt; discriminate
  | |- nt (getsucc _) => apply nt_getsucc
  | |- nt (getref _) => apply nt_getref
  | |- nt (getsuccZ _) => apply nt_getsuccZ
  | |- nt (level_of _) => apply nt_level_of
  | |- nt (level_of_var _) => apply nt_level_of_var
  | |- nt (var_at_level _) => apply nt_var_at_level
  | |- nt (find_or_add _ _ _) => apply nt_find_or_add
  | |- nt (incref _) => apply nt_incref
  | |- nt (decref _) => apply nt_decref
  | |- nt (ref _) => apply nt_ref
  | |- nt (bind _ _) => apply nt_bind; [|intros ?]
  | |- nt (forM _ _) => apply nt_forM; intros ?
  | |- nt (mapM _ _) => apply nt_mapM; intros ?
  | |- nt (foldM _ _ _) => apply nt_foldM; intros ? ?
  | |- nt (if decide _ then _ else _) => case_decide
  | |- nt (if ?b then _ else _) => destruct b
  | |- nt (match ?x with _ => _ end) => destruct x
  | |- nt (let '(_, _) := ?x in _) => destruct x
  end.
Ltac ntx := repeat first [assumption | ntx_step].

Lemma nt_top_cofactor u i : nt (top_cofactor u i).
Proof. unfold top_cofactor. ntx. Qed.
Lemma nt_ite_rec fuel : ∀ g u v, nt (ite_rec fuel g u v).
Proof.
  induction fuel as [|f IH]; intros g u v; cbn [ite_rec]; [by apply nt_raise|].
  ntx; first [apply nt_top_cofactor | apply IH].
Qed.
Lemma nt_ite_ g u v : nt (ite_ g u v).
Proof. unfold ite_. ntx. apply nt_ite_rec. Qed.

(** the decorator: sifting with an empty tape raises no oracle error *)
Lemma nt_try_to_reorder {A} (func : MS A) : nt func → nt (try_to_reorder func).
Proof.
  intros Hf s r s' Ht. unfold try_to_reorder. cbn [bind get modify].
  unfold bind at 1, catch at 1.
  destruct (func (s <| rctx := true |>)) as [r1 s1] eqn:E1.
  assert (Ht0 : tape (s <| rctx := true |>) = []) by done.
  destruct (Hf _ _ _ Ht0 E1) as [Ht1 Hr1].
  cbn [bind modify]. destruct r1 as [a|e].
  { unfold ret. by intros [= <- <-]. }
  case_decide as Hd; cycle 1.
  { unfold raise. by intros [= <- <-]. }
  cbn [bind get modify].
  set (s2 := s1 <| rctx := rctx s |> <| last_len := None |>).
  destruct (reorder None s2) as [r3 s3] eqn:E3.
  destruct (nt_reorder None s2 r3 s3 Ht1 E3) as [Ht3 Hr3].
  rewrite (bind_ok _ _ _ _ _ (catch_run _ _ _ _ E3)).
  destruct r3 as [[]|e3]; cycle 1.
  { cbn [bind modify raise]. intros [= <- <-]. split; [done|].
    intros [= ->]. by apply Hr3. }
  cbn [bind ret get modify].
  unfold bind at 1, catch at 1.
  destruct (func (s3 <| rctx := true |>)) as [r4 s4] eqn:E4.
  assert (Ht3' : tape (s3 <| rctx := true |>) = []) by done.
  destruct (Hf _ _ _ Ht3' E4) as [Ht4 Hr4].
  cbn [bind modify]. destruct r4 as [a|e4]; cbn [reraise]; unfold ret, raise;
    by intros [= <- <-].
Qed.

(** the error path of the sifting pass, exactly (dd 854af5f): whatever
    [reorder(bdd)] raises is re-raised with the threshold put back *)
Lemma try_to_reorder_sift_error {A} (func : MS A) s s1 e0 s3 :
  rctx s = false →
  func (s <| rctx := true |>) = (Err ENeedsReordering, s1) →
  reorder None (s1 <| rctx := false |> <| last_len := None |>) = (Err e0, s3) →
  try_to_reorder func s = (Err e0, s3 <| last_len := last_len s1 |>).
Proof.
  intros Hc E1 E3. unfold try_to_reorder. cbn [bind get modify].
  unfold bind at 1, catch at 1. rewrite E1. cbn [bind modify]. rewrite Hc.
  rewrite decide_True by done. cbn [bind get modify].
  by rewrite (bind_ok _ _ _ _ _ (catch_run _ _ _ _ E3)).
Qed.

Lemma nt_ite g u v : nt (ite g u v).
Proof. apply nt_try_to_reorder, nt_ite_. Qed.
Lemma nt_var name : nt (var name).
Proof. unfold var. apply nt_try_to_reorder. ntx. Qed.
Lemma nt_support_rec fuel : ∀ u acc, nt (support_rec fuel u acc).
Proof.
  induction fuel as [|f IH]; intros u acc; cbn [support_rec]; [by apply nt_raise|].
  ntx; apply IH.
Qed.
Lemma nt_support u : nt (support u).
Proof. unfold support, support_levels. ntx. apply nt_support_rec. Qed.
Lemma nt_is_essential_rec fuel : ∀ u i, nt (is_essential_rec fuel u i).
Proof.
  induction fuel as [|f IH]; intros u i; cbn [is_essential_rec]; [by apply nt_raise|].
  ntx; apply IH.
Qed.
Lemma nt_is_essential u v : nt (is_essential u v).
Proof. unfold is_essential. ntx. apply nt_is_essential_rec. Qed.
Lemma nt_map_key bn first k : nt (map_key bn first k).
Proof. unfold map_key. ntx. destruct first; by apply nt_raise. Qed.
Lemma nt_map_to_level_set bn ks : nt (map_to_level_set bn ks).
Proof. unfold map_to_level_set. ntx; apply nt_map_key. Qed.
Lemma nt_map_to_level_dict {A} bn (kv : list (nat * A)) : nt (map_to_level_dict bn kv).
Proof. unfold map_to_level_dict. ntx; apply nt_map_key. Qed.
Lemma nt_quantify_rec fuel : ∀ u ord q fa cache, nt (quantify_rec fuel u ord q fa cache).
Proof.
  induction fuel as [|f IH]; intros u ord q fa cache; cbn [quantify_rec];
    [by apply nt_raise|].
  ntx; first [apply IH | apply nt_ite].
Qed.
Lemma nt_quantify_names u qvars fa : nt (quantify_names u qvars fa).
Proof.
  unfold quantify_names. apply nt_try_to_reorder.
  ntx; [apply nt_map_to_level_set|apply nt_quantify_rec].
Qed.
Lemma nt_quantify u bn qvars fa : nt (quantify u bn qvars fa).
Proof.
  destruct bn; [apply nt_quantify_names|]. unfold quantify.
  ntx; [apply nt_map_to_level_set|apply nt_quantify_names].
Qed.
Lemma nt_cofactor_rec fuel : ∀ u ord values cache, nt (cofactor_rec fuel u ord values cache).
Proof.
  induction fuel as [|f IH]; intros u ord values cache; cbn [cofactor_rec];
    [by apply nt_raise|].
  ntx; apply IH.
Qed.
Lemma nt_cofactor_names u values : nt (cofactor_names u values).
Proof.
  unfold cofactor_names. apply nt_try_to_reorder.
  ntx; [apply nt_map_to_level_dict|apply nt_cofactor_rec].
Qed.
Lemma nt_cofactor u bn values : nt (cofactor u bn values).
Proof.
  destruct bn; [apply nt_cofactor_names|]. unfold cofactor.
  ntx; [apply nt_map_to_level_dict|apply nt_cofactor_names].
Qed.
Lemma nt_compose_rec fuel : ∀ f_ j g cache, nt (compose_rec fuel f_ j g cache).
Proof.
  induction fuel as [|f IH]; intros f_ j g cache; cbn [compose_rec];
    [by apply nt_raise|].
  ntx; first [apply IH | apply nt_ite | apply nt_top_cofactor].
Qed.
Lemma nt_vector_compose_rec fuel : ∀ f_ ls cache, nt (vector_compose_rec fuel f_ ls cache).
Proof.
  induction fuel as [|f IH]; intros f_ ls cache; cbn [vector_compose_rec];
    [by apply nt_raise|].
  ntx; first [apply IH | apply nt_ite].
Qed.
Lemma nt_compose f_ var_sub : nt (compose f_ var_sub).
Proof.
  unfold compose. apply nt_try_to_reorder.
  ntx; first [apply nt_compose_rec | apply nt_vector_compose_rec].
Qed.
Lemma nt_copy_bdd_rec fuel : ∀ src u lm cache, nt (copy_bdd_rec fuel src u lm cache).
Proof.
  induction fuel as [|f IH]; intros src u lm cache; cbn [copy_bdd_rec];
    [by apply nt_raise|].
  ntx; first [apply IH | apply nt_ite].
Qed.
Lemma nt_rename_ u dvars : nt (rename_ u dvars).
Proof. unfold rename_. ntx; apply nt_copy_bdd_rec. Qed.
Lemma nt_rename u dvars : nt (rename u dvars).
Proof. apply nt_try_to_reorder, nt_rename_. Qed.
Lemma nt_apply_with tbl op u v w : nt (apply_with tbl op u v w).
Proof.
  unfold apply_with. ntx; first [apply nt_ite | apply nt_support | apply nt_quantify].
Qed.
Lemma nt_apply op u v w : nt (apply op u v w).
Proof. apply nt_apply_with. Qed.
Lemma nt_cube dvars : nt (cube dvars).
Proof. unfold cube. apply nt_try_to_reorder. ntx; [apply nt_var|apply nt_apply]. Qed.
Lemma nt_let d u : nt (let_ d u).
Proof.
  unfold let_. destruct d as [[|]|[|]|[|]]; try apply nt_ret;
    [apply nt_cofactor|apply nt_compose|apply nt_rename].
Qed.

(** ** 2. The decorator without premise and without the oracle alternative *)
Theorem try_to_reorder_correct_notape {A} (func : MS A) Pre Post s L r s' :
  op_spec func (heldn L) Pre Post → nt func →
  Inv s → Counts s L → Pre s → rctx s = false → tape s = [] → max_nodes s = None →
  try_to_reorder func s = (r, s') →
  ∃ a, r = Ok a ∧ Inv s' ∧ Counts s' L ∧ rctx s' = false ∧ tape s' = [] ∧
       (last_len s = None → last_len s' = None) ∧
       (is_Some (last_len s) → is_Some (last_len s')) ∧
       keeps (heldn L) s s' ∧ Post s a s'.
Proof.
  intros Hop Hnt HI HC HP Hc Ht Hmx Hrun.
  destruct (nt_try_to_reorder func Hnt s r s' Ht Hrun) as [Ht' Hne].
  destruct (try_to_reorder_correct func Pre Post s L r s' sifting_ok'_holds Hop HI HC HP Hc Hmx Hrun)
    as [->|(a&->&?&?&?&?&?&?&?)]; [done|].
  exists a. by split_and!.
Qed.

(** removing the oracle alternative from a proved disjunction *)
Lemma no_oracle {A} (m : MS A) s r s' (P : Prop) :
  nt m → tape s = [] → m s = (r, s') → (r = Err EOracle ∨ P) → P ∧ tape s' = [].
Proof.
  intros Hnt Ht Hrun H. destruct (Hnt s r s' Ht Hrun) as [Ht' Hne].
  by destruct H as [->|?].
Qed.

Section notape.
Context (s : st) (L : positive → nat) (HI : Inv s) (HC : Counts s L)
        (Hc : rctx s = false) (Ht : tape s = []) (Hmx : max_nodes s = None).

Theorem ite_notape g u v r s' :
  valid s g → valid s u → valid s v →
  heldn L (absn g) → heldn L (absn u) → heldn L (absn v) →
  ite g u v s = (r, s') →
  (∃ w, r = Ok w ∧ Inv s' ∧ Counts s' L ∧ rctx s' = false ∧
        (last_len s = None → last_len s' = None) ∧
        (is_Some (last_len s) → is_Some (last_len s')) ∧
        keeps (heldn L) s s' ∧ valid s' w ∧
        ∀ ρ, denv s' w ρ = if denv s g ρ then denv s u ρ else denv s v ρ) ∧
  tape s' = [].
Proof.
  intros. apply (no_oracle (ite g u v) s r s'); [apply nt_ite|done|done|].
  by apply (ite_dynamic s L g u v r s' sifting_ok'_holds).
Qed.

Theorem var_notape name r s' :
  is_Some (vars s !! name) →
  var name s = (r, s') →
  (∃ w, r = Ok w ∧ Inv s' ∧ Counts s' L ∧ rctx s' = false ∧
        (last_len s = None → last_len s' = None) ∧
        (is_Some (last_len s) → is_Some (last_len s')) ∧
        keeps (heldn L) s s' ∧ valid s' w ∧ ∀ ρ, denv s' w ρ = ρ name) ∧
  tape s' = [].
Proof.
  intros. apply (no_oracle (var name) s r s'); [apply nt_var|done|done|].
  by apply (var_dynamic s L name r s' sifting_ok'_holds).
Qed.

Theorem apply_notape op u v w r s' f :
  op ∈ py_vocab → conn_sem op = Some f →
  valid s u → ovalid s v → ovalid s w → arity_ok op v w = true →
  heldn L (absn u) → oref L v → oref L w →
  apply op u v w s = (r, s') →
  (∃ x, r = Ok x ∧ Inv s' ∧ Counts s' L ∧ rctx s' = false ∧
        (last_len s = None → last_len s' = None) ∧
        (is_Some (last_len s) → is_Some (last_len s')) ∧
        keeps (heldn L) s s' ∧ valid s' x ∧
        ∀ ρ, denv s' x ρ = f (denv s u ρ) (odenv s v ρ) (odenv s w ρ)) ∧
  tape s' = [].
Proof.
  intros. apply (no_oracle (apply op u v w) s r s'); [apply nt_apply|done|done|].
  by apply (apply_dynamic s L op u v w r s' f sifting_ok'_holds).
Qed.

Theorem apply_quant_notape op fa u v r s' :
  (fa = true ∧ op ∈ ["\A"; "forall"]) ∨ (fa = false ∧ op ∈ ["\E"; "exists"]) →
  valid s u → valid s v → heldn L (absn v) →
  apply op u (Some v) None s = (r, s') →
  (∃ x Q, r = Ok x ∧ Inv s' ∧ Counts s' L ∧ rctx s' = false ∧
        (last_len s = None → last_len s' = None) ∧
        (is_Some (last_len s) → is_Some (last_len s')) ∧
        keeps (heldn L) s s' ∧ valid s' x ∧
        (∀ y, y ∈ Q ↔ ∃ l, vars s !! y = Some l ∧ depends s u l) ∧
        ∀ ρ, denv s' x ρ = true ↔ qsemv s fa Q v ρ) ∧
  tape s' = [].
Proof.
  intros. apply (no_oracle (apply op u (Some v) None) s r s'); [apply nt_apply|done|done|].
  by apply (apply_quant_dynamic s L op fa u v r s' sifting_ok'_holds).
Qed.

Theorem quantify_notape u qvars fa r s' :
  valid s u → heldn L (absn u) →
  Forall (fun k => is_Some (vars s !! k)) qvars →
  quantify u true qvars fa s = (r, s') →
  (∃ x, r = Ok x ∧ Inv s' ∧ Counts s' L ∧ rctx s' = false ∧
        (last_len s = None → last_len s' = None) ∧
        (is_Some (last_len s) → is_Some (last_len s')) ∧
        keeps (heldn L) s s' ∧ valid s' x ∧
        ∀ ρ, denv s' x ρ = true ↔ qsemv s fa (list_to_set qvars) u ρ) ∧
  tape s' = [].
Proof.
  intros. apply (no_oracle (quantify u true qvars fa) s r s'); [apply nt_quantify|done|done|].
  by apply (quantify_dynamic s L u qvars fa r s' sifting_ok'_holds).
Qed.

Theorem cofactor_notape u values r s' :
  valid s u → heldn L (absn u) →
  Forall (fun p => is_Some (vars s !! p.1)) values →
  cofactor u true values s = (r, s') →
  (∃ x, r = Ok x ∧ Inv s' ∧ Counts s' L ∧ rctx s' = false ∧
        (last_len s = None → last_len s' = None) ∧
        (is_Some (last_len s) → is_Some (last_len s')) ∧
        keeps (heldn L) s s' ∧ valid s' x ∧
        ∀ ρ, denv s' x ρ = denv s u (overridev (list_to_map (reverse values)) ρ)) ∧
  tape s' = [].
Proof.
  intros. apply (no_oracle (cofactor u true values) s r s'); [apply nt_cofactor|done|done|].
  by apply (cofactor_dynamic s L u values r s' sifting_ok'_holds).
Qed.

Theorem compose_notape f var_sub r s' :
  valid s f → heldn L (absn f) →
  Forall (fun p => is_Some (vars s !! p.1) ∧ valid s p.2 ∧ heldn L (absn p.2)) var_sub →
  compose f var_sub s = (r, s') →
  (∃ x, r = Ok x ∧ Inv s' ∧ Counts s' L ∧ rctx s' = false ∧
        (last_len s = None → last_len s' = None) ∧
        (is_Some (last_len s) → is_Some (last_len s')) ∧
        keeps (heldn L) s s' ∧ valid s' x ∧
        ∀ ρ, denv s' x ρ = denv s f (vsubstv s (list_to_map (reverse var_sub)) ρ)) ∧
  tape s' = [].
Proof.
  intros. apply (no_oracle (compose f var_sub) s r s'); [apply nt_compose|done|done|].
  by apply (compose_dynamic s L f var_sub r s' sifting_ok'_holds).
Qed.

Theorem rename_notape u dvars r s' :
  valid s u → heldn L (absn u) →
  (∀ x y, (x, y) ∈ dvars → is_Some (vars s !! y)) →
  rename u dvars s = (r, s') →
  (∃ x, r = Ok x ∧ Inv s' ∧ Counts s' L ∧ rctx s' = false ∧
        (last_len s = None → last_len s' = None) ∧
        (is_Some (last_len s) → is_Some (last_len s')) ∧
        keeps (heldn L) s s' ∧ valid s' x ∧
        ∀ ρ, denv s' x ρ = denv s u (renv (list_to_map (reverse dvars)) ρ)) ∧
  tape s' = [].
Proof.
  intros. apply (no_oracle (rename u dvars) s r s'); [apply nt_rename|done|done|].
  by apply (rename_dynamic s L u dvars r s' sifting_ok'_holds).
Qed.

Theorem cube_notape dvars r s' :
  Forall (fun p => is_Some (vars s !! p.1)) dvars →
  cube dvars s = (r, s') →
  (∃ x, r = Ok x ∧ Inv s' ∧ Counts s' L ∧ rctx s' = false ∧
        (last_len s = None → last_len s' = None) ∧
        (is_Some (last_len s) → is_Some (last_len s')) ∧
        keeps (heldn L) s s' ∧ valid s' x ∧
        ∀ ρ, denv s' x ρ = true ↔ ∀ v b, (v, b) ∈ dvars → ρ v = b) ∧
  tape s' = [].
Proof.
  intros. apply (no_oracle (cube dvars) s r s'); [apply nt_cube|done|done|].
  by apply (cube_dynamic s L dvars r s' sifting_ok'_holds).
Qed.

Theorem let_notape d u r s' :
  valid s u → heldn L (absn u) → let_ok L s d →
  let_ d u s = (r, s') →
  (∃ x, r = Ok x ∧ Inv s' ∧ Counts s' L ∧ rctx s' = false ∧
        (last_len s = None → last_len s' = None) ∧
        (is_Some (last_len s) → is_Some (last_len s')) ∧
        keeps (heldn L) s s' ∧ valid s' x ∧
        ∀ ρ, denv s' x ρ = denv s u (let_sem s d ρ)) ∧
  tape s' = [].
Proof.
  intros. apply (no_oracle (let_ d u) s r s'); [apply nt_let|done|done|].
  by apply (let_dynamic s L d u r s' sifting_ok'_holds).
Qed.
End notape.

(** ** 3. Histories with dynamic reordering enabled *)

(** *** read-only computations that raise neither the signal nor the oracle
    error *)
Definition quiet {A} (m : MS A) : Prop :=
  ∀ s r s', m s = (r, s') → s' = s ∧ r ≠ Err ENeedsReordering ∧ r ≠ Err EOracle.

Lemma quiet_ret {A} (a : A) : quiet (ret a).
Proof. by intros s r s' [= <- <-]. Qed.
Lemma quiet_raise {A} e : e ≠ ENeedsReordering → e ≠ EOracle → quiet (raise (A:=A) e).
Proof. intros ? ? s r s' [= <- <-]. split_and!; [done|congruence|congruence]. Qed.
Lemma quiet_get : quiet (get (S:=st)).
Proof. by intros s r s' [= <- <-]. Qed.
Lemma quiet_bind {A B} (m : MS A) (f : A → MS B) :
  quiet m → (∀ a, quiet (f a)) → quiet (bind m f).
Proof.
  intros Hm Hf s r s'. unfold bind. destruct (m s) as [[a|e] s1] eqn:E.
  - destruct (Hm _ _ _ E) as (->&_). apply Hf.
  - destruct (Hm _ _ _ E) as (->&H1&H2). intros [= <- <-].
    split_and!; [done|intros [= ->]; by apply H1|intros [= ->]; by apply H2].
Qed.
Lemma quiet_assert b : quiet (assert (S:=st) b).
Proof. unfold assert. destruct b; [apply quiet_ret|by apply quiet_raise]. Qed.
Lemma quiet_ensure e b : e ≠ ENeedsReordering → e ≠ EOracle → quiet (ensure (S:=st) e b).
Proof. intros. unfold ensure. destruct b; [apply quiet_ret|by apply quiet_raise]. Qed.
Lemma quiet_of_opt {A} e (o : option A) :
  e ≠ ENeedsReordering → e ≠ EOracle → quiet (of_opt (S:=st) e o).
Proof. intros. destruct o; [apply quiet_ret|by apply quiet_raise]. Qed.
Lemma quiet_getsucc n : quiet (getsucc n).
Proof. intros s r s'. unfold getsucc. destruct (succ s !! n); by intros [= <- <-]. Qed.
Lemma quiet_getref n : quiet (getref n).
Proof. intros s r s'. unfold getref. destruct (refc s !! n); by intros [= <- <-]. Qed.
Lemma quiet_mapM {A B} (f : A → MS B) (l : list A) : (∀ a, quiet (f a)) → quiet (mapM f l).
Proof.
  intros Hf. induction l as [|a l IH]; cbn [mapM]; [apply quiet_ret|].
  apply quiet_bind; [apply Hf|intros b].
  apply quiet_bind; [done|intros bs; apply quiet_ret].
Qed.
Lemma quiet_forM {A} (l : list A) (f : A → MS unit) : (∀ a, quiet (f a)) → quiet (forM l f).
Proof.
  intros Hf. induction l as [|a l IH]; cbn [forM]; [apply quiet_ret|].
  apply quiet_bind; [apply Hf|done].
Qed.

Ltac quiet_step :=
  lazymatch goal with
  | |- quiet (ret _) => apply quiet_ret
  | |- quiet (raise _) => apply quiet_raise; discriminate
  | |- quiet get => apply quiet_get
  | |- quiet (assert _) => apply quiet_assert
  | |- quiet (ensure _ _) => apply quiet_ensure; discriminate
  | |- quiet (of_opt _ _) => apply quiet_of_opt; discriminate
  | |- quiet (getsucc _) => apply quiet_getsucc
  | |- quiet (getref _) => apply quiet_getref
  | |- quiet (bind _ _) => apply quiet_bind; [|intros ?]
  | |- quiet (forM _ _) => apply quiet_forM; intros ?
  | |- quiet (mapM _ _) => apply quiet_mapM; intros ?
  | |- quiet (if decide _ then _ else _) => case_decide
  | |- quiet (if ?b then _ else _) => destruct b
  | |- quiet (match ?x with _ => _ end) => destruct x
  | |- quiet (let '(_, _) := ?x in _) => destruct x
  end.
Ltac quiet := repeat first [assumption | quiet_step].

Lemma quiet_getsuccZ u : quiet (getsuccZ u).
Proof. unfold getsuccZ. quiet. Qed.
Lemma quiet_ref u : quiet (ref u).
Proof. unfold ref. quiet. Qed.
Lemma quiet_var_at_level l : quiet (var_at_level l).
Proof. unfold var_at_level. quiet. Qed.
Lemma quiet_support_rec fuel : ∀ u acc, quiet (support_rec fuel u acc).
Proof.
  induction fuel as [|f IH]; intros u acc; cbn [support_rec]; [by apply quiet_raise|].
  quiet; apply IH.
Qed.
Lemma quiet_support u : quiet (support u).
Proof.
  unfold support, support_levels. quiet; [apply quiet_support_rec|apply quiet_var_at_level].
Qed.
Lemma quiet_is_essential_rec fuel : ∀ u i, quiet (is_essential_rec fuel u i).
Proof.
  induction fuel as [|f IH]; intros u i; cbn [is_essential_rec]; [by apply quiet_raise|].
  quiet; first [apply quiet_getsuccZ | apply IH].
Qed.
Lemma quiet_is_essential u v : quiet (is_essential u v).
Proof. unfold is_essential. quiet. apply quiet_is_essential_rec. Qed.

(** *** safety of the wrapped bodies for ARBITRARY arguments inside a context
    or with requests off (the cases of [Total] without [last_len = None]) *)
Lemma csafe_bind_get {B} (f : st → MS B) :
  (∀ s r s', Inv s → no_reorder s → f s s = (r, s') → safe s s') →
  csafe (bind get f).
Proof. intros H s r s' HI Hl. cbn [bind get]. by apply H. Qed.

Lemma quantify_rec_total_nr s u q fa fuel r s' :
  Inv s → no_reorder s → nvars s < fuel →
  quantify_rec fuel u (sorted_levels q) q fa ∅ s = (r, s') → safe s s'.
Proof.
  intros HI Hnr Hfuel Hrun. destruct (decide (valid s u)) as [Hu|Hu].
  - assert (Hfu : nvars s - lvl_of s u < fuel) by lia.
    pose proof (quantify_rec_spec fuel s u (sorted_levels q) q fa ∅ r s' HI Hu Hnr
                  (ord_ok_sorted_levels s u q) (Quantify.cache_ok_empty s q fa) Hfu Hrun)
      as (?&?&?&_).
    split; [done|split; [done|split; [done|]]]. intros L HL.
    by apply (Dynamic.quantify_rec_counts fuel s L u (sorted_levels q) q fa ∅ r s' HI HL Hu Hnr
                (ord_ok_sorted_levels s u q) (Quantify.cache_ok_empty s q fa) Hfu Hrun).
  - destruct fuel as [|f]; [lia|]. cbn [quantify_rec] in Hrun.
    rewrite decide_False in Hrun by (by apply (junk_not_terminal s)).
    rewrite lookup_empty in Hrun.
    rewrite (bind_err _ _ _ _ _ (getsuccZ_junk s u Hu)) in Hrun.
    injection Hrun as <- <-. by apply safe_refl.
Qed.

Lemma csafe_quantify_body u bn qvars fa :
  csafe (q <- map_to_level_set bn qvars ;; s <- get ;;
         r <- quantify_rec (S (S (nvars s))) u (sorted_levels q) q fa ∅ ;; ret (fst r)).
Proof.
  apply csafe_bind; [apply csafe_pure, pure_map_to_level_set|intros q].
  apply csafe_bind_get. intros s r s' HI Hl H.
  apply bind_fst_state in H as [r0 H].
  apply (quantify_rec_total_nr s u q fa (S (S (nvars s))) r0 s'); try done. lia.
Qed.
Lemma quiet_map_key bn first k : quiet (map_key bn first k).
Proof. unfold map_key. quiet. destruct first; by apply quiet_raise. Qed.
Lemma quiet_map_to_level_set bn ks : quiet (map_to_level_set bn ks).
Proof. unfold map_to_level_set. quiet; apply quiet_map_key. Qed.
Lemma quiet_map_to_level_dict {A} bn (kv : list (nat * A)) : quiet (map_to_level_dict bn kv).
Proof. unfold map_to_level_dict. quiet; apply quiet_map_key. Qed.
Lemma csafe_quantify_names u qvars fa : csafe (quantify_names u qvars fa).
Proof. apply csafe_try_to_reorder; [apply nrf_quantify_body|apply csafe_quantify_body]. Qed.
Lemma csafe_quantify u bn qvars fa : csafe (quantify u bn qvars fa).
Proof.
  destruct bn; [apply csafe_quantify_names|]. unfold quantify.
  apply csafe_bind; [apply csafe_pure, pure_map_to_level_set|intros q].
  apply csafe_bind; [|intros names; apply csafe_quantify_names].
  apply csafe_pure, pure_mapM. intros l. apply pure_var_at_level.
Qed.

Lemma csafe_cofactor_body u bn values :
  csafe (lv <- map_to_level_dict bn values ;; s <- get ;;
         ensure EValue (mem u s) ;;;
         r <- cofactor_rec (S (S (nvars s))) u (sorted_levels (dom lv)) lv ∅ ;; ret (fst r)).
Proof.
  apply csafe_bind; [apply csafe_pure, pure_map_to_level_dict|intros lv].
  apply csafe_bind_get. intros s r s' HI Hl H.
  destruct (mem u s) eqn:Hm; cbn [ensure] in H; cycle 1.
  { injection H as <- <-. by apply safe_refl. }
  apply mem_valid in Hm. rewrite (bind_ok _ _ s tt s) in H by done.
  apply bind_fst_state in H as [r0 H].
  assert (Hord : Cofactor.ord_ok s u (sorted_levels (dom lv)) lv).
  { intros k Hk _. apply elem_of_sorted_levels. by apply elem_of_dom. }
  assert (Hfu : nvars s - lvl_of s u < S (S (nvars s))) by lia.
  pose proof (cofactor_rec_aux _ s u _ lv ∅ r0 s' HI Hm Hord
                (Cofactor.cache_ok_empty s lv) Hfu H) as (?&?&?&_).
  split; [done|split; [done|split; [done|]]]. intros L HL.
  by apply (Dynamic.cofactor_rec_counts _ s L u _ lv ∅ r0 s' HI HL Hm Hord
              (Cofactor.cache_ok_empty s lv) Hfu H).
Qed.

Lemma compose_rec_total_nr s f_ j g r s' :
  Inv s → no_reorder s →
  compose_rec (S (S (2 * nvars s))) f_ j g ∅ s = (r, s') → safe s s'.
Proof.
  intros HI Hl Hrun.
  destruct (decide (valid s f_)) as [Hf|Hf]; cycle 1.
  { cbn [compose_rec] in Hrun.
    rewrite decide_False in Hrun by (by apply (junk_not_terminal s)).
    rewrite lookup_empty in Hrun.
    rewrite (bind_err _ _ _ _ _ (getsuccZ_junk s f_ Hf)) in Hrun.
    injection Hrun as <- <-. by apply safe_refl. }
  destruct (decide (valid s g)) as [Hg|Hg].
  { pose proof (compose_rec_aux _ s f_ j g ∅ r s' HI Hf Hg Hl (cache_ok_c_empty s j)
                  (compose_fuel_ok s f_ g) Hrun) as (?&?&?&_).
    split; [done|split; [done|split; [done|]]]. intros L HL.
    by apply (compose_rec_counts_nr _ s L f_ j g ∅ r s' HI HL Hf Hg Hl
                (cache_ok_c_empty s j) (compose_fuel_ok s f_ g) Hrun). }
  cbn [compose_rec] in Hrun.
  destruct (decide (absn f_ = 1%positive ∧ f_ ≠ 0%Z)) as [_|Hnt].
  { injection Hrun as <- <-. by apply safe_refl. }
  rewrite lookup_empty in Hrun.
  destruct (node_cases s HI f_ Hf) as [[E El]|(t&Ht&Hn1&Hlo&_)].
  { exfalso. apply Hnt. split; [done|apply Hf]. }
  rewrite (bind_ok _ _ _ _ _ (getsuccZ_ok s f_ t (proj1 Hf) Ht)) in Hrun.
  unfold is_term, assert in Hrun. rewrite bool_decide_eq_false_2 in Hrun by done.
  cbn [negb] in Hrun. rewrite (bind_ok _ _ s tt s) in Hrun by done.
  destruct (decide (j < t_lvl t)) as [Hji|Hji].
  { injection Hrun as <- <-. by apply safe_refl. }
  destruct (decide (t_lvl t = j)) as [Eij|Hij].
  - rewrite bind_assoc in Hrun.
    destruct (ite g (t_hi t) (t_lo t) s) as [rw s1] eqn:Ew.
    pose proof (csafe_ite _ _ _ _ _ _ HI Hl Ew) as Hs1.
    destruct rw as [w|e].
    + rewrite (bind_ok _ _ _ _ _ Ew) in Hrun. cbn [bind ret] in Hrun. by injection Hrun as <- <-.
    + rewrite (bind_err _ _ _ _ _ Ew) in Hrun. by injection Hrun as <- <-.
  - rewrite bind_assoc in Hrun.
    rewrite (bind_err _ _ _ _ _ (level_of_junk s g Hg)) in Hrun.
    injection Hrun as <- <-. by apply safe_refl.
Qed.

Lemma csafe_compose_body f_ var_sub : csafe (compose_body f_ var_sub).
Proof.
  apply csafe_bind_get. intros s r s' HI Hl. cbv zeta.
  assert (Hvec : ∀ l : list (nat * Z), csafe (
      dv <- mapM (fun '(var, g) => l <- level_of_var var ;; ret (l, g)) l ;;
      r <- vector_compose_rec (S (S (2 * nvars s))) f_ (list_to_map (reverse dv)) ∅ ;;
      ret (fst r))).
  { intros l. csafe. apply csafe_vector_compose_rec. }
  destruct var_sub as [|[var g] [|xg rest]]; [by apply Hvec| |by apply Hvec].
  intros H. destruct (level_of_var var s) as [rj s1] eqn:Ej.
  pose proof (pure_level_of_var _ _ _ _ Ej) as ->.
  destruct rj as [j|e].
  - rewrite (bind_ok _ _ _ _ _ Ej) in H. apply bind_fst_state in H as [r0 H].
    by apply (compose_rec_total_nr s f_ j g r0 s').
  - rewrite (bind_err _ _ _ _ _ Ej) in H. injection H as <- <-. by apply safe_refl.
Qed.

Lemma csafe_apply_with tbl op u v w : csafe (apply_with tbl op u v w).
Proof.
  unfold apply_with.
  csafe; first [apply csafe_ite | apply csafe_pure, pure_support | apply csafe_quantify].
Qed.
Lemma csafe_cube_body dvars : csafe (foldM cube_step 1%Z dvars).
Proof.
  apply csafe_foldM. intros r [v b]. unfold cube_step.
  csafe; [apply csafe_var|apply csafe_apply_with].
Qed.

(** *** top-level computations (depth 0), requests possibly ON *)
Definition dpost {A} (L : positive → nat) (s : st) (r : res A) (s' : st) : Prop :=
  Inv s' ∧ Counts s' L ∧ rctx s' = false ∧ tape s' = [] ∧
  (last_len s = None → last_len s' = None) ∧
  (is_Some (last_len s) → is_Some (last_len s')) ∧
  keeps (heldn L) s s' ∧
  r ≠ Err ENeedsReordering ∧ r ≠ Err EOracle.
Definition dsafe {A} (m : MS A) : Prop :=
  ∀ s L r s', Inv s → Counts s L → rctx s = false → tape s = [] →
    m s = (r, s') → dpost L s r s'.

Lemma dsafe_quiet {A} (m : MS A) : quiet m → dsafe m.
Proof.
  intros Hq s L r s' HI HC Hc Ht H. destruct (Hq _ _ _ H) as (->&?&?).
  do 6 (split; [done|]). split; [by apply keeps_extends|done].
Qed.
Lemma dsafe_bind {A B} (m : MS A) (f : A → MS B) :
  dsafe m → (∀ a, dsafe (f a)) → dsafe (bind m f).
Proof.
  intros Hm Hf s L r s' HI HC Hc Ht. unfold bind. destruct (m s) as [[a|e] s1] eqn:E.
  - destruct (Hm _ _ _ _ HI HC Hc Ht E) as (HI1&HC1&Hc1&Ht1&Hn1&Hs1&Hk1&_&_). intros H2.
    destruct (Hf a _ _ _ _ HI1 HC1 Hc1 Ht1 H2) as (?&?&?&?&Hn2&Hs2&Hk2&?&?).
    split_and!; try done; [by intros ?; apply Hn2, Hn1|by intros ?; apply Hs2, Hs1|].
    by apply (keeps_trans (heldn L) (heldn L) s s1 s').
  - intros [= <- <-].
    destruct (Hm _ _ _ _ HI HC Hc Ht E) as (?&?&?&?&?&?&?&H1&H2).
    split_and!; try done; [intros [= ->]; by apply H1|intros [= ->]; by apply H2].
Qed.

(** the decorator for ARBITRARY arguments: whatever the outcome of the
    wrapped operation (success, rejection before or after the retry), the
    manager stays well formed with the same ledger, held references keep
    number and function, requests stay enabled/disabled, and neither the
    signal nor (with an empty tape) the oracle error reaches the caller *)
Theorem try_to_reorder_total {A} (func : MS A) :
  nrf func → nt func → csafe func → dsafe (try_to_reorder func).
Proof.
  intros Hn Hnt Hcs s L r s' HI HC Hc Ht Hrun.
  destruct (nt_try_to_reorder func Hnt s r s' Ht Hrun) as [Ht' Hno].
  revert Hrun. unfold try_to_reorder. cbn [bind get modify]. unfold bind at 1, catch at 1.
  set (s0 := s <| rctx := true |>).
  assert (HI0 : Inv s0) by (by apply Inv_rctx).
  assert (HC0 : Counts s0 L) by (by apply (Counts_same s)).
  destruct (func s0) as [r1 s1] eqn:E1.
  pose proof (Hcs s0 r1 s1 HI0 (or_introl eq_refl) E1) as (HI1&He1&Hf1&HCs1).
  pose proof (HCs1 L HC0) as HC1.
  assert (He01 : extends s s1) by done.
  assert (Hll1 : last_len s1 = last_len s) by (by destruct Hf1 as (?&_)).
  cbn [bind modify]. rewrite Hc.
  (* outcomes that do not start a reordering *)
  assert (Hfirst : ∀ r0 : res A, r0 ≠ Err ENeedsReordering → r0 ≠ Err EOracle →
            tape (s1 <| rctx := false |>) = [] →
            dpost L s r0 (s1 <| rctx := false |>)).
  { intros r0 H1 H2 Ht1.
    assert (Hsame : same_tables s1 (s1 <| rctx := false |>)) by (by repeat split).
    split; [by apply (Inv_same s1)|split; [by apply (Counts_same s1)|]].
    split; [done|split; [done|]].
    split; [intros E; cbn; congruence|split; [intros E; cbn; congruence|]].
    split; [|done]. apply (keeps_same_r _ s s1); [done|]. by apply keeps_extends. }
  destruct r1 as [a|e].
  { unfold ret. intros [= <- <-]. by apply Hfirst. }
  case_decide as Hd; cycle 1.
  { unfold raise. intros [= <- <-]. apply Hfirst; [|done|done].
    intros [= ->]. by apply Hd. }
  destruct Hd as [-> _].
  (* the signal: requests were on *)
  assert (Hon : is_Some (last_len s)).
  { destruct (last_len s) as [l|] eqn:El; [by eexists|]. exfalso.
    assert (El0 : last_len s0 = None) by done.
    by destruct (Hn s0 _ s1 El0 E1) as [_ ?]. }
  cbn [bind get modify].
  set (s2 := s1 <| rctx := false |> <| last_len := None |>).
  assert (Hsame2 : same_tables s1 s2) by (by repeat split).
  assert (HI2 : Inv s2) by (by apply (Inv_same s1)).
  assert (HC2 : Counts s2 L) by (by apply (Counts_same s1)).
  assert (Hk2 : keeps (heldn L) s s2) by (by apply keeps_extends).
  destruct (reorder None s2) as [r3 s3] eqn:E3.
  rewrite (bind_ok _ _ _ _ _ (catch_run _ _ _ _ E3)).
  assert (Ht3 : tape s3 = []).
  { assert (tape s2 = []) as Ht2.
    { destruct Hf1 as (_&_&_&E&_). change (tape s2) with (tape s1). by rewrite E. }
    by destruct (nt_reorder None s2 r3 s3 Ht2 E3). }
  destruct (sifting_ok'_holds s2 L r3 s3 HI2 HC2 eq_refl E3)
    as [->|(Hr3&HI3&HC3&Hll3&Hc3&Hmx3&Hk3)].
  { cbn [bind modify raise]. intros [= <- <-]. done. }
  destruct Hr3 as [->|[-> _]]; cycle 1.
  { (* the table is full: sifting stops between two swaps; the threshold is put back *)
    cbn [bind modify raise]. intros [= <- <-].
    assert (HsameR : same_tables s3 (s3 <| last_len := last_len (s1 <| rctx := false |>) |>))
      by (by repeat split).
    split; [by apply (Inv_same s3)|split; [by apply (Counts_same s3)|]].
    split; [cbn; by rewrite Hc3|split; [done|]].
    split; [intros E; destruct Hon as [l Hl]; congruence|].
    split; [intros _; cbn; by rewrite Hll1|].
    split; [|done]. apply (keeps_same_r _ s s3); [done|].
    by apply (keeps_trans (heldn L) (heldn L) s s2 s3). }
  cbn [bind ret get modify].
  unfold bind at 1, catch at 1.
  set (s3' := s3 <| rctx := true |>).
  assert (HI3' : Inv s3') by (by apply Inv_rctx).
  assert (HC3' : Counts s3' L) by (by apply (Counts_same s3)).
  assert (Hk3' : keeps (heldn L) s s3').
  { apply (keeps_same_r _ s s3); [by repeat split|].
    by apply (keeps_trans (heldn L) (heldn L) s s2 s3). }
  destruct (func s3') as [r4 s4] eqn:E4.
  pose proof (Hcs s3' r4 s4 HI3' (or_introl eq_refl) E4) as (HI4&He4&Hf4&HCs4).
  pose proof (HCs4 L HC3') as HC4.
  assert (Hll3' : last_len s3' = None) by done.
  destruct (Hn s3' r4 s4 Hll3' E4) as [_ Hr4].
  cbn [bind modify].
  set (sF := s4 <| rctx := rctx s3 |> <| last_len := _ |>).
  assert (HsameF : same_tables s4 sF) by (by repeat split).
  intros Hrun.
  assert (Es' : s' = sF) by (destruct r4; cbn [reraise] in Hrun; by injection Hrun).
  assert (Er : ∀ e, r = Err e → r4 = Err e)
    by (intros e ->; destruct r4; cbn [reraise] in Hrun; [done|by injection Hrun as ->]).
  subst s'.
  split; [by apply (Inv_same s4)|split; [by apply (Counts_same s4)|]].
  split; [cbn; by rewrite Hc3|split; [done|]].
  split; [intros E; destruct Hon as [l Hl]; congruence|].
  split; [intros _; by eexists|].
  split.
  - apply (keeps_same_r _ s s4); [done|].
    apply (keeps_trans (heldn L) (heldn L) s s3' s4); [done|done|]. by apply keeps_extends.
  - split; [|done]. intros E. apply Hr4. by rewrite (Er _ E).
Qed.

(** *** the public operations *)
Lemma dsafe_ite g u v : dsafe (ite g u v).
Proof. apply try_to_reorder_total; [apply nrf_ite_|apply nt_ite_|apply csafe_ite_]. Qed.
Lemma dsafe_var name : dsafe (var name).
Proof.
  unfold var. apply try_to_reorder_total.
  - nrf. apply nrf_find_or_add.
  - ntx.
  - csafe. apply csafe_find_or_add_var.
Qed.
Lemma dsafe_quantify_names u qvars fa : dsafe (quantify_names u qvars fa).
Proof.
  unfold quantify_names. apply try_to_reorder_total.
  - apply nrf_quantify_body.
  - ntx; [apply nt_map_to_level_set|apply nt_quantify_rec].
  - apply csafe_quantify_body.
Qed.
Lemma dsafe_cofactor_names u values : dsafe (cofactor_names u values).
Proof.
  unfold cofactor_names. apply try_to_reorder_total.
  - apply nrf_cofactor_body.
  - ntx; [apply nt_map_to_level_dict|apply nt_cofactor_rec].
  - apply csafe_cofactor_body.
Qed.
(** the public methods: the key prelude is read-only *)
Lemma dsafe_quantify u bn qvars fa : dsafe (quantify u bn qvars fa).
Proof.
  destruct bn; [apply dsafe_quantify_names|]. unfold quantify.
  apply dsafe_bind; [apply dsafe_quiet, quiet_map_to_level_set|intros q].
  apply dsafe_bind; [|intros names; apply dsafe_quantify_names].
  apply dsafe_quiet, quiet_mapM. intros l. apply quiet_var_at_level.
Qed.
Lemma dsafe_cofactor u bn values : dsafe (cofactor u bn values).
Proof.
  destruct bn; [apply dsafe_cofactor_names|]. unfold cofactor.
  apply dsafe_bind; [apply dsafe_quiet, quiet_map_to_level_dict|intros lv].
  apply dsafe_bind; [|intros nv; apply dsafe_cofactor_names].
  apply dsafe_quiet, quiet_mapM. intros [l a].
  apply quiet_bind; [apply quiet_var_at_level|intros v; apply quiet_ret].
Qed.
Lemma dsafe_compose f_ var_sub : dsafe (compose f_ var_sub).
Proof.
  change (compose f_ var_sub) with (try_to_reorder (compose_body f_ var_sub)).
  apply try_to_reorder_total.
  - apply nrf_compose_body.
  - unfold compose_body. ntx; first [apply nt_compose_rec | apply nt_vector_compose_rec].
  - apply csafe_compose_body.
Qed.
Lemma dsafe_rename u dvars : dsafe (rename u dvars).
Proof.
  apply try_to_reorder_total; [apply nrf_rename_|apply nt_rename_|apply csafe_rename_].
Qed.
Lemma dsafe_cube dvars : dsafe (cube dvars).
Proof.
  change (cube dvars) with (try_to_reorder (foldM cube_step 1%Z dvars)).
  apply try_to_reorder_total.
  - unfold cube_step. nrf; [apply nrf_var|apply nrf_apply].
  - unfold cube_step. ntx; [apply nt_var|apply nt_apply].
  - apply csafe_cube_body.
Qed.

Ltac dsafe_step :=
  lazymatch goal with
  | |- dsafe (ret _) => apply dsafe_quiet, quiet_ret
  | |- dsafe (raise _) => apply dsafe_quiet, quiet_raise; discriminate
  | |- dsafe get => apply dsafe_quiet, quiet_get
  | |- dsafe (ensure _ _) => apply dsafe_quiet, quiet_ensure; discriminate
  | |- dsafe (bind _ _) => apply dsafe_bind; [|intros ?]
  | |- dsafe (if ?b then _ else _) => destruct b
  | |- dsafe (match ?x with _ => _ end) => destruct x
  end.
Ltac dsafe := repeat first [assumption | dsafe_step].

Lemma dsafe_apply_with tbl op u v w : dsafe (apply_with tbl op u v w).
Proof.
  unfold apply_with.
  dsafe; first [apply dsafe_ite | apply dsafe_quiet, quiet_support | apply dsafe_quantify].
Qed.
Lemma dsafe_apply op u v w : dsafe (apply op u v w).
Proof. apply dsafe_apply_with. Qed.
Lemma dsafe_let d u : dsafe (let_ d u).
Proof.
  unfold let_. destruct d as [[|]|[|]|[|]]; try apply dsafe_quiet, quiet_ret;
    [apply dsafe_cofactor|apply dsafe_compose|apply dsafe_rename].
Qed.

(** *** one call of the driver alphabet *)
Definition keepsR (L : positive → nat) (s s' : st) : Prop :=
  ∀ u, u ≠ 0%Z → heldn L (absn u) → valid s u →
       valid s' u ∧ ∀ ρ, denv s' u ρ = denv s u ρ.

(** the state predicate of the histories: no condition on [last_len] (dynamic
    reordering may be enabled) nor on the forced trigger [trig] *)
Definition GoodD (s : st) : Prop :=
  Inv s ∧ rctx s = false ∧ tape s = [] ∧ ∃ L, Counts s L.

(** the alphabet: every decorated operation, [apply], [let], the reference
    counters, [collect_garbage], [configure] with any argument, the harness
    setters of the threshold and of the forced trigger, the read-only
    queries, and variable declaration.  Excluded: [find_or_add], [image],
    [preimage], [copy_bdd] (not decorated: the signal escapes, C09), the raw
    [swap]/[reorder] entry points, the tape and roots setters. *)
Definition allowedD (o : op) : bool :=
  match o with
  | ONew levels => bool_decide (NoDup (levels.*1) ∧ NoDup (levels.*2))
  | OAddVar _ _ | ODeclare _ | OVar _ | OIte _ _ _ | OApply _ _ _ _
  | OIncref _ | ODecref _ | ORef _ | OGc _
  | OCofactor _ _ _ | OQuantify _ _ _ _ | OCompose _ _ | ORename _ _
  | OLet _ _ | OCube _ | OSupport _ | OIsEssential _ _
  | OConfigure _ | OSetLastLen _ | OSetTrig _ | OSetMaxNodes _ => true
  | _ => false
  end.

(** outcome of one call *)
Definition dout (s : st) (r : res value) (s' : st) : Prop :=
  GoodD s' ∧ r ≠ Err ENeedsReordering ∧ r ≠ Err EOracle ∧
  ∀ L, Counts s L → keepsR L s s'.

Lemma dsafe_out (m : MS value) s r s' : dsafe m → GoodD s → m s = (r, s') → dout s r s'.
Proof.
  intros Hm (HI&Hc&Ht&L&HC) H.
  destruct (Hm s L r s' HI HC Hc Ht H) as (?&?&?&?&_&_&_&?&?).
  split; [split_and!; try done; by exists L|]. split; [done|split; [done|]].
  intros L' HC'. destruct (Hm s L' r s' HI HC' Hc Ht H) as (_&_&_&_&_&_&[_ Hk]&_&_).
  exact Hk.
Qed.

Lemma dout_den s (r : res value) s' :
  Inv s' → rctx s' = false → tape s' = [] → (∃ L, Counts s' L) →
  r ≠ Err ENeedsReordering → r ≠ Err EOracle →
  (∀ u, valid s u → valid s' u ∧ ∀ ρ, denv s' u ρ = denv s u ρ) →
  dout s r s'.
Proof.
  intros ? ? ? ? ? ? Hd. split; [done|]. split; [done|split; [done|]].
  intros L _ u _ _ Hu. by apply Hd.
Qed.

Lemma dout_extends s (r : res value) s' :
  GoodD s → Inv s' → extends s s' → rctx s' = rctx s → tape s' = tape s →
  (∃ L, Counts s' L) → r ≠ Err ENeedsReordering → r ≠ Err EOracle →
  dout s r s'.
Proof.
  intros (HI&Hc&Ht&_) HI' He E1 E2 HL ? ?. apply dout_den; try done; [congruence..|].
  intros u Hu. split; [by apply (valid_extends s s')|]. intros ρ. by apply denv_grow.
Qed.

Lemma bind_ret_inv {A C} (m : MS A) (h : A → C) s r s' :
  (x <- m ;; ret (h x)) s = (r, s') →
  ∃ r0, m s = (r0, s') ∧
    match r0 with Ok a => r = Ok (h a) | Err e => r = Err e end.
Proof.
  unfold bind. destruct (m s) as [[x|e] s1]; intros [= <- <-].
  - by exists (Ok x).
  - by exists (Err e).
Qed.

Theorem run_opD_good w o s r s' :
  GoodD s → allowedD o = true → is_new o = false → caller_ok s o →
  run_op w o s = (r, s') → dout s r s'.
Proof.
  intros HG Ha Hnew Hgd H. pose proof HG as (HI&Hc&Ht&L&HL).
  destruct o; try discriminate Ha; try discriminate Hnew; cbn [run_op] in H.
  - (* OAddVar *)
    apply bind_ret_inv in H as (r0&H&Hr).
    destruct (add_var_total s v l r0 s' HI H) as (HI'&(_&E1&_&E2&_)&HC&Hden&Hr0).
    { intros l0 -> Hv. by apply Hgd. }
    apply dout_den; try done; [congruence|congruence|exists L; by apply HC|..].
    + destruct r0; [by rewrite Hr|]. destruct Hr0 as [-> _]. by rewrite Hr.
    + destruct r0; [by rewrite Hr|]. destruct Hr0 as [-> _]. by rewrite Hr.
    + intros u Hu. destruct (Hden u Hu) as (?&_&?). done.
  - (* ODeclare *)
    apply bind_ret_inv in H as (r0&H&Hr).
    destruct (declare_total s vs r0 s' HI H) as (->&HI'&(_&E1&_&E2&_)&HC&Hden).
    apply dout_den; try done; [congruence|congruence|exists L; by apply HC|by rewrite Hr..|].
    intros u Hu. destruct (Hden u Hu) as (?&_&?). done.
  - apply (fun Hm => dsafe_out _ s r s' Hm HG H). dsafe. apply dsafe_var.
  - apply (fun Hm => dsafe_out _ s r s' Hm HG H). dsafe. apply dsafe_ite.
  - apply (fun Hm => dsafe_out _ s r s' Hm HG H). dsafe. apply dsafe_apply.
  - (* OIncref *)
    apply bind_ret_inv in H as (r0&H&Hr).
    destruct (incref_total s u r0 s' HI H) as (HI'&He&(_&E1&_&E2&_)&Hv&Hn).
    destruct (decide (valid s u)) as [Hu|Hu].
    + destruct (Hv Hu) as [-> HC]. apply dout_extends; try done; [|by rewrite Hr..].
      eexists. by apply HC.
    + destruct (Hn Hu) as [-> ->]. apply dout_extends; try done; [by exists L|by rewrite Hr..].
  - (* ODecref *)
    apply bind_ret_inv in H as (r0&H&Hr).
    destruct (decref_total s u r0 s' HI H) as (HI'&He&(_&E1&_&E2&_)&Hv&Hn).
    destruct (decide (valid s u)) as [Hu|Hu].
    + destruct (Hv Hu) as [-> HC]. apply dout_extends; try done; [|by rewrite Hr..].
      eexists. apply HC; [done|]. cbn [caller_ok] in Hgd. specialize (Hgd Hu).
      destruct HL as [H1 _]. rewrite (H1 (absn u)) in Hgd by apply elem_of_dom, Hu.
      cbn in Hgd. lia.
    + destruct (Hn Hu) as [-> ->]. apply dout_extends; try done; [by exists L|by rewrite Hr..].
  - apply (fun Hm => dsafe_out _ s r s' Hm HG H). dsafe. apply dsafe_quiet, quiet_ref.
  - (* OGc *)
    apply bind_ret_inv in H as (r0&H&Hr).
    destruct (collect_garbage_total roots s L r0 s' HI HL H)
      as (HI'&HC'&Ev&El&(_&E1&_&E2&_)&Hsub&Hcase).
    assert (Hr' : r ≠ Err ENeedsReordering ∧ r ≠ Err EOracle).
    { destruct Hcase as [(->&_)|(->&_)]; by rewrite Hr. }
    destruct Hr' as [Hr1 Hr2].
    split; [split_and!; try done; [congruence|congruence|by exists L]|].
    split; [done|split; [done|]].
    intros L' HL' u Hu0 Hh Hu.
    destruct (collect_garbage_total roots s L' r0 s' HI HL' H) as (_&_&_&_&_&_&Hcase').
    destruct Hcase' as [(_&_&Hkeep)|(_&->&_)]; [|done].
    assert (Hvu : valid s' u).
    { split; [done|]. apply elem_of_dom, Hkeep. destruct Hh as [?|?]; [by left|right].
      apply reach_root; [done|]. apply elem_of_dom, Hu. }
    split; [done|]. intros ρ. unfold denv. rewrite El. by apply D_shrink.
  - (* OConfigure *)
    apply bind_ret_inv in H as (r0&H&Hr).
    destruct (configure_total s b r0 s' HI H) as (HI'&He&HC&->&_).
    assert (rctx s' = rctx s ∧ tape s' = tape s) as [E1 E2].
    { unfold configure in H. cbn [bind get] in H.
      destruct b as [[|]|]; cbn [bind modify ret] in H; by injection H as <-. }
    apply dout_extends; try done; [exists L; by apply HC|by rewrite Hr..].
  - (* OSetLastLen *)
    cbn [bind modify ret] in H. injection H as <- <-.
    apply dout_extends; try done.
    + apply (Inv_same s); [by repeat split|done].
    + exists L. by apply (Counts_same s).
  - (* OSetTrig *)
    cbn [bind modify ret] in H. injection H as <- <-.
    apply dout_extends; try done.
    + apply (Inv_same s); [by repeat split|done].
    + exists L. by apply (Counts_same s).
  - (* OSetMaxNodes *)
    cbn [bind modify ret] in H. injection H as <- <-.
    apply dout_extends; try done.
    + apply (Inv_same s); [by repeat split|done].
    + exists L. by apply (Counts_same s).
  - apply (fun Hm => dsafe_out _ s r s' Hm HG H). dsafe. apply dsafe_cofactor.
  - apply (fun Hm => dsafe_out _ s r s' Hm HG H). dsafe. apply dsafe_quantify.
  - apply (fun Hm => dsafe_out _ s r s' Hm HG H). dsafe. apply dsafe_compose.
  - apply (fun Hm => dsafe_out _ s r s' Hm HG H). dsafe. apply dsafe_rename.
  - apply (fun Hm => dsafe_out _ s r s' Hm HG H). dsafe. apply dsafe_let.
  - apply (fun Hm => dsafe_out _ s r s' Hm HG H). dsafe. apply dsafe_cube.
  - apply (fun Hm => dsafe_out _ s r s' Hm HG H). dsafe. apply dsafe_quiet, quiet_support.
  - apply (fun Hm => dsafe_out _ s r s' Hm HG H). dsafe. apply dsafe_quiet, quiet_is_essential.
Qed.

(** *** one step of the driver, and histories *)
Lemma step_run w m o : allowedD o = true →
  step w m o = (<[m := (run_op w o (world_get w m)).2 <| tape := [] |>]> w,
                (run_op w o (world_get w m)).1).
Proof.
  intros Ha. unfold step, world_get.
  destruct o; try discriminate Ha; by destruct (run_op w _ _).
Qed.

Lemma world_get_insert (w : world) m x : world_get (<[m := x]> w) m = x.
Proof. unfold world_get, world. by rewrite lookup_insert. Qed.

Lemma GoodD_reset s : Inv s → rctx s = false → (∃ L, Counts s L) → GoodD (s <| tape := [] |>).
Proof.
  intros HI Hc [L HL]. split; [apply (Inv_same s); [by repeat split|done]|].
  split; [done|split; [done|]]. exists L. by apply (Counts_same s).
Qed.

Theorem step_goodD w m o :
  allowedD o = true →
  (is_new o = false → GoodD (world_get w m) ∧ caller_ok (world_get w m) o) →
  GoodD (world_get (step w m o).1 m) ∧
  (step w m o).2 ≠ Err ENeedsReordering ∧ (step w m o).2 ≠ Err EOracle ∧
  (is_new o = false →
   ∀ L, Counts (world_get w m) L → keepsR L (world_get w m) (world_get (step w m o).1 m)).
Proof.
  intros Ha Hpre. rewrite (step_run w m o Ha). cbn [fst snd].
  set (s := world_get w m) in *.
  destruct (run_op w o s) as [r s'] eqn:E. cbn [fst snd].
  rewrite !world_get_insert.
  destruct (is_new o) eqn:Hnew.
  - (* the constructor *)
    destruct o; try discriminate Hnew. cbn [allowedD] in Ha.
    apply bool_decide_eq_true in Ha as [Hn1 Hn2].
    cbn [run_op bind modify] in E.
    apply bind_ret_inv in E as (r0&E&Hr).
    destruct (init_levels_total levels r0 s' Hn1 Hn2 E)
      as [(_&->&->)|(_&->&HI'&_&Hc'&_&HC')].
    + split; [|by rewrite Hr]. apply GoodD_reset; [apply Inv_init|done|].
      eexists. apply Counts_init.
    + split; [|by rewrite Hr]. apply GoodD_reset; [done|done|by eexists].
  - destruct (Hpre eq_refl) as [HG Hgd].
    destruct (run_opD_good w o s r s' HG Ha Hnew Hgd E) as ((HI'&Hc'&_&HL')&Hr1&Hr2&Hk).
    split; [by apply GoodD_reset|]. split; [done|split; [done|]].
    intros _ L HL u Hu0 Hh Hu. destruct (Hk L HL u Hu0 Hh Hu) as [Hv HD].
    split; [done|]. intros ρ. rewrite <- HD. by apply denv_same.
Qed.

(** histories: every call allowed and guarded in the state it meets *)
Fixpoint hist_okD (w : world) (m : nat) (ops : list op) : Prop :=
  match ops with
  | [] => True
  | o :: ops =>
      allowedD o = true ∧ is_new o = false ∧ caller_ok (world_get w m) o ∧
      hist_okD (fst (step w m o)) m ops
  end.
(** the outcomes of the calls of a history *)
Fixpoint outs (w : world) (m : nat) (ops : list op) : list (res value) :=
  match ops with
  | [] => []
  | o :: ops => snd (step w m o) :: outs (fst (step w m o)) m ops
  end.

Theorem run_goodD ops : ∀ w m,
  GoodD (world_get w m) → hist_okD w m ops →
  GoodD (world_get (Total.run w m ops) m) ∧
  Forall (fun r => r ≠ Err ENeedsReordering ∧ r ≠ Err EOracle) (outs w m ops).
Proof.
  induction ops as [|o ops IH]; intros w m HG Hh; [split; [exact HG|constructor]|].
  destruct Hh as (Ha&Hnew&Hgd&Hh). cbn [Total.run fold_left outs].
  destruct (step_goodD w m o Ha (fun _ => conj HG Hgd)) as (HG'&Hr1&Hr2&_).
  destruct (IH _ m HG' Hh) as [HGf Hall]. split; [done|]. by constructor.
Qed.

(** from the empty world: the first call constructs the manager; dynamic
    reordering may be switched on and off at will in between *)
Theorem run_goodD_from_new levels ops m :
  allowedD (ONew levels) = true →
  hist_okD (fst (step world_empty m (ONew levels))) m ops →
  GoodD (world_get (Total.run world_empty m (ONew levels :: ops)) m) ∧
  Forall (fun r => r ≠ Err ENeedsReordering ∧ r ≠ Err EOracle)
         (outs world_empty m (ONew levels :: ops)).
Proof.
  intros Ha Hh. cbn [Total.run fold_left outs].
  destruct (step_goodD world_empty m (ONew levels) Ha) as (HG&Hr1&Hr2&_); [by intros [=]|].
  destruct (run_goodD ops _ m HG Hh) as [HGf Hall]. split; [done|]. by constructor.
Qed.

(** *** the hypotheses are satisfiable: a history in which dynamic reordering
    is switched on, the forced trigger fires inside [apply] and later inside
    [quantify], references are released and collected, and reordering is
    switched off again *)
Definition histD_ops : list op :=
  [OVar 0; OIncref 2; OVar 1; OIncref 3; OVar 2; OIncref 4; OVar 3; OIncref 5;
   OApply "and" 2 (Some 4%Z) None; OIncref 6;
   OApply "and" 3 (Some 5%Z) None; OIncref 7;
   OApply "or" 6 (Some 7%Z) None; OIncref 10;
   OConfigure (Some true);
   OSetTrig (Some 1); OApply "and" 10 (Some 3%Z) None; OIncref 11;
   ODecref 10; OGc None;
   OSetTrig (Some 2); OQuantify 11 true [1] false;
   OConfigure (Some false); OCube [(0, true); (3, false)]].

Lemma histD_ok :
  hist_okD (fst (step world_empty 0 (ONew [(0, 0); (1, 1); (2, 2); (3, 3)]))) 0 histD_ops.
Proof.
  cbn [histD_ops hist_okD allowedD is_new caller_ok].
  repeat split. intros _. vm_compute. lia.
Qed.

Example histD_example :
  let w := Total.run world_empty 0 (ONew [(0, 0); (1, 1); (2, 2); (3, 3)] :: histD_ops) in
  GoodD (world_get w 0) ∧
  Forall (fun r => r ≠ Err ENeedsReordering ∧ r ≠ Err EOracle)
         (outs world_empty 0 (ONew [(0, 0); (1, 1); (2, 2); (3, 3)] :: histD_ops)).
Proof. apply run_goodD_from_new; [by vm_compute|apply histD_ok]. Qed.

(** what happened in that history (by running the model): both triggers were
    consumed, the order changed, every call returned normally *)
Example histD_trace :
  let ops := ONew [(0, 0); (1, 1); (2, 2); (3, 3)] :: histD_ops in
  let w17 := Total.run world_empty 0 (take 18 ops) in   (* after the first forced request *)
  let w22 := Total.run world_empty 0 (take 23 ops) in   (* after the second *)
  let w := Total.run world_empty 0 ops in
  trig (world_get w17 0) = None ∧ last_len (world_get w17 0) = Some 18 ∧
  vars (world_get w17 0) !! 2 = Some 0 ∧
  trig (world_get w22 0) = None ∧
  bool_decide (is_Some (last_len (world_get w22 0))) = true ∧
  last_len (world_get w 0) = None ∧
  forallb (fun r => match r with Ok _ => true | Err _ => false end)
          (outs world_empty 0 ops) = true.
Proof. vm_compute. by split_and!. Qed.
