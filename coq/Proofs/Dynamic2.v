(** * Dynamic2: the remaining instances of [try_to_reorder_correct] (C09):
      [compose] (one or several substitutions, by name), [rename], [cube],
      the quantifier rows of [apply], and [let].

    Same premises as in [Dynamic]: [sifting_ok'], [Inv s], [Counts s L],
    [rctx s = false], operands [valid] and held ([heldn L]). *)
From DD Require Export Total Support.
From DD Require Export Dynamic.

(** ** Safety under [no_reorder] (inside a context, or requests off).
    [Total.tsafe] is stated for [last_len = None]; the first attempt of the
    decorator runs with requests ON inside the context, where an operation
    may stop with the signal.  The primitives of [Total] do not use
    [last_len = None], so the same composition works. *)
Definition csafe {A} (m : MS A) : Prop :=
  ∀ s r s', Inv s → no_reorder s → m s = (r, s') → safe s s'.

Lemma safe_no_reorder s s' : safe s s' → no_reorder s → no_reorder s'.
Proof. intros (_&_&Hf&_). by apply no_reorder_frame. Qed.

Lemma csafe_pure {A} (m : MS A) : pure m → csafe m.
Proof. intros Hp s r s' HI _ H. rewrite (Hp _ _ _ H). by apply safe_refl. Qed.
Lemma csafe_bind {A B} (m : MS A) (f : A → MS B) :
  csafe m → (∀ a, csafe (f a)) → csafe (bind m f).
Proof.
  intros Hm Hf s r s' HI Hl. unfold bind. destruct (m s) as [[a|e] s1] eqn:E.
  - pose proof (Hm _ _ _ HI Hl E) as H1. intros H2.
    apply (safe_trans s s1 s'); [done|].
    apply (Hf a s1 r s'); [by apply (safe_Inv s)|by apply (safe_no_reorder s)|done].
  - intros [= <- <-]. by apply (Hm _ _ _ HI Hl E).
Qed.
Lemma csafe_forM {A} (l : list A) (f : A → MS unit) : (∀ a, csafe (f a)) → csafe (forM l f).
Proof.
  intros Hf. induction l as [|a l IH]; cbn [forM]; [apply csafe_pure, pure_ret|].
  apply csafe_bind; [apply Hf|done].
Qed.
Lemma csafe_mapM {A B} (f : A → MS B) (l : list A) : (∀ a, csafe (f a)) → csafe (mapM f l).
Proof.
  intros Hf. induction l as [|a l IH]; cbn [mapM]; [apply csafe_pure, pure_ret|].
  apply csafe_bind; [apply Hf|intros b].
  apply csafe_bind; [done|intros bs; apply csafe_pure, pure_ret].
Qed.
Lemma csafe_foldM {A B} (f : B → A → MS B) (l : list A) :
  (∀ b a, csafe (f b a)) → ∀ b, csafe (foldM f b l).
Proof.
  intros Hf. induction l as [|a l IH]; intros b; cbn [foldM]; [apply csafe_pure, pure_ret|].
  apply csafe_bind; [apply Hf|done].
Qed.

(** a nested decorated call never reorders under [no_reorder] *)
Lemma csafe_try_to_reorder {A} (func : MS A) :
  nrf func → csafe func → csafe (try_to_reorder func).
Proof.
  intros Hn Hs s r s' HI Hnr H.
  apply try_to_reorder_inert in H as (r1&s1&Hf&Hcase).
  assert (HI0 : Inv (s <| rctx := true |>)) by (by apply Inv_rctx).
  pose proof (Hs _ _ _ HI0 (or_introl eq_refl) Hf) as Hsafe.
  destruct Hcase as [[-> Hc]|[-> ->]].
  - exfalso. destruct Hnr as [?|Hl]; [congruence|].
    assert (Hl' : last_len (s <| rctx := true |>) = None) by done.
    by destruct (Hn _ _ _ Hl' Hf) as [_ ?].
  - by apply safe_ttr.
Qed.

Ltac csafe_step :=
  lazymatch goal with
  | |- csafe (ret _) => apply csafe_pure, pure_ret
  | |- csafe (raise _) => apply csafe_pure, pure_raise
  | |- csafe get => apply csafe_pure, pure_get
  | |- csafe (assert _) => apply csafe_pure, pure_assert
  | |- csafe (ensure _ _) => apply csafe_pure, pure_ensure
  | |- csafe (of_opt _ _) => apply csafe_pure, pure_of_opt
  | |- csafe (getsucc _) => apply csafe_pure, pure_getsucc
  | |- csafe (getref _) => apply csafe_pure, pure_getref
  | |- csafe (getsuccZ _) => apply csafe_pure, pure_getsuccZ
  | |- csafe (level_of _) => apply csafe_pure, pure_level_of
  | |- csafe (level_of_var _) => apply csafe_pure, pure_level_of_var
  | |- csafe (var_at_level _) => apply csafe_pure, pure_var_at_level
  | |- csafe (bind _ _) => apply csafe_bind; [|intros ?]
  | |- csafe (forM _ _) => apply csafe_forM; intros ?
  | |- csafe (mapM _ _) => apply csafe_mapM; intros ?
  | |- csafe (foldM _ _ _) => apply csafe_foldM; intros ? ?
  | |- csafe (if decide _ then _ else _) => case_decide
  | |- csafe (if ?b then _ else _) => destruct b
  | |- csafe (match ?x with _ => _ end) => destruct x
  | |- csafe (let '(_, _) := ?x in _) => destruct x
  end.
Ltac csafe := repeat first [assumption | csafe_step].

Lemma csafe_find_or_add_var j : csafe (find_or_add j (-1) 1).
Proof. intros s r s' HI _ H. by apply (find_or_add_var_total s j r s'). Qed.
Lemma csafe_ite_ g u v : csafe (ite_ g u v).
Proof.
  intros s r s' HI _ H. unfold ite_ in H. cbn [bind get] in H.
  apply ite_rec_total in H as [? _]; [done|done|lia].
Qed.
Lemma csafe_ite g u v : csafe (ite g u v).
Proof. apply csafe_try_to_reorder; [apply nrf_ite_|apply csafe_ite_]. Qed.
Lemma csafe_var name : csafe (var name).
Proof.
  unfold var. apply csafe_try_to_reorder.
  - nrf. apply nrf_find_or_add.
  - csafe. apply csafe_find_or_add_var.
Qed.
Lemma csafe_vector_compose_rec fuel : ∀ f_ ls cache, csafe (vector_compose_rec fuel f_ ls cache).
Proof.
  induction fuel as [|f IH]; intros f_ ls cache; cbn [vector_compose_rec];
    [apply csafe_pure, pure_raise|].
  csafe; first [apply IH | apply csafe_ite | apply csafe_find_or_add_var].
Qed.
Lemma csafe_copy_bdd_rec fuel : ∀ src u lm cache, csafe (copy_bdd_rec fuel src u lm cache).
Proof.
  induction fuel as [|f IH]; intros src u lm cache; cbn [copy_bdd_rec];
    [apply csafe_pure, pure_raise|].
  csafe; first [apply IH | apply csafe_ite | apply csafe_find_or_add_var].
Qed.

(** [_compose] builds nodes at computed levels: counts via its specification *)
Lemma compose_rec_counts_nr fuel : ∀ s L f_ j g cache r s',
  Inv s → Counts s L → valid s f_ → valid s g → no_reorder s →
  cache_ok_c s j cache →
  nvars s - (lvl_of s f_ `min` lvl_of s g) < fuel →
  compose_rec fuel f_ j g cache s = (r, s') → Counts s' L.
Proof.
  induction fuel as [|fu IH]; intros s L f_ j g cache r s' HI HL Hf Hg Hnr Hc Hfuel; [lia|].
  cbn [compose_rec].
  destruct (decide (absn f_ = 1%positive ∧ f_ ≠ 0%Z)) as [[E1 _]|Hnt]; [by intros [= <- <-]|].
  destruct (cache !! (f_, g)) as [x|] eqn:Hcu; [by intros [= <- <-]|].
  destruct (node_cases s HI f_ Hf) as [[E El]|(t&Ht&Hn1&Hlo&Hl&Hln&Hvl&Hvh&Hhp&Hll&Hlh&Hne)].
  { exfalso. apply Hnt. split; [done|apply Hf]. }
  rewrite (bind_ok _ _ _ _ _ (getsuccZ_ok s f_ t (proj1 Hf) Ht)).
  unfold is_term, assert. rewrite bool_decide_eq_false_2 by done. cbn [negb].
  rewrite (bind_ok _ _ s tt s) by done.
  destruct (decide (j < t_lvl t)) as [Hji|Hji]; [by intros [= <- <-]|].
  destruct (decide (t_lvl t = j)) as [Eij|Hij].
  - rewrite bind_assoc.
    destruct (ite g (t_hi t) (t_lo t) s) as [rw s1] eqn:Ew.
    assert (HC1 : Counts s1 L).
    { destruct (csafe_ite _ _ _ _ _ _ HI Hnr Ew) as (_&_&_&HC). by apply HC. }
    destruct rw as [w|e].
    + rewrite (bind_ok _ _ _ _ _ Ew). cbn [bind ret]. by intros [= <- <-].
    + rewrite (bind_err _ _ _ _ _ Ew). by intros [= <- <-].
  - rewrite bind_assoc.
    rewrite (bind_ok _ _ _ _ _ (level_of_ok s g Hg)). cbv beta zeta.
    set (z := t_lvl t `min` lvl_of s g) in *.
    assert (Hzf : z ≤ lvl_of s f_) by (rewrite Hl; apply Nat.le_min_l).
    assert (Hzg : z ≤ lvl_of s g) by apply Nat.le_min_r.
    assert (Hzn : z < nvars s) by (pose proof (Nat.le_min_l (t_lvl t) (lvl_of s g)); lia).
    assert (Hfuel' : nvars s - z < S fu) by (subst z; by rewrite <- Hl).
    destruct (top_cofactor_ok s f_ z HI Hf Hzf) as (f0&f1&Ef&Hvf0&Hvf1&Lf0&Lf1&_&_&Df).
    destruct (top_cofactor_ok s g z HI Hg Hzg) as (g0&g1&Eg&Hvg0&Hvg1&Lg0&Lg1&_&_&Dg).
    apply above_or_term in Lf0, Lf1, Lg0, Lg1; try done.
    rewrite bind_assoc, (bind_ok _ _ _ _ _ Ef). cbv beta iota.
    rewrite bind_assoc, (bind_ok _ _ _ _ _ Eg). cbv beta iota.
    rewrite bind_assoc.
    clearbody z. clear Hfuel.
    destruct (compose_rec fu f0 j g0 cache s) as [rp s1] eqn:Ep.
    assert (HC1 : Counts s1 L).
    { apply (IH s L f0 j g0 cache rp s1); try done. by apply (min_descent z). }
    pose proof Ep as Ep'.
    apply compose_rec_aux in Ep' as (HI1&He1&Hf1&Hp);
      [|done|done|done|done|done|by apply (min_descent z)].
    destruct rp as [[p c1]|e]; cycle 1.
    { rewrite (bind_err _ _ _ _ _ Ep). by intros [= <- <-]. }
    rewrite (bind_ok _ _ _ _ _ Ep). cbv beta iota. rewrite bind_assoc.
    destruct Hp as (Hpv&Hpl&Hc1&HpD).
    assert (Hnv1 : nvars s1 = nvars s) by (by apply extends_nvars).
    assert (Hnr1 : no_reorder s1) by (by apply (no_reorder_frame s s1)).
    destruct (compose_rec fu f1 j g1 c1 s1) as [rq s2] eqn:Eq.
    assert (HC2 : Counts s2 L).
    { apply (IH s1 L f1 j g1 c1 rq s2); try done; try (by apply (valid_extends s s1)).
      rewrite Hnv1, !(lvl_extends s s1) by done; by apply (min_descent z). }
    pose proof Eq as Eq'.
    apply compose_rec_aux in Eq' as (HI2&He2&Hf2&Hq);
      [|done|by apply (valid_extends s s1)|by apply (valid_extends s s1)
       |done|done
       |rewrite Hnv1, !(lvl_extends s s1) by done; by apply (min_descent z)].
    destruct rq as [[q c2]|e]; cycle 1.
    { rewrite (bind_err _ _ _ _ _ Eq). by intros [= <- <-]. }
    rewrite (bind_ok _ _ _ _ _ Eq). cbv beta iota. rewrite bind_assoc.
    destruct (find_or_add z p q s2) as [rw s3] eqn:Ew.
    assert (HC3 : Counts s3 L) by (by apply (find_or_add_counts s2 L _ _ _ _ _ HI2 HC2 Ew)).
    destruct rw as [w|e].
    + rewrite (bind_ok _ _ _ _ _ Ew). cbn [bind ret]. by intros [= <- <-].
    + rewrite (bind_err _ _ _ _ _ Ew). by intros [= <- <-].
Qed.

(** shape of [spec_run] from [safe] *)
Lemma spec_intro (s s' : st) (M : Prop) :
  safe s s' → M →
  Inv s' ∧ extends s s' ∧ frame s s' ∧ (∀ L, Counts s L → Counts s' L) ∧ M.
Proof. intros (?&?&?&?) ?. by split_and!. Qed.

(** ** By-name reading of level dictionaries built from name dictionaries *)
Definition levA {A} (s : st) (p : nat * A) : nat * A := (default 0 (vars s !! p.1), p.2).

Lemma list_to_map_levA {A} s (l : list (nat * A)) x j :
  Inv s → Forall (fun p => is_Some (vars s !! p.1)) l → vars s !! x = Some j →
  (list_to_map (levA s <$> l) : gmap nat A) !! j = (list_to_map l : gmap nat A) !! x.
Proof.
  intros HI HF Hx. induction HF as [|[k a] l [lk Hk] _ IH]; [done|].
  cbn [fst] in Hk.
  change (levA s <$> (k, a) :: l) with (levA s (k, a) :: (levA s <$> l)).
  assert (levA s (k, a) = (lk, a)) as -> by (unfold levA; cbn [fst snd]; by rewrite Hk).
  rewrite !list_to_map_cons.
  destruct (decide (k = x)) as [->|Hne].
  - assert (lk = j) by congruence. subst lk. by rewrite !lookup_insert.
  - rewrite !lookup_insert_ne; [done|done|].
    intros ->. apply Hne. apply (inv_vars _ HI) in Hk, Hx. congruence.
Qed.

Lemma aof_extends s s' ρ l : extends s s' → aof s' ρ l = aof s ρ l.
Proof. intros (_&_&El). unfold aof. by rewrite El. Qed.

Lemma denv_D_names s u ρ (b : nat → bool) : Inv s → valid s u →
  (∀ l y, l < nvars s → lvl2var s !! l = Some y → vars s !! y = Some l → b l = ρ y) →
  D s u b = denv s u ρ.
Proof.
  intros HI Hu H. rewrite denv_aof. apply (D_indep_lt s HI); [done|].
  intros l Hl. pose proof Hl as Hl'. apply (inv_lvls _ HI) in Hl' as [y Hy].
  unfold aof. rewrite Hy. apply (H l y); [done|done|by apply (inv_vars _ HI)].
Qed.

(** ** [compose]: simultaneous substitution of references for names *)
Definition vsubstv (s : st) (nsub : gmap nat Z) (ρ : nat → bool) : nat → bool :=
  fun y => match nsub !! y with Some g => denv s g ρ | None => ρ y end.
Definition sub_ok (s : st) (var_sub : list (nat * Z)) : Prop :=
  Forall (fun p => is_Some (vars s !! p.1) ∧ valid s p.2) var_sub.
Definition sub_held (K : positive → Prop) (var_sub : list (nat * Z)) : Prop :=
  Forall (fun p => K (absn p.2)) var_sub.
Definition compose_pre (f : Z) (var_sub : list (nat * Z)) (s : st) : Prop :=
  valid s f ∧ sub_ok s var_sub.
Definition compose_post (f : Z) (var_sub : list (nat * Z)) (s : st) (x : Z) (s' : st) : Prop :=
  valid s' x ∧
  ∀ ρ, denv s' x ρ = denv s f (vsubstv s (list_to_map (reverse var_sub)) ρ).

Lemma sub_ok_declared s l : sub_ok s l → Forall (fun p : nat * Z => is_Some (vars s !! p.1)) l.
Proof. intros H. eapply Forall_impl; [exact H|]. by intros p [? _]. Qed.

Lemma sub_lookup_valid s (l : list (nat * Z)) y g :
  sub_ok s l → (list_to_map (reverse l) : gmap nat Z) !! y = Some g → valid s g.
Proof.
  intros HF H. apply elem_of_list_to_map_2 in H. rewrite elem_of_reverse in H.
  unfold sub_ok in HF. rewrite Forall_forall in HF. by destruct (HF _ H) as [_ ?].
Qed.

Lemma sub_mapM s (l : list (nat * Z)) : sub_ok s l →
  mapM (fun '(var, g) => l <- level_of_var var ;; ret (l, g)) l s = (Ok (levA s <$> l), s).
Proof.
  intros HF. apply mapM_pure. intros [var g] Hin.
  unfold sub_ok in HF. rewrite Forall_forall in HF. destruct (HF _ Hin) as [[j Hj] _]. cbn [fst] in Hj.
  rewrite (bind_ok _ _ _ _ _ (level_of_var_ok s j var Hj)).
  unfold levA. cbn [fst snd]. by rewrite Hj.
Qed.

(** the general branch: [_vector_compose] *)
Lemma vec_body_spec s f l r s' :
  Inv s → valid s f → sub_ok s l → no_reorder s →
  (dv <- mapM (fun '(var, g) => l <- level_of_var var ;; ret (l, g)) l ;;
   r <- vector_compose_rec (S (S (2 * nvars s))) f (list_to_map (reverse dv)) ∅ ;;
   ret (fst r)) s = (r, s') →
  safe s s' ∧
  match r with
  | Ok x => compose_post f l s x s'
  | Err e => benign s e
  end.
Proof.
  intros HI Hf Hok Hnr Hrun.
  rewrite (bind_ok _ _ _ _ _ (sub_mapM s l Hok)) in Hrun.
  set (ls := list_to_map (reverse (levA s <$> l)) : gmap nat Z) in *.
  assert (Hls : ∀ x j, vars s !! x = Some j →
            ls !! j = (list_to_map (reverse l) : gmap nat Z) !! x).
  { intros x j Hx. subst ls. rewrite <- fmap_reverse.
    apply list_to_map_levA; [done| |done]. apply Forall_reverse. by apply sub_ok_declared. }
  assert (Hlsv : ∀ j g, ls !! j = Some g → valid s g).
  { intros j g Hj. subst ls. apply elem_of_list_to_map_2 in Hj.
    rewrite elem_of_reverse, elem_of_list_fmap in Hj. destruct Hj as ([y g']&[= -> ->]&Hin).
    unfold sub_ok in Hok. rewrite Forall_forall in Hok. by destruct (Hok _ Hin) as [_ ?]. }
  destruct (vector_compose_rec (S (S (2 * nvars s))) f ls ∅ s) as [rr s2] eqn:Er.
  assert (Hsafe : safe s s2)
    by (by apply (csafe_vector_compose_rec (S (S (2 * nvars s))) f ls ∅ s rr s2)).
  assert (Hfu : nvars s - lvl_of s f < S (S (2 * nvars s))) by lia.
  assert (Hc0 : vcache_ok s ls ∅) by (intros n x Hn; by rewrite lookup_empty in Hn).
  pose proof (vector_compose_rec_spec (S (S (2 * nvars s))) s f ls ∅ rr s2 HI Hf Hnr Hlsv Hc0 Hfu Er)
    as (HI2&He2&Hf2&Hr).
  destruct rr as [[x c]|e]; cycle 1.
  { rewrite (bind_err _ _ _ _ _ Er) in Hrun. injection Hrun as <- <-. by split. }
  rewrite (bind_ok _ _ _ _ _ Er) in Hrun. cbn [ret fst] in Hrun. injection Hrun as <- <-.
  split; [done|]. destruct Hr as (Hxv&_&HxD). split; [done|].
  intros ρ. rewrite denv_aof, HxD. apply denv_D_names; [done|done|].
  intros j y Hj Hy Hv. unfold vsubst, vsubstv. rewrite (Hls y j Hv).
  destruct (list_to_map (reverse l) !! y) as [g|] eqn:Eg.
  - rewrite denv_aof. apply D_ext. intros k. by apply aof_extends.
  - rewrite (aof_extends s s2) by done. unfold aof. by rewrite Hy.
Qed.

(** the branch for exactly one substitution: [_compose] *)
Lemma single_body_spec s f var g r s' :
  Inv s → valid s f → sub_ok s [(var, g)] → no_reorder s →
  (j <- level_of_var var ;;
   r <- compose_rec (S (S (2 * nvars s))) f j g ∅ ;; ret (fst r)) s = (r, s') →
  safe s s' ∧
  match r with
  | Ok x => compose_post f [(var, g)] s x s'
  | Err e => benign s e
  end.
Proof.
  intros HI Hf Hok Hnr Hrun.
  apply Forall_cons in Hok as [[[j Hj] Hg] _]. cbn [fst snd] in Hj, Hg.
  rewrite (bind_ok _ _ _ _ _ (level_of_var_ok s j var Hj)) in Hrun.
  destruct (compose_rec (S (S (2 * nvars s))) f j g ∅ s) as [rr s2] eqn:Er.
  pose proof (compose_rec_aux _ s f j g ∅ rr s2 HI Hf Hg Hnr (cache_ok_c_empty s j)
                (compose_fuel_ok s f g) Er) as (HI2&He2&Hf2&Hr).
  assert (Hsafe : safe s s2).
  { split; [done|split; [done|split; [done|]]]. intros L HL.
    by apply (compose_rec_counts_nr _ s L f j g ∅ rr s2 HI HL Hf Hg Hnr
                (cache_ok_c_empty s j) (compose_fuel_ok s f g) Er). }
  destruct rr as [[x c]|e]; cycle 1.
  { rewrite (bind_err _ _ _ _ _ Er) in Hrun. injection Hrun as <- <-. by split. }
  rewrite (bind_ok _ _ _ _ _ Er) in Hrun. cbn [ret fst] in Hrun. injection Hrun as <- <-.
  split; [done|]. destruct Hr as (Hxv&_&_&HxD). split; [done|].
  intros ρ. rewrite denv_aof, HxD. apply denv_D_names; [done|done|].
  intros l y Hl Hy Hv. unfold vsubstv.
  change (reverse [(var, g)]) with [(var, g)].
  change (list_to_map [(var, g)] : gmap nat Z) with (<[var := g]> (∅ : gmap nat Z)).
  destruct (decide (y = var)) as [->|Hne].
  - assert (l = j) as -> by congruence. rewrite lookup_insert, upd_same.
    rewrite denv_aof. apply D_ext. intros k. by apply aof_extends.
  - rewrite lookup_insert_ne, lookup_empty by done.
    rewrite upd_other.
    + rewrite (aof_extends s s2) by done. unfold aof. by rewrite Hy.
    + intros ->. apply Hne. by apply (vars_inj s y var j).
Qed.

Lemma compose_op_spec (K : positive → Prop) f var_sub :
  K (absn f) → sub_held K var_sub →
  op_spec (compose_body f var_sub) K (compose_pre f var_sub) (compose_post f var_sub).
Proof.
  intros Kf Kg. split.
  - intros s r s' HI [Hf Hok] Hnr Hrun. unfold compose_body in Hrun.
    cbn [bind get] in Hrun. cbv zeta in Hrun.
    apply and_assoc. cut (safe s s' ∧ match r with
                          | Ok x => compose_post f var_sub s x s'
                          | Err e => benign s e end).
    { intros [(?&?&?&?) ?]. by split_and!. }
    destruct var_sub as [|[var g] [|xg rest]].
    + by apply (vec_body_spec s f []).
    + by apply (single_body_spec s f var g).
    + by apply (vec_body_spec s f ((var, g) :: xg :: rest)).
  - intros s s' HI HI' [Ed Hk] [Hf Hok]. split.
    + by apply (Hk f (proj1 Hf) Kf Hf).
    + unfold sub_ok, sub_held in *. rewrite Forall_forall in *.
      intros p Hp. destruct (Hok p Hp) as [Hd Hv]. split.
      * apply elem_of_dom. rewrite Ed. by apply elem_of_dom.
      * by apply (Hk p.2 (proj1 Hv) (Kg p Hp) Hv).
  - intros s0 s x s' HI0 HI [_ Hk] [Hf Hok] [Hx HD]. split; [done|].
    intros ρ. rewrite HD.
    destruct (Hk f (proj1 Hf) Kf Hf) as [_ ->].
    rewrite !denv_aof. apply D_ext. intros l. unfold aof.
    destruct (lvl2var s0 !! l) as [y|]; [|done]. unfold vsubstv.
    destruct (list_to_map (reverse var_sub) !! y) as [g|] eqn:Eg; [|done].
    pose proof (sub_lookup_valid s0 var_sub y g Hok Eg) as Hg.
    apply elem_of_list_to_map_2 in Eg. rewrite elem_of_reverse in Eg.
    unfold sub_held in Kg. rewrite Forall_forall in Kg.
    by destruct (Hk g (proj1 Hg) (Kg _ Eg) Hg) as [_ ->].
  - intros s x s' s'' (E1&_&_&_&_&E6&E7) [Hx HD]. split; [by apply (valid_same s')|].
    intros ρ. rewrite <- HD. by rewrite (denv_same s' s'').
Qed.

Theorem compose_dynamic s L f var_sub r s' :
  sifting_ok' →
  Inv s → Counts s L → rctx s = false → max_nodes s = None →
  valid s f → heldn L (absn f) →
  Forall (fun p => is_Some (vars s !! p.1) ∧ valid s p.2 ∧ heldn L (absn p.2)) var_sub →
  compose f var_sub s = (r, s') →
  r = Err EOracle ∨
  ∃ x, r = Ok x ∧ Inv s' ∧ Counts s' L ∧ rctx s' = false ∧
       (last_len s = None → last_len s' = None) ∧
       (is_Some (last_len s) → is_Some (last_len s')) ∧
       keeps (heldn L) s s' ∧
       valid s' x ∧
       ∀ ρ, denv s' x ρ = denv s f (vsubstv s (list_to_map (reverse var_sub)) ρ).
Proof.
  intros Hs HI HC Hc Hmx Hf Kf HF Hrun.
  change (compose f var_sub) with (try_to_reorder (compose_body f var_sub)) in Hrun.
  assert (Hok : sub_ok s var_sub) by (eapply Forall_impl; [exact HF|]; by intros p (?&?&_)).
  assert (Hheld : sub_held (heldn L) var_sub)
    by (eapply Forall_impl; [exact HF|]; by intros p (_&_&?)).
  destruct (try_to_reorder_correct (compose_body f var_sub) (compose_pre f var_sub)
              (compose_post f var_sub) s L r s' Hs
              (compose_op_spec _ f var_sub Kf Hheld) HI HC)
    as [?|(x&?&?&?&?&?&?&?&?&?)]; try done; [by left|right]. by exists x.
Qed.

(** one substitution, spelled out *)
Corollary compose1_dynamic s L f v g r s' :
  sifting_ok' →
  Inv s → Counts s L → rctx s = false → max_nodes s = None →
  valid s f → heldn L (absn f) →
  is_Some (vars s !! v) → valid s g → heldn L (absn g) →
  compose f [(v, g)] s = (r, s') →
  r = Err EOracle ∨
  ∃ x, r = Ok x ∧ Inv s' ∧ Counts s' L ∧ rctx s' = false ∧
       (last_len s = None → last_len s' = None) ∧
       (is_Some (last_len s) → is_Some (last_len s')) ∧
       keeps (heldn L) s s' ∧
       valid s' x ∧
       ∀ ρ, denv s' x ρ =
            denv s f (fun y => if decide (y = v) then denv s g ρ else ρ y).
Proof.
  intros Hs HI HC Hc Hmx Hf Kf Hv Hg Kg Hrun.
  destruct (compose_dynamic s L f [(v, g)] r s' Hs HI HC Hc Hmx Hf Kf) as [?|(x&?&?&?&?&?&?&?&?&HD)];
    [constructor; [by split_and!|constructor]|done|by left|right].
  exists x. do 8 (split; [done|]). intros ρ. rewrite HD.
  rewrite !denv_aof. apply D_ext. intros l. unfold aof.
  destruct (lvl2var s !! l) as [y|]; [|done]. unfold vsubstv.
  change (reverse [(v, g)]) with [(v, g)].
  change (list_to_map [(v, g)] : gmap nat Z) with (<[v := g]> (∅ : gmap nat Z)).
  destruct (decide (y = v)) as [->|Hne].
  - by rewrite lookup_insert.
  - by rewrite lookup_insert_ne, lookup_empty.
Qed.

(** ** [rename]: substitution of names for names *)
Definition renv (d : gmap nat nat) (ρ : nat → bool) : nat → bool :=
  fun y => ρ (default y (d !! y)).
Definition rename_pre (u : Z) (dvars : list (nat * nat)) (s : st) : Prop :=
  valid s u ∧ ∀ x y, (x, y) ∈ dvars → is_Some (vars s !! y).
Definition rename_post (u : Z) (dvars : list (nat * nat)) (s : st) (x : Z) (s' : st) : Prop :=
  valid s' x ∧ ∀ ρ, denv s' x ρ = denv s u (renv (list_to_map (reverse dvars)) ρ).

Lemma csafe_rename_ u dvars : csafe (rename_ u dvars).
Proof. unfold rename_. csafe; apply csafe_copy_bdd_rec. Qed.

Lemma rename_body_spec s u dvars r s' :
  Inv s → rename_pre u dvars s → no_reorder s →
  rename_ u dvars s = (r, s') →
  match r with
  | Ok x => rename_post u dvars s x s'
  | Err e => benign s e
  end.
Proof.
  intros HI [Hu Hdecl] Hnr Hrun.
  unfold rename_ in Hrun. rewrite bind_get in Hrun.
  assert (Hm : ensure (S:=st) EValue (mem u s) s = (Ok tt, s)).
  { unfold ensure. by rewrite (proj2 (mem_valid s u) Hu). }
  rewrite (bind_ok _ _ _ _ _ Hm) in Hrun.
  destruct dvars as [|xy dv].
  { unfold ret in Hrun. injection Hrun as <- <-. split; [done|].
    intros ρ. rewrite !denv_aof. apply D_ext. intros l. unfold aof.
    destruct (lvl2var s !! l) as [y|]; [|done]. unfold renv.
    change (list_to_map (reverse [])) with (∅ : gmap nat nat). by rewrite lookup_empty. }
  set (dvars := xy :: dv) in *. clearbody dvars. clear xy dv.
  set (d := list_to_map (reverse dvars) : gmap nat nat) in *.
  assert (Hall : ∀ var l, vars s !! var = Some l →
            is_Some (vars s !! default var (d !! var))).
  { intros var l Hv. destruct (d !! var) as [y|] eqn:Ed; simpl; [|by eexists].
    apply (Hdecl var). subst d. apply elem_of_list_to_map_2 in Ed.
    by rewrite elem_of_reverse in Ed. }
  assert (Htot : ∀ l, l < nvars s →
            ∃ l', rename_level_map s dvars !! l = Some l' ∧ l' < nvars s).
  { intros l Hl. destruct (level_name s l HI Hl) as (v&Hv).
    destruct (Hall v l Hv) as [l' Hl']. exists l'. split.
    - apply rename_level_map_spec; [done|]. by exists v.
    - exact (name_level s _ l' HI Hl'). }
  assert (Hrun' : bind (copy_bdd_rec (S (S (nvars s))) None u (rename_level_map s dvars) ∅)
                       (fun r => ret (fst r)) s = (r, s')).
  { rewrite <- Hrun.
    rewrite (bind_ok _ _ _ _ _ (rename_mapM_ok (vars s) d
       (map_to_list (vars s)) s
       (fun v l Hin => Hall v l (proj1 (elem_of_map_to_list _ _ _) Hin)))).
    done. }
  clear Hrun.
  destruct (copy_bdd_rec (S (S (nvars s))) None u (rename_level_map s dvars) ∅ s)
    as [rc s2] eqn:Ec.
  pose proof Ec as Ec'.
  apply (copy_bdd_rec_spec _ s) in Ec' as (HI2&He2&Hf2&Hr);
    [|done|done|done|done|by right|done|done|lia].
  destruct rc as [[x c]|e]; cycle 1.
  { rewrite (bind_err _ _ _ _ _ Ec) in Hrun'. by injection Hrun' as <- <-. }
  rewrite (bind_ok _ _ _ _ _ Ec) in Hrun'. unfold ret in Hrun'. injection Hrun' as <- <-.
  destruct Hr as (Hxv&_&_&HxD). split; [done|].
  intros ρ. rewrite denv_aof, HxD. apply denv_D_names; [done|done|].
  intros l y Hl Hy Hv. unfold lmap, renv.
  destruct (Hall y l Hv) as [l' Hl'].
  rewrite (proj2 (rename_level_map_spec s dvars l l' HI)) by (by exists y).
  rewrite (aof_extends s s2) by done. unfold aof.
  apply (inv_vars _ HI) in Hl'. by rewrite Hl'.
Qed.

Lemma rename_op_spec (K : positive → Prop) u dvars :
  K (absn u) →
  op_spec (rename_ u dvars) K (rename_pre u dvars) (rename_post u dvars).
Proof.
  intros Ku. split.
  - intros s r s' HI HP Hnr Hrun. apply spec_intro.
    + by apply (csafe_rename_ u dvars s r s').
    + by apply (rename_body_spec s u dvars r s').
  - intros s s' HI HI' [Ed Hk] [Hu Hd]. split.
    + by apply (Hk u (proj1 Hu) Ku Hu).
    + intros x y Hin. apply elem_of_dom. rewrite Ed. apply elem_of_dom. by apply (Hd x y).
  - intros s0 s x s' HI0 HI [_ Hk] [Hu _] [Hx HD]. split; [done|].
    intros ρ. rewrite HD. by destruct (Hk u (proj1 Hu) Ku Hu) as [_ ->].
  - intros s x s' s'' (E1&_&_&_&_&E6&E7) [Hx HD]. split; [by apply (valid_same s')|].
    intros ρ. rewrite <- HD. by rewrite (denv_same s' s'').
Qed.

Theorem rename_dynamic s L u dvars r s' :
  sifting_ok' →
  Inv s → Counts s L → rctx s = false → max_nodes s = None →
  valid s u → heldn L (absn u) →
  (∀ x y, (x, y) ∈ dvars → is_Some (vars s !! y)) →
  rename u dvars s = (r, s') →
  r = Err EOracle ∨
  ∃ x, r = Ok x ∧ Inv s' ∧ Counts s' L ∧ rctx s' = false ∧
       (last_len s = None → last_len s' = None) ∧
       (is_Some (last_len s) → is_Some (last_len s')) ∧
       keeps (heldn L) s s' ∧
       valid s' x ∧
       ∀ ρ, denv s' x ρ = denv s u (renv (list_to_map (reverse dvars)) ρ).
Proof.
  intros Hs HI HC Hc Hmx Hu Ku Hd Hrun. unfold rename in Hrun.
  destruct (try_to_reorder_correct (rename_ u dvars) (rename_pre u dvars)
              (rename_post u dvars) s L r s' Hs (rename_op_spec _ u dvars Ku) HI HC)
    as [?|(x&?&?&?&?&?&?&?&?&?)]; try done; [by left|right]. by exists x.
Qed.

(** ** [cube]: conjunction of literals *)
Local Open Scope string_scope.

(** the nested decorated [var], inside a context or with requests off *)
Lemma var_nr s name r s' :
  Inv s → is_Some (vars s !! name) → no_reorder s →
  var name s = (r, s') →
  safe s s' ∧
  match r with
  | Ok w => valid s' w ∧ ∀ ρ, denv s' w ρ = ρ name
  | Err e => benign s e
  end.
Proof.
  intros HI Hn Hnr Hrun. split; [by apply (csafe_var name s r s')|].
  change (var name) with (try_to_reorder (var_body name)) in Hrun.
  apply try_to_reorder_inert in Hrun as (r1&s1&Hrun&Hcase).
  set (s0 := s <| rctx := true |>) in *.
  assert (HI0 : Inv s0) by (by apply Inv_rctx).
  destruct (spec_run _ _ _ _ (var_op_spec (fun _ => True) name) s0 r1 s1 HI0 Hn
              (or_introl eq_refl) Hrun) as (_&_&_&_&Hr).
  destruct Hcase as [[-> Hc]|[-> ->]].
  - destruct Hr as [[_ [l Hl]]|[[=] _]]. change (last_len s0) with (last_len s) in Hl.
    destruct Hnr as [?|?]; congruence.
  - destruct r1 as [w|e]; [|done]. destruct Hr as [Hw HD]. split; [done|].
    intros ρ. rewrite <- HD. by apply denv_same.
Qed.

(** [apply "and"] is [ite u v FALSE] *)
Lemma apply_and_nr s u v r s' :
  Inv s → valid s u → valid s v → no_reorder s →
  apply "and" u (Some v) None s = (r, s') →
  safe s s' ∧
  match r with
  | Ok x => valid s' x ∧ ∀ a, D s' x a = D s u a && D s v a
  | Err e => benign s e
  end.
Proof.
  intros HI Hu Hv Hnr. unfold apply, apply_with, ensure.
  assert (Har : arity_ok "and" (Some v) None = true) by (by vm_compute).
  assert (Hft : find_template apply_table "and" = Some (TIte OU OV OFalse)) by (by vm_compute).
  rewrite Har. rewrite (bind_ok _ _ s tt s) by done. cbn [bind get].
  rewrite (proj2 (mem_valid s u) Hu). rewrite (bind_ok _ _ s tt s) by done.
  rewrite (proj2 (mem_valid s v) Hv). rewrite !(bind_ok _ _ s tt s) by done.
  rewrite Hft. cbn [eval_operand from_option id]. intros Hrun.
  split; [by apply (csafe_ite u v (-1) s r s')|].
  apply ite_spec in Hrun as (_&_&_&Hr); [|done|done|done|by apply valid_m1|done].
  destruct r as [x|e]; [|done]. destruct Hr as (Hx&_&HD). split; [done|].
  intros a. rewrite HD, (D_m1 s HI). by destruct (D s u a), (D s v a).
Qed.

Definition cube_step (r : Z) (p : nat * bool) : MS Z :=
  let '(v, val) := p in
  u <- var v ;; apply "and" (if val : bool then u else (- u)%Z) (Some r) None.

Lemma cube_fold_spec : ∀ (dvars : list (nat * bool)) s r0 r s',
  Inv s → valid s r0 → Forall (fun p => is_Some (vars s !! p.1)) dvars → no_reorder s →
  foldM cube_step r0 dvars s = (r, s') →
  safe s s' ∧
  match r with
  | Ok x => valid s' x ∧
      ∀ ρ, denv s' x ρ = true ↔ denv s r0 ρ = true ∧ ∀ v b, (v, b) ∈ dvars → ρ v = b
  | Err e => benign s e
  end.
Proof.
  induction dvars as [|[v b] l IH]; intros s r0 r s' HI Hr0 HF Hnr.
  { cbn [foldM]. intros [= <- <-]. split; [by apply safe_refl|]. split; [done|].
    intros ρ. split; [intros ?; split; [done|]; intros ? ? Hin; by apply elem_of_nil in Hin|by intros [? _]]. }
  apply Forall_cons in HF as [Hv HF]. cbn [fst] in Hv.
  cbn [foldM]. unfold cube_step at 1.
  destruct (var v s) as [ru s1] eqn:Eu.
  destruct (var_nr s v ru s1 HI Hv Hnr Eu) as [Hs1 Hru].
  pose proof Hs1 as (HI1&He1&Hf1&_).
  destruct ru as [w|e]; cycle 1.
  { rewrite (bind_err _ _ s e s1) by (by rewrite (bind_err _ _ _ _ _ Eu)).
    intros [= <- <-]. by split. }
  destruct Hru as [Hw HwD].
  set (lit := if b then w else (- w)%Z).
  assert (Hlit : valid s1 lit) by (subst lit; destruct b; [done|by apply valid_neg]).
  assert (HlitD : ∀ ρ, denv s1 lit ρ = true ↔ ρ v = b).
  { intros ρ. subst lit. destruct b.
    - by rewrite HwD.
    - unfold denv. rewrite (D_neg s1 HI1) by done. fold (denv s1 w ρ). rewrite HwD.
      by destruct (ρ v). }
  assert (Hr01 : valid s1 r0) by (by apply (valid_extends s s1)).
  assert (Hnr1 : no_reorder s1) by (by apply (safe_no_reorder s s1)).
  destruct (apply "and" lit (Some r0) None s1) as [rx s2] eqn:Ex.
  destruct (apply_and_nr s1 lit r0 rx s2 HI1 Hlit Hr01 Hnr1 Ex) as [Hs2 Hrx].
  pose proof Hs2 as (HI2&He2&Hf2&_).
  assert (Hs02 : safe s s2) by (by apply (safe_trans s s1 s2)).
  assert (Hll : is_Some (last_len s1) → is_Some (last_len s))
    by (destruct Hf1 as (E&_); by rewrite E).
  destruct rx as [x|e]; cycle 1.
  { rewrite (bind_err _ _ s e s2) by (by rewrite (bind_ok _ _ _ _ _ Eu)).
    intros [= <- <-]. split; [done|]. exact (benign_frame _ _ _ Hf1 Hrx). }
  rewrite (bind_ok _ _ s x s2) by (by rewrite (bind_ok _ _ _ _ _ Eu)).
  destruct Hrx as [Hx HxD]. intros Hrun.
  assert (HF2 : Forall (fun p : nat * bool => is_Some (vars s2 !! p.1)) l).
  { eapply Forall_impl; [exact HF|]. intros p Hp. cbn in *.
    destruct Hs02 as (_&(_&Ev&_)&_). by rewrite <- Ev. }
  destruct (IH s2 x r s' HI2 Hx HF2 (safe_no_reorder s1 s2 Hs2 Hnr1) Hrun) as [Hs' Hr].
  split; [by apply (safe_trans s s2 s')|].
  destruct r as [y|e]; cycle 1.
  { exact (benign_frame _ _ _ Hf1 (benign_frame _ _ _ Hf2 Hr)). }
  destruct Hr as [Hy HyD]. split; [done|]. intros ρ. rewrite HyD.
  assert (Hx2 : denv s2 x ρ = true ↔ ρ v = b ∧ denv s r0 ρ = true).
  { unfold denv at 1. rewrite HxD. destruct He2 as (_&_&El2). rewrite <- El2.
    fold (denv s1 lit ρ). fold (denv s1 r0 ρ). rewrite (denv_grow s s1 r0) by done.
    rewrite andb_true_iff. by rewrite HlitD. }
  rewrite Hx2. split.
  - intros [[Hvb H0] Hl]. split; [done|]. intros v' b' Hin.
    apply elem_of_cons in Hin as [[= -> ->]|Hin]; [done|by apply Hl].
  - intros [H0 Hl]. split; [split; [|done]|].
    + apply Hl. by left.
    + intros v' b' Hin. apply Hl. by right.
Qed.

Definition cube_pre (dvars : list (nat * bool)) (s : st) : Prop :=
  Forall (fun p => is_Some (vars s !! p.1)) dvars.
Definition cube_post (dvars : list (nat * bool)) (_ : st) (x : Z) (s' : st) : Prop :=
  valid s' x ∧ ∀ ρ, denv s' x ρ = true ↔ ∀ v b, (v, b) ∈ dvars → ρ v = b.

Lemma cube_op_spec (K : positive → Prop) dvars :
  op_spec (foldM cube_step 1%Z dvars) K (cube_pre dvars) (cube_post dvars).
Proof.
  split.
  - intros s r s' HI HF Hnr Hrun.
    destruct (cube_fold_spec dvars s 1%Z r s' HI (valid_1 s HI) HF Hnr Hrun) as [Hs Hr].
    apply spec_intro; [done|]. destruct r as [x|e]; [|done].
    destruct Hr as [Hx HD]. split; [done|]. intros ρ. rewrite HD.
    unfold denv. rewrite (D_1 s HI). naive_solver.
  - intros s s' _ _ [Ed _] HF. eapply Forall_impl; [exact HF|]. intros p Hp. cbn in *.
    apply elem_of_dom. rewrite Ed. by apply elem_of_dom.
  - intros s0 s x s' _ _ _ _ H. exact H.
  - intros s x s' s'' (E1&_&_&_&_&E6&E7) [Hx HD]. split; [by apply (valid_same s')|].
    intros ρ. rewrite <- HD. by rewrite (denv_same s' s'').
Qed.

Theorem cube_dynamic s L dvars r s' :
  sifting_ok' →
  Inv s → Counts s L → rctx s = false → max_nodes s = None →
  Forall (fun p => is_Some (vars s !! p.1)) dvars →
  cube dvars s = (r, s') →
  r = Err EOracle ∨
  ∃ x, r = Ok x ∧ Inv s' ∧ Counts s' L ∧ rctx s' = false ∧
       (last_len s = None → last_len s' = None) ∧
       (is_Some (last_len s) → is_Some (last_len s')) ∧
       keeps (heldn L) s s' ∧
       valid s' x ∧
       ∀ ρ, denv s' x ρ = true ↔ ∀ v b, (v, b) ∈ dvars → ρ v = b.
Proof.
  intros Hs HI HC Hc Hmx HF Hrun.
  change (cube dvars) with (try_to_reorder (foldM cube_step 1%Z dvars)) in Hrun.
  destruct (try_to_reorder_correct (foldM cube_step 1%Z dvars) (cube_pre dvars)
              (cube_post dvars) s L r s' Hs (cube_op_spec _ dvars) HI HC)
    as [?|(x&?&?&?&?&?&?&?&?&?)]; try done; [by left|right]. by exists x.
Qed.

(** ** The quantifier rows of [apply]: [apply op u v] quantifies [v] over the
    support of [u] (the variable names [u] depends on); [apply] is not
    decorated, the support is read before the decorated [quantify] starts *)
Theorem apply_quant_dynamic s L op fa u v r s' :
  sifting_ok' →
  Inv s → Counts s L → rctx s = false → max_nodes s = None →
  (fa = true ∧ op ∈ ["\A"; "forall"]) ∨ (fa = false ∧ op ∈ ["\E"; "exists"]) →
  valid s u → valid s v → heldn L (absn v) →
  apply op u (Some v) None s = (r, s') →
  r = Err EOracle ∨
  ∃ x Q, r = Ok x ∧ Inv s' ∧ Counts s' L ∧ rctx s' = false ∧
       (last_len s = None → last_len s' = None) ∧
       (is_Some (last_len s) → is_Some (last_len s')) ∧
       keeps (heldn L) s s' ∧
       valid s' x ∧
       (∀ y, y ∈ Q ↔ ∃ l, vars s !! y = Some l ∧ depends s u l) ∧
       ∀ ρ, denv s' x ρ = true ↔ qsemv s fa Q v ρ.
Proof.
  intros Hs HI HC Hc Hmx Hop Hu Hv Kv.
  assert (Har : arity_ok op (Some v) None = true ∧
                find_template apply_table op = Some (TQuant fa OU OV)).
  { destruct Hop as [[-> Hop]|[-> Hop]];
      repeat (apply elem_of_cons in Hop as [->|Hop]; [by vm_compute|]);
      by apply elem_of_nil in Hop. }
  destruct Har as [Har Hft].
  unfold apply, apply_with, ensure.
  rewrite Har. rewrite (bind_ok _ _ s tt s) by done. cbn [bind get].
  rewrite (proj2 (mem_valid s u) Hu). rewrite (bind_ok _ _ s tt s) by done.
  rewrite (proj2 (mem_valid s v) Hv). rewrite !(bind_ok _ _ s tt s) by done.
  rewrite Hft. cbn [eval_operand from_option id].
  destruct (support u s) as [rq s1] eqn:Es.
  destruct (support_spec s u rq s1 HI Hu Es) as (->&X&->&HX).
  rewrite (bind_ok _ _ _ _ _ Es). intros Hrun.
  apply (quantify_dynamic s L) in Hrun as [->|(x&->&?&?&?&?&?&?&?&HD)]; try done;
    [by left|right|].
  - exists x, X. do 9 (split; [done|]). intros ρ. rewrite HD.
    by rewrite list_to_set_elements_L.
  - apply Forall_forall. intros k Hk. apply elem_of_elements, HX in Hk as (l&Hl&_).
    by eexists.
Qed.

(** ** [let]: the three forms *)
Definition let_sem (s : st) (d : let_arg) (ρ : nat → bool) : nat → bool :=
  match d with
  | LetBool d => overridev (list_to_map (reverse d)) ρ
  | LetRef d => vsubstv s (list_to_map (reverse d)) ρ
  | LetName d => renv (list_to_map (reverse d)) ρ
  end.
Definition let_ok (L : positive → nat) (s : st) (d : let_arg) : Prop :=
  match d with
  | LetBool d => Forall (fun p => is_Some (vars s !! p.1)) d
  | LetRef d =>
      Forall (fun p => is_Some (vars s !! p.1) ∧ valid s p.2 ∧ heldn L (absn p.2)) d
  | LetName d => ∀ x y, (x, y) ∈ d → is_Some (vars s !! y)
  end.

Lemma denv_ext s u ρ ρ' : (∀ x, ρ x = ρ' x) → denv s u ρ = denv s u ρ'.
Proof.
  intros H. rewrite !denv_aof. apply D_ext. intros l. unfold aof.
  by destruct (lvl2var s !! l).
Qed.

Theorem let_dynamic s L d u r s' :
  sifting_ok' →
  Inv s → Counts s L → rctx s = false → max_nodes s = None →
  valid s u → heldn L (absn u) → let_ok L s d →
  let_ d u s = (r, s') →
  r = Err EOracle ∨
  ∃ x, r = Ok x ∧ Inv s' ∧ Counts s' L ∧ rctx s' = false ∧
       (last_len s = None → last_len s' = None) ∧
       (is_Some (last_len s) → is_Some (last_len s')) ∧
       keeps (heldn L) s s' ∧
       valid s' x ∧
       ∀ ρ, denv s' x ρ = denv s u (let_sem s d ρ).
Proof.
  intros Hs HI HC Hc Hmx Hu Ku Hok.
  assert (Hnil : ∀ d0, (∀ ρ x, let_sem s d0 ρ x = ρ x) →
            (ret u : MS Z) s = (r, s') →
            r = Err EOracle ∨
            ∃ x, r = Ok x ∧ Inv s' ∧ Counts s' L ∧ rctx s' = false ∧
              (last_len s = None → last_len s' = None) ∧
              (is_Some (last_len s) → is_Some (last_len s')) ∧
              keeps (heldn L) s s' ∧ valid s' x ∧
              ∀ ρ, denv s' x ρ = denv s u (let_sem s d0 ρ)).
  { intros d0 Hd [= <- <-]. right. exists u. do 6 (split; [done|]).
    split; [by apply keeps_extends|]. split; [done|].
    intros ρ. apply denv_ext. intros x. by rewrite Hd. }
  destruct d as [[|p d]|[|p d]|[|p d]]; cbn [let_].
  - apply Hnil. intros ρ x. cbn. unfold overridev.
    change (list_to_map (reverse [])) with (∅ : gmap nat bool). by rewrite lookup_empty.
  - intros Hrun. by apply (cofactor_dynamic s L u (p :: d) r s').
  - apply Hnil. intros ρ x. cbn. unfold vsubstv.
    change (list_to_map (reverse [])) with (∅ : gmap nat Z). by rewrite lookup_empty.
  - intros Hrun. by apply (compose_dynamic s L u (p :: d) r s').
  - apply Hnil. intros ρ x. cbn. unfold renv.
    change (list_to_map (reverse [])) with (∅ : gmap nat nat). by rewrite lookup_empty.
  - intros Hrun. by apply (rename_dynamic s L u (p :: d) r s').
Qed.

(** ** Running the model: the forced trigger fires inside each operation
    (history [dyn_history] of [Dynamic]: v0..v3 held, 6 = v0 /\ v2,
    7 = v1 /\ v3, f = 10 = 6 \/ 7 held, requests enabled).  [dyn_cmp o]:
    the call [o] succeeds, returns the same function by name with and
    without the trigger; with the trigger the request did fire ([trig] is
    consumed), sifting moved v2 to the top, requests are on again
    ([last_len = 2 * 9]), the context flag is off, and all held references
    keep their truth tables. *)
Definition dyn_cmp (o : op) : bool :=
  let w0 := run_ops dyn_history in
  let w1 := fst (step w0 0 (OSetTrig (Some 1))) in
  let '(wA, rA) := step w0 0 o in
  let '(wB, rB) := step w1 0 o in
  let sB := world_get wB 0 in
  bool_decide (is_Some (table 4 (world_get wA 0) rA)) &&
  bool_decide (table 4 (world_get wA 0) rA = table 4 sB rB) &&
  bool_decide (trig sB = None) && bool_decide (last_len sB = Some 18) &&
  bool_decide (vars sB !! 2 = Some 0) && negb (rctx sB) &&
  forallb (fun u => bool_decide (table 4 sB (Ok (VZ u)) = table 4 (world_get w0 0) (Ok (VZ u))))
          [2; 3; 4; 5; 6; 7; 10]%Z.

Example dynamic2_examples :
  forallb dyn_cmp
    [OCompose 10 [(0, (-7)%Z)];
     OCompose 10 [(0, 7%Z); (2, (-3)%Z)];
     ORename 6 [(0, 1)];
     OCube [(0, true); (3, false)];
     OApply "\E" 2 (Some 10%Z) None;
     OApply "forall" 6 (Some 10%Z) None;
     OLet (LetRef [(1, 6%Z)]) 10;
     OLet (LetName [(0, 1)]) 6;
     OLet (LetBool [(1, true)]) 10] = true.
Proof. by vm_compute. Qed.
