(** * CopyingOk: [BDD.__copy__] and [BDD.reduction] ([Model/Copying.v]).
      Both build a NEW manager [BDD(self.vars)]; the theorems hold for every
      iteration order of the [vars] dict ([vorder]) and of the [_succ] dict
      ([order]) that is a duplicate-free enumeration. *)
From DD Require Export Pickle Copying.

(** ** 1. [BDD(self.vars)] *)

(** the [levels] argument built by [new_like] *)
Definition like_levels (vorder : list nat) (s : st) : list (nat * nat) :=
  omap (fun v => (fun l => (v, l)) <$> vars s !! v) vorder.

Lemma like_levels_elem vorder s v l :
  (v, l) ∈ like_levels vorder s ↔ v ∈ vorder ∧ vars s !! v = Some l.
Proof.
  unfold like_levels. rewrite elem_of_list_omap. split.
  - intros (x&Hx&E). destruct (vars s !! x) as [l'|] eqn:El; [|done].
    cbn in E. by simplify_eq.
  - intros [Hv Hl]. exists v. split; [done|]. by rewrite Hl.
Qed.

Lemma like_levels_fst vorder s :
  (∀ v, v ∈ vorder → is_Some (vars s !! v)) → (like_levels vorder s).*1 = vorder.
Proof.
  induction vorder as [|v vo IH]; intros H; [done|].
  destruct (H v (elem_of_list_here _ _)) as [l Hl].
  unfold like_levels. cbn. rewrite Hl. cbn. f_equal.
  apply IH. intros x Hx. apply H. by apply elem_of_list_further.
Qed.

Lemma like_levels_file vorder s :
  NoDup vorder → (list_to_set vorder : gset nat) = dom (vars s) →
  vars_file s (like_levels vorder s).
Proof.
  intros ND Hd.
  assert (Hin : ∀ v, v ∈ vorder ↔ is_Some (vars s !! v)).
  { intros v. rewrite <- elem_of_dom, <- Hd. by rewrite elem_of_list_to_set. }
  split.
  - rewrite like_levels_fst; [done|]. intros v. apply Hin.
  - intros v l. rewrite like_levels_elem. split; [by intros [_ ?]|].
    intros Hl. split; [|done]. apply Hin. by eexists.
Qed.

(** the new manager: only the terminal, the variable order of [s] *)
Definition fresh_like (s : st) : st := vstate (vars s) (lvl2var s) (nvars s).

Lemma Inv_fresh_like s : Inv s → Inv (fresh_like s).
Proof.
  intros HI. apply (Inv_vstate (vars s) (lvl2var s)).
  - apply (inv_vars _ HI).
  - apply (inv_lvls _ HI).
Qed.

Lemma new_like_ok vorder s :
  Inv s → NoDup vorder → (list_to_set vorder : gset nat) = dom (vars s) →
  new_like vorder s = Ok (fresh_like s).
Proof.
  intros HI ND Hd. unfold new_like.
  rewrite bool_decide_eq_true_2 by done. cbn [negb]. cbv zeta.
  fold (like_levels vorder s).
  by rewrite (init_levels_file s HI _ (like_levels_file vorder s ND Hd)).
Qed.

Lemma new_like_oracle vorder s :
  ¬ (NoDup vorder ∧ (list_to_set vorder : gset nat) = dom (vars s)) →
  new_like vorder s = Err EOracle.
Proof. intros H. unfold new_like. by rewrite bool_decide_eq_false_2. Qed.

(** ** 2. [__copy__] *)

(** the copy: tables, counts, free index, order and roots of [s]; empty
    computed table, dynamic reordering off; the bound [max_nodes] of [s] *)
Definition copy_of (s : st) : st :=
  St (succ s) (pred s) (refc s) (min_free s) ∅ (vars s) (lvl2var s) None false
     (roots s) [] None (max_nodes s).

Lemma Inv_copy_of s : Inv s → Inv (copy_of s).
Proof.
  intros HI. eapply (Inv_same (clr s)); [|by apply Inv_W]. by repeat split.
Qed.

Lemma valid_copy_of s u : valid (copy_of s) u ↔ valid s u.
Proof. done. Qed.

Lemma D_copy_of s u a : D (copy_of s) u a = D s u a.
Proof. by apply D_same. Qed.

Lemma denv_copy_of s u ρ : denv (copy_of s) u ρ = denv s u ρ.
Proof. unfold denv. by apply D_same. Qed.

Lemma Counts_copy_of s L : Counts s L → Counts (copy_of s) L.
Proof. intros H. exact H. Qed.

(** totality: every duplicate-free enumeration of the declared names works,
    and the result does not depend on it *)
Theorem copy_manager_total vorder s :
  Inv s → NoDup vorder → (list_to_set vorder : gset nat) = dom (vars s) →
  copy_manager vorder s = Ok (copy_of s).
Proof.
  intros HI ND Hd. unfold copy_manager. by rewrite (new_like_ok vorder s HI ND Hd).
Qed.

(** an enumeration that is not a permutation is refused by the model *)
Theorem copy_manager_oracle vorder s :
  ¬ (NoDup vorder ∧ (list_to_set vorder : gset nat) = dom (vars s)) →
  copy_manager vorder s = Err EOracle.
Proof. intros H. unfold copy_manager. by rewrite (new_like_oracle vorder s H). Qed.

Theorem copy_manager_spec vorder s b :
  Inv s → copy_manager vorder s = Ok b →
  NoDup vorder ∧ (list_to_set vorder : gset nat) = dom (vars s) ∧
  b = copy_of s ∧
  succ b = succ s ∧ pred b = pred s ∧ refc b = refc s ∧ min_free b = min_free s ∧
  vars b = vars s ∧ lvl2var b = lvl2var s ∧ roots b = roots s ∧
  ite_tab b = ∅ ∧ last_len b = None ∧ rctx b = false ∧
  max_nodes b = max_nodes s ∧
  Inv b ∧ (∀ L, Counts s L → Counts b L) ∧
  ∀ u, (valid b u ↔ valid s u) ∧ (∀ a, D b u a = D s u a) ∧ ∀ ρ, denv b u ρ = denv s u ρ.
Proof.
  intros HI Hrun.
  destruct (decide (NoDup vorder ∧ (list_to_set vorder : gset nat) = dom (vars s)))
    as [[ND Hd]|Hn]; cycle 1.
  { by rewrite (copy_manager_oracle vorder s Hn) in Hrun. }
  rewrite (copy_manager_total vorder s HI ND Hd) in Hrun. injection Hrun as <-.
  split; [done|]. split; [done|]. split; [done|].
  split_and!; try reflexivity.
  - by apply Inv_copy_of.
  - apply Counts_copy_of.
  - intros u. split; [apply valid_copy_of|]. split.
    + intros a. apply D_copy_of.
    + intros ρ. apply denv_copy_of.
Qed.

(** ** 3. [reduction] *)

Lemma flip_pos_abs c : c ≠ 0%Z → flip (Z.pos (absn c)) c = c.
Proof. apply flip_abs. Qed.

Lemma StronglySorted_remove_dups {A} `{EqDecision A} (R : relation A) (l : list A) :
  StronglySorted R l → StronglySorted R (remove_dups l).
Proof.
  induction 1 as [|x l Hs IH Hall]; [constructor|]. cbn [remove_dups].
  destruct (decide_rel elem_of x l); [done|]. constructor; [done|].
  rewrite Forall_forall in Hall |- *. intros y Hy. apply Hall.
  by apply elem_of_remove_dups.
Qed.

(** the body of [reduction] under the decorator *)
Definition reduction_body (vorder : list nat) (order : list positive) : MS st :=
    s <- get ;;
    if negb (bool_decide (NoDup order ∧ (list_to_set order : gset positive) = dom (Base.succ s)))
    then raise EOracle else
    b0 <- (match new_like vorder s with Ok b => ret b | Err e => raise e end) ;;
    let n := nvars s in
    let by_level := (fun i => filter (fun u => bool_decide ((t_lvl <$> Base.succ s !! u) = Some i)) order)
                    <$> reverse (seq 0 n) in
    r <- (match reduce_nodes s (concat by_level) ({[1%positive := 1%Z]}, b0) with
          | Ok x => ret x | Err e => raise e end) ;;
    let '(umap, b) := r in
    rs <- mapM (fun v => p <- of_opt EKey (umap !! absn v) ;; ret (Base.flip p v)) (roots s) ;;
    ret (b <| roots := remove_dups (merge_sort Z.le rs) |>).

Lemma reduction_unfold vorder order :
  reduction vorder order = try_to_reorder (reduction_body vorder order).
Proof. reflexivity. Qed.

(** what [reduction] establishes: [b] is the new manager, [umap] the map
    from the nodes of [s] to references of [b] *)
Record Reduced (s b : st) (umap : gmap positive Z) : Prop := {
  rd_inv : Inv b;
  rd_vars : vars b = vars s;
  rd_l2v : lvl2var b = lvl2var s;
  rd_off : last_len b = None;
  rd_rctx : rctx b = false;
  rd_mx : max_nodes b = None;
  rd_dom : dom umap = dom (succ s);
  rd_node : ∀ n x, umap !! n = Some x →
     valid b x ∧ (0 < x)%Z ∧ (∀ a, D b x a = D s (Z.pos n) a) ∧
     ∀ ρ, denv b x ρ = denv s (Z.pos n) ρ;
  rd_roots : ∃ rs, roots b = remove_dups (merge_sort Z.le rs) ∧
     Forall2 (fun v x => valid b x ∧ (∃ p, umap !! absn v = Some p ∧ x = flip p v) ∧
                         (∀ a, D b x a = D s v a) ∧ ∀ ρ, denv b x ρ = denv s v ρ)
             (roots s) rs;
}.

Lemma Reduced_unfold s b umap :
  Reduced s b umap ↔
  Inv b ∧ vars b = vars s ∧ lvl2var b = lvl2var s ∧ last_len b = None ∧ rctx b = false ∧
  max_nodes b = None ∧
  dom umap = dom (succ s) ∧
  (∀ n x, umap !! n = Some x →
     valid b x ∧ (0 < x)%Z ∧ (∀ a, D b x a = D s (Z.pos n) a) ∧
     ∀ ρ, denv b x ρ = denv s (Z.pos n) ρ) ∧
  ∃ rs, roots b = remove_dups (merge_sort Z.le rs) ∧
     Forall2 (fun v x => valid b x ∧ (∃ p, umap !! absn v = Some p ∧ x = flip p v) ∧
                         (∀ a, D b x a = D s v a) ∧ ∀ ρ, denv b x ρ = denv s v ρ)
             (roots s) rs.
Proof.
  split.
  - intros HR. split_and!; apply HR.
  - intros (?&?&?&?&?&?&?&?&?). by split.
Qed.

Section reduce.
Context (s : st) (HI : Inv s).

(** loop invariant: every node of [s] at level [≥ j] is in [umap] *)
Record RInv (j : nat) (b : st) (umap : gmap positive Z) : Prop := {
  ri_inv : Inv b;
  ri_off : last_len b = None;
  ri_rctx : rctx b = false;
  ri_mx : max_nodes b = None;
  ri_vars : vars b = vars s;
  ri_l2v : lvl2var b = lvl2var s;
  ri_sound : ∀ u x, umap !! u = Some x →
     is_Some (succ s !! u) ∧ valid b x ∧ (0 < x)%Z ∧
     lvl_of s (Z.pos u) ≤ lvl_of b x ∧ ∀ a, D b x a = D s (Z.pos u) a;
  ri_complete : ∀ u t, succ s !! u = Some t → j ≤ t_lvl t → is_Some (umap !! u);
}.

Lemma valid_pos_abs c : valid s c → valid s (Z.pos (absn c)).
Proof. intros [_ H]. split; [done|]. by rewrite absn_pos. Qed.

Lemma D_abs c a : valid s c →
  D s c a = xorb (bool_decide (c < 0)%Z) (D s (Z.pos (absn c)) a).
Proof.
  intros Hc. transitivity (D s (flip (Z.pos (absn c)) c) a).
  - rewrite flip_pos_abs; [done|apply Hc].
  - apply (D_flip s HI). by apply valid_pos_abs.
Qed.

(** what [umap] gives for a reference of [s] (a child, or a root) *)
Lemma ref_umap j b umap c : RInv j b umap → valid s c → j ≤ lvl_of s c →
  ∃ p, umap !! absn c = Some p ∧ valid b (flip p c) ∧
       lvl_of s c ≤ lvl_of b (flip p c) ∧ ∀ a, D b (flip p c) a = D s c a.
Proof.
  intros HR Hc Hj. pose proof Hc as [_ [t Ht]].
  assert (Hl : lvl_of s c = t_lvl t) by (unfold lvl_of; by rewrite Ht).
  destruct (ri_complete _ _ _ HR _ _ Ht) as [p Hp]; [lia|].
  destruct (ri_sound _ _ _ HR _ _ Hp) as (_&Hvp&_&Hlp&HDp).
  exists p. split; [done|]. split; [by apply valid_flip|]. split.
  - rewrite lvl_flip. unfold lvl_of in Hlp at 1. rewrite absn_pos, Ht in Hlp. lia.
  - intros a. rewrite (D_flip b (ri_inv _ _ _ HR) p c a Hvp), HDp. symmetry. by apply D_abs.
Qed.

Lemma RInv_extends j b b' umap : RInv j b umap → Inv b' → extends b b' → frame b b' →
  RInv j b' umap.
Proof.
  intros HR HI' He Hf. pose proof (ri_inv _ _ _ HR) as HIb.
  destruct Hf as (F1&F2&_&_&F5). destruct He as (Hsub&Ev&El).
  assert (He : extends b b') by done.
  split.
  - done.
  - rewrite F1. apply HR.
  - rewrite F2. apply HR.
  - rewrite F5. apply HR.
  - rewrite <- Ev. apply HR.
  - rewrite <- El. apply HR.
  - intros u x Hx. destruct (ri_sound _ _ _ HR _ _ Hx) as (?&?&?&?&HD).
    split_and!; [done|by apply (valid_extends b b')|done|by rewrite (lvl_extends b b')|].
    intros a. rewrite (D_extends b b') by done. apply HD.
  - apply HR.
Qed.

(** one node at level [t_lvl t] *)
Lemma reduce_node_spec b umap u t :
  RInv (S (t_lvl t)) b umap → succ s !! u = Some t → t_lvl t < nvars s →
  ∃ x b', reduce_node s u (umap, b) = Ok (<[u := x]> umap, b') ∧
          RInv (S (t_lvl t)) b' (<[u := x]> umap).
Proof.
  intros HR Ht Hj. pose proof (ri_inv _ _ _ HR) as HIb.
  assert (Hu1 : u ≠ 1%positive).
  { intros ->. rewrite (inv_term _ HI) in Ht. injection Ht as <-. cbn in Hj. lia. }
  destruct (inv_node _ HI _ _ Ht Hu1) as (_&Hvlo&Hhp&Hvhi&Hllo&Hlhi&_).
  destruct (ref_umap _ b umap (t_lo t) HR Hvlo) as (p&Hp&Hvp&Hlp&HDp); [lia|].
  destruct (ref_umap _ b umap (t_hi t) HR Hvhi) as (q&Hq&Hvq&Hlq&HDq); [lia|].
  assert (Hvu : valid s (Z.pos u)) by (split; [done|]; rewrite absn_pos; by eexists).
  unfold reduce_node. rewrite Ht, Hp, Hq.
  destruct (find_or_add (t_lvl t) (flip p (t_lo t)) (flip q (t_hi t)) b) as [r b'] eqn:Efa.
  assert (Hlp' : t_lvl t < lvl_of b (flip p (t_lo t))) by lia.
  assert (Hlq' : t_lvl t < lvl_of b (flip q (t_hi t))) by lia.
  destruct (find_or_add_spec _ _ _ _ _ _ HIb Hvp Hvq Hlp' Hlq' Efa) as (HI'&He&Hf&Hr).
  destruct r as [x|e]; cycle 1.
  { by destruct (benign_never b e (ri_off _ _ _ HR) (ri_mx _ _ _ HR) (proj1 Hr)). }
  destruct Hr as (Hvx&Hlx&HDx).
  assert (HDu : ∀ a, D b' x a = D s (Z.pos u) a).
  { intros a. rewrite HDx, HDq, HDp.
    rewrite (D_step s HI (Z.pos u) a t Hvu) by (by rewrite absn_pos).
    rewrite bool_decide_eq_false_2 by lia. by rewrite xorb_false_l. }
  assert (Hxp : (0 < x)%Z).
  { pose proof (D_all_true b' HI' x Hvx) as E1.
    rewrite HDu, (D_all_true s HI (Z.pos u) Hvu) in E1.
    rewrite bool_decide_eq_true_2 in E1 by lia. symmetry in E1.
    by apply bool_decide_eq_true in E1. }
  rewrite decide_True by done. exists x, b'. split; [done|].
  pose proof (RInv_extends _ _ _ _ HR HI' He Hf) as HR'.
  split; try apply HR'.
  - intros u' x' Hx'. destruct (decide (u' = u)) as [->|Hne].
    + rewrite lookup_insert in Hx'. injection Hx' as <-.
      split_and!; [by eexists|done|done| |done].
      unfold lvl_of at 1. rewrite absn_pos, Ht. done.
    + rewrite lookup_insert_ne in Hx' by done. by apply (ri_sound _ _ _ HR').
  - intros u' t' Ht' Hl'. destruct (decide (u' = u)) as [->|Hne].
    + rewrite lookup_insert. by eexists.
    + rewrite lookup_insert_ne by done. by apply (ri_complete _ _ _ HR' _ t').
Qed.

(** the nodes of one level, in any order *)
Lemma reduce_level_spec j : ∀ l b umap, RInv (S j) b umap → j < nvars s →
  (∀ u, u ∈ l → ∃ t, succ s !! u = Some t ∧ t_lvl t = j) →
  ∃ umap' b', reduce_nodes s l (umap, b) = Ok (umap', b') ∧ RInv (S j) b' umap' ∧
    (∀ z, is_Some (umap !! z) → is_Some (umap' !! z)) ∧
    (∀ u, u ∈ l → is_Some (umap' !! u)).
Proof.
  induction l as [|u l IH]; intros b umap HR Hj Hl.
  - exists umap, b. split_and!; try done. intros u Hu. by apply elem_of_nil in Hu.
  - destruct (Hl u (elem_of_list_here _ _)) as (t&Ht&<-).
    destruct (reduce_node_spec b umap u t HR Ht Hj) as (x&b1&E1&HR1).
    destruct (IH b1 (<[u := x]> umap) HR1 Hj) as (umap'&b'&E'&HR'&Hmono&Hnew).
    { intros u' Hu'. apply Hl. by apply elem_of_list_further. }
    exists umap', b'. cbn [reduce_nodes]. rewrite E1. split; [done|]. split; [done|]. split.
    + intros z Hz. apply Hmono. destruct (decide (z = u)) as [->|Hne].
      * rewrite lookup_insert. by eexists.
      * by rewrite lookup_insert_ne.
    + intros u' Hu'. apply elem_of_cons in Hu' as [->|Hu'].
      * apply Hmono. rewrite lookup_insert. by eexists.
      * by apply Hnew.
Qed.

Lemma RInv_level_done j b umap : RInv (S j) b umap →
  (∀ u t, succ s !! u = Some t → t_lvl t = j → is_Some (umap !! u)) → RInv j b umap.
Proof.
  intros HR Hnew. split; try apply HR.
  intros u t Ht Hl. destruct (decide (t_lvl t = j)) as [E|E].
  - by apply (Hnew u t).
  - apply (ri_complete _ _ _ HR u t); [done|lia].
Qed.

Lemma reduce_nodes_app l1 l2 acc :
  reduce_nodes s (l1 ++ l2) acc =
  match reduce_nodes s l1 acc with
  | Ok acc' => reduce_nodes s l2 acc'
  | Err e => Err e
  end.
Proof.
  revert acc. induction l1 as [|u l1 IH]; intros acc; [done|].
  cbn [app reduce_nodes]. destruct (reduce_node s u acc); [apply IH|done].
Qed.

Lemma elem_of_level (order : list positive) i u :
  u ∈ filter (fun u => bool_decide ((t_lvl <$> succ s !! u) = Some i)) order ↔
  u ∈ order ∧ ∃ t, succ s !! u = Some t ∧ t_lvl t = i.
Proof.
  rewrite elem_of_list_filter. split.
  - intros [H Hin]. split; [done|]. apply bool_decide_unpack in H.
    destruct (succ s !! u) as [t|]; [|done]. cbn in H. exists t. split; [done|]. congruence.
  - intros [Hin (t&Ht&<-)]. split; [|done]. apply bool_decide_pack. by rewrite Ht.
Qed.

Lemma reverse_seq_S m : reverse (seq 0 (S m)) = m :: reverse (seq 0 m).
Proof. by rewrite seq_S, reverse_app, reverse_singleton. Qed.

(** all the levels, from the deepest up *)
Lemma reduce_levels_spec (order : list positive) : (∀ u, u ∈ dom (succ s) → u ∈ order) →
  ∀ m b umap, m ≤ nvars s → RInv m b umap →
  ∃ umap' b',
    reduce_nodes s (concat ((fun i => filter (fun u => bool_decide ((t_lvl <$> succ s !! u) = Some i)) order)
                            <$> reverse (seq 0 m))) (umap, b) = Ok (umap', b') ∧
    RInv 0 b' umap'.
Proof.
  intros Hcov. induction m as [|m IH]; intros b umap Hm HR.
  - exists umap, b. by split.
  - rewrite reverse_seq_S, fmap_cons. cbn [concat]. rewrite reduce_nodes_app.
    destruct (reduce_level_spec m
                (filter (fun u => bool_decide ((t_lvl <$> succ s !! u) = Some m)) order)
                b umap HR) as (umap1&b1&E1&HR1&_&Hnew); [lia| |].
    { intros u Hu. by apply elem_of_level in Hu as [_ ?]. }
    rewrite E1. apply IH; [lia|]. apply RInv_level_done; [done|].
    intros u t Ht Hl. apply Hnew. apply elem_of_level. split; [|by exists t].
    apply Hcov. apply elem_of_dom. by eexists.
Qed.

Lemma RInv_start : RInv (nvars s) (fresh_like s) {[1%positive := 1%Z]}.
Proof.
  pose proof (Inv_fresh_like s HI) as HIb.
  assert (Hnv : nvars (fresh_like s) = nvars s) by done.
  split; try done.
  - intros u x Hx. apply lookup_singleton_Some in Hx as [<- <-].
    split_and!.
    + rewrite (inv_term _ HI). by eexists.
    + by apply valid_1.
    + done.
    + rewrite (lvl_term s HI 1), (lvl_term _ HIb 1) by done. by rewrite Hnv.
    + intros a. by rewrite !D_1.
  - intros u t Ht Hl. destruct (decide (u = 1%positive)) as [->|Hne].
    + rewrite lookup_singleton. by eexists.
    + destruct (inv_node _ HI _ _ Ht Hne) as (?&_). lia.
Qed.

(** the roots *)
Lemma reduce_roots b umap (st0 : st) : RInv 0 b umap → ∀ l, Forall (valid s) l →
  mapM (fun v => p <- of_opt EKey (umap !! absn v) ;; ret (flip p v)) l st0
  = (Ok ((fun v => flip (default 0%Z (umap !! absn v)) v) <$> l), st0).
Proof.
  intros HR l Hl. apply (mapM_ok _ (fun v => flip (default 0%Z (umap !! absn v)) v)).
  intros v Hv. rewrite Forall_forall in Hl.
  destruct (ref_umap 0 b umap v HR (Hl v Hv)) as (p&Hp&_); [lia|].
  by rewrite Hp.
Qed.

(** a root that is no node of [s]: [KeyError] *)
Lemma reduce_roots_fail (umap : gmap positive Z) (st0 : st) : ∀ l,
  (∃ v, v ∈ l ∧ umap !! absn v = None) →
  mapM (fun v => p <- of_opt EKey (umap !! absn v) ;; ret (flip p v)) l st0
  = (Err EKey, st0).
Proof.
  induction l as [|x l IH]; intros (v&Hv&Hn); [by apply elem_of_nil in Hv|].
  cbn [mapM]. destruct (umap !! absn x) as [p|] eqn:Hx; [|done].
  apply elem_of_cons in Hv as [->|Hv]; [congruence|].
  rewrite (bind_ok _ _ st0 (flip p x) st0) by done.
  by rewrite (bind_err _ _ _ _ _ (IH (ex_intro _ v (conj Hv Hn)))).
Qed.

(** the node loops of the body cannot fail; what remains is the translation
    of the roots *)
Lemma reduction_body_nodes vorder order :
  NoDup vorder → (list_to_set vorder : gset nat) = dom (vars s) →
  NoDup order → (list_to_set order : gset positive) = dom (succ s) →
  ∃ umap b, RInv 0 b umap ∧
    reduction_body vorder order s =
    (rs <- mapM (fun v => p <- of_opt EKey (umap !! absn v) ;; ret (flip p v)) (roots s) ;;
     ret (b <| roots := remove_dups (merge_sort Z.le rs) |>)) s.
Proof.
  intros NDv Hdv NDo Hdo.
  assert (Hcov : ∀ u, u ∈ dom (succ s) → u ∈ order).
  { intros u Hu. rewrite <- Hdo in Hu. by apply elem_of_list_to_set in Hu. }
  destruct (reduce_levels_spec order Hcov (nvars s) (fresh_like s) _ (le_n _) RInv_start)
    as (umap&b&E&HR).
  exists umap, b. split; [done|].
  unfold reduction_body. cbn [bind get].
  rewrite bool_decide_eq_true_2 by done. cbn [negb].
  rewrite (new_like_ok vorder s HI NDv Hdv). cbn [bind ret]. cbv zeta.
  match goal with |- context [reduce_nodes ?a ?l ?c] => set (X := reduce_nodes a l c) end.
  assert (EX : X = Ok (umap, b)) by exact E. rewrite EX. cbn [bind ret]. reflexivity.
Qed.

Lemma RInv_dom j b umap : RInv j b umap → j = 0 → dom umap = dom (succ s).
Proof.
  intros HR ->. apply stdpp.sets.set_eq. intros u. rewrite !elem_of_dom. split.
  - intros [x Hx]. by destruct (ri_sound _ _ _ HR _ _ Hx) as (?&_).
  - intros [t Ht]. apply (ri_complete _ _ _ HR u t Ht). lia.
Qed.

Lemma reduction_body_bad_root vorder order :
  NoDup vorder → (list_to_set vorder : gset nat) = dom (vars s) →
  NoDup order → (list_to_set order : gset positive) = dom (succ s) →
  (∃ v, v ∈ roots s ∧ succ s !! absn v = None) →
  reduction_body vorder order s = (Err EKey, s).
Proof.
  intros NDv Hdv NDo Hdo (v&Hv&Hn).
  destruct (reduction_body_nodes vorder order NDv Hdv NDo Hdo) as (umap&b&HR&->).
  apply bind_err. apply reduce_roots_fail. exists v. split; [done|].
  apply not_elem_of_dom. rewrite (RInv_dom 0 b umap HR eq_refl). by apply not_elem_of_dom.
Qed.

Lemma reduction_body_ok vorder order :
  Forall (valid s) (roots s) →
  NoDup vorder → (list_to_set vorder : gset nat) = dom (vars s) →
  NoDup order → (list_to_set order : gset positive) = dom (succ s) →
  ∃ b umap, reduction_body vorder order s = (Ok b, s) ∧ Reduced s b umap.
Proof.
  intros Hroots NDv Hdv NDo Hdo.
  destruct (reduction_body_nodes vorder order NDv Hdv NDo Hdo) as (umap&b&HR&->).
  set (R := remove_dups (merge_sort Z.le
              ((fun v => flip (default 0%Z (umap !! absn v)) v) <$> roots s))).
  exists (b <| roots := R |>), umap. split.
  - by rewrite (bind_ok _ _ _ _ _ (reduce_roots b umap s HR (roots s) Hroots)).
  - pose proof (ri_inv _ _ _ HR) as HIb.
    assert (HDb : ∀ x a, D (b <| roots := R |>) x a = D b x a)
      by (intros; by apply D_same).
    assert (Hdenv : ∀ x v, (∀ a, D b x a = D s v a) →
              ∀ ρ, denv (b <| roots := R |>) x ρ = denv s v ρ).
    { intros x v H ρ. unfold denv. change (lvl2var (b <| roots := R |>)) with (lvl2var b).
      rewrite (ri_l2v _ _ _ HR), HDb. apply H. }
    split.
    + eapply Inv_same; [|exact HIb]. by repeat split.
    + apply HR.
    + apply HR.
    + apply HR.
    + apply HR.
    + apply HR.
    + by apply (RInv_dom 0 b).
    + intros n x Hx. destruct (ri_sound _ _ _ HR _ _ Hx) as (_&Hv&Hp&_&HD).
      split_and!; [done|done| |by apply Hdenv]. intros a. by rewrite HDb.
    + exists ((fun v => flip (default 0%Z (umap !! absn v)) v) <$> roots s).
      split; [done|]. apply Forall2_fmap_r, Forall_Forall2_diag.
      rewrite Forall_forall in Hroots |- *. intros v Hv.
      destruct (ref_umap 0 b umap v HR (Hroots v Hv)) as (p&Hp&Hvp&_&HDp); [lia|].
      unfold Basics.compose. cbv beta. rewrite Hp. cbn [default].
      split_and!; [exact Hvp|by exists p| |by apply Hdenv].
      intros a. by rewrite HDb.
Qed.

End reduce.

Lemma denv_rctx s c u ρ : denv (s <| rctx := c |>) u ρ = denv s u ρ.
Proof. unfold denv. apply D_rctx. Qed.

Lemma Reduced_rctx s c b umap : Reduced (s <| rctx := c |>) b umap → Reduced s b umap.
Proof.
  intros HR. split; try apply HR.
  - intros n x Hx. destruct (rd_node _ _ _ HR n x Hx) as (?&?&HD&Hρ).
    split_and!; try done.
    + intros a. rewrite HD. apply D_rctx.
    + intros ρ. rewrite Hρ. apply denv_rctx.
  - destruct (rd_roots _ _ _ HR) as (rs&E&HF). exists rs. split; [done|].
    eapply Forall2_impl; [exact HF|]. intros v x (?&?&HD&Hρ). split_and!; try done.
    + intros a. rewrite HD. apply D_rctx.
    + intros ρ. rewrite Hρ. apply denv_rctx.
Qed.

Lemma set_rctx_id (s : st) : s <| rctx := true |> <| rctx := rctx s |> = s.
Proof. by destruct s. Qed.

(** [reduction] succeeds, leaves the old manager EXACTLY as it was (the
    decorator restores the context flag), and the new manager denotes, node
    by node and root by root, the functions of the old one *)
Theorem reduction_total vorder order s :
  Inv s → Forall (valid s) (roots s) →
  NoDup vorder → (list_to_set vorder : gset nat) = dom (vars s) →
  NoDup order → (list_to_set order : gset positive) = dom (succ s) →
  ∃ b umap, reduction vorder order s = (Ok b, s) ∧ Reduced s b umap.
Proof.
  intros HI Hroots NDv Hdv NDo Hdo.
  destruct (reduction vorder order s) as [r s'] eqn:Hrun.
  rewrite reduction_unfold in Hrun.
  apply try_to_reorder_inert in Hrun as (r1&s1&Hbody&Hcase).
  destruct (reduction_body_ok (s <| rctx := true |>) (proj2 (Inv_rctx s true) HI)
              vorder order Hroots NDv Hdv NDo Hdo) as (b&umap&E&HRd).
  rewrite E in Hbody. injection Hbody as <- <-.
  destruct Hcase as [[? _]|[-> ->]]; [done|].
  exists b, umap. split; [by rewrite set_rctx_id|]. by eapply Reduced_rctx.
Qed.

Theorem reduction_spec vorder order s r s' :
  Inv s → Forall (valid s) (roots s) →
  NoDup vorder → (list_to_set vorder : gset nat) = dom (vars s) →
  NoDup order → (list_to_set order : gset positive) = dom (succ s) →
  reduction vorder order s = (r, s') →
  s' = s ∧ ∃ b umap, r = Ok b ∧ Reduced s b umap.
Proof.
  intros HI Hroots NDv Hdv NDo Hdo Hrun.
  destruct (reduction_total vorder order s HI Hroots NDv Hdv NDo Hdo) as (b&umap&E&HR).
  rewrite E in Hrun. injection Hrun as <- <-. split; [done|]. by exists b, umap.
Qed.

(** an enumeration that is not a permutation is refused by the model; the old
    manager is untouched *)
Lemma reduction_body_oracle vorder order s :
  ¬ (NoDup order ∧ (list_to_set order : gset positive) = dom (succ s)) ∨
  ¬ (NoDup vorder ∧ (list_to_set vorder : gset nat) = dom (vars s)) →
  reduction_body vorder order s = (Err EOracle, s).
Proof.
  intros Hbad. unfold reduction_body. cbn [bind get].
  destruct (decide (NoDup order ∧ (list_to_set order : gset positive) = dom (succ s)))
    as [Ho|Ho].
  - rewrite bool_decide_eq_true_2 by done. cbn [negb].
    destruct Hbad as [?|Hv]; [done|].
    by rewrite (new_like_oracle vorder s Hv).
  - by rewrite bool_decide_eq_false_2.
Qed.

Theorem reduction_oracle vorder order s :
  ¬ (NoDup order ∧ (list_to_set order : gset positive) = dom (succ s)) ∨
  ¬ (NoDup vorder ∧ (list_to_set vorder : gset nat) = dom (vars s)) →
  reduction vorder order s = (Err EOracle, s).
Proof.
  intros Hbad. destruct (reduction vorder order s) as [r s'] eqn:Hrun.
  rewrite reduction_unfold in Hrun.
  apply try_to_reorder_inert in Hrun as (r1&s1&Hbody&Hcase).
  assert (E : reduction_body vorder order (s <| rctx := true |>)
              = (Err EOracle, s <| rctx := true |>)).
  { apply reduction_body_oracle. exact Hbad. }
  rewrite E in Hbody. injection Hbody as <- <-.
  destruct Hcase as [[? _]|[-> ->]]; [done|]. by rewrite set_rctx_id.
Qed.

(** the hypothesis on the roots is needed: a root that is no node of the old
    manager is a [KeyError] (the old manager is untouched) *)
Theorem reduction_bad_root vorder order s :
  Inv s →
  NoDup vorder → (list_to_set vorder : gset nat) = dom (vars s) →
  NoDup order → (list_to_set order : gset positive) = dom (succ s) →
  (∃ v, v ∈ roots s ∧ succ s !! absn v = None) →
  reduction vorder order s = (Err EKey, s).
Proof.
  intros HI NDv Hdv NDo Hdo Hbad.
  destruct (reduction vorder order s) as [r s'] eqn:Hrun.
  rewrite reduction_unfold in Hrun.
  apply try_to_reorder_inert in Hrun as (r1&s1&Hbody&Hcase).
  assert (E : reduction_body vorder order (s <| rctx := true |>)
              = (Err EKey, s <| rctx := true |>)).
  { apply reduction_body_bad_root; try done. by apply Inv_rctx. }
  rewrite E in Hbody. injection Hbody as <- <-.
  destruct Hcase as [[? _]|[-> ->]]; [done|]. by rewrite set_rctx_id.
Qed.

(** ** Consequences of [Reduced] *)
Section reduced.
Context (s b : st) (umap : gmap positive Z) (HR : Reduced s b umap).

(** every node of the old manager (also an unreferenced one) is translated *)
Lemma reduced_node n : is_Some (succ s !! n) →
  ∃ x, umap !! n = Some x ∧ valid b x ∧ (0 < x)%Z ∧
       ∀ ρ, denv b x ρ = denv s (Z.pos n) ρ.
Proof.
  intros Hn. apply elem_of_dom in Hn. rewrite <- (rd_dom _ _ _ HR) in Hn.
  apply elem_of_dom in Hn as [x Hx]. exists x. split; [done|].
  by destruct (rd_node _ _ _ HR n x Hx) as (?&?&_&?).
Qed.

(** two old nodes with the same function have the same translation
    (canonicity of the new manager) *)
Lemma reduced_canonical n1 n2 x1 x2 :
  umap !! n1 = Some x1 → umap !! n2 = Some x2 →
  (∀ ρ, denv s (Z.pos n1) ρ = denv s (Z.pos n2) ρ) → x1 = x2.
Proof.
  intros H1 H2 Heq.
  destruct (rd_node _ _ _ HR n1 x1 H1) as (Hv1&_&_&Hρ1).
  destruct (rd_node _ _ _ HR n2 x2 H2) as (Hv2&_&_&Hρ2).
  apply (canonical_names b (rd_inv _ _ _ HR)); try done.
  intros ρ. by rewrite Hρ1, Hρ2.
Qed.

(** in a consistent old manager distinct nodes are distinct functions, so
    the translation is injective *)
Lemma reduced_injective n1 n2 x : Inv s →
  umap !! n1 = Some x → umap !! n2 = Some x → n1 = n2.
Proof.
  intros HI H1 H2.
  destruct (rd_node _ _ _ HR n1 x H1) as (_&_&HD1&_).
  destruct (rd_node _ _ _ HR n2 x H2) as (_&_&HD2&_).
  assert (Hv : ∀ n, is_Some (umap !! n) → valid s (Z.pos n)).
  { intros n Hn. apply elem_of_dom in Hn. rewrite (rd_dom _ _ _ HR) in Hn.
    apply elem_of_dom in Hn. split; [done|]. by rewrite absn_pos. }
  assert (Z.pos n1 = Z.pos n2) as E; [|by injection E].
  apply (canonical_levels s HI); [apply Hv; by eexists|apply Hv; by eexists|].
  intros a. by rewrite <- HD1, <- HD2.
Qed.

(** the roots of the new manager: sorted, duplicate-free, exactly the
    translations of the old roots *)
Lemma reduced_roots :
  StronglySorted Z.le (roots b) ∧ NoDup (roots b) ∧
  (∀ x, x ∈ roots b → valid b x ∧ ∃ v, v ∈ roots s ∧ ∀ ρ, denv b x ρ = denv s v ρ) ∧
  (∀ v, v ∈ roots s → ∃ x, x ∈ roots b ∧ ∀ ρ, denv b x ρ = denv s v ρ).
Proof.
  destruct (rd_roots _ _ _ HR) as (rs&E&HF). rewrite E.
  assert (Hel : ∀ x, x ∈ remove_dups (merge_sort Z.le rs) ↔ x ∈ rs).
  { intros x. by rewrite elem_of_remove_dups, merge_sort_Permutation. }
  split_and!.
  - apply StronglySorted_remove_dups, (StronglySorted_merge_sort Z.le).
  - apply NoDup_remove_dups.
  - intros x Hx. apply Hel, elem_of_list_lookup in Hx as [i Hi].
    destruct (Forall2_lookup_r _ _ _ _ _ HF Hi) as (v&Hv&Hvx&_&_&Hρ).
    split; [done|]. exists v. split; [by eapply elem_of_list_lookup_2|done].
  - intros v Hv. apply elem_of_list_lookup in Hv as [i Hi].
    destruct (Forall2_lookup_l _ _ _ _ _ HF Hi) as (x&Hx&_&_&_&Hρ).
    exists x. split; [|done]. apply Hel. by eapply elem_of_list_lookup_2.
Qed.

End reduced.
