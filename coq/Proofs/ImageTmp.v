From DD Require Import Subst Quantify.
Local Open Scope string_scope.

Definition runZ (w : world) (o : op) : world * Z :=
  let '(w', r) := step w 0 o in (w', match r with Ok (VZ z) => z | _ => 0%Z end).

Fixpoint build (n : nat) (lvl : nat) (F : (nat → bool) → bool) (a : nat → bool)
    (w : world) : world * Z :=
  match n with
  | 0 => (w, if F a then 1%Z else (-1)%Z)
  | S n' => let '(w, lo) := build n' (S lvl) F (upd a lvl false) w in
            let '(w, hi) := build n' (S lvl) F (upd a lvl true) w in
            let '(w, x) := runZ w (OVar lvl) in
            runZ w (OIte x hi lo)
  end.

Definition w0 : world := fst (step world_empty 0 (ONew [(0, 0); (1, 1); (2, 2); (3, 3)])).

Definition asg (k : nat) : nat → bool := fun l => Nat.testbit k l.
Definition idx (a : nat → bool) : nat :=
  (if a 0 then 1 else 0) + (if a 1 then 2 else 0) + (if a 2 then 4 else 0) + (if a 3 then 8 else 0).
Definition ofN (N : nat) : (nat → bool) → bool := fun a => Nat.testbit N (idx a).
Definition all16 := seq 0 16.

Definition agreeB (q : list nat) (a b : nat → bool) : bool :=
  forallb (fun l => bool_decide (l ∈ q) || eqb (a l) (b l)) [0;1;2;3].
Definition qB (fa : bool) (q : list nat) (F : (nat → bool) → bool) (a : nat → bool) : bool :=
  if fa then forallb (fun k => implb (agreeB q a (asg k)) (F (asg k))) all16
  else existsb (fun k => agreeB q a (asg k) && F (asg k)) all16.

Definition rdm (m : list (nat * nat)) (l : nat) : nat :=
  default l ((list_to_map (reverse m) : gmap nat nat) !! l).
Definition ren (m : list (nat * nat)) (a : nat → bool) : nat → bool := fun l => a (rdm m l).

(* preimage test *)
Definition pre_test (Nt Ns : nat) (rn : list (nat * nat)) (q : list nat) (fa : bool) : option bool :=
  let '(w, t) := build 4 0 (ofN Nt) (fun _ => false) w0 in
  let '(w, g) := build 4 0 (ofN Ns) (fun _ => false) w in
  let s := world_get w 0 in
  let '(w', r) := step w 0 (OPreimage t g false rn false q fa) in
  match r with
  | Ok (VZ x) =>
      let s' := world_get w' 0 in
      Some (forallb (fun k => eqb (D s' x (asg k))
              (qB fa q (fun b => D s t b && D s g (ren rn b)) (asg k))) all16)
  | _ => None
  end.

Definition img_test (Nt Ns : nat) (rn : list (nat * nat)) (q : list nat) (fa : bool) : option bool :=
  let '(w, t) := build 4 0 (ofN Nt) (fun _ => false) w0 in
  let '(w, g) := build 4 0 (ofN Ns) (fun _ => false) w in
  let s := world_get w 0 in
  let '(w', r) := step w 0 (OImage t g false rn false q fa) in
  match r with
  | Ok (VZ x) =>
      let s' := world_get w' 0 in
      Some (forallb (fun k => eqb (D s' x (asg k))
              (qB fa q (fun b => D s t b && D s g b) (ren rn (asg k)))) all16)
  | _ => None
  end.

(* functions that depend only on levels in L : make from N by masking the assignment *)
Definition only (L : list nat) (F : (nat → bool) → bool) : (nat → bool) → bool :=
  fun a => F (fun l => if bool_decide (l ∈ L) then a l else false).
Definition pre_test' (Nt Ns : nat) (L : list nat) rn q fa :=
  let '(w, t) := build 4 0 (ofN Nt) (fun _ => false) w0 in
  let '(w, g) := build 4 0 (only L (ofN Ns)) (fun _ => false) w in
  let s := world_get w 0 in
  let '(w', r) := step w 0 (OPreimage t g false rn false q fa) in
  match r with
  | Ok (VZ x) =>
      let s' := world_get w' 0 in
      Some (forallb (fun k => eqb (D s' x (asg k))
              (qB fa q (fun b => D s t b && D s g (ren rn b)) (asg k))) all16)
  | _ => None
  end.

Definition Ns := [27030; 51914; 4242; 65535; 0; 12345; 43690; 52428; 61680; 65280; 38505; 7; 32768; 23130].
Definition qs : list (list nat) := [[]; [0]; [1]; [2]; [3]; [0;1]; [1;3]; [0;2]; [1;2]; [0;1;2;3]; [1;2;3]; [0;3]].

Definition sweep (f : nat → nat → list nat → bool → option bool) :=
  filter (fun x => negb (bool_decide (snd x = Some true)))
   (Nt ← Ns; Ns' ← Ns; q ← qs; fa ← [true; false]; [((Nt, Ns', q, fa), f Nt Ns' q fa)]).

(* adjacent injective, target only on keys *)
Eval vm_compute in length (sweep (fun Nt Ns q fa => pre_test' Nt Ns [0;2] [(0,1);(2,3)] q fa)).
Eval vm_compute in length (sweep (fun Nt Ns q fa => pre_test' Nt Ns [1;3] [(1,0);(3,2)] q fa)).
Eval vm_compute in length (sweep (fun Nt Ns q fa => pre_test' Nt Ns [0;1;2] [(2,3)] q fa)).
Eval vm_compute in length (sweep (fun Nt Ns q fa => pre_test' Nt Ns [0;1;3] [(1,2)] q fa)).
(* no restriction on target *)
Eval vm_compute in head (sweep (fun Nt Ns q fa => pre_test Nt Ns [(0,1);(2,3)] q fa)).
(* non adjacent *)
Eval vm_compute in head (sweep (fun Nt Ns q fa => pre_test' Nt Ns [0;1] [(0,2);(1,3)] q fa)).
(* non injective *)
Eval vm_compute in head (sweep (fun Nt Ns q fa => pre_test' Nt Ns [0;2] [(0,1);(2,1)] q fa)).
(* image: anything that returns *)
Eval vm_compute in length (sweep (fun Nt Ns q fa => img_test Nt Ns [(1,0);(3,2)] q fa)).
Eval vm_compute in head (sweep (fun Nt Ns q fa => img_test Nt Ns [(1,0);(3,2)] q fa)).
