(** * Support: [support], [is_essential] compute exactly the variables a
      reference depends on (C10, first part). *)
From DD Require Export Subst.

(** semantic dependence on a level *)
Definition depends (s : st) (u : Z) (l : nat) : Prop :=
  ∃ a, D s u (upd a l true) ≠ D s u (upd a l false).

(** ** Generic helpers *)
Lemma mapM_pure {A B} (f : A → MS B) (g : A → B) (l : list A) (s : st) :
  (∀ x, x ∈ l → f x s = (Ok (g x), s)) →
  mapM f l s = (Ok (g <$> l), s).
Proof.
  induction l as [|x l IH]; intros H; [done|].
  cbn [mapM]. rewrite (bind_ok _ _ _ _ _ (H x (elem_of_list_here _ _))).
  rewrite (bind_ok _ _ _ _ _ (IH (fun y Hy => H y (elem_of_list_further _ _ _ Hy)))).
  done.
Qed.

Lemma full_all (L : gset nat) n :
  (∀ l, l ∈ L → l < n) → size L = n → ∀ l, l < n → l ∈ L.
Proof.
  intros Hb Hs l Hl. destruct (decide (l ∈ L)) as [|Hnl]; [done|]. exfalso.
  assert (Hsub : L ⊆ set_seq 0 n ∖ {[l]}).
  { intros x Hx. apply elem_of_difference. split.
    - apply elem_of_set_seq. specialize (Hb x Hx). lia.
    - intros ->%elem_of_singleton. done. }
  apply subseteq_size in Hsub. rewrite size_difference in Hsub.
  - rewrite size_set_seq, size_singleton in Hsub. lia.
  - intros x ->%elem_of_singleton. apply elem_of_set_seq. lia.
Qed.

Lemma occurs_inv s u l : occurs s u l →
  ∃ t, succ s !! absn u = Some t ∧ absn u ≠ 1%positive ∧
    (l = t_lvl t ∨ occurs s (t_lo t) l ∨ occurs s (t_hi t) l).
Proof. destruct 1; eauto 10. Qed.

Lemma occurs_abs s u l : occurs s (Z.pos (absn u)) l ↔ occurs s u l.
Proof.
  split; intros H; apply occurs_inv in H as (t&Ht&Hn&Hc); rewrite ?absn_pos in *.
  - destruct Hc as [->|[?|?]];
      [by apply (occ_here s u t)|by apply (occ_lo s u t)|by apply (occ_hi s u t)].
  - destruct Hc as [->|[?|?]];
      [by apply (occ_here s _ t)|by apply (occ_lo s _ t)|by apply (occ_hi s _ t)].
Qed.

Lemma lvl_abs s u : lvl_of s (Z.pos (absn u)) = lvl_of s u.
Proof. done. Qed.

Section support.
Context (s : st) (HI : Inv s).

(** ** A constructive reading of canonicity: different references are told
    apart by an assignment *)
Lemma sign_mul (σ : bool) x : valid s x →
  valid s ((if σ then -1 else 1) * x)%Z ∧
  lvl_of s ((if σ then -1 else 1) * x)%Z = lvl_of s x ∧
  ∀ a, D s ((if σ then -1 else 1) * x)%Z a = xorb σ (D s x a).
Proof.
  intros Hx. destruct σ.
  - replace (-1 * x)%Z with (- x)%Z by lia.
    split_and!; [by apply valid_neg|by rewrite lvl_neg|].
    intros a. by rewrite (D_neg s HI).
  - rewrite Z.mul_1_l. split_and!; try done. intros a. by destruct (D s x a).
Qed.

Lemma dw_aux k : ∀ u v, valid s u → valid s v →
  nvars s - k ≤ lvl_of s u → nvars s - k ≤ lvl_of s v → u ≠ v →
  ∃ a, D s u a ≠ D s v a.
Proof.
  induction k as [|k IH]; intros u v Hu Hv Lu Lv Hne.
  - destruct (node_cases s HI u Hu) as [[Eu _]|(t&?&?&?&Hl&?&_)]; [|lia].
    destruct (node_cases s HI v Hv) as [[Ev _]|(t&?&?&?&Hl&?&_)]; [|lia].
    exists (fun _ => false).
    destruct (absn_1 u Eu (proj1 Hu)) as [->| ->],
             (absn_1 v Ev (proj1 Hv)) as [->| ->]; try done;
      rewrite ?(D_1 s HI), ?(D_m1 s HI); done.
  - assert (Habove : ∀ u v, valid s u → valid s v →
               nvars s - S k ≤ lvl_of s u → lvl_of s u < lvl_of s v →
               ∃ a, D s u a ≠ D s v a).
    { clear u v Hu Hv Lu Lv Hne. intros u v Hu Hv Lu Luv.
      destruct (node_cases s HI u Hu)
        as [[Eu El]|(t&Ht&Hn&Hlo&Hl&?&Hvl&Hvh&?&Hll&Hlh&Hne)].
      { pose proof (lvl_le s HI v Hv). lia. }
      destruct (IH (t_lo t) (t_hi t)) as [a Ha]; try done; try lia.
      pose proof (D_step s HI u (upd a (t_lvl t) true) t Hu Ht Hn) as HA1.
      pose proof (D_step s HI u (upd a (t_lvl t) false) t Hu Ht Hn) as HA0.
      rewrite upd_same in HA1, HA0.
      rewrite (D_upd_above s HI (t_hi t)) in HA1 by first [done|lia].
      rewrite (D_upd_above s HI (t_lo t)) in HA0 by first [done|lia].
      assert (HV1 : D s v (upd a (t_lvl t) true) = D s v a)
        by (apply (D_upd_above s HI); [done|lia]).
      assert (HV0 : D s v (upd a (t_lvl t) false) = D s v a)
        by (apply (D_upd_above s HI); [done|lia]).
      destruct (decide (D s u (upd a (t_lvl t) true) = D s v a)) as [E|E].
      - exists (upd a (t_lvl t) false). rewrite HV0, <- E, HA0, HA1.
        destruct (D s (t_lo t) a), (D s (t_hi t) a), (bool_decide (u < 0)%Z); done.
      - exists (upd a (t_lvl t) true). by rewrite HV1. }
    destruct (lt_eq_lt_dec (lvl_of s u) (lvl_of s v)) as [[Hlt|Heql]|Hgt].
    + by apply (Habove u v).
    + destruct (node_cases s HI u Hu)
        as [[Eu El]|(t&Ht&Hn&Hlo&Hl&?&Hvl&Hvh&Hhp&Hll&Hlh&Hnet)];
      destruct (node_cases s HI v Hv)
        as [[Ev El']|(t'&Ht'&Hn'&Hlo'&Hl'&?&Hvl'&Hvh'&Hhp'&Hll'&Hlh'&Hnet')]; try lia.
      * exists (fun _ => false).
        destruct (absn_1 u Eu (proj1 Hu)) as [->| ->],
                 (absn_1 v Ev (proj1 Hv)) as [->| ->]; try done;
          rewrite ?(D_1 s HI), ?(D_m1 s HI); done.
      * assert (Ei : t_lvl t = t_lvl t') by lia.
        set (σu := bool_decide (u < 0)%Z). set (σv := bool_decide (v < 0)%Z).
        set (su := if σu then (-1)%Z else 1%Z). set (sv := if σv then (-1)%Z else 1%Z).
        destruct (decide (su * t_hi t = sv * t_hi t')%Z) as [Hhi|Hhi]; cycle 1.
        { destruct (sign_mul σu _ Hvh) as (?&Hl1&HD1), (sign_mul σv _ Hvh') as (?&Hl2&HD2).
          destruct (IH (su * t_hi t)%Z (sv * t_hi t')%Z) as [a Ha]; try done;
            try (subst su sv; rewrite ?Hl1, ?Hl2; lia).
          subst su sv. rewrite HD1, HD2 in Ha.
          exists (upd a (t_lvl t) true).
          rewrite (D_step s HI u _ t), (D_step s HI v _ t') by done.
          rewrite <- Ei. rewrite !upd_same.
          rewrite (D_upd_above s HI (t_hi t)) by first [done | lia].
          rewrite (D_upd_above s HI (t_hi t')) by first [done | lia].
          done. }
        destruct (decide (su * t_lo t = sv * t_lo t')%Z) as [Hlow|Hlow]; cycle 1.
        { destruct (sign_mul σu _ Hvl) as (?&Hl1&HD1), (sign_mul σv _ Hvl') as (?&Hl2&HD2).
          destruct (IH (su * t_lo t)%Z (sv * t_lo t')%Z) as [a Ha]; try done;
            try (subst su sv; rewrite ?Hl1, ?Hl2; lia).
          subst su sv. rewrite HD1, HD2 in Ha.
          exists (upd a (t_lvl t) false).
          rewrite (D_step s HI u _ t), (D_step s HI v _ t') by done.
          rewrite <- Ei. rewrite !upd_same.
          rewrite (D_upd_above s HI (t_lo t)) by first [done | lia].
          rewrite (D_upd_above s HI (t_lo t')) by first [done | lia].
          done. }
        exfalso. apply Hne.
        assert (su = sv ∧ t_hi t = t_hi t') as [Es Eh]
          by (subst su sv; destruct σu, σv; lia).
        assert (t_lo t = t_lo t') as El0
          by (rewrite Es in Hlow; subst sv; destruct σv; lia).
        assert (t = t') as -> by (destruct t, t'; cbn in *; congruence).
        assert (absn u = absn v) as Eabs.
        { apply (inv_pred _ HI) in Ht. apply (inv_pred _ HI) in Ht'. congruence. }
        subst su sv σu σv. destruct Hu as [Hu0 _], Hv as [Hv0 _]. unfold absn in Eabs.
        repeat case_bool_decide; try done; lia.
    + destruct (Habove v u) as [a Ha]; try done; try lia. exists a. congruence.
Qed.

Theorem distinct_witness u v : valid s u → valid s v → u ≠ v →
  ∃ a, D s u a ≠ D s v a.
Proof. intros Hu Hv. apply (dw_aux (nvars s)); try done; lia. Qed.

(** ** Structural occurrence is semantic dependence *)
Lemma occurs_ge u l : valid s u → occurs s u l → lvl_of s u ≤ l.
Proof.
  intros Hv Ho. revert Hv.
  induction Ho as [u t Ht Hn|u t l Ht Hn _ IH|u t l Ht Hn _ IH]; intros Hv;
    destruct (inv_node _ HI _ _ Ht Hn) as (?&Hvl&?&Hvh&Hll&Hlh&?);
    unfold lvl_of at 1; rewrite Ht.
  - done.
  - specialize (IH Hvl). lia.
  - specialize (IH Hvh). lia.
Qed.

Lemma occurs_depends u l : valid s u → occurs s u l → depends s u l.
Proof.
  intros Hv Ho. revert Hv.
  induction Ho as [u t Ht Hn|u t l Ht Hn Ho IH|u t l Ht Hn Ho IH]; intros Hv;
    destruct (inv_node _ HI _ _ Ht Hn) as (?&Hvl&?&Hvh&Hll&Hlh&Hne).
  - destruct (distinct_witness _ _ Hvl Hvh Hne) as [a Ha].
    exists a. rewrite !(D_step s HI u _ t) by done. rewrite !upd_same.
    rewrite (D_upd_above s HI (t_hi t)) by first [done|lia].
    rewrite (D_upd_above s HI (t_lo t)) by first [done|lia].
    destruct (D s (t_lo t) a), (D s (t_hi t) a), (bool_decide (u < 0)%Z); done.
  - destruct (IH Hvl) as [a Ha]. pose proof (occurs_ge _ _ Hvl Ho) as Hge.
    exists (upd a (t_lvl t) false).
    rewrite !(D_step s HI u _ t) by done.
    rewrite !(upd_other _ l) by lia. rewrite !upd_same.
    assert (E : ∀ b, D s (t_lo t) (upd (upd a (t_lvl t) false) l b)
                   = D s (t_lo t) (upd a l b)).
    { intros b. apply (D_indep s HI); [done|]. intros j Hj. unfold upd.
      repeat case_decide; try done; lia. }
    rewrite !E. destruct (D s (t_lo t) (upd a l true)),
      (D s (t_lo t) (upd a l false)), (bool_decide (u < 0)%Z); done.
  - destruct (IH Hvh) as [a Ha]. pose proof (occurs_ge _ _ Hvh Ho) as Hge.
    exists (upd a (t_lvl t) true).
    rewrite !(D_step s HI u _ t) by done.
    rewrite !(upd_other _ l) by lia. rewrite !upd_same.
    assert (E : ∀ b, D s (t_hi t) (upd (upd a (t_lvl t) true) l b)
                   = D s (t_hi t) (upd a l b)).
    { intros b. apply (D_indep s HI); [done|]. intros j Hj. unfold upd.
      repeat case_decide; try done; lia. }
    rewrite !E. destruct (D s (t_hi t) (upd a l true)),
      (D s (t_hi t) (upd a l false)), (bool_decide (u < 0)%Z); done.
Qed.

Lemma depends_occurs u l : valid s u → depends s u l → occurs s u l.
Proof.
  intros Hv [a Ha]. revert Hv Ha.
  remember (nvars s - lvl_of s u) as k eqn:Hk. revert u Hk.
  induction (lt_wf k) as [k _ IH]. intros u Hk Hv Ha.
  destruct (node_cases s HI u Hv) as [[E _]|(t&Ht&Hn&Hlo&Hl&?&Hvl&Hvh&?&Hll&Hlh&?)].
  - by rewrite !(D_term s HI) in Ha.
  - destruct (decide (l = t_lvl t)) as [->|Hne]; [by apply (occ_here s u t)|].
    rewrite !(D_step s HI u _ t) in Ha by done.
    rewrite !(upd_other _ l) in Ha by done.
    destruct (a (t_lvl t)).
    + apply (occ_hi s u t); [done..|].
      apply (IH (nvars s - lvl_of s (t_hi t))); try done; [lia|].
      intros E. apply Ha. by rewrite E.
    + apply (occ_lo s u t); [done..|].
      apply (IH (nvars s - lvl_of s (t_lo t))); try done; [lia|].
      intros E. apply Ha. by rewrite E.
Qed.

Lemma depends_iff_occurs u l : valid s u → depends s u l ↔ occurs s u l.
Proof. intros. split; [by apply depends_occurs|by apply occurs_depends]. Qed.

(** ** [_support]: the depth-first traversal *)
Definition done_ (L : gset nat) (n : positive) : Prop :=
  ∀ l, occurs s (Z.pos n) l → l ∈ L.

Lemma support_rec_spec fuel : ∀ u L N r s',
  valid s u → nvars s - lvl_of s u < fuel →
  (∀ l, l ∈ L → l < nvars s) →
  (∀ n, n ∈ N → lvl_of s u ≤ lvl_of s (Z.pos n) → done_ L n) →
  support_rec fuel u (L, N) s = (r, s') →
  s' = s ∧ ∃ L' N', r = Ok (L', N') ∧ L ⊆ L' ∧ N ⊆ N' ∧
    (∀ l, l ∈ L' → l ∈ L ∨ occurs s u l) ∧
    (∀ n, n ∈ N' → n ∈ N ∨ done_ L' n) ∧ done_ L' (absn u).
Proof.
  induction fuel as [|fu IH]; intros u L N r s' Hu Hfuel HL HN; [lia|].
  cbn [support_rec]. rewrite bind_get.
  destruct (decide (size L = nvars s)) as [Hfull|Hnf].
  { intros [= <- <-]. split; [done|]. exists L, N.
    split_and!; try done; [by left|by left|].
    intros l Hl. apply (full_all L (nvars s)); try done.
    by apply (occurs_lt s (Z.pos (absn u))). }
  rewrite decide_False by apply Hu.
  destruct (decide (absn u ∈ N)) as [Hin|Hnin].
  { intros [= <- <-]. split; [done|]. exists L, N.
    split_and!; try done; [by left|by left|].
    apply HN; [done|]. by rewrite lvl_abs. }
  destruct (decide (absn u = 1%positive)) as [E1|Hn1].
  { intros [= <- <-]. split; [done|]. exists L, (N ∪ {[absn u]}).
    assert (Hd : done_ L (absn u)).
    { intros l Hoc. apply occurs_inv in Hoc as (t&_&Hn&_). by rewrite absn_pos in Hn. }
    split_and!; try done; [set_solver|by left|].
    intros n [Hn| ->%elem_of_singleton]%elem_of_union; [by left|by right]. }
  destruct (node_cases s HI u Hu) as [[E _]|(t&Ht&_&Hlo&Hlu&Hln&Hvl&Hvh&Hhp&Hll&Hlh&Hne)];
    [done|].
  assert (Egs : getsucc (absn u) s = (Ok t, s)) by (unfold getsucc; by rewrite Ht).
  rewrite (bind_ok _ _ _ _ _ Egs).
  assert (Hnt' : negb (is_term t) = true)
    by (unfold is_term; by rewrite bool_decide_eq_false_2).
  rewrite (bind_ok _ _ s tt s (assert_true _ _ Hnt')).
  assert (Hmono : ∀ (L1 L2 : gset nat) n, L1 ⊆ L2 → done_ L1 n → done_ L2 n).
  { intros L1 L2 n Hsub Hd l Hoc. apply Hsub. by apply Hd. }
  (* low branch *)
  destruct (support_rec fu (t_lo t) (L ∪ {[t_lvl t]}, N ∪ {[absn u]}) s) as [r1 s1] eqn:E1.
  pose proof E1 as E1'.
  apply IH in E1' as (->&L1&N1&->&HL1&HN1&Ho1&Hd1&Hdlo); [|done|lia| |]; cycle 1.
  { intros l [Hl| ->%elem_of_singleton]%elem_of_union; [by apply HL|done]. }
  { intros n [Hn| ->%elem_of_singleton]%elem_of_union Hle.
    - apply (Hmono L); [apply union_subseteq_l|]. apply HN; [done|]. lia.
    - rewrite lvl_abs in Hle. lia. }
  rewrite (bind_ok _ _ _ _ _ E1).
  assert (HLL1 : L ⊆ L1) by (intros x Hx; apply HL1, elem_of_union; by left).
  assert (HNN1 : N ⊆ N1) by (intros x Hx; apply HN1, elem_of_union; by left).
  (* high branch *)
  intros E2.
  apply IH in E2 as (->&L2&N2&->&HL2&HN2&Ho2&Hd2&Hdhi); [|done|lia| |]; cycle 1.
  { intros l Hl. destruct (Ho1 l Hl) as [[Hl'| ->%elem_of_singleton]%elem_of_union|Hl'];
      [by apply HL|done|]. by apply (occurs_lt s (t_lo t)). }
  { intros n Hn Hle. destruct (Hd1 n Hn) as [[Hn'| ->%elem_of_singleton]%elem_of_union|Hn'].
    - apply (Hmono L); [done|]. apply HN; [done|]. lia.
    - rewrite lvl_abs in Hle. lia.
    - done. }
  split; [done|]. exists L2, N2.
  assert (Hdu : done_ L2 (absn u)).
  { intros l Hl. apply (proj1 (occurs_abs s u l)) in Hl.
    apply occurs_inv in Hl as (t'&Ht'&_&Hc).
    rewrite Ht in Ht'. injection Ht' as <-.
    destruct Hc as [->|[Hc|Hc]].
    - apply HL2, HL1, elem_of_union. right. by apply elem_of_singleton.
    - apply HL2. apply Hdlo. by apply occurs_abs.
    - apply Hdhi. by apply occurs_abs. }
  split_and!; [done|by etrans|by etrans| | |done].
  - intros l Hl. destruct (Ho2 l Hl) as [Hl'|Hl']; [|right; by apply (occ_hi s u t)].
    destruct (Ho1 l Hl') as [[Hl''| ->%elem_of_singleton]%elem_of_union|Hl''];
      [by left|right; by apply (occ_here s u t)|right; by apply (occ_lo s u t)].
  - intros n Hn. destruct (Hd2 n Hn) as [Hn'|Hn']; [|by right].
    destruct (Hd1 n Hn') as [[Hn''| ->%elem_of_singleton]%elem_of_union|Hn''];
      [by left|by right|right; by apply (Hmono L1)].
Qed.

(** the traversal computes the occurring levels *)
Lemma support_levels_occ u r s' : valid s u →
  support_levels u s = (r, s') →
  s' = s ∧ ∃ X, r = Ok X ∧ ∀ l, l ∈ X ↔ occurs s u l.
Proof.
  intros Hu. unfold support_levels. rewrite bind_get.
  destruct (support_rec (S (S (nvars s))) u (∅, ∅) s) as [r1 s1] eqn:E1.
  pose proof E1 as E1'.
  apply support_rec_spec in E1' as (->&L&N&->&_&_&Ho&_&Hd); [|done|lia|set_solver..].
  rewrite (bind_ok _ _ _ _ _ E1). intros [= <- <-]. split; [done|].
  exists L. split; [done|]. intros l. split.
  - intros Hl. destruct (Ho l Hl) as [Hl'|Hl']; [set_solver|done].
  - intros Hl. apply Hd. by apply occurs_abs.
Qed.

(** ** [is_essential] *)
Lemma is_essential_rec_spec fuel : ∀ u i r s',
  valid s u → nvars s - lvl_of s u < fuel → i < nvars s →
  is_essential_rec fuel u i s = (r, s') →
  s' = s ∧ ∃ b, r = Ok b ∧ (b = true ↔ occurs s u i).
Proof.
  induction fuel as [|fu IH]; intros u i r s' Hu Hfuel Hi; [lia|].
  cbn [is_essential_rec].
  destruct (node_cases s HI u Hu) as [[E El]|(t&Ht&Hn&Hlo&Hl&Hln&Hvl&Hvh&Hhp&Hll&Hlh&Hne)].
  - assert (Ht1 : succ s !! absn u = Some (tterm (nvars s)))
      by (rewrite E; apply (inv_term _ HI)).
    rewrite (bind_ok _ _ _ _ _ (getsuccZ_ok s u _ (proj1 Hu) Ht1)).
    cbn [t_lvl tterm]. rewrite decide_True by done.
    intros [= <- <-]. split; [done|]. exists false. split; [done|]. split; [done|].
    intros Ho. apply occurs_inv in Ho as (?&_&?&_). done.
  - rewrite (bind_ok _ _ _ _ _ (getsuccZ_ok s u t (proj1 Hu) Ht)).
    destruct (decide (i < t_lvl t)) as [Hlt|Hge].
    { intros [= <- <-]. split; [done|]. exists false. split; [done|]. split; [done|].
      intros Ho. apply (occurs_ge u i Hu) in Ho. lia. }
    destruct (decide (i = t_lvl t)) as [->|Hne'].
    { intros [= <- <-]. split; [done|]. exists true. split; [done|]. split; [|done].
      intros _. by apply (occ_here s u t). }
    assert (Hnt' : negb (is_term t) = true)
      by (unfold is_term; by rewrite bool_decide_eq_false_2).
    rewrite (bind_ok _ _ s tt s (assert_true _ _ Hnt')).
    destruct (is_essential_rec fu (t_lo t) i s) as [r1 s1] eqn:E1.
    pose proof E1 as E1'.
    apply IH in E1' as (->&b1&->&Hb1); [|done|lia|done].
    rewrite (bind_ok _ _ _ _ _ E1).
    destruct b1.
    { intros [= <- <-]. split; [done|]. exists true. split; [done|]. split; [|done].
      intros _. apply (occ_lo s u t); [done..|]. by apply Hb1. }
    intros E2. apply IH in E2 as (->&b2&->&Hb2); [|done|lia|done].
    split; [done|]. exists b2. split; [done|]. rewrite Hb2. split.
    + by apply (occ_hi s u t).
    + intros Ho. apply occurs_inv in Ho as (t'&Ht'&_&Hc).
      rewrite Ht in Ht'. injection Ht' as <-.
      destruct Hc as [?|[Hc|Hc]]; [done| |done].
      apply Hb1 in Hc. done.
Qed.

End support.

(** ** The public statements *)
Theorem support_levels_spec s u r s' : Inv s → valid s u →
  support_levels u s = (r, s') →
  s' = s ∧ ∃ X, r = Ok X ∧ ∀ l, l ∈ X ↔ depends s u l.
Proof.
  intros HI Hu Hrun.
  destruct (support_levels_occ s HI u r s' Hu Hrun) as (->&X&->&HX).
  split; [done|]. exists X. split; [done|]. intros l.
  rewrite HX. symmetry. by apply depends_iff_occurs.
Qed.

Lemma var_at_level_ok s l v : lvl2var s !! l = Some v → var_at_level l s = (Ok v, s).
Proof. intros H. unfold var_at_level. rewrite bind_get. by rewrite H. Qed.
Lemma level_of_var_ok s l v : vars s !! v = Some l → level_of_var v s = (Ok l, s).
Proof. intros H. unfold level_of_var. rewrite bind_get. by rewrite H. Qed.

(** total reading of the two variable tables *)
Definition nm (s : st) (l : nat) : nat := default 0 (lvl2var s !! l).
Definition lv (s : st) (v : nat) : nat := default 0 (vars s !! v).

(** [support] in terms of the occurring levels *)
Lemma support_occ s u r s' : Inv s → valid s u →
  support u s = (r, s') →
  s' = s ∧ ∃ X, support_levels u s = (Ok X, s) ∧ (∀ l, l ∈ X ↔ occurs s u l) ∧
    r = Ok (list_to_set (nm s <$> elements X)).
Proof.
  intros HI Hu. unfold support.
  destruct (support_levels u s) as [r1 s1] eqn:E1.
  destruct (support_levels_occ s HI u r1 s1 Hu E1) as (->&X&->&HX).
  rewrite (bind_ok _ _ _ _ _ E1).
  assert (Hm : mapM var_at_level (elements X) s = (Ok (nm s <$> elements X), s)).
  { apply mapM_pure.
    intros l Hl%elem_of_elements%HX. apply (occurs_lt s u l HI) in Hl.
    apply (inv_lvls _ HI) in Hl as [v Hv]. apply var_at_level_ok.
    unfold nm. by rewrite Hv. }
  rewrite (bind_ok _ _ _ _ _ Hm).
  intros [= <- <-]. split; [done|]. by exists X.
Qed.

Theorem support_spec s u r s' : Inv s → valid s u →
  support u s = (r, s') →
  s' = s ∧ ∃ X, r = Ok X ∧
    ∀ v, v ∈ X ↔ ∃ l, vars s !! v = Some l ∧ depends s u l.
Proof.
  intros HI Hu Hrun.
  destruct (support_occ s u r s' HI Hu Hrun) as (->&X&_&HX&->).
  split; [done|]. eexists. split; [done|]. intros v.
  rewrite elem_of_list_to_set, elem_of_list_fmap. split.
  - intros (l&->&Hl%elem_of_elements%HX). exists l. split.
    + pose proof (occurs_lt s u l HI Hl) as Hlt.
      apply (inv_lvls _ HI) in Hlt as [v Hv]. unfold nm. rewrite Hv.
      by apply (inv_vars _ HI).
    + by apply occurs_depends.
  - intros (l&Hv&Hd). exists l. split.
    + apply (inv_vars _ HI) in Hv. unfold nm. by rewrite Hv.
    + apply elem_of_elements, HX. by apply depends_occurs.
Qed.

Theorem is_essential_spec s u v r s' : Inv s → valid s u →
  is_essential u v s = (r, s') →
  s' = s ∧ ∃ b, r = Ok b ∧
    (b = true ↔ ∃ l, vars s !! v = Some l ∧ depends s u l).
Proof.
  intros HI Hu. unfold is_essential. rewrite bind_get.
  destruct (vars s !! v) as [i|] eqn:Ev.
  - intros Hrun.
    apply (is_essential_rec_spec s HI) in Hrun as (->&b&->&Hb);
      [|done|lia|by apply (name_level s v)].
    split; [done|]. exists b. split; [done|]. rewrite Hb. split.
    + intros Ho. exists i. split; [done|]. by apply occurs_depends.
    + intros (l&[= <-]&Hd). by apply depends_occurs.
  - intros [= <- <-]. split; [done|]. exists false. split; [done|].
    split; [done|]. by intros (l&?&_).
Qed.
