(** * LexText: the character-level lexer [lexc] (rule order of PLY's master
      regular expression, regenerated from dd/_parser.py) against the
      spelling-level lexer [lex_all] of the C05 theorems: separated spellings
      are matched whole, separators (blanks, tabs, newlines, comments) do not
      matter, the lexer never runs out of fuel; [parse ∘ print] and
      [add_expr ∘ to_expr] on raw text. *)
From Coq Require Import Ascii.
From stdpp Require Import strings pretty.
From DD Require Export ExprSem Lexer.
From DD Require Export Generated.LexerRules.
Local Open Scope string_scope.

(** ** strings *)
Lemma slen_app (a b : string) : String.length (a +:+ b) = String.length a + String.length b.
Proof. induction a as [|x a IH]; [done|]. rewrite sapp_cons. cbn [String.length]. by rewrite IH. Qed.

Lemma span_app p s : (span p s).1 +:+ (span p s).2 = s.
Proof.
  induction s as [|a s IH]; [done|]. cbn [span]. destruct (p a); [|done].
  destruct (span p s) as [run rest]. cbn in *. rewrite sapp_cons. by rewrite IH.
Qed.
Lemma span_length p s :
  String.length (span p s).1 + String.length (span p s).2 = String.length s.
Proof. rewrite <- slen_app. by rewrite span_app. Qed.

(** the text after a run: empty, or a character outside the class *)
Definition stops_at (p : ascii → bool) (s : string) : Prop :=
  match s with "" => True | String c _ => p c = false end.

Lemma span_all p w rest : all_chars p w = true → stops_at p rest →
  span p (w +:+ rest) = (w, rest).
Proof.
  intros Hw Hr. induction w as [|a w IH].
  - destruct rest as [|c r]; [done|]. cbn in Hr. change ("" +:+ String c r) with (String c r).
    cbn [span]. by rewrite Hr.
  - cbn [all_chars] in Hw. apply andb_true_iff in Hw as [Ha Hw].
    rewrite sapp_cons. cbn [span]. rewrite Ha, (IH Hw). done.
Qed.

Lemma strip_prefix_app p s rest : strip_prefix p s = Some rest → s = p +:+ rest.
Proof.
  revert s. induction p as [|a p IH]; intros s H; cbn [strip_prefix] in H.
  - by injection H as ->.
  - destruct s as [|b s]; [done|]. destruct (decide (a = b)) as [->|]; [|done].
    rewrite sapp_cons. f_equal. by apply IH.
Qed.
Lemma strip_prefix_self p rest : strip_prefix p (p +:+ rest) = Some rest.
Proof.
  induction p as [|a p IH]; [done|]. rewrite sapp_cons. cbn [strip_prefix].
  by rewrite decide_True.
Qed.

Lemma after_close_length cl s rest : after_close cl s = Some rest →
  String.length rest ≤ String.length s.
Proof.
  revert rest. induction s as [|c s IH]; intros rest H; cbn [after_close] in H.
  - destruct (strip_prefix cl "") as [r|] eqn:E; [|done]. injection H as ->.
    apply strip_prefix_app in E. rewrite E, slen_app. lia.
  - destruct (strip_prefix cl (String c s)) as [r|] eqn:E.
    + injection H as ->. apply strip_prefix_app in E. rewrite E, slen_app. lia.
    + apply IH in H. cbn [String.length]. lia.
Qed.

(** ** every rule consumes at least one character (any tables, any rules) *)
Section generic.
Context (lt : lex_table) (rw : list (string * string)) (rules : list lrule).

Lemma match_lit_app alts s a rest : match_lit alts s = Some (a, rest) →
  a ≠ "" ∧ s = a +:+ rest.
Proof.
  induction alts as [|b alts IH]; [done|]. cbn [match_lit].
  destruct (strip_prefix b s) as [r|] eqn:E; [|done].
  destruct (decide (b = "")); [done|]. intros [= -> ->]. split; [done|].
  by apply strip_prefix_app.
Qed.

Lemma match_rule_consumes r s tok rest :
  match_rule lt rw r s = Some (tok, rest) → String.length rest < String.length s.
Proof.
  destruct r as [t fr alts| | |start|op cl|]; cbn [match_rule].
  - destruct (match_lit alts s) as [[a r]|] eqn:E; [|done].
    destruct (list_find _ lt) as [[i [sp [t' v]]]|]; [|done]. intros [= <- <-].
    apply match_lit_app in E as [Ha ->]. rewrite slen_app.
    destruct a; [done|]. cbn [String.length]. lia.
  - destruct s as [|a s]; [done|]. destruct (is_name_start a); [|done].
    pose proof (span_length is_name_char s) as Hl.
    destruct (span is_name_char s) as [run r]. intros [= <- <-]. cbn in *. lia.
  - pose proof (span_length is_digit s) as Hl.
    destruct (span is_digit s) as [run r]. destruct (decide (run = "")); [done|].
    intros [= <- <-]. cbn in Hl. destruct run; [done|]. cbn in Hl. lia.
  - destruct (strip_prefix start s) as [r|] eqn:E; [|done].
    destruct (decide (start = "")); [done|]. intros [= <- <-].
    apply strip_prefix_app in E as ->. rewrite slen_app.
    pose proof (span_length (fun a => negb (is_newline a)) r).
    destruct start; [done|]. cbn [String.length]. lia.
  - destruct (strip_prefix op s) as [r|] eqn:E; [|done].
    destruct (decide (op = "")); [done|].
    destruct (after_close cl r) as [r'|] eqn:Ec; [|done]. intros [= <- <-].
    apply strip_prefix_app in E as ->. rewrite slen_app.
    apply after_close_length in Ec. destruct op; [done|]. cbn [String.length]. lia.
  - pose proof (span_length is_newline s) as Hl.
    destruct (span is_newline s) as [run r]. destruct (decide (run = "")); [done|].
    intros [= <- <-]. cbn in Hl. destruct run; [done|]. cbn in Hl. lia.
Qed.

Theorem first_rule_consumes s tok rest :
  first_rule lt rw rules s = Some (tok, rest) → String.length rest < String.length s.
Proof.
  induction rules as [|r rs IH]; [done|]. cbn [first_rule].
  destruct (match_rule lt rw r s) as [[tok' rest']|] eqn:E; [|done].
  intros [= -> ->]. by eapply match_rule_consumes.
Qed.

(** ** the loop does not depend on the fuel once it exceeds the length *)
Lemma lexc_loop_fuel f1 : ∀ f2 s acc,
  String.length s < f1 → String.length s < f2 →
  lexc_loop f1 lt rw rules s acc = lexc_loop f2 lt rw rules s acc.
Proof.
  induction f1 as [|f1 IH]; intros f2 s acc H1 H2; [lia|].
  destruct f2 as [|f2]; [lia|]. cbn [lexc_loop].
  pose proof (span_length is_ignored s) as Hl.
  destruct (span is_ignored s).2 as [|c s'] eqn:Es; [done|].
  destruct (first_rule lt rw rules (String c s')) as [[tok rest]|]; [|done].
  destruct (decide _) as [Hlt|]; [|done]. apply IH; lia.
Qed.

Definition LL (s : string) (acc : list token) : option (list token) :=
  lexc_loop (S (String.length s)) lt rw rules s acc.

Lemma lexc_LL s : lexc lt rw rules s = LL s [].
Proof. reflexivity. Qed.

(** the fuel-free equation of the lexer: skip blanks and tabs; at the end
    return the tokens; otherwise the first matching rule decides; no rule:
    illegal character.  (The length test of [lexc_loop] always succeeds.) *)
Theorem LL_unfold s acc :
  LL s acc =
  match (span is_ignored s).2 with
  | "" => Some (reverse acc)
  | s' =>
      match first_rule lt rw rules s' with
      | Some (tok, rest) => LL rest (match tok with Some t => t :: acc | None => acc end)
      | None => None
      end
  end.
Proof.
  unfold LL at 1. cbn [lexc_loop].
  pose proof (span_length is_ignored s) as Hl.
  destruct (span is_ignored s).2 as [|c s'] eqn:Es; [done|].
  destruct (first_rule lt rw rules (String c s')) as [[tok rest]|] eqn:Ef; [|done].
  pose proof (first_rule_consumes _ _ _ Ef) as Hlt.
  rewrite decide_True by done. unfold LL. apply lexc_loop_fuel; lia.
Qed.

(** the lexer fails only on an illegal character: with any fuel above the
    length the result is that of the fuel-free equation *)
Corollary lexc_fuel_irrelevant f s acc :
  String.length s < f → lexc_loop f lt rw rules s acc = LL s acc.
Proof. intros. apply lexc_loop_fuel; lia. Qed.

Lemma LL_nil acc : LL "" acc = Some (reverse acc).
Proof. by rewrite LL_unfold. Qed.

Lemma LL_ignored c s acc : is_ignored c = true → LL (String c s) acc = LL s acc.
Proof.
  intros Hc. rewrite (LL_unfold (String c s)), (LL_unfold s). cbn [span]. rewrite Hc.
  by destruct (span is_ignored s).
Qed.

(** a token at the head *)
Lemma LL_token s t rest acc :
  stops_at is_ignored s → s ≠ "" →
  first_rule lt rw rules s = Some (Some t, rest) →
  LL s acc = LL rest (t :: acc).
Proof.
  intros Hs Hne Hf. rewrite LL_unfold.
  destruct s as [|c s]; [done|]. cbn in Hs.
  assert ((span is_ignored (String c s)).2 = String c s) as ->
    by (cbn [span]; by rewrite Hs).
  cbv beta iota. by rewrite Hf.
Qed.
Lemma LL_discard s rest acc :
  stops_at is_ignored s → s ≠ "" →
  first_rule lt rw rules s = Some (None, rest) →
  LL s acc = LL rest acc.
Proof.
  intros Hs Hne Hf. rewrite LL_unfold.
  destruct s as [|c s]; [done|]. cbn in Hs.
  assert ((span is_ignored (String c s)).2 = String c s) as ->
    by (cbn [span]; by rewrite Hs).
  cbv beta iota. by rewrite Hf.
Qed.

Lemma first_rule_app r1 r2 s :
  first_rule lt rw (r1 ++ r2) s =
  match first_rule lt rw r1 s with Some x => Some x | None => first_rule lt rw r2 s end.
Proof.
  induction r1 as [|r r1 IH]; [done|]. cbn [first_rule app].
  by destruct (match_rule lt rw r s).
Qed.
End generic.

(** ** the generated tables *)
Notation FR := (first_rule lex_alias reserved_words lex_rules).
Notation LLc := (LL lex_alias reserved_words lex_rules).

Definition nl : ascii := "010"%char.
Definition tab : ascii := "009"%char.

(** separator characters: blank, tab (ignored), newline (discarded) *)
Definition sep_char (c : ascii) : bool := is_ignored c || is_newline c.
Definition sepstart (s : string) : Prop :=
  match s with "" => True | String c _ => sep_char c = true end.

Ltac ascii_cases c := destruct c as [[] [] [] [] [] [] [] []].

Lemma sep_char_cases c : sep_char c = true → c = " "%char ∨ c = tab ∨ c = nl.
Proof.
  ascii_cases c; intros H; try (by vm_compute in H);
    first [by left | by right; left | by right; right].
Qed.
Lemma is_newline_nl c : is_newline c = true → c = nl.
Proof. ascii_cases c; intros H; try (by vm_compute in H); reflexivity. Qed.
Lemma sep_not_name c : sep_char c = true → is_name_char c = false ∧ is_digit c = false.
Proof. intros [->|[->| ->]]%sep_char_cases; by vm_compute. Qed.
Lemma name_start_not_ignored c : is_name_start c = true → is_ignored c = false.
Proof. ascii_cases c; intros H; try (by vm_compute in H); reflexivity. Qed.
Lemma digit_not_ignored c : is_digit c = true → is_ignored c = false ∧ is_name_start c = false.
Proof. ascii_cases c; intros H; try (by vm_compute in H); by vm_compute. Qed.

Lemma sepstart_stops s : sepstart s → stops_at is_name_char s ∧ stops_at is_digit s.
Proof. destruct s as [|c s]; [done|]. cbn. apply sep_not_name. Qed.

Lemma first_rule_cons lt rw r rs s :
  first_rule lt rw (r :: rs) s =
  match match_rule lt rw r s with Some x => Some x | None => first_rule lt rw rs s end.
Proof. reflexivity. Qed.

(** *** names and reserved words: the first rule, maximal munch *)
Lemma reserved_type_lex1 (sp : string) :
  default "NAME" (snd <$> list_find (fun kv : string * string => bool_decide (kv.1 = sp)) reserved_words
                    ≫= fun kv => Some kv.2)
  = reserved_type reserved_words sp.
Proof.
  unfold reserved_type.
  by destruct (list_find (fun kv : string * string => bool_decide (kv.1 = sp)) reserved_words)
    as [[i kv]|].
Qed.

Lemma FR_name a r0 rest :
  is_name_start a = true → all_chars is_name_char r0 = true → stops_at is_name_char rest →
  FR (String a r0 +:+ rest)
  = Some (Some (Tok (reserved_type reserved_words (String a r0)) (String a r0)), rest).
Proof.
  intros Ha Hr Hs. unfold lex_rules. rewrite first_rule_cons. rewrite sapp_cons.
  cbn [match_rule]. rewrite Ha. by rewrite (span_all _ _ _ Hr Hs).
Qed.

Lemma lex1_name_eq a r0 :
  is_name_start a = true →
  lex1 lex_alias reserved_words (String a r0) =
  if all_chars is_name_char r0
  then Some (Tok (reserved_type reserved_words (String a r0)) (String a r0)) else None.
Proof.
  intros Ha. unfold lex1. cbv beta iota. rewrite Ha.
  destruct (all_chars is_name_char r0); [|done]. cbv beta iota. unfold negb.
  by rewrite reserved_type_lex1.
Qed.
Lemma lex1_other_eq a r0 :
  is_name_start a = false →
  lex1 lex_alias reserved_words (String a r0) =
  if all_chars is_digit (String a r0) then Some (Tok "NUMBER" (String a r0))
  else match list_find (fun kv : string * (string * string) =>
                          bool_decide (kv.1 = String a r0)) lex_alias with
       | Some (_, (_, (t, v))) => Some (Tok t v)
       | None => None
       end.
Proof. intros Ha. unfold lex1. cbv beta iota. by rewrite Ha. Qed.

Lemma FR_lex1_name a r0 t rest :
  is_name_start a = true → lex1 lex_alias reserved_words (String a r0) = Some t →
  stops_at is_name_char rest →
  FR (String a r0 +:+ rest) = Some (Some t, rest).
Proof.
  intros Ha H Hs. rewrite (lex1_name_eq a r0 Ha) in H.
  destruct (all_chars is_name_char r0) eqn:Hr; [|done].
  rewrite (FR_name a r0 rest Ha Hr Hs). by rewrite <- H.
Qed.

(** *** numbers: no earlier rule matches a digit; maximal munch *)
Definition rules_before_number : list lrule := take 13 lex_rules.
Definition rules_after_number : list lrule := drop 14 lex_rules.
Lemma lex_rules_number :
  lex_rules = (rules_before_number ++ RNumber :: rules_after_number)%list.
Proof. reflexivity. Qed.

Lemma before_number_digit d X : is_digit d = true →
  first_rule lex_alias reserved_words rules_before_number (String d X) = None.
Proof. ascii_cases d; intros H; try (by vm_compute in H); vm_compute; reflexivity. Qed.

Lemma FR_number d r0 rest :
  is_digit d = true → all_chars is_digit r0 = true → stops_at is_digit rest →
  FR (String d r0 +:+ rest) = Some (Some (Tok "NUMBER" (String d r0)), rest).
Proof.
  intros Hd Hr Hs. rewrite lex_rules_number, first_rule_app. rewrite sapp_cons.
  rewrite (before_number_digit d _ Hd). rewrite first_rule_cons. cbn [match_rule].
  rewrite <- sapp_cons. rewrite (span_all is_digit (String d r0) rest); [|cbn; by rewrite Hd|done].
  by rewrite decide_False.
Qed.

(** *** operators and delimiters: every spelling of the generated alias
    table, followed by a separator or the end of the text, is matched whole
    by the first rule that matches (this is where the order of the rules and
    of the alternatives inside a rule matters) *)
Lemma alias_step e : e ∈ lex_alias → ∀ rest, sepstart rest →
  FR (e.1 +:+ rest) = (fun t => (Some t, rest)) <$> lex1 lex_alias reserved_words e.1.
Proof.
  intros He rest Hs. unfold lex_alias in He.
  repeat (apply elem_of_cons in He as [->|He];
    [destruct rest as [|c r];
       [vm_compute; reflexivity
       |apply sep_char_cases in Hs as [->|[->| ->]]; vm_compute; reflexivity]|]).
  by apply elem_of_nil in He.
Qed.

Lemma alias_heads :
  forallb (fun e : string * (string * string) =>
             match e.1 with "" => false | String c _ => negb (is_ignored c) end) lex_alias = true.
Proof. by vm_compute. Qed.

(** *** one spelling *)
Theorem first_rule_spelling sp t rest :
  lex1 lex_alias reserved_words sp = Some t → sepstart rest →
  FR (sp +:+ rest) = Some (Some t, rest) ∧ stops_at is_ignored (sp +:+ rest) ∧ sp +:+ rest ≠ "".
Proof.
  intros H Hs. destruct (sepstart_stops rest Hs) as [Hsn Hsd].
  destruct sp as [|a r0]; [done|]. rewrite sapp_cons. split; [|split; [|done]].
  - rewrite <- sapp_cons. destruct (is_name_start a) eqn:Ea; [by apply FR_lex1_name|].
    pose proof H as H'. rewrite (lex1_other_eq a r0 Ea) in H'.
    destruct (all_chars is_digit (String a r0)) eqn:Ed.
    + injection H' as <-. cbn [all_chars] in Ed. apply andb_true_iff in Ed as [Hd Hr].
      by apply FR_number.
    + destruct (list_find _ lex_alias) as [[i e]|] eqn:Ef; [|done].
      apply list_find_Some in Ef as (Hl&Hsp&_). apply bool_decide_unpack in Hsp.
      apply elem_of_list_lookup_2 in Hl.
      rewrite <- Hsp. rewrite (alias_step e Hl rest Hs). rewrite Hsp, H. done.
  - cbn. destruct (is_name_start a) eqn:Ea; [by apply name_start_not_ignored|].
    rewrite (lex1_other_eq a r0 Ea) in H.
    destruct (all_chars is_digit (String a r0)) eqn:Ed.
    + cbn [all_chars] in Ed. apply andb_true_iff in Ed as [Hd _].
      by apply digit_not_ignored.
    + destruct (list_find _ lex_alias) as [[i e]|] eqn:Ef; [|done].
      apply list_find_Some in Ef as (Hl&Hsp&_). apply bool_decide_unpack in Hsp.
      apply elem_of_list_lookup_2 in Hl.
      pose proof alias_heads as Hh. rewrite forallb_forall in Hh.
      apply elem_of_list_In in Hl. specialize (Hh e Hl). rewrite Hsp in Hh.
      by apply negb_true_iff in Hh.
Qed.

(** ** separators *)

(** newlines *)
Definition rules_before_newline : list lrule := take 8 lex_rules.
Lemma lex_rules_newline :
  lex_rules = (rules_before_newline ++ RNewline :: drop 9 lex_rules)%list.
Proof. reflexivity. Qed.
Lemma before_newline X :
  first_rule lex_alias reserved_words rules_before_newline (String nl X) = None.
Proof. vm_compute. reflexivity. Qed.

Lemma LL_newline_run s acc : LLc (String nl s) acc = LLc (span is_newline s).2 acc.
Proof.
  apply LL_discard; [done|done|].
  rewrite lex_rules_newline, first_rule_app, before_newline, first_rule_cons.
  cbn [match_rule span]. change (is_newline nl) with true. cbv iota.
  destruct (span is_newline s) as [run rest]. by rewrite decide_False.
Qed.
Lemma LL_newline c s acc : is_newline c = true → LLc (String c s) acc = LLc s acc.
Proof.
  intros ->%is_newline_nl. rewrite LL_newline_run.
  destruct s as [|c s]; [done|]. cbn [span]. destruct (is_newline c) eqn:Ec; [|done].
  apply is_newline_nl in Ec as ->. rewrite LL_newline_run.
  by destruct (span is_newline s).
Qed.
Lemma LL_sep c s acc : sep_char c = true → LLc (String c s) acc = LLc s acc.
Proof.
  unfold sep_char. intros [H|H]%orb_true_iff; [by apply LL_ignored|by apply LL_newline].
Qed.

(** block comments [(* body *)]: the body does not contain the closer *)
Fixpoint contains (pat s : string) : bool :=
  match strip_prefix pat s with
  | Some _ => true
  | None => match s with "" => false | String _ s' => contains pat s' end
  end.

Lemma after_close_body body s :
  contains "*)" body = false → after_close "*)" (body +:+ "*)" +:+ s) = Some s.
Proof.
  induction body as [|c b IH]; intros H.
  - change ("" +:+ "*)" +:+ s) with (String "*"%char (String ")"%char s)).
    cbn [after_close strip_prefix]. by rewrite !decide_True by done.
  - cbn [contains] in H.
    destruct (strip_prefix "*)" (String c b)) as [r|] eqn:E; [done|].
    rewrite sapp_cons. cbn [after_close].
    assert (strip_prefix "*)" (String c (b +:+ "*)" +:+ s)) = None) as ->.
    { cbn [strip_prefix] in *. destruct (decide ("*"%char = c)) as [<-|]; [|done].
      destruct b as [|d b]; [done|]. rewrite sapp_cons.
      destruct (decide (")"%char = d)); [done|done]. }
    by apply IH.
Qed.

Definition rules_before_block : list lrule := take 7 lex_rules.
Lemma lex_rules_block :
  lex_rules = (rules_before_block ++ RBlockComment "(*" "*)" :: drop 8 lex_rules)%list.
Proof. reflexivity. Qed.
Lemma before_block X :
  first_rule lex_alias reserved_words rules_before_block (String "("%char X) = None.
Proof. vm_compute. reflexivity. Qed.

Lemma LL_block body s acc : contains "*)" body = false →
  LLc ("(*" +:+ body +:+ "*)" +:+ s) acc = LLc s acc.
Proof.
  intros Hb. apply LL_discard; [done|done|].
  rewrite lex_rules_block, first_rule_app.
  change ("(*" +:+ body +:+ "*)" +:+ s) with (String "("%char (String "*"%char (body +:+ "*)" +:+ s))).
  rewrite before_block, first_rule_cons. cbn [match_rule].
  change (String "("%char (String "*"%char (body +:+ "*)" +:+ s))) with ("(*" +:+ (body +:+ "*)" +:+ s)).
  rewrite strip_prefix_self. rewrite decide_False by done.
  by rewrite after_close_body.
Qed.

(** line comments [\* body] up to the end of the line *)
Definition rules_before_line : list lrule := take 6 lex_rules.
Lemma lex_rules_line :
  lex_rules = (rules_before_line ++ RLineComment "\*" :: drop 7 lex_rules)%list.
Proof. reflexivity. Qed.
Lemma before_line X :
  first_rule lex_alias reserved_words rules_before_line (String "\"%char (String "*"%char X)) = None.
Proof. vm_compute. reflexivity. Qed.

Definition no_newline (body : string) : Prop :=
  all_chars (fun c => negb (is_newline c)) body = true.

Lemma LL_line_rest body rest acc : no_newline body →
  stops_at (fun c => negb (is_newline c)) rest →
  LLc ("\*" +:+ body +:+ rest) acc = LLc rest acc.
Proof.
  intros Hb Hr. apply LL_discard; [done|done|].
  rewrite lex_rules_line, first_rule_app.
  change ("\*" +:+ body +:+ rest) with (String "\"%char (String "*"%char (body +:+ rest))).
  rewrite before_line, first_rule_cons. cbn [match_rule].
  change (String "\"%char (String "*"%char (body +:+ rest))) with ("\*" +:+ (body +:+ rest)).
  rewrite strip_prefix_self. rewrite decide_False by done.
  by rewrite (span_all _ body rest Hb Hr).
Qed.
Lemma LL_line body s acc : no_newline body →
  LLc ("\*" +:+ body +:+ String nl s) acc = LLc s acc.
Proof. intros Hb. rewrite LL_line_rest by done. by apply LL_newline. Qed.
(** a line comment may also end the text *)
Lemma LL_line_end body acc : no_newline body → LLc ("\*" +:+ body) acc = Some (reverse acc).
Proof.
  intros Hb. rewrite <- (sapp_nil_r body). rewrite LL_line_rest by done. apply LL_nil.
Qed.

(** text that may stand between two tokens (after at least one separator
    character), at the start and at the end of a formula *)
Inductive gap : string → Prop :=
  | gap_nil : gap ""
  | gap_ws c g : sep_char c = true → gap g → gap (String c g)
  | gap_block body g : contains "*)" body = false → gap g → gap ("(*" +:+ body +:+ "*)" +:+ g)
  | gap_line body g : no_newline body → gap g → gap ("\*" +:+ body +:+ String nl g).

Lemma gap_skip g : gap g → ∀ s acc, LLc (g +:+ s) acc = LLc s acc.
Proof.
  induction 1 as [|c g Hc _ IH|body g Hb _ IH|body g Hb _ IH]; intros s acc.
  - done.
  - rewrite sapp_cons, LL_sep by done. apply IH.
  - rewrite !sapp_assoc. rewrite LL_block by done. apply IH.
  - rewrite !sapp_assoc, (sapp_cons nl g s). rewrite LL_line by done. apply IH.
Qed.

(** [tail sps t]: the text [t] that follows a token and contains the
    spellings [sps], each preceded by a separator character and a gap *)
Inductive tail : list string → string → Prop :=
  | tl_end : tail [] ""
  | tl_gap c g : sep_char c = true → gap g → tail [] (String c g)
  | tl_cons c g sp sps t : sep_char c = true → gap g → tail sps t →
      tail (sp :: sps) (String c (g +:+ sp +:+ t)).
(** a whole formula *)
Inductive ftext : list string → string → Prop :=
  | ft_nil g : gap g → ftext [] g
  | ft_cons g sp sps t : gap g → tail sps t → ftext (sp :: sps) (g +:+ sp +:+ t).

Lemma tail_sepstart sps t : tail sps t → sepstart t.
Proof. by destruct 1. Qed.

Lemma lex_all_cons lt rw sp sps ts :
  lex_all lt rw (sp :: sps) = Some ts →
  ∃ t ts', lex1 lt rw sp = Some t ∧ lex_all lt rw sps = Some ts' ∧ ts = t :: ts'.
Proof.
  cbn [lex_all]. destruct (lex1 lt rw sp) as [t|]; [|done].
  destruct (lex_all lt rw sps) as [ts'|]; [|done]. intros [= <-]. by eexists _, _.
Qed.

Lemma LL_spelling sp t rest acc :
  lex1 lex_alias reserved_words sp = Some t → sepstart rest →
  LLc (sp +:+ rest) acc = LLc rest (t :: acc).
Proof.
  intros H Hs. destruct (first_rule_spelling sp t rest H Hs) as (Hf&Hi&Hne).
  by apply LL_token.
Qed.

Lemma tail_lex sps t : tail sps t → ∀ ts acc,
  lex_all lex_alias reserved_words sps = Some ts → LLc t acc = Some (reverse acc ++ ts)%list.
Proof.
  induction 1 as [|c g Hc Hg|c g sp sps t Hc Hg Ht IH]; intros ts acc Hl.
  - injection Hl as <-. rewrite LL_nil. by rewrite app_nil_r.
  - injection Hl as <-. rewrite LL_sep by done.
    rewrite <- (sapp_nil_r g), gap_skip by done. rewrite LL_nil. by rewrite app_nil_r.
  - apply lex_all_cons in Hl as (tk&ts'&H1&Hl&->).
    rewrite LL_sep by done. rewrite gap_skip by done.
    rewrite (LL_spelling sp tk t acc H1 (tail_sepstart _ _ Ht)).
    rewrite (IH ts' (tk :: acc) Hl). rewrite reverse_cons, <- app_assoc. done.
Qed.

(** *** the bridge: any separated text of lexable spellings *)
Theorem lexc_text sps txt ts :
  ftext sps txt → lex_all lex_alias reserved_words sps = Some ts →
  lexc lex_alias reserved_words lex_rules txt = Some ts.
Proof.
  intros Hf Hl. rewrite lexc_LL. destruct Hf as [g Hg|g sp sps t Hg Ht].
  - injection Hl as <-. rewrite <- (sapp_nil_r g), gap_skip by done. by rewrite LL_nil.
  - apply lex_all_cons in Hl as (tk&ts'&H1&Hl&->).
    rewrite gap_skip by done.
    rewrite (LL_spelling sp tk t [] H1 (tail_sepstart _ _ Ht)).
    by rewrite (tail_lex sps t Ht ts' [tk] Hl).
Qed.

(** separator insensitivity: two texts of the same spellings, whatever
    blanks, tabs, newlines and comments separate them, lex alike *)
Corollary lexc_separators sps txt1 txt2 ts :
  ftext sps txt1 → ftext sps txt2 → lex_all lex_alias reserved_words sps = Some ts →
  lexc lex_alias reserved_words lex_rules txt1 = Some ts ∧
  lexc lex_alias reserved_words lex_rules txt2 = Some ts.
Proof. intros H1 H2 Hl. split; by eapply lexc_text. Qed.

(** the single-blank form *)
Lemma concat_tail sps : ∀ sp, ∃ t, String.concat " " (sp :: sps) = sp +:+ t ∧ tail sps t.
Proof.
  induction sps as [|sp2 sps IH]; intros sp.
  - exists "". split; [by rewrite sapp_nil_r|constructor].
  - destruct (IH sp2) as (t&Et&Ht). exists (String " "%char ("" +:+ sp2 +:+ t)). split.
    + change (String.concat " " (sp :: sp2 :: sps))
        with (sp +:+ " " +:+ String.concat " " (sp2 :: sps)).
      rewrite Et. reflexivity.
    + by apply tl_cons; [|constructor|].
Qed.

Lemma ftext_concat sps : ftext sps (String.concat " " sps).
Proof.
  destruct sps as [|sp sps]; [apply ft_nil, gap_nil|].
  destruct (concat_tail sps sp) as (t&->&Ht). by apply (ft_cons "" sp sps t gap_nil).
Qed.

Theorem lexc_spaced sps ts :
  lex_all lex_alias reserved_words sps = Some ts →
  lexc lex_alias reserved_words lex_rules (String.concat " " sps) = Some ts.
Proof. apply lexc_text, ftext_concat. Qed.

(** ** printing to text and parsing *)

(** a token whose value is a spelling of itself *)
Definition tokok (t : token) : Prop := lex1 lex_alias reserved_words (tv t) = Some t.

Lemma lex_all_tv ts : Forall tokok ts → lex_all lex_alias reserved_words (tv <$> ts) = Some ts.
Proof.
  induction 1 as [|t ts Ht _ IH]; [done|]. cbn [fmap list_fmap lex_all].
  unfold tokok in Ht. by rewrite Ht, IH.
Qed.

Lemma tokok_number (x : N) : tokok (Tok "NUMBER" (pretty x)).
Proof.
  unfold tokok. cbn [tv]. pose proof (all_digits_pretty x) as Hd.
  pose proof (pretty_nonempty x) as Hne. destruct (pretty x) as [|a r0] eqn:E; [done|].
  pose proof Hd as Hd'. cbn [all_chars] in Hd'. apply andb_true_iff in Hd' as [Ha _].
  rewrite (lex1_other_eq a r0 (proj2 (digit_not_ignored a Ha))). by rewrite Hd.
Qed.

(** trees whose names and operator values are spellings: names are
    identifiers that are not reserved, operator values are the canonical
    values of the lexer *)
Fixpoint lexable (a : ast) : Prop :=
  match a with
  | ABool _ | ANum _ => True
  | AVar n => tokok (Tok "NAME" n)
  | AOp1 v a => tokok (Tok "NOT" v) ∧ lexable a
  | AOp2 v a b => tokok (Tok (code_tyof v) v) ∧ lexable a ∧ lexable b
  | AIte a b c => lexable a ∧ lexable b ∧ lexable c
  | AQuant v ns a =>
      tokok (Tok (code_tyof v) v) ∧ Forall (fun n => tokok (Tok "NAME" n)) ns ∧ lexable a
  | ASubst ss a =>
      Forall (fun on => tokok (Tok "NAME" on.1) ∧ tokok (Tok "NAME" on.2)) ss ∧ lexable a
  end.

Lemma tokok_fixed :
  tokok (Tok "LPAREN" "(") ∧ tokok (Tok "RPAREN" ")") ∧ tokok (Tok "COMMA" ",") ∧
  tokok (Tok "COLON" ":") ∧ tokok (Tok "DIV" "/") ∧ tokok (Tok "AT" "@") ∧
  tokok (Tok "MINUS" "-") ∧ tokok (Tok "ITE" "ite") ∧ tokok (Tok "TRUE" "TRUE") ∧
  tokok (Tok "FALSE" "FALSE") ∧ tokok (Tok "RENAME" "\S").
Proof. by vm_compute. Qed.

Lemma wrap_tokok b ts : Forall tokok ts → Forall tokok (wrap b ts).
Proof.
  destruct tokok_fixed as (?&?&_). intros Hts. destruct b; [|done]. cbn [wrap].
  apply Forall_cons. split; [done|]. apply Forall_app. split; [done|]. by apply Forall_singleton.
Qed.
Lemma names_tokok ns : Forall (fun n => tokok (Tok "NAME" n)) ns → Forall tokok (print_names ns).
Proof.
  destruct tokok_fixed as (_&_&?&_).
  induction 1 as [|n ns Hn Hns IH]; [constructor|]. destruct ns as [|n' ns].
  - by apply Forall_singleton.
  - change (print_names (n :: n' :: ns)) with
      (Tok "NAME" n :: Tok "COMMA" "," :: print_names (n' :: ns)).
    by repeat (apply Forall_cons; split; [done|]).
Qed.
Lemma subs_tokok ss :
  Forall (fun on : string * string => tokok (Tok "NAME" on.1) ∧ tokok (Tok "NAME" on.2)) ss →
  Forall tokok (print_subs ss).
Proof.
  destruct tokok_fixed as (_&_&?&_&?&_).
  induction 1 as [|[o n] ss [Ho Hn] Hss IH]; [constructor|]. destruct ss as [|[o' n'] ss].
  - cbn. by repeat (apply Forall_cons; split; [done|]).
  - change (print_subs ((o, n) :: (o', n') :: ss)) with
      (Tok "NAME" n :: Tok "DIV" "/" :: Tok "NAME" o :: Tok "COMMA" ","
         :: print_subs ((o', n') :: ss)).
    by repeat (apply Forall_cons; split; [done|]).
Qed.

Lemma pr_tokok par a : lexable a → Forall tokok (pr code_prec code_tyof par a).
Proof.
  destruct tokok_fixed as (Hlp&Hrp&Hco&Hcl&Hdv&Hat&Hmi&Hite&Htr&Hfa&Hre).
  induction a as [b|n|z|v a IH|v a1 IH1 a2 IH2|a IHa b IHb c IHc|v ns a IH|ss a IH];
    cbn [lexable pr].
  - intros _. apply Forall_singleton. by destruct b.
  - intros H. by apply Forall_singleton.
  - intros _. unfold print_num. destruct (decide _).
    + apply Forall_cons; split; [exact Hat|]. apply Forall_cons; split; [exact Hmi|].
      apply Forall_singleton, tokok_number.
    + apply Forall_cons; split; [exact Hat|]. apply Forall_singleton, tokok_number.
  - intros [Hv Ha]. apply Forall_cons. split; [done|]. by apply wrap_tokok, IH.
  - intros (Hv&H1&H2). apply Forall_app. split; [by apply wrap_tokok, IH1|].
    apply Forall_cons. split; [done|]. by apply wrap_tokok, IH2.
  - intros (Ha&Hb&Hc). specialize (IHa Ha). specialize (IHb Hb). specialize (IHc Hc).
    apply Forall_cons; split; [exact Hite|]. apply Forall_cons; split; [exact Hlp|].
    apply Forall_app; split; [by apply wrap_tokok|].
    apply Forall_cons; split; [exact Hco|]. apply Forall_app; split; [by apply wrap_tokok|].
    apply Forall_cons; split; [exact Hco|]. apply Forall_app; split; [by apply wrap_tokok|].
    by apply Forall_singleton.
  - intros (Hv&Hns&Ha). apply Forall_cons. split; [done|]. apply Forall_app.
    split; [by apply names_tokok|]. apply Forall_cons. split; [done|]. by apply wrap_tokok, IH.
  - intros (Hss&Ha). apply Forall_cons. split; [done|]. apply Forall_app.
    split; [by apply subs_tokok|]. apply Forall_cons. split; [done|]. by apply wrap_tokok, IH.
Qed.

Lemma print_gen_tokok par a : lexable a → Forall tokok (print_gen code_prec code_tyof par a).
Proof. intros H. unfold print_gen. by apply wrap_tokok, pr_tokok. Qed.

(** the text of a token list: the values, separated by single blanks *)
Definition text_of (ts : list token) : string := String.concat " " (tv <$> ts).

Definition parse_text (txt : string) : option ast :=
  lexc lex_alias reserved_words lex_rules txt ≫= parse code_prec.

(** printing a tree (minimal or full parentheses), writing the tokens as
    text, and running the character-level lexer and the parser gives the
    tree back *)
Theorem parse_print_text_gen par a :
  par_ok code_prec code_tyof par → wf_ast code_tyof a → lexable a →
  parse_text (text_of (print_gen code_prec code_tyof par a)) = Some a.
Proof.
  intros Hp Hwf Hl. unfold parse_text, text_of.
  rewrite (lexc_spaced _ _ (lex_all_tv _ (print_gen_tokok par a Hl))). cbn [mbind option_bind].
  apply parse_print_gen; [apply code_prec_wf|done|done].
Qed.

Theorem parse_print_text a : wf_ast code_tyof a → lexable a →
  parse_text (text_of (print_ast code_prec code_tyof a)) = Some a.
Proof.
  intros Hwf Hl. unfold parse_text, text_of, print_ast.
  rewrite (lexc_spaced _ _ (lex_all_tv _ (print_gen_tokok _ a Hl))). cbn [mbind option_bind].
  by apply parse_print_code.
Qed.

Theorem parse_print_full_text a : wf_ast code_tyof a → lexable a →
  parse_text (text_of (print_full code_prec code_tyof a)) = Some a.
Proof.
  intros Hwf Hl. unfold parse_text, text_of, print_full.
  rewrite (lexc_spaced _ _ (lex_all_tv _ (print_gen_tokok _ a Hl))). cbn [mbind option_bind].
  by apply parse_print_full_code.
Qed.

(** ... with any separators instead of the single blanks *)
Theorem parse_print_text_sep a txt : wf_ast code_tyof a → lexable a →
  ftext (tv <$> print_ast code_prec code_tyof a) txt → parse_text txt = Some a.
Proof.
  intros Hwf Hl Hf. unfold parse_text.
  rewrite (lexc_text _ txt _ Hf (lex_all_tv _ (print_gen_tokok _ a Hl))). cbn [mbind option_bind].
  by apply parse_print_code.
Qed.

(** ** the text of [to_expr] under the character-level lexer *)
Lemma te_tokens_not e : te_shape e →
  te_tokens (AOp1 "!" e) =
  Tok "LPAREN" "(" :: Tok "NOT" "!" :: (te_tokens e ++ [Tok "RPAREN" ")"])%list.
Proof.
  intros Hs. unfold te_tokens at 1, print_gen. cbn [par_te wrap pr].
  rewrite (wrap_te _ e Hs) by lia. reflexivity.
Qed.
Lemma te_tokens_ite n q p :
  te_tokens (AIte (AVar n) q p) =
  Tok "ITE" "ite" :: Tok "LPAREN" "(" :: Tok "NAME" n :: Tok "COMMA" "," ::
    (te_tokens q ++ Tok "COMMA" "," :: te_tokens p ++ [Tok "RPAREN" ")"])%list.
Proof. reflexivity. Qed.

Definition tend (rest : string) : Prop :=
  match rest with "" => True | String c _ => c = ")"%char ∨ c = ","%char end.
Lemma tend_stops rest : tend rest → stops_at is_name_char rest.
Proof. destruct rest as [|c r]; [done|]. by intros [-> | ->]. Qed.

Lemma LL_name a r0 t rest acc :
  is_name_start a = true → lex1 lex_alias reserved_words (String a r0) = Some t →
  stops_at is_name_char rest →
  LLc (String a r0 +:+ rest) acc = LLc rest (t :: acc).
Proof.
  intros Ha H Hs. apply LL_token.
  - rewrite sapp_cons. cbn. by apply name_start_not_ignored.
  - by rewrite sapp_cons.
  - by apply FR_lex1_name.
Qed.

Lemma FR_lparen_not X :
  FR (String "("%char (String "~"%char X)) = Some (Some (Tok "LPAREN" "("), String "~"%char X).
Proof. vm_compute. reflexivity. Qed.
Lemma FR_lparen_v X :
  FR (String "("%char (String "v"%char X)) = Some (Some (Tok "LPAREN" "("), String "v"%char X).
Proof. vm_compute. reflexivity. Qed.
Lemma FR_rparen X : FR (String ")"%char X) = Some (Some (Tok "RPAREN" ")"), X).
Proof. vm_compute. reflexivity. Qed.

Lemma LL_lparen_not X acc :
  LLc (String "("%char (String "~"%char X)) acc = LLc (String "~"%char X) (Tok "LPAREN" "(" :: acc).
Proof. apply LL_token; [reflexivity|done|apply FR_lparen_not]. Qed.
Lemma LL_lparen_v X acc :
  LLc (String "("%char (String "v"%char X)) acc = LLc (String "v"%char X) (Tok "LPAREN" "(" :: acc).
Proof. apply LL_token; [reflexivity|done|apply FR_lparen_v]. Qed.
Lemma LL_rparen X acc : LLc (String ")"%char X) acc = LLc X (Tok "RPAREN" ")" :: acc).
Proof. apply LL_token; [reflexivity|done|apply FR_rparen]. Qed.

Lemma LL_comma_blank X acc :
  LLc (String ","%char (String " "%char X)) acc = LLc X (Tok "COMMA" "," :: acc).
Proof.
  change (String ","%char (String " "%char X)) with ("," +:+ String " "%char X).
  rewrite (LL_spelling "," (Tok "COMMA" ",")); [|done|done]. by apply LL_ignored.
Qed.

Lemma LL_te a : te_shape a → ∀ rest acc, tend rest →
  LLc (expr_text a +:+ rest) acc = LLc rest (reverse (te_tokens a) ++ acc)%list.
Proof.
  induction a as [b|n|z|op a IH|op a1 IH1 a2 IH2|a IHa b IHb c IHc|op ns a IH|ss a IH];
    cbn [te_shape]; try done; intros Hs rest acc Hd.
  - destruct b; cbn [expr_text].
    + by rewrite (LL_name "T"%char "RUE" (Tok "TRUE" "TRUE")); [| | |apply tend_stops].
    + by rewrite (LL_name "F"%char "ALSE" (Tok "FALSE" "FALSE")); [| | |apply tend_stops].
  - destruct Hs as [v ->]. cbn [expr_text]. pose proof (lex1_var_name v) as Hl.
    unfold var_name in *. change ("v" +:+ pretty v) with (String "v"%char (pretty v)) in *.
    by rewrite (LL_name "v"%char (pretty v) _ rest acc eq_refl Hl (tend_stops _ Hd)).
  - destruct Hs as [-> Hs]. cbn [expr_text]. rewrite !sapp_assoc.
    change ("(~ " +:+ expr_text a +:+ ")" +:+ rest)
      with (String "("%char (String "~"%char (String " "%char (expr_text a +:+ String ")"%char rest)))).
    rewrite LL_lparen_not.
    change (String "~"%char (String " "%char (expr_text a +:+ String ")"%char rest)))
      with ("~" +:+ String " "%char (expr_text a +:+ String ")"%char rest)).
    rewrite (LL_spelling "~" (Tok "NOT" "!")); [|done|done].
    rewrite LL_ignored by done. rewrite IH; [|done|by left].
    rewrite LL_rparen.
    f_equal. rewrite te_tokens_not by done.
    rewrite !reverse_cons, reverse_app. cbn. rewrite <- ?app_assoc. done.
  - destruct Hs as ([v ->]&Hq&Hp). cbn [expr_text]. rewrite !sapp_assoc.
    change ("ite(" +:+ var_name v +:+ ", " +:+ expr_text b +:+ ", " +:+ expr_text c +:+ ")" +:+ rest)
      with (String "i"%char "te" +:+ String "("%char (String "v"%char (pretty v) +:+ String ","%char (String " "%char
             (expr_text b +:+ String ","%char (String " "%char
               (expr_text c +:+ String ")"%char rest)))))).
    rewrite (LL_name "i"%char "te" (Tok "ITE" "ite")); [|done|done|done].
    rewrite (sapp_cons "v"%char (pretty v)).
    rewrite LL_lparen_v.
    rewrite <- (sapp_cons "v"%char (pretty v)).
    pose proof (lex1_var_name v) as Hl. unfold var_name in Hl.
    change ("v" +:+ pretty v) with (String "v"%char (pretty v)) in Hl.
    rewrite (LL_name "v"%char (pretty v) _ _ _ eq_refl Hl); [|done].
    rewrite LL_comma_blank. rewrite IHb; [|done|by right].
    rewrite LL_comma_blank. rewrite IHc; [|done|by left].
    rewrite LL_rparen.
    f_equal. rewrite te_tokens_ite.
    rewrite !reverse_cons, !reverse_app, !reverse_cons, !reverse_app. cbn.
    rewrite <- ?app_assoc. cbn. rewrite <- ?app_assoc. done.
Qed.

(** the character-level lexer on the text of [to_expr] gives the tokens of
    the tree *)
Theorem lexc_expr_text a : te_shape a →
  lexc lex_alias reserved_words lex_rules (expr_text a) = Some (te_tokens a).
Proof.
  intros Hs. rewrite lexc_LL. rewrite <- (sapp_nil_r (expr_text a)).
  rewrite (LL_te a Hs "" [] I). rewrite LL_nil, app_nil_r. by rewrite reverse_involutive.
Qed.

(** [add_expr] from raw text and from spellings agree when the two lexers do *)
Lemma add_expr_text_eq lt rw rules P text sps ts s :
  lexc lt rw rules text = Some ts → lex_all lt rw sps = Some ts →
  add_expr_text lt rw rules P text s = add_expr lt rw P sps s.
Proof. intros H1 H2. unfold add_expr_text, add_expr. by rewrite H1, H2. Qed.

(** [add_expr(to_expr(u)) = u] on the raw text, character-level lexer *)
Theorem to_expr_roundtrip_raw s u :
  Inv s → valid s u → last_len s = None →
  ∃ txt, to_expr u s = (Ok txt, s) ∧
    ∀ r s', max_nodes s = None → add_expr_text lex_alias reserved_words lex_rules code_prec txt s = (r, s') →
      r = Ok u ∧ Inv s' ∧ extends s s' ∧ last_len s' = None ∧ max_nodes s' = None.
Proof.
  intros HI Hu Hoff.
  destruct (to_expr_ast_spec (S (S (nvars s))) s u HI Hu) as (a&Ea&Hok&Hsem); [lia|].
  pose proof (to_expr_rec_text (S (S (nvars s))) u s) as Ht. rewrite Ea in Ht.
  destruct Ht as [Hshape Ht].
  exists (expr_text a). split.
  { unfold to_expr. cbn [bind Base.get]. unfold ensure. rewrite (proj2 (mem_valid s u) Hu).
    by rewrite (bind_ok _ _ s tt s) by done. }
  pose proof (lex_te a Hshape) as Hlex.
  pose proof (parse_te_tokens a (te_shape_wf a Hshape)) as Hparse.
  intros r s' Hmx Hrun.
  rewrite (add_expr_text_eq _ _ _ _ _ _ _ s (lexc_expr_text a Hshape) Hlex) in Hrun.
  destruct (add_expr_sem _ _ _ _ _ a s r s' HI Hoff Hmx Hlex Hparse Hok Hrun)
    as (x&->&HI'&He&Hoff'&Hmx'&Hx&HD).
  split; [|done]. f_equal.
  apply (canonical_names s' HI'); [done|by apply (valid_extends s s')|].
  intros ρ. rewrite HD, Hsem. symmetry. by apply denv_extends.
Qed.

(** the semantic theorem on raw text *)
Theorem add_expr_text_sem text ts a s r s' :
  Inv s → last_len s = None → max_nodes s = None →
  lexc lex_alias reserved_words lex_rules text = Some ts → parse code_prec ts = Some a →
  ok_ast s a →
  add_expr_text lex_alias reserved_words lex_rules code_prec text s = (r, s') →
  ∃ u, r = Ok u ∧ Inv s' ∧ extends s s' ∧ last_len s' = None ∧
       max_nodes s' = None ∧ valid s' u ∧
       ∀ ρ, denv s' u ρ = asem s a ρ.
Proof.
  intros HI Hoff Hmx Hlex Hparse Hok Hrun. unfold add_expr_text in Hrun.
  apply try_to_reorder_inert in Hrun as (r1&s1&Hrun&Hcase).
  set (s0 := s <| rctx := true |>) in *.
  rewrite Hlex in Hrun. cbn [of_opt] in Hrun.
  rewrite (bind_ok _ _ s0 ts s0) in Hrun by done.
  rewrite Hparse in Hrun. cbn [of_opt] in Hrun.
  rewrite (bind_ok _ _ s0 a s0) in Hrun by done.
  apply (eval_ast_sem_gen a s s0) in Hrun as (u&->&HI1&He1&Hoff1&Hmx1&Hu&HD);
    [|done|done|by apply Inv_rctx|done|done|done].
  destruct Hcase as [[? _]|[-> ->]]; [done|].
  exists u. split; [done|]. split; [by apply Inv_rctx|]. split; [done|]. split; [done|].
  split; [done|]. split; [done|]. intros ρ. rewrite <- HD. unfold denv. by rewrite D_rctx.
Qed.

(** ** one insertion point: the single blank between two tokens replaced by
      a separator character followed by any gap (blanks, tabs, newlines,
      block comments, line comments) *)
Lemma gap_app g1 g2 : gap g1 → gap g2 → gap (g1 +:+ g2).
Proof.
  induction 1 as [|c g Hc _ IH|body g Hb _ IH|body g Hb _ IH]; intros H2.
  - done.
  - rewrite sapp_cons. by apply gap_ws, IH.
  - rewrite !sapp_assoc. by apply gap_block, IH.
  - rewrite !sapp_assoc, (sapp_cons nl g g2). by apply gap_line, IH.
Qed.

Lemma tail_app sps1 t1 : tail sps1 t1 → ∀ c g sp sps2 t2,
  sep_char c = true → gap g → tail sps2 t2 →
  tail (sps1 ++ sp :: sps2) (t1 +:+ String c (g +:+ sp +:+ t2)).
Proof.
  induction 1 as [|c0 g0 Hc0 Hg0|c0 g0 sp0 sps0 t0 Hc0 Hg0 Ht0 IH];
    intros c g sp sps2 t2 Hc Hg Ht2.
  - by apply tl_cons.
  - rewrite sapp_cons. cbn [app].
    rewrite <- (sapp_cons c g), <- sapp_assoc.
    apply tl_cons; [done| |done]. apply gap_app; [done|]. by apply gap_ws.
  - rewrite sapp_cons, !sapp_assoc. cbn [app]. apply tl_cons; [done|done|]. by apply IH.
Qed.

Theorem lexc_one_separator sps1 sps2 c g ts :
  sps1 ≠ [] → sps2 ≠ [] → sep_char c = true → gap g →
  lex_all lex_alias reserved_words (sps1 ++ sps2) = Some ts →
  lexc lex_alias reserved_words lex_rules
    (String.concat " " sps1 +:+ String c g +:+ String.concat " " sps2) = Some ts ∧
  lexc lex_alias reserved_words lex_rules
    (String.concat " " sps1 +:+ " " +:+ String.concat " " sps2) = Some ts.
Proof.
  intros H1 H2 Hc Hg Hl.
  destruct sps1 as [|sp1 r1]; [done|]. destruct sps2 as [|sp2 r2]; [done|].
  destruct (concat_tail r1 sp1) as (t1&->&Ht1). destruct (concat_tail r2 sp2) as (t2&->&Ht2).
  split.
  - apply (lexc_text ((sp1 :: r1) ++ sp2 :: r2)); [|done].
    rewrite !sapp_assoc. rewrite (sapp_cons c g).
    apply (ft_cons "" sp1 (r1 ++ sp2 :: r2) _ gap_nil). by apply tail_app.
  - apply (lexc_text ((sp1 :: r1) ++ sp2 :: r2)); [|done].
    rewrite !sapp_assoc.
    change (" " +:+ sp2 +:+ t2) with (String " "%char ("" +:+ sp2 +:+ t2)).
    apply (ft_cons "" sp1 (r1 ++ sp2 :: r2) _ gap_nil).
    exact (tail_app r1 t1 Ht1 " "%char "" sp2 r2 t2 eq_refl gap_nil Ht2).
Qed.
