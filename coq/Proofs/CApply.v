(** * CApply: the `apply` tables of the C wrappers against dd/bdd.py, and the
      reference skeletons against the discipline of [CRefSem]
      (property C19; finite, re-checked whenever the sources change)

    Both sides are *generated*: [py_apply_table] from dd/bdd.py
    ([Generated/PyApply.v]), [c_apply_<lib>] from the four .pyx files
    ([Generated/CApply.v]), [methods_<lib>] / [handle_<lib>] /
    [returns_<lib>] from the same files ([Generated/CRef.v]).  The bound of
    every [forallb] is a generated list itself. *)
From DD Require Export ApplyVocab.
From DD Require Export CSem CRefSem.
From DD Require Export Generated.CApply Generated.CRef.
Local Open Scope string_scope.

(** ** Operator symbols *)
Definition role_of (o : operand) : option role :=
  match o with OU => Some RU | OV => Some RV | OW => Some RW | _ => None end.

(** operands that exist for the arity class of a symbol *)
Definition allowed_roles (op : string) : list role :=
  if bool_decide (op ∈ py_unary) then [RU]
  else if bool_decide (op ∈ py_binary) then [RU; RV]
  else [RU; RV; RW].

(** a propositional symbol accepted by the wrapper: on all 8 valuations the
    C term has the value of the Python row for the same symbol, and reads
    only operands that the arity check guarantees to be present *)
Definition c_prop_agrees (tbl : list (list string * cterm)) (op : string) : bool :=
  match c_find tbl op with
  | None => true
  | Some c =>
      match find_template py_apply_table op with
      | None => false
      | Some t =>
          forallb (fun '(b1, b2, b3) =>
            match template_sem t b1 b2 b3 with
            | Some b => bool_decide (cterm_sem c b1 b2 b3 = Some b)
            | None => false
            end) bools3
          && forallb (fun r => bool_decide (r ∈ allowed_roles op)) (cterm_uses c)
      end
  end.

(** a quantifier symbol accepted by the wrapper: the C term is a quantifier
    call with the same [forall] flag, quantifying the same operand over the
    variables of the same operand as the Python row *)
Definition c_quant_agrees (tbl : list (list string * cterm)) (op : string) : bool :=
  match c_find tbl op with
  | None => true
  | Some c =>
      match find_template py_apply_table op with
      | Some (TQuant fa vars_of fn) =>
          match role_of fn, role_of vars_of with
          | Some f, Some v => bool_decide (cterm_quant c = Some (fa, f, v))
          | _, _ => false
          end
      | _ => false
      end
  end.

Definition c_apply_agrees (tbl : list (list string * cterm)) : bool :=
  forallb (fun op => bool_decide (op ∈ quantifier_ops) || c_prop_agrees tbl op) py_vocab.
Definition c_quantifiers_agree (tbl : list (list string * cterm)) : bool :=
  forallb (c_quant_agrees tbl) quantifier_ops.
(** nothing is accepted that dd/_abc.py does not list *)
Definition c_within_vocab (tbl : list (list string * cterm)) : bool :=
  forallb (fun op => bool_decide (op ∈ py_vocab)) (c_aliases tbl).

(** informative: symbols of the vocabulary a wrapper does not accept *)
Definition c_not_accepted (tbl : list (list string * cterm)) : list string :=
  List.filter (fun op => match c_find tbl op with None => true | Some _ => false end) py_vocab.

(** operand-shape checks: either the very call dd.bdd.BDD.apply makes, or
    per-branch guards that reject what [py_arity] rejects (BuDDy's `apply`
    has no third operand) *)
Definition c_arity_agrees (tbl : list (list string * cterm)) (g : arity_guard) : bool :=
  match g with
  | AGPython => true
  | AGOwn guards =>
      bool_decide (guards.*1 = tbl.*1) &&
      forallb (fun '(names, conds) =>
        forallb (fun op =>
          if bool_decide (op ∈ py_unary) then bool_decide (conds = [GVNotNone])
          else if bool_decide (op ∈ py_binary) then bool_decide (conds = [GVNone])
          else false) names) guards
  end.

(** the convention table of [CSem] against the parameter names the wrappers
    declare for the quantifier entry points *)
Definition quant_decl_ok (d : string * string * list string) : bool :=
  let '(_, n, ps) := d in
  match quant_conv n with
  | Some (_, fi, vi) =>
      bool_decide (length ps = 2) &&
      match ps !! fi with Some p => bool_decide (p ∈ fn_param_names) | None => false end &&
      match ps !! vi with Some p => bool_decide (p ∈ vars_param_names) | None => false end
  | None => false
  end.

Lemma quant_conventions_ok : forallb quant_decl_ok c_quant_decls = true.
Proof. by vm_compute. Qed.

(** *** CUDD *)
Lemma c_apply_agrees_cudd :
  forallb (fun op => bool_decide (op ∈ quantifier_ops) || c_prop_agrees c_apply_cudd op)
          py_vocab = true.
Proof. by vm_compute. Qed.
Lemma c_quantifiers_agree_cudd :
  forallb (c_quant_agrees c_apply_cudd) quantifier_ops = true.
Proof. by vm_compute. Qed.
Lemma c_within_vocab_cudd : c_within_vocab c_apply_cudd = true.
Proof. by vm_compute. Qed.
Lemma c_arity_agrees_cudd : c_arity_agrees c_apply_cudd c_arity_cudd = true.
Proof. by vm_compute. Qed.

(** *** CUDD ZDD *)
Lemma c_apply_agrees_cudd_zdd :
  forallb (fun op => bool_decide (op ∈ quantifier_ops) || c_prop_agrees c_apply_cudd_zdd op)
          py_vocab = true.
Proof. by vm_compute. Qed.
Lemma c_quantifiers_agree_cudd_zdd :
  forallb (c_quant_agrees c_apply_cudd_zdd) quantifier_ops = true.
Proof. by vm_compute. Qed.
Lemma c_within_vocab_cudd_zdd : c_within_vocab c_apply_cudd_zdd = true.
Proof. by vm_compute. Qed.
Lemma c_arity_agrees_cudd_zdd : c_arity_agrees c_apply_cudd_zdd c_arity_cudd_zdd = true.
Proof. by vm_compute. Qed.

(** *** Sylvan (the quantifier symbols are in Properties/C19_sylvan_quant.v) *)
Lemma c_apply_agrees_sylvan :
  forallb (fun op => bool_decide (op ∈ quantifier_ops) || c_prop_agrees c_apply_sylvan op)
          py_vocab = true.
Proof. by vm_compute. Qed.
Lemma c_within_vocab_sylvan : c_within_vocab c_apply_sylvan = true.
Proof. by vm_compute. Qed.
Lemma c_arity_agrees_sylvan : c_arity_agrees c_apply_sylvan c_arity_sylvan = true.
Proof. by vm_compute. Qed.

(** *** BuDDy *)
Lemma c_apply_agrees_buddy :
  forallb (fun op => bool_decide (op ∈ quantifier_ops) || c_prop_agrees c_apply_buddy op)
          py_vocab = true.
Proof. by vm_compute. Qed.
Lemma c_quantifiers_agree_buddy :
  forallb (c_quant_agrees c_apply_buddy) quantifier_ops = true.
Proof. by vm_compute. Qed.
Lemma c_within_vocab_buddy : c_within_vocab c_apply_buddy = true.
Proof. by vm_compute. Qed.
Lemma c_arity_agrees_buddy : c_arity_agrees c_apply_buddy c_arity_buddy = true.
Proof. by vm_compute. Qed.
(** every symbol `_OPERATOR_SYMBOLS` lets through has a branch (otherwise
    `r` would be unbound), and every branch is reachable *)
Lemma c_symbols_buddy_ok :
  forallb (fun op => match c_find c_apply_buddy op with Some _ => true | None => false end)
          c_symbols_buddy
  && forallb (fun op => bool_decide (op ∈ c_symbols_buddy)) (c_aliases c_apply_buddy) = true.
Proof. by vm_compute. Qed.

Lemma c_within_vocab_all :
  c_within_vocab c_apply_cudd && c_within_vocab c_apply_cudd_zdd &&
  c_within_vocab c_apply_sylvan && c_within_vocab c_apply_buddy = true.
Proof. by vm_compute. Qed.
Lemma c_arity_agrees_all :
  c_arity_agrees c_apply_cudd c_arity_cudd && c_arity_agrees c_apply_cudd_zdd c_arity_cudd_zdd &&
  c_arity_agrees c_apply_sylvan c_arity_sylvan && c_arity_agrees c_apply_buddy c_arity_buddy = true.
Proof. by vm_compute. Qed.

(** ** Reference discipline *)
Definition ref_discipline (ms : list method) : bool :=
  forallb (fun m => forallb (balanced m) (paths m)) ms.

Lemma ref_discipline_cudd_ok :
  forallb (fun m => forallb (balanced m) (paths m)) methods_cudd = true.
Proof. by vm_compute. Qed.
Lemma ref_discipline_cudd_zdd_ok :
  forallb (fun m => forallb (balanced m) (paths m)) methods_cudd_zdd = true.
Proof. by vm_compute. Qed.
Lemma ref_discipline_sylvan_ok :
  forallb (fun m => forallb (balanced m) (paths m)) methods_sylvan = true.
Proof. by vm_compute. Qed.
Lemma ref_discipline_buddy_ok :
  forallb (fun m => forallb (balanced m) (paths m)) methods_buddy = true.
Proof. by vm_compute. Qed.

(** raising paths included (strict discipline), up to the named exceptions *)
Lemma raise_paths_cudd_ok :
  raise_paths_ok [("BDD._load_dddmp", 1); ("_test_incref", 1); ("_test_decref", 1)] methods_cudd = true.
Proof. by vm_compute. Qed.
Lemma raise_paths_cudd_zdd_ok :
  raise_paths_ok [("_c_compose", 3); ("_compose_root", 2); ("_compose", 5)] methods_cudd_zdd = true.
Proof. by vm_compute. Qed.
Lemma raise_paths_sylvan_ok : raise_paths_ok [] methods_sylvan = true.
Proof. by vm_compute. Qed.
Lemma raise_paths_buddy_ok : raise_paths_ok [] methods_buddy = true.
Proof. by vm_compute. Qed.
(** the exceptions are tight: with one path fewer allowed the statement is false *)
Lemma raise_paths_exceptions_needed :
  raise_paths_ok [("_test_incref", 1); ("_test_decref", 1)] methods_cudd = false ∧
  raise_paths_ok [("BDD._load_dddmp", 1); ("_test_incref", 0); ("_test_decref", 1)] methods_cudd = false ∧
  raise_paths_ok [("_c_compose", 2); ("_compose_root", 2); ("_compose", 5)] methods_cudd_zdd = false ∧
  raise_paths_ok [("_c_compose", 3); ("_compose_root", 2); ("_compose", 4)] methods_cudd_zdd = false.
Proof. by vm_compute. Qed.

Lemma handles_ok :
  handle_ok handle_cudd && handle_ok handle_cudd_zdd &&
  handle_ok handle_sylvan && handle_ok handle_buddy = true.
Proof. by vm_compute. Qed.

Lemma returns_all_ok :
  forallb returns_ok returns_cudd && forallb returns_ok returns_cudd_zdd &&
  forallb returns_ok returns_sylvan && forallb returns_ok returns_buddy = true.
Proof. by vm_compute. Qed.

(** non-vacuity of the checker: it rejects a leaked temporary, a double
    release, a bare node handed to Python, an undrained container, and a
    reversed quantifier call *)
Lemma checker_rejects :
  let m := Method "demo" KCpdef None ["self"; "u"] [] in
  balanced m [ERef "p"; EReturnOther] = false ∧
  balanced m [ERef "p"; EDeref "p"; EDeref "p"; EReturnOther] = false ∧
  balanced m [EReturnNode "r"] = false ∧
  balanced m [ELoop [[ERef "g"; EStore "vec" "g"]]; EReturnOther] = false ∧
  balanced m [ELoop [[ERef "g"; EStore "vec" "g"]]; ELoop [[EDerefElem "vec"]]; EReturnOther] = true ∧
  cterm_quant (CCall "sylvan_forall" [COp RU; COp RV]) = Some (true, RU, RV) ∧
  cterm_quant (CCall "Cudd_bddUnivAbstract" [COp RV; COp RU]) = Some (true, RV, RU).
Proof. by vm_compute. Qed.
