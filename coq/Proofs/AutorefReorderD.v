(** * AutorefReorderD: the explicit reordering [bdd.reorder(order)] through
      [dd.autoref] WHILE DYNAMIC REORDERING MAY BE ENABLED.

    [AutorefInv2.a_allowedD] leaves [AReorder] out.  [Total3.reorder_pub_total]
    ([dd.bdd] level, any argument, any threshold: the public entry point
    disables the requests while it moves nodes and restores the threshold)
    lifts to the dynamic invariant [AInvDT] of the wrapper: the invariant
    holds, every live [Function] keeps node and function, the threshold is
    restored, neither the reordering signal nor the oracle error reaches the
    caller.  The total theorems and the histories of [AutorefInv2] are
    restated over [a_allowedDR] = [a_allowedD] + [AReorder]. *)
From DD Require Export AutorefInv2.
From DD Require Import Total3.

(** the argument that [Driver3.run_aop] passes to [reorder_pub] *)
Definition aorder (order : option (list (nat * nat))) : option (gmap nat nat) :=
  (fun l => list_to_map (reverse l)) <$> order.

Lemma run_aop_reorder_unfold w order a :
  run_aop w (AReorder order) a =
  let '(r0, s') := reorder_pub (aorder order) (mgr a) in
  (match r0 with Ok _ => Ok VU | Err e => Err e end, a <| mgr := s' |>).
Proof.
  cbn [run_aop]. unfold bind, lift, aorder.
  by destruct (reorder_pub _ (mgr a)) as [[[]|e] s'].
Qed.

Lemma held_of_handle a h u : AInvD a → handles a !! h = Some u → held (hledger a) u.
Proof.
  intros (_&_&_&Hv&_) Hu. split; [apply (Hv h u Hu)|]. right. by apply (hl_pos _ h).
Qed.

(** the frame of an explicit reordering *)
Definition ReoFrame (a a' : ast) : Prop :=
  AInvDT a' ∧ AKeepAll a a' ∧ handles a' = handles a ∧ next_hid a' = next_hid a ∧
  Counts (mgr a') (hledger a) ∧ last_len (mgr a') = last_len (mgr a) ∧
  dom (vars (mgr a')) = dom (vars (mgr a)).

Lemma lift_reorder_frame a s' L :
  AInvDT a → L = hledger a →
  Inv s' → Counts s' L → rr s' = rr (mgr a) → tape s' = [] →
  last_len s' = last_len (mgr a) → keepsH L (mgr a) s' →
  dom (vars s') = dom (vars (mgr a)) →
  ReoFrame a (a <| mgr := s' |>).
Proof.
  intros ((HI&Hr&HC&Hv&Hf)&Ht) -> HI' HC' Hrr Ht' Hll Hk Hd.
  assert (Hr' : rctx s' = false).
  { unfold rr in Hrr. injection Hrr as -> _ _. done. }
  assert (Hk' : ∀ h u, handles a !! h = Some u →
            valid s' u ∧ ∀ ρ, denv s' u ρ = denv (mgr a) u ρ).
  { intros h u Hu.
    destruct (Hk u (held_of_handle a h u ltac:(by split_and!) Hu)) as (_&?&?). done. }
  split; [|split; [|by split_and!]].
  - split; [|done]. split; [done|]. split; [done|]. split; [done|]. split; [|done].
    intros h u Hu. by apply (Hk' h).
  - intros h u Hu. split; [done|]. by apply (Hk' h).
Qed.

(** any argument (a wrong order is an error and nothing is damaged) *)
Theorem run_aop_reorder_dyn w order a r a' :
  AInvDT a → run_aop w (AReorder order) a = (r, a') →
  ReoFrame a a' ∧ r ≠ Err ENeedsReordering ∧ r ≠ Err EOracle.
Proof.
  intros HA. pose proof HA as ((HI&Hr&HC&Hv&Hf)&Ht). rewrite run_aop_reorder_unfold.
  destruct (reorder_pub (aorder order) (mgr a)) as [r0 s'] eqn:E. intros [= <- <-].
  destruct (reorder_pub_total _ _ (hledger a) r0 s' HI HC Ht E)
    as (HI'&HC'&Hrr&Ht'&Hll&Hk&Hn1&Hn2).
  assert (Hd : dom (vars s') = dom (vars (mgr a))).
  { destruct (reorder_pub_safe _ _ (hledger a) r0 s' HI HC E) as [->|(_&_&_&?&_)]; done. }
  split; [by apply (lift_reorder_frame a s' (hledger a))|].
  destruct r0 as [[]|e]; split; congruence.
Qed.

(** sifting ([order = None]) with an unbounded table: succeeds, no unreferenced
    node is left, the table does not grow (with a bounded table a swap may be
    refused: [run_aop_reorder_dyn] covers that outcome) *)
Theorem run_aop_sift_dyn w a r a' :
  AInvDT a → max_nodes (mgr a) = None → run_aop w (AReorder None) a = (r, a') →
  r = Ok VU ∧ ReoFrame a a' ∧ nozero (mgr a') ∧ len (mgr a') ≤ len (mgr a).
Proof.
  intros HA Hmx. pose proof HA as ((HI&Hr&HC&Hv&Hf)&Ht). rewrite run_aop_reorder_unfold.
  cbn [aorder fmap option_fmap option_map].
  destruct (reorder_pub None (mgr a)) as [r0 s'] eqn:E. intros [= <- <-].
  destruct (nt_reorder_pub None _ r0 s' Ht E) as [Ht' Hne].
  destruct (nft_reorder_pub None _ r0 s' Hmx E) as [_ Hnf].
  destruct (reorder_pub_sift _ (hledger a) r0 s' HI HC E)
    as [->|[->|(->&HI'&HC'&Hll&Hz&Hd&Hk&Hrr&Hle)]]; [done|done|].
  split; [done|]. split; [by apply (lift_reorder_frame a s' (hledger a))|]. done.
Qed.

(** a total order on the declared variables: succeeds and installs it *)
Theorem run_aop_order_dyn w l a r a' :
  AInvDT a → max_nodes (mgr a) = None →
  dom (list_to_map (reverse l) : gmap nat nat) = dom (vars (mgr a)) →
  (∀ v v' k, (list_to_map (reverse l) : gmap nat nat) !! v = Some k →
             (list_to_map (reverse l) : gmap nat nat) !! v' = Some k → v = v') →
  (∀ v k, (list_to_map (reverse l) : gmap nat nat) !! v = Some k → k < nvars (mgr a)) →
  (∀ u, u ∈ roots (mgr a) → held (hledger a) u) →
  run_aop w (AReorder (Some l)) a = (r, a') →
  r = Ok VU ∧ ReoFrame a a' ∧ vars (mgr a') = list_to_map (reverse l).
Proof.
  intros HA Hmx Hdom Hinj Hb Hroots. pose proof HA as ((HI&Hr&HC&Hv&Hf)&Ht).
  rewrite run_aop_reorder_unfold. cbn [aorder fmap option_fmap option_map].
  destruct (reorder_pub (Some (list_to_map (reverse l))) (mgr a)) as [r0 s'] eqn:E.
  intros [= <- <-].
  destruct (nt_reorder_pub _ _ r0 s' Ht E) as [Ht' Hne].
  destruct (nft_reorder_pub _ _ r0 s' Hmx E) as [_ Hnf].
  destruct (reorder_pub_order _ _ (hledger a) r0 s' HI HC Hdom Hinj Hb Hroots E)
    as [->|[->|(->&HI'&HC'&Hll&Hvars&Hk&Hrr)]]; [done|done|].
  split; [done|]. split; [|done].
  apply (lift_reorder_frame a s' (hledger a)); try done. by rewrite Hvars.
Qed.

(** ** The total theorems of [AutorefInv2], with [AReorder] *)
Definition a_allowedDR (o : aop) : bool := a_allowedD o || is_areorder o.

Theorem run_aop_AInvDR w o a r a' :
  a_allowedDR o = true → AInvDT a → run_aop w o a = (r, a') →
  AInvDT a' ∧ AKeep o a a' ∧ r ≠ Err ENeedsReordering ∧ r ≠ Err EOracle.
Proof.
  intros Ho HA H. apply orb_true_iff in Ho as [Ho|Ho]; [by apply (run_aop_AInvD w o a r a')|].
  destruct o; try discriminate Ho.
  destruct (run_aop_reorder_dyn w order a r a' HA H) as ((HA'&Hk&_)&?&?).
  split; [done|]. split; [|done]. intros h u Hu. left. by apply Hk.
Qed.

Theorem astep_AInvDR w m o :
  a_allowedDR o = true → AInvDT (aworld_get w m) →
  AInvDT (aworld_get (fst (astep w m o)) m) ∧
  AKeep o (aworld_get w m) (aworld_get (fst (astep w m o)) m) ∧
  snd (astep w m o) ≠ Err ENeedsReordering ∧ snd (astep w m o) ≠ Err EOracle.
Proof.
  intros Ha HA. apply orb_true_iff in Ha as [Ha|Ha]; [by apply astep_AInvD|].
  destruct o; try discriminate Ha.
  destruct (astep_spec w m (AReorder order)) as (r&a'&E&->&->).
  set (a := aworld_get w m) in *. cbn [run_aop'] in E.
  destruct (run_aop_AInvDR w (AReorder order) a r a' eq_refl HA E) as ((HA'&Ht')&Hk&?&?).
  split; [|split; [by apply AKeep_tape|done]].
  destruct (AInvD_same a' ((mgr a') <| tape := [] |>) HA') as [? _];
    [by repeat split|done|apply HA'|]. by split.
Qed.

Definition ahist_okDR (ops : list aop) : Prop := Forall (fun o => a_allowedDR o = true) ops.

Theorem arun_AInvDR ops : ∀ w m,
  AInvDT (aworld_get w m) → ahist_okDR ops → AInvDT (aworld_get (arun w m ops) m).
Proof.
  induction ops as [|o ops IH]; intros w m HA Hh; [done|].
  apply Forall_cons in Hh as [Ha Hh]. cbn [arun fold_left]. apply IH; [|done].
  by apply astep_AInvDR.
Qed.

Theorem arun_keepsDR ops : ∀ w m h u,
  AInvDT (aworld_get w m) → ahist_okDR ops → Forall (fun o => o ≠ ADrop h) ops →
  handles (aworld_get w m) !! h = Some u →
  handles (aworld_get (arun w m ops) m) !! h = Some u ∧
  valid (mgr (aworld_get (arun w m ops) m)) u ∧
  ∀ ρ, denv (mgr (aworld_get (arun w m ops) m)) u ρ = denv (mgr (aworld_get w m)) u ρ.
Proof.
  induction ops as [|o ops IH]; intros w m h u HA Hh Hf Hu.
  { cbn. split; [done|]. split; [|done]. destruct HA as ((_&_&_&Hv&_)&_). by apply (Hv h). }
  apply Forall_cons in Hh as [Ha Hh]. apply Forall_cons in Hf as [Hd Hf].
  destruct (astep_AInvDR w m o Ha HA) as (HA1&Hk&_).
  destruct (Hk h u Hu) as [(Hu1&_&HD1)|[-> _]]; [|done].
  cbn [arun fold_left].
  destruct (IH (fst (astep w m o)) m h u HA1 Hh Hf Hu1) as (?&?&HD).
  split; [done|]. split; [done|]. intros ρ. by rewrite HD.
Qed.
