(** * Image: [_image] computes the relational product, with the renaming of
      the second operand before the conjunction ([preimage]) or of the result
      after the quantification ([image]) (C13). *)
From DD Require Export Quantify Subst.

(** ** Vocabulary *)

(** a level read through an optional renaming of levels *)
Definition rd (mo : option (gmap nat nat)) (l : nat) : nat :=
  match mo with None => l | Some m => default l (m !! l) end.

(** the assignment seen through the renaming: level [l] is read at [rd mo l] *)
Definition oassign (mo : option (gmap nat nat)) (a : nat → bool) : nat → bool :=
  fun l => a (rd mo l).

(** [preimage]: the assignment seen by the target, whose level [l] stands
    for level [m l] of the transition relation *)
Definition pre_assign (m : gmap nat nat) (a : nat → bool) : nat → bool :=
  fun l => a (default l (m !! l)).
(** [image]: level [l] of the quantified conjunction is read at level
    [m l] of the assignment of the result *)
Definition post_assign (m : gmap nat nat) (a : nat → bool) : nat → bool :=
  fun l => a (default l (m !! l)).

(** conjunction of [u] with [v] read through the renaming [vm] *)
Definition body (s : st) (vm : option (gmap nat nat)) (u v : Z) (b : nat → bool) : bool :=
  D s u b && D s v (oassign vm b).
Definition pre_body (s : st) (m : gmap nat nat) (u v : Z) (b : nat → bool) : bool :=
  D s u b && D s v (pre_assign m b).
Definition conj_body (s : st) (u v : Z) (b : nat → bool) : bool := D s u b && D s v b.

(** quantification of a Boolean functional over the levels [q] *)
Definition qsemF (fa : bool) (q : gset nat) (F : (nat → bool) → bool)
    (a : nat → bool) : Prop :=
  if fa then ∀ b, agree_off q a b → F b = true
  else ∃ b, agree_off q a b ∧ F b = true.

Lemma qsemF_qsem s fa q u a : qsemF fa q (D s u) a ↔ qsem s fa q u a.
Proof. done. Qed.

Lemma qsemF_ext fa q F G a : (∀ b, F b = G b) → qsemF fa q F a ↔ qsemF fa q G a.
Proof.
  intros E. unfold qsemF. destruct fa.
  - split; intros H b Hb; [rewrite <- E|rewrite E]; by apply H.
  - split; intros (b&Hb&HD); exists b; (split; [done|]); [by rewrite <- E|by rewrite E].
Qed.

Lemma qsemF_false fa q F a : (∀ b, F b = false) → ¬ qsemF fa q F a.
Proof.
  intros HF. unfold qsemF. destruct fa.
  - intros H. specialize (H a (agree_off_refl q a)). by rewrite HF in H.
  - intros (b&_&H). by rewrite HF in H.
Qed.

Lemma qsemF_true fa q F a : (∀ b, F b = true) → qsemF fa q F a.
Proof.
  intros HF. unfold qsemF. destruct fa; [intros b _; apply HF|].
  exists a. split; [apply agree_off_refl|done].
Qed.

(** Shannon expansion at a quantified level *)
Lemma qsemF_node_in fa q (F F0 F1 : (nat → bool) → bool) i a :
  (∀ b, F b = if b i then F1 b else F0 b) →
  (∀ b x, F0 (upd b i x) = F0 b) → (∀ b x, F1 (upd b i x) = F1 b) →
  i ∈ q →
  qsemF fa q F a ↔
    if fa then qsemF fa q F0 a ∧ qsemF fa q F1 a
    else qsemF fa q F0 a ∨ qsemF fa q F1 a.
Proof.
  intros HD H0 H1 Hi. unfold qsemF. destruct fa.
  - split.
    + intros H. split; intros b Hb.
      * specialize (H (upd b i false) (agree_off_upd q a b i false Hi Hb)).
        rewrite HD, upd_same in H. by rewrite H0 in H.
      * specialize (H (upd b i true) (agree_off_upd q a b i true Hi Hb)).
        rewrite HD, upd_same in H. by rewrite H1 in H.
    + intros [G0 G1] b Hb. rewrite HD. destruct (b i); [by apply G1|by apply G0].
  - split.
    + intros (b&Hb&Hu). rewrite HD in Hu. destruct (b i); [right|left]; by exists b.
    + intros [(b&Hb&Hu)|(b&Hb&Hu)].
      * exists (upd b i false). split; [by apply agree_off_upd|].
        by rewrite HD, upd_same, H0.
      * exists (upd b i true). split; [by apply agree_off_upd|].
        by rewrite HD, upd_same, H1.
Qed.

(** ... and at a level that is kept *)
Lemma qsemF_node_out fa q (F F0 F1 : (nat → bool) → bool) i a :
  (∀ b, F b = if b i then F1 b else F0 b) →
  i ∉ q →
  qsemF fa q F a ↔ if a i then qsemF fa q F1 a else qsemF fa q F0 a.
Proof.
  intros HD Hi. unfold qsemF. destruct fa.
  - split.
    + intros H. destruct (a i) eqn:Ea; intros b Hb;
        specialize (H b Hb); rewrite HD, <- (Hb i Hi), Ea in H; done.
    + intros H b Hb. rewrite HD, <- (Hb i Hi).
      destruct (a i); by apply H.
  - split.
    + intros (b&Hb&Hu). rewrite HD, <- (Hb i Hi) in Hu.
      destruct (a i); by exists b.
    + intros H. destruct (a i) eqn:Ea; destruct H as (b&Hb&Hu);
        exists b; (split; [done|]); by rewrite HD, <- (Hb i Hi), Ea.
Qed.

(** ** Levels that occur *)
Lemma occurs_ge s u l : Inv s → occurs s u l → lvl_of s u ≤ l.
Proof.
  intros HI. induction 1 as [u t Ht Hn|u t l Ht Hn _ IH|u t l Ht Hn _ IH].
  - unfold lvl_of. by rewrite Ht.
  - destruct (inv_node _ HI _ _ Ht Hn) as (_&_&_&_&Hl&_). unfold lvl_of at 1. rewrite Ht. lia.
  - destruct (inv_node _ HI _ _ Ht Hn) as (_&_&_&_&_&Hl&_). unfold lvl_of at 1. rewrite Ht. lia.
Qed.

Lemma occurs_top s u : Inv s → valid s u → lvl_of s u < nvars s →
  occurs s u (lvl_of s u).
Proof.
  intros HI Hv Hl. destruct (node_cases s HI u Hv) as [[_ E]|(t&Ht&Hn&_&El&_)]; [lia|].
  rewrite El. by apply (occ_here s u t).
Qed.

Lemma occurs_abs s u u' l : absn u = absn u' → occurs s u l → occurs s u' l.
Proof.
  intros E H. destruct H as [u t Ht Hn|u t l Ht Hn Ho|u t l Ht Hn Ho]; rewrite E in *.
  - by apply (occ_here s u' t).
  - by apply (occ_lo s u' t).
  - by apply (occ_hi s u' t).
Qed.

Lemma absn_flip r u : absn (flip r u) = absn r.
Proof. unfold flip. case_decide; [apply absn_neg|done]. Qed.

Lemma occurs_extends s s' u l : extends s s' → Inv s → valid s u →
  occurs s' u l → occurs s u l.
Proof.
  intros He HI Hv H. revert Hv.
  induction H as [u t Ht Hn|u t l Ht Hn _ IH|u t l Ht Hn _ IH]; intros Hv.
  - destruct Hv as [_ [t0 Ht0]]. pose proof (lookup_weaken _ _ _ _ Ht0 (proj1 He)) as E.
    rewrite Ht in E. injection E as ->. by apply (occ_here s u t0).
  - pose proof Hv as [_ [t0 Ht0]]. pose proof (lookup_weaken _ _ _ _ Ht0 (proj1 He)) as E.
    rewrite Ht in E. injection E as ->.
    destruct (inv_node _ HI _ _ Ht0 Hn) as (_&Hvl&_). apply (occ_lo s u t0); [done..|]. by apply IH.
  - pose proof Hv as [_ [t0 Ht0]]. pose proof (lookup_weaken _ _ _ _ Ht0 (proj1 He)) as E.
    rewrite Ht in E. injection E as ->.
    destruct (inv_node _ HI _ _ Ht0 Hn) as (_&_&_&Hvh&_). apply (occ_hi s u t0); [done..|]. by apply IH.
Qed.

(** ** Hypotheses on the renamings *)

(** the renaming of the result only mentions declared levels *)
Definition um_ok (s : st) (um : option (gmap nat nat)) : Prop :=
  ∀ l, l < nvars s → rd um l < nvars s.

(** reading [v] through [vm] is strictly monotone on the levels of [v], and
    stays within the declared levels *)
Definition vm_ok (s : st) (vm : option (gmap nat nat)) (v : Z) : Prop :=
  rd vm (nvars s) = nvars s ∧
  (∀ l, occurs s v l → rd vm l < nvars s) ∧
  (∀ l l', occurs s v l → occurs s v l' → l < l' → rd vm l < rd vm l').

Lemma um_ok_None s : um_ok s None.
Proof. by intros l Hl. Qed.
Lemma vm_ok_None s v : Inv s → vm_ok s None v.
Proof. intros HI. split_and!; [done| |done]. intros l. by apply occurs_lt. Qed.

Lemma vm_ok_sub s s' vm v v' : nvars s' = nvars s →
  (∀ l, occurs s' v' l → occurs s v l) → vm_ok s vm v → vm_ok s' vm v'.
Proof.
  intros En Hsub (H1&H2&H3). unfold vm_ok. rewrite En. split_and!; [done| |].
  - intros l Hl. by apply H2, Hsub.
  - intros l l' Hl Hl'. apply H3; by apply Hsub.
Qed.

(** ** The memo (keyed by the pair of operands) *)
Definition icache_ok (s : st) (um vm : option (gmap nat nat)) (q : gset nat)
    (fa : bool) (cache : gmap (Z * Z) Z) : Prop :=
  ∀ u v w, cache !! (u, v) = Some w →
    valid s u ∧ valid s v ∧ valid s w ∧
    ∀ a, D s w a = true ↔ qsemF fa q (body s vm u v) (oassign um a).

Lemma icache_ok_empty s um vm q fa : icache_ok s um vm q fa ∅.
Proof. intros u v w H. by rewrite lookup_empty in H. Qed.

Lemma body_extends s s' vm u v b :
  extends s s' → Inv s → valid s u → valid s v → body s' vm u v b = body s vm u v b.
Proof. intros. unfold body. by rewrite !(D_extends s s'). Qed.

Lemma icache_ok_extends s s' um vm q fa cache :
  Inv s → extends s s' → icache_ok s um vm q fa cache → icache_ok s' um vm q fa cache.
Proof.
  intros HI He Hc u v w Hk. destruct (Hc u v w Hk) as (Hvu&Hvv&Hvw&HD).
  split_and!; [by apply (valid_extends s s')..|].
  intros a. rewrite (D_extends s s' w) by done. rewrite HD.
  apply qsemF_ext. intros b. symmetry. by apply body_extends.
Qed.

(** ** [_top_cofactor] at the level of the node, and of the second operand *)
Lemma top_cofactor_at s u t : Inv s → valid s u →
  succ s !! absn u = Some t → absn u ≠ 1%positive →
  top_cofactor u (t_lvl t) s = (Ok (flip (t_lo t) u, flip (t_hi t) u), s).
Proof.
  intros HI Hv Ht Hn. unfold top_cofactor.
  destruct (node_cases s HI u Hv) as [[E _]|(t'&Ht'&_&Hlo&_)]; [done|].
  rewrite Ht in Ht'. injection Ht' as <-.
  rewrite decide_False by (intros [? ?]; done).
  rewrite (bind_ok _ _ _ _ _ (getsuccZ_ok s u t (proj1 Hv) Ht)).
  unfold is_term, assert. rewrite bool_decide_eq_false_2 by done. cbn [negb].
  rewrite (bind_ok _ _ s tt s) by done.
  rewrite decide_False by lia.
  rewrite bool_decide_eq_true_2 by done.
  rewrite (bind_ok _ _ s tt s) by done.
  unfold flip. by destruct (decide (u < 0)%Z).
Qed.

Lemma top_cofactorZ_above s u (i : Z) : Inv s → valid s u →
  (i < Z.of_nat (lvl_of s u))%Z →
  top_cofactorZ u i s = (Ok (u, u), s).
Proof.
  intros HI Hv Hi. unfold top_cofactorZ, top_cofactor.
  destruct (node_cases s HI u Hv) as [[E _]|(t&Ht&Hn&Hlo&El&_)].
  { assert (absn u = 1%positive ∧ u ≠ 0%Z) as Hd by (split; [done|apply Hv]).
    destruct (decide (0 ≤ i)%Z); by rewrite decide_True. }
  assert (¬ (absn u = 1%positive ∧ u ≠ 0%Z)) as Hd by (intros [? ?]; done).
  destruct (decide (0 ≤ i)%Z); rewrite decide_False by done;
    rewrite (bind_ok _ _ _ _ _ (getsuccZ_ok s u t (proj1 Hv) Ht));
    unfold is_term, assert; rewrite bool_decide_eq_false_2 by done; cbn [negb];
    rewrite (bind_ok _ _ s tt s) by done; [|done].
  rewrite decide_True by lia. done.
Qed.

Lemma top_cofactorZ_v s vm v z : Inv s → valid s v → vm_ok s vm v →
  z ≤ rd vm (lvl_of s v) → z < nvars s →
  ∃ v0 v1,
    top_cofactorZ v (Z.of_nat (lvl_of s v) + Z.of_nat z - Z.of_nat (rd vm (lvl_of s v))) s
      = (Ok (v0, v1), s) ∧
    valid s v0 ∧ valid s v1 ∧
    (∀ l, occurs s v0 l → occurs s v l ∧ z < rd vm l) ∧
    (∀ l, occurs s v1 l → occurs s v l ∧ z < rd vm l) ∧
    ∀ b, D s v (oassign vm b)
         = if b z then D s v1 (oassign vm b) else D s v0 (oassign vm b).
Proof.
  intros HI Hv (Hn&Hdecl&Hmono) Hz Hzn.
  remember (lvl_of s v) as jv eqn:Ejv. remember (rd vm jv) as iv eqn:Eiv.
  destruct (decide (z = iv)) as [Ez|Hne].
  - replace (Z.of_nat jv + Z.of_nat z - Z.of_nat iv)%Z with (Z.of_nat jv) by lia.
    destruct (node_cases s HI v Hv) as [[_ E]|(t&Ht&Hn1&Hlo&El&Hln&Hvl&Hvh&Hhp&Hll&Hlh&_)].
    { exfalso. rewrite <- Ejv in E. rewrite E, Hn in Eiv. lia. }
    rewrite <- Ejv in El.
    exists (flip (t_lo t) v), (flip (t_hi t) v).
    assert (Hocc : occurs s v jv) by (rewrite El; by apply (occ_here s v t)).
    split_and!.
    + unfold top_cofactorZ. rewrite decide_True by lia. rewrite Nat2Z.id, El.
      by apply top_cofactor_at.
    + by apply valid_flip.
    + by apply valid_flip.
    + intros l Hl. apply (occurs_abs s _ (t_lo t)) in Hl; [|apply absn_flip].
      pose proof (occurs_ge s _ l HI Hl).
      assert (occurs s v l) by (by apply (occ_lo s v t)).
      split; [done|]. rewrite Ez, Eiv. apply Hmono; [done|done|lia].
    + intros l Hl. apply (occurs_abs s _ (t_hi t)) in Hl; [|apply absn_flip].
      pose proof (occurs_ge s _ l HI Hl).
      assert (occurs s v l) by (by apply (occ_hi s v t)).
      split; [done|]. rewrite Ez, Eiv. apply Hmono; [done|done|lia].
    + intros b. rewrite (D_step s HI v _ t Hv Ht Hn1).
      rewrite !(D_flip s HI) by done.
      unfold oassign at 1. rewrite <- El, <- Eiv, <- Ez. by destruct (b z).
  - assert (Hall : ∀ l, occurs s v l → z < rd vm l).
    { intros l Hl.
      pose proof (occurs_ge s v l HI Hl) as Hge. rewrite <- Ejv in Hge.
      pose proof (occurs_lt s v l HI Hl).
      destruct (decide (l = jv)) as [->|]; [lia|].
      assert (rd vm jv < rd vm l); [|lia].
      apply Hmono; [|done|lia]. rewrite Ejv. apply occurs_top; [done|done|lia]. }
    exists v, v. split_and!; try done.
    + apply top_cofactorZ_above; [done|done|]. lia.
    + intros l Hl. split; [done|by apply Hall].
    + intros l Hl. split; [done|by apply Hall].
    + intros b. by destruct (b z).
Qed.

(** the cofactors do not read level [z] *)
Lemma body_indep s vm u v z b x : Inv s → valid s u → valid s v →
  z < lvl_of s u → (∀ l, occurs s v l → z < rd vm l) →
  body s vm u v (upd b z x) = body s vm u v b.
Proof.
  intros HI Hu Hv Hlu Hlv. unfold body. f_equal.
  - by apply D_upd_above.
  - apply D_indep_occ; [done|done|]. intros l Hl. unfold oassign.
    apply upd_other. specialize (Hlv l Hl). lia.
Qed.

(** ** The recursion [_image] *)
Theorem image_rec_spec fuel : ∀ s u v um vm q fa cache r s',
  Inv s → valid s u → valid s v → no_reorder s →
  um_ok s um → vm_ok s vm v → icache_ok s um vm q fa cache →
  nvars s - (lvl_of s u `min` rd vm (lvl_of s v)) < fuel →
  image_rec fuel u v um vm q fa cache s = (r, s') →
  Inv s' ∧ extends s s' ∧ frame s s' ∧
  match r with
  | Ok (x, cache') => valid s' x ∧ icache_ok s' um vm q fa cache' ∧
        ∀ a, D s' x a = true ↔ qsemF fa q (body s vm u v) (oassign um a)
  | Err e => benign s e
  end.
Proof.
  induction fuel as [|f IH];
    intros s u v um vm q fa cache r s' HI Hu Hv Hnr Hum Hvm Hc Hfuel; [lia|].
  cbn [image_rec].
  destruct (decide (u = -1 ∨ v = -1)%Z) as [Hm1|Hnm1].
  { intros [= <- <-]. split; [done|split; [reflexivity|split; [reflexivity|]]].
    split; [by apply valid_m1|split; [done|]].
    intros a. rewrite D_m1 by done. split; [done|]. intros HQ. exfalso.
    revert HQ. apply qsemF_false. intros b. unfold body.
    destruct Hm1 as [-> | ->]; rewrite D_m1 by done; [done|apply andb_false_r]. }
  destruct (decide (u = 1 ∧ v = 1)%Z) as [[-> ->]|Hn11].
  { intros [= <- <-]. split; [done|split; [reflexivity|split; [reflexivity|]]].
    split; [done|split; [done|]].
    intros a. rewrite D_1 by done. split; [|done]. intros _.
    apply qsemF_true. intros b. unfold body. by rewrite !D_1. }
  destruct (cache !! (u, v)) as [w|] eqn:Hcu.
  { intros [= <- <-]. destruct (Hc u v w Hcu) as (_&_&Hw&HwD).
    split; [done|split; [reflexivity|split; [reflexivity|]]]. by split_and!. }
  rewrite (bind_ok _ _ _ _ _ (level_of_ok s u Hu)).
  rewrite (bind_ok _ _ _ _ _ (level_of_ok s v Hv)).
  cbv zeta.
  change (match vm with
          | None => lvl_of s v
          | Some m => default (lvl_of s v) (m !! lvl_of s v)
          end) with (rd vm (lvl_of s v)).
  set (z := lvl_of s u `min` rd vm (lvl_of s v)) in *.
  change (match um with
          | Some mp => default z (mp !! z)
          | None => z
          end) with (rd um z).
  assert (Hzu : z ≤ lvl_of s u) by (unfold z; lia).
  assert (Hzv : z ≤ rd vm (lvl_of s v)) by (unfold z; lia).
  assert (Hzn : z < nvars s).
  { destruct (node_cases s HI u Hu) as [[E _]|(t&?&?&?&Hl&?&_)]; [|lia].
    destruct (absn_1 u E (proj1 Hu)) as [-> | ->]; [|by destruct Hnm1; left].
    destruct (node_cases s HI v Hv) as [[E' _]|(t&Ht&Hn&?&Hl&?&_)].
    { destruct (absn_1 v E' (proj1 Hv)) as [-> | ->]; [by destruct Hn11|by destruct Hnm1; right]. }
    destruct Hvm as (_&Hd&_). specialize (Hd (lvl_of s v)).
    assert (rd vm (lvl_of s v) < nvars s); [|lia].
    apply Hd. rewrite Hl. by apply (occ_here s v t). }
  destruct (top_cofactor_ok s u z HI Hu Hzu) as (u0&u1&Eu&Hu0&Hu1&Lu0&Lu1&_&_&Du).
  destruct (top_cofactorZ_v s vm v z HI Hv Hvm Hzv Hzn) as (v0&v1&Ev&Hv0&Hv1&Ov0&Ov1&Dv).
  rewrite (bind_ok _ _ _ _ _ Eu), (bind_ok _ _ _ _ _ Ev).
  assert (Lu0' : z < lvl_of s u0) by lia.
  assert (Lu1' : z < lvl_of s u1) by lia.
  (* the two cofactors of the conjunction *)
  assert (HF : ∀ b, body s vm u v b
                    = if b z then body s vm u1 v1 b else body s vm u0 v0 b).
  { intros b. unfold body. rewrite (Du b), (Dv b). by destruct (b z). }
  assert (HF0 : ∀ b x, body s vm u0 v0 (upd b z x) = body s vm u0 v0 b).
  { intros b x. apply body_indep; try done. intros l Hl. by apply Ov0. }
  assert (HF1 : ∀ b x, body s vm u1 v1 (upd b z x) = body s vm u1 v1 b).
  { intros b x. apply body_indep; try done. intros l Hl. by apply Ov1. }
  assert (Hvm0 : vm_ok s vm v0).
  { apply (vm_ok_sub s s vm v); [done| |done]. intros l Hl. by apply Ov0. }
  assert (Hvm1 : vm_ok s vm v1).
  { apply (vm_ok_sub s s vm v); [done| |done]. intros l Hl. by apply Ov1. }
  (* the measure decreases *)
  assert (Hrd : ∀ x, valid s x → (∀ l, occurs s x l → z < rd vm l) →
            z < rd vm (lvl_of s x)).
  { intros x Hx Hox. destruct (decide (lvl_of s x < nvars s)) as [Hlt|Hge].
    - apply Hox. by apply occurs_top.
    - pose proof (lvl_le s HI x Hx). replace (lvl_of s x) with (nvars s) by lia.
      destruct Hvm as (->&_). done. }
  assert (Hm0 : z < lvl_of s u0 `min` rd vm (lvl_of s v0)).
  { apply Nat.min_glb_lt; [done|]. apply Hrd; [done|]. intros l Hl. by apply Ov0. }
  assert (Hm1 : z < lvl_of s u1 `min` rd vm (lvl_of s v1)).
  { apply Nat.min_glb_lt; [done|]. apply Hrd; [done|]. intros l Hl. by apply Ov1. }
  clear Hrd Lu0 Lu1 Du Dv.
  (* first recursive call *)
  destruct (image_rec f u0 v0 um vm q fa cache s) as [rp s1] eqn:Ep.
  pose proof Ep as Ep'.
  apply IH in Ep' as (HI1&He1&Hf1&Hp); [|done|done|done|done|done|done|done|lia].
  destruct rp as [[p c1]|e]; cycle 1.
  { rewrite (bind_err _ _ _ _ _ Ep). intros [= <- <-].
    by split_and!. }
  rewrite (bind_ok _ _ _ _ _ Ep). destruct Hp as (Hpv&Hc1&HpD).
  (* second recursive call, in the extended manager *)
  assert (Hnv1 : nvars s1 = nvars s) by (by apply extends_nvars).
  assert (Hu11 : valid s1 u1) by (by apply (valid_extends s s1)).
  assert (Hv11 : valid s1 v1) by (by apply (valid_extends s s1)).
  assert (Hnr1 : no_reorder s1) by (by apply (no_reorder_frame s s1)).
  destruct (image_rec f u1 v1 um vm q fa c1 s1) as [rq s2] eqn:Eq.
  pose proof Eq as Eq'.
  apply IH in Eq' as (HI2&He2&Hf2&Hq); [|done|done|done|done| | |done|]; cycle 1.
  { intros l Hl. rewrite Hnv1 in *. by apply Hum. }
  { apply (vm_ok_sub s s1 vm v1); [done| |done]. intros l Hl.
    by apply (occurs_extends s s1). }
  { rewrite Hnv1, !(lvl_extends s s1) by done. lia. }
  destruct rq as [[q' c2]|e]; cycle 1.
  { rewrite (bind_err _ _ _ _ _ Eq). intros [= <- <-].
    split_and!; [done|by etrans|by etrans|]. apply (benign_frame s s1); [done|apply Hq]. }
  rewrite (bind_ok _ _ _ _ _ Eq). destruct Hq as (Hqv&Hc2&HqD).
  assert (He02 : extends s s2) by (by etrans).
  assert (Hf02 : frame s s2) by (by etrans).
  assert (Hnv2 : nvars s2 = nvars s) by (by apply extends_nvars).
  assert (Hpv2 : valid s2 p) by (by apply (valid_extends s1 s2)).
  assert (Hnr2 : no_reorder s2) by (by apply (no_reorder_frame s1 s2)).
  assert (HpD2 : ∀ a, D s2 p a = true ↔ qsemF fa q (body s vm u0 v0) (oassign um a)).
  { intros a. rewrite (D_extends s1 s2 p) by done. apply HpD. }
  assert (HqD2 : ∀ a, D s2 q' a = true ↔ qsemF fa q (body s vm u1 v1) (oassign um a)).
  { intros a. rewrite HqD. apply qsemF_ext. intros b. by apply body_extends. }
  clear HpD HqD.
  (* conjunction / disjunction of the cofactors, or a branch on the (renamed) level *)
  set (mk := if decide (z ∈ q)
             then if fa then ite p q' (-1) else ite p 1 q'
             else bind (find_or_add (rd um z) (-1) 1) (λ g : Z, ite g q' p)).
  destruct (mk s2) as [rw s3] eqn:Ew.
  assert (Hm : Inv s3 ∧ extends s2 s3 ∧ frame s2 s3 ∧
            match rw with
            | Ok x => valid s3 x ∧
                      ∀ a, D s3 x a = true ↔ qsemF fa q (body s vm u v) (oassign um a)
            | Err e => benign s2 e
            end).
  { subst mk. destruct (decide (z ∈ q)) as [Hzq|Hzq]; [destruct fa|].
    - (* forall: p /\ q *)
      apply ite_spec in Ew as (HI3&He3&Hf3&Hr); [|done|done|done|by apply valid_m1|done].
      split; [done|split; [done|split; [done|]]].
      destruct rw as [x|e]; [|done]. destruct Hr as (Hxv&_&HxD).
      split; [done|].
      intros a. rewrite HxD, (D_m1 s2 HI2).
      rewrite (qsemF_node_in true q _ _ _ z (oassign um a) HF HF0 HF1 Hzq).
      apply and_iff_bool; [apply HpD2|apply HqD2].
    - (* exists: p \/ q *)
      apply ite_spec in Ew as (HI3&He3&Hf3&Hr); [|done|done|by apply valid_1|done|done].
      split; [done|split; [done|split; [done|]]].
      destruct rw as [x|e]; [|done]. destruct Hr as (Hxv&_&HxD).
      split; [done|].
      intros a. rewrite HxD, (D_1 s2 HI2).
      rewrite (qsemF_node_in false q _ _ _ z (oassign um a) HF HF0 HF1 Hzq).
      apply or_iff_bool; [apply HpD2|apply HqD2].
    - (* the level is kept, under its new name *)
      destruct (find_or_add (rd um z) (-1) 1 s2) as [rg s2'] eqn:Eg.
      pose proof Eg as Eg'.
      assert (Hrz : rd um z < nvars s2) by (rewrite Hnv2; by apply Hum).
      apply find_or_add_spec in Eg' as (HI2'&He2'&Hf2'&Hg);
        [|done|by apply valid_m1|by apply valid_1
         |by rewrite (lvl_term s2 HI2)|by rewrite (lvl_term s2 HI2)].
      destruct rg as [g|e]; cycle 1.
      { rewrite (bind_err _ _ _ _ _ Eg) in Ew. injection Ew as <- <-.
        split_and!; [done..|]. exact (proj1 Hg). }
      rewrite (bind_ok _ _ _ _ _ Eg) in Ew.
      destruct Hg as (Hgv&_&HgD0).
      assert (HgD : ∀ a, D s2' g a = a (rd um z)).
      { intros a. rewrite HgD0, D_1, D_m1 by done. by destruct (a (rd um z)). }
      clear HgD0.
      apply ite_spec in Ew as (HI3&He3&Hf3&Hr);
        [|done|done|by apply (valid_extends s2 s2')|by apply (valid_extends s2 s2')
         |by apply (no_reorder_frame s2 s2')].
      split; [done|split; [by etrans|split; [by etrans|]]].
      destruct rw as [x|e]; cycle 1.
      { exact (benign_frame _ _ _ Hf2' Hr). }
      destruct Hr as (Hxv&_&HxD). split; [done|].
      intros a. rewrite HxD, HgD.
      rewrite (D_extends s2 s2' q'), (D_extends s2 s2' p) by done.
      rewrite (qsemF_node_out fa q _ _ _ z (oassign um a) HF Hzq).
      unfold oassign at 1.
      destruct (a (rd um z)); [apply HqD2|apply HpD2]. }
  clearbody mk. destruct Hm as (HI3&He3&Hf3&Hr).
  destruct rw as [x|e]; cycle 1.
  { rewrite (bind_err _ _ _ _ _ Ew). intros [= <- <-].
    split_and!; [done|by etrans|by etrans|]. apply (benign_frame s s2); [done|apply Hr]. }
  rewrite (bind_ok _ _ _ _ _ Ew). destruct Hr as (Hxv&HxD).
  cbn [ret]. intros [= <- <-].
  assert (He03 : extends s s3) by (by etrans).
  split; [done|split; [done|split; [by etrans|]]].
  split; [done|split; [|done]].
  intros u' v' w' Hk. destruct (decide ((u', v') = (u, v))) as [E|Hne].
  - injection E as -> ->. rewrite lookup_insert in Hk. injection Hk as <-.
    split_and!; [by apply (valid_extends s s3)..|done|].
    intros a. rewrite HxD. apply qsemF_ext. intros b. symmetry. by apply body_extends.
  - rewrite lookup_insert_ne in Hk by done.
    by apply (icache_ok_extends s2 s3 um vm q fa c2 HI2 He3 Hc2).
Qed.

(** ** Instances of the recursion *)

(** no renaming: the relational product *)
Corollary image_rec_plain fuel s u v q fa r s' :
  Inv s → valid s u → valid s v → no_reorder s →
  nvars s - (lvl_of s u `min` lvl_of s v) < fuel →
  image_rec fuel u v None None q fa ∅ s = (r, s') →
  Inv s' ∧ extends s s' ∧ frame s s' ∧
  match r with
  | Ok (x, _) => valid s' x ∧
        ∀ a, D s' x a = true ↔ qsemF fa q (conj_body s u v) a
  | Err e => benign s e
  end.
Proof.
  intros HI Hu Hv Hnr Hfuel Hrun.
  apply image_rec_spec in Hrun as (?&?&?&Hr);
    [|done|done|done|done|apply um_ok_None|by apply vm_ok_None|apply icache_ok_empty|done].
  split_and!; try done. destruct r as [[x c]|e]; [|done].
  destruct Hr as (?&_&HD). split; [done|]. exact HD.
Qed.

(** [preimage]: the second operand is renamed before the conjunction *)
Corollary preimage_rec_spec fuel s u v m q fa cache r s' :
  Inv s → valid s u → valid s v → no_reorder s →
  vm_ok s (Some m) v → icache_ok s None (Some m) q fa cache →
  nvars s - (lvl_of s u `min` default (lvl_of s v) (m !! lvl_of s v)) < fuel →
  image_rec fuel u v None (Some m) q fa cache s = (r, s') →
  Inv s' ∧ extends s s' ∧ frame s s' ∧
  match r with
  | Ok (x, cache') => valid s' x ∧ icache_ok s' None (Some m) q fa cache' ∧
        ∀ a, D s' x a = true ↔ qsemF fa q (pre_body s m u v) a
  | Err e => benign s e
  end.
Proof.
  intros HI Hu Hv Hnr Hvm Hc Hfuel Hrun.
  apply image_rec_spec in Hrun as (?&?&?&Hr);
    [|done|done|done|done|apply um_ok_None|done|done|done].
  split; [done|split; [done|split; [done|]]]. exact Hr.
Qed.

(** [image]: the result is renamed after the quantification *)
Corollary image_rec_umap_spec fuel s u v m q fa cache r s' :
  Inv s → valid s u → valid s v → no_reorder s →
  um_ok s (Some m) → icache_ok s (Some m) None q fa cache →
  nvars s - (lvl_of s u `min` lvl_of s v) < fuel →
  image_rec fuel u v (Some m) None q fa cache s = (r, s') →
  Inv s' ∧ extends s s' ∧ frame s s' ∧
  match r with
  | Ok (x, cache') => valid s' x ∧ icache_ok s' (Some m) None q fa cache' ∧
        ∀ a, D s' x a = true ↔ qsemF fa q (conj_body s u v) (post_assign m a)
  | Err e => benign s e
  end.
Proof.
  intros HI Hu Hv Hnr Hum Hc Hfuel Hrun.
  apply image_rec_spec in Hrun as (?&?&?&Hr);
    [|done|done|done|done|done|by apply vm_ok_None|done|done].
  split; [done|split; [done|split; [done|]]]. exact Hr.
Qed.

(** ** The documented preconditions give the monotone reading *)
Lemma vm_ok_adjacent s m v : Inv s →
  (∀ k k', m !! k = Some k' → k < nvars s ∧ k' < nvars s) →
  (∀ k1 k2 k', m !! k1 = Some k' → m !! k2 = Some k' → k1 = k2) →
  (∀ k k', m !! k = Some k' → k' = k + 1 ∨ k = k' + 1) →
  (∀ k k', m !! k = Some k' → ¬ occurs s v k') →
  vm_ok s (Some m) v.
Proof.
  intros HI Hd Hinj Hadj Hval. unfold vm_ok, rd. split_and!.
  - destruct (m !! nvars s) as [k|] eqn:E; [|done]. apply Hd in E. lia.
  - intros l Hl. destruct (m !! l) as [k|] eqn:E; simpl.
    + apply Hd in E. lia.
    + by apply occurs_lt in Hl.
  - intros l l' Hl Hl' Hlt.
    destruct (m !! l) as [k|] eqn:E; destruct (m !! l') as [k'|] eqn:E'; simpl.
    + assert (k ≠ l') by (intros ->; by apply (Hval _ _ E)).
      assert (k' ≠ l) by (intros ->; by apply (Hval _ _ E')).
      assert (k ≠ k') by (intros ->; pose proof (Hinj _ _ _ E E'); lia).
      destruct (Hadj _ _ E), (Hadj _ _ E'); lia.
    + assert (k ≠ l') by (intros ->; by apply (Hval _ _ E)).
      destruct (Hadj _ _ E); lia.
    + assert (k' ≠ l) by (intros ->; by apply (Hval _ _ E')).
      destruct (Hadj _ _ E'); lia.
    + done.
Qed.

(** ** Computations that only read the manager *)
Definition pureM {A} (m : MS A) : Prop := ∀ s, snd (m s) = s.

Lemma pureM_run {A} (m : MS A) s : pureM m → m s = (fst (m s), s).
Proof. intros H. specialize (H s). destruct (m s) as [r s1]. cbn in H. by subst. Qed.
Lemma pureM_ret {A} (a : A) : pureM (ret a).
Proof. by intros s. Qed.
Lemma pureM_raise {A} e : pureM (raise (A:=A) e).
Proof. by intros s. Qed.
Lemma pureM_bind {A B} (m : MS A) (f : A → MS B) :
  pureM m → (∀ a, pureM (f a)) → pureM (bind m f).
Proof.
  intros Hm Hf s. unfold bind. specialize (Hm s).
  destruct (m s) as [[a|e] s1]; cbn in Hm; subst; [apply Hf|done].
Qed.
Lemma pureM_get {B} (f : st → MS B) : (∀ s0, pureM (f s0)) → pureM (bind get f).
Proof. intros Hf s. unfold bind, get. apply Hf. Qed.
Lemma pureM_of_opt {A} e (o : option A) : pureM (of_opt e o).
Proof. destruct o; [apply pureM_ret|apply pureM_raise]. Qed.
Lemma pureM_assert b : pureM (assert b).
Proof. destruct b; [apply pureM_ret|apply pureM_raise]. Qed.
Lemma pureM_getsucc n : pureM (getsucc n).
Proof. intros s. unfold getsucc. by destruct (succ s !! n). Qed.
Lemma pureM_mapM {A B} (f : A → MS B) l : (∀ a, pureM (f a)) → pureM (mapM f l).
Proof.
  intros Hf. induction l as [|a l IH]; cbn [mapM]; [apply pureM_ret|].
  apply pureM_bind; [apply Hf|intros c]. apply pureM_bind; [done|intros cs]. apply pureM_ret.
Qed.
Lemma pureM_var_at_level l : pureM (var_at_level l).
Proof. unfold var_at_level. apply pureM_get. intros s0. apply pureM_of_opt. Qed.

Lemma pureM_map_rename byname rn : pureM (map_rename byname rn).
Proof.
  unfold map_rename. apply pureM_get. intros s0. destruct byname; [|apply pureM_ret].
  apply pureM_mapM. intros [k v].
  apply pureM_bind; [apply pureM_of_opt|intros k'].
  apply pureM_bind; [apply pureM_of_opt|intros v']. apply pureM_ret.
Qed.

Lemma pureM_all_adjacent l : pureM (all_adjacent l).
Proof.
  induction l as [|[i j] l IH]; cbn [all_adjacent]; [apply pureM_ret|].
  destruct (decide (i - j = 1 ∨ j - i = 1)); [done|].
  apply pureM_bind; [apply pureM_var_at_level|intros _].
  apply pureM_bind; [apply pureM_var_at_level|intros _]. apply pureM_ret.
Qed.

Lemma pureM_support_rec fuel : ∀ u acc, pureM (support_rec fuel u acc).
Proof.
  induction fuel as [|f IH]; intros u acc; cbn [support_rec]; [apply pureM_raise|].
  destruct acc as [levels nodes]. apply pureM_get. intros s0.
  destruct (decide (size levels = nvars s0)); [apply pureM_ret|].
  destruct (decide (u = 0%Z)); [apply pureM_raise|].
  destruct (decide (absn u ∈ nodes)); [apply pureM_ret|].
  destruct (decide (absn u = 1%positive)); [apply pureM_ret|].
  apply pureM_bind; [apply pureM_getsucc|intros t].
  apply pureM_bind; [apply pureM_assert|intros _].
  apply pureM_bind; [apply IH|intros acc']. apply IH.
Qed.

Lemma pureM_support_levels u : pureM (support_levels u).
Proof.
  unfold support_levels. apply pureM_get. intros s0.
  apply pureM_bind; [apply pureM_support_rec|intros r]. apply pureM_ret.
Qed.

(** the renaming given by names only mentions declared levels *)
Lemma map_rename_names_declared s rn rnl : Inv s →
  fst (map_rename true rn s) = Ok rnl →
  ∀ k k', (k, k') ∈ rnl → k < nvars s ∧ k' < nvars s.
Proof.
  intros HI. unfold map_rename. cbn [bind get].
  set (F := fun '(k, v) => bind (S:=st) (of_opt EType (vars s !! k)) (fun k' =>
              bind (of_opt EType (vars s !! v)) (fun v' => ret (k', v')))).
  assert (HF : ∀ a b, F (a, b) s = match vars s !! a, vars s !! b with
                                   | Some la, Some lb => (Ok (la, lb), s)
                                   | _, _ => (Err EType, s) end).
  { intros a b. unfold F. by destruct (vars s !! a), (vars s !! b). }
  clearbody F. revert rnl.
  induction rn as [|[a b] rn IH]; intros rnl; cbn [mapM].
  { intros [= <-] k k' Hin. by apply elem_of_nil in Hin. }
  unfold bind at 1. rewrite HF.
  destruct (vars s !! a) as [la|] eqn:Ea; [|done].
  destruct (vars s !! b) as [lb|] eqn:Eb; [|done].
  unfold bind at 1.
  destruct (mapM F rn s) as [[rest|e] s1] eqn:Em; cbn [fst ret]; [|done].
  intros [= <-] k k' Hin. apply elem_of_cons in Hin as [[= -> ->]|Hin].
  - split; by eapply name_level.
  - by eapply IH.
Qed.

Lemma list_to_map_reverse_elem (l : list (nat * nat)) k k' :
  (list_to_map (reverse l) : gmap nat nat) !! k = Some k' → (k, k') ∈ l.
Proof. intros H. apply elem_of_list_to_map_2 in H. by rewrite elem_of_reverse in H. Qed.

(** ** [preimage] *)

(** with the hypothesis the recursion needs: reading the target through the
    renaming is strictly monotone on the levels of the target *)
Theorem preimage_spec_mono s trans target byname rn qbyname qvars fa q rnl m r s' :
  Inv s → valid s trans → valid s target → last_len s = None → max_nodes s = None →
  fst (map_to_level_set qbyname qvars s) = Ok q →
  fst (map_rename byname rn s) = Ok rnl → m = list_to_map (reverse rnl) →
  no_overlap m = true →
  (∀ k k', m !! k = Some k' → k < nvars s) →
  vm_ok s (Some m) target →
  preimage trans target byname rn qbyname qvars fa s = (r, s') →
  ∃ x, r = Ok x ∧ Inv s' ∧ extends s s' ∧ valid s' x ∧
    ∀ a, D s' x a = true ↔ qsemF fa q (pre_body s m trans target) a.
Proof.
  intros HI Ht Hg Hoff Hmx Hq Hrn Hm Hno Hkeys Hvm Hrun. unfold preimage in Hrun.
  assert (Hq' : map_to_level_set qbyname qvars s = (Ok q, s))
    by (by rewrite map_to_level_set_state, Hq).
  rewrite (bind_ok _ _ _ _ _ Hq') in Hrun.
  assert (Hrn' : map_rename byname rn s = (Ok rnl, s))
    by (by rewrite (pureM_run _ s (pureM_map_rename byname rn)), Hrn).
  rewrite (bind_ok _ _ _ _ _ Hrn') in Hrun. cbv zeta in Hrun. rewrite <- Hm in Hrun.
  assert (Hchk : (match rnl with
                  | [] => ret tt
                  | _ => var_at_level 0 ;;; assert (no_overlap m)
                  end) s = (Ok tt, s)).
  { destruct rnl as [|[k0 k0'] rest] eqn:Ernl; [done|].
    assert (0 < nvars s) as H0.
    { destruct (m !! k0) as [x|] eqn:E; [apply Hkeys in E; lia|]. exfalso.
      rewrite Hm in E. apply not_elem_of_list_to_map_2 in E. apply E.
      rewrite fmap_reverse, elem_of_reverse. cbn. left. }
    apply (inv_lvls _ HI) in H0 as [x Hx].
    assert (Hv0 : var_at_level 0 s = (Ok x, s))
      by (unfold var_at_level; cbn [bind get]; by rewrite Hx).
    rewrite (bind_ok _ _ _ _ _ Hv0). by rewrite Hno. }
  rewrite (bind_ok _ _ _ _ _ Hchk) in Hrun. cbn [bind get] in Hrun.
  destruct (image_rec (S (S (2 * nvars s))) trans target None (Some m) q fa ∅ s)
    as [rr s2] eqn:Er.
  pose proof Er as Er'.
  apply preimage_rec_spec in Er' as (HI2&He2&Hf2&Hr);
    [|done|done|done|by right|done|apply icache_ok_empty|lia].
  destruct rr as [[x c]|e]; cycle 1.
  { by destruct (benign_never s e Hoff Hmx). }
  rewrite (bind_ok _ _ _ _ _ Er) in Hrun. cbn [ret fst] in Hrun.
  injection Hrun as <- <-. destruct Hr as (Hxv&_&HxD).
  exists x. by split_and!.
Qed.

(** under the documented preconditions *)
Theorem preimage_spec s trans target byname rn qbyname qvars fa q rnl m r s' :
  Inv s → valid s trans → valid s target → last_len s = None → max_nodes s = None →
  fst (map_to_level_set qbyname qvars s) = Ok q →
  fst (map_rename byname rn s) = Ok rnl → m = list_to_map (reverse rnl) →
  no_overlap m = true →
  (∀ k k', m !! k = Some k' → k < nvars s ∧ k' < nvars s) →
  (∀ k1 k2 k', m !! k1 = Some k' → m !! k2 = Some k' → k1 = k2) →
  (∀ k k', m !! k = Some k' → k' = k + 1 ∨ k = k' + 1) →
  (∀ k k', m !! k = Some k' → ¬ occurs s target k') →
  preimage trans target byname rn qbyname qvars fa s = (r, s') →
  ∃ x, r = Ok x ∧ Inv s' ∧ extends s s' ∧ valid s' x ∧
    ∀ a, D s' x a = true ↔
      if fa then ∀ b, agree_off q a b → pre_body s m trans target b = true
      else ∃ b, agree_off q a b ∧ pre_body s m trans target b = true.
Proof.
  intros HI Ht Hg Hoff Hmx Hq Hrn Hm Hno Hd Hinj Hadj Hval Hrun.
  apply (preimage_spec_mono s trans target byname rn qbyname qvars fa q rnl m r s');
    try done.
  - intros k k' Hk. by apply Hd in Hk as [? _].
  - by apply vm_ok_adjacent.
Qed.

(** ** [image] *)

(** the checks that [image] performs before the recursion *)
Definition image_pre (s : st) (trans source : Z) (rnl : list (nat * nat))
    (q : gset nat) : Prop :=
  no_overlap (list_to_map (reverse rnl)) = true ∧
  (∃ b, fst (all_adjacent (dict_items rnl) s) = Ok b) ∧
  ∃ st_ ss, fst (support_levels trans s) = Ok st_ ∧
            fst (support_levels source s) = Ok ss ∧
            (st_ ∪ ss) ∖ q ∩ list_to_set rnl.*2 = (∅ : gset nat).

(** [image] is these checks followed by the recursion *)
Lemma image_run s trans source byname rn qbyname qvars fa q rnl r s' :
  fst (map_to_level_set qbyname qvars s) = Ok q →
  fst (map_rename byname rn s) = Ok rnl →
  image trans source byname rn qbyname qvars fa s = (r, s') →
  (image_pre s trans source rnl q ∧
   bind (image_rec (S (S (2 * nvars s))) trans source
           (Some (list_to_map (reverse rnl))) None q fa ∅)
        (fun r => ret (fst r)) s = (r, s')) ∨
  (¬ image_pre s trans source rnl q ∧ ∃ e, r = Err e ∧ s' = s).
Proof.
  intros Hq Hrn Hrun. unfold image in Hrun.
  assert (Hq' : map_to_level_set qbyname qvars s = (Ok q, s))
    by (by rewrite map_to_level_set_state, Hq).
  rewrite (bind_ok _ _ _ _ _ Hq') in Hrun.
  assert (Hrn' : map_rename byname rn s = (Ok rnl, s))
    by (by rewrite (pureM_run _ s (pureM_map_rename byname rn)), Hrn).
  rewrite (bind_ok _ _ _ _ _ Hrn') in Hrun. cbv zeta in Hrun.
  unfold image_pre.
  destruct (no_overlap (list_to_map (reverse rnl))) eqn:Hno; cycle 1.
  { right. injection Hrun as <- <-. split; [by intros [? _]|by eexists]. }
  rewrite (bind_ok _ _ s tt s) in Hrun by done.
  pose proof (pureM_run _ s (pureM_all_adjacent (dict_items rnl))) as Ha.
  destruct (fst (all_adjacent (dict_items rnl) s)) as [b|e] eqn:Eb; cycle 1.
  { right. rewrite (bind_err _ _ _ _ _ Ha) in Hrun. injection Hrun as <- <-.
    split; [by intros (_&[? ?]&_)|by eexists]. }
  rewrite (bind_ok _ _ _ _ _ Ha) in Hrun.
  pose proof (pureM_run _ s (pureM_support_levels trans)) as Hs1.
  destruct (fst (support_levels trans s)) as [st_|e] eqn:E1; cycle 1.
  { right. rewrite (bind_err _ _ _ _ _ Hs1) in Hrun. injection Hrun as <- <-.
    split; [by intros (_&_&?&?&?&_)|by eexists]. }
  rewrite (bind_ok _ _ _ _ _ Hs1) in Hrun.
  pose proof (pureM_run _ s (pureM_support_levels source)) as Hs2.
  destruct (fst (support_levels source s)) as [ss|e] eqn:E2; cycle 1.
  { right. rewrite (bind_err _ _ _ _ _ Hs2) in Hrun. injection Hrun as <- <-.
    split; [by intros (_&_&?&?&_&?&_)|by eexists]. }
  rewrite (bind_ok _ _ _ _ _ Hs2) in Hrun. cbv zeta in Hrun.
  destruct (decide ((st_ ∪ ss) ∖ q ∩ list_to_set rnl.*2 = (∅ : gset nat))) as [Hsup|Hsup];
    cycle 1.
  { right. rewrite bool_decide_eq_false_2 in Hrun by done. injection Hrun as <- <-.
    split; [|by eexists]. intros (_&_&?&?&[= <-]&[= <-]&?). done. }
  rewrite bool_decide_eq_true_2 in Hrun by done.
  rewrite (bind_ok _ _ s tt s) in Hrun by done.
  left. split; [|exact Hrun].
  split; [done|split; [by eexists|]]. by exists st_, ss.
Qed.

(** the meaning of the result of the recursion started by [image], whatever
    the outcome (a bound on the number of nodes allowed) *)
Lemma image_core_any s trans source q fa m r s' :
  Inv s → valid s trans → valid s source → last_len s = None →
  (∀ k k', m !! k = Some k' → k' < nvars s) →
  bind (image_rec (S (S (2 * nvars s))) trans source (Some m) None q fa ∅)
       (fun r => ret (fst r)) s = (r, s') →
  Inv s' ∧ extends s s' ∧ frame s s' ∧
  match r with
  | Ok x => valid s' x ∧
      ∀ a, D s' x a = true ↔ qsemF fa q (conj_body s trans source) (post_assign m a)
  | Err e => benign s e
  end.
Proof.
  intros HI Ht Hg Hoff Hvals Hrun.
  destruct (image_rec (S (S (2 * nvars s))) trans source (Some m) None q fa ∅ s)
    as [rr s2] eqn:Er.
  pose proof Er as Er'.
  apply image_rec_umap_spec in Er' as (HI2&He2&Hf2&Hr);
    [|done|done|done|by right| |apply icache_ok_empty|lia]; cycle 1.
  { intros l Hl. unfold rd. destruct (m !! l) as [k'|] eqn:E; simpl; [|done].
    by apply Hvals in E. }
  destruct rr as [[x c]|e]; cycle 1.
  { rewrite (bind_err _ _ _ _ _ Er) in Hrun. injection Hrun as <- <-. by split_and!. }
  rewrite (bind_ok _ _ _ _ _ Er) in Hrun. cbn [ret fst] in Hrun.
  injection Hrun as <- <-. destruct Hr as (Hxv&_&HxD).
  by split_and!.
Qed.

(** the same when no bound on the number of nodes is set: it succeeds *)
Lemma image_core s trans source q fa m r s' :
  Inv s → valid s trans → valid s source → last_len s = None → max_nodes s = None →
  (∀ k k', m !! k = Some k' → k' < nvars s) →
  bind (image_rec (S (S (2 * nvars s))) trans source (Some m) None q fa ∅)
       (fun r => ret (fst r)) s = (r, s') →
  ∃ x, r = Ok x ∧ Inv s' ∧ extends s s' ∧ valid s' x ∧
    ∀ a, D s' x a = true ↔ qsemF fa q (conj_body s trans source) (post_assign m a).
Proof.
  intros HI Ht Hg Hoff Hmx Hvals Hrun.
  destruct (image_core_any s trans source q fa m r s' HI Ht Hg Hoff Hvals Hrun)
    as (HI2&He2&_&Hr).
  destruct r as [x|e]; [|by destruct (benign_never s e Hoff Hmx)].
  destruct Hr as [Hxv HxD]. exists x. by split_and!.
Qed.

(** [image], when its checks pass: no adjacency is required, and the
    renaming may be any map to declared levels *)
Theorem image_spec s trans source byname rn qbyname qvars fa q rnl m r s' :
  Inv s → valid s trans → valid s source → last_len s = None → max_nodes s = None →
  fst (map_to_level_set qbyname qvars s) = Ok q →
  fst (map_rename byname rn s) = Ok rnl → m = list_to_map (reverse rnl) →
  (∀ k k', m !! k = Some k' → k' < nvars s) →
  image_pre s trans source rnl q →
  image trans source byname rn qbyname qvars fa s = (r, s') →
  ∃ x, r = Ok x ∧ Inv s' ∧ extends s s' ∧ valid s' x ∧
    ∀ a, D s' x a = true ↔
      if fa then ∀ b, agree_off q (post_assign m a) b → conj_body s trans source b = true
      else ∃ b, agree_off q (post_assign m a) b ∧ conj_body s trans source b = true.
Proof.
  intros HI Ht Hg Hoff Hmx Hq Hrn -> Hvals Hpre Hrun.
  destruct (image_run _ _ _ _ _ _ _ _ _ _ _ _ Hq Hrn Hrun) as [[_ Hrec]|[Hn _]]; [|done].
  by apply (image_core s trans source q fa _ r s').
Qed.

(** [image], whenever it returns a result: the checks have passed *)
Theorem image_spec_run s trans source byname rn qbyname qvars fa q rnl m x s' :
  Inv s → valid s trans → valid s source → last_len s = None →
  fst (map_to_level_set qbyname qvars s) = Ok q →
  fst (map_rename byname rn s) = Ok rnl → m = list_to_map (reverse rnl) →
  (∀ k k', m !! k = Some k' → k' < nvars s) →
  image trans source byname rn qbyname qvars fa s = (Ok x, s') →
  image_pre s trans source rnl q ∧
  Inv s' ∧ extends s s' ∧ valid s' x ∧
    ∀ a, D s' x a = true ↔
      if fa then ∀ b, agree_off q (post_assign m a) b → conj_body s trans source b = true
      else ∃ b, agree_off q (post_assign m a) b ∧ conj_body s trans source b = true.
Proof.
  intros HI Ht Hg Hoff Hq Hrn -> Hvals Hrun.
  destruct (image_run _ _ _ _ _ _ _ _ _ _ _ _ Hq Hrn Hrun) as [[Hpre Hrec]|[_ (e&[=]&_)]].
  split; [done|].
  destruct (image_core_any s trans source q fa _ _ s' HI Ht Hg Hoff Hvals Hrec)
    as (?&?&_&?&?).
  by split_and!.
Qed.

(** ** The checks of [image] under the documented preconditions *)

(** [support] never fails on a valid reference, and only returns levels that
    occur (which is the inclusion the check of [image] needs) *)
Lemma support_rec_ok fuel : ∀ s u L N, Inv s → valid s u →
  nvars s - lvl_of s u < fuel →
  ∃ L' N', support_rec fuel u (L, N) s = (Ok (L', N'), s) ∧
    ∀ l, l ∈ L' → l ∈ L ∨ occurs s u l.
Proof.
  induction fuel as [|f IH]; intros s u L N HI Hu Hf; [lia|].
  cbn [support_rec]. rewrite bind_get.
  destruct (decide (size L = nvars s)).
  { exists L, N. split; [done|]. intros; by left. }
  rewrite decide_False by apply Hu.
  destruct (decide (absn u ∈ N)).
  { exists L, N. split; [done|]. intros; by left. }
  destruct (decide (absn u = 1%positive)).
  { exists L, (N ∪ {[absn u]}). split; [done|]. intros; by left. }
  destruct (node_cases s HI u Hu) as [[E _]|(t&Ht&Hn1&Hlo&Hl&Hln&Hvl&Hvh&Hhp&Hll&Hlh&_)];
    [done|].
  assert (Egs : getsucc (absn u) s = (Ok t, s)) by (unfold getsucc; by rewrite Ht).
  rewrite (bind_ok _ _ _ _ _ Egs).
  assert (Hnt' : negb (is_term t) = true)
    by (unfold is_term; by rewrite bool_decide_eq_false_2).
  rewrite (bind_ok _ _ s tt s (assert_true _ _ Hnt')).
  destruct (IH s (t_lo t) (L ∪ {[t_lvl t]}) (N ∪ {[absn u]}) HI Hvl ltac:(lia))
    as (L1&N1&E1&H1).
  rewrite (bind_ok _ _ _ _ _ E1).
  destruct (IH s (t_hi t) L1 N1 HI Hvh ltac:(lia)) as (L2&N2&E2&H2).
  exists L2, N2. split; [exact E2|]. intros l Hl2.
  destruct (H2 l Hl2) as [Hl1|Ho]; [|right; by apply (occ_hi s u t)].
  destruct (H1 l Hl1) as [HlL|Ho]; [|right; by apply (occ_lo s u t)].
  apply elem_of_union in HlL as [?|Hs]; [by left|].
  apply elem_of_singleton in Hs as ->. right. by apply (occ_here s u t).
Qed.

Lemma support_levels_ok s u : Inv s → valid s u →
  ∃ X, support_levels u s = (Ok X, s) ∧ ∀ l, l ∈ X → occurs s u l.
Proof.
  intros HI Hu. unfold support_levels. rewrite bind_get.
  destruct (support_rec_ok (S (S (nvars s))) s u ∅ ∅ HI Hu ltac:(lia)) as (L&N&E&H).
  rewrite (bind_ok _ _ _ _ _ E). exists L. split; [done|].
  intros l Hl. destruct (H l Hl) as [Hin|?]; [|done]. by apply elem_of_empty in Hin.
Qed.

Lemma all_adjacent_ok s l : Inv s →
  (∀ i j, (i, j) ∈ l → i < nvars s ∧ j < nvars s) →
  ∃ b, all_adjacent l s = (Ok b, s).
Proof.
  intros HI. induction l as [|[i j] l IH]; intros H; cbn [all_adjacent]; [by eexists|].
  destruct (decide (i - j = 1 ∨ j - i = 1)).
  { apply IH. intros i' j' Hin. apply H. by right. }
  destruct (H i j) as [Hi Hj]; [by left|].
  apply (inv_lvls _ HI) in Hi as [x Hx]. apply (inv_lvls _ HI) in Hj as [y Hy].
  assert (E1 : var_at_level i s = (Ok x, s))
    by (unfold var_at_level; rewrite bind_get; by rewrite Hx).
  assert (E2 : var_at_level j s = (Ok y, s))
    by (unfold var_at_level; rewrite bind_get; by rewrite Hy).
  rewrite (bind_ok _ _ _ _ _ E1), (bind_ok _ _ _ _ _ E2). by eexists.
Qed.

Lemma dict_items_elem l k v : (k, v) ∈ dict_items l → (k, v) ∈ l.
Proof.
  unfold dict_items. intros H. apply elem_of_list_omap in H as (k0&_&H).
  destruct ((list_to_map (reverse l) : gmap nat nat) !! k0) as [v0|] eqn:E; [|done].
  injection H as -> ->. by apply list_to_map_reverse_elem.
Qed.

Lemma image_pre_doc s trans source rnl q :
  Inv s → valid s trans → valid s source →
  no_overlap (list_to_map (reverse rnl)) = true →
  (∀ k k', (k, k') ∈ rnl → k < nvars s ∧ k' < nvars s) →
  (∀ k k', (k, k') ∈ rnl → occurs s trans k' ∨ occurs s source k' → k' ∈ q) →
  image_pre s trans source rnl q.
Proof.
  intros HI Ht Hg Hno Hd Hq. split; [done|split].
  - destruct (all_adjacent_ok s (dict_items rnl) HI) as [b Hb].
    { intros i j Hin. apply Hd. by apply dict_items_elem. }
    exists b. by rewrite Hb.
  - destruct (support_levels_ok s trans HI Ht) as (X1&E1&H1).
    destruct (support_levels_ok s source HI Hg) as (X2&E2&H2).
    exists X1, X2. rewrite E1, E2. split; [done|split; [done|]].
    apply elem_of_equiv_empty_L. intros l Hl.
    apply elem_of_intersection in Hl as [Hl Hv].
    apply elem_of_difference in Hl as [Hl Hnq].
    apply elem_of_list_to_set, elem_of_list_fmap in Hv as ([k k']&->&Hin).
    apply Hnq, (Hq k k' Hin). apply elem_of_union in Hl as [Hl|Hl]; [left; by apply H1|right; by apply H2].
Qed.

(** [image] under the documented preconditions: keys disjoint from values,
    every pair made of declared levels, every rename target quantified or
    absent from both operands.  No adjacency. *)
Theorem image_spec_doc s trans source byname rn qbyname qvars fa q rnl m r s' :
  Inv s → valid s trans → valid s source → last_len s = None → max_nodes s = None →
  fst (map_to_level_set qbyname qvars s) = Ok q →
  fst (map_rename byname rn s) = Ok rnl → m = list_to_map (reverse rnl) →
  no_overlap m = true →
  (∀ k k', (k, k') ∈ rnl → k < nvars s ∧ k' < nvars s) →
  (∀ k k', (k, k') ∈ rnl → occurs s trans k' ∨ occurs s source k' → k' ∈ q) →
  image trans source byname rn qbyname qvars fa s = (r, s') →
  ∃ x, r = Ok x ∧ Inv s' ∧ extends s s' ∧ valid s' x ∧
    ∀ a, D s' x a = true ↔
      if fa then ∀ b, agree_off q (post_assign m a) b → conj_body s trans source b = true
      else ∃ b, agree_off q (post_assign m a) b ∧ conj_body s trans source b = true.
Proof.
  intros HI Ht Hg Hoff Hmx Hq Hrn Hm Hno Hd Hval Hrun.
  apply (image_spec s trans source byname rn qbyname qvars fa q rnl m r s'); try done.
  - intros k k' Hk. rewrite Hm in Hk. apply list_to_map_reverse_elem in Hk.
    by apply Hd in Hk as [_ ?].
  - apply image_pre_doc; try done. by rewrite <- Hm.
Qed.

(** the renaming given by names satisfies the "declared levels" hypotheses *)
Lemma rename_names_declared s rn rnl (m : gmap nat nat) : Inv s →
  fst (map_rename true rn s) = Ok rnl → m = list_to_map (reverse rnl) →
  ∀ k k', m !! k = Some k' → k < nvars s ∧ k' < nvars s.
Proof.
  intros HI Hrn -> k k' Hk. apply list_to_map_reverse_elem in Hk.
  by apply (map_rename_names_declared s rn rnl HI Hrn).
Qed.

(** ** The hypotheses of [preimage_spec] are necessary: witnesses

    A manager with the levels 0..3 (names = levels; think of x, x', y, y'),
    the variables 2, 3, 4, 5, and
    -6 = (x' <-> ~x) = x xor x', -7 = x xor y, -9 = (y' <-> x xor y),
    -12 = -6 /\ -9 (a two-bit counter), -13 = ~x /\ ~y, -14 = x /\ ~y,
    15 = x /\ x'. *)
Local Open Scope string_scope.
Definition c13_world : world :=
  fold_left (fun w o => fst (step w 0 o))
    [ONew [(0, 0); (1, 1); (2, 2); (3, 3)]; OVar 0; OVar 1; OVar 2; OVar 3;
     OApply "<->" 3 (Some (-2)%Z) None; OApply "xor" 2 (Some 4%Z) None;
     OApply "<->" 5 (Some (-7)%Z) None; OApply "and" (-6) (Some (-9)%Z) None;
     OApply "and" (-2) (Some (-4)%Z) None; OApply "and" 2 (Some (-4)%Z) None;
     OApply "and" 2 (Some 3%Z) None]
    world_empty.
Definition c13_st : st := world_get c13_world 0.

Ltac pairs_of Hk :=
  apply list_to_map_reverse_elem in Hk;
  repeat (apply elem_of_cons in Hk as [Hk|Hk]; [simplify_eq|]);
  try (by apply elem_of_nil in Hk).

(** (a) a renaming that is not injective ({x -> x', y -> x'}: adjacent pairs,
    keys disjoint from values, no value in the support {0, 2} of the target):
    [preimage(TRUE, x xor y, exists x')] returns TRUE, whereas
    (x xor y)[x', x' / x, y] is FALSE. *)
Lemma preimage_injectivity_needed :
  let s := c13_st in
  let m : gmap nat nat := list_to_map (reverse [(0, 1); (2, 1)]) in
  let r := preimage 1 (-7) false [(0, 1); (2, 1)] false [1] false s in
  fst r = Ok 1%Z ∧ no_overlap m = true ∧
  match fst (support_levels (-7) s) with Ok X => Some (elements X) | Err _ => None end = Some [0; 2] ∧
  (∀ k k', m !! k = Some k' → k' = k + 1 ∨ k = k' + 1) ∧
  ¬ (∀ a, D (snd r) 1 a = true ↔
          ∃ b, agree_off {[1]} a b ∧ pre_body s m 1 (-7) b = true).
Proof.
  cbv zeta. split_and!; [by vm_compute..| |].
  - intros k k' Hk. pairs_of Hk; lia.
  - intros H. destruct (proj1 (H (fun _ => false)) ltac:(by vm_compute)) as (b&_&Hb).
    revert Hb. vm_compute. by destruct (b 1).
Qed.

(** (b) a rename target in the support of the target set ({x -> x'},
    injective, adjacent, no overlap): [preimage(TRUE, x xor x', exists x')]
    returns TRUE, whereas (x xor x')[x' / x] is FALSE. *)
Lemma preimage_values_outside_target_needed :
  let s := c13_st in
  let m : gmap nat nat := list_to_map (reverse [(0, 1)]) in
  let r := preimage 1 (-6) false [(0, 1)] false [1] false s in
  fst r = Ok 1%Z ∧ no_overlap m = true ∧
  match fst (support_levels (-6) s) with Ok X => Some (elements X) | Err _ => None end = Some [0; 1] ∧
  (∀ k k', m !! k = Some k' → k' = k + 1 ∨ k = k' + 1) ∧
  (∀ k1 k2 k', m !! k1 = Some k' → m !! k2 = Some k' → k1 = k2) ∧
  ¬ (∀ a, D (snd r) 1 a = true ↔
          ∃ b, agree_off {[1]} a b ∧ pre_body s m 1 (-6) b = true).
Proof.
  cbv zeta. split_and!; [by vm_compute..| | |].
  - intros k k' Hk. pairs_of Hk; lia.
  - intros k1 k2 k' H1 H2. pairs_of H1; pairs_of H2; done.
  - intros H. destruct (proj1 (H (fun _ => false)) ltac:(by vm_compute)) as (b&_&Hb).
    revert Hb. vm_compute. by destruct (b 1).
Qed.

(** (c) pairs that are not adjacent ({x -> y', x' -> y}: injective, no
    overlap, no value in the support {0, 1} of the target):
    [preimage(~y, x /\ x', exists y)] returns y', whereas
    \E y. ~y /\ (y' /\ y) is FALSE. *)
Lemma preimage_adjacency_needed :
  let s := c13_st in
  let m : gmap nat nat := list_to_map (reverse [(0, 3); (1, 2)]) in
  let r := preimage (-4) 15 false [(0, 3); (1, 2)] false [2] false s in
  fst r = Ok 5%Z ∧ no_overlap m = true ∧
  match fst (support_levels 15 s) with Ok X => Some (elements X) | Err _ => None end = Some [0; 1] ∧
  (∀ k1 k2 k', m !! k1 = Some k' → m !! k2 = Some k' → k1 = k2) ∧
  ¬ (∀ a, D (snd r) 5 a = true ↔
          ∃ b, agree_off {[2]} a b ∧ pre_body s m (-4) 15 b = true).
Proof.
  cbv zeta. split_and!; [by vm_compute..| |].
  - intros k1 k2 k' H1 H2. pairs_of H1; pairs_of H2; done.
  - intros H. destruct (proj1 (H (fun _ => true)) ltac:(by vm_compute)) as (b&_&Hb).
    revert Hb. vm_compute. by destruct (b 2), (b 3).
Qed.
