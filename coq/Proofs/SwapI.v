(** * SwapI: the exchange of the variables, the rooted collection and the
      rebuilding of the level sets *)
From DD Require Export SwapH.

(** ** the three final loops (pure reads of the collected table) *)
Lemma fold_newxy (m : gmap positive triple) (x y : nat) (s : st) :
  ∀ (o : list positive) (acc : gset positive * gset positive),
  (∀ u t, u ∈ o → m !! u = Some t → t_lvl t = x ∨ t_lvl t = y) → x ≠ y →
  ∃ NX NY,
    foldM (fun '(newx, newy) u =>
           match m !! u with
           | None => ret (newx, newy)
           | Some t =>
               if decide (t_lvl t = x) then ret (newx, newy ∪ {[u]})
               else if decide (t_lvl t = y) then ret (newx ∪ {[u]}, newy)
               else raise EAssert
           end) acc o s = (Ok (NX, NY), s) ∧
    (∀ n, n ∈ NX ↔ n ∈ acc.1 ∨ (n ∈ o ∧ ∃ t, m !! n = Some t ∧ t_lvl t = y)) ∧
    (∀ n, n ∈ NY ↔ n ∈ acc.2 ∨ (n ∈ o ∧ ∃ t, m !! n = Some t ∧ t_lvl t = x)).
Proof.
  induction o as [|u o IH]; intros [ax ay] Ho Hxy.
  - exists ax, ay. split; [done|]. split; intros n; (split; [by left|]);
      intros [?|[H _]]; try done; by apply elem_of_nil in H.
  - cbn [foldM].
    assert (Ho' : ∀ u' t, u' ∈ o → m !! u' = Some t → t_lvl t = x ∨ t_lvl t = y).
    { intros u' t Hu'. apply Ho. by right. }
    destruct (m !! u) as [t|] eqn:Hu.
    + destruct (Ho u t ltac:(left) Hu) as [E|E].
      * rewrite decide_True by done.
        destruct (IH (ax, ay ∪ {[u]}) Ho' Hxy) as (NX&NY&Hrun&HX&HY).
        exists NX, NY. split; [exact Hrun|]. cbn [fst snd] in *. split; intros n.
        -- rewrite HX. split; (intros [?|(Hn&t'&Ht'&Hl')]; [by left|right]).
           ++ split; [by right|eauto].
           ++ split; [|eauto]. apply elem_of_cons in Hn as [->|Hn]; [|done].
              rewrite Hu in Ht'. injection Ht' as <-. lia.
        -- rewrite HY, elem_of_union, elem_of_singleton. split.
           ++ intros [[?| ->]|(Hn&?)]; [by left|right|right].
              ** split; [left|eauto].
              ** split; [by right|done].
           ++ intros [?|(Hn&t'&Ht'&Hl')]; [by left; left|].
              apply elem_of_cons in Hn as [->|Hn]; [left; by right|right; eauto].
      * rewrite decide_False by lia. rewrite decide_True by done.
        destruct (IH (ax ∪ {[u]}, ay) Ho' Hxy) as (NX&NY&Hrun&HX&HY).
        exists NX, NY. split; [exact Hrun|]. cbn [fst snd] in *. split; intros n.
        -- rewrite HX, elem_of_union, elem_of_singleton. split.
           ++ intros [[?| ->]|(Hn&?)]; [by left|right|right].
              ** split; [left|eauto].
              ** split; [by right|done].
           ++ intros [?|(Hn&t'&Ht'&Hl')]; [by left; left|].
              apply elem_of_cons in Hn as [->|Hn]; [left; by right|right; eauto].
        -- rewrite HY. split; (intros [?|(Hn&t'&Ht'&Hl')]; [by left|right]).
           ++ split; [by right|eauto].
           ++ split; [|eauto]. apply elem_of_cons in Hn as [->|Hn]; [|done].
              rewrite Hu in Ht'. injection Ht' as <-. lia.
    + destruct (IH (ax, ay) Ho' Hxy) as (NX&NY&Hrun&HX&HY).
      exists NX, NY. split; [exact Hrun|]. cbn [fst snd] in *. split; intros n.
      * rewrite HX. split; (intros [?|(Hn&t'&Ht'&Hl')]; [by left|right]).
        -- split; [by right|eauto].
        -- split; [|eauto]. apply elem_of_cons in Hn as [->|Hn]; [congruence|done].
      * rewrite HY. split; (intros [?|(Hn&t'&Ht'&Hl')]; [by left|right]).
        -- split; [by right|eauto].
        -- split; [|eauto]. apply elem_of_cons in Hn as [->|Hn]; [congruence|done].
Qed.

Lemma fold_xfresh (m : gmap positive triple) (y : nat) (s : st) :
  ∀ (l : list positive) (acc : gset positive),
  (∀ u, u ∈ l → ∃ t, m !! u = Some t ∧ t_lvl t = y) →
  ∃ NX,
    foldM (fun (newx : gset positive) u =>
            t <- of_opt EKey (m !! u) ;;
            assert (bool_decide (t_lvl t = y)) ;;;
            ret (newx ∪ {[u]})) acc l s = (Ok NX, s) ∧
    (∀ n, n ∈ NX ↔ n ∈ acc ∨ n ∈ l).
Proof.
  induction l as [|u l IH]; intros acc Hl.
  - exists acc. split; [done|]. intros n. split; [by left|]. intros [?|H]; [done|].
    by apply elem_of_nil in H.
  - cbn [foldM]. destruct (Hl u ltac:(left)) as (t&Ht&Hlt).
    assert (Hb : (t <- of_opt EKey (m !! u) ;;
                  assert (bool_decide (t_lvl t = y)) ;;; ret (acc ∪ {[u]})) s
                 = (Ok (acc ∪ {[u]}), s)).
    { rewrite Ht. unfold bind, of_opt, ret, assert. by rewrite bool_decide_eq_true_2. }
    rewrite (bind_ok _ _ _ _ _ Hb).
    destruct (IH (acc ∪ {[u]})) as (NX&Hrun&HX).
    { intros u' Hu'. apply Hl. by right. }
    exists NX. split; [exact Hrun|]. intros n. rewrite HX, elem_of_union, elem_of_singleton,
      elem_of_cons. tauto.
Qed.

Lemma fold_newy (m : gmap positive triple) (x : nat) (s : st) :
  ∀ (o : list positive) (acc : gset positive),
  (∀ u t, u ∈ o → m !! u = Some t → t_lvl t = x) →
  ∃ NY,
    foldM (fun (newy : gset positive) u =>
            match m !! u with
            | None => ret newy
            | Some t =>
                assert (bool_decide (t_lvl t = x)) ;;;
                ret (newy ∪ {[u]})
            end) acc o s = (Ok NY, s) ∧
    (∀ n, n ∈ NY ↔ n ∈ acc ∨ (n ∈ o ∧ is_Some (m !! n))).
Proof.
  induction o as [|u o IH]; intros acc Ho.
  - exists acc. split; [done|]. intros n. split; [by left|]. intros [?|[H _]]; [done|].
    by apply elem_of_nil in H.
  - cbn [foldM].
    assert (Ho' : ∀ u' t, u' ∈ o → m !! u' = Some t → t_lvl t = x).
    { intros u' t Hu'. apply Ho. by right. }
    destruct (m !! u) as [t|] eqn:Hu.
    + assert (Hb : (assert (bool_decide (t_lvl t = x)) ;;; ret (acc ∪ {[u]})) s
                   = (Ok (acc ∪ {[u]}), s)).
      { unfold bind, ret, assert. rewrite bool_decide_eq_true_2; [done|].
        apply (Ho u t); [left|done]. }
      rewrite (bind_ok _ _ _ _ _ Hb).
      destruct (IH (acc ∪ {[u]}) Ho') as (NY&Hrun&HY).
      exists NY. split; [exact Hrun|]. intros n.
      rewrite HY, elem_of_union, elem_of_singleton, elem_of_cons. split.
      * intros [[?| ->]|[? ?]]; [by left|right|right]; [split; [by left|by rewrite Hu]|tauto].
      * intros [?|[[->|?] ?]]; tauto.
    + rewrite (bind_ok _ _ s acc s) by done. destruct (IH acc Ho') as (NY&Hrun&HY).
      exists NY. split; [exact Hrun|]. intros n. rewrite HY, elem_of_cons. split.
      * intros [?|[? ?]]; tauto.
      * intros [?|[[->|?] Hs]]; [tauto| |tauto]. rewrite Hu in Hs. by destruct Hs.
Qed.

Section gc.
Context (s0 : st) (HI : Inv s0) (x : nat) (Hy : x + 1 < nvars s0).
Context (L : positive → nat) (s6 : st) (G XF : gset positive)
        (HD : DepInv s0 x L s6 ∅ G XF).
Context (vx vy : nat) (Hvx : lvl2var s0 !! x = Some vx)
        (Hvy : lvl2var s0 !! (x + 1) = Some vy).

Lemma swap_gc r s8 :
  collect_garbage (Some (Z.pos <$> elements G)) (swap_vars s6 x vx vy) = (r, s8) →
  r = Ok tt ∧ Inv s8 ∧ Counts s8 L ∧ succ s8 ⊆ succ s6 ∧
  vars s8 = vars (swap_vars s6 x vx vy) ∧ lvl2var s8 = lvl2var (swap_vars s6 x vx vy) ∧
  last_len s8 = last_len s6 ∧
  (∀ n, n ∈ dom (succ s6) → ¬ oldY s0 x G n → n ∈ dom (succ s8)) ∧
  (∀ n, n = 1%positive ∨ reach (succ s6) (fun k => 0 < L k) n → n ∈ dom (succ s8)).
Proof.
  intros Hrun. set (s7 := swap_vars s6 x vx vy) in *.
  pose proof (di_mid _ _ _ _ _ _ _ HD) as HM.
  assert (HI7 : Inv s7) by (by apply (Inv_final s0 HI x Hy vx vy Hvx Hvy)).
  assert (HC7 : Counts s7 L) by (apply (Counts_same s6); [done|done|apply HD]).
  assert (Hroots : ∀ u, u ∈ Z.pos <$> elements G → valid s7 u).
  { intros u Hu. apply elem_of_list_fmap in Hu as (n&->&Hn). apply elem_of_elements in Hn.
    by apply (G_valid s0 HI x Hy L s6 G XF HD). }
  destruct (gc_rooted_safe _ s7 L r s8 HI7 HC7 Hroots Hrun)
    as (->&HI8&HC8&_&Hv&Hl&(Hfr&_)&Hsub&Hreach).
  split_and!; try done.
  apply (gc_rooted_only (oldY s0 x G) _ s7 L (Ok tt) s8 HI7 HC7 Hroots); [| |done].
  - intros u Hu Hr _. apply elem_of_list_fmap in Hu as (n&->&Hn). apply elem_of_elements in Hn.
    rewrite absn_pos in Hr |- *. by apply (G_zero s0 HI x Hy L s6 G XF HD).
  - apply (G_kids s0 HI x Hy L s6 G XF HD).
Qed.
End gc.
