(** * AddExprDynamic: [dd.bdd.BDD.add_expr] under dynamic reordering, the
      FUNCTIONAL statement (C09 for the formula reader).

    [add_expr] is the decorator [_try_to_reorder] around "lex, parse,
    evaluate the tree" ([AddExprTotal.add_expr_unfold]).  The evaluator
    [eval_ast] calls the decorated [var], [apply] -> [ite], [quantify],
    [rename]; inside the decorator a context is active, so none of the nested
    calls reorders: each either meets its specification or stops with the
    signal, which the decorator of [add_expr] serves.  The intermediate
    results of the evaluator are not held by anybody -- harmless, because
    under [no_reorder] the manager only grows ([extends]).

    - [nested_spec]: a nested decorated call of an operation meeting [op_spec];
    - [apply_nr], [quantify_nr], [rename_nr] ([Dynamic2.var_nr] exists);
    - [eval_ast_nr]: the evaluator under [no_reorder], by induction on the tree
      (the shape of [ExprSem.eval_ast_sem_gen]);
    - [eval_ast_op_spec], [add_expr_body_op_spec]: [op_spec], with [K]
      containing the [@n] leaves of the tree; [asem] reads the [@n] leaves in
      the ORIGINAL state and is stable under [keeps K] ([asem_keeps]);
    - [add_expr_dynamic], [add_expr_notape]: the decorator theorem applied. *)
From stdpp Require Import strings.
From DD Require Export AddExprTotal.
From DD Require Import C01proof.
Local Open Scope string_scope.

(** ** a nested decorated call, inside a context or with requests off *)
Lemma nested_spec {A} (func : MS A) K Pre Post s r s' :
  op_spec func K Pre Post → Inv s → Pre s → no_reorder s →
  try_to_reorder func s = (r, s') →
  safe s s' ∧
  match r with
  | Ok a => Post s a s'
  | Err e => benign s e
  end.
Proof.
  intros Hop HI HP Hnr Hrun.
  apply try_to_reorder_inert in Hrun as (r1&s1&Hrun&Hcase).
  set (s0 := s <| rctx := true |>) in *.
  assert (HI0 : Inv s0) by (by apply Inv_rctx).
  assert (Hk0 : keeps K s s0) by apply keeps_rctx.
  assert (HP0 : Pre s0) by (by apply (pre_stable _ _ _ _ Hop s s0)).
  destruct (spec_run _ _ _ _ Hop s0 r1 s1 HI0 HP0 (or_introl eq_refl) Hrun)
    as (HI1&He1&Hf1&HC1&Hr).
  destruct Hcase as [[-> Hc]|[-> ->]].
  - exfalso. destruct Hr as [[_ [l Hl]]|[[=] _]]. change (last_len s0) with (last_len s) in Hl.
    destruct Hnr as [?|?]; congruence.
  - split.
    + apply safe_ttr. by split_and!.
    + destruct r1 as [a|e]; [|done].
      apply (post_same _ _ _ _ Hop s a s1); [by repeat split|].
      by apply (post_stable _ _ _ _ Hop s s0 a s1).
Qed.

Lemma err_up (s s1 : st) (e : err) : safe s s1 → benign s1 e → benign s e.
Proof. intros (_&_&Hf&_). by apply benign_frame. Qed.

(** ** [apply], propositional rows, under [no_reorder] *)
Lemma apply_with_nr tbl op u v w s t r s' :
  Inv s → no_reorder s →
  valid s u → ovalid s v → ovalid s w →
  arity_ok op v w = true →
  find_template tbl op = Some t → avail (template_uses t) v w →
  (∀ fa a b, t ≠ TQuant fa a b) →
  apply_with tbl op u v w s = (r, s') →
  match r with
  | Ok x => valid s' x ∧
      ∀ ρ, Some (denv s' x ρ) =
           template_sem t (denv s u ρ) (denv s (default 0%Z v) ρ) (denv s (default 0%Z w) ρ)
  | Err e => benign s e
  end.
Proof.
  intros HI Hnr Hu Hv Hw Har Hft Hav Hnq. unfold apply_with, ensure.
  rewrite Har. rewrite (bind_ok _ _ s tt s) by done. cbn [bind get].
  rewrite (proj2 (mem_valid s u) Hu). rewrite (bind_ok _ _ s tt s) by done.
  assert (Hmv : match v with Some v => mem v s | None => true end = true).
  { destruct v; [|done]. by apply mem_valid. }
  assert (Hmw : match w with Some w => mem w s | None => true end = true).
  { destruct w; [|done]. by apply mem_valid. }
  rewrite Hmv, Hmw. rewrite !(bind_ok _ _ s tt s) by done. rewrite Hft.
  destruct t as [o|a b c|fa a b]; [| |by destruct (Hnq fa a b)].
  - intros [= <- <-].
    destruct (eval_operand_spec s o u v w HI Hu Hv Hw Hav) as [Hval HD].
    split; [done|]. intros ρ. cbn [template_sem]. unfold denv. by rewrite HD.
  - cbn in Hav.
    destruct (eval_operand_spec s a u v w HI Hu Hv Hw (avail_por_l _ _ _ _ Hav)) as [Va Da].
    destruct (eval_operand_spec s b u v w HI Hu Hv Hw
                (avail_por_l _ _ _ _ (avail_por_r _ _ _ _ Hav))) as [Vb Db].
    destruct (eval_operand_spec s c u v w HI Hu Hv Hw
                (avail_por_r _ _ _ _ (avail_por_r _ _ _ _ Hav))) as [Vc Dc].
    intros Hrun.
    apply ite_spec in Hrun as (_&He&_&Hr); [|done..].
    destruct r as [x|e]; [|done]. destruct Hr as (Hx&_&HD). split; [done|].
    intros ρ. cbn [template_sem]. unfold denv. destruct He as (_&_&El). rewrite <- El.
    by rewrite HD, Da, Db, Dc.
Qed.

Lemma apply_nr s op u v w r s' f :
  Inv s → no_reorder s →
  op ∈ py_vocab → conn_sem op = Some f →
  valid s u → ovalid s v → ovalid s w → arity_ok op v w = true →
  apply op u v w s = (r, s') →
  safe s s' ∧
  match r with
  | Ok x => valid s' x ∧
      ∀ ρ, denv s' x ρ = f (denv s u ρ) (odenv s v ρ) (odenv s w ρ)
  | Err e => benign s e
  end.
Proof.
  intros HI Hnr Hop Hf Hu Hv Hw Har Hrun.
  split; [by apply (csafe_apply_with apply_table op u v w s r s')|].
  pose proof alias_table_ok as Htab. rewrite forallb_forall in Htab.
  apply elem_of_list_In in Hop. specialize (Htab op Hop). apply elem_of_list_In in Hop.
  apply orb_true_iff in Htab as [Hq|Hok].
  { exfalso. apply bool_decide_eq_true in Hq. unfold quantifier_ops in Hq.
    repeat (apply elem_of_cons in Hq as [->|Hq]; [by vm_compute in Hf|]).
    by apply elem_of_nil in Hq. }
  unfold class_uses_ok in Hok.
  destruct (find_template py_apply_table op) as [t|] eqn:Ht; [|done].
  destruct (template_uses t) as [uv uw] eqn:Hus.
  apply andb_true_iff in Hok as [Hcl Hsem]. rewrite Hf in Hsem.
  rewrite forallb_forall in Hsem.
  assert (Hsem' : ∀ b1 b2 b3, template_sem t b1 b2 b3 = Some (f b1 b2 b3)).
  { intros b1 b2 b3.
    pose proof (Hsem (b1, b2, b3) (proj1 (elem_of_list_In _ _) (bools3_all b1 b2 b3))) as H.
    by apply bool_decide_eq_true in H. }
  clear Hsem.
  destruct py_table_is_model_table as (Etab&Eu&Eb&Et).
  unfold apply in Hrun. rewrite <- Etab in Hrun.
  assert (Har' : arity_ok op v w = true) by done.
  unfold arity_ok in Har. rewrite <- Eu, <- Eb, <- Et in Har.
  assert (Hav : avail (template_uses t) v w).
  { rewrite Hus. unfold avail. cbn.
    destruct (bool_decide (op ∈ py_unary)).
    - apply andb_true_iff in Hcl as [?%negb_true_iff ?%negb_true_iff]. split; congruence.
    - destruct (bool_decide (op ∈ py_binary)).
      + apply negb_true_iff in Hcl. apply bool_decide_eq_true in Har as [? ?]. split; congruence.
      + rewrite Hcl in Har. apply bool_decide_eq_true in Har as [? ?]. by split. }
  assert (Hnq : ∀ fa a b, t ≠ TQuant fa a b).
  { intros fa a b ->. by specialize (Hsem' true true true). }
  pose proof (apply_with_nr py_apply_table op u v w s t r s'
                HI Hnr Hu Hv Hw Har' Ht Hav Hnq Hrun) as Hr.
  destruct r as [x|e]; [|done]. destruct Hr as [Hx HD]. split; [done|].
  intros ρ. specialize (HD ρ). rewrite Hsem' in HD. injection HD as ->.
  destruct (bool_decide (op ∈ py_unary)) eqn:Hcu.
  + apply bool_decide_eq_true in Hcu. apply (conn_unary op f Hf Hcu).
  + destruct (bool_decide (op ∈ py_binary)) eqn:Hcb.
    * apply bool_decide_eq_true in Hcb, Har. destruct Har as [Hvn ->].
      destruct v as [v|]; [|done]. cbn [default odenv].
      apply (conn_binary op f Hf Hcb).
    * rewrite Hcl in Har. apply bool_decide_eq_true in Har as [? ?].
      destruct v as [v|], w as [w|]; done.
Qed.

(** ** [quantify] by names under [no_reorder]; abstraction over names
    ([qsemv]) is the iterated [qbool] of the reading [asem] *)
Lemma qsemv_qbool s fa u xs ρ :
  Inv s → valid s u → Forall (fun x => is_Some (vars s !! x)) xs →
  qsemv s fa (list_to_set xs) u ρ ↔ qbool fa xs (denv s u) ρ = true.
Proof.
  intros HI Hu HF. destruct (names_levels_list s xs HF) as [HF2 HQ].
  rewrite <- (qsem_names s HI fa _ _ u ρ Hu HQ).
  exact (qsem_qbool s fa u xs _ HI Hu HF2 ρ).
Qed.

Lemma list_to_set_remove_dups_nat (xs : list nat) :
  (list_to_set (remove_dups xs) : gset nat) = list_to_set xs.
Proof.
  apply stdpp.sets.set_eq. intros l. rewrite !elem_of_list_to_set. apply elem_of_remove_dups.
Qed.

Lemma quantify_nr s u xs fa r s' :
  Inv s → valid s u → Forall (fun x => is_Some (vars s !! x)) xs → no_reorder s →
  quantify u true (remove_dups xs) fa s = (r, s') →
  safe s s' ∧
  match r with
  | Ok x => valid s' x ∧ ∀ ρ, denv s' x ρ = qbool fa xs (denv s u) ρ
  | Err e => benign s e
  end.
Proof.
  intros HI Hu HF Hnr Hrun.
  assert (HF' : Forall (fun x => is_Some (vars s !! x)) (remove_dups xs)).
  { rewrite Forall_forall in *. intros x Hx. apply HF. by apply elem_of_remove_dups. }
  change (quantify u true (remove_dups xs) fa)
    with (try_to_reorder (quant_body u (remove_dups xs) fa)) in Hrun.
  destruct (nested_spec _ _ _ _ s r s'
              (quant_op_spec (fun _ => True) u (remove_dups xs) fa I) HI
              (conj Hu HF') Hnr Hrun) as [Hs Hr].
  split; [done|]. destruct r as [x|e]; [|done]. destruct Hr as [Hx HD]. split; [done|].
  intros ρ. apply bool_eq_iff. rewrite HD, list_to_set_remove_dups_nat.
  by apply qsemv_qbool.
Qed.

(** ** [rename] under [no_reorder] *)
Lemma rename_nr s u dvars r s' :
  Inv s → valid s u → (∀ x y, (x, y) ∈ dvars → is_Some (vars s !! y)) → no_reorder s →
  rename u dvars s = (r, s') →
  safe s s' ∧
  match r with
  | Ok x => valid s' x ∧ ∀ ρ, denv s' x ρ = denv s u (fun v => ρ (ren dvars v))
  | Err e => benign s e
  end.
Proof.
  intros HI Hu Hd Hnr Hrun. unfold rename in Hrun.
  destruct (nested_spec _ _ _ _ s r s' (rename_op_spec (fun _ => True) u dvars I) HI
              (conj Hu Hd) Hnr Hrun) as [Hs Hr].
  split; [done|]. destruct r as [x|e]; [|done]. exact Hr.
Qed.

(** ** the evaluator under [no_reorder] *)
Definition eval_res (s0 s : st) (a : ast) (r : res Z) (s' : st) : Prop :=
  match r with
  | Ok u => valid s' u ∧ ∀ ρ, denv s' u ρ = asem s0 a ρ
  | Err e => benign s e
  end.

Lemma eval_ast_nr a : ∀ s0 s r s',
  Inv s0 → extends s0 s → Inv s → no_reorder s →
  ok_ast s0 a →
  eval_ast a s = (r, s') → safe s s' ∧ eval_res s0 s a r s'.
Proof.
  induction a as [b|n|z|op a IH|op a1 IH1 a2 IH2|a IHa b IHb c IHc|op ns a IH|ss a IH];
    intros s0 s r s' HI0 He0 HI Hnr Hok Hrun.
  - (* ABool *)
    cbn [eval_ast] in Hrun. unfold ret in Hrun. injection Hrun as <- <-.
    split; [by apply safe_refl|].
    destruct b; (split; [by (apply valid_1 || apply valid_m1)|]); intros ρ; unfold denv; cbn [asem].
    + by apply D_1.
    + by apply D_m1.
  - (* AVar *)
    cbn [eval_ast ok_ast] in *.
    destruct (var_nr s _ r s' HI (ok_ast_extends_decl s0 s n He0 Hok) Hnr Hrun) as [Hs Hr].
    split; [done|]. destruct r as [w|e]; exact Hr.
  - (* ANum *)
    cbn [eval_ast ok_ast] in *. cbn [bind get] in Hrun.
    assert (Hz : valid s z) by (by apply (valid_extends s0 s)).
    unfold ensure in Hrun. rewrite (proj2 (mem_valid s z) Hz) in Hrun.
    cbn [bind ret] in Hrun. unfold ret in Hrun. injection Hrun as <- <-.
    split; [by apply safe_refl|]. split; [done|]. intros ρ. cbn [asem]. by apply denv_extends.
  - (* AOp1 *)
    cbn [eval_ast ok_ast] in *. destruct Hok as ([g Hg]&Hv&Har&Hok).
    destruct (eval_ast a s) as [ra s1] eqn:Ea.
    destruct (IH s0 s ra s1 HI0 He0 HI Hnr Hok Ea) as [Hs1 Hra].
    destruct ra as [u|e]; cycle 1.
    { rewrite (bind_err _ _ _ _ _ Ea) in Hrun. injection Hrun as <- <-. by split. }
    rewrite (bind_ok _ _ _ _ _ Ea) in Hrun. destruct Hra as [Hu HDu].
    pose proof Hs1 as (HI1&He1&_&_).
    assert (Hnr1 : no_reorder s1) by (by apply (safe_no_reorder s s1)).
    destruct (apply_nr s1 op u None None r s' g HI1 Hnr1 Hv Hg Hu I I Har Hrun) as [Hs2 Hr].
    split; [by apply (safe_trans s s1 s')|].
    destruct r as [x|e]; [|by apply (err_up s s1)].
    destruct Hr as [Hx HDx]. split; [done|]. intros ρ. cbn [asem]. rewrite Hg, HDx, HDu. done.
  - (* AOp2 *)
    cbn [eval_ast ok_ast] in *. destruct Hok as ([g Hg]&Hv&Har&Hok1&Hok2).
    destruct (eval_ast a1 s) as [ra s1] eqn:Ea.
    destruct (IH1 s0 s ra s1 HI0 He0 HI Hnr Hok1 Ea) as [Hs1 Hra].
    destruct ra as [u|e]; cycle 1.
    { rewrite (bind_err _ _ _ _ _ Ea) in Hrun. injection Hrun as <- <-. by split. }
    rewrite (bind_ok _ _ _ _ _ Ea) in Hrun. destruct Hra as [Hu HDu].
    pose proof Hs1 as (HI1&He1&_&_).
    assert (Hnr1 : no_reorder s1) by (by apply (safe_no_reorder s s1)).
    destruct (eval_ast a2 s1) as [rb s2] eqn:Eb.
    destruct (IH2 s0 s1 rb s2 HI0 (transitivity He0 He1) HI1 Hnr1 Hok2 Eb) as [Hs2 Hrb].
    assert (Hs02 : safe s s2) by (by apply (safe_trans s s1 s2)).
    destruct rb as [v|e]; cycle 1.
    { rewrite (bind_err _ _ _ _ _ Eb) in Hrun. injection Hrun as <- <-.
      split; [done|]. by apply (err_up s s1). }
    rewrite (bind_ok _ _ _ _ _ Eb) in Hrun. destruct Hrb as [Hv2 HDv].
    pose proof Hs2 as (HI2&He2&_&_).
    assert (Hnr2 : no_reorder s2) by (by apply (safe_no_reorder s1 s2)).
    assert (Hu2 : valid s2 u) by (by apply (valid_extends s1 s2)).
    rewrite (arity_some op 1 v) in Har.
    destruct (apply_nr s2 op u (Some v) None r s' g HI2 Hnr2 Hv Hg Hu2 Hv2 I Har Hrun)
      as [Hs3 Hr].
    split; [by apply (safe_trans s s2 s')|].
    destruct r as [x|e]; [|by apply (err_up s s2)].
    destruct Hr as [Hx HDx]. split; [done|]. intros ρ. cbn [asem]. rewrite Hg, HDx. cbn [odenv].
    rewrite (denv_extends s1 s2 u ρ He2 HI1 Hu), HDu, HDv. done.
  - (* AIte *)
    cbn [eval_ast ok_ast] in *. destruct Hok as (Hoka&Hokb&Hokc).
    destruct (eval_ast a s) as [ra s1] eqn:Ea.
    destruct (IHa s0 s ra s1 HI0 He0 HI Hnr Hoka Ea) as [Hs1 Hra].
    destruct ra as [u|e]; cycle 1.
    { rewrite (bind_err _ _ _ _ _ Ea) in Hrun. injection Hrun as <- <-. by split. }
    rewrite (bind_ok _ _ _ _ _ Ea) in Hrun. destruct Hra as [Hu HDu].
    pose proof Hs1 as (HI1&He1&_&_).
    assert (Hnr1 : no_reorder s1) by (by apply (safe_no_reorder s s1)).
    destruct (eval_ast b s1) as [rb s2] eqn:Eb.
    destruct (IHb s0 s1 rb s2 HI0 (transitivity He0 He1) HI1 Hnr1 Hokb Eb) as [Hs2 Hrb].
    assert (Hs02 : safe s s2) by (by apply (safe_trans s s1 s2)).
    destruct rb as [v|e]; cycle 1.
    { rewrite (bind_err _ _ _ _ _ Eb) in Hrun. injection Hrun as <- <-.
      split; [done|]. by apply (err_up s s1). }
    rewrite (bind_ok _ _ _ _ _ Eb) in Hrun. destruct Hrb as [Hv2 HDv].
    pose proof Hs2 as (HI2&He2&_&_).
    assert (Hnr2 : no_reorder s2) by (by apply (safe_no_reorder s1 s2)).
    destruct (eval_ast c s2) as [rc s3] eqn:Ec.
    destruct (IHc s0 s2 rc s3 HI0 (transitivity He0 (transitivity He1 He2)) HI2 Hnr2 Hokc Ec)
      as [Hs3 Hrc].
    assert (Hs03 : safe s s3) by (by apply (safe_trans s s2 s3)).
    destruct rc as [w|e]; cycle 1.
    { rewrite (bind_err _ _ _ _ _ Ec) in Hrun. injection Hrun as <- <-.
      split; [done|]. by apply (err_up s s2). }
    rewrite (bind_ok _ _ _ _ _ Ec) in Hrun. destruct Hrc as [Hw3 HDw].
    pose proof Hs3 as (HI3&He3&_&_).
    assert (Hnr3 : no_reorder s3) by (by apply (safe_no_reorder s2 s3)).
    assert (Hu2 : valid s2 u) by (by apply (valid_extends s1 s2)).
    assert (Hu3 : valid s3 u) by (by apply (valid_extends s2 s3)).
    assert (Hv3 : valid s3 v) by (by apply (valid_extends s2 s3)).
    destruct (apply_nr s3 "ite" u (Some v) (Some w) r s' (fun a b c : bool => if a then b else c)
                HI3 Hnr3) as [Hs4 Hr]; try done.
    { apply (bool_decide_eq_true_1 _). by vm_compute. }
    split; [by apply (safe_trans s s3 s')|].
    destruct r as [x|e]; [|by apply (err_up s s3)].
    destruct Hr as [Hx HDx]. split; [done|]. intros ρ. cbn [asem]. rewrite HDx. cbn [odenv].
    rewrite (denv_extends s2 s3 u ρ He3 HI2 Hu2), (denv_extends s1 s2 u ρ He2 HI1 Hu), HDu.
    rewrite (denv_extends s2 s3 v ρ He3 HI2 Hv2), HDv, HDw. done.
  - (* AQuant *)
    cbn [eval_ast ok_ast] in *. destruct Hok as (Hns&Hok).
    destruct (eval_ast a s) as [ra s1] eqn:Ea.
    destruct (IH s0 s ra s1 HI0 He0 HI Hnr Hok Ea) as [Hs1 Hra].
    destruct ra as [u|e]; cycle 1.
    { rewrite (bind_err _ _ _ _ _ Ea) in Hrun. injection Hrun as <- <-. by split. }
    rewrite (bind_ok _ _ _ _ _ Ea) in Hrun. destruct Hra as [Hu HDu].
    pose proof Hs1 as (HI1&He1&_&_).
    assert (Hnr1 : no_reorder s1) by (by apply (safe_no_reorder s s1)).
    apply quantify_nr in Hrun as [Hs2 Hr]; try done.
    2:{ rewrite Forall_fmap. eapply Forall_impl; [exact Hns|]. intros n Hn. cbn.
        apply (ok_ast_extends_decl s0 s1); [by etrans|done]. }
    split; [by apply (safe_trans s s1 s')|].
    destruct r as [x|e]; [|by apply (err_up s s1)].
    destruct Hr as [Hx HDx]. split; [done|]. intros ρ. cbn [asem]. rewrite HDx.
    apply qbool_ext. exact HDu.
  - (* ASubst *)
    cbn [eval_ast ok_ast] in *. destruct Hok as (Hss&Hok).
    destruct (eval_ast a s) as [ra s1] eqn:Ea.
    destruct (IH s0 s ra s1 HI0 He0 HI Hnr Hok Ea) as [Hs1 Hra].
    destruct ra as [u|e]; cycle 1.
    { rewrite (bind_err _ _ _ _ _ Ea) in Hrun. injection Hrun as <- <-. by split. }
    rewrite (bind_ok _ _ _ _ _ Ea) in Hrun. destruct Hra as [Hu HDu].
    pose proof Hs1 as (HI1&He1&_&_).
    assert (Hnr1 : no_reorder s1) by (by apply (safe_no_reorder s s1)).
    change (rename u (sub_ids ss) s1 = (r, s')) in Hrun.
    apply rename_nr in Hrun as [Hs2 Hr]; try done.
    2:{ intros x y Hxy. unfold sub_ids in Hxy.
        apply elem_of_list_fmap in Hxy as ([o n]&[= -> ->]&Hin).
        rewrite Forall_forall in Hss.
        apply (ok_ast_extends_decl s0 s1 n); [by etrans|]. exact (Hss _ Hin). }
    split; [by apply (safe_trans s s1 s')|].
    destruct r as [x|e]; [|by apply (err_up s s1)].
    destruct Hr as [Hx HDx]. split; [done|]. intros ρ. cbn [asem]. rewrite HDx. apply HDu.
Qed.

(** ** the [@n] leaves of a tree, and stability of [ok_ast] / [asem] under a
    change of state that keeps them *)
Fixpoint ast_refs (a : ast) : list Z :=
  match a with
  | ABool _ | AVar _ => []
  | ANum z => [z]
  | AOp1 _ a => ast_refs a
  | AOp2 _ a b => ast_refs a ++ ast_refs b
  | AIte a b c => ast_refs a ++ ast_refs b ++ ast_refs c
  | AQuant _ _ a => ast_refs a
  | ASubst _ a => ast_refs a
  end.
Definition refs_in (K : positive → Prop) (a : ast) : Prop :=
  Forall (fun z => K (absn z)) (ast_refs a).

Lemma declared_keeps K s s' n : keeps K s s' → declared s n → declared s' n.
Proof.
  intros [Ed _] H. unfold declared in *. apply elem_of_dom. rewrite Ed. by apply elem_of_dom.
Qed.

Lemma ok_ast_keeps K s s' a : keeps K s s' → refs_in K a → ok_ast s a → ok_ast s' a.
Proof.
  intros Hk. unfold refs_in.
  induction a as [b|n|z|op a IH|op a1 IH1 a2 IH2|a IHa b IHb c IHc|op ns a IH|ss a IH];
    cbn [ast_refs ok_ast]; rewrite ?Forall_app.
  - done.
  - intros _. by apply (declared_keeps K s s').
  - intros [HK _]%Forall_cons Hz. destruct Hk as [_ Hk].
    by destruct (Hk z (proj1 Hz) HK Hz).
  - intros HK (?&?&?&?). split_and!; try done. by apply IH.
  - intros [HK1 HK2] (?&?&?&?&?). split_and!; try done; [by apply IH1|by apply IH2].
  - intros (HKa&HKb&HKc) (?&?&?). split_and!; [by apply IHa|by apply IHb|by apply IHc].
  - intros HK [Hns ?]. split; [|by apply IH].
    eapply Forall_impl; [exact Hns|]. intros n. by apply (declared_keeps K s s').
  - intros HK [Hss ?]. split; [|by apply IH].
    eapply Forall_impl; [exact Hss|]. intros on. by apply (declared_keeps K s s').
Qed.

Lemma asem_keeps K s s' a : keeps K s s' → refs_in K a → ok_ast s a →
  ∀ ρ, asem s' a ρ = asem s a ρ.
Proof.
  intros Hk. unfold refs_in.
  induction a as [b|n|z|op a IH|op a1 IH1 a2 IH2|a IHa b IHb c IHc|op ns a IH|ss a IH];
    cbn [ast_refs ok_ast asem]; rewrite ?Forall_app.
  - done.
  - done.
  - intros [HK _]%Forall_cons Hz ρ. destruct Hk as [_ Hk].
    by destruct (Hk z (proj1 Hz) HK Hz) as [_ ->].
  - intros HK (_&_&_&Hok) ρ. by rewrite (IH HK Hok).
  - intros [HK1 HK2] (_&_&_&Hok1&Hok2) ρ. by rewrite (IH1 HK1 Hok1), (IH2 HK2 Hok2).
  - intros (HKa&HKb&HKc) (Hoka&Hokb&Hokc) ρ.
    by rewrite (IHa HKa Hoka), (IHb HKb Hokb), (IHc HKc Hokc).
  - intros HK [_ Hok] ρ. apply qbool_ext. by apply IH.
  - intros HK [_ Hok] ρ. by apply IH.
Qed.

(** ** [op_spec] *)
Definition expr_pre (a : ast) (s : st) : Prop := ok_ast s a.
Definition expr_post (a : ast) (s : st) (x : Z) (s' : st) : Prop :=
  valid s' x ∧ ∀ ρ, denv s' x ρ = asem s a ρ.

Lemma expr_op_spec_of_run (func : MS Z) (K : positive → Prop) a :
  (∀ s r s', Inv s → ok_ast s a → no_reorder s → func s = (r, s') →
     safe s s' ∧ eval_res s s a r s') →
  refs_in K a →
  op_spec func K (expr_pre a) (expr_post a).
Proof.
  intros Hrun HK. split.
  - intros s r s' HI Hok Hnr E. destruct (Hrun s r s' HI Hok Hnr E) as [Hs Hr].
    apply spec_intro; [done|]. destruct r as [x|e]; exact Hr.
  - intros s s' _ _ Hk Hok. by apply (ok_ast_keeps K s s').
  - intros s0 s x s' _ _ Hk Hok [Hx HD]. split; [done|].
    intros ρ. rewrite HD. by apply (asem_keeps K s0 s).
  - intros s x s' s'' (E1&_&_&_&_&E6&E7) [Hx HD]. split; [by apply (valid_same s')|].
    intros ρ. rewrite <- HD. by apply denv_same.
Qed.

Theorem eval_ast_op_spec (K : positive → Prop) a :
  refs_in K a → op_spec (eval_ast a) K (expr_pre a) (expr_post a).
Proof.
  apply expr_op_spec_of_run. intros s r s' HI Hok Hnr E.
  by apply (eval_ast_nr a s s r s').
Qed.

Theorem add_expr_body_op_spec (K : positive → Prop) lt rw P sp ts a :
  lex_all lt rw sp = Some ts → parse P ts = Some a → refs_in K a →
  op_spec (add_expr_body lt rw P sp) K (expr_pre a) (expr_post a).
Proof.
  intros Hlex Hparse. apply expr_op_spec_of_run. intros s r s' HI Hok Hnr E.
  unfold add_expr_body in E. rewrite Hlex in E. cbn [of_opt] in E.
  rewrite (bind_ok _ _ s ts s) in E by done.
  rewrite Hparse in E. cbn [of_opt] in E.
  rewrite (bind_ok _ _ s a s) in E by done.
  by apply (eval_ast_nr a s s r s').
Qed.

(** ** C09 for [add_expr] *)
Theorem add_expr_dynamic_prem lt rw P sp ts a s L r s' :
  sifting_ok' →
  Inv s → Counts s L → rctx s = false → max_nodes s = None →
  lex_all lt rw sp = Some ts → parse P ts = Some a →
  ok_ast s a → refs_in (heldn L) a →
  add_expr lt rw P sp s = (r, s') →
  r = Err EOracle ∨
  ∃ x, r = Ok x ∧ Inv s' ∧ Counts s' L ∧ rctx s' = false ∧
       (last_len s = None → last_len s' = None) ∧
       (is_Some (last_len s) → is_Some (last_len s')) ∧
       keeps (heldn L) s s' ∧
       valid s' x ∧ ∀ ρ, denv s' x ρ = asem s a ρ.
Proof.
  intros Hs HI HC Hc Hmx Hlex Hparse Hok HK Hrun. rewrite add_expr_unfold in Hrun.
  destruct (try_to_reorder_correct (add_expr_body lt rw P sp) (expr_pre a) (expr_post a)
              s L r s' Hs (add_expr_body_op_spec _ lt rw P sp ts a Hlex Hparse HK) HI HC)
    as [?|(x&?&?&?&?&?&?&?&?&?)]; try done; [by left|right]. by exists x.
Qed.

Theorem add_expr_dynamic lt rw P sp ts a s L r s' :
  Inv s → Counts s L → rctx s = false → max_nodes s = None →
  lex_all lt rw sp = Some ts → parse P ts = Some a →
  ok_ast s a → refs_in (heldn L) a →
  add_expr lt rw P sp s = (r, s') →
  r = Err EOracle ∨
  ∃ x, r = Ok x ∧ Inv s' ∧ Counts s' L ∧ rctx s' = false ∧
       (last_len s = None → last_len s' = None) ∧
       (is_Some (last_len s) → is_Some (last_len s')) ∧
       keeps (heldn L) s s' ∧
       valid s' x ∧ ∀ ρ, denv s' x ρ = asem s a ρ.
Proof. exact (add_expr_dynamic_prem lt rw P sp ts a s L r s' sifting_ok'_holds). Qed.

Theorem add_expr_notape lt rw P sp ts a s L r s' :
  Inv s → Counts s L → rctx s = false → tape s = [] → max_nodes s = None →
  lex_all lt rw sp = Some ts → parse P ts = Some a →
  ok_ast s a → refs_in (heldn L) a →
  add_expr lt rw P sp s = (r, s') →
  (∃ x, r = Ok x ∧ Inv s' ∧ Counts s' L ∧ rctx s' = false ∧
        (last_len s = None → last_len s' = None) ∧
        (is_Some (last_len s) → is_Some (last_len s')) ∧
        keeps (heldn L) s s' ∧
        valid s' x ∧ ∀ ρ, denv s' x ρ = asem s a ρ) ∧
  tape s' = [].
Proof.
  intros HI HC Hc Ht Hmx Hlex Hparse Hok HK Hrun.
  apply (no_oracle (add_expr lt rw P sp) s r s'); [apply nt_add_expr|done|done|].
  by apply (add_expr_dynamic lt rw P sp ts a s L r s').
Qed.

(** ** Running the model.  History [Dynamic.dyn_history]: four variables
    v0..v3 in the poor order v0 < v1 < v2 < v3 for f = (v0 /\ v2) \/ (v1 /\ v3),
    which is node 10 and is held; requests enabled.  The formula
    [\E v0: @10 /\ v1] refers to f as [@10].  [expr_run k] (local to the
    example): [add_expr] with the forced trigger [trig := k] (the k-th
    reordering request fires). *)
Definition expr_sp : list string := ["\E"; "v0"; ":"; "@"; "10"; "/\"; "v1"].
Definition expr_tree : ast := AQuant "\E" ["v0"] (AOp2 "&" (ANum 10) (AVar "v1")).
Definition zval (r : res Z) : res value :=
  match r with Ok u => Ok (VZ u) | Err e => Err e end.
Example add_expr_dynamic_example :
  let s := world_get (run_ops dyn_history) 0 in
  let expr_run := fun k : option nat =>
    add_expr lex_alias reserved_words code_prec expr_sp (s <| trig := k |>) in
  let '(rA, sA) := expr_run None in        (* the request does not fire *)
  let '(rB, sB) := expr_run (Some 9) in    (* the 9th request fires *)
  (* the hypotheses of [add_expr_dynamic] *)
  (lex expr_sp ≫= parse code_prec) = Some expr_tree ∧
  ok_astb s expr_tree = true ∧ ast_refs expr_tree = [10%Z] ∧
  refc s !! 10%positive = Some 1 ∧ indeg (succ s) 10%positive = 0 ∧
  rctx s = false ∧ last_len s = Some 100 ∧
  (* the 9th request is the second one inside [quantify]: the conjunction
     [@10 /\ v1] (7 requests) has been built as the unheld node 12 *)
  (let '(r1, s1) := eval_ast (AOp2 "&" (ANum 10) (AVar "v1"))
                      (s <| trig := Some 9 |> <| rctx := true |>) in
   r1 = Ok 12%Z ∧ trig s1 = Some 2) ∧
  (* both calls succeed; with the trigger the request fired, sifting moved v2
     to the top, requests are on again, the context flag is off *)
  rA = Ok 11%Z ∧ rB = Ok 12%Z ∧
  map_to_list (vars sA) = map_to_list (vars s) ∧
  vars s !! 2 = Some 2 ∧ vars sB !! 2 = Some 0 ∧
  trig sB = None ∧ last_len sA = Some 100 ∧ last_len sB = Some 18 ∧ rctx sB = false ∧
  (* the same function by name, which is the reading [asem] of the tree *)
  table 4 sB (zval rB) = table 4 sA (zval rA) ∧
  table 4 sB (zval rB) = Some (asem s expr_tree <$> envs 4) ∧
  (* the held references keep number and meaning *)
  forallb (fun u => bool_decide (table 4 sB (Ok (VZ u)) = table 4 s (Ok (VZ u))))
          [2; 3; 4; 5; 6; 7; 10]%Z = true ∧
  (* every trigger point (the call makes 11 requests) *)
  forallb (fun k => let '(r, s') := expr_run (Some k) in
                    bool_decide (table 4 s' (zval r) = table 4 sA (zval rA)) &&
                    bool_decide (trig s' = None) && bool_decide (vars s' !! 2 = Some 0))
          (seq 1 11) = true ∧
  fst (expr_run (Some 12)) = Ok 11%Z ∧ trig (snd (expr_run (Some 12))) = Some 1.
Proof. vm_compute. by split_and!. Qed.

(** ** the hypotheses of [add_expr_dynamic] hold in the states of
    [add_expr_dynamic_example] (for every value [k] of the forced trigger):
    the ledger is 1 on the terminal and on the held nodes 2..7, 10 *)
Definition dyn_ledger (n : positive) : nat :=
  if bool_decide (n ∈ [1; 2; 3; 4; 5; 6; 7; 10]%positive) then 1 else 0.

Lemma Counts_by_computation s (held : list positive) (L : positive → nat) :
  (∀ n, n ∉ held → L n = 0) →
  forallb (fun n => bool_decide (is_Some (succ s !! n))) held = true →
  forallb (fun nt => bool_decide (refc s !! nt.1 = Some (indeg (succ s) nt.1 + L nt.1)))
          (map_to_list (succ s)) = true →
  Counts s L.
Proof.
  intros H0 Hh Hm. split.
  - intros n [t Ht]%elem_of_dom.
    assert (Hin : In (n, t) (map_to_list (succ s))) by (by apply elem_of_list_In, elem_of_map_to_list).
    apply (proj1 (forallb_forall _ _) Hm) in Hin. by apply bool_decide_eq_true in Hin.
  - intros n Hn. apply H0. intros Hin. apply Hn, elem_of_dom.
    apply elem_of_list_In in Hin. apply (proj1 (forallb_forall _ _) Hh) in Hin.
    by apply bool_decide_eq_true in Hin.
Qed.

Definition dyn_tail : list op :=
    [OVar 0; OIncref 2; OVar 1; OIncref 3; OVar 2; OIncref 4; OVar 3; OIncref 5;
     OApply "and" 2 (Some 4%Z) None; OIncref 6;
     OApply "and" 3 (Some 5%Z) None; OIncref 7;
     OApply "or" 6 (Some 7%Z) None; OIncref 10;
     OConfigure (Some true)].
Lemma dyn_history_good0 : GoodD (world_get (Total.run world_empty 0 (ONew [(0, 0); (1, 1); (2, 2); (3, 3)] :: dyn_tail)) 0).
Proof.
  apply run_goodD_from_new.
    - by vm_compute.
    - cbn [dyn_tail hist_okD allowedD is_new caller_ok]. repeat split.
Qed.
Lemma run_ops_run l : run_ops l = Total.run world_empty 0 l.
Proof. reflexivity. Qed.
Lemma dyn_history_eq : dyn_history = ONew [(0, 0); (1, 1); (2, 2); (3, 3)] :: dyn_tail.
Proof. reflexivity. Qed.
Lemma dyn_history_good : GoodD (world_get (run_ops dyn_history) 0).
Proof. rewrite run_ops_run, dyn_history_eq. exact dyn_history_good0. Qed.

(** the hypotheses for an abstract state, reduced to boolean checks *)
Lemma add_expr_hypotheses_by_computation s (k : option nat) :
  GoodD s →
  forallb (fun n => bool_decide (is_Some (succ s !! n))) [1; 2; 3; 4; 5; 6; 7; 10]%positive = true →
  forallb (fun nt => bool_decide (refc s !! nt.1 = Some (indeg (succ s) nt.1 + dyn_ledger nt.1)))
          (map_to_list (succ s)) = true →
  max_nodes s = None →
  ok_astb s expr_tree = true →
  let sk := s <| trig := k |> in
  Inv sk ∧ Counts sk dyn_ledger ∧ rctx sk = false ∧ max_nodes sk = None ∧
  (lex expr_sp ≫= parse code_prec) = Some expr_tree ∧
  ok_ast sk expr_tree ∧ refs_in (heldn dyn_ledger) expr_tree.
Proof.
  intros (HI&Hc&_&_) H1 H2 Hmx Hok sk.
  assert (Hsame : same_tables s sk) by (by repeat split).
  split; [by apply (Inv_same s)|].
  split.
  { apply (Counts_same s); [done|done|].
    apply (Counts_by_computation s [1; 2; 3; 4; 5; 6; 7; 10]%positive dyn_ledger).
    all: try done.
    intros n Hn. unfold dyn_ledger. by rewrite bool_decide_false. }
  split; [done|]. split; [done|]. split; [by vm_compute|].
  split; [by apply ok_astb_ok|].
  apply Forall_cons. split; [|by apply Forall_nil].
  right. by vm_compute.
Qed.

Example add_expr_dynamic_example_hypotheses :
  let s := world_get (run_ops dyn_history) 0 in
  ∀ k : option nat, let sk := s <| trig := k |> in
  Inv sk ∧ Counts sk dyn_ledger ∧ rctx sk = false ∧ max_nodes sk = None ∧
  (lex expr_sp ≫= parse code_prec) = Some expr_tree ∧
  ok_ast sk expr_tree ∧ refs_in (heldn dyn_ledger) expr_tree.
Proof.
  intros s k. apply (add_expr_hypotheses_by_computation s k).
  - exact dyn_history_good.
  - by vm_compute.
  - by vm_compute.
  - by vm_compute.
  - by vm_compute.
Qed.
Print Assumptions add_expr_dynamic_example_hypotheses.
