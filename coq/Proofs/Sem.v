(** * Sem: denotation of references, the invariant [Inv] ("reduced, ordered,
      shared" re-stated independently of [assert_consistent]), extension of
      managers, and canonicity. *)
From DD Require Export Driver.

(** ** Denotation.  [a] assigns a Boolean to every level. *)
Fixpoint den (fuel : nat) (s : st) (u : Z) (a : nat -> bool) : bool :=
  match fuel with
  | O => false
  | S f =>
      let b := match succ s !! absn u with
               | None => false
               | Some t =>
                   if decide (t_lo t = 0%Z) then true
                   else if a (t_lvl t) then den f s (t_hi t) a
                        else den f s (t_lo t) a
               end in
      if decide (u < 0)%Z then negb b else b
  end.

(** the denotation with enough fuel *)
Definition D (s : st) (u : Z) (a : nat -> bool) : bool := den (S (nvars s)) s u a.
Global Arguments D : simpl never.

(** denotation by variable name: the observation of every property
    ("walking succ() under every assignment") *)
Definition denv (s : st) (u : Z) (ρ : nat -> bool) : bool :=
  D s u (fun l => match lvl2var s !! l with Some v => ρ v | None => false end).

Definition valid (s : st) (u : Z) : Prop := u ≠ 0%Z ∧ is_Some (succ s !! absn u).

Record Inv (s : st) : Prop := {
  inv_term : succ s !! 1%positive = Some (tterm (nvars s));
  inv_node : ∀ n t, succ s !! n = Some t → n ≠ 1%positive →
     t_lvl t < nvars s ∧ valid s (t_lo t) ∧ (0 < t_hi t)%Z ∧ valid s (t_hi t) ∧
     t_lvl t < lvl_of s (t_lo t) ∧ t_lvl t < lvl_of s (t_hi t) ∧ t_lo t ≠ t_hi t;
  inv_pred : ∀ n t, succ s !! n = Some t ↔ pred s !! t = Some n;
  inv_free : succ s !! min_free s = None ∧
             ∀ k, (k < min_free s)%positive → is_Some (succ s !! k);
  inv_ref : dom (refc s) = dom (succ s);
  inv_ite : ∀ g u v w, ite_tab s !! (g, u, v) = Some w →
     valid s g ∧ valid s u ∧ valid s v ∧ valid s w ∧
     lvl_of s g `min` lvl_of s u `min` lvl_of s v ≤ lvl_of s w ∧
     ∀ a, D s w a = if D s g a then D s u a else D s v a;
  inv_vars : ∀ v l, vars s !! v = Some l ↔ lvl2var s !! l = Some v;
  inv_lvls : ∀ l, l < nvars s ↔ is_Some (lvl2var s !! l);
}.

(** [s'] has at least the nodes of [s], and the same variable order *)
Definition extends (s s' : st) : Prop :=
  succ s ⊆ succ s' ∧ vars s = vars s' ∧ lvl2var s = lvl2var s'.

Global Instance extends_refl : Reflexive extends.
Proof. by intros s. Qed.
Global Instance extends_trans : Transitive extends.
Proof.
  intros s1 s2 s3 (?&?&?) (?&?&?). split_and!; [by etrans|congruence..].
Qed.
Lemma extends_nvars s s' : extends s s' → nvars s' = nvars s.
Proof. intros (_&E&_). unfold nvars. by rewrite E. Qed.

Definition upd (a : nat -> bool) (i : nat) (b : bool) : nat -> bool :=
  fun j => if decide (j = i) then b else a j.
Lemma upd_other a i b j : j ≠ i → upd a i b j = a j.
Proof. intros. unfold upd. by rewrite decide_False. Qed.
Lemma upd_same a i b : upd a i b i = b.
Proof. unfold upd. by rewrite decide_True. Qed.

Lemma absn_neg u : absn (- u) = absn u.
Proof. unfold absn. by rewrite Z.abs_opp. Qed.
Lemma absn_pos p : absn (Z.pos p) = p.
Proof. done. Qed.
Lemma absn_negp p : absn (Z.neg p) = p.
Proof. done. Qed.
Lemma absn_1 u : absn u = 1%positive → u ≠ 0%Z → u = 1%Z ∨ u = (-1)%Z.
Proof. unfold absn. intros. lia. Qed.

Lemma valid_neg s u : valid s u → valid s (- u).
Proof. intros [? ?]. split; [lia|]. by rewrite absn_neg. Qed.
Lemma lvl_neg s u : lvl_of s (- u) = lvl_of s u.
Proof. unfold lvl_of. by rewrite absn_neg. Qed.
Lemma valid_extends s s' u : extends s s' → valid s u → valid s' u.
Proof.
  intros (Hsub&_) [? [t Ht]]. split; [done|].
  exists t. by eapply lookup_weaken.
Qed.
Lemma lvl_extends s s' u : extends s s' → valid s u → lvl_of s' u = lvl_of s u.
Proof.
  intros (Hsub&_) [? [t Ht]]. unfold lvl_of.
  by rewrite Ht, (lookup_weaken _ _ _ _ Ht Hsub).
Qed.
Lemma mem_valid s u : mem u s = true ↔ valid s u.
Proof. unfold mem, valid. by rewrite bool_decide_eq_true. Qed.

Section sem.
Context (s : st) (HI : Inv s).

Lemma valid_1 : valid s 1.
Proof. split; [done|]. rewrite absn_pos, (inv_term _ HI). by eexists. Qed.
Lemma valid_m1 : valid s (-1).
Proof. split; [done|]. rewrite absn_negp, (inv_term _ HI). by eexists. Qed.
Lemma lvl_term u : absn u = 1%positive → lvl_of s u = nvars s.
Proof. intros E. unfold lvl_of. by rewrite E, (inv_term _ HI). Qed.

Lemma node_cases u : valid s u →
  (absn u = 1%positive ∧ lvl_of s u = nvars s) ∨
  (∃ t, succ s !! absn u = Some t ∧ absn u ≠ 1%positive ∧ t_lo t ≠ 0%Z ∧
        lvl_of s u = t_lvl t ∧ t_lvl t < nvars s ∧
        valid s (t_lo t) ∧ valid s (t_hi t) ∧ (0 < t_hi t)%Z ∧
        t_lvl t < lvl_of s (t_lo t) ∧ t_lvl t < lvl_of s (t_hi t) ∧
        t_lo t ≠ t_hi t).
Proof.
  intros [Hu [t Ht]]. destruct (decide (absn u = 1%positive)) as [E|E].
  - left. split; [done|]. by apply lvl_term.
  - right. exists t. destruct (inv_node _ HI _ _ Ht E) as (?&Hvl&?&Hvh&?&?&?).
    unfold lvl_of at 1. rewrite Ht. split_and!; try done. apply Hvl.
Qed.

Lemma lvl_le u : valid s u → lvl_of s u ≤ nvars s.
Proof.
  intros Hv. destruct (node_cases u Hv) as [[_ ?]|(t&?&?&?&?&?&_)]; lia.
Qed.

Lemma den_step f u a t : succ s !! absn u = Some t → t_lo t ≠ 0%Z →
  den (S f) s u a = xorb (bool_decide (u < 0)%Z)
     (if a (t_lvl t) then den f s (t_hi t) a else den f s (t_lo t) a).
Proof.
  intros Ht Hlo. cbn [den]. rewrite Ht.
  destruct (decide (t_lo t = 0%Z)) as [?|_]; [done|].
  case_decide; case_bool_decide; try lia; by destruct (if a _ then _ else _).
Qed.

Lemma den_term f u a : absn u = 1%positive →
  den (S f) s u a = negb (bool_decide (u < 0)%Z).
Proof.
  intros E. cbn [den]. rewrite E, (inv_term _ HI). cbn.
  case_decide; case_bool_decide; try lia; done.
Qed.

Definition need (u : Z) : nat := S (nvars s - lvl_of s u).

Lemma den_fuel f1 f2 u a : valid s u → need u ≤ f1 → need u ≤ f2 →
  den f1 s u a = den f2 s u a.
Proof.
  revert f2 u. induction f1 as [|f1 IH]; intros f2 u Hv H1 H2;
    [unfold need in *; lia|].
  destruct f2 as [|f2]; [unfold need in *; lia|].
  destruct (node_cases u Hv) as [[E _]|(t&Ht&?&Hlo&Hl&?&Hvl&Hvh&?&Hll&Hlh&?)].
  - by rewrite !den_term.
  - rewrite !(den_step _ _ _ _ Ht Hlo). f_equal.
    unfold need in *. destruct (a (t_lvl t)); apply IH; try done; lia.
Qed.

Lemma D_term u a : absn u = 1%positive → D s u a = negb (bool_decide (u < 0)%Z).
Proof. apply den_term. Qed.
Lemma D_1 a : D s 1 a = true.
Proof. by rewrite D_term. Qed.
Lemma D_m1 a : D s (-1) a = false.
Proof. by rewrite D_term. Qed.

Lemma D_step u a t : valid s u → succ s !! absn u = Some t → absn u ≠ 1%positive →
  D s u a = xorb (bool_decide (u < 0)%Z)
              (if a (t_lvl t) then D s (t_hi t) a else D s (t_lo t) a).
Proof.
  intros Hv Ht Hn.
  destruct (node_cases u Hv) as [[E _]|(t'&Ht'&?&Hlo&Hl&?&Hvl&Hvh&?&Hll&Hlh&?)];
    [done|].
  simplify_eq. unfold D. rewrite (den_step _ _ _ _ Ht Hlo). f_equal.
  destruct (a (t_lvl t)); apply den_fuel; try done; unfold need; lia.
Qed.

Lemma D_neg u a : valid s u → D s (- u) a = negb (D s u a).
Proof.
  intros Hv. destruct (node_cases u Hv) as [[E _]|(t&Ht&?&Hlo&?)].
  - rewrite !D_term by (by rewrite ?absn_neg). destruct Hv.
    repeat case_bool_decide; try lia; done.
  - rewrite (D_step (-u) a t), (D_step u a t); try done;
      try (by rewrite absn_neg); [|by apply valid_neg].
    destruct Hv. repeat case_bool_decide; try lia;
      by destruct (if a _ then _ else _).
Qed.

Lemma D_flip r u a : valid s r → D s (flip r u) a = xorb (bool_decide (u < 0)%Z) (D s r a).
Proof.
  intros Hv. unfold flip. destruct (decide (u < 0)%Z); case_bool_decide; try lia.
  - by rewrite D_neg.
  - by destruct (D s r a).
Qed.

Lemma D_indep u a b : valid s u → (∀ j, lvl_of s u ≤ j → a j = b j) →
  D s u a = D s u b.
Proof.
  remember (nvars s - lvl_of s u) as k eqn:Hk. revert u Hk.
  induction (lt_wf k) as [k _ IH]. intros u Hk Hv Hab.
  destruct (node_cases u Hv) as [[E _]|(t&Ht&?&Hlo&Hl&?&Hvl&Hvh&?&Hll&Hlh&?)].
  - by rewrite !D_term.
  - rewrite (D_step u a t), (D_step u b t) by done. f_equal.
    rewrite <- (Hab (t_lvl t)) by lia.
    destruct (a (t_lvl t)).
    + eapply (IH (nvars s - lvl_of s (t_hi t))); try done; [lia|].
      intros; apply Hab; lia.
    + eapply (IH (nvars s - lvl_of s (t_lo t))); try done; [lia|].
      intros; apply Hab; lia.
Qed.

(** only the levels of declared variables matter *)
Lemma D_indep_lt u a b : valid s u → (∀ j, j < nvars s → a j = b j) →
  D s u a = D s u b.
Proof.
  remember (nvars s - lvl_of s u) as k eqn:Hk. revert u Hk.
  induction (lt_wf k) as [k _ IH]. intros u Hk Hv Hab.
  destruct (node_cases u Hv) as [[E _]|(t&Ht&?&Hlo&Hl&?&Hvl&Hvh&?&Hll&Hlh&?)].
  - by rewrite !D_term.
  - rewrite (D_step u a t), (D_step u b t) by done. f_equal.
    rewrite <- (Hab (t_lvl t)) by lia.
    destruct (a (t_lvl t)).
    + eapply (IH (nvars s - lvl_of s (t_hi t))); try done. lia.
    + eapply (IH (nvars s - lvl_of s (t_lo t))); try done. lia.
Qed.

Lemma D_upd_above u a i b : valid s u → i < lvl_of s u →
  D s u (upd a i b) = D s u a.
Proof. intros. apply D_indep; [done|]. intros. apply upd_other. lia. Qed.

(** a positive reference is true under the all-true assignment *)
Lemma D_all_true u : valid s u → D s u (fun _ => true) = bool_decide (0 < u)%Z.
Proof.
  remember (nvars s - lvl_of s u) as k eqn:Hk. revert u Hk.
  induction (lt_wf k) as [k _ IH]. intros u Hk Hv.
  destruct (node_cases u Hv) as [[E _]|(t&Ht&?&Hlo&Hl&?&Hvl&Hvh&?&Hll&Hlh&?)].
  - rewrite D_term by done. destruct Hv. repeat case_bool_decide; try lia; done.
  - rewrite (D_step u _ t) by done. cbv beta iota.
    rewrite (IH (nvars s - lvl_of s (t_hi t))); try done; [|lia].
    destruct Hv. repeat case_bool_decide; try lia; done.
Qed.

Lemma canonical_aux k : ∀ u v, valid s u → valid s v →
  nvars s - k ≤ lvl_of s u → nvars s - k ≤ lvl_of s v →
  (∀ a, D s u a = D s v a) → u = v.
Proof.
  induction k as [|k IH]; intros u v Hu Hv Lu Lv Heq.
  - destruct (node_cases u Hu) as [[Eu _]|(t&?&?&?&Hl&?&_)]; [|lia].
    destruct (node_cases v Hv) as [[Ev _]|(t&?&?&?&Hl&?&_)]; [|lia].
    specialize (Heq (fun _ => false)). rewrite !D_term in Heq by done.
    destruct Hu, Hv. unfold absn in *.
    repeat case_bool_decide; try done; lia.
  - (* a node strictly above the other operand cannot denote the same function *)
    assert (Habove : ∀ u v, valid s u → valid s v →
               nvars s - S k ≤ lvl_of s u → lvl_of s u < lvl_of s v →
               (∀ a, D s u a = D s v a) → False).
    { clear u v Hu Hv Lu Lv Heq. intros u v Hu Hv Lu Luv Heq.
      destruct (node_cases u Hu) as [[Eu El]|(t&Ht&Hn&Hlo&Hl&?&Hvl&Hvh&?&Hll&Hlh&Hne)].
      { pose proof (lvl_le v Hv). lia. }
      apply Hne. apply IH; try done; try lia. intros a.
      pose proof (Heq (upd a (t_lvl t) true)) as HA1.
      pose proof (Heq (upd a (t_lvl t) false)) as HA0.
      rewrite (D_step u (upd a (t_lvl t) true) t) in HA1 by done.
      rewrite (D_step u (upd a (t_lvl t) false) t) in HA0 by done.
      rewrite upd_same in HA1, HA0.
      rewrite (D_upd_above v) in HA1 by first [done | lia].
      rewrite (D_upd_above v) in HA0 by first [done | lia].
      rewrite (D_upd_above (t_hi t)) in HA1 by first [done | lia].
      rewrite (D_upd_above (t_lo t)) in HA0 by first [done | lia].
      destruct (D s (t_lo t) a), (D s (t_hi t) a), (D s v a),
        (bool_decide (u < 0)%Z); done. }
    destruct (lt_eq_lt_dec (lvl_of s u) (lvl_of s v)) as [[Hlt|Heql]|Hgt].
    + exfalso. by apply (Habove u v).
    + destruct (node_cases u Hu) as [[Eu El]|(t&Ht&Hn&Hlo&Hl&?&Hvl&Hvh&Hhp&Hll&Hlh&Hne)];
      destruct (node_cases v Hv) as [[Ev El']|(t'&Ht'&Hn'&Hlo'&Hl'&?&Hvl'&Hvh'&Hhp'&Hll'&Hlh'&Hne')]; try lia.
      * specialize (Heq (fun _ => false)). rewrite !D_term in Heq by done.
        destruct Hu, Hv. unfold absn in *. repeat case_bool_decide; try done; lia.
      * assert (Ei : t_lvl t = t_lvl t') by lia.
        set (σu := bool_decide (u < 0)%Z). set (σv := bool_decide (v < 0)%Z).
        set (su := if σu then (-1)%Z else 1%Z). set (sv := if σv then (-1)%Z else 1%Z).
        assert (Hmul : ∀ (σ : bool) x, valid s x →
                  valid s ((if σ then -1 else 1) * x)%Z ∧
                  lvl_of s ((if σ then -1 else 1) * x)%Z = lvl_of s x ∧
                  ∀ a, D s ((if σ then -1 else 1) * x)%Z a = xorb σ (D s x a)).
        { intros σ x Hx. destruct σ.
          - replace (-1 * x)%Z with (- x)%Z by lia.
            split_and!; [by apply valid_neg|by rewrite lvl_neg|].
            intros a. by rewrite D_neg.
          - rewrite Z.mul_1_l. split_and!; try done. intros a. by destruct (D s x a). }
        assert (Hhi : (su * t_hi t = sv * t_hi t')%Z).
        { destruct (Hmul σu _ Hvh) as (?&Hl1&HD1), (Hmul σv _ Hvh') as (?&Hl2&HD2).
          apply IH; try done; try (subst su sv; rewrite ?Hl1, ?Hl2; lia).
          intros a. subst su sv. rewrite HD1, HD2.
          pose proof (Heq (upd a (t_lvl t) true)) as HQ.
          rewrite (D_step u _ t), (D_step v _ t') in HQ by done.
          rewrite <- Ei in HQ. rewrite !upd_same in HQ.
          rewrite (D_upd_above (t_hi t)) in HQ by first [done | lia].
          rewrite (D_upd_above (t_hi t')) in HQ by first [done | lia].
          done. }
        assert (Hlow : (su * t_lo t = sv * t_lo t')%Z).
        { destruct (Hmul σu _ Hvl) as (?&Hl1&HD1), (Hmul σv _ Hvl') as (?&Hl2&HD2).
          apply IH; try done; try (subst su sv; rewrite ?Hl1, ?Hl2; lia).
          intros a. subst su sv. rewrite HD1, HD2.
          pose proof (Heq (upd a (t_lvl t) false)) as HQ.
          rewrite (D_step u _ t), (D_step v _ t') in HQ by done.
          rewrite <- Ei in HQ. rewrite !upd_same in HQ.
          rewrite (D_upd_above (t_lo t)) in HQ by first [done | lia].
          rewrite (D_upd_above (t_lo t')) in HQ by first [done | lia].
          done. }
        assert (su = sv ∧ t_hi t = t_hi t') as [Es Eh]
          by (subst su sv; destruct σu, σv; lia).
        assert (t_lo t = t_lo t') as El0
          by (rewrite Es in Hlow; subst sv; destruct σv; lia).
        assert (t = t') as -> by (destruct t, t'; cbn in *; congruence).
        assert (absn u = absn v) as Eabs.
        { apply (inv_pred _ HI) in Ht. apply (inv_pred _ HI) in Ht'. congruence. }
        subst su sv σu σv. destruct Hu as [Hu0 _], Hv as [Hv0 _]. unfold absn in Eabs.
        repeat case_bool_decide; try done; lia.
    + exfalso. apply (Habove v u); try done; try lia.
Qed.

(** ** Canonicity *)
Theorem canonical_levels u v : valid s u → valid s v →
  (∀ a, D s u a = D s v a) → u = v.
Proof.
  intros Hu Hv. apply (canonical_aux (nvars s)); try done; lia.
Qed.

(** by variable names *)
Theorem canonical_names u v : valid s u → valid s v →
  (∀ ρ, denv s u ρ = denv s v ρ) → u = v.
Proof.
  intros Hu Hv Heq. apply canonical_levels; try done. intros a.
  set (ρ := fun x => match vars s !! x with Some l => a l | None => false end).
  specialize (Heq ρ). unfold denv in Heq.
  rewrite (D_indep_lt u a (fun l => match lvl2var s !! l with Some x => ρ x | None => false end)),
          (D_indep_lt v a (fun l => match lvl2var s !! l with Some x => ρ x | None => false end));
    try done.
  all: intros j Hj; apply (inv_lvls _ HI) in Hj as [x Hx]; rewrite Hx; subst ρ; cbn;
    apply (inv_vars _ HI) in Hx; by rewrite Hx.
Qed.

End sem.

(** denotations are stable when the manager grows *)
Lemma den_extends f s s' u a :
  extends s s' → Inv s → valid s u → den f s' u a = den f s u a.
Proof.
  intros [Hsub Hn] HI. revert u. induction f as [|f IH]; intros u Hv; [done|].
  cbn [den]. destruct Hv as [Hu0 [t Ht]]. rewrite Ht.
  rewrite (lookup_weaken _ _ _ _ Ht Hsub).
  destruct (decide (t_lo t = 0%Z)) as [|Hlo]; [done|].
  assert (absn u ≠ 1%positive) as Hn1.
  { intros E. rewrite E in Ht. rewrite (inv_term _ HI) in Ht. by simplify_eq. }
  destruct (inv_node _ HI _ _ Ht Hn1) as (? & Hvl & ? & Hvh & _).
  rewrite !IH by done. done.
Qed.

Lemma D_extends s s' u a :
  extends s s' → Inv s → valid s u → D s' u a = D s u a.
Proof.
  intros He HI Hv. unfold D. rewrite (extends_nvars _ _ He).
  by apply den_extends.
Qed.

(** ** Only the tables matter *)
Definition same_tables (s s' : st) : Prop :=
  succ s' = succ s ∧ pred s' = pred s ∧ dom (refc s') = dom (refc s) ∧
  min_free s' = min_free s ∧ ite_tab s' = ite_tab s ∧
  vars s' = vars s ∧ lvl2var s' = lvl2var s.

Lemma den_same f s s' u a : succ s' = succ s → den f s' u a = den f s u a.
Proof.
  intros E. revert u. induction f as [|f IH]; intros u; [done|].
  cbn [den]. rewrite E. destruct (succ s !! absn u) as [t|]; [|done].
  by rewrite !IH.
Qed.
Lemma D_same s s' u a : succ s' = succ s → vars s' = vars s → D s' u a = D s u a.
Proof. intros E1 E2. unfold D, nvars. rewrite E2. by apply den_same. Qed.

Lemma Inv_same s s' : same_tables s s' → Inv s → Inv s'.
Proof.
  intros (E1&E2&E3&E4&E5&E6&E7) [].
  assert (Hnv : nvars s' = nvars s) by (unfold nvars; by rewrite E6).
  assert (Hval : ∀ u, valid s' u ↔ valid s u) by (intros; unfold valid; by rewrite E1).
  assert (Hlvl : ∀ u, lvl_of s' u = lvl_of s u) by (intros; unfold lvl_of; by rewrite E1).
  split.
  - by rewrite E1, Hnv.
  - intros n t Hn Hn1. rewrite E1 in Hn. rewrite Hnv, !Hval, !Hlvl. by eapply inv_node0.
  - intros n t. by rewrite E1, E2.
  - by rewrite E1, E4.
  - by rewrite E1, E3.
  - intros g u v w Hi. rewrite E5 in Hi. rewrite !Hval.
    destruct (inv_ite0 _ _ _ _ Hi) as (?&?&?&?&?&HD). rewrite !Hlvl. split_and!; try done.
    intros a. rewrite !(D_same s s') by done. apply HD.
  - intros v l. by rewrite E6, E7.
  - intros l. rewrite Hnv, E7. apply inv_lvls0.
Qed.
