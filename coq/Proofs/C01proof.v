(** * C01proof: the statements of property C01 assembled *)
From DD Require Export ApplyVocab.
Local Open Scope string_scope.

(** denotation of an optional operand (absent operands read as [false]; the
    connective of a unary/binary symbol ignores them) *)
Definition odenv (s : st) (o : option Z) (ρ : nat → bool) : bool :=
  match o with Some x => denv s x ρ | None => false end.

Lemma denv_extends s s' u ρ : extends s s' → Inv s → valid s u → denv s' u ρ = denv s u ρ.
Proof.
  intros He HI Hv. unfold denv. destruct He as (?&?&El). rewrite <- El.
  apply D_extends; try done.
Qed.

Lemma ite_correct_lemma s g u v r s' :
  Inv s → valid s g → valid s u → valid s v → last_len s = None →
  max_nodes s = None →
  ite g u v s = (r, s') →
  ∃ w, r = Ok w ∧ Inv s' ∧ extends s s' ∧ valid s' w ∧
    (∀ x ρ, valid s x → denv s' x ρ = denv s x ρ) ∧
    ∀ ρ, denv s' w ρ = if denv s g ρ then denv s u ρ else denv s v ρ.
Proof.
  intros HI Hg Hu Hv Hoff Hmx Hrun.
  apply ite_spec_off in Hrun as (w&->&HI'&He&Hf&Hw&HD); try done.
  exists w. split_and!; try done.
  - intros x ρ Hx. by apply denv_extends.
  - intros ρ. unfold denv. rewrite HD. destruct He as (_&_&El). by rewrite <- El.
Qed.

(** unary symbols ignore the other operands, binary ones the third *)
Lemma conn_unary op f : conn_sem op = Some f → op ∈ py_unary →
  ∀ b1 b2 b3 c2 c3, f b1 b2 b3 = f b1 c2 c3.
Proof.
  intros Hf Hop. unfold py_unary in Hop.
  repeat (apply elem_of_cons in Hop as [->|Hop]; [vm_compute in Hf; by simplify_eq|]).
  by apply elem_of_nil in Hop.
Qed.
Lemma conn_binary op f : conn_sem op = Some f → op ∈ py_binary →
  ∀ b1 b2 b3 c3, f b1 b2 b3 = f b1 b2 c3.
Proof.
  intros Hf Hop. unfold py_binary in Hop.
  repeat (apply elem_of_cons in Hop as [->|Hop]; [vm_compute in Hf; by simplify_eq|]).
  by apply elem_of_nil in Hop.
Qed.

Lemma apply_correct_lemma s op u v w r s' f :
  Inv s → last_len s = None → max_nodes s = None →
  op ∈ py_vocab → conn_sem op = Some f →
  valid s u → ovalid s v → ovalid s w → arity_ok op v w = true →
  apply op u v w s = (r, s') →
  ∃ x, r = Ok x ∧ Inv s' ∧ extends s s' ∧ valid s' x ∧
    (∀ y ρ, valid s y → denv s' y ρ = denv s y ρ) ∧
    ∀ ρ, denv s' x ρ = f (denv s u ρ) (odenv s v ρ) (odenv s w ρ).
Proof.
  intros HI Hoff Hmx Hop Hf Hu Hv Hw Har Hrun.
  pose proof alias_table_ok as Htab. rewrite forallb_forall in Htab.
  apply elem_of_list_In in Hop. specialize (Htab op Hop). apply elem_of_list_In in Hop.
  apply orb_true_iff in Htab as [Hq|Hok].
  { exfalso. apply bool_decide_eq_true in Hq. unfold quantifier_ops in Hq.
    repeat (apply elem_of_cons in Hq as [->|Hq]; [by vm_compute in Hf|]).
    by apply elem_of_nil in Hq. }
  unfold class_uses_ok in Hok.
  destruct (find_template py_apply_table op) as [t|] eqn:Ht; [|done].
  destruct (template_uses t) as [uv uw] eqn:Hus.
  apply andb_true_iff in Hok as [Hcl Hsem]. rewrite Hf in Hsem.
  rewrite forallb_forall in Hsem.
  assert (Hsem' : ∀ b1 b2 b3, template_sem t b1 b2 b3 = Some (f b1 b2 b3)).
  { intros b1 b2 b3.
    pose proof (Hsem (b1, b2, b3) (proj1 (elem_of_list_In _ _) (bools3_all b1 b2 b3))) as H.
    by apply bool_decide_eq_true in H. }
  clear Hsem.
  destruct py_table_is_model_table as (Etab&Eu&Eb&Et).
  unfold apply in Hrun. rewrite <- Etab in Hrun.
  unfold arity_ok in Har. rewrite <- Eu, <- Eb, <- Et in Har.
  assert (Hav : avail (template_uses t) v w).
  { rewrite Hus. unfold avail. cbn.
    destruct (bool_decide (op ∈ py_unary)).
    - apply andb_true_iff in Hcl as [?%negb_true_iff ?%negb_true_iff]. split; congruence.
    - destruct (bool_decide (op ∈ py_binary)).
      + apply negb_true_iff in Hcl. apply bool_decide_eq_true in Har as [? ?]. split; congruence.
      + rewrite Hcl in Har. apply bool_decide_eq_true in Har as [? ?]. by split. }
  assert (Hnq : ∀ fa a b, t ≠ TQuant fa a b).
  { intros fa a b ->. by specialize (Hsem' true true true). }
  assert (Har' : arity_ok op v w = true).
  { unfold arity_ok. by rewrite <- Eu, <- Eb, <- Et. }
  destruct (apply_with_spec py_apply_table op u v w s t r s' HI Hoff Hmx Hu Hv Hw Har' Ht Hav Hnq Hrun)
    as (x&Er&HI'&He&Hfr&Hx&HD). subst r.
  exists x. split_and!; try done.
  - intros y ρ Hy. by apply denv_extends.
  - intros ρ. unfold denv at 1. destruct He as (_&_&El). rewrite <- El.
    set (a := fun l => match lvl2var s !! l with Some v0 => ρ v0 | None => false end).
    specialize (HD a).
    rewrite Hsem' in HD.
    injection HD as ->. fold (denv s u ρ).
    destruct (bool_decide (op ∈ py_unary)) eqn:Hcu.
    + apply bool_decide_eq_true in Hcu. apply (conn_unary op f Hf Hcu).
    + destruct (bool_decide (op ∈ py_binary)) eqn:Hcb.
      * apply bool_decide_eq_true in Hcb, Har. destruct Har as [Hvn ->].
        destruct v as [v|]; [|done]. cbn [default odenv]. fold (denv s v ρ).
        apply (conn_binary op f Hf Hcb).
      * rewrite Hcl in Har. apply bool_decide_eq_true in Har as [? ?].
        destruct v as [v|], w as [w|]; done.
Qed.
