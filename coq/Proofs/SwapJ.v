(** * SwapJ: [_levels()] is exact; [swap] with [all_levels=None] and with its
      arguments in either order *)
From DD Require Export Swap.

(** ** [_levels()] *)
Definition lev_body (acc : levels_t) (p : positive * triple) : MS levels_t :=
  let '(u, t) := p in
  match acc !! t_lvl t with
  | None => raise EKey
  | Some X => ret (<[t_lvl t := X ∪ {[u]}]> acc)
  end.

Lemma lev_fold s : ∀ (l : list (positive * triple)) (acc : gmap nat (gset positive)),
  (∀ u t, (u, t) ∈ l → is_Some (acc !! t_lvl t)) →
  ∃ acc' : gmap nat (gset positive), foldM lev_body acc l s = (Ok acc', s) ∧
    ∀ lv, (acc' !! lv = None ↔ acc !! lv = None) ∧
      ∀ X', acc' !! lv = Some X' → ∃ X, acc !! lv = Some X ∧
        ∀ n, n ∈ X' ↔ n ∈ X ∨ ∃ t, (n, t) ∈ l ∧ t_lvl t = lv.
Proof.
  induction l as [|[u t] l IH]; intros acc Hl.
  - exists acc. split; [done|]. intros lv. split; [done|]. intros X' HX'. exists X'.
    split; [done|]. intros n. split; [by left|]. intros [?|(?&H&_)]; [done|].
    by apply elem_of_nil in H.
  - destruct (Hl u t ltac:(left)) as [X HX]. cbn [foldM].
    assert (Hb : lev_body acc (u, t) s = (Ok (<[t_lvl t := X ∪ {[u]}]> acc), s)).
    { unfold lev_body. unfold levels_t. by rewrite HX. }
    rewrite (bind_ok _ _ _ _ _ Hb).
    destruct (IH (<[t_lvl t := X ∪ {[u]}]> acc)) as (acc'&Hrun&Hacc).
    { intros u' t' Hin. destruct (decide (t_lvl t' = t_lvl t)) as [->|Hne].
      - rewrite lookup_insert. eauto.
      - rewrite lookup_insert_ne by done. apply (Hl u' t'). by right. }
    exists acc'. split; [exact Hrun|]. intros lv. destruct (Hacc lv) as [HN HS].
    destruct (decide (lv = t_lvl t)) as [->|Hne].
    + rewrite lookup_insert in HN, HS. split.
      * rewrite HN. split; [done|]. congruence.
      * intros X' HX'. destruct (HS X' HX') as (X0&[= <-]&HX0). exists X. split; [done|].
        intros n. rewrite HX0, elem_of_union, elem_of_singleton. split.
        -- intros [[?| ->]|(t'&Hin&Hlt)]; [by left|right|right].
           ++ exists t. split; [left|done].
           ++ exists t'. split; [by right|done].
        -- intros [?|(t'&Hin&Hlt)]; [by left; left|].
           apply elem_of_cons in Hin as [[= -> ->]|Hin]; [left; by right|right; eauto].
    + rewrite lookup_insert_ne in HN, HS by done. split; [done|].
      intros X' HX'. destruct (HS X' HX') as (X0&HX0&HX0s). exists X0. split; [done|].
      intros n. rewrite HX0s. split.
      * intros [?|(t'&Hin&Hlt)]; [by left|right]. exists t'. split; [by right|done].
      * intros [?|(t'&Hin&Hlt)]; [by left|right].
        apply elem_of_cons in Hin as [[= -> ->]|Hin]; [done|eauto].
Qed.

Lemma lev_init (V : gmap nat nat) :
  let r := map_fold (fun (_ i : nat) (acc : gmap nat (gset positive)) => <[i := ∅]> acc) ∅ V in
  (∀ l X, r !! l = Some X → X = ∅) ∧
  (∀ l, is_Some (r !! l) ↔ ∃ v, V !! v = Some l).
Proof.
  cbv zeta. apply (map_fold_ind (fun r V =>
    (∀ l X, r !! l = Some X → X = ∅) ∧ (∀ l, is_Some (r !! l) ↔ ∃ v, V !! v = Some l))).
  - split; [intros l X H; by rewrite lookup_empty in H|].
    intros l. rewrite lookup_empty. split; [by intros [? ?]|].
    intros [v Hv]. by rewrite lookup_empty in Hv.
  - intros v l m r Hm [H1 H2]. split.
    + intros l' X. destruct (decide (l' = l)) as [->|Hne].
      * rewrite lookup_insert. congruence.
      * rewrite lookup_insert_ne by done. apply H1.
    + intros l'. destruct (decide (l' = l)) as [->|Hne].
      * rewrite lookup_insert. split; [|eauto]. intros _. exists v. by rewrite lookup_insert.
      * rewrite lookup_insert_ne by done. rewrite H2. split.
        -- intros [v' Hv']. exists v'. rewrite lookup_insert_ne; [done|]. congruence.
        -- intros [v' Hv']. exists v'. destruct (decide (v' = v)) as [->|Hnv].
           ++ rewrite lookup_insert in Hv'. congruence.
           ++ by rewrite lookup_insert_ne in Hv'.
Qed.

Theorem levels_spec s : Inv s → ∃ al, levels_ s = (Ok al, s) ∧ levels_ok s al.
Proof.
  intros HI. unfold levels_. cbn [bind get]. unfold levels_t in *.
  set (r0 := map_fold (fun (_ i : nat) (acc : gmap nat (gset positive)) => <[i := ∅]> acc) ∅ (vars s)).
  destruct (lev_init (vars s)) as [Hr1 Hr2]. fold r0 in Hr1, Hr2.
  destruct (lev_fold s (map_to_list (succ s)) (<[nvars s := ∅]> r0)) as (acc'&Hrun&Hacc).
  { intros u t Hin. apply elem_of_map_to_list in Hin.
    destruct (decide (t_lvl t = nvars s)) as [->|Hne]; [rewrite lookup_insert; eauto|].
    rewrite lookup_insert_ne by done. apply Hr2.
    assert (u ≠ 1%positive) as Hu1.
    { intros ->. rewrite (inv_term _ HI) in Hin. injection Hin as <-. done. }
    destruct (inv_node _ HI _ _ Hin Hu1) as (Hl&_).
    apply (inv_lvls _ HI) in Hl as [v Hv]. exists v. by apply (inv_vars _ HI). }
  change (foldM _ (<[nvars s := ∅]> r0) (map_to_list (succ s)))
    with (foldM lev_body (<[nvars s := ∅]> r0) (map_to_list (succ s))).
  rewrite (bind_ok _ _ _ _ _ Hrun). eexists. split; [reflexivity|].
  intros l Hl.
  assert (is_Some (r0 !! l)) as [X0 HX0].
  { apply Hr2. apply (inv_lvls _ HI) in Hl as [v Hv]. exists v. by apply (inv_vars _ HI). }
  destruct (acc' !! l) as [X'|] eqn:HX'; cycle 1.
  { destruct (Hacc l) as [HN _]. rewrite lookup_insert_ne in HN by lia.
    apply HN in HX'. congruence. }
  destruct (Hacc l) as [_ HS]. rewrite lookup_insert_ne in HS by lia.
  exists X'. unfold levels_t. rewrite lookup_delete_ne by lia. split; [done|].
  destruct (HS X' HX') as (X&HX&HXs). rewrite HX0 in HX. injection HX as <-.
  rewrite (Hr1 l X0 HX0) in HXs. intros n. rewrite HXs. split.
  - intros [Hn|(t&Hin&Hlt)]; [by apply elem_of_empty in Hn|].
    apply elem_of_map_to_list in Hin. eauto.
  - intros (t&Ht&Hlt). right. exists t. split; [|done]. by apply elem_of_map_to_list.
Qed.

(** ** the other calling conventions of [swap] *)
Lemma swap_sym x al s : x + 1 < nvars s →
  swap (x + 1) x (Some al) s = swap x (x + 1) (Some al) s.
Proof.
  intros Hy. unfold swap.
  rewrite !(bind_ok _ _ s al s) by done. cbn [bind get].
  unfold ensure. rewrite !bool_decide_eq_true_2 by lia. cbn [bind ret].
  rewrite (decide_True (P := x < x + 1)) by lia.
  rewrite (decide_False (P := x + 1 < x)) by lia. reflexivity.
Qed.

Lemma swap_none x y s :
  swap x y None s =
  match collect_garbage None s with
  | (Ok _, s1) =>
      match levels_ s1 with
      | (Ok al, s2) => swap x y (Some al) s2
      | (Err e, s2) => (Err e, s2)
      end
  | (Err e, s1) => (Err e, s1)
  end.
Proof.
  unfold swap. unfold bind at 1 2.
  destruct (collect_garbage None s) as [[[]|e] s1]; [|done].
  destruct (levels_ s1) as [[al|e] s2]; [|done].
  by rewrite (bind_ok _ _ s2 al s2).
Qed.

Theorem swap_correct_any s x y all_levels L r s' :
  Inv s → Counts s L → last_len s = None →
  y = x + 1 ∨ x = y + 1 → x < nvars s → y < nvars s →
  match all_levels with Some al => levels_ok s al | None => True end →
  swap x y all_levels s = (r, s') →
  r = Err EOracle ∨
  (r = Err ERuntime ∧ is_Some (max_nodes s) ∧
   match all_levels with
   | Some _ => s' = s
   | None => collect_garbage None s = (Ok tt, s')
   end) ∨
  ∃ oldn newn al', r = Ok ((oldn, newn), al') ∧
    Inv s' ∧ Counts s' L ∧ levels_ok s' al' ∧ oldn ≤ len s ∧ newn = len s' ∧
    (∀ v l, vars s !! v = Some l →
       vars s' !! v = Some (if decide (l = x) then y else if decide (l = y) then x else l)) ∧
    (∀ u, u ≠ 0%Z → absn u = 1%positive ∨ 0 < L (absn u) →
       valid s u ∧ valid s' u ∧ ∀ ρ, denv s' u ρ = denv s u ρ) ∧
    last_len s' = None.
Proof.
  intros HI HC Hll Hxy Hx Hy Hal Hrun.
  (* reduce to the ascending order with explicit levels *)
  assert (Hgen : ∀ s1 al, Inv s1 → Counts s1 L → last_len s1 = None →
            nvars s1 = nvars s → vars s1 = vars s → levels_ok s1 al →
            swap x y (Some al) s1 = (r, s') →
            r = Err EOracle ∨
            (r = Err ERuntime ∧ s' = s1 ∧ is_Some (max_nodes s1)) ∨
            ∃ oldn newn al', r = Ok ((oldn, newn), al') ∧
              Inv s' ∧ Counts s' L ∧ levels_ok s' al' ∧ oldn = len s1 ∧ newn = len s' ∧
              (∀ v l, vars s !! v = Some l →
                 vars s' !! v = Some (if decide (l = x) then y
                                      else if decide (l = y) then x else l)) ∧
              (∀ u, valid s1 u → valid s' u → ∀ ρ, denv s' u ρ = denv s1 u ρ) ∧
              (∀ n, n = 1%positive ∨ 0 < L n → n ∈ dom (succ s')) ∧
              last_len s' = None).
  { intros s1 al HI1 HC1 Hll1 Hn1 Hv1 Hal1 Hrun1.
    destruct Hxy as [->| ->].
    - destruct (swap_correct s1 x al L r s' HI1 HC1 Hll1 ltac:(lia) Hal1 Hrun1)
        as [->|[?|(oldn&newn&al'&->&?&?&?&?&?&Hv&?&?&_&?)]]; [by left|by right; left|right; right].
      exists oldn, newn, al'. split_and!; try done. intros v l Hvl. rewrite <- Hv1 in Hvl.
      by rewrite (Hv v l Hvl).
    - rewrite swap_sym in Hrun1 by lia.
      destruct (swap_correct s1 y al L r s' HI1 HC1 Hll1 ltac:(lia) Hal1 Hrun1)
        as [->|[?|(oldn&newn&al'&->&?&?&?&?&?&Hv&?&?&_&?)]]; [by left|by right; left|right; right].
      exists oldn, newn, al'. split_and!; try done. intros v l Hvl. rewrite <- Hv1 in Hvl.
      rewrite (Hv v l Hvl). f_equal. repeat case_decide; lia. }
  destruct all_levels as [al|].
  - destruct (Hgen s al HI HC Hll eq_refl eq_refl Hal Hrun)
      as [->|[(->&->&?)|(oldn&newn&al'&->&?&?&?&->&?&?&HD&Hkeep&?)]];
      [by left|by right; left|right; right].
    exists (len s), newn, al'. split_and!; try done.
    intros u Hu0 Hu.
    assert (valid s u) as Hvu.
    { split; [done|]. destruct Hu as [->|Hu]; [rewrite (inv_term _ HI); eauto|].
      destruct HC as [_ HC2]. destruct (decide (absn u ∈ dom (succ s))) as [Hd|Hd].
      - by apply elem_of_dom.
      - rewrite (HC2 _ Hd) in Hu. lia. }
    assert (valid s' u) as Hvu' by (split; [done|]; by apply elem_of_dom, Hkeep).
    split_and!; try done. by apply HD.
  - rewrite swap_none in Hrun.
    destruct (collect_garbage None s) as [rg s1] eqn:Egc.
    destruct (gc_exact s L rg s1 HI HC Egc) as (->&HI1&HC1&_&Hv1&Hl1&Hll1&Hdom1&Hsub1).
    destruct (levels_spec s1 HI1) as (al&Hlev&Hal1). rewrite Hlev in Hrun.
    assert (Hn1 : nvars s1 = nvars s) by (unfold nvars; by rewrite Hv1).
    assert (Hmx1 : max_nodes s1 = max_nodes s).
    { destruct (gc_safe None s L (Ok tt) s1 HI HC I Egc) as (_&_&_&_&_&_&Hfr1&_).
      by apply frame_max_nodes. }
    destruct (Hgen s1 al HI1 HC1 ltac:(congruence) Hn1 Hv1 Hal1 Hrun)
      as [->|[(->&->&?)|(oldn&newn&al'&->&?&?&?&->&?&?&HD&Hkeep&?)]];
      [by left|right; left; split_and!; [done|congruence|done]|right; right].
    exists (len s1), newn, al'. split_and!; try done.
    + assert (dom (succ s1) ⊆ dom (succ s)) as Hd.
      { intros n Hn. apply elem_of_dom in Hn as [t Ht]. apply elem_of_dom. eauto. }
      apply subseteq_size in Hd. by rewrite !size_dom in Hd.
    + intros u Hu0 Hu.
      destruct (gc_preserves_den None s L (Ok tt) s1 u HI HC I Egc Hu0) as (Hvu1&Hvu&HD1).
      { destruct Hu as [?|Hu]; [by left|right]. apply reach_root; [done|].
        destruct HC as [_ HC2]. destruct (decide (absn u ∈ dom (succ s))) as [Hd|Hd]; [done|].
        rewrite (HC2 _ Hd) in Hu. lia. }
      assert (valid s' u) as Hvu' by (split; [done|]; by apply elem_of_dom, Hkeep).
      split_and!; try done. intros ρ. rewrite (HD u Hvu1 Hvu' ρ).
      unfold denv. rewrite Hl1. apply HD1.
Qed.


(** ** the public entry point [BDD.swap]: reordering requests are disabled
    around the call and the threshold is restored afterwards *)
Theorem swap_pub_correct s x y L r s' :
  Inv s → Counts s L →
  y = x + 1 ∨ x = y + 1 → x < nvars s → y < nvars s →
  swap_pub x y s = (r, s') →
  r = Err EOracle ∨
  (r = Err ERuntime ∧ is_Some (max_nodes s) ∧
   ∃ s1, collect_garbage None (s <| last_len := None |>) = (Ok tt, s1) ∧
         s' = s1 <| last_len := last_len s |>) ∨
  ∃ oldn newn al', r = Ok ((oldn, newn), al') ∧
    Inv s' ∧ Counts s' L ∧ levels_ok s' al' ∧ oldn ≤ len s ∧ newn = len s' ∧
    (∀ v l, vars s !! v = Some l →
       vars s' !! v = Some (if decide (l = x) then y else if decide (l = y) then x else l)) ∧
    (∀ u, u ≠ 0%Z → absn u = 1%positive ∨ 0 < L (absn u) →
       valid s u ∧ valid s' u ∧ ∀ ρ, denv s' u ρ = denv s u ρ) ∧
    last_len s' = last_len s.
Proof.
  intros HI HC Hxy Hx Hy. unfold swap_pub, guarded. cbn [bind get].
  destruct (last_len s) as [ll|] eqn:Ell.
  - cbn [bind modify]. set (s1 := s <| last_len := None |>).
    assert (HI1 : Inv s1) by (apply (Inv_same s); [by repeat split|done]).
    assert (HC1 : Counts s1 L) by (by apply (Counts_same s)).
    destruct (swap x y None s1) as [r0 s2] eqn:Hsw.
    assert (Hc : catch (swap x y None) s1 = (Ok r0, s2)) by (unfold catch; by rewrite Hsw).
    rewrite (bind_ok _ _ _ _ _ Hc). cbn [bind modify].
    destruct (swap_correct_any s1 x y None L r0 s2 HI1 HC1 eq_refl Hxy Hx Hy I Hsw)
      as [->|[(->&Hmx&Hgc)|(oldn&newn&al'&->&HI2&HC2&Hal2&Ho&Hn&Hv&HD&_)]].
    { intros [= <- <-]. by left. }
    { cbn [reraise raise]. intros [= <- <-]. right. left. split_and!; [done|done|].
      exists s2. done. }
    cbn [reraise ret]. intros [= <- <-]. right. right. exists oldn, newn, al'.
    set (s3 := s2 <| last_len := Some ll |>).
    split_and!; try done.
    + apply (Inv_same s2); [by repeat split|done].
    + intros u Hu0 Hu. destruct (HD u Hu0 Hu) as (?&?&HDu). split_and!; try done.
      intros ρ. transitivity (denv s2 u ρ); [unfold denv; by apply D_same|].
      rewrite (HDu ρ). unfold denv. by apply D_same.
  - intros Hsw.
    destruct (swap_correct_any s x y None L r s' HI HC Ell Hxy Hx Hy I Hsw)
      as [->|[(->&Hmx&Hgc)|(oldn&newn&al'&->&?&?&?&?&?&?&?&?)]]; [by left| |right; right].
    { right. left. split_and!; [done|done|]. exists s'.
      assert (Es : s <| last_len := None |> = s) by (destruct s; cbn in *; by subst).
      rewrite Es. split; [done|].
      destruct (gc_safe None s L (Ok tt) s' HI HC I Hgc) as (_&_&_&_&_&_&(Hl&_)&_).
      rewrite Ell in Hl. destruct s'; cbn in *; by subst. }
    exists oldn, newn, al'. split_and!; try done.
Qed.
