(** * CopyFnDyn: [dd._copy.copy_bdd] / [copy_bdds_from] through the public
      [Function] interface (Model/CopyFn.v) into a target whose dynamic
      reordering may be ENABLED (C09 for the multi-step loader, C11).

    Every intermediate result of the loader is a live [Function] object (the
    memo, the locals [low], [high], [g]): in the model, a counted temporary.
    Hence every operand of a decorated call ([var], [ite]) is HELD in the
    current ledger, and [Dynamic3.var_notape] / [ite_notape] apply at each
    step with the ledger of that moment; a sifting pass in the middle keeps
    every held node with its function by variable NAME ([keeps]).  The
    variable ORDER of the target may change; nothing else is lost.

    Part 0 of this file (the relation [DStep], [var_dyn], [ite_dyn]) is shared
    with [Proofs/JsonLoadDyn.v]. *)
From DD Require Export CopyFnOk AutorefInv2 Dynamic3.

(** ** 0a. [max_nodes] is left alone ([nfm]: like [Sift7.nft] without the
    clause on the error, so that it passes through [catch]) *)
Definition nfm {A} (m : MS A) : Prop :=
  ∀ s r s', max_nodes s = None → m s = (r, s') → max_nodes s' = None.

Lemma nft_nfm {A} (m : MS A) : nft m → nfm m.
Proof. intros H s r s' Hs E. by destruct (H s r s' Hs E). Qed.
Lemma nfm_ret {A} (a : A) : nfm (ret a).
Proof. by intros s r s' Ht [= <- <-]. Qed.
Lemma nfm_raise {A} e : nfm (raise e : MS A).
Proof. by intros s r s' Ht [= <- <-]. Qed.
Lemma nfm_bind {A B} (m : MS A) (f : A → MS B) :
  nfm m → (∀ a, nfm (f a)) → nfm (bind m f).
Proof.
  intros Hm Hf s r s' Ht. unfold bind. destruct (m s) as [[a|e] s1] eqn:E.
  - apply (Hf a _ _ _ (Hm s _ s1 Ht E)).
  - intros [= <- <-]. by apply (Hm s _ s1 Ht E).
Qed.
Lemma nfm_bind_get {B} (f : st → MS B) : (∀ s, nfm (f s)) → nfm (bind get f).
Proof. intros Hf s r s' Ht. cbn [bind get]. by apply Hf. Qed.
Lemma nfm_modify f : (∀ s, max_nodes (f s) = max_nodes s) → nfm (modify f).
Proof. intros Hf s r s' Ht [= <- <-]. by rewrite Hf. Qed.

Ltac nfm1 :=
  first
    [ apply nfm_ret | apply nfm_raise
    | (apply nft_nfm; first [ apply nft_get | apply nft_assert | apply nft_getsuccZ
                            | apply nft_level_of | apply nft_find_or_add ])
    | (apply nfm_modify; intros; reflexivity)
    | (apply nfm_bind; [|intros ?])
    | case_decide | case_match ].

Lemma nfm_top_cofactor u i : nfm (top_cofactor u i).
Proof. unfold top_cofactor. repeat nfm1. Qed.
Lemma nfm_ite_rec fuel : ∀ g u v, nfm (ite_rec fuel g u v).
Proof.
  induction fuel as [|f IH]; intros g u v; cbn [ite_rec]; [apply nfm_raise|].
  repeat first [apply nfm_top_cofactor | apply IH | nfm1].
Qed.
Lemma nfm_ite_ g u v : nfm (ite_ g u v).
Proof. unfold ite_. apply nfm_bind_get. intros s. apply nfm_ite_rec. Qed.

Lemma nfm_try_to_reorder {A} (func : MS A) : nfm func → nfm (try_to_reorder func).
Proof.
  intros Hf s r s' Ht. unfold try_to_reorder. cbn [bind get modify].
  unfold bind at 1, catch at 1.
  destruct (func (s <| rctx := true |>)) as [r1 s1] eqn:E1.
  assert (Ht0 : max_nodes (s <| rctx := true |>) = None) by done.
  pose proof (Hf _ _ _ Ht0 E1) as Ht1.
  cbn [bind modify]. destruct r1 as [a|e].
  { unfold ret. by intros [= <- <-]. }
  case_decide as Hd; cycle 1.
  { unfold raise. by intros [= <- <-]. }
  cbn [bind get modify].
  set (s2 := s1 <| rctx := rctx s |> <| last_len := None |>).
  destruct (reorder None s2) as [r3 s3] eqn:E3.
  destruct (nft_reorder None s2 r3 s3 Ht1 E3) as [Ht3 _].
  rewrite (bind_ok _ _ _ _ _ (catch_run _ _ _ _ E3)).
  destruct r3 as [[]|e3]; cycle 1.
  { cbn [bind modify raise]. by intros [= <- <-]. }
  cbn [bind ret get modify].
  unfold bind at 1, catch at 1.
  destruct (func (s3 <| rctx := true |>)) as [r4 s4] eqn:E4.
  assert (Ht3' : max_nodes (s3 <| rctx := true |>) = None) by done.
  pose proof (Hf _ _ _ Ht3' E4) as Ht4.
  cbn [bind modify]. destruct r4 as [a|e4]; cbn [reraise]; unfold ret, raise;
    by intros [= <- <-].
Qed.

Lemma nfm_ite g u v : nfm (ite g u v).
Proof. apply nfm_try_to_reorder, nfm_ite_. Qed.
Lemma nfm_var name : nfm (var name).
Proof.
  unfold var. apply nfm_try_to_reorder. apply nfm_bind_get. intros s.
  destruct (vars s !! name); [apply nft_nfm, nft_find_or_add|apply nfm_raise].
Qed.

(** ** 0b. The state of a target between two decorated calls, and one step *)
Record DynSt (r : st) : Prop := {
  dy_inv : Inv r;
  dy_rctx : rctx r = false;
  dy_tape : tape r = [];
  dy_mx : max_nodes r = None;
}.

(** dynamic reordering stays enabled, or stays disabled *)
Definition mode (r r' : st) : Prop :=
  (last_len r = None → last_len r' = None) ∧
  (is_Some (last_len r) → is_Some (last_len r')).
Lemma mode_refl r : mode r r.
Proof. by split. Qed.
Lemma mode_trans r1 r2 r3 : mode r1 r2 → mode r2 r3 → mode r1 r3.
Proof. intros [? ?] [? ?]. split; auto. Qed.
Lemma mode_eq r r' : last_len r' = last_len r → mode r r'.
Proof. intros E. unfold mode. by rewrite E. Qed.

(** one step: the nodes of [K] keep validity and function by name, the mode
    is kept, and the target is again between two calls *)
Definition DStep (K : positive → Prop) (r r' : st) : Prop :=
  DynSt r' ∧ keeps K r r' ∧ mode r r'.

Lemma keeps_refl K r : keeps K r r.
Proof. split; [done|]. by intros. Qed.
Lemma keeps_mono (K K' : positive → Prop) r r' :
  (∀ n, K n → K' n) → keeps K' r r' → keeps K r r'.
Proof. intros HK [E H]. split; [done|]. intros u Hu Hk. apply H; auto. Qed.

Lemma DStep_refl K r : DynSt r → DStep K r r.
Proof. intros. split; [done|]. split; [apply keeps_refl|apply mode_refl]. Qed.
Lemma DStep_trans K r1 r2 r3 : DStep K r1 r2 → DStep K r2 r3 → DStep K r1 r3.
Proof.
  intros (_&Hk1&Hm1) (HD&Hk2&Hm2). split; [done|]. split.
  - by apply (keeps_trans K K r1 r2 r3).
  - by apply (mode_trans r1 r2 r3).
Qed.
Lemma DStep_mono (K K' : positive → Prop) r r' : (∀ n, K n → K' n) → DStep K' r r' → DStep K r r'.
Proof. intros HK (?&?&?). split; [done|]. split; [by apply (keeps_mono K K')|done]. Qed.

Lemma DynSt_grows r r' : DynSt r → Inv r' → grows r r' → DynSt r'.
Proof.
  intros [HI Hc Ht Hm] HI' [_ (El&Ec&_&Et&Em)]. split; [done|congruence..].
Qed.
Lemma DStep_grows K r r' : DynSt r → Inv r' → grows r r' → DStep K r r'.
Proof.
  intros HD HI' G. split; [by apply (DynSt_grows r)|]. split.
  - apply keeps_extends; [apply HD|apply G].
  - apply mode_eq. by destruct G as [_ (El&_)].
Qed.
Lemma DynSt_bump r u : DynSt r → DynSt (bump u r).
Proof. intros HD. apply (DynSt_grows r); [done|apply Inv_bump, HD|apply grows_bump]. Qed.
Lemma DynSt_unbump r u : DynSt r → DynSt (unbump u r).
Proof. intros HD. apply (DynSt_grows r); [done|apply Inv_unbump, HD|apply grows_unbump]. Qed.

(** what a step keeps *)
Lemma DStep_valid K r r' x : DStep K r r' → K (absn x) → valid r x → valid r' x.
Proof. intros (_&[_ Hk]&_) HK Hv. by apply Hk; [apply Hv|..]. Qed.
Lemma DStep_denv K r r' x ρ : DStep K r r' → K (absn x) → valid r x →
  denv r' x ρ = denv r x ρ.
Proof. intros (_&[_ Hk]&_) HK Hv. by apply Hk; [apply Hv|..]. Qed.
Lemma DStep_same_fun K src r r' u x : DStep K r r' → K (absn x) →
  same_fun src r u x → same_fun src r' u x.
Proof.
  intros HS HK [Hv HD]. split; [by apply (DStep_valid K r r')|].
  intros ρ. by rewrite (DStep_denv K r r').
Qed.
Lemma DStep_vars K r r' v : DStep K r r' → is_Some (vars r !! v) → is_Some (vars r' !! v).
Proof. intros (_&[E _]&_) Hv. apply elem_of_dom. rewrite E. by apply elem_of_dom. Qed.
Lemma DStep_dom K r r' : DStep K r r' → dom (vars r') = dom (vars r).
Proof. by intros (_&[E _]&_). Qed.

(** ** 0c. Held nodes of a ledger [ledger_add L l] *)
Lemma heldn_add L l n : heldn L n → heldn (ledger_add L l) n.
Proof. intros [->|H]; [by left|right]. unfold ledger_add. lia. Qed.
Lemma heldn_add_in L l x : x ∈ l → heldn (ledger_add L l) (absn x).
Proof.
  intros Hx. right. unfold ledger_add.
  assert (x ∈ filter (fun u => absn u = absn x) l) as Hin by (by apply elem_of_list_filter).
  destruct (filter _ l); [by apply elem_of_nil in Hin|cbn; lia].
Qed.
Lemma heldn_add_inv L l n : heldn (ledger_add L l) n → heldn L n ∨ ∃ x, x ∈ l ∧ absn x = n.
Proof.
  intros [->|H]; [left; by left|]. unfold ledger_add in H.
  destruct (decide (0 < L n)) as [?|?]; [left; by right|right].
  destruct (filter (fun u => absn u = n) l) as [|x f] eqn:E; [cbn in H; lia|].
  assert (x ∈ filter (fun u => absn u = n) l) as Hin by (rewrite E; apply elem_of_list_here).
  apply elem_of_list_filter in Hin as [? ?]. by exists x.
Qed.
Lemma heldn_sub L l l' n : (∀ x, x ∈ l' → x ∈ l) →
  heldn (ledger_add L l') n → heldn (ledger_add L l) n.
Proof.
  intros Hs H. destruct (heldn_add_inv L l' n H) as [?|(x&Hx&<-)].
  - by apply heldn_add.
  - by apply heldn_add_in, Hs.
Qed.
Lemma heldn_ext L L' n : (∀ m, L m = L' m) → heldn L n → heldn L' n.
Proof. intros E [->|H]; [by left|right]. by rewrite <- E. Qed.

(** ** 0d. [var] and [ite] whatever the reordering mode: operands held *)
Lemma var_dyn r L v rg r' :
  DynSt r → Counts r L → is_Some (vars r !! v) → var v r = (rg, r') →
  ∃ g, rg = Ok g ∧ DStep (heldn L) r r' ∧ Counts r' L ∧ valid r' g ∧
       ∀ ρ, denv r' g ρ = ρ v.
Proof.
  intros [HI Hc Ht Hm] HC Hv E.
  destruct (var_notape r L HI HC Hc Ht Hm v rg r' Hv E)
    as [(g&->&HI'&HC'&Hc'&Hl1&Hl2&Hk&Hg&HD) Ht'].
  exists g. split; [done|]. split; [|done].
  split; [|split; [done|by split]]. split; [done..|].
  exact (nfm_var v r _ r' Hm E).
Qed.

Lemma ite_dyn r L g u v rx r' :
  DynSt r → Counts r L → valid r g → valid r u → valid r v →
  heldn L (absn g) → heldn L (absn u) → heldn L (absn v) →
  ite g u v r = (rx, r') →
  ∃ x, rx = Ok x ∧ DStep (heldn L) r r' ∧ Counts r' L ∧ valid r' x ∧
       ∀ ρ, denv r' x ρ = if denv r g ρ then denv r u ρ else denv r v ρ.
Proof.
  intros [HI Hc Ht Hm] HC Hg Hu Hv Kg Ku Kv E.
  destruct (ite_notape r L HI HC Hc Ht Hm g u v rx r' Hg Hu Hv Kg Ku Kv E)
    as [(x&->&HI'&HC'&Hc'&Hl1&Hl2&Hk&Hx&HD) Ht'].
  exists x. split; [done|]. split; [|done].
  split; [|split; [done|by split]]. split; [done..|].
  exact (nfm_ite g u v r _ r' Hm E).
Qed.

(** list membership, without looking at the context *)
Ltac lmem := rewrite ?elem_of_cons, ?elem_of_app; tauto.

(** ** 1. Objects and the memo through a step *)
Lemma obj_ok_DStep src (K : positive → Prop) r r' c c' u o :
  DStep K r r' → (∀ x, x ∈ fresh1 o → K (absn x)) → c ⊆ c' →
  obj_ok src r c u o → obj_ok src r' c' u o.
Proof.
  destruct o as [k|x]; cbn.
  - intros _ _ Hs [-> [x Hx]]. split; [done|]. exists x. by eapply lookup_weaken.
  - intros HS HK _ [Hsf Hle]. split; [|done].
    apply (DStep_same_fun K src r r'); [done| |done]. apply HK. by apply elem_of_list_singleton.
Qed.

Lemma cvals_in (c : gmap positive Z) k x : c !! k = Some x → x ∈ cvals c.
Proof.
  intros Hx. unfold cvals. apply elem_of_list_fmap. exists (k, x). split; [done|].
  by apply elem_of_map_to_list.
Qed.

Lemma jcache_ok_DStep src (K : positive → Prop) r r' c :
  DStep K r r' → (∀ x, x ∈ cvals c → K (absn x)) →
  jcache_ok src r c → jcache_ok src r' c.
Proof.
  intros HS HK Hc k x Hx. destruct (Hc k x Hx) as (?&?&Hsf). split; [done|]. split; [done|].
  apply (DStep_same_fun K src r r'); [done| |done]. apply HK. by apply (cvals_in c k).
Qed.

Lemma onode_in src r c u o : obj_ok src r c u o → onode c o ∈ cvals c ++ fresh1 o.
Proof.
  destruct o as [k|x]; cbn.
  - intros [_ [x Hx]]. rewrite Hx. cbn. rewrite app_nil_r. by apply (cvals_in c k).
  - intros _. apply elem_of_app. right. by apply elem_of_list_singleton.
Qed.

(** ** 2. The recursion.  The variables of the source are declared in the
    target ([decl]) and its table is unbounded: every call succeeds. *)
Section rec.
Context (src : st) (HIs : Inv src).

Lemma decl_DStep K r r' : DStep K r r' → decl src r → decl src r'.
Proof. intros HS Hd v Hv. apply (DStep_vars K r r'); [done|by apply Hd]. Qed.

Lemma copy_fn_rec_dyn fuel : ∀ u cache r H n L,
  valid src u → nvars src - lvl_of src u < fuel →
  DynSt r → decl src r → jcache_ok src r cache →
  Counts r (ledger_add L (cvals cache)) →
  ∃ o cache' r',
    copy_fn_rec fuel src u cache (ASt r H n) = (Ok (Ok o, cache'), ASt r' H n) ∧
    DStep (heldn L) r r' ∧ cache ⊆ cache' ∧ jcache_ok src r' cache' ∧
    (∀ k', is_Some (cache' !! k') →
       is_Some (cache !! k') ∨ lvl_of src u ≤ lvl_of src (Z.pos k')) ∧
    Counts r' (ledger_add L (cvals cache' ++ fresh1 o)) ∧
    obj_ok src r' cache' u o.
Proof.
  induction fuel as [|f IH]; intros u cache r H n L Hv Hf HD Hdecl Hc HC; [lia|].
  pose proof (dy_inv r HD) as HI.
  cbn [copy_fn_rec].
  (* constants *)
  assert (Hconst : ∀ c : Z, valid src c → (c = 1 ∨ c = -1)%Z →
    ∃ o cache' r',
      (r0 <- catch (tmp_new c) ;; ret ((fun _ => OFresh c) <$$> r0, cache)) (ASt r H n)
        = (Ok (Ok o, cache'), ASt r' H n) ∧
      DStep (heldn L) r r' ∧ cache ⊆ cache' ∧ jcache_ok src r' cache' ∧
      (∀ k', is_Some (cache' !! k') →
         is_Some (cache !! k') ∨ lvl_of src c ≤ lvl_of src (Z.pos k')) ∧
      Counts r' (ledger_add L (cvals cache' ++ fresh1 o)) ∧
      obj_ok src r' cache' c o).
  { intros c Hvc Hc1.
    assert (Hvr : valid r c) by (destruct Hc1 as [-> | ->]; [by apply valid_1|by apply valid_m1]).
    exists (OFresh c), cache, (bump c r).
    step (catch_ok _ _ _ _ (tmp_new_ok r H n c HI Hvr)). split; [done|].
    split; [apply DStep_grows; [done|by apply Inv_bump|apply grows_bump]|]. split; [done|].
    split; [apply (jcache_ok_grows src r); [done|apply grows_bump|done]|].
    split; [by left|]. split.
    { eapply Counts_ext; [|apply (Counts_bump_add _ _ _ c Hvr HC)]. cbn. ladd. }
    cbn. split; [|lia]. split; [done|]. intros ρ.
    rewrite (denv_tables r (bump c r)) by done. unfold denv.
    destruct Hc1 as [-> | ->].
    - by rewrite (D_1 r HI), (D_1 src HIs).
    - by rewrite (D_m1 r HI), (D_m1 src HIs). }
  destruct (decide (u = 1%Z)) as [->|Hn1]; [apply Hconst; auto|].
  destruct (decide (u = (-1)%Z)) as [->|Hnm1]; [apply Hconst; auto|].
  clear Hconst.
  destruct (node_cases src HIs u Hv) as [[E _]|(t&Ht&Hk1&Hlo0&Hl&Hln&Hvl&Hvh&Hhp&Hll&Hlh&Hne)].
  { destruct (absn_1 u E (proj1 Hv)); done. }
  set (k := absn u) in *.
  destruct (cache !! k) as [x|] eqn:Hk.
  { (* memoized *)
    destruct (flip_obj_ok src r cache k x u H n HIs HI Hv eq_refl Hk Hc) as (o&Eo&Ho).
    destruct (foldr_bump_facts r (fresh1 o) HI) as (HI'&G'&HC').
    { destruct (Hc _ _ Hk) as (_&_&Hvx&_). destruct o; cbn; [done|].
      apply Forall_singleton. revert Eo. unfold flip_obj. case_decide; [|done].
      intros Eo. rewrite (bind_ok _ _ _ _ _ (tmp_new_ok r H n (- x)%Z HI (valid_neg r x Hvx))) in Eo.
      injection Eo as <-. by apply valid_neg. }
    exists o, cache, (foldr bump r (fresh1 o)). step (catch_ok _ _ _ _ Eo).
    split; [done|]. split; [by apply DStep_grows|]. split; [done|].
    split; [by apply (jcache_ok_grows src r)|]. split; [by left|].
    split; [by apply HC'|done]. }
  rewrite Ht. unfold is_term. rewrite bool_decide_eq_false_2 by done.
  assert (Hlk : lvl_of src (Z.pos k) = t_lvl t)
    by (unfold lvl_of; by rewrite absn_pos, Ht).
  (* low *)
  destruct (IH (t_lo t) cache r H n L Hvl ltac:(lia) HD Hdecl Hc HC)
    as (lo&c1&r1&E1&HS1&Hs1&Hc1&Hlv1&HL1&Hlo).
  step E1. cbv beta iota.
  pose proof HS1 as (HD1&_&_). pose proof (dy_inv r1 HD1) as HI1.
  pose proof (decl_DStep _ r r1 HS1 Hdecl) as Hdecl1.
  (* high: the local [low] is part of the ledger *)
  assert (HCa : Counts r1 (ledger_add (ledger_add L (fresh1 lo)) (cvals c1))).
  { eapply Counts_ext; [|exact HL1]. ladd. }
  destruct (IH (t_hi t) c1 r1 H n _ Hvh ltac:(lia) HD1 Hdecl1 Hc1 HCa)
    as (hi&c2&r2&E2&HS2&Hs2&Hc2&Hlv2&HL2&Hhi2).
  step E2. cbv beta iota.
  pose proof HS2 as (HD2&_&_). pose proof (dy_inv r2 HD2) as HI2.
  assert (Hlo2 : obj_ok src r2 c2 (t_lo t) lo).
  { apply (obj_ok_DStep src _ r1 r2 c1 c2 _ lo HS2); [|done|done].
    intros y Hy. by apply heldn_add_in. }
  assert (HS02 : DStep (heldn L) r r2).
  { apply (DStep_trans _ r r1 r2); [done|].
    apply (DStep_mono _ _ r1 r2 (fun m => heldn_add L (fresh1 lo) m) HS2). }
  pose proof (decl_DStep _ r r2 HS02 Hdecl) as Hdecl2.
  assert (Hs02 : cache ⊆ c2) by (by etrans).
  assert (Hlv02 : ∀ k', is_Some (c2 !! k') →
            is_Some (cache !! k') ∨ t_lvl t < lvl_of src (Z.pos k')).
  { intros k' Hk'. destruct (Hlv2 k' Hk') as [Hk1'|?]; [|right; lia].
    destruct (Hlv1 k' Hk1') as [?|?]; [by left|right; lia]. }
  assert (Hk2 : c2 !! k = None).
  { apply eq_None_not_Some. intros Hs. destruct (Hlv02 k Hs) as [[? ?]|?]; [congruence|lia]. }
  assert (HC2 : Counts r2 (ledger_add L (cvals c2 ++ fresh1 hi ++ fresh1 lo))).
  { eapply Counts_ext; [|exact HL2]. ladd. }
  pose proof (obj_fresh_valid src r2 c2 _ lo Hlo2) as Hvlo2.
  pose proof (obj_fresh_valid src r2 c2 _ hi Hhi2) as Hvhi2.
  destruct (node_has_var src u t HIs Ht Hk1) as (v&Hlv&Hvv).
  destruct (obj_same src r2 c2 _ hi Hc2 Hhi2) as [Hvhn HDh].
  destruct (obj_same src r2 c2 _ lo Hc2 Hlo2) as [Hvln HDl].
  pose proof (onode_in src r2 c2 _ hi Hhi2) as Hinh.
  pose proof (onode_in src r2 c2 _ lo Hlo2) as Hinl.
  set (hn := onode c2 hi) in *. set (ln := onode c2 lo) in *.
  set (l2 := cvals c2 ++ fresh1 hi ++ fresh1 lo) in *.
  assert (Hhn2 : hn ∈ l2).
  { unfold l2. apply elem_of_app in Hinh as [?|?]; lmem. }
  assert (Hln2 : ln ∈ l2).
  { unfold l2. apply elem_of_app in Hinl as [?|?]; lmem. }
  assert (K2 : ∀ y, y ∈ l2 → heldn (ledger_add L l2) (absn y))
    by (intros y Hy; by apply heldn_add_in).
  (* g = var v: a sifting pass may run *)
  destruct (var v r2) as [rg r3] eqn:Eg.
  destruct (var_dyn r2 (ledger_add L l2) v rg r3 HD2 HC2 (Hdecl2 v ltac:(by eexists)) Eg)
    as (g&->&HS3&HC3&Hvg&HDg).
  pose proof HS3 as (HD3&_&_). pose proof (dy_inv r3 HD3) as HI3.
  assert (Hhi3 : obj_ok src r3 c2 (t_hi t) hi).
  { apply (obj_ok_DStep src _ r2 r3 c2 c2 _ hi HS3); [|done|done].
    intros y Hy. apply K2. unfold l2. lmem. }
  assert (Hlo3 : obj_ok src r3 c2 (t_lo t) lo).
  { apply (obj_ok_DStep src _ r2 r3 c2 c2 _ lo HS3); [|done|done].
    intros y Hy. apply K2. unfold l2. lmem. }
  assert (Hvhn3 : valid r3 hn) by (by apply (DStep_valid _ r2 r3 hn HS3 (K2 _ Hhn2))).
  assert (Hvln3 : valid r3 ln) by (by apply (DStep_valid _ r2 r3 ln HS3 (K2 _ Hln2))).
  set (r4 := bump g r3).
  assert (HD4 : DynSt r4) by (by apply DynSt_bump).
  pose proof (dy_inv r4 HD4) as HI4.
  assert (G34 : grows r3 r4) by apply grows_bump.
  assert (HC4 : Counts r4 (ledger_add L (g :: l2))) by (by apply Counts_bump_add).
  assert (Hvg4 : valid r4 g) by done.
  assert (Hvhn4 : valid r4 hn) by done.
  assert (Hvln4 : valid r4 ln) by done.
  (* x = ite g high low: a sifting pass may run *)
  destruct (ite g hn ln r4) as [rx r5] eqn:Ex.
  destruct (ite_dyn r4 (ledger_add L (g :: l2)) g hn ln rx r5 HD4 HC4 Hvg4 Hvhn4 Hvln4)
    as (x&->&HS5&HC5&Hvx&HDx); [apply heldn_add_in; lmem..|done|].
  pose proof HS5 as (HD5&_&_). pose proof (dy_inv r5 HD5) as HI5.
  assert (HS25 : DStep (heldn (ledger_add L l2)) r2 r5).
  { apply (DStep_trans _ r2 r3 r5); [done|]. apply (DStep_trans _ r3 r4 r5).
    - by apply DStep_grows.
    - apply (DStep_mono _ (heldn (ledger_add L (g :: l2)))); [|done].
      intros m. apply heldn_sub. intros y. lmem. }
  assert (Hvg5 : valid r5 g).
  { apply (DStep_valid _ r4 r5 g HS5); [apply heldn_add_in; lmem|done]. }
  (* the meaning of [x] *)
  assert (Hvk : valid src (Z.pos k)) by (split; [done|by eexists]).
  assert (HDx5 : ∀ ρ, denv r5 x ρ = denv src (Z.pos k) ρ).
  { intros ρ. rewrite HDx. rewrite (denv_tables r3 r4 g) by done. rewrite HDg.
    rewrite (denv_tables r3 r4 hn), (denv_tables r3 r4 ln) by done.
    rewrite (DStep_denv _ r2 r3 hn ρ HS3 (K2 _ Hhn2) Hvhn).
    rewrite (DStep_denv _ r2 r3 ln ρ HS3 (K2 _ Hln2) Hvln).
    rewrite HDh, HDl.
    rewrite (shannon_handle src (Z.pos k) t v HIs Hvk Hk1 Ht Hlv ρ).
    rewrite bool_decide_eq_false_2 by lia. by rewrite xorb_false_l. }
  assert (Hxp : (0 < x)%Z).
  { pose proof (denv_all_true r5 x HI5 Hvx) as E. rewrite HDx5 in E.
    rewrite (denv_all_true src (Z.pos k) HIs Hvk) in E.
    rewrite bool_decide_eq_true_2 in E by lia. symmetry in E.
    by apply bool_decide_eq_true in E. }
  set (r6 := bump x r5).
  assert (HI6 : Inv r6) by (by apply Inv_bump).
  assert (Hvg6 : valid r6 g) by done.
  set (r7 := unbump g r6).
  assert (HI7 : Inv r7) by (by apply Inv_unbump).
  assert (G57 : grows r5 r7) by (by repeat split).
  erewrite (bind_ok (catch _)); cycle 1.
  { apply catch_ok. rewrite Hlv. cbn [of_opt]. rewrite (bind_ok _ _ _ v (ASt r2 H n)) by done.
    step (lift_run _ _ H n _ _ Eg).
    apply (with_tmp_ok g _ r3 H n x r6 HI3 Hvg); [|done|done].
    step (cobj_node_ok src r4 c2 _ hi H n
            (obj_ok_mono src r3 r4 c2 c2 _ hi HI3 G34 (reflexivity _) Hhi3)).
    step (cobj_node_ok src r4 c2 _ lo H n
            (obj_ok_mono src r3 r4 c2 c2 _ lo HI3 G34 (reflexivity _) Hlo3)).
    fold hn ln.
    step (check_in_ok r4 H n g Hvg4). step (check_in_ok r4 H n hn Hvhn4).
    step (check_in_ok r4 H n ln Hvln4). step (lift_run _ _ H n _ _ Ex).
    by step (tmp_new_ok r5 H n x HI5 Hvx). }
  assert (Hvhi5 : Forall (valid r5) (fresh1 hi)).
  { apply Forall_forall. intros y Hy. apply (DStep_valid _ r2 r5 y HS25).
    - apply K2. unfold l2. lmem.
    - exact (proj1 (Forall_forall _ _) Hvhi2 y Hy). }
  assert (Hvlo5 : Forall (valid r5) (fresh1 lo)).
  { apply Forall_forall. intros y Hy. apply (DStep_valid _ r2 r5 y HS25).
    - apply K2. unfold l2. lmem.
    - exact (proj1 (Forall_forall _ _) Hvlo2 y Hy). }
  assert (Hvhi7 : Forall (valid r7) (fresh1 hi)) by exact Hvhi5.
  step (release_ok r7 H n hi HI7 Hvhi7).
  set (r8 := rel hi r7).
  assert (HI8 : Inv r8) by (by apply rel_Inv).
  assert (Hvlo8 : Forall (valid r8) (fresh1 lo)).
  { eapply Forall_impl; [exact Hvlo5|]. intros y.
    apply (grows_valid r5 r8). etrans; [exact G57|apply rel_grows]. }
  step (release_ok r8 H n lo HI8 Hvlo8).
  set (r9 := rel lo r8).
  assert (HI9 : Inv r9) by (by apply rel_Inv).
  assert (G59 : grows r5 r9).
  { etrans; [exact G57|]. etrans; apply rel_grows. }
  cbv beta iota.
  assert (HS29 : DStep (heldn (ledger_add L l2)) r2 r9).
  { apply (DStep_trans _ r2 r5 r9); [done|]. by apply DStep_grows. }
  set (c3 := <[k := x]> c2).
  assert (Hc3 : jcache_ok src r9 c3).
  { intros k' y. unfold c3. rewrite lookup_insert_Some. intros [[<- <-]|[_ Hy]].
    - split; [done|]. split; [done|]. split; [by apply (grows_valid r5 r9)|].
      intros ρ. rewrite (grows_denv r5 r9 x ρ G59 HI5 Hvx). apply HDx5.
    - revert k' y Hy. apply (jcache_ok_DStep src _ r2 r9 c2 HS29); [|done].
      intros y Hy. apply K2. unfold l2. lmem. }
  assert (Hk3 : c3 !! k = Some x) by apply lookup_insert.
  destruct (flip_obj_ok src r9 c3 k x u H n HIs HI9 Hv eq_refl Hk3 Hc3) as (o&Eo&Ho).
  destruct (foldr_bump_facts r9 (fresh1 o) HI9) as (HI10&G910&HC10).
  { destruct o as [?|y]; cbn; [done|]. apply Forall_singleton.
    revert Eo. unfold flip_obj. case_decide; [|done]. intros Eo.
    rewrite (bind_ok _ _ _ _ _ (tmp_new_ok r9 H n (- x)%Z HI9
               (valid_neg r9 x (grows_valid r5 r9 x G59 Hvx)))) in Eo.
    injection Eo as <-. apply valid_neg. by apply (grows_valid r5 r9). }
  step (catch_ok _ _ _ _ Eo).
  exists o, c3, (foldr bump r9 (fresh1 o)). split; [done|]. split.
  { apply (DStep_trans _ r r2); [done|].
    apply (DStep_mono _ (heldn (ledger_add L l2))); [intros m; apply heldn_add|].
    apply (DStep_trans _ r2 r9); [done|]. apply DStep_grows; [apply HS29|done|done]. }
  split; [etrans; [exact Hs02|]; by apply insert_subseteq|].
  split; [by apply (jcache_ok_grows src r9)|]. split.
  { intros k' Hk'. destruct (decide (k' = k)) as [->|Hne'].
    - right. rewrite Hlk. lia.
    - unfold c3 in Hk'. rewrite lookup_insert_ne in Hk' by done.
      destruct (Hlv02 k' Hk') as [?|?]; [by left|right; lia]. }
  split; [|done].
  apply HC10.
  pose proof (Counts_bump_add r5 _ _ x Hvx HC5) as HCc. fold r6 in HCc.
  assert (HCd : Counts r7 (ledger_add L (fresh1 hi ++ fresh1 lo ++ x :: cvals c2))).
  { apply (Counts_unbump_add r6 _ _ g Hvg6). eapply Counts_ext; [|exact HCc]. unfold l2. ladd. }
  pose proof (rel_Counts hi r7 _ _ Hvhi7 HCd) as HCe. fold r8 in HCe.
  pose proof (rel_Counts lo r8 _ _ Hvlo8 HCe) as HCf. fold r9 in HCf.
  eapply Counts_ext; [|exact HCf]. intros m. unfold cvals, c3.
  rewrite (ledger_add_insert L c2 k x m Hk2). by rewrite ledger_add_cons.
Qed.

End rec.

(** ** 3. The roots, one memo for all *)
Lemma objs_ok_DStep src (K : positive → Prop) r r' c c' us objs :
  DStep K r r' → c ⊆ c' → (∀ x, x ∈ fresh_of objs → K (absn x)) →
  Forall2 (obj_ok src r c) us objs → Forall2 (obj_ok src r' c') us objs.
Proof.
  intros HS Hs HK HF. induction HF as [|u o us objs Ho HF IH]; constructor.
  - apply (obj_ok_DStep src K r r' c c' u o HS); [|done|done]. intros x Hx. apply HK.
    change (fresh_of (o :: objs)) with (fresh1 o ++ fresh_of objs). apply elem_of_app. by left.
  - apply IH. intros x Hx. apply HK.
    change (fresh_of (o :: objs)) with (fresh1 o ++ fresh_of objs). apply elem_of_app. by right.
Qed.

Lemma copy_roots_dyn src (HIs : Inv src) : ∀ roots objs us0 cache r H n L,
  Forall (valid src) roots → DynSt r → decl src r → jcache_ok src r cache →
  Forall2 (obj_ok src r cache) us0 objs →
  Counts r (ledger_add L (cvals cache ++ fresh_of objs)) →
  ∃ objs' cache' r',
    copy_roots src roots objs cache (ASt r H n)
      = (Ok (objs', cache', None), ASt r' H n) ∧
    DStep (heldn L) r r' ∧ jcache_ok src r' cache' ∧
    Forall2 (obj_ok src r' cache') (us0 ++ roots) objs' ∧
    Counts r' (ledger_add L (cvals cache' ++ fresh_of objs')).
Proof.
  induction roots as [|u roots IH]; intros objs us0 cache r H n L Hr HD Hdecl Hc Hobjs HC.
  { exists objs, cache, r. split; [done|]. split; [by apply DStep_refl|]. split; [done|].
    rewrite app_nil_r. by split. }
  apply Forall_cons in Hr as [Hu Hr].
  cbn [copy_roots]. rewrite (proj2 (mem_valid src u) Hu). cbn [negb].
  assert (HCa : Counts r (ledger_add (ledger_add L (fresh_of objs)) (cvals cache))).
  { eapply Counts_ext; [|exact HC]. ladd. }
  destruct (copy_fn_rec_dyn src HIs (S (S (nvars src))) u cache r H n _ Hu ltac:(lia)
              HD Hdecl Hc HCa) as (o&c1&r1&E1&HS1&Hs1&Hc1&_&HL1&Ho1).
  step E1.
  pose proof HS1 as (HD1&_&_).
  assert (HS1' : DStep (heldn L) r r1).
  { apply (DStep_mono _ _ r r1 (fun m => heldn_add L (fresh_of objs) m) HS1). }
  pose proof (decl_DStep src _ r r1 HS1' Hdecl) as Hdecl1.
  assert (Hobjs1 : Forall2 (obj_ok src r1 c1) us0 objs).
  { apply (objs_ok_DStep src _ r r1 cache c1 us0 objs HS1); [done| |done].
    intros x Hx. by apply heldn_add_in. }
  destruct (IH (objs ++ [o]) (us0 ++ [u]) c1 r1 H n L Hr HD1 Hdecl1 Hc1)
    as (objs'&c2&r2&E2&HS2&Hc2&Hobjs2&HC2).
  { apply Forall2_app; [done|]. constructor; [done|constructor]. }
  { rewrite fresh_of_app, fresh_of_one. eapply Counts_ext; [|exact HL1]. ladd. }
  exists objs', c2, r2. split; [done|]. split; [by apply (DStep_trans _ r r1 r2)|].
  split; [done|]. split; [|done]. by rewrite <- app_assoc in Hobjs2.
Qed.

(** ** 4. The whole call on explicit states, any ledger [L] of external
    references: whatever [L] holds keeps node, validity and function *)
Theorem copy_bdds_from_dyn_spec src roots r0 H n L :
  Inv src → Forall (valid src) roots → DynSt r0 → Counts r0 L → decl src r0 →
  ∃ hs us r',
    copy_bdds_from src roots (ASt r0 H n)
      = (Ok hs, ASt r' (hins H n us) (n + length us)) ∧
    DStep (heldn L) r0 r' ∧ Counts r' (ledger_add L us) ∧
    Forall2 (fun u h => ∃ j u', h = n + j ∧ us !! j = Some u' ∧ same_fun src r' u u')
      roots hs ∧
    (∀ i j u, roots !! i = Some u → roots !! j = Some u → (1 < u)%Z → hs !! i = hs !! j) ∧
    (∀ j, j < length us → n + j ∈ hs).
Proof.
  intros HIs Hr HD0 HC0 Hdecl.
  destruct (copy_roots_dyn src HIs roots [] [] ∅ r0 H n L Hr HD0 Hdecl)
    as (objs&c1&r1&E1&HS1&Hc1&Hobjs&HC1).
  { intros k x Hx. by rewrite lookup_empty in Hx. }
  { constructor. }
  { unfold cvals. rewrite map_to_list_empty. cbn. by apply Counts_add_nil. }
  cbn [app] in Hobjs.
  pose proof HS1 as (HD1&_&_). pose proof (dy_inv r1 HD1) as HI1.
  unfold copy_bdds_from. step E1. cbv beta iota.
  assert (Hinv0 : hinv c1 n [] [] [] ∅ []).
  { split.
    - intros k h Hk. by rewrite lookup_empty in Hk.
    - constructor.
    - intros k. rewrite lookup_empty. split; [by intros [? ?]|]. intros Hk. by apply elem_of_nil in Hk.
    - done.
    - constructor.
    - intros i k Hi. done.
    - cbn. lia. }
  destruct (hfold_spec c1 r1 H n objs [] [] [] ∅ [] Hinv0) as (us&hs&mh&mk&E2&Hinv).
  { intros k Hk. apply elem_of_list_lookup in Hk as [i Hi].
    destruct (Forall2_lookup_r _ _ _ _ _ Hobjs Hi) as (u&_&Ho). by destruct Ho. }
  cbn [app hins length] in E2. rewrite Nat.add_0_r in E2.
  unfold hstep in E2. step E2. cbv beta iota.
  destruct Hinv as [Hmh Hnd Hmk Hled Hhs Hal Hall]. cbn [app] in *.
  destruct (memo_die mh (map_to_list c1) r1 (hins H n us) (n + length us)
              (ledger_add L (fresh_of objs)) HI1) as (r2&E3&HI2&G2&HC2).
  { by apply cvalid_list, (jcache_cvalid src). }
  { eapply Counts_ext; [|exact HC1]. unfold cvals. ladd. }
  step E3. exists hs, us, r2.
  split; [done|]. split.
  { apply (DStep_trans _ r0 r1 r2); [done|]. by apply DStep_grows. }
  split.
  { eapply Counts_ext; [|exact HC2]. intros m. rewrite Hled.
    rewrite (ledger_add_perm _ _ _ m (fmap_Permutation snd _ _ (memo_perm c1 mh mk Hnd Hmk))).
    ladd. }
  split; [|split].
  - apply Forall2_same_length_lookup_2.
    { rewrite (Forall2_length _ _ _ Hobjs). by apply Forall2_length in Hhs. }
    intros i u h Hu Hh.
    destruct (Forall2_lookup_l _ _ _ _ _ Hobjs Hu) as (o&Ho&Hok).
    destruct (Forall2_lookup_l _ _ _ _ _ Hhs Ho) as (h'&Hh'&j&->&Hj).
    assert (h = n + j) as -> by congruence.
    exists j, (onode c1 o). split; [done|]. split; [done|].
    apply (same_fun_grows src r1 r2); [done..|]. by apply (obj_same src r1 c1).
  - intros i j u Hi Hj Hu.
    destruct (Forall2_lookup_l _ _ _ _ _ Hobjs Hi) as (oi&Hoi&Hoki).
    destruct (Forall2_lookup_l _ _ _ _ _ Hobjs Hj) as (oj&Hoj&Hokj).
    destruct oi as [ki|xi]; [|destruct Hoki as [_ ?]; lia].
    destruct oj as [kj|xj]; [|destruct Hokj as [_ ?]; lia].
    destruct Hoki as [Ei _], Hokj as [Ej _]. assert (ki = kj) as -> by congruence.
    by rewrite (Hal i kj Hoi), (Hal j kj Hoj).
  - exact Hall.
Qed.

(** ** 5. The statement on autoref states, under the dynamic invariant *)
Lemma hins_lookup us : ∀ (H : gmap nat Z) n h u, hins H n us !! h = Some u →
  (H !! h = Some u ∧ (h < n ∨ n + length us ≤ h)) ∨ ∃ j, h = n + j ∧ us !! j = Some u.
Proof.
  intros H n h u Hh. destruct (decide (h < n ∨ n + length us ≤ h)) as [Ho|Hn].
  - left. by rewrite hins_old in Hh.
  - right. exists (h - n). split; [lia|].
    destruct (lookup_lt_is_Some_2 us (h - n)) as [y Hy]; [lia|].
    pose proof (hins_new us H n (h - n) y Hy) as E.
    replace (n + (h - n)) with h in E by lia. congruence.
Qed.

Lemma hl_hins us : ∀ (H : gmap nat Z) n k, (∀ h u, H !! h = Some u → h < n) →
  hl (hins H n us) k = ledger_add (hl H) us k.
Proof.
  induction us as [|u us IH]; intros H n k Hb; cbn [hins].
  - by rewrite ledger_add_nil.
  - rewrite IH; cycle 1.
    { intros h y. rewrite lookup_insert_Some. intros [[<- _]|[_ Hy]]; [lia|].
      specialize (Hb _ _ Hy). lia. }
    unfold ledger_add. rewrite hl_insert; cycle 1.
    { destruct (H !! n) eqn:E; [|done]. specialize (Hb _ _ E). lia. }
    rewrite filter_cons. unfold ledger_inc.
    destruct (decide (absn u = k)), (decide (k = absn u)); try congruence; cbn; lia.
Qed.

Theorem copy_bdds_from_dynamic src roots b :
  Inv src → Forall (valid src) roots →
  AInvDT b → max_nodes (mgr b) = None →
  (∀ v, is_Some (vars src !! v) → is_Some (vars (mgr b) !! v)) →
  ∃ hs us b',
    copy_bdds_from src roots b = (Ok hs, b') ∧ length hs = length roots ∧
    (* the target: consistent, counts exact for the handle ledger; every OLD
       handle keeps node, validity and function; same declared names; same
       reordering mode *)
    AInvDT b' ∧ max_nodes (mgr b') = None ∧ AKeepAll b b' ∧
    dom (vars (mgr b')) = dom (vars (mgr b)) ∧
    (last_len (mgr b) = None → last_len (mgr b') = None) ∧
    (is_Some (last_len (mgr b)) → is_Some (last_len (mgr b'))) ∧
    (* the handles: [us] lists the nodes of the new ones *)
    next_hid b' = next_hid b + length us ∧
    (∀ h, h < next_hid b ∨ next_hid b' ≤ h → handles b' !! h = handles b !! h) ∧
    (∀ j u', us !! j = Some u' → handles b' !! (next_hid b + j) = Some u') ∧
    (∀ j, j < length us → next_hid b + j ∈ hs) ∧
    Forall2 (fun u h => ∃ u', next_hid b ≤ h < next_hid b' ∧
               handles b' !! h = Some u' ∧ same_fun src (mgr b') u u') roots hs ∧
    (∀ i j u, roots !! i = Some u → roots !! j = Some u → (1 < u)%Z → hs !! i = hs !! j) ∧
    (* the counts: one reference per new handle *)
    Counts (mgr b') (ledger_add (hledger b) us).
Proof.
  intros HIs Hr [(HIb&Hrc&HC&Hv&Hb) Ht] Hmx Hd. destruct b as [r0 H n].
  cbn [mgr handles next_hid] in *. unfold hledger in *. cbn [handles] in *.
  assert (HD0 : DynSt r0) by (by split).
  destruct (copy_bdds_from_dyn_spec src roots r0 H n (hl H) HIs Hr HD0 HC Hd)
    as (hs&us&r'&E&HS&HC'&HF&Hal&Hall).
  pose proof HS as (HD'&[Edom _]&[Hm1 Hm2]).
  assert (Hold : ∀ h u, H !! h = Some u →
            valid r' u ∧ ∀ ρ, denv r' u ρ = denv r0 u ρ).
  { intros h u Hu.
    assert (Hk : heldn (hl H) (absn u)) by (right; by apply (hl_pos H h)).
    split; [by apply (DStep_valid _ r0 r' u HS Hk), (Hv h)|].
    intros ρ. by apply (DStep_denv _ r0 r' u ρ HS Hk), (Hv h). }
  assert (Hnew : ∀ j u', us !! j = Some u' → valid r' u').
  { intros j u' Hj. pose proof (Hall j (lookup_lt_Some _ _ _ Hj)) as Hin.
    apply elem_of_list_lookup in Hin as [i Hi].
    destruct (Forall2_lookup_r _ _ _ _ _ HF Hi) as (u&_&j'&u''&Ej&Hj'&[Hvu _]).
    assert (j' = j) as -> by lia. congruence. }
  exists hs, us, (ASt r' (hins H n us) (n + length us)). cbn [mgr handles next_hid].
  split; [done|]. split; [symmetry; by eapply Forall2_length|]. split.
  { split; [|apply HD']. split; [apply HD'|]. split; [apply HD'|]. split.
    { eapply Counts_ext; [|exact HC']. intros m. symmetry. by apply hl_hins. }
    cbn [handles next_hid]. split.
    - intros h u Hu. apply hins_lookup in Hu as [[Hu _]|(j&->&Hj)].
      + by apply (Hold h).
      + by apply (Hnew j).
    - intros h u Hu. apply hins_lookup in Hu as [[Hu _]|(j&->&Hj)].
      + specialize (Hb _ _ Hu). lia.
      + apply lookup_lt_Some in Hj. lia. }
  split; [apply HD'|]. split.
  { intros h u Hu. cbn [mgr handles] in *. split.
    - rewrite hins_old; [done|]. left. by apply (Hb h u).
    - by apply (Hold h). }
  split; [done|]. split; [done|]. split; [done|].
  split; [done|]. split; [intros h Hh; by apply hins_old|].
  split; [intros j u' Hj; by apply hins_new|]. split; [done|]. split; [|by split].
  eapply Forall2_impl; [exact HF|]. intros u h (j&u'&->&Hj&Hs). exists u'.
  split; [apply lookup_lt_Some in Hj; lia|]. split; [by apply hins_new|done].
Qed.

(** the statement of section 4 with [DynSt] and [DStep] spelled out *)
Theorem copy_bdds_from_dyn_ledger src roots r0 H n L :
  Inv src → Forall (valid src) roots →
  Inv r0 → rctx r0 = false → tape r0 = [] → max_nodes r0 = None → Counts r0 L →
  (∀ v, is_Some (vars src !! v) → is_Some (vars r0 !! v)) →
  ∃ hs us r',
    copy_bdds_from src roots (ASt r0 H n)
      = (Ok hs, ASt r' (hins H n us) (n + length us)) ∧
    Inv r' ∧ rctx r' = false ∧ tape r' = [] ∧ max_nodes r' = None ∧
    keeps (heldn L) r0 r' ∧
    (last_len r0 = None → last_len r' = None) ∧
    (is_Some (last_len r0) → is_Some (last_len r')) ∧
    Counts r' (ledger_add L us) ∧
    Forall2 (fun u h => ∃ j u', h = n + j ∧ us !! j = Some u' ∧ same_fun src r' u u')
      roots hs ∧
    (∀ i j u, roots !! i = Some u → roots !! j = Some u → (1 < u)%Z → hs !! i = hs !! j) ∧
    (∀ j, j < length us → n + j ∈ hs).
Proof.
  intros HIs Hr HI0 Hc Ht Hmx HC Hd.
  destruct (copy_bdds_from_dyn_spec src roots r0 H n L HIs Hr (Build_DynSt r0 HI0 Hc Ht Hmx) HC Hd)
    as (hs&us&r'&E&([HI' Hc' Ht' Hmx']&Hk&[Hm1 Hm2])&HC'&HF&Hal&Hall).
  exists hs, us, r'. by split_and!.
Qed.

(** a decidable form of "the variables of the source are declared" *)
Lemma decl_dec src r : bool_decide (dom (vars src) ⊆ dom (vars r)) = true → decl src r.
Proof.
  intros E v Hv. apply bool_decide_eq_true in E. apply elem_of_dom, E. by apply elem_of_dom.
Qed.
