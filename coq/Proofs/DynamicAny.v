(** * DynamicAny: the decorator theorem for EVERY value of [max_nodes].

    [Dynamic.try_to_reorder_correct] assumes an unbounded table and concludes
    success.  With a bounded table there is one more outcome, [Err ERuntime]
    (raised by the first attempt, by the sifting pass that serves a request,
    or by the second attempt); the manager is then as safe as after a
    success: well formed, same ledger, context flag off, same reordering
    mode, same bound, every held reference keeps number and function. *)
From DD Require Export Dynamic3.

Theorem try_to_reorder_any {A} (func : MS A) Pre Post s L r s' :
  sifting_ok' →
  op_spec func (heldn L) Pre Post →
  Inv s → Counts s L → Pre s → rctx s = false →
  try_to_reorder func s = (r, s') →
  r = Err EOracle ∨
  (Inv s' ∧ Counts s' L ∧ rctx s' = false ∧
   (last_len s = None → last_len s' = None) ∧
   (is_Some (last_len s) → is_Some (last_len s')) ∧
   max_nodes s' = max_nodes s ∧
   keeps (heldn L) s s' ∧
   match r with
   | Ok a => Post s a s'
   | Err e => e = ERuntime ∧ is_Some (max_nodes s)
   end).
Proof.
  intros Hsift Hop HI HC HP Hctx.
  set (K := heldn L) in *.
  unfold try_to_reorder. cbn [bind get modify]. unfold bind at 1, catch at 1.
  set (s0 := s <| rctx := true |>).
  assert (HI0 : Inv s0) by (by apply Inv_rctx).
  assert (HC0 : Counts s0 L) by (by apply (Counts_same s)).
  assert (Hk0 : keeps K s s0) by apply keeps_rctx.
  assert (HP0 : Pre s0) by (by apply (pre_stable _ _ _ _ Hop s s0)).
  destruct (func s0) as [r1 s1] eqn:E1.
  destruct (spec_on _ _ _ _ Hop s0 r1 s1 HI0 HP0 eq_refl E1) as (HI1&He1&Hf1&HCs1&Hr1).
  pose proof (HCs1 L HC0) as HC1.
  assert (He01 : extends s s1) by done.
  assert (Hll1 : last_len s1 = last_len s) by (by destruct Hf1 as (?&_)).
  assert (Hmx1 : max_nodes s1 = max_nodes s) by (by rewrite (frame_max_nodes _ _ Hf1)).
  cbn [bind modify]. rewrite Hctx.
  (* an exit after the first attempt *)
  assert (Hfirst : Inv (s1 <| rctx := false |>) ∧ Counts (s1 <| rctx := false |>) L ∧
            rctx (s1 <| rctx := false |>) = false ∧
            (last_len s = None → last_len (s1 <| rctx := false |>) = None) ∧
            (is_Some (last_len s) → is_Some (last_len (s1 <| rctx := false |>))) ∧
            max_nodes (s1 <| rctx := false |>) = max_nodes s ∧
            keeps K s (s1 <| rctx := false |>)).
  { assert (Hsame : same_tables s1 (s1 <| rctx := false |>)) by (by repeat split).
    split; [by apply (Inv_same s1)|split; [by apply (Counts_same s1)|]].
    split; [done|split; [intros E; cbn; congruence|split; [intros E; cbn; congruence|]]].
    split; [done|]. apply (keeps_same_r K s s1); [done|]. by apply keeps_extends. }
  destruct r1 as [a|e].
  { (* the request did not fire *)
    unfold ret. intros [= <- <-]. right.
    destruct Hfirst as (?&?&?&?&?&?&?). split_and!; try done.
    apply (post_same _ _ _ _ Hop s a s1); [by repeat split|].
    by apply (post_stable _ _ _ _ Hop s s0 a s1). }
  destruct Hr1 as [[-> Hon]|[-> Hb]]; cycle 1.
  { (* the table is full in the first attempt *)
    rewrite decide_False by (by intros [[=] _]). unfold raise. intros [= <- <-]. right.
    destruct Hfirst as (?&?&?&?&?&?&?). split_and!; done. }
  (* the request fired at nesting depth 0 *)
  change (last_len s0) with (last_len s) in Hon.
  rewrite decide_True by done. cbn [bind get modify].
  set (s2 := s1 <| rctx := false |> <| last_len := None |>).
  assert (Hsame2 : same_tables s1 s2) by (by repeat split).
  assert (HI2 : Inv s2) by (by apply (Inv_same s1)).
  assert (HC2 : Counts s2 L) by (by apply (Counts_same s1)).
  assert (He02 : extends s s2) by done.
  assert (Hk2 : keeps K s s2) by (by apply keeps_extends).
  destruct (reorder None s2) as [r3 s3] eqn:E3.
  destruct (Hsift s2 L r3 s3 HI2 HC2 eq_refl E3)
    as [->|(Hr3&HI3&HC3&Hll3&Hc3&Hmx3&Hk3)].
  { rewrite (bind_ok _ _ _ _ _ (catch_run _ _ _ _ E3)). cbn [bind modify raise].
    intros [= <- <-]. by left. }
  change (max_nodes s2) with (max_nodes s1) in Hmx3. rewrite Hmx1 in Hmx3.
  change (rctx s2) with false in Hc3.
  rewrite (bind_ok _ _ _ _ _ (catch_run _ _ _ _ E3)).
  destruct Hr3 as [->|[-> Hb3]]; cycle 1.
  { (* the table is full: sifting stops between two swaps; the threshold is put back *)
    cbn [bind modify raise]. intros [= <- <-]. right.
    assert (HsameR : same_tables s3 (s3 <| last_len := last_len (s1 <| rctx := false |>) |>))
      by (by repeat split).
    split; [by apply (Inv_same s3)|split; [by apply (Counts_same s3)|]].
    split; [done|].
    split; [intros E; destruct Hon as [l Hl]; congruence|].
    split; [intros _; cbn; by rewrite Hll1|].
    split; [done|].
    split; [|split; [done|by rewrite <- Hmx1]].
    apply (keeps_same_r _ s s3); [done|].
    by apply (keeps_trans K K s s2 s3). }
  cbn [bind ret get modify].
  unfold bind at 1, catch at 1.
  set (s3' := s3 <| rctx := true |>).
  assert (HI3' : Inv s3') by (by apply Inv_rctx).
  assert (HC3' : Counts s3' L) by (by apply (Counts_same s3)).
  assert (Hk3' : keeps K s s3').
  { apply (keeps_same_r K s s3); [by repeat split|].
    by apply (keeps_trans K K s s2 s3). }
  assert (HP3 : Pre s3') by (by apply (pre_stable _ _ _ _ Hop s s3')).
  destruct (func s3') as [r4 s4] eqn:E4.
  destruct (spec_on _ _ _ _ Hop s3' r4 s4 HI3' HP3 eq_refl E4) as (HI4&He4&Hf4&HCs4&Hr4).
  pose proof (HCs4 L HC3') as HC4.
  assert (Hmx4 : max_nodes s4 = max_nodes s).
  { rewrite (frame_max_nodes _ _ Hf4). exact Hmx3. }
  cbn [bind modify].
  set (sF := s4 <| rctx := rctx s3 |> <| last_len := _ |>).
  assert (HsameF : same_tables s4 sF) by (by repeat split).
  assert (Hsafe : Inv sF ∧ Counts sF L ∧ rctx sF = false ∧
            (last_len s = None → last_len sF = None) ∧
            (is_Some (last_len s) → is_Some (last_len sF)) ∧
            max_nodes sF = max_nodes s ∧ keeps K s sF).
  { split; [by apply (Inv_same s4)|split; [by apply (Counts_same s4)|]].
    split; [done|].
    split; [intros E; destruct Hon as [l Hl]; congruence|].
    split; [intros _; by eexists|].
    split; [done|].
    apply (keeps_same_r K s s4); [done|].
    apply (keeps_trans K K s s3' s4); [done|done|]. by apply keeps_extends. }
  destruct Hsafe as (?&?&?&?&?&?&?).
  destruct r4 as [a|e]; cycle 1.
  { (* requests are off in the second attempt: only a full table can stop it *)
    assert (Hll3' : last_len s3' = None) by done.
    destruct (benign_off s3' e Hll3' Hr4) as [-> Hb4].
    cbn [reraise raise]. unfold raise. intros [= <- <-]. right. split_and!; try done.
    change (max_nodes s3') with (max_nodes s3) in Hb4. by rewrite Hmx3 in Hb4. }
  cbn [reraise bind ret modify]. unfold ret. intros [= <- <-]. right. split_and!; try done.
  apply (post_same _ _ _ _ Hop s a s4); [done|].
  by apply (post_stable _ _ _ _ Hop s s3' a s4).
Qed.

(** with an empty oracle tape there is no oracle error *)
Definition tstep (L : positive → nat) (s s' : st) : Prop :=
  Inv s' ∧ Counts s' L ∧ rctx s' = false ∧ tape s' = [] ∧
  (last_len s = None → last_len s' = None) ∧
  (is_Some (last_len s) → is_Some (last_len s')) ∧
  max_nodes s' = max_nodes s ∧ keeps (heldn L) s s'.

Theorem ite_any s L g u v r s' :
  Inv s → Counts s L → rctx s = false → tape s = [] →
  valid s g → valid s u → valid s v →
  heldn L (absn g) → heldn L (absn u) → heldn L (absn v) →
  ite g u v s = (r, s') →
  tstep L s s' ∧
  match r with
  | Ok w => valid s' w ∧ ∀ ρ, denv s' w ρ = if denv s g ρ then denv s u ρ else denv s v ρ
  | Err e => e = ERuntime ∧ is_Some (max_nodes s)
  end.
Proof.
  intros HI HC Hc Ht Hg Hu Hv Kg Ku Kv Hrun.
  destruct (no_oracle (ite g u v) s r s' _ (nt_ite g u v) Ht Hrun
              (try_to_reorder_any (ite_ g u v) (ite_pre g u v) (ite_post g u v) s L r s'
                 sifting_ok'_holds (ite_op_spec _ g u v Kg Ku Kv) HI HC
                 (conj Hg (conj Hu Hv)) Hc Hrun))
    as [(?&?&?&?&?&?&?&Hr) Ht'].
  split; [by split_and!|]. by destruct r.
Qed.

Theorem var_any s L name r s' :
  Inv s → Counts s L → rctx s = false → tape s = [] →
  is_Some (vars s !! name) →
  var name s = (r, s') →
  tstep L s s' ∧
  match r with
  | Ok w => valid s' w ∧ ∀ ρ, denv s' w ρ = ρ name
  | Err e => e = ERuntime ∧ is_Some (max_nodes s)
  end.
Proof.
  intros HI HC Hc Ht Hn Hrun.
  destruct (no_oracle (var name) s r s' _ (nt_var name) Ht Hrun
              (try_to_reorder_any (var_body name) (var_pre name) (var_post name) s L r s'
                 sifting_ok'_holds (var_op_spec _ name) HI HC Hn Hc Hrun))
    as [(?&?&?&?&?&?&?&Hr) Ht'].
  split; [by split_and!|]. by destruct r.
Qed.
