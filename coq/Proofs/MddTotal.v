(** * MddTotal: the MDD operations on ARBITRARY arguments, both outcomes, and
      histories of calls (the MDD analogue of [Total.v]).

    Every public operation of [dd.mdd.MDD] modelled in [Mdd.v], called with
    any integers / lists / operator strings: the manager keeps its invariant
    and its exact reference counts, every reference keeps its meaning, a
    call that is rejected leaves the state untouched, and the only error
    that can arise after the state has grown is the allocation oracle
    ([EOracle], never with an empty tape).

    The single obligation left to the caller of [find_or_add] is the level
    guard (the method trusts the caller with the level, as [dd.bdd]); without
    it the call succeeds and breaks the invariant
    ([m_find_or_add_unguarded_refuted]). *)
From DD Require Export MddOps Driver5.
Local Open Scope string_scope.

(** ** 0. Small facts *)

(** decidability of validity, by the membership test of the model (no
    [Decision] instance on purpose) *)
Lemma mvalid_dec s u : {mvalid s u} + {¬ mvalid s u}.
Proof.
  destruct (m_mem u s) eqn:E.
  - left. by apply m_mem_valid.
  - right. intros H. apply m_mem_valid in H. congruence.
Qed.

Lemma all_eq_dec nodes : {all_eq nodes} + {¬ all_eq nodes}.
Proof.
  destruct (forallb (fun x => bool_decide (x = hd 0%Z nodes)) nodes) eqn:E.
  - left. intros x Hx. rewrite forallb_forall in E.
    apply elem_of_list_In, E, bool_decide_eq_true in Hx. done.
  - right. intros H. apply not_true_iff_false in E. apply E, forallb_forall.
    intros x Hx%elem_of_list_In. apply bool_decide_eq_true. by apply H.
Qed.

(** what [mextends] gives for the references of the smaller manager *)
Definition mkeeps (s s' : mst) : Prop :=
  ∀ u, mvalid s u → mvalid s' u ∧ ∀ I, MD s' u I = MD s u I.

Lemma mextends_keeps s s' : MInv s → mextends s s' → mkeeps s s'.
Proof.
  intros HI He u Hu. split; [by apply (mvalid_extends s s')|].
  intros I. by apply MD_extends.
Qed.

Lemma m_getsucc_junk s u : ¬ mvalid s u → m_getsucc u s = (Err EKey, s).
Proof.
  intros Hn. unfold m_getsucc. cbn [bind get]. case_decide; [done|].
  destruct (msucc s !! absn u) as [t|] eqn:E; [|done].
  exfalso. apply Hn. split; [done|]. by eexists.
Qed.

Lemma mref_junk s u : MInv s → ¬ mvalid s u → u = 0%Z ∨ mref s !! absn u = None.
Proof.
  intros HI Hn. destruct (decide (u = 0%Z)) as [|Hu]; [by left|right].
  destruct (mref s !! absn u) as [c|] eqn:E; [|done]. exfalso. apply Hn. split; [done|].
  apply elem_of_dom. rewrite <- (minv_ref _ HI). apply elem_of_dom. by eexists.
Qed.

(** setting the oracle tape touches nothing else *)
Lemma MInv_tape s t : MInv s → MInv (s <| mtape := t |>).
Proof. apply MInv_same; done. Qed.
Lemma MCounts_tape s L t : MCounts s L → MCounts (s <| mtape := t |>) L.
Proof. by apply MCounts_same. Qed.
Lemma MD_tape s t u I : MD (s <| mtape := t |>) u I = MD s u I.
Proof. by apply MD_same. Qed.

(** ** 1. [find_or_add(i, *nodes)], any level, any successors *)

(** the checks made by the method *)
Definition mfa_accepted (s : mst) (i : nat) (nodes : list Z) : Prop :=
  i < mnvars s ∧ mlen_at s i (length nodes) ∧ nodes ≠ [] ∧ ∀ x, x ∈ nodes → mvalid s x.

(** the obligation of the caller, which the method does not check: the
    level is above the levels of the successors (only matters when a node
    may be created: the call is accepted and the successors differ) *)
Definition mfa_guard (s : mst) (i : nat) (nodes : list Z) : Prop :=
  mfa_accepted s i nodes → ¬ all_eq nodes → ∀ x, x ∈ nodes → i < mlvl_of s x.

(** level out of range, wrong arity, empty list, unknown / zero successor at
    any position: [ValueError] before anything is touched *)
Lemma m_find_or_add_cases s i nodes : MInv s →
  mfa_accepted s i nodes ∨
  (¬ mfa_accepted s i nodes ∧ m_find_or_add i nodes s = (Err EValue, s)).
Proof.
  intros HI. unfold m_find_or_add. cbn [bind get]. unfold ensure.
  destruct (decide (i < mnvars s)) as [Hi|Hi]; cycle 1.
  { right. split; [by intros (?&_)|]. unfold mnvars in Hi.
    by rewrite bool_decide_eq_false_2 by done. }
  pose proof Hi as Hi'. unfold mnvars in Hi'.
  rewrite bool_decide_eq_true_2 by done. rewrite (bind_ok _ _ s tt s) by done.
  destruct (minv_lvls _ HI i Hi) as (v0&n&Hv0).
  destruct (m_var_at_level_ok s i n HI ltac:(by exists v0)) as (v&Ev&Hv).
  rewrite (bind_ok _ _ _ _ _ Ev), (bind_ok _ _ _ _ _ (m_len_of_ok s v _ _ Hv)).
  destruct (decide (length nodes = n)) as [Hn|Hn]; cycle 1.
  { right. split; [|by rewrite bool_decide_eq_false_2 by done].
    intros (_&Hl&_). apply Hn. apply (mlen_at_inj s i); [done|done|by exists v]. }
  rewrite bool_decide_eq_true_2 by done. rewrite (bind_ok _ _ s tt s) by done.
  destruct (decide (nodes = [])) as [He|He].
  { right. split; [by intros (_&_&?&_)|]. by rewrite bool_decide_eq_false_2 by (by intros ?). }
  rewrite bool_decide_eq_true_2 by done. rewrite (bind_ok _ _ s tt s) by done.
  destruct (forallb (fun u => m_mem u s) nodes) eqn:Hm.
  - left. split; [done|]. split; [exists v; by rewrite Hn|]. split; [done|].
    intros x Hx. rewrite forallb_forall in Hm. apply m_mem_valid, Hm. by apply elem_of_list_In.
  - right. split; [|done]. intros (_&_&_&Hall).
    apply not_true_iff_false in Hm. apply Hm, forallb_forall.
    intros x Hx%elem_of_list_In. by apply m_mem_valid, Hall.
Qed.

Lemma m_find_or_add_rejected s i nodes : MInv s → ¬ mfa_accepted s i nodes →
  m_find_or_add i nodes s = (Err EValue, s).
Proof. intros HI Hn. by destruct (m_find_or_add_cases s i nodes HI) as [?|[_ ?]]. Qed.

(** multiplication by the sign of the first successor *)
Lemma all_eq_sign (r0 : Z) nodes : (r0 = 1 ∨ r0 = -1)%Z →
  all_eq ((fun x => (r0 * x)%Z) <$> nodes) ↔ all_eq nodes.
Proof.
  intros Hr.
  assert (Hhd : hd 0%Z ((fun x => (r0 * x)%Z) <$> nodes) = (r0 * hd 0 nodes)%Z).
  { destruct nodes; cbn; [lia|done]. }
  split.
  - intros H x Hx.
    assert (r0 * x = r0 * hd 0 nodes)%Z as E.
    { rewrite <- Hhd. apply H. apply elem_of_list_fmap. by exists x. }
    lia.
  - intros H y Hy. apply elem_of_list_fmap in Hy as (x&->&Hx). rewrite Hhd.
    by rewrite (H x Hx).
Qed.

(** accepted, all successors equal: the successor itself, nothing is touched
    (whatever the level) *)
Lemma m_find_or_add_alleq s i nodes : MInv s → mfa_accepted s i nodes → all_eq nodes →
  m_find_or_add i nodes s = (Ok (hd 0%Z nodes), s).
Proof.
  intros HI (Hi&Hlen&Hne&Hch) Hae.
  unfold m_find_or_add. cbn [bind get]. unfold ensure. unfold mnvars in Hi.
  rewrite bool_decide_eq_true_2 by exact Hi. rewrite (bind_ok _ _ s tt s) by done.
  destruct (m_var_at_level_ok s i _ HI Hlen) as (v&Ev&Hv).
  rewrite (bind_ok _ _ _ _ _ Ev).
  rewrite (bind_ok _ _ _ _ _ (m_len_of_ok s v _ _ Hv)).
  rewrite bool_decide_eq_true_2 by done. rewrite (bind_ok _ _ s tt s) by done.
  rewrite bool_decide_eq_true_2 by done. rewrite (bind_ok _ _ s tt s) by done.
  assert (Hmem : forallb (fun u => m_mem u s) nodes = true).
  { apply forallb_forall. intros x Hx%elem_of_list_In. apply m_mem_valid, Hch, Hx. }
  rewrite Hmem. rewrite (bind_ok _ _ s tt s) by done.
  rewrite !hd_head.
  set (r0 := (if decide (hd 0 nodes < 0)%Z then -1 else 1)%Z).
  assert (Hr0 : (r0 = 1 ∨ r0 = -1)%Z) by (subst r0; case_decide; lia).
  set (nodes' := (fun x => (r0 * x)%Z) <$> nodes).
  assert (Hae' : all_eq nodes') by (by apply all_eq_sign).
  assert (Hall : forallb (fun x => bool_decide (x = hd 0%Z nodes')) nodes' = true).
  { apply forallb_forall. intros x Hx%elem_of_list_In. apply bool_decide_eq_true. by apply Hae'. }
  rewrite Hall. unfold ret. f_equal. f_equal.
  assert (hd 0%Z nodes' = (r0 * hd 0 nodes)%Z) as -> by (subst nodes'; destruct nodes; cbn; [lia|done]).
  destruct Hr0 as [-> | ->]; lia.
Qed.

Theorem m_find_or_add_total s L i nodes r s' :
  MInv s → MCounts s L → mfa_guard s i nodes →
  m_find_or_add i nodes s = (r, s') →
  MInv s' ∧ MCounts s' L ∧ mextends s s' ∧ mframe s s' ∧ mkeeps s s' ∧
  (¬ mfa_accepted s i nodes → r = Err EValue ∧ s' = s) ∧
  (mfa_accepted s i nodes → all_eq nodes → r = Ok (hd 0%Z nodes) ∧ s' = s) ∧
  (mfa_accepted s i nodes → ∀ u, r = Ok u →
     mvalid s' u ∧ ∀ I, MD s' u I = MD s (msel nodes (I i)) I) ∧
  (∀ e, r = Err e → e ≠ EOracle → s' = s) ∧
  (r = Err EOracle → mtape s ≠ []).
Proof.
  intros HI HC Hg Hrun.
  destruct (m_find_or_add_cases s i nodes HI) as [Hacc|[Hrej E]].
  - destruct (all_eq_dec nodes) as [Hae|Hnae].
    + rewrite (m_find_or_add_alleq s i nodes HI Hacc Hae) in Hrun. injection Hrun as <- <-.
      split; [done|]. split; [done|]. split; [reflexivity|]. split; [reflexivity|].
      split; [by apply mextends_keeps|]. split; [done|]. split; [done|].
      split; [|done]. intros _ u [= <-].
      destruct Hacc as (_&_&Hne&Hch).
      assert (hd 0%Z nodes ∈ nodes) as Hin by (destruct nodes; [done|left]).
      split; [by apply Hch|]. intros I. by rewrite (Hae _ (msel_in nodes (I i) Hne)).
    + pose proof (Hg Hacc Hnae) as Hlv. destruct Hacc as (Hi&Hlen&Hne&Hch).
      assert (Hch' : ∀ x, x ∈ nodes → mvalid s x ∧ i < mlvl_of s x)
        by (intros x Hx; split; [by apply Hch|by apply Hlv]).
      destruct (m_find_or_add_spec s i nodes r s' HI Hne Hlen Hch' Hrun) as (HI'&He&Hf&Hr).
      pose proof (m_find_or_add_counts s L i nodes r s' HI HC Hch Hrun) as HC'.
      split; [done|]. split; [done|]. split; [done|]. split; [done|].
      split; [by apply mextends_keeps|].
      split; [intros Hn; exfalso; by apply Hn|]. split; [done|].
      split; [|split].
      * intros _ u ->. by destruct Hr as (?&_&?).
      * intros e -> Hne'. by destruct Hr as [-> _].
      * intros ->. by destruct Hr as [_ ?].
  - rewrite E in Hrun. injection Hrun as <- <-.
    split; [done|]. split; [done|]. split; [reflexivity|]. split; [reflexivity|].
    split; [by apply mextends_keeps|]. split; [done|].
    split; [intros Ha; by destruct Hrej|]. split; [intros Ha; by destruct Hrej|].
    split; [done|]. done.
Qed.

(** ** 2. [ite(g, u, v)], any integers.
    An unknown node is a [KeyError] of the first table lookup, nothing is
    touched ([ite(1, u, v)] / [ite(-1, u, v)] return [u] / [v] unexamined). *)
Lemma m_ite_junk f s g u v r s' : MInv s →
  ¬ (mvalid s g ∧ mvalid s u ∧ mvalid s v) →
  m_ite (S f) g u v s = (r, s') →
  s' = s ∧ (g ≠ 1%Z → g ≠ (-1)%Z → r = Err EKey) ∧ (∀ e, r = Err e → e = EKey).
Proof.
  intros HI Hbad. cbn [m_ite].
  destruct (decide (g = 1%Z)) as [->|Hg1]; [by intros [= <- <-]|].
  destruct (decide (g = (-1)%Z)) as [->|Hgm1]; [by intros [= <- <-]|].
  cbn [bind get].
  destruct (mite s !! (g, u, v)) as [w|] eqn:Hc.
  { destruct (minv_ite _ HI _ _ _ _ Hc) as (?&?&?&_). exfalso. by apply Hbad. }
  assert (Hfin : (Err EKey : res Z, s) = (r, s') →
    s' = s ∧ (g ≠ 1%Z → g ≠ (-1)%Z → r = Err EKey) ∧ (∀ e, r = Err e → e = EKey)).
  { intros [= <- <-]. split; [done|]. split; [done|]. by intros e [= <-]. }
  destruct (mvalid_dec s g) as [Hg|Hg]; cycle 1.
  { by rewrite (bind_err _ _ _ _ _ (m_getsucc_junk s g Hg)). }
  pose proof Hg as [Hg0 [tg Htg]].
  rewrite (bind_ok _ _ _ _ _ (m_getsucc_ok s g tg Hg0 Htg)).
  destruct (mvalid_dec s u) as [Hu|Hu]; cycle 1.
  { by rewrite (bind_err _ _ _ _ _ (m_getsucc_junk s u Hu)). }
  pose proof Hu as [Hu0 [tu Htu]].
  rewrite (bind_ok _ _ _ _ _ (m_getsucc_ok s u tu Hu0 Htu)).
  destruct (mvalid_dec s v) as [Hv|Hv]; [exfalso; by apply Hbad|].
  by rewrite (bind_err _ _ _ _ _ (m_getsucc_junk s v Hv)).
Qed.

Theorem m_ite__total s L g u v r s' :
  MInv s → MCounts s L → m_ite_ g u v s = (r, s') →
  MInv s' ∧ MCounts s' L ∧ mextends s s' ∧ mframe s s' ∧ mkeeps s s' ∧
  (mvalid s g → mvalid s u → mvalid s v → ∀ w, r = Ok w →
     mvalid s' w ∧ ∀ I, MD s' w I = if MD s g I then MD s u I else MD s v I) ∧
  (¬ (mvalid s g ∧ mvalid s u ∧ mvalid s v) →
     s' = s ∧ (g ≠ 1%Z → g ≠ (-1)%Z → r = Err EKey)) ∧
  (∀ e, r = Err e → e ≠ EOracle → e = EKey ∧ s' = s) ∧
  (r = Err EOracle → mtape s ≠ []).
Proof.
  intros HI HC Hrun.
  destruct (mvalid_dec s g) as [Hg|Hg]; [destruct (mvalid_dec s u) as [Hu|Hu];
    [destruct (mvalid_dec s v) as [Hv|Hv]|]|].
  { (* all three are nodes *)
    destruct (m_ite__spec s g u v r s' HI Hg Hu Hv Hrun) as (HI'&He&Hf&Hr).
    pose proof (m_ite__counts s L g u v r s' HI HC Hg Hu Hv Hrun) as HC'.
    split; [done|]. split; [done|]. split; [done|]. split; [done|].
    split; [by apply mextends_keeps|]. split; [|split; [|split]].
    - intros _ _ _ w ->. done.
    - intros Hn. exfalso. by apply Hn.
    - intros e -> Hne. by destruct Hr as [-> _].
    - intros ->. by destruct Hr as [_ ?]. }
  all: assert (Hbad : ¬ (mvalid s g ∧ mvalid s u ∧ mvalid s v)) by (by intros (?&?&?)).
  all: unfold m_ite_ in Hrun; cbn [bind get] in Hrun.
  all: destruct (m_ite_junk _ s g u v r s' HI Hbad Hrun) as (->&Hk&He).
  all: split; [done|]; split; [done|]; split; [reflexivity|]; split; [reflexivity|].
  all: split; [by apply mextends_keeps|].
  all: split; [intros; exfalso; by apply Hbad|]; split; [done|].
  all: split; [intros e -> _; split; [by apply He|done]|].
  all: intros ->; by specialize (He _ eq_refl).
Qed.

(** ** 3. [apply(op, u, v, w)], any operator string, any operands *)

(** unknown operator, wrong arity, unknown operand: [ValueError] before
    anything is touched *)
Theorem mdd_apply_rejected tbl s op u v w :
  arity_ok op v w = false ∨ ¬ mvalid s u ∨ ¬ movalid s v ∨ ¬ movalid s w ∨
  mdd_find tbl op = None →
  mdd_apply_with tbl op u v w s = (Err EValue, s).
Proof.
  intros H. unfold mdd_apply_with, ensure.
  destruct (arity_ok op v w) eqn:Ha; [|done].
  rewrite (bind_ok _ _ s tt s) by done. cbn [bind get].
  destruct (m_mem u s) eqn:Hu; [|done]. rewrite (bind_ok _ _ s tt s) by done.
  destruct (match v with Some v => m_mem v s | None => true end) eqn:Hv; [|done].
  rewrite (bind_ok _ _ s tt s) by done.
  destruct (match w with Some w => m_mem w s | None => true end) eqn:Hw; [|done].
  rewrite (bind_ok _ _ s tt s) by done.
  destruct H as [H|[H|[H|[H|H]]]].
  - done.
  - exfalso. by apply H, m_mem_valid.
  - exfalso. apply H. destruct v; [by apply m_mem_valid|done].
  - exfalso. apply H. destruct w; [by apply m_mem_valid|done].
  - unfold mdd_find in H.
    destruct (list_find _ tbl) as [[k [names o]]|]; [done|done].
Qed.

Theorem mdd_apply_total tbl s L op u v w r s' :
  MInv s → MCounts s L → mdd_apply_with tbl op u v w s = (r, s') →
  MInv s' ∧ MCounts s' L ∧ mextends s s' ∧ mframe s s' ∧ mkeeps s s' ∧
  (∀ e, r = Err e → e ≠ EOracle → s' = s) ∧
  (r = Err EOracle → mtape s ≠ []).
Proof.
  intros HI HC.
  assert (Hsame : ∀ r0 : res Z, (∀ e, r0 = Err e → e ≠ EOracle) → (r0, s) = (r, s') →
    MInv s' ∧ MCounts s' L ∧ mextends s s' ∧ mframe s s' ∧ mkeeps s s' ∧
    (∀ e, r = Err e → e ≠ EOracle → s' = s) ∧ (r = Err EOracle → mtape s ≠ [])).
  { intros r0 Hr0 [= <- <-]. split; [done|]. split; [done|]. split; [reflexivity|].
    split; [reflexivity|]. split; [by apply mextends_keeps|]. split; [done|].
    intros E. by destruct (Hr0 _ E). }
  unfold mdd_apply_with, ensure.
  destruct (arity_ok op v w); [|by apply Hsame; intros e [= <-]].
  rewrite (bind_ok _ _ s tt s) by done. cbn [bind get].
  destruct (m_mem u s); [|by apply Hsame; intros e [= <-]].
  rewrite (bind_ok _ _ s tt s) by done.
  destruct (match v with Some v => m_mem v s | None => true end);
    [|by apply Hsame; intros e [= <-]].
  rewrite (bind_ok _ _ s tt s) by done.
  destruct (match w with Some w => m_mem w s | None => true end);
    [|by apply Hsame; intros e [= <-]].
  rewrite (bind_ok _ _ s tt s) by done.
  destruct (list_find _ tbl) as [[k [names [[o|a b c|fa a b]|]]]|];
    try (by apply Hsame; intros e [= <-]).
  intros Hrun.
    destruct (m_ite__total s L _ _ _ r s' HI HC Hrun) as (?&?&?&?&?&_&_&He&?).
    split_and!; try done. intros e E1 E2. by destruct (He e E1 E2).
Qed.

(** ** 4. [incref(u)] / [decref(u)], any integer *)
Theorem m_incref_total s L u r s' :
  MInv s → MCounts s L → m_incref u s = (r, s') →
  MInv s' ∧ mextends s s' ∧ mframe s s' ∧ mkeeps s s' ∧
  (mvalid s u → r = Ok tt ∧ MCounts s' (ledger_inc L (absn u))) ∧
  (¬ mvalid s u → r = Err EKey ∧ s' = s).
Proof.
  intros HI HC Hrun. destruct (mvalid_dec s u) as [Hu|Hu].
  - destruct (MCounts_incref s L u r s' Hu HC Hrun) as [-> HC'].
    assert (Hr : is_Some (mref s !! absn u)).
    { apply elem_of_dom. rewrite (minv_ref _ HI). apply elem_of_dom, Hu. }
    rewrite (m_incref_run s u (proj1 Hu) Hr) in Hrun. injection Hrun as <-.
    assert (He : mextends s (s <| mref ::= alter S (absn u) |>)) by done.
    split; [apply (MInv_same s); try done; cbn; apply dom_alter_L|].
    split; [done|]. split; [by intros ?|]. split; [by apply mextends_keeps|]. split; [done|done].
  - assert (m_incref u s = (Err EKey, s)) as E.
    { unfold m_incref. cbn [bind get]. destruct (mref_junk s u HI Hu) as [->|Hn]; [done|].
      case_decide; [done|]. by rewrite Hn. }
    rewrite E in Hrun. injection Hrun as <- <-.
    split; [done|]. split; [reflexivity|]. split; [reflexivity|].
    split; [by apply mextends_keeps|]. done.
Qed.

(** [decref] of a node the caller holds ([0 < L]): the ledger entry drops.
    Without an external reference the call still succeeds: when the counter
    is already zero it floors and nothing changes; otherwise the counter
    falls below the number of stored edges and no ledger explains the
    counters any more (this is the caller's obligation in histories). *)
Theorem m_decref_total s L u r s' :
  MInv s → MCounts s L → m_decref u s = (r, s') →
  MInv s' ∧ mextends s s' ∧ mframe s s' ∧ mkeeps s s' ∧
  (mvalid s u → r = Ok tt ∧
     (0 < L (absn u) → MCounts s' (ledger_dec L (absn u))) ∧
     (L (absn u) = 0 → m_indeg (msucc s) (absn u) = 0 → s' = s) ∧
     (L (absn u) = 0 → 0 < m_indeg (msucc s) (absn u) → ∀ L', ¬ MCounts s' L')) ∧
  (¬ mvalid s u → r = Err EKey ∧ s' = s).
Proof.
  intros HI HC Hrun. destruct (mvalid_dec s u) as [Hu|Hu].
  - assert (Hd : absn u ∈ dom (msucc s)) by apply elem_of_dom, Hu.
    assert (Hr : is_Some (mref s !! absn u)).
    { apply elem_of_dom. rewrite (minv_ref _ HI). done. }
    pose proof Hrun as Hrun0.
    rewrite (m_decref_run s u (proj1 Hu) Hr) in Hrun. injection Hrun as <- <-.
    assert (He : mextends s (s <| mref ::= alter Nat.pred (absn u) |>)) by done.
    split; [apply (MInv_same s); try done; cbn; apply dom_alter_L|].
    split; [done|]. split; [by intros ?|]. split; [by apply mextends_keeps|]. split; [|done].
    intros _. split; [done|]. split; [|split].
    + intros HL. by destruct (MCounts_decref s L u _ _ Hu HC HL Hrun0) as [_ ?].
    + intros HL Hin. destruct HC as [H1 _]. specialize (H1 _ Hd). rewrite HL, Hin in H1.
      assert (alter Nat.pred (absn u) (mref s) = mref s) as E.
      { apply map_eq. intros k. destruct (decide (k = absn u)) as [->|Hk].
        - by rewrite lookup_alter, H1.
        - by rewrite lookup_alter_ne. }
      destruct s as [f1 f2 f3 f4 f5 f6 f7 f8]. cbn in E. unfold set. cbn. by rewrite E.
    + intros HL Hpos L' [H1' _]. destruct HC as [H1 _].
      specialize (H1' _ Hd). cbn in H1'.
      rewrite lookup_alter, (H1 _ Hd) in H1'. cbn in H1'. injection H1' as H1'. lia.
  - assert (m_decref u s = (Err EKey, s)) as E.
    { unfold m_decref. cbn [bind get]. destruct (mref_junk s u HI Hu) as [->|Hn]; [done|].
      case_decide; [done|]. by rewrite Hn. }
    rewrite E in Hrun. injection Hrun as <- <-.
    split; [done|]. split; [reflexivity|]. split; [reflexivity|].
    split; [by apply mextends_keeps|]. done.
Qed.

Theorem m_ref_total s u r s' :
  MInv s → m_ref u s = (r, s') →
  s' = s ∧ (mvalid s u → ∃ c, r = Ok c) ∧ (¬ mvalid s u → r = Err EKey).
Proof.
  intros HI. unfold m_ref. cbn [bind get]. destruct (mvalid_dec s u) as [Hu|Hu].
  - assert (Hr : is_Some (mref s !! absn u)).
    { apply elem_of_dom. rewrite (minv_ref _ HI). apply elem_of_dom, Hu. }
    destruct Hr as [c Hc]. rewrite decide_False by apply Hu. rewrite Hc.
    intros [= <- <-]. split; [done|]. split; [by exists c|done].
  - destruct (mref_junk s u HI Hu) as [->|Hn].
    + intros [= <- <-]. done.
    + case_decide; [by intros [= <- <-]|]. rewrite Hn. by intros [= <- <-].
Qed.

(** ** 5. [collect_garbage()] *)

(** the collection does not touch the oracle tape *)
Definition ktape {A} (m : MM A) : Prop := ∀ s r s', m s = (r, s') → mtape s' = mtape s.
Lemma ktape_ret {A} (a : A) : ktape (ret a).
Proof. by intros s r s' [= _ <-]. Qed.
Lemma ktape_raise {A} e : ktape (raise (A:=A) e).
Proof. by intros s r s' [= _ <-]. Qed.
Lemma ktape_get : ktape (get (S:=mst)).
Proof. by intros s r s' [= _ <-]. Qed.
Lemma ktape_modify f : (∀ s, mtape (f s) = mtape s) → ktape (modify f).
Proof. intros Hf s r s' [= _ <-]. apply Hf. Qed.
Lemma ktape_bind {A B} (m : MM A) (f : A → MM B) :
  ktape m → (∀ a, ktape (f a)) → ktape (bind m f).
Proof.
  intros Hm Hf s r s'. unfold bind. destruct (m s) as [[a|e] s1] eqn:E.
  - intros H. rewrite (Hf a _ _ _ H). by apply (Hm _ _ _ E).
  - intros [= _ <-]. by apply (Hm _ _ _ E).
Qed.
Lemma ktape_assert b : ktape (assert (S:=mst) b).
Proof. destruct b; [apply ktape_ret|apply ktape_raise]. Qed.
Lemma ktape_of_opt {A} e (o : option A) : ktape (of_opt (S:=mst) e o).
Proof. destruct o; [apply ktape_ret|apply ktape_raise]. Qed.
Lemma ktape_foldM {A B} (f : B → A → MM B) (l : list A) :
  (∀ b a, ktape (f b a)) → ∀ b, ktape (foldM f b l).
Proof.
  intros Hf. induction l as [|a l IH]; intros b; cbn [foldM]; [apply ktape_ret|].
  apply ktape_bind; [apply Hf|apply IH].
Qed.
Lemma ktape_decref u : ktape (m_decref u).
Proof.
  unfold m_decref. apply ktape_bind; [apply ktape_get|]. intros s.
  case_decide; [apply ktape_raise|]. apply ktape_bind; [apply ktape_of_opt|]. intros _.
  by apply ktape_modify.
Qed.
Lemma ktape_ref u : ktape (m_ref u).
Proof.
  unfold m_ref. apply ktape_bind; [apply ktape_get|]. intros s.
  case_decide; [apply ktape_raise|apply ktape_of_opt].
Qed.
Lemma ktape_release u : ktape (m_release u).
Proof.
  unfold m_release. apply ktape_bind; [apply ktape_get|]. intros s.
  repeat (apply ktape_bind; [apply ktape_assert|intros _]). by apply ktape_modify.
Qed.
Lemma ktape_gc_loop fuel : ∀ U, ktape (m_gc_loop fuel U).
Proof.
  induction fuel as [|f IH]; intros U; cbn [m_gc_loop]; [apply ktape_raise|].
  destruct (elements U) as [|u l]; [apply ktape_ret|].
  apply ktape_bind; [apply ktape_assert|intros _].
  apply ktape_bind; [apply ktape_get|intros s].
  apply ktape_bind; [apply ktape_of_opt|intros t].
  apply ktape_bind; [by apply ktape_modify|intros _].
  apply ktape_bind; [apply ktape_of_opt|intros u_].
  apply ktape_bind; [by apply ktape_modify|intros _].
  apply ktape_bind; [apply ktape_of_opt|intros uref].
  apply ktape_bind; [by apply ktape_modify|intros _].
  apply ktape_bind; [apply ktape_release|intros _].
  apply ktape_bind; [apply ktape_assert|intros _].
  apply ktape_bind; [apply ktape_assert|intros _].
  apply ktape_bind; [|intros U'; apply IH].
  apply ktape_foldM. intros X v.
  apply ktape_bind; [apply ktape_decref|intros _].
  apply ktape_bind; [apply ktape_ref|intros c].
  case_decide; apply ktape_ret.
Qed.
Lemma ktape_collect_garbage : ktape m_collect_garbage.
Proof.
  unfold m_collect_garbage. apply ktape_bind; [apply ktape_get|intros s].
  apply ktape_bind; [apply ktape_gc_loop|intros _]. by apply ktape_modify.
Qed.

(** a node is held when it is the terminal or the ledger has an entry for it *)
Definition mheld (L : positive → nat) (u : Z) : Prop :=
  absn u = 1%positive ∨ 0 < L (absn u).

(** never fails; only unreferenced nodes disappear: every reference that is
    held, or reachable from a held one, keeps its meaning *)
Theorem m_gc_total s L r s' :
  MInv s → MCounts s L → m_collect_garbage s = (r, s') →
  r = Ok tt ∧ MInv s' ∧ MCounts s' L ∧ mite s' = ∅ ∧ mvars s' = mvars s ∧
  mtape s' = mtape s ∧ msucc s' ⊆ msucc s ∧
  (∀ n, n ∈ dom (msucc s') ↔ n = 1%positive ∨ mreach (msucc s) (fun k => 0 < L k) n) ∧
  (∀ u, mvalid s u → mheld L u ∨ mreach (msucc s) (fun k => 0 < L k) (absn u) →
        mvalid s' u ∧ ∀ I, MD s' u I = MD s u I).
Proof.
  intros HI HC Hrun.
  pose proof (ktape_collect_garbage _ _ _ Hrun) as Ht.
  destruct (m_gc_exact s L r s' HI HC Hrun) as (->&HI'&HC'&Hite&Hv&_&Hdom&Hsub&_).
  assert (Hsub' : msucc s' ⊆ msucc s).
  { apply map_subseteq_spec. intros n t. apply Hsub. }
  split; [done|]. split; [done|]. split; [done|]. split; [done|]. split; [done|].
  split; [done|]. split; [done|]. split; [done|].
  intros u Hu Hh.
  assert (Hd : absn u ∈ dom (msucc s')).
  { apply Hdom. destruct Hh as [[?|HL]|?]; [by left| |by right].
    right. apply mreach_root; [done|]. apply elem_of_dom, Hu. }
  assert (Hu' : mvalid s' u) by (split; [apply Hu|by apply elem_of_dom]).
  split; [done|]. intros I. symmetry. apply MD_extends; [|done|done]. by split.
Qed.

(** ** 6. The counterexample: [find_or_add] with a level that is not above
    the successors is accepted, creates an ill-ordered node and breaks the
    invariant.  Manager with x0 ∈ {0,1,2} at level 0 and x1 ∈ {0,1} at
    level 1; node 2 = (0, [1; -1; 1]); then [find_or_add(1, 2, 1)]. *)
Definition mcx_dvars : list (nat * (nat * nat)) := [(0, (0, 3)); (1, (1, 2))].
Definition mcx_s : mst := snd (m_find_or_add 0 [1; -1; 1]%Z (mdd_init mcx_dvars)).
Definition mcx_s' : mst := snd (m_find_or_add 1 [2; 1]%Z mcx_s).

Lemma mcx_dvars_ok : dvars_ok mcx_dvars.
Proof.
  split; [|split].
  - refine (bool_decide_unpack _ _). by vm_compute.
  - intros v1 v2 l n1 n2 H1 H2.
    apply elem_of_list_In in H1, H2. cbn in H1, H2.
    destruct H1 as [H1|[H1|[]]], H2 as [H2|[H2|[]]]; by simplify_eq.
  - intros l Hl. cbn in Hl.
    destruct l as [|[|l]]; [exists 0, 3; left|exists 1, 2; right; left|lia].
Qed.

Lemma mcx_s_good : MInv mcx_s ∧ MCounts mcx_s (fun _ => 0).
Proof.
  pose proof (mdd_init_MInv _ mcx_dvars_ok) as HI0.
  pose proof (mdd_init_MCounts mcx_dvars) as HC0.
  unfold mcx_s. destruct (m_find_or_add 0 [1; -1; 1]%Z (mdd_init mcx_dvars)) as [r s1] eqn:E.
  cbn [snd].
  assert (Hg : mfa_guard (mdd_init mcx_dvars) 0 [1; -1; 1]%Z).
  { intros _ _ x Hx.
    assert (absn x = 1%positive) as Hx1.
    { repeat (apply elem_of_cons in Hx as [->|Hx]; [done|]). by apply elem_of_nil in Hx. }
    rewrite (mlvl_term _ HI0 x Hx1). vm_compute. lia. }
  by destruct (m_find_or_add_total _ _ _ _ _ _ HI0 HC0 Hg E) as (?&?&_).
Qed.

Example m_find_or_add_unguarded_refuted :
  mfa_accepted mcx_s 1 [2; 1]%Z ∧
  fst (m_find_or_add 1 [2; 1]%Z mcx_s) = Ok 3%Z ∧ ¬ MInv mcx_s'.
Proof.
  split; [|split; [by vm_compute|]].
  - split; [vm_compute; lia|]. split; [exists 1; by vm_compute|]. split; [done|].
    intros x Hx. apply m_mem_valid.
    repeat (apply elem_of_cons in Hx as [->|Hx]; [by vm_compute|]). by apply elem_of_nil in Hx.
  - intros HI.
    assert (Hn : mlk mcx_s' 3%positive = Some (1, [2; 1]%Z)) by (by vm_compute).
    destruct (minv_node _ HI _ _ _ Hn ltac:(done)) as (_&_&Hch&_).
    destruct (Hch 2%Z ltac:(left)) as [_ Hl]. vm_compute in Hl. lia.
Qed.

(** ** 7. One call of the alphabet of the differential test ([Driver5.mop]) *)

(** what [Driver5.mstep] does to the manager it is applied to *)
Definition mexec (s : mst) (o : mop) : res value * mst :=
  (fst (run_mop o s),
   match o with
   | MTape _ => snd (run_mop o s)
   | _ => snd (run_mop o s) <| mtape := [] |>
   end).

Lemma mstep_mexec w m o :
  mstep w m o = (<[m := snd (mexec (mworld_get w m) o)]> w, fst (mexec (mworld_get w m) o)).
Proof. unfold mstep, mexec. by destruct (run_mop o (mworld_get w m)). Qed.

Definition is_mnew (o : mop) : bool := match o with MNew _ => true | _ => false end.
Definition is_mtape (o : mop) : bool := match o with MTape _ => true | _ => false end.

(** the caller's ledger of external references: [incref] / [decref] move an
    entry when they succeed; a new manager starts with no reference *)
Definition mledger (L : positive → nat) (o : mop) (r : res value) : positive → nat :=
  match o, r with
  | MNew _, _ => fun _ => 0
  | MIncref u, Ok _ => ledger_inc L (absn u)
  | MDecref u, Ok _ => ledger_dec L (absn u)
  | _, _ => L
  end.

(** the obligations of the caller that the code does not check: a
    well-formed declaration of the variables, the level guard of
    [find_or_add], and [decref] only of references the caller holds *)
Definition mcaller_ok (s : mst) (L : positive → nat) (o : mop) : Prop :=
  match o with
  | MNew dvars => dvars_ok dvars
  | MFindOrAdd i nodes => mfa_guard s i nodes
  | MDecref u => mvalid s u → 0 < L (absn u)
  | _ => True
  end.

Lemma mbind_ret_inv {A C} (m : MM A) (h : A → C) s r s' :
  (x <- m ;; ret (h x)) s = (r, s') →
  ∃ r0, m s = (r0, s') ∧
    match r0 with Ok a => r = Ok (h a) | Err e => r = Err e end.
Proof.
  unfold bind. destruct (m s) as [[x|e] s1]; intros [= <- <-]; by eexists.
Qed.

Definition mstep_post (s : mst) (L : positive → nat) (o : mop) (r : res value) (s' : mst) : Prop :=
  MInv s' ∧ MCounts s' (mledger L o r) ∧
  (is_mnew o = false → ∀ u, mvalid s u → (o = MGc → mheld L u) →
     mvalid s' u ∧ ∀ I, MD s' u I = MD s u I) ∧
  (is_mnew o = false → o ≠ MGc → mextends s s') ∧
  (r = Err EOracle → mtape s ≠ []) ∧
  (∀ e, r = Err e → e ≠ EOracle → s' = s <| mtape := [] |>).

Lemma mexec_finish s L o (r : res value) s1 :
  MInv s → MInv s1 → MCounts s1 (mledger L o r) → mextends s s1 →
  (∀ e, r = Err e → e ≠ EOracle → s1 = s) → (r = Err EOracle → mtape s ≠ []) →
  mstep_post s L o r (s1 <| mtape := [] |>).
Proof.
  intros HI HI1 HC1 He Herr Hor.
  assert (He' : mextends s (s1 <| mtape := [] |>)) by (destruct He; by split).
  split; [by apply MInv_tape|]. split; [by apply MCounts_tape|].
  split; [|split; [done|split; [done|]]].
  - intros _ u Hu _. destruct (mextends_keeps s s1 HI He u Hu) as [Hv HD].
    split; [done|]. intros I. by rewrite MD_tape.
  - intros e E1 E2. by rewrite (Herr e E1 E2).
Qed.

Theorem mexec_good s L o :
  MInv s → MCounts s L → mcaller_ok s L o →
  mstep_post s L o (fst (mexec s o)) (snd (mexec s o)).
Proof.
  intros HI HC Hcall. unfold mexec.
  destruct o as [dvars|i nodes|g u v|op u v w|u|u|u| |t]; cbn [run_mop].
  - (* MNew *)
    cbn [bind modify ret fst snd]. cbn in Hcall.
    split; [by apply MInv_tape, mdd_init_MInv|].
    split; [apply MCounts_tape, mdd_init_MCounts|]. done.
  - (* find_or_add *)
    destruct ((r <- m_find_or_add i nodes;; ret (VZ r)) s) as [r s1] eqn:E. cbn [fst snd].
    apply mbind_ret_inv in E as (r0&E&Hr).
    destruct (m_find_or_add_total s L i nodes r0 s1 HI HC Hcall E)
      as (HI1&HC1&He&_&_&_&_&_&Herr&Hor).
    apply mexec_finish; try done.
    + intros e -> Hne. destruct r0; [done|]. injection Hr as <-. by apply (Herr e).
    + intros ->. destruct r0; [done|]. injection Hr as <-. by apply Hor.
  - (* ite *)
    destruct ((r <- m_ite_ g u v;; ret (VZ r)) s) as [r s1] eqn:E. cbn [fst snd].
    apply mbind_ret_inv in E as (r0&E&Hr).
    destruct (m_ite__total s L g u v r0 s1 HI HC E) as (HI1&HC1&He&_&_&_&_&Herr&Hor).
    apply mexec_finish; try done.
    + intros e -> Hne. destruct r0; [done|]. injection Hr as <-. by apply (Herr e).
    + intros ->. destruct r0; [done|]. injection Hr as <-. by apply Hor.
  - (* apply *)
    destruct ((r <- mdd_apply_with mdd_apply_table op u v w;; ret (VZ r)) s) as [r s1] eqn:E.
    cbn [fst snd]. apply mbind_ret_inv in E as (r0&E&Hr).
    destruct (mdd_apply_total _ s L op u v w r0 s1 HI HC E) as (HI1&HC1&He&_&_&Herr&Hor).
    apply mexec_finish; try done.
    + intros e -> Hne. destruct r0; [done|]. injection Hr as <-. by apply (Herr e).
    + intros ->. destruct r0; [done|]. injection Hr as <-. by apply Hor.
  - (* incref *)
    destruct ((m_incref u;;; ret VU) s) as [r s1] eqn:E. cbn [fst snd].
    apply (mbind_ret_inv _ (fun _ => VU)) in E as (r0&E&Hr).
    destruct (m_incref_total s L u r0 s1 HI HC E) as (HI1&He&_&_&Hok&Hbad).
    destruct (mvalid_dec s u) as [Hu|Hu].
    + destruct (Hok Hu) as [-> HC1]. subst r. by apply mexec_finish.
    + destruct (Hbad Hu) as [-> ->]. subst r. by apply mexec_finish.
  - (* decref *)
    destruct ((m_decref u;;; ret VU) s) as [r s1] eqn:E. cbn [fst snd].
    apply (mbind_ret_inv _ (fun _ => VU)) in E as (r0&E&Hr).
    destruct (m_decref_total s L u r0 s1 HI HC E) as (HI1&He&_&_&Hok&Hbad).
    destruct (mvalid_dec s u) as [Hu|Hu].
    + destruct (Hok Hu) as (->&HC1&_). subst r. apply mexec_finish; try done.
      apply HC1. by apply Hcall.
    + destruct (Hbad Hu) as [-> ->]. subst r. by apply mexec_finish.
  - (* ref *)
    destruct ((r <- m_ref u;; ret (VN r)) s) as [r s1] eqn:E. cbn [fst snd].
    apply mbind_ret_inv in E as (r0&E&Hr).
    destruct (m_ref_total s u r0 s1 HI E) as (->&_&_).
    apply mexec_finish; try done.
    + intros ->. destruct r0; [done|]. injection Hr as <-.
      destruct (mvalid_dec s u) as [Hu|Hu].
      * destruct (proj1 (proj2 (m_ref_total s u _ s HI E)) Hu) as [c Hc]. done.
      * pose proof (proj2 (proj2 (m_ref_total s u _ s HI E)) Hu). done.
  - (* collect_garbage *)
    destruct ((m_collect_garbage;;; ret VU) s) as [r s1] eqn:E. cbn [fst snd].
    apply (mbind_ret_inv _ (fun _ => VU)) in E as (r0&E&Hr).
    destruct (m_gc_total s L r0 s1 HI HC E) as (->&HI1&HC1&_&_&_&_&_&Hk). subst r.
    split; [by apply MInv_tape|]. split; [by apply MCounts_tape|].
    split; [|done].
    intros _ u Hu Hh. destruct (Hk u Hu (or_introl (Hh eq_refl))) as [Hv HD].
    split; [done|]. intros I. by rewrite MD_tape.
  - (* the harness sets the oracle tape *)
    cbn [bind modify ret fst snd].
    split; [by apply MInv_tape|]. split; [by apply MCounts_tape|].
    split; [|split; [|done]].
    + intros _ u Hu _. split; [done|]. intros I. apply MD_tape.
    + done.
Qed.

(** ** 8. Histories: ANY list of calls with ANY arguments *)
Fixpoint mrun (s : mst) (L : positive → nat) (ops : list mop) : mst * (positive → nat) :=
  match ops with
  | [] => (s, L)
  | o :: ops => mrun (snd (mexec s o)) (mledger L o (fst (mexec s o))) ops
  end.

Fixpoint mhist_ok (s : mst) (L : positive → nat) (ops : list mop) : Prop :=
  match ops with
  | [] => True
  | o :: ops =>
      mcaller_ok s L o ∧ mhist_ok (snd (mexec s o)) (mledger L o (fst (mexec s o))) ops
  end.

(** state before, call, outcome, state after *)
Fixpoint mouts (s : mst) (L : positive → nat) (ops : list mop)
  : list (mst * mop * res value * mst) :=
  match ops with
  | [] => []
  | o :: ops =>
      (s, o, fst (mexec s o), snd (mexec s o)) ::
      mouts (snd (mexec s o)) (mledger L o (fst (mexec s o))) ops
  end.

(** a failing call: the oracle error only with a non-empty tape; any other
    exception leaves the manager as it was *)
Definition mout_ok (x : mst * mop * res value * mst) : Prop :=
  let '(s, o, r, s') := x in
  (r = Err EOracle → mtape s ≠ []) ∧
  (∀ e, r = Err e → e ≠ EOracle → s' = s <| mtape := [] |>).

Lemma mrun_app s L pre post :
  mrun s L (pre ++ post) = mrun (fst (mrun s L pre)) (snd (mrun s L pre)) post.
Proof. revert s L. induction pre as [|o pre IH]; intros s L; [done|]. cbn. apply IH. Qed.

(** every state reached along the history (after any prefix) is consistent,
    with exact counters for the folded ledger, and the rest of the history
    still satisfies its hypotheses from there *)
Theorem mhistory_good pre : ∀ post s L,
  MInv s → MCounts s L → mhist_ok s L (pre ++ post) →
  MInv (fst (mrun s L pre)) ∧ MCounts (fst (mrun s L pre)) (snd (mrun s L pre)) ∧
  mhist_ok (fst (mrun s L pre)) (snd (mrun s L pre)) post.
Proof.
  induction pre as [|o pre IH]; intros post s L HI HC Hh; [done|].
  destruct Hh as [Hcall Hh]. cbn [mrun].
  destruct (mexec_good s L o HI HC Hcall) as (HI1&HC1&_).
  by apply IH.
Qed.

Theorem mhistory_outs ops : ∀ s L,
  MInv s → MCounts s L → mhist_ok s L ops → Forall mout_ok (mouts s L ops).
Proof.
  induction ops as [|o ops IH]; intros s L HI HC Hh; [constructor|].
  destruct Hh as [Hcall Hh]. cbn [mouts].
  destruct (mexec_good s L o HI HC Hcall) as (HI1&HC1&_&_&Hor&Herr).
  constructor; [by split|]. by apply IH.
Qed.

(** without the harness operation [MTape] (Python's own pop order) the
    oracle error never arises *)
Theorem mhistory_no_oracle ops : ∀ s L,
  MInv s → MCounts s L → mhist_ok s L ops → mtape s = [] →
  Forall (fun o => is_mtape o = false) ops →
  Forall (fun x : mst * mop * res value * mst => x.1.2 ≠ Err EOracle) (mouts s L ops).
Proof.
  induction ops as [|o ops IH]; intros s L HI HC Hh Ht Hno; [constructor|].
  destruct Hh as [Hcall Hh]. cbn [mouts].
  destruct (mexec_good s L o HI HC Hcall) as (HI1&HC1&_&_&Hor&_).
  inversion Hno as [|? ? Ho Hno']; subst.
  constructor; [cbn; intros E; by apply Hor|].
  apply IH; try done. unfold mexec. cbn [snd]. by destruct o.
Qed.

(** a reference keeps validity and meaning as long as the manager is not
    re-created and the reference is held (terminal, or positive ledger entry)
    whenever the collector runs *)
Fixpoint mheld_along (s : mst) (L : positive → nat) (ops : list mop) (u : Z) : Prop :=
  match ops with
  | [] => True
  | o :: ops =>
      is_mnew o = false ∧ (o = MGc → mheld L u) ∧
      mheld_along (snd (mexec s o)) (mledger L o (fst (mexec s o))) ops u
  end.

Theorem mhistory_keeps ops : ∀ s L u,
  MInv s → MCounts s L → mhist_ok s L ops → mheld_along s L ops u → mvalid s u →
  mvalid (fst (mrun s L ops)) u ∧ ∀ I, MD (fst (mrun s L ops)) u I = MD s u I.
Proof.
  induction ops as [|o ops IH]; intros s L u HI HC Hh Hheld Hu; [done|].
  destruct Hh as [Hcall Hh]. destruct Hheld as (Hnew&Hgc&Hheld). cbn [mrun].
  destruct (mexec_good s L o HI HC Hcall) as (HI1&HC1&Hk&_).
  destruct (Hk Hnew u Hu Hgc) as [Hv1 HD1].
  destruct (IH _ _ u HI1 HC1 Hh Hheld Hv1) as [Hv2 HD2]. split; [done|].
  intros I. by rewrite HD2, HD1.
Qed.

(** from [MDD(dvars)] *)
Corollary mhistory_from_init dvars pre post :
  dvars_ok dvars → mhist_ok (mdd_init dvars) (fun _ => 0) (pre ++ post) →
  let s1 := fst (mrun (mdd_init dvars) (fun _ => 0) pre) in
  let L1 := snd (mrun (mdd_init dvars) (fun _ => 0) pre) in
  MInv s1 ∧ MCounts s1 L1 ∧
  Forall mout_ok (mouts (mdd_init dvars) (fun _ => 0) (pre ++ post)) ∧
  ∀ u, mvalid s1 u → mheld_along s1 L1 post u →
       mvalid (fst (mrun s1 L1 post)) u ∧ ∀ I, MD (fst (mrun s1 L1 post)) u I = MD s1 u I.
Proof.
  intros Hd Hh.
  pose proof (mdd_init_MInv _ Hd) as HI0. pose proof (mdd_init_MCounts dvars) as HC0.
  destruct (mhistory_good pre post _ _ HI0 HC0 Hh) as (HI1&HC1&Hh1).
  split; [done|]. split; [done|]. split; [by apply mhistory_outs|].
  intros u Hu Hheld. by apply mhistory_keeps.
Qed.

(** ** 9. Sound boolean checkers for the hypotheses (used by the examples) *)
Definition dvars_ok_b (dvars : list (nat * (nat * nat))) : bool :=
  bool_decide (NoDup (dvars.*1)) &&
  forallb (fun p : nat * (nat * nat) =>
    forallb (fun q : nat * (nat * nat) =>
      negb (bool_decide (p.2.1 = q.2.1)) || bool_decide (p.1 = q.1)) dvars) dvars &&
  forallb (fun l => existsb (fun p : nat * (nat * nat) => bool_decide (p.2.1 = l)) dvars)
          (seq 0 (length dvars)).

Lemma dvars_ok_b_sound dvars : dvars_ok_b dvars = true → dvars_ok dvars.
Proof.
  unfold dvars_ok_b. rewrite !andb_true_iff. intros [[H1 H2] H3].
  apply bool_decide_eq_true in H1. rewrite forallb_forall in H2, H3.
  split; [done|]. split.
  - intros v1 v2 l n1 n2 Hin1 Hin2.
    apply elem_of_list_In in Hin1, Hin2. specialize (H2 _ Hin1).
    rewrite forallb_forall in H2. specialize (H2 _ Hin2). cbn in H2.
    apply orb_true_iff in H2 as [H2|H2].
    + apply negb_true_iff, bool_decide_eq_false in H2. done.
    + by apply bool_decide_eq_true in H2.
  - intros l Hl. assert (In l (seq 0 (length dvars))) as Hin by (apply in_seq; lia).
    specialize (H3 _ Hin). apply existsb_exists in H3 as ([v [l' n]]&Hp&Hb).
    apply bool_decide_eq_true in Hb. cbn in Hb. subst l'.
    exists v, n. by apply elem_of_list_In.
Qed.

Definition mfa_accepted_b (s : mst) (i : nat) (nodes : list Z) : bool :=
  bool_decide (i < mnvars s) &&
  existsb (fun p : nat * (nat * nat) => bool_decide (p.2 = (i, length nodes)))
          (map_to_list (mvars s)) &&
  negb (bool_decide (nodes = [])) &&
  forallb (fun u => m_mem u s) nodes.

Lemma mfa_accepted_b_complete s i nodes :
  mfa_accepted s i nodes → mfa_accepted_b s i nodes = true.
Proof.
  intros (Hi&[v Hv]&Hne&Hch). unfold mfa_accepted_b. rewrite !andb_true_iff.
  split; [split; [split|]|].
  - by apply bool_decide_eq_true.
  - apply existsb_exists. exists (v, (i, length nodes)). split.
    + by apply elem_of_list_In, elem_of_map_to_list.
    + by apply bool_decide_eq_true.
  - by apply negb_true_iff, bool_decide_eq_false.
  - apply forallb_forall. intros x Hx%elem_of_list_In. by apply m_mem_valid, Hch.
Qed.

Definition mcaller_ok_b (s : mst) (L : positive → nat) (o : mop) : bool :=
  match o with
  | MNew dvars => dvars_ok_b dvars
  | MFindOrAdd i nodes =>
      negb (mfa_accepted_b s i nodes) ||
      forallb (fun x => bool_decide (x = hd 0%Z nodes)) nodes ||
      forallb (fun x => bool_decide (i < mlvl_of s x)) nodes
  | MDecref u => negb (m_mem u s) || bool_decide (0 < L (absn u))
  | _ => true
  end.

Lemma mcaller_ok_b_sound s L o : mcaller_ok_b s L o = true → mcaller_ok s L o.
Proof.
  destruct o as [dvars|i nodes|g u v|op u v w|u|u|u| |t]; cbn; try done.
  - apply dvars_ok_b_sound.
  - intros H Hacc Hnae x Hx. apply orb_true_iff in H as [H|H];
      [apply orb_true_iff in H as [H|H]|].
    + apply negb_true_iff in H. rewrite (mfa_accepted_b_complete _ _ _ Hacc) in H. done.
    + exfalso. apply Hnae. intros y Hy. rewrite forallb_forall in H.
      apply elem_of_list_In in Hy. specialize (H y Hy). by apply bool_decide_eq_true in H.
    + rewrite forallb_forall in H. apply elem_of_list_In in Hx.
      specialize (H x Hx). by apply bool_decide_eq_true in H.
  - intros H Hu. apply orb_true_iff in H as [H|H].
    + apply negb_true_iff in H. apply m_mem_valid in Hu. congruence.
    + by apply bool_decide_eq_true in H.
Qed.

Fixpoint mhist_ok_b (s : mst) (L : positive → nat) (ops : list mop) : bool :=
  match ops with
  | [] => true
  | o :: ops =>
      mcaller_ok_b s L o && mhist_ok_b (snd (mexec s o)) (mledger L o (fst (mexec s o))) ops
  end.

Lemma mhist_ok_b_sound ops : ∀ s L, mhist_ok_b s L ops = true → mhist_ok s L ops.
Proof.
  induction ops as [|o ops IH]; intros s L; [done|]. cbn [mhist_ok_b mhist_ok].
  intros [H1 H2]%andb_true_iff. split; [by apply mcaller_ok_b_sound|by apply IH].
Qed.
