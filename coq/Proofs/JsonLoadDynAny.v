(** * JsonLoadDynAny: a FAILING (or succeeding) [load_json(load_order=False)]
      through [dd.autoref] with dynamic reordering possibly enabled AND a
      node limit possibly set ([max_nodes] any value).

    With an unbounded table the decorated calls [var] and [ite] of the
    loader cannot fail ([JsonLoadDyn.node_core]).  Here they may: [DynamicAny.var_any] / [ite_any] give, for every outcome, a
    well-formed manager with the same ledger, mode and bound, every held node
    kept; a [RuntimeError] is one more way for a line to fail, after which
    the loader releases the memo's references and raises: no handle is
    created, no reference leaks. *)
From DD Require Export JsonLoadDyn DynamicAny.

(** ** 0. The state of a receiver between two decorated calls (no condition
    on [max_nodes]), and one step (the bound is kept) *)
Record DynB (r : st) : Prop := {
  db_inv : Inv r;
  db_rctx : rctx r = false;
  db_tape : tape r = [];
}.
Definition BStep (K : positive → Prop) (r r' : st) : Prop :=
  DynB r' ∧ keeps K r r' ∧ mode r r' ∧ max_nodes r' = max_nodes r.

Lemma BStep_refl K r : DynB r → BStep K r r.
Proof. intros. split; [done|]. split; [apply keeps_refl|]. split; [apply mode_refl|done]. Qed.
Lemma BStep_trans K r1 r2 r3 : BStep K r1 r2 → BStep K r2 r3 → BStep K r1 r3.
Proof.
  intros (_&Hk1&Hm1&E1) (HD&Hk2&Hm2&E2). split; [done|]. split.
  - by apply (keeps_trans K K r1 r2 r3).
  - split; [by apply (mode_trans r1 r2 r3)|congruence].
Qed.
Lemma BStep_mono (K K' : positive → Prop) r r' : (∀ n, K n → K' n) → BStep K' r r' → BStep K r r'.
Proof. intros HK (?&?&?). split; [done|]. split; [by apply (keeps_mono K K')|done]. Qed.
Lemma DynB_grows r r' : DynB r → Inv r' → grows r r' → DynB r'.
Proof. intros [HI Hc Ht] HI' [_ (El&Ec&_&Et&Em)]. split; [done|congruence..]. Qed.
Lemma BStep_grows K r r' : DynB r → Inv r' → grows r r' → BStep K r r'.
Proof.
  intros HD HI' G. split; [by apply (DynB_grows r)|]. split.
  - apply keeps_extends; [apply HD|apply G].
  - split; [apply mode_eq; by destruct G as [_ (El&_)]|by destruct G as [_ (_&_&_&_&Em)]].
Qed.
Lemma DynB_bump r u : DynB r → DynB (bump u r).
Proof. intros HD. apply (DynB_grows r); [done|apply Inv_bump, HD|apply grows_bump]. Qed.
Lemma DynB_frame r r' : DynB r → Inv r' → frame r r' → DynB r'.
Proof. intros [HI Hc Ht] HI' (El&Ec&_&Et&Em). split; [done|congruence..]. Qed.
Lemma BStep_valid K r r' x : BStep K r r' → K (absn x) → valid r x → valid r' x.
Proof. intros (_&[_ Hk]&_) HK Hv. by apply Hk; [apply Hv|..]. Qed.
Lemma BStep_denv K r r' x ρ : BStep K r r' → K (absn x) → valid r x →
  denv r' x ρ = denv r x ρ.
Proof. intros (_&[_ Hk]&_) HK Hv. by apply Hk; [apply Hv|..]. Qed.
Lemma BStep_vars K r r' v : BStep K r r' → is_Some (vars r !! v) → is_Some (vars r' !! v).
Proof. intros (_&[E _]&_) Hv. apply elem_of_dom. rewrite E. by apply elem_of_dom. Qed.
Lemma tstep_BStep L r r' : tstep L r r' → BStep (heldn L) r r'.
Proof. intros (?&?&?&?&?&?&?&?). split; [by split|]. split; [done|]. by split. Qed.

(** ** 1. The decorated part of one line, any outcome *)
Lemma node_core_any r H n L l low high v :
  DynB r → Counts r (ledger_add L l) → low ∈ l → high ∈ l →
  valid r low → valid r high → is_Some (vars r !! v) →
  ∃ res r',
    (g <- lift (var v) ;;
     with_tmp g (check_in g ;;; check_in high ;;; check_in low ;;;
                 lift (ite g high low))) (ASt r H n) = (res, ASt r' H n) ∧
    BStep (heldn (ledger_add L l)) r r' ∧ Counts r' (ledger_add L l) ∧
    ∀ u, res = Ok u → valid r' u.
Proof.
  intros HD HC Hlo Hhi Hvl Hvh Hv. pose proof HD as [HI Hc Ht].
  assert (K : ∀ y, y ∈ l → heldn (ledger_add L l) (absn y))
    by (intros y Hy; by apply heldn_add_in).
  destruct (var v r) as [rg r3] eqn:Eg.
  destruct (var_any r (ledger_add L l) v rg r3 HI HC Hc Ht Hv Eg) as [HT3 Hrg].
  pose proof HT3 as (HI3&HC3&_). pose proof (tstep_BStep _ _ _ HT3) as HS3.
  pose proof HS3 as (HD3&_).
  destruct rg as [g|e]; cycle 1.
  { exists (Err e), r3. split; [by rewrite (bind_err _ _ _ _ _ (lift_run _ _ H n _ _ Eg))|].
    split; [done|]. split; [done|]. by intros u [=]. }
  destruct Hrg as [Hvg _].
  assert (Hvl3 : valid r3 low) by (by apply (BStep_valid _ r r3 low HS3 (K _ Hlo))).
  assert (Hvh3 : valid r3 high) by (by apply (BStep_valid _ r r3 high HS3 (K _ Hhi))).
  set (r4 := bump g r3).
  assert (HD4 : DynB r4) by (by apply DynB_bump).
  pose proof HD4 as [HI4 Hc4 Ht4].
  assert (HC4 : Counts r4 (ledger_add L (g :: l))) by (by apply Counts_bump_add).
  assert (Hvg4 : valid r4 g) by done.
  assert (Hvl4 : valid r4 low) by done.
  assert (Hvh4 : valid r4 high) by done.
  destruct (ite g high low r4) as [rx r5] eqn:Ex.
  destruct (ite_any r4 (ledger_add L (g :: l)) g high low rx r5 HI4 HC4 Hc4 Ht4 Hvg4 Hvh4 Hvl4)
    as [HT5 Hrx]; [apply heldn_add_in; lmem..|done|].
  pose proof HT5 as (HI5&HC5&_). pose proof (tstep_BStep _ _ _ HT5) as HS5.
  assert (Hvg5 : valid r5 g).
  { apply (BStep_valid _ r4 r5 g HS5); [apply heldn_add_in; lmem|done]. }
  set (r6 := unbump g r5).
  assert (HI6 : Inv r6) by (by apply Inv_unbump).
  exists rx, r6. split.
  { step (lift_run _ _ H n _ _ Eg).
    apply (with_tmp_run g _ r3 H n rx r5 HI3 Hvg); [|done|done].
    step (check_in_ok r4 H n g Hvg4). step (check_in_ok r4 H n high Hvh4).
    step (check_in_ok r4 H n low Hvl4). exact (lift_run _ _ H n _ _ Ex). }
  split.
  { apply (BStep_trans _ r r3 r6); [done|]. apply (BStep_trans _ r3 r4 r6).
    - apply BStep_grows; [done|done|apply grows_bump].
    - apply (BStep_trans _ r4 r5 r6).
      + apply (BStep_mono _ (heldn (ledger_add L (g :: l)))); [|done].
        intros m. apply heldn_sub. intros y. lmem.
      + apply BStep_grows; [by destruct HS5|done|apply grows_unbump]. }
  split; [by apply (Counts_unbump_add r5 _ _ g Hvg5)|].
  intros u ->. by destruct Hrx as [Hvu _].
Qed.

(** ** 2. One line of ANY file, the loop, the whole loader *)
(** a temporary around a body of which we know the outcome: [Q res] lists
    what the body leaves held (besides [u]), [P] is any state-independent
    fact about the result *)
Lemma with_tmp_anyB {A} u (body : MA A) r H n L l (Q : res A → list Z) (P : res A → Prop) :
  DynB r → valid r u →
  (∃ res r2, body (ASt (bump u r) H n) = (res, ASt r2 H n) ∧
     BStep (heldn (ledger_add L (u :: l))) (bump u r) r2 ∧
     Counts r2 (ledger_add L (u :: Q res)) ∧ P res) →
  ∃ res r', with_tmp u body (ASt r H n) = (res, ASt r' H n) ∧
     BStep (heldn (ledger_add L l)) r r' ∧ Counts r' (ledger_add L (Q res)) ∧ P res.
Proof.
  intros HD Hv (res&r2&Eb&HS&HC&HP).
  pose proof (db_inv r HD) as HI. pose proof HS as (HD2&_&_). pose proof (db_inv r2 HD2) as HI2.
  assert (Hv2 : valid r2 u).
  { apply (BStep_valid _ (bump u r) r2 u HS); [apply heldn_add_in; lmem|done]. }
  exists res, (unbump u r2). split; [by apply with_tmp_run|]. split.
  { apply (BStep_trans _ r (bump u r)).
    - apply BStep_grows; [done|by apply Inv_bump|apply grows_bump].
    - apply (BStep_trans _ (bump u r) r2).
      + apply (BStep_mono _ (heldn (ledger_add L (u :: l)))); [|done].
        intros m. apply heldn_sub. intros y. lmem.
      + apply BStep_grows; [done|by apply Inv_unbump|apply grows_unbump]. }
  split; [by apply Counts_unbump_add|done].
Qed.

Definition mn_heldB (cache : gmap positive Z) (res : res (gmap positive Z)) : list Z :=
  match res with Ok c' => cvals c' | Err _ => cvals cache end.
Definition mn_postB (cache : gmap positive Z) (k : positive) (res : res (gmap positive Z)) : Prop :=
  match res with
  | Ok c' => c' = cache ∨ ∃ u, cache !! k = None ∧ c' = <[k := u]> cache ∧ u ≠ 0%Z
  | Err _ => True
  end.

Lemma make_node_anyB vat cache k lv lo hi r H n L :
  DynB r → Counts r (ledger_add L (cvals cache)) →
  (∀ l v, vat l = Some v → is_Some (vars r !! v)) →
  ∃ res r', make_node vat false cache (k, (lv, lo, hi)) (ASt r H n) = (res, ASt r' H n) ∧
    BStep (heldn (ledger_add L (cvals cache))) r r' ∧
    Counts r' (ledger_add L (mn_heldB cache res)) ∧ mn_postB cache k res.
Proof.
  intros HD HC Hvat. pose proof (db_inv r HD) as HI. unfold make_node. case_decide as Hk.
  { exists (Ok cache), r. split; [done|]. split; [by apply BStep_refl|]. split; [done|by left]. }
  assert (Hk' : cache !! k = None) by (by apply eq_None_not_Some).
  (* low *)
  destruct (nfi_pure cache (jref_id lo) (ASt r H n)) as ([low|e]&El&Hvl); cycle 1.
  { rewrite (bind_err _ _ _ _ _ El). exists (Err e), r. split; [done|].
    split; [by apply BStep_refl|]. by split. }
  step El. specialize (Hvl low eq_refl HI). cbn [mgr] in Hvl.
  apply (with_tmp_anyB low _ r H n L (cvals cache) (mn_heldB cache) (mn_postB cache k) HD Hvl).
  set (r1 := bump low r).
  assert (HD1 : DynB r1) by (by apply DynB_bump).
  pose proof (db_inv r1 HD1) as HI1.
  set (l1 := low :: cvals cache).
  assert (HC1 : Counts r1 (ledger_add L l1)) by (by apply Counts_bump_add).
  (* high *)
  destruct (nfi_pure cache (jref_id hi) (ASt r1 H n)) as ([high|e]&Eh&Hvh); cycle 1.
  { rewrite (bind_err _ _ _ _ _ Eh). exists (Err e), r1. split; [done|].
    split; [by apply BStep_refl|]. by split. }
  step Eh. specialize (Hvh high eq_refl HI1). cbn [mgr] in Hvh.
  apply (with_tmp_anyB high _ r1 H n L l1 (fun res => low :: mn_heldB cache res)
           (mn_postB cache k) HD1 Hvh).
  set (r2 := bump high r1).
  assert (HD2 : DynB r2) by (by apply DynB_bump).
  pose proof (db_inv r2 HD2) as HI2.
  set (l2 := high :: l1).
  assert (HC2 : Counts r2 (ledger_add L l2)) by (by apply Counts_bump_add).
  (* the variable of the level *)
  destruct (vat lv) as [v|] eqn:Ev; cbn [of_opt]; cycle 1.
  { exists (Err EKey), r2. split; [done|]. split; [by apply BStep_refl|]. by split. }
  rewrite (bind_ok _ _ _ v (ASt r2 H n)) by done.
  destruct (node_core_any r2 H n L l2 low high v HD2 HC2) as (ru&r6&Eu&HS6&HC6&Hvu);
    [unfold l2, l1; lmem|unfold l2; lmem|done|done|by apply (Hvat lv)|].
  pose proof HS6 as (HD6&_&_). pose proof (db_inv r6 HD6) as HI6.
  destruct ru as [u|e]; cycle 1.
  { (* a decorated call met the full table *)
    rewrite (bind_err _ _ _ _ _ Eu). exists (Err e), r6. split; [done|]. split; [done|].
    by split. }
  step Eu. specialize (Hvu u eq_refl).
  (* the new node under its temporary *)
  destruct (with_tmp_anyB u
              (assert (bool_decide (0 < u)%Z) ;;; lift (incref u) ;;; ret (<[k := u]> cache))
              r6 H n L l2 (fun res => high :: low :: mn_heldB cache res) (mn_postB cache k) HD6 Hvu)
    as (res&r'&E&HS'&HC'&HP).
  { set (r7 := bump u r6).
    assert (HD7 : DynB r7) by (by apply DynB_bump).
    pose proof (db_inv r7 HD7) as HI7.
    assert (HC7 : Counts r7 (ledger_add L (u :: l2))) by (by apply Counts_bump_add).
    destruct (bool_decide (0 < u)%Z); cbn [assert].
    - rewrite (bind_ok _ _ _ tt (ASt r7 H n)) by done.
      assert (Hvu7 : valid r7 u) by done.
      step (lift_run _ _ H n _ _ (incref_ok r7 u HI7 Hvu7)).
      exists (Ok (<[k := u]> cache)), (bump u r7). split; [done|]. split.
      { apply BStep_grows; [done|by apply Inv_bump|apply grows_bump]. }
      split.
      + eapply Counts_ext; [|apply (Counts_bump_add r7 _ _ u Hvu7 HC7)].
        intros m. cbn [mn_heldB]. apply ledger_add_perm. unfold l2, l1.
        rewrite (cvals_insert_perm cache k u Hk').
        apply Permutation_skip.
        etrans; [apply Permutation_swap|]. apply Permutation_skip.
        apply Permutation_swap.
      + right. exists u. split; [done|]. split; [done|]. apply Hvu.
    - exists (Err EAssert), r7. split; [done|]. split; [by apply BStep_refl|]. by split. }
  exists res, r'. split; [done|]. split; [|by split].
  by apply (BStep_trans _ r2 r6 r').
Qed.

Lemma make_nodes_anyB vat lines : ∀ cache r H n L,
  DynB r → cnz cache → Counts r (ledger_add L (cvals cache)) →
  (∀ l v, vat l = Some v → is_Some (vars r !! v)) →
  ∃ cache' failed r',
    make_nodes vat false cache lines (ASt r H n) = (Ok (cache', failed), ASt r' H n) ∧
    BStep (heldn L) r r' ∧ cnz cache' ∧ Counts r' (ledger_add L (cvals cache')).
Proof.
  induction lines as [|[k [[lv lo] hi]] lines IH]; intros cache r H n L HD Hnz HC Hvat.
  { exists cache, None, r. split; [done|]. split; [by apply BStep_refl|]. by split. }
  cbn [make_nodes].
  destruct (make_node_anyB vat cache k lv lo hi r H n L HD HC Hvat) as (res&r1&E&HS&HC1&HP).
  unfold bind at 1. unfold catch. rewrite E.
  assert (HS1 : BStep (heldn L) r r1).
  { apply (BStep_mono _ _ r r1 (fun m => heldn_add L (cvals cache) m) HS). }
  destruct res as [c'|e].
  - cbn [mn_heldB mn_postB] in *.
    assert (Hnz' : cnz c').
    { destruct HP as [->|(u&Hk&->&Hu)]; [done|].
      intros k' x. rewrite lookup_insert_Some. intros [[_ <-]|[_ Hx]]; [done|by eapply Hnz]. }
    destruct (IH c' r1 H n L (proj1 HS) Hnz' HC1) as (c2&fl&r2&E2&HS2&Hnz2&HC2).
    { intros l v Hv. apply (BStep_vars _ r r1 v HS1). by apply (Hvat l). }
    exists c2, fl, r2. split; [exact E2|]. split; [by apply (BStep_trans _ r r1 r2)|]. by split.
  - exists cache, (Some e), r1. split; [done|]. split; [done|]. by split.
Qed.

Theorem json_load_dyn_total_any jf r0 H n L :
  DynB r0 → Counts r0 L →
  ∃ res r1 r' H' n',
    declare (jf_levels jf).*1 r0 = (Ok tt, r1) ∧
    a_load_json jf false (ASt r0 H n) = (res, ASt r' H' n') ∧
    DynB r1 ∧ frame r0 r1 ∧ vars r0 ⊆ vars r1 ∧ Counts r1 L ∧
    (∀ v, is_Some (vars r1 !! v) ↔ is_Some (vars r0 !! v) ∨ v ∈ (jf_levels jf).*1) ∧
    (∀ u, valid r0 u → valid r1 u ∧ ∀ ρ, denv r1 u ρ = denv r0 u ρ) ∧
    BStep (heldn L) r1 r' ∧
    match res with
    | Err e => H' = H ∧ n' = n ∧ Counts r' L
    | Ok hroots => ∃ us, H' = hins H n us ∧ n' = n + length us ∧
                         Forall (valid r') us ∧ Counts r' (ledger_add L us)
    end.
Proof.
  intros HD0 HC0. pose proof (db_inv r0 HD0) as HI0.
  destruct (declare (jf_levels jf).*1 r0) as [rd r1] eqn:Ed.
  destruct (declare_run _ r0 rd r1 HI0 Ed) as (->&HI1&Hf1&HC1&Hd1&Hsub1&Hin1&_).
  assert (HD1 : DynB r1) by (by apply (DynB_frame r0)).
  set (vat := fun l => match list_find (fun vl : nat * nat => bool_decide (vl.2 = l))
                               (reverse (jf_levels jf)) with
                       | Some (_, (v, _)) => Some v | None => None end).
  assert (Hvat : ∀ l v, vat l = Some v → is_Some (vars r1 !! v)).
  { intros l v. unfold vat.
    destruct (list_find _ _) as [[i [v' l']]|] eqn:Ef; [|done]. intros [= ->].
    apply list_find_Some in Ef as (Hi&_&_). apply Hin1.
    apply elem_of_list_fmap. exists (v, l'). split; [done|].
    apply elem_of_reverse. by apply elem_of_list_lookup_2 in Hi. }
  destruct (make_nodes_anyB vat (jf_nodes jf) ∅ r1 H n L HD1)
    as (cache&failed&r2&E2&HS2&Hnz2&HC2); [| |done|].
  { intros k x Hx. by rewrite lookup_empty in Hx. }
  { unfold cvals. rewrite map_to_list_empty. by apply Counts_add_nil, HC1. }
  pose proof HS2 as (HD2&_&_). pose proof (db_inv r2 HD2) as HI2.
  pose proof (cnz_cvalid r2 L cache HI2 HC2 Hnz2) as Hcv2.
  assert (Hvars : ∀ v, is_Some (vars r1 !! v) ↔ is_Some (vars r0 !! v) ∨ v ∈ (jf_levels jf).*1).
  { intros v. split.
    - intros Hv. by apply (declare_dom _ r0 _ r1 HI0 Ed v Hv).
    - intros [[l Hl]|Hin]; [exists l; by apply (lookup_weaken _ _ _ _ Hl Hsub1)|by apply Hin1]. }
  assert (Hstep : ∀ r', Inv r' → grows r2 r' → BStep (heldn L) r1 r').
  { intros r' HI' G'. apply (BStep_trans _ r1 r2 r'); [done|]. by apply BStep_grows. }
  (* releasing after a failure *)
  assert (Hfail : ∀ e,
    ∃ r', (forM (map_to_list cache) (fun '(_, u) => lift (decref u)) ;;; raise e)
            (ASt r2 H n) = (Err e : res rootsH, ASt r' H n) ∧
      Inv r' ∧ grows r2 r' ∧ Counts r' L).
  { intros e. destruct (release_fail (map_to_list cache) r2 H n L HI2 (cvalid_list r2 cache Hcv2) HC2)
      as (r'&E&HI'&G'&HC'). exists r'. step E. by split. }
  assert (Hhead : ∀ (k : gmap positive Z * option err → MA rootsH),
    a_load_json jf false (ASt r0 H n)
    = (let '(cache, failed) := (cache, failed) in
       nodes <- match failed with
                | Some e => ret (Err e)
                | None => catch (root_nodes cache (jf_roots jf))
                end ;;
       match nodes with
       | Err e => forM (map_to_list cache) (fun '(_, u) => lift (decref u)) ;;; raise e
       | Ok nodes =>
           hroots <- wrap_roots nodes ;;
           forM (map_to_list cache) (fun '(_, u) =>
             tmp_new u ;;;
             r <- lift (ref u) ;;
             assert (bool_decide (2 <= r)) ;;;
             (if false then assert (bool_decide (3 <= r)) else ret tt) ;;;
             lift (decref u) ;;;
             tmp_del u) ;;;
           (if false then lift (configure (Some true)) ;;; ret tt else ret tt) ;;;
           ret hroots
       end) (ASt r2 H n)).
  { intros _. unfold a_load_json. cbn [bind ret]. step (lift_run _ _ H n _ _ Ed).
    cbn [bind ret]. fold vat. by step E2. }
  rewrite (Hhead (fun _ => ret (HList []))). clear Hhead. cbv beta iota.
  destruct failed as [e|].
  { destruct (Hfail e) as (r'&E&HI'&G'&HC').
    exists (Err e), r1, r', H, n. split; [done|]. split.
    { rewrite (bind_ok _ _ _ (Err e) (ASt r2 H n)) by done. exact E. }
    split_and!; try done; [by apply HC1|by apply Hstep]. }
  destruct (root_nodes_pure cache (jf_roots jf) (ASt r2 H n) HI2) as (rn&Ern&Hrn).
  assert (Ecatch : catch (root_nodes cache (jf_roots jf)) (ASt r2 H n) = (Ok rn, ASt r2 H n)).
  { unfold catch. by rewrite Ern. }
  step Ecatch. destruct rn as [nodes|e]; cycle 1.
  { destruct (Hfail e) as (r'&E&HI'&G'&HC').
    exists (Err e), r1, r', H, n. split; [done|]. split; [exact E|].
    split_and!; try done; [by apply HC1|by apply Hstep]. }
  destruct (Hrn nodes eq_refl) as [Hnone Hvn]. cbn [mgr] in Hvn.
  destruct (wrap_roots_ok nodes r2 H n _ Hnone HI2 HC2 Hvn) as (r3&E3&HI3&G3&HC3).
  set (us := roots_values nodes) in *.
  destruct (release_gen false (map_to_list cache) r3 (hins H n us) (n + length us)
              (ledger_add L us) HI3) as (r'&E4&HI4&G4&_&HC4); [| |done|].
  { apply cvalid_list. by apply (cvalid_grows r2 r3). }
  { eapply Counts_ext; [|exact HC3]. intros m. unfold ledger_add, cvals. lia. }
  assert (G' : grows r2 r') by (by etrans).
  exists (Ok (hroots_of nodes n)), r1, r', (hins H n us), (n + length us).
  split; [done|]. split.
  { step E3. step E4. by cbn [bind ret]. }
  split_and!; try done; [by apply HC1|by apply Hstep|].
  exists us. split; [done|]. split; [done|]. split; [|done].
  eapply Forall_impl; [exact Hvn|]. intros x Hx. by apply (grows_valid r2 r' x).
Qed.

(** the statement with [DynB] and [BStep] spelled out *)
Theorem json_load_any_file_dyn_ledger_any jf r0 H n L :
  Inv r0 → rctx r0 = false → tape r0 = [] → Counts r0 L →
  ∃ res r1 r' H' n',
    declare (jf_levels jf).*1 r0 = (Ok tt, r1) ∧
    a_load_json jf false (ASt r0 H n) = (res, ASt r' H' n') ∧
    Inv r1 ∧ frame r0 r1 ∧ vars r0 ⊆ vars r1 ∧ Counts r1 L ∧
    (∀ v, is_Some (vars r1 !! v) ↔ is_Some (vars r0 !! v) ∨ v ∈ (jf_levels jf).*1) ∧
    (∀ u, valid r0 u → valid r1 u ∧ ∀ ρ, denv r1 u ρ = denv r0 u ρ) ∧
    Inv r' ∧ rctx r' = false ∧ tape r' = [] ∧ max_nodes r' = max_nodes r0 ∧
    keeps (heldn L) r1 r' ∧
    (last_len r0 = None → last_len r' = None) ∧
    (is_Some (last_len r0) → is_Some (last_len r')) ∧
    match res with
    | Err e => H' = H ∧ n' = n ∧ Counts r' L
    | Ok hroots => ∃ us, H' = hins H n us ∧ n' = n + length us ∧
                         Forall (valid r') us ∧ Counts r' (ledger_add L us)
    end.
Proof.
  intros HI0 Hc Ht HC.
  destruct (json_load_dyn_total_any jf r0 H n L (Build_DynB r0 HI0 Hc Ht) HC)
    as (res&r1&r'&H'&n'&Ed&E&HD1&Hf1&Hsub&HC1&Hdom&Hold&([HI' Hc' Ht']&Hk&[Hm1 Hm2]&Hmx')&Hres).
  pose proof Hf1 as (El&_&_&_&Em).
  exists res, r1, r', H', n'. split_and!; try done; [apply HD1|congruence|..]; rewrite <- El; done.
Qed.

Lemma AInvDT_hinsB r0 H n r' us :
  AInvDT (ASt r0 H n) → DynB r' →
  (∀ h u, H !! h = Some u → valid r' u) → Forall (valid r') us →
  Counts r' (ledger_add (hl H) us) →
  AInvDT (ASt r' (hins H n us) (n + length us)).
Proof.
  intros [(_&_&_&_&Hb) _] HD' Hold Hnew HC'. cbn [mgr handles next_hid] in *.
  split; [|apply HD']. split; [apply HD'|]. split; [apply HD'|]. split.
  { unfold hledger. cbn [handles mgr].
    eapply Counts_ext; [|exact HC']. intros m. symmetry. by apply hl_hins. }
  cbn [mgr handles next_hid]. split.
  - intros h u Hu. apply hins_lookup in Hu as [[Hu _]|(j&->&Hj)].
    + by apply (Hold h).
    + exact (proj1 (Forall_lookup _ _) Hnew j u Hj).
  - intros h u Hu. apply hins_lookup in Hu as [[Hu _]|(j&->&Hj)].
    + specialize (Hb _ _ Hu). lia.
    + apply lookup_lt_Some in Hj. lia.
Qed.

Lemma AInvDT_sameB r0 H n r' :
  AInvDT (ASt r0 H n) → DynB r' →
  (∀ h u, H !! h = Some u → valid r' u) → Counts r' (hl H) →
  AInvDT (ASt r' H n).
Proof.
  intros [(_&_&_&_&Hb) _] HD' Hold HC'. cbn [mgr handles next_hid] in *.
  split; [|apply HD']. split; [apply HD'|]. split; [apply HD'|]. by split.
Qed.

Theorem json_load_any_file_dynamic_any jf b :
  AInvDT b →
  ∃ res b',
    a_load_json jf false b = (res, b') ∧
    AInvDT b' ∧ max_nodes (mgr b') = max_nodes (mgr b) ∧ AKeepAll b b' ∧
    (∀ v, is_Some (vars (mgr b') !! v) ↔
          is_Some (vars (mgr b) !! v) ∨ v ∈ (jf_levels jf).*1) ∧
    (last_len (mgr b) = None → last_len (mgr b') = None) ∧
    (is_Some (last_len (mgr b)) → is_Some (last_len (mgr b'))) ∧
    match res with
    | Err e => handles b' = handles b ∧ next_hid b' = next_hid b ∧
               Counts (mgr b') (hledger b)
    | Ok hroots => ∃ us, handles b' = hins (handles b) (next_hid b) us ∧
                         next_hid b' = next_hid b + length us ∧
                         Forall (valid (mgr b')) us ∧
                         Counts (mgr b') (ledger_add (hledger b) us)
    end.
Proof.
  intros HA. destruct b as [r0 H n]. pose proof HA as [(HIb&Hrc&HC&Hv&Hb) Ht].
  cbn [mgr handles next_hid] in *. unfold hledger in *. cbn [handles] in *.
  assert (HD0 : DynB r0) by (by split).
  destruct (json_load_dyn_total_any jf r0 H n (hl H) HD0 HC)
    as (res&r1&r'&H'&n'&Ed&E&HD1&Hf1&Hsub&HC1&Hdom&Hold&HS&Hres).
  pose proof HS as (HD'&[Edom _]&[Hm1 Hm2]&Hmx'). pose proof Hf1 as (El&_&_&_&Em).
  assert (Hold' : ∀ h u, H !! h = Some u →
            valid r' u ∧ ∀ ρ, denv r' u ρ = denv r0 u ρ).
  { intros h u Hu. destruct (Hold u (Hv h u Hu)) as [Hu1 HD1u].
    assert (Hk : heldn (hl H) (absn u)) by (right; by apply (hl_pos H h)).
    split; [by apply (BStep_valid _ r1 r' u HS Hk)|].
    intros ρ. by rewrite (BStep_denv _ r1 r' u ρ HS Hk Hu1). }
  exists res, (ASt r' H' n'). cbn [mgr handles next_hid].
  split; [done|].
  assert (Hcommon : max_nodes r' = max_nodes r0 ∧
    (∀ v, is_Some (vars r' !! v) ↔ is_Some (vars r0 !! v) ∨ v ∈ (jf_levels jf).*1) ∧
    (last_len r0 = None → last_len r' = None) ∧
    (is_Some (last_len r0) → is_Some (last_len r'))).
  { split; [congruence|]. split.
    - intros v. rewrite <- Hdom. rewrite <- !elem_of_dom. by rewrite Edom.
    - split; [intros Hn; apply Hm1; by rewrite El|intros Hn; apply Hm2; by rewrite El]. }
  destruct Hcommon as (Hc1&Hc2&Hc3&Hc4).
  destruct res as [hroots|e].
  - destruct Hres as (us&->&->&Hvus&HC').
    split; [apply (AInvDT_hinsB r0); [done|done| |done|done]; intros h u Hu; by apply (Hold' h)|].
    split; [done|]. split.
    { intros h u Hu. cbn [mgr handles] in *. split.
      - rewrite hins_old; [done|]. left. by apply (Hb h u).
      - by apply (Hold' h). }
    split; [done|]. split; [done|]. split; [done|]. by exists us.
  - destruct Hres as (->&->&HC').
    split; [apply (AInvDT_sameB r0); [done|done| |done]; intros h u Hu; by apply (Hold' h)|].
    split; [done|]. split.
    { intros h u Hu. cbn [mgr handles] in *. split; [done|]. by apply (Hold' h). }
    by split_and!.
Qed.

