(** * ConsistentOk: what [BDD.assert_consistent] establishes, and what it
      does not.

    [assert_consistent] is a pure Boolean test of the tables
    ([assert_consistent_run]): it never changes the manager, its only
    exception is [AssertionError], and it succeeds exactly on the states
    that satisfy [Checked] ([assert_consistent_iff]).  [Inv] (with roots that
    are nodes) implies [Checked] ([inv_passes_check]); the converse fails
    ([check_weaker_than_Inv] and the examples at the end). *)
From DD Require Import Consistent Sem.

(** ** 1. The check is a Boolean function of the state *)

Lemma assert_bind {A} (b : bool) (k : MS A) s :
  (assert b ;;; k) s = if b then k s else (Err EAssert, s).
Proof. by destruct b. Qed.

Lemma assert_run (b : bool) (s : st) :
  assert b s = (if b then Ok tt else Err EAssert, s).
Proof. by destruct b. Qed.

Lemma bind_get {A} (f : st → MS A) s : (x <- get ;; f x) s = f s s.
Proof. done. Qed.

Lemma level_of_run s u :
  level_of u s = (if mem u s then Ok (lvl_of s u) else Err EKey, s).
Proof.
  unfold level_of, getsuccZ, getsucc, mem, lvl_of, bind.
  destruct (decide (u = 0%Z)) as [->|Hu].
  - rewrite bool_decide_eq_false_2; [done|]. by intros [? _].
  - destruct (succ s !! absn u) as [t|] eqn:E.
    + rewrite bool_decide_eq_true_2; [done|]. split; [done|by eexists].
    + rewrite bool_decide_eq_false_2; [done|]. intros [_ [? ?]]. done.
Qed.

Lemma level_of_bind {A} u (k : nat → MS A) s :
  mem u s = true → (i <- level_of u ;; k i) s = k (lvl_of s u) s.
Proof. intros H. unfold bind. by rewrite level_of_run, H. Qed.

Lemma forM_run {A} (l : list A) (f : A → MS unit) (g : A → bool) s :
  (∀ x, f x s = (if g x then Ok tt else Err EAssert, s)) →
  forM l f s = (if forallb g l then Ok tt else Err EAssert, s).
Proof.
  intros Hf. induction l as [|x l IH]; [done|].
  cbn [forM forallb]. unfold bind. rewrite Hf.
  destruct (g x); [|done]. cbn [andb]. apply IH.
Qed.

(** the per-node test *)
Definition node_check (s : st) (p : positive * triple) : MS unit :=
  let '(u, t) := p in
  if is_term t then
    assert (bool_decide (t_hi t = 0%Z))
  else
    assert (mem (t_lo t) s) ;;;
    assert (bool_decide (t_hi t ≠ 0%Z)) ;;;
    assert (bool_decide (0 < t_hi t)%Z) ;;;
    assert (mem (t_hi t) s) ;;;
    ilo <- level_of (t_lo t) ;;
    assert (bool_decide (t_lvl t < ilo)) ;;;
    ihi <- level_of (t_hi t) ;;
    assert (bool_decide (t_lvl t < ihi)) ;;;
    assert (bool_decide (pred s !! t = Some u)) ;;;
    assert (bool_decide (is_Some (refc s !! u))).

Definition node_ok (s : st) (p : positive * triple) : bool :=
  let '(u, t) := p in
  if is_term t then bool_decide (t_hi t = 0%Z)
  else
    mem (t_lo t) s && bool_decide (t_hi t ≠ 0%Z) && bool_decide (0 < t_hi t)%Z &&
    mem (t_hi t) s &&
    bool_decide (t_lvl t < lvl_of s (t_lo t)) &&
    bool_decide (t_lvl t < lvl_of s (t_hi t)) &&
    bool_decide (pred s !! t = Some u) &&
    bool_decide (is_Some (refc s !! u)).

Lemma node_check_run s p :
  node_check s p s = (if node_ok s p then Ok tt else Err EAssert, s).
Proof.
  destruct p as [u t]. unfold node_check, node_ok.
  destruct (is_term t); [apply assert_run|].
  rewrite assert_bind. destruct (mem (t_lo t) s) eqn:E1; [|done].
  rewrite assert_bind. destruct (bool_decide (t_hi t ≠ 0%Z)); [|done].
  rewrite assert_bind. destruct (bool_decide (0 < t_hi t)%Z); [|done].
  rewrite assert_bind. destruct (mem (t_hi t) s) eqn:E2; [|done].
  rewrite (level_of_bind _ _ _ E1).
  rewrite assert_bind. destruct (bool_decide (t_lvl t < lvl_of s (t_lo t))); [|done].
  rewrite (level_of_bind _ _ _ E2).
  rewrite assert_bind. destruct (bool_decide (t_lvl t < lvl_of s (t_hi t))); [|done].
  rewrite assert_bind. destruct (bool_decide (pred s !! t = Some u)); [|done].
  apply assert_run.
Qed.

(** the whole test *)
Definition consistent_b (s : st) : bool :=
  forallb (fun r => mem r s) (roots s) &&
  bool_decide (dom (succ s) =@{gset positive} list_to_set (map_to_list (pred s)).*2) &&
  bool_decide (dom (pred s) =@{gset triple} list_to_set (map_to_list (succ s)).*2) &&
  bool_decide (size (dom (succ s) : gset positive) =
               size (list_to_set (map_to_list (succ s)).*2 : gset triple)) &&
  forallb (node_ok s) (map_to_list (succ s)).

Theorem assert_consistent_run s :
  assert_consistent s = (if consistent_b s then Ok tt else Err EAssert, s).
Proof.
  unfold assert_consistent, consistent_b. rewrite bind_get. cbv beta zeta.
  rewrite assert_bind. destruct (forallb _ (roots s)); [|done].
  rewrite assert_bind. destruct (bool_decide (dom (succ s) = _)); [|done].
  rewrite assert_bind. destruct (bool_decide (dom (pred s) = _)); [|done].
  rewrite assert_bind. destruct (bool_decide (size _ = _)); [|done].
  cbn [andb]. apply forM_run. intros [u t]. apply (node_check_run s (u, t)).
Qed.

(** ** 2. The check is read-only, and its only exception is [AssertionError] *)

Theorem check_read_only s r s' : assert_consistent s = (r, s') → s' = s.
Proof. rewrite assert_consistent_run. by intros [= _ <-]. Qed.

Theorem check_outcome s r s' :
  assert_consistent s = (r, s') → r = Ok tt ∨ r = Err EAssert.
Proof.
  rewrite assert_consistent_run. intros [= <- _].
  destruct (consistent_b s); [by left|by right].
Qed.

Lemma check_ok_iff s s' :
  assert_consistent s = (Ok tt, s') ↔ consistent_b s = true ∧ s' = s.
Proof.
  rewrite assert_consistent_run. destruct (consistent_b s).
  - split; [by intros [= <-]|by intros [_ ->]].
  - split; [done|by intros [? _]].
Qed.

(** ** 3. Set-level facts about keys, values and sizes *)

Lemma elem_of_values `{Countable K, Countable V} (m : gmap K V) (v : V) :
  v ∈@{gset V} list_to_set (map_to_list m).*2 ↔ ∃ k, m !! k = Some v.
Proof.
  rewrite elem_of_list_to_set, elem_of_list_fmap. split.
  - intros [[k v'] [-> Hin]]. exists k. by apply elem_of_map_to_list in Hin.
  - intros [k Hk]. exists (k, v). split; [done|]. by apply elem_of_map_to_list.
Qed.

Lemma keys_are_values `{Countable K, Countable V} {A} (m : gmap K A) (m' : gmap V K) :
  dom m =@{gset K} list_to_set (map_to_list m').*2 ↔
  ∀ k, is_Some (m !! k) ↔ ∃ v, m' !! v = Some k.
Proof.
  rewrite stdpp.sets.set_eq. split; intros Hx k; specialize (Hx k).
  - by rewrite elem_of_dom, elem_of_values in Hx.
  - by rewrite elem_of_dom, elem_of_values.
Qed.

Lemma size_list_to_set_le `{Countable A} (l : list A) :
  size (list_to_set l : gset A) ≤ length l.
Proof.
  induction l as [|x l IH]; [done|]. cbn [list_to_set length].
  rewrite size_union_alt, size_singleton.
  assert (size (list_to_set l ∖ {[x]} : gset A) ≤ size (list_to_set l : gset A)) as Hd.
  { apply subseteq_size. set_solver. }
  lia.
Qed.

Lemma size_list_to_set_NoDup `{Countable A} (l : list A) :
  size (list_to_set l : gset A) = length l ↔ NoDup l.
Proof.
  split; [|apply size_list_to_set].
  induction l as [|x l IH]; intros Hs; [constructor|].
  cbn [list_to_set length] in Hs.
  pose proof (size_list_to_set_le l) as Hle.
  destruct (decide (x ∈ l)) as [Hin|Hnin].
  - exfalso.
    assert ({[x]} ∪ list_to_set l =@{gset A} list_to_set l) as E.
    { apply stdpp.sets.set_eq. intros y. rewrite elem_of_union, elem_of_singleton,
        elem_of_list_to_set. split; [intros [->|?]; done|by right]. }
    rewrite E in Hs. lia.
  - constructor; [done|]. apply IH.
    rewrite size_union in Hs.
    + rewrite size_singleton in Hs. lia.
    + intros y. rewrite elem_of_singleton, elem_of_list_to_set. by intros ->.
Qed.

Lemma values_NoDup_inj `{Countable K} {V} (m : gmap K V) :
  NoDup (map_to_list m).*2 ↔
  ∀ k k' v, m !! k = Some v → m !! k' = Some v → k = k'.
Proof.
  split.
  - intros Hnd k k' v Hk Hk'.
    apply elem_of_map_to_list, elem_of_list_lookup in Hk as [i Hi].
    apply elem_of_map_to_list, elem_of_list_lookup in Hk' as [j Hj].
    assert (i = j) as ->.
    { eapply (proj1 (NoDup_alt _) Hnd i j v); rewrite list_lookup_fmap.
      - by rewrite Hi.
      - by rewrite Hj. }
    congruence.
  - intros Hinj. apply NoDup_fmap_2_strong; [|apply NoDup_map_to_list].
    intros [k v] [k' v'] Hin Hin' Hv. cbn in Hv. subst v'.
    apply elem_of_map_to_list in Hin, Hin'. f_equal. by eapply Hinj.
Qed.

Lemma sizes_inj `{Countable K, Countable V} (m : gmap K V) :
  size (dom m : gset K) = size (list_to_set (map_to_list m).*2 : gset V) ↔
  ∀ k k' v, m !! k = Some v → m !! k' = Some v → k = k'.
Proof.
  rewrite <- values_NoDup_inj, <- size_list_to_set_NoDup.
  assert (length (map_to_list m).*2 = size (dom m : gset K)) as ->; [|split; congruence].
  rewrite size_dom, fmap_length. reflexivity.
Qed.

(** ** 4. The structural clauses that the check establishes, exactly *)

Record Checked (s : st) : Prop := {
  (* every root is a node *)
  chk_roots : Forall (valid s) (roots s);
  (* the nodes are the values of [_pred] *)
  chk_succ_keys : ∀ n, is_Some (succ s !! n) ↔ ∃ t, pred s !! t = Some n;
  (* the keys of [_pred] are the triples of the nodes *)
  chk_pred_keys : ∀ t, is_Some (pred s !! t) ↔ ∃ n, succ s !! n = Some t;
  (* sharing: distinct nodes have distinct triples *)
  chk_inj : ∀ n n' t, succ s !! n = Some t → succ s !! n' = Some t → n = n';
  (* a node without low child has no high child *)
  chk_term : ∀ n t, succ s !! n = Some t → t_lo t = 0%Z → t_hi t = 0%Z;
  (* every other node: children exist, regular high edge, ordered,
     [_pred] entry, count present *)
  chk_node : ∀ n t, succ s !! n = Some t → t_lo t ≠ 0%Z →
     valid s (t_lo t) ∧ (0 < t_hi t)%Z ∧ valid s (t_hi t) ∧
     t_lvl t < lvl_of s (t_lo t) ∧ t_lvl t < lvl_of s (t_hi t) ∧
     pred s !! t = Some n ∧ is_Some (refc s !! n);
}.

Lemma node_ok_term s u t : t_lo t = 0%Z →
  node_ok s (u, t) = true ↔ t_hi t = 0%Z.
Proof.
  intros E. unfold node_ok, is_term. rewrite bool_decide_eq_true_2 by done.
  apply bool_decide_eq_true.
Qed.

Lemma node_ok_inner s u t : t_lo t ≠ 0%Z →
  node_ok s (u, t) = true ↔
  valid s (t_lo t) ∧ (0 < t_hi t)%Z ∧ valid s (t_hi t) ∧
  t_lvl t < lvl_of s (t_lo t) ∧ t_lvl t < lvl_of s (t_hi t) ∧
  pred s !! t = Some u ∧ is_Some (refc s !! u).
Proof.
  intros E. unfold node_ok, is_term. rewrite bool_decide_eq_false_2 by done.
  rewrite !andb_true_iff, !bool_decide_eq_true, !mem_valid.
  split; [intros (((((((?&?)&?)&?)&?)&?)&?)&?)|intros (?&?&?&?&?&?&?)];
    split_and!; try done. lia.
Qed.

Lemma nodes_ok_iff s :
  forallb (node_ok s) (map_to_list (succ s)) = true ↔
  (∀ n t, succ s !! n = Some t → t_lo t = 0%Z → t_hi t = 0%Z) ∧
  (∀ n t, succ s !! n = Some t → t_lo t ≠ 0%Z →
     valid s (t_lo t) ∧ (0 < t_hi t)%Z ∧ valid s (t_hi t) ∧
     t_lvl t < lvl_of s (t_lo t) ∧ t_lvl t < lvl_of s (t_hi t) ∧
     pred s !! t = Some n ∧ is_Some (refc s !! n)).
Proof.
  rewrite forallb_forall. split.
  - intros Hall. split; intros n t Hn Hlo.
    + apply (node_ok_term s n t Hlo), Hall.
      by apply elem_of_list_In, elem_of_map_to_list.
    + apply (node_ok_inner s n t Hlo), Hall.
      by apply elem_of_list_In, elem_of_map_to_list.
  - intros [Ht Hn] [n t] Hin.
    apply elem_of_list_In, elem_of_map_to_list in Hin.
    destruct (decide (t_lo t = 0%Z)) as [E|E].
    + apply (node_ok_term s n t E). by eapply Ht.
    + apply (node_ok_inner s n t E). by eapply Hn.
Qed.

Theorem consistent_b_Checked s : consistent_b s = true ↔ Checked s.
Proof.
  unfold consistent_b.
  rewrite !andb_true_iff, !bool_decide_eq_true, nodes_ok_iff, forallb_forall.
  rewrite !keys_are_values, sizes_inj.
  split.
  - intros ((((Hr&Hk)&Hp)&Hi)&(Ht&Hn)). split; try done.
    apply Forall_forall. intros r Hin. apply mem_valid, Hr.
    by apply elem_of_list_In.
  - intros [Hr Hk Hp Hi Ht Hn]. split_and!; try done.
    intros r Hin. apply mem_valid. rewrite Forall_forall in Hr. apply Hr.
    by apply elem_of_list_In.
Qed.

(** the check succeeds exactly on the [Checked] states *)
Theorem assert_consistent_iff s s' :
  assert_consistent s = (Ok tt, s') ↔ Checked s ∧ s' = s.
Proof. by rewrite check_ok_iff, consistent_b_Checked. Qed.

Theorem check_sound s s' : assert_consistent s = (Ok tt, s') → Checked s.
Proof. intros H. by apply assert_consistent_iff in H as [? _]. Qed.

Theorem check_complete s : Checked s → assert_consistent s = (Ok tt, s).
Proof. intros H. by apply assert_consistent_iff. Qed.

(** [Checked], spelled out *)
Definition checked_clauses (s : st) : Prop :=
  Forall (valid s) (roots s) ∧
  (∀ n, is_Some (succ s !! n) ↔ ∃ t, pred s !! t = Some n) ∧
  (∀ t, is_Some (pred s !! t) ↔ ∃ n, succ s !! n = Some t) ∧
  (∀ n n' t, succ s !! n = Some t → succ s !! n' = Some t → n = n') ∧
  (∀ n t, succ s !! n = Some t → t_lo t = 0%Z → t_hi t = 0%Z) ∧
  (∀ n t, succ s !! n = Some t → t_lo t ≠ 0%Z →
     valid s (t_lo t) ∧ (0 < t_hi t)%Z ∧ valid s (t_hi t) ∧
     t_lvl t < lvl_of s (t_lo t) ∧ t_lvl t < lvl_of s (t_hi t) ∧
     pred s !! t = Some n ∧ is_Some (refc s !! n)).

Lemma Checked_unfold s : Checked s ↔ checked_clauses s.
Proof.
  split; [intros []; by split_and!|].
  intros (?&?&?&?&?&?). by split.
Qed.

(** the set form of the two key/value clauses *)
Lemma Checked_sets s : Checked s →
  dom (succ s) =@{gset positive} list_to_set (map_to_list (pred s)).*2 ∧
  dom (pred s) =@{gset triple} list_to_set (map_to_list (succ s)).*2.
Proof.
  intros HC. split; apply keys_are_values.
  - apply (chk_succ_keys _ HC).
  - apply (chk_pred_keys _ HC).
Qed.

(** on the non-terminal triples [_pred] is exactly the inverse of [_succ] *)
Lemma Checked_inverse s n t : Checked s → t_lo t ≠ 0%Z →
  succ s !! n = Some t ↔ pred s !! t = Some n.
Proof.
  intros HC Hlo. split.
  - intros Hn. by destruct (chk_node _ HC _ _ Hn Hlo) as (_&_&_&_&_&?&_).
  - intros Hp. destruct (proj1 (chk_pred_keys _ HC t)) as [n' Hn']; [by eexists|].
    destruct (chk_node _ HC _ _ Hn' Hlo) as (_&_&_&_&_&Hp'&_). congruence.
Qed.

(** ** 5. [Inv] passes the check *)

Lemma Inv_term_only_1 s n t : Inv s → succ s !! n = Some t →
  t_lo t = 0%Z ↔ n = 1%positive.
Proof.
  intros HI Hn. split.
  - intros E. destruct (decide (n = 1%positive)) as [|Hn1]; [done|].
    destruct (inv_node _ HI _ _ Hn Hn1) as (_&[Hlo _]&_). done.
  - intros ->. rewrite (inv_term _ HI) in Hn. by simplify_eq.
Qed.

Theorem Inv_Checked s : Inv s → Forall (valid s) (roots s) → Checked s.
Proof.
  intros HI Hr. split.
  - done.
  - intros n. split.
    + intros [t Ht]. exists t. by apply (inv_pred _ HI).
    + intros [t Ht]. exists t. by apply (inv_pred _ HI).
  - intros t. split.
    + intros [n Hn]. exists n. by apply (inv_pred _ HI).
    + intros [n Hn]. exists n. by apply (inv_pred _ HI).
  - intros n n' t Hn Hn'.
    apply (inv_pred _ HI) in Hn, Hn'. congruence.
  - intros n t Hn Hlo. apply (Inv_term_only_1 s n t HI Hn) in Hlo as ->.
    rewrite (inv_term _ HI) in Hn. by simplify_eq.
  - intros n t Hn Hlo.
    assert (n ≠ 1%positive) as Hn1.
    { intros E. by apply (Inv_term_only_1 s n t HI Hn) in E. }
    destruct (inv_node _ HI _ _ Hn Hn1) as (_&?&?&?&?&?&_).
    split_and!; try done.
    + by apply (inv_pred _ HI).
    + apply elem_of_dom. rewrite (inv_ref _ HI). apply elem_of_dom. by eexists.
Qed.

Theorem inv_passes_check s :
  Inv s → Forall (fun r => mem r s = true) (roots s) →
  assert_consistent s = (Ok tt, s).
Proof.
  intros HI Hr. apply check_complete, Inv_Checked; [done|].
  eapply Forall_impl; [exact Hr|]. intros r. apply mem_valid.
Qed.

(** ** 6. What the check does not see

    [Checked] never mentions [min_free], [ite_tab], [vars], [lvl2var]:
    changing them keeps a state [Checked].  Of the clauses of [Inv] this
    leaves unchecked: [inv_free], [inv_ite], [inv_vars], [inv_lvls], and in
    [inv_node]/[inv_term] the parts that mention [nvars] (node levels below
    the number of variables, terminal level equal to it).  Also unchecked:
    reducedness [t_lo t ≠ t_hi t]; that node 1 is a terminal (or that there
    is exactly one); [_pred] being the inverse of [_succ] on terminal
    triples; that the terminal has a count; that [_ref] has no other keys
    (counts cannot be negative in [nat]). *)

Definition same_checked_fields (s s' : st) : Prop :=
  succ s' = succ s ∧ pred s' = pred s ∧ refc s' = refc s ∧ roots s' = roots s.

Theorem Checked_same s s' : same_checked_fields s s' → Checked s → Checked s'.
Proof.
  intros (E1&E2&E3&E4) [Hr Hk Hp Hi Ht Hn].
  assert (Hval : ∀ u, valid s' u ↔ valid s u) by (intros; unfold valid; by rewrite E1).
  assert (Hlvl : ∀ u, lvl_of s' u = lvl_of s u) by (intros; unfold lvl_of; by rewrite E1).
  split.
  - rewrite E4. eapply Forall_impl; [exact Hr|]. intros r. by rewrite Hval.
  - intros n. rewrite E1, E2. apply Hk.
  - intros t. rewrite E1, E2. apply Hp.
  - intros n n' t. rewrite E1. apply Hi.
  - intros n t. rewrite E1. apply Ht.
  - intros n t. rewrite E1, E2, E3, !Hval, !Hlvl. apply Hn.
Qed.

(** the check cannot tell a state from the same state with the computed
    table, the free-node pointer and the variable order replaced *)
Theorem check_blind s mf it vs l2v :
  fst (assert_consistent
         (s <| min_free := mf |> <| ite_tab := it |> <| vars := vs |> <| lvl2var := l2v |>))
  = fst (assert_consistent s).
Proof.
  rewrite !assert_consistent_run. cbn [fst].
  set (s' := s <| min_free := mf |> <| ite_tab := it |> <| vars := vs |> <| lvl2var := l2v |>).
  destruct (consistent_b s) eqn:E.
  - apply consistent_b_Checked in E.
    apply (Checked_same s s') in E; [|done].
    apply consistent_b_Checked in E. by rewrite E.
  - destruct (consistent_b s') eqn:E'; [|done].
    apply consistent_b_Checked in E'.
    apply (Checked_same s' s) in E'; [|done].
    apply consistent_b_Checked in E'. congruence.
Qed.

(** ** 7. States that pass the check and violate [Inv] *)

(** variables v0 < v1; node 2 = v0, node 3 = v1 *)
Definition ck_ops : list op := [ONew [(0, 0); (1, 1)]; OVar 0; OVar 1].
Definition ck_s : st :=
  world_get (fold_left (fun w o => fst (step w 0 o)) ck_ops world_empty) 0.

(** (a) a redundant node [4 = (0, 3, 3)] entered in all three tables *)
Definition ck_redundant : st :=
  ck_s <| succ ::= <[4%positive := Triple 0 3 3]> |>
       <| pred ::= <[Triple 0 3 3 := 4%positive]> |>
       <| refc ::= <[4%positive := 0]> |>
       <| min_free := 5%positive |>.

Lemma ck_redundant_passes : assert_consistent ck_redundant = (Ok tt, ck_redundant).
Proof. apply check_complete, consistent_b_Checked. by vm_compute. Qed.

Lemma ck_redundant_not_Inv : ¬ Inv ck_redundant.
Proof.
  intros HI.
  assert (Hn : succ ck_redundant !! 4%positive = Some (Triple 0 3 3)) by (by vm_compute).
  destruct (inv_node _ HI _ _ Hn ltac:(done)) as (_&_&_&_&_&_&Hne). done.
Qed.

(** (b) the level of the terminal is not compared with the number of
    variables: replace the terminal [(2, None, None)] by [(9, None, None)]
    (levels of inner nodes are only bounded by the levels of their children) *)
Definition ck_terminal : st :=
  ck_s <| succ ::= <[1%positive := tterm 9]> |>
       <| pred := <[tterm 9 := 1%positive]> (delete (tterm 2) (pred ck_s)) |>.

Lemma ck_terminal_passes : assert_consistent ck_terminal = (Ok tt, ck_terminal).
Proof. apply check_complete, consistent_b_Checked. by vm_compute. Qed.

Lemma ck_terminal_not_Inv : ¬ Inv ck_terminal.
Proof.
  intros HI. pose proof (inv_term _ HI) as Ht. vm_compute in Ht. done.
Qed.

(** (c) the variable order destroyed, the computed table filled with junk,
    the free pointer on a live node *)
Definition ck_junk : st :=
  ck_s <| min_free := 2%positive |> <| ite_tab := {[ (2, 3, 3)%Z := 99%Z ]} |>
       <| vars := ∅ |> <| lvl2var := ∅ |>.

Lemma ck_junk_passes : fst (assert_consistent ck_junk) = Ok tt.
Proof. unfold ck_junk. rewrite check_blind. by vm_compute. Qed.

Lemma ck_junk_not_Inv : ¬ Inv ck_junk.
Proof.
  intros HI. destruct (inv_free _ HI) as [Hf _]. vm_compute in Hf. done.
Qed.

(** the ill-ordered node of [Proofs/Total.v] ([find_or_add(1, 2, 1)]: node
    [3 = (1, 2, 1)] whose low child is at level 0) is caught by the check *)
Definition ck_cx_s : st := snd (var 0 (snd (declare [0; 1] init))).
Definition ck_cx_s' : st := snd (find_or_add 1 2 1 ck_cx_s).

Lemma ck_cx_caught : fst (assert_consistent ck_cx_s') = Err EAssert.
Proof. by vm_compute. Qed.

Theorem check_weaker_than_Inv :
  ∃ s, assert_consistent s = (Ok tt, s) ∧ ¬ Inv s.
Proof. exists ck_redundant. split; [apply ck_redundant_passes|apply ck_redundant_not_Inv]. Qed.
