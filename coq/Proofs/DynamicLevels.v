(** * DynamicLevels: [cofactor] / [quantify] with keys given as LEVELS under
      dynamic reordering (dd commit 827d7f0).

    The public methods are not decorated any more: they turn their keys into
    variable names in the state of the call and run the decorated workers
    [cofactor_names] / [quantify_names] on these names.  Hence a call with keys
    given as levels IS the call by name on the variables that sit at those
    levels at the time of the call ([quantify_levels_as_names],
    [cofactor_levels_as_names]), and the theorems of [Dynamic] / [Dynamic3]
    for keys given as names carry over: wherever the reordering request fires,
    the result denotes the quantification / cofactor of the ORIGINAL function
    with respect to those variables. *)
From DD Require Export Dynamic3.

(** ** the names computed by the prelude *)
Lemma elem_of_names_at s (ks : list nat) v :
  Forall (fun l => is_Some (lvl2var s !! l)) ks →
  v ∈ names_at s (list_to_set ks) ↔ ∃ l, l ∈ ks ∧ lvl2var s !! l = Some v.
Proof.
  intros HF. unfold names_at. rewrite elem_of_list_fmap. split.
  - intros (l&->&Hl). apply elem_of_elements, elem_of_list_to_set in Hl.
    exists l. split; [done|].
    destruct (proj1 (Forall_forall _ _) HF l Hl) as [v Hv]. unfold name_at. by rewrite Hv.
  - intros (l&Hl&Hv). exists l. split; [unfold name_at; by rewrite Hv|].
    by apply elem_of_elements, elem_of_list_to_set.
Qed.

Lemma NoDup_names_at s q : Inv s → set_Forall (declared_lvl s) q → NoDup (names_at s q).
Proof.
  intros HI Hq. unfold names_at.
  apply (NoDup_fmap_2_strong _ (elements q)); [|apply NoDup_elements].
  intros l1 l2 H1 H2 E. apply elem_of_elements in H1, H2.
  pose proof (name_at_level s l1 HI (Hq l1 H1)) as E1.
  pose proof (name_at_level s l2 HI (Hq l2 H2)) as E2.
  rewrite E in E1. congruence.
Qed.

Lemma elem_of_namevals_at s (values : list (nat * bool)) v b :
  Forall (fun p => is_Some (lvl2var s !! p.1)) values →
  (v, b) ∈ namevals_at s (list_to_map (reverse values) : gmap nat bool) ↔
  ∃ l, lvl2var s !! l = Some v ∧
       (list_to_map (reverse values) : gmap nat bool) !! l = Some b.
Proof.
  intros HF. set (lv := list_to_map (reverse values) : gmap nat bool).
  assert (Hd : ∀ l, l ∈ dom lv → declared_lvl s l) by (by apply level_dict_declared).
  unfold namevals_at. rewrite elem_of_list_fmap. split.
  - intros ([l b']&[= -> ->]&Hl). cbn [fst snd]. apply elem_of_map_to_list in Hl.
    exists l. split; [|done].
    destruct (Hd l) as [v Hv]; [apply elem_of_dom; by eexists|]. unfold name_at. by rewrite Hv.
  - intros (l&Hv&Hl). exists (l, b). cbn [fst snd]. split.
    + unfold name_at. by rewrite Hv.
    + by apply elem_of_map_to_list.
Qed.

Lemma NoDup_namevals_at s (lv : gmap nat bool) :
  Inv s → (∀ l, l ∈ dom lv → declared_lvl s l) → NoDup (namevals_at s lv).*1.
Proof.
  intros HI Hd. unfold namevals_at. rewrite <- list_fmap_compose.
  apply (NoDup_fmap_2_strong _ (map_to_list lv)); [|apply NoDup_map_to_list].
  intros [l1 a1] [l2 a2] H1 H2 E. cbn in E.
  apply elem_of_map_to_list in H1, H2.
  assert (E1 := name_at_level s l1 HI (Hd l1 ltac:(apply elem_of_dom; by eexists))).
  assert (E2 := name_at_level s l2 HI (Hd l2 ltac:(apply elem_of_dom; by eexists))).
  rewrite E in E1. assert (l1 = l2) by congruence. subst l2. f_equal. congruence.
Qed.

(** ** keys given as levels: the call IS the call by name on the variables at
    these levels in the state of the call *)
Theorem quantify_levels_as_names s u qvars fa :
  Inv s → Forall (fun l => is_Some (lvl2var s !! l)) qvars →
  ∃ names,
    NoDup names ∧
    (∀ v, v ∈ names ↔ ∃ l, l ∈ qvars ∧ lvl2var s !! l = Some v) ∧
    Forall (fun k => is_Some (vars s !! k)) names ∧
    quantify u false qvars fa s = quantify u true names fa s.
Proof.
  intros HI HF. exists (names_at s (list_to_set qvars)).
  assert (Hq : set_Forall (declared_lvl s) (list_to_set qvars : gset nat))
    by (by apply level_set_declared).
  split; [by apply NoDup_names_at|]. split; [intros v; by apply elem_of_names_at|].
  split; [by apply names_at_declared|].
  rewrite quantify_levels_unfold. by rewrite decide_True by exact HF.
Qed.

Theorem cofactor_levels_as_names s u values :
  Inv s → Forall (fun p => is_Some (lvl2var s !! p.1)) values →
  ∃ nv,
    NoDup nv.*1 ∧
    (∀ v b, (v, b) ∈ nv ↔
       ∃ l, lvl2var s !! l = Some v ∧
            (list_to_map (reverse values) : gmap nat bool) !! l = Some b) ∧
    Forall (fun p => is_Some (vars s !! p.1)) nv ∧
    cofactor u false values s = cofactor u true nv s.
Proof.
  intros HI HF. set (lv := list_to_map (reverse values) : gmap nat bool).
  exists (namevals_at s lv).
  assert (Hd : ∀ l, l ∈ dom lv → declared_lvl s l) by (by apply level_dict_declared).
  split; [by apply NoDup_namevals_at|].
  split; [intros v b; by apply elem_of_namevals_at|].
  split; [by apply namevals_at_declared|].
  rewrite cofactor_levels_unfold. by rewrite decide_True by exact HF.
Qed.

(** a key that is not a level: [ValueError] from the prelude, nothing changed *)
Theorem quantify_levels_rejected s u qvars fa :
  ¬ Forall (fun l => is_Some (lvl2var s !! l)) qvars →
  quantify u false qvars fa s = (Err EValue, s).
Proof. intros HF. rewrite quantify_levels_unfold. by rewrite decide_False by exact HF. Qed.
Theorem cofactor_levels_rejected s u values :
  ¬ Forall (fun p => is_Some (lvl2var s !! p.1)) values →
  cofactor u false values s = (Err EValue, s).
Proof. intros HF. rewrite cofactor_levels_unfold. by rewrite decide_False by exact HF. Qed.

(** ** dynamic reordering enabled, any tape: the analogues of
    [quantify_dynamic] / [cofactor_dynamic] *)
Theorem quantify_levels_dynamic s L u qvars fa r s' :
  Inv s → Counts s L → rctx s = false → max_nodes s = None →
  valid s u → heldn L (absn u) →
  Forall (fun l => is_Some (lvl2var s !! l)) qvars →
  quantify u false qvars fa s = (r, s') →
  r = Err EOracle ∨
  ∃ x names,
       NoDup names ∧
       (∀ v, v ∈ names ↔ ∃ l, l ∈ qvars ∧ lvl2var s !! l = Some v) ∧
       r = Ok x ∧ Inv s' ∧ Counts s' L ∧ rctx s' = false ∧
       (last_len s = None → last_len s' = None) ∧
       (is_Some (last_len s) → is_Some (last_len s')) ∧
       keeps (heldn L) s s' ∧
       valid s' x ∧
       ∀ ρ, denv s' x ρ = true ↔ qsemv s fa (list_to_set names) u ρ.
Proof.
  intros HI HC Hc Hmx Hu Ku HF Hrun.
  destruct (quantify_levels_as_names s u qvars fa HI HF) as (names&Hnd&Hin&Hdecl&E).
  rewrite E in Hrun.
  destruct (quantify_dynamic s L u names fa r s' sifting_ok'_holds HI HC Hc Hmx Hu Ku Hdecl Hrun)
    as [?|(x&?)]; [by left|right]. by exists x, names.
Qed.

Theorem cofactor_levels_dynamic s L u values r s' :
  Inv s → Counts s L → rctx s = false → max_nodes s = None →
  valid s u → heldn L (absn u) →
  Forall (fun p => is_Some (lvl2var s !! p.1)) values →
  cofactor u false values s = (r, s') →
  r = Err EOracle ∨
  ∃ x nv,
       NoDup nv.*1 ∧
       (∀ v b, (v, b) ∈ nv ↔
          ∃ l, lvl2var s !! l = Some v ∧
               (list_to_map (reverse values) : gmap nat bool) !! l = Some b) ∧
       r = Ok x ∧ Inv s' ∧ Counts s' L ∧ rctx s' = false ∧
       (last_len s = None → last_len s' = None) ∧
       (is_Some (last_len s) → is_Some (last_len s')) ∧
       keeps (heldn L) s s' ∧
       valid s' x ∧
       ∀ ρ, denv s' x ρ = denv s u (overridev (list_to_map (reverse nv)) ρ).
Proof.
  intros HI HC Hc Hmx Hu Ku HF Hrun.
  destruct (cofactor_levels_as_names s u values HI HF) as (nv&Hnd&Hin&Hdecl&E).
  rewrite E in Hrun.
  destruct (cofactor_dynamic s L u nv r s' sifting_ok'_holds HI HC Hc Hmx Hu Ku Hdecl Hrun)
    as [?|(x&?)]; [by left|right]. by exists x, nv.
Qed.

(** ** with an empty oracle tape (the literal code): no oracle alternative *)
Theorem quantify_levels_notape s L u qvars fa r s' :
  Inv s → Counts s L → rctx s = false → tape s = [] → max_nodes s = None →
  valid s u → heldn L (absn u) →
  Forall (fun l => is_Some (lvl2var s !! l)) qvars →
  quantify u false qvars fa s = (r, s') →
  (∃ x names,
        NoDup names ∧
        (∀ v, v ∈ names ↔ ∃ l, l ∈ qvars ∧ lvl2var s !! l = Some v) ∧
        r = Ok x ∧ Inv s' ∧ Counts s' L ∧ rctx s' = false ∧
        (last_len s = None → last_len s' = None) ∧
        (is_Some (last_len s) → is_Some (last_len s')) ∧
        keeps (heldn L) s s' ∧ valid s' x ∧
        ∀ ρ, denv s' x ρ = true ↔ qsemv s fa (list_to_set names) u ρ) ∧
  tape s' = [].
Proof.
  intros HI HC Hc Ht Hmx Hu Ku HF Hrun.
  destruct (quantify_levels_as_names s u qvars fa HI HF) as (names&Hnd&Hin&Hdecl&E).
  rewrite E in Hrun.
  destruct (quantify_notape s L HI HC Hc Ht Hmx u names fa r s' Hu Ku Hdecl Hrun)
    as [(x&?) Ht']. split; [|done]. by exists x, names.
Qed.

Theorem cofactor_levels_notape s L u values r s' :
  Inv s → Counts s L → rctx s = false → tape s = [] → max_nodes s = None →
  valid s u → heldn L (absn u) →
  Forall (fun p => is_Some (lvl2var s !! p.1)) values →
  cofactor u false values s = (r, s') →
  (∃ x nv,
        NoDup nv.*1 ∧
        (∀ v b, (v, b) ∈ nv ↔
           ∃ l, lvl2var s !! l = Some v ∧
                (list_to_map (reverse values) : gmap nat bool) !! l = Some b) ∧
        r = Ok x ∧ Inv s' ∧ Counts s' L ∧ rctx s' = false ∧
        (last_len s = None → last_len s' = None) ∧
        (is_Some (last_len s) → is_Some (last_len s')) ∧
        keeps (heldn L) s s' ∧ valid s' x ∧
        ∀ ρ, denv s' x ρ = denv s u (overridev (list_to_map (reverse nv)) ρ)) ∧
  tape s' = [].
Proof.
  intros HI HC Hc Ht Hmx Hu Ku HF Hrun.
  destruct (cofactor_levels_as_names s u values HI HF) as (nv&Hnd&Hin&Hdecl&E).
  rewrite E in Hrun.
  destruct (cofactor_notape s L HI HC Hc Ht Hmx u nv r s' Hu Ku Hdecl Hrun)
    as [(x&?) Ht']. split; [|done]. by exists x, nv.
Qed.

(** ** the meaning in terms of the LEVELS of the state of the call.
    [overridev] on the names of the levels of [lv] is [override lv] on the
    level assignment: with [aof s ρ] (the level assignment of [ρ] in [s]),
    [denv s u (overridev nvm ρ) = D s u (override lv (aof s ρ))]. *)
Lemma overridev_names_levels s (values : list (nat * bool)) nv u ρ :
  Inv s → valid s u →
  NoDup nv.*1 →
  (∀ v b, (v, b) ∈ nv ↔
     ∃ l, lvl2var s !! l = Some v ∧
          (list_to_map (reverse values) : gmap nat bool) !! l = Some b) →
  denv s u (overridev (list_to_map (reverse nv)) ρ)
  = D s u (override (list_to_map (reverse values)) (aof s ρ)).
Proof.
  intros HI Hu Hnd Hin. rewrite denv_aof.
  apply (D_indep_lt s HI); [done|]. intros j Hj.
  apply (inv_lvls _ HI) in Hj as [y Hy]. unfold override, aof, overridev. rewrite Hy.
  set (lv := list_to_map (reverse values) : gmap nat bool) in *.
  assert (Hnd' : NoDup (reverse nv).*1) by (by rewrite fmap_reverse, reverse_Permutation).
  destruct (lv !! j) as [b|] eqn:Ej.
  - assert (Hm : (y, b) ∈ nv) by (apply Hin; by exists j).
    rewrite (elem_of_list_to_map_1 (reverse nv) y b Hnd'); [done|].
    by rewrite elem_of_reverse.
  - rewrite (not_elem_of_list_to_map_1 (reverse nv) y); [done|].
    intros Hy'. apply elem_of_list_fmap in Hy' as ([y' b]&->&Hm). cbn [fst] in *.
    rewrite elem_of_reverse in Hm. apply Hin in Hm as (l&Hl&Hb).
    apply (inv_vars _ HI) in Hl, Hy. congruence.
Qed.

(** quantifying the names of the levels [qvars] is quantifying these levels
    (of the state of the call) *)
Lemma qsemv_names_levels s (qvars names : list nat) fa u ρ :
  Inv s → valid s u →
  Forall (fun l => is_Some (lvl2var s !! l)) qvars →
  (∀ v, v ∈ names ↔ ∃ l, l ∈ qvars ∧ lvl2var s !! l = Some v) →
  qsemv s fa (list_to_set names) u ρ ↔ qsem s fa (list_to_set qvars) u (aof s ρ).
Proof.
  intros HI Hu HF Hin. symmetry. apply (qsem_names s HI); [done|].
  intros l. rewrite elem_of_list_to_set. split.
  - intros Hl. destruct (proj1 (Forall_forall _ _) HF l Hl) as [v Hv].
    exists v. split; [|by apply (inv_vars _ HI)].
    apply elem_of_list_to_set, Hin. by exists l.
  - intros (x&Hx&Hl). apply elem_of_list_to_set, Hin in Hx as (l'&Hl'&Hv).
    apply (inv_vars _ HI) in Hv. by assert (l = l') as -> by congruence.
Qed.
