(** * JsonLoad2: [load_json(..., load_order=True)] unconditionally: the
      premise of [json_load_true] on the [reorder(order)] call is discharged
      with [reorder_order_ok] (Proofs/Sift9.v). *)
From DD Require Export JsonLoad Sift9.

(** ** [declare] only adds the listed names *)
Lemma declare_dom vs : ∀ s r s', Inv s → declare vs s = (r, s') →
  ∀ v, is_Some (vars s' !! v) → is_Some (vars s !! v) ∨ v ∈ vs.
Proof.
  induction vs as [|v0 vs IH]; intros s r s' HI Hrun v Hv.
  { cbn in Hrun. injection Hrun as <- <-. by left. }
  destruct (declare_total s (v0 :: vs) r s' HI Hrun) as (->&_).
  unfold declare in Hrun. cbn [forM] in Hrun. unfold bind at 1 2 in Hrun.
  destruct (add_var v0 None s) as [[l|e] s1] eqn:Ea; [|done]. cbn [ret] in Hrun.
  destruct (add_var_total s v0 None (Ok l) s1 HI Ea ltac:(done)) as (HI1&_&_&_&Hr).
  destruct (IH s1 (Ok tt) s' HI1 Hrun v Hv) as [Hv1|Hin]; [|right; by apply elem_of_list_further].
  destruct Hr as [[_ ->]|(_&_&_&E&_)]; [by left|].
  rewrite E in Hv1. destruct (decide (v = v0)) as [->|Hne].
  - right. apply elem_of_list_here.
  - left. by rewrite lookup_insert_ne in Hv1.
Qed.

Lemma frame_tape s s' : frame s s' → tape s' = tape s.
Proof. by intros (_&_&_&?&_). Qed.
Lemma frame_roots s s' : frame s s' → roots s' = roots s.
Proof. by intros (_&_&?&_). Qed.

(** ** the state in which [reorder(order)] is called *)
Section recv.
Context (s : st) (HIs : Inv s) (vl : list (nat * nat)) (Hvl : vars_file s vl).
Context (r0 : st) (L : positive → nat).
Context (HI0 : Inv r0) (HC0 : Counts r0 L).

Lemma declare_off_run :
  ∃ r1, declare vl.*1 (r0 <| last_len := None |>) = (Ok tt, r1) ∧
    Inv r1 ∧ Counts r1 L ∧ last_len r1 = None ∧ rctx r1 = rctx r0 ∧
    tape r1 = tape r0 ∧ roots r1 = roots r0 ∧ max_nodes r1 = max_nodes r0 ∧
    vars r0 ⊆ vars r1 ∧
    (∀ v, is_Some (vars r1 !! v) ↔ is_Some (vars r0 !! v) ∨ is_Some (vars s !! v)) ∧
    (∀ u, valid r0 u → valid r1 u ∧ ∀ ρ, denv r1 u ρ = denv r0 u ρ).
Proof.
  set (ra := r0 <| last_len := None |>).
  assert (HIa : Inv ra) by (apply (Inv_same r0); [by repeat split|done]).
  assert (HCa : Counts ra L) by (by apply (Counts_same r0)).
  destruct (declare vl.*1 ra) as [rd r1] eqn:Ed.
  destruct (declare_run _ ra rd r1 HIa Ed) as (->&HI1&Hf1&HC1&Hd1&Hsub1&Hin1&_).
  exists r1. split; [done|]. split; [done|]. split; [by apply HC1|].
  pose proof Hf1 as (El&Er&Ero&Et&Emx).
  split; [by rewrite El|]. split; [by rewrite Er|]. split; [by rewrite Et|].
  split; [by rewrite Ero|]. split; [by rewrite Emx|]. split; [exact Hsub1|]. split.
  - intros v. split.
    + intros Hv. destruct (declare_dom _ ra _ r1 HIa Ed v Hv) as [?|Hin]; [by left|right].
      apply elem_of_list_fmap in Hin as ([v' l]&->&Hin). exists l. by apply Hvl.
    + intros [[l Hl]|[l Hl]].
      * exists l. by apply (lookup_weaken _ _ _ _ Hl Hsub1).
      * apply Hin1. apply elem_of_list_fmap. exists (v, l). split; [done|]. by apply Hvl.
  - intros u Hu. destruct (Hd1 u Hu) as [Hu1 HD]. split; [done|].
    intros ρ. rewrite HD. by apply denv_tables.
Qed.

End recv.

(** ** J2, unconditional.  ANY receiver whose variables are among the
    file's, any initial order, any setting of dynamic reordering. *)
Theorem json_load_true_any s roots vorder jf r0 H n L :
  Inv s → json_file s roots vorder jf → roots ≠ RNone →
  Forall (valid s) (roots_values roots) →
  Inv r0 → max_nodes r0 = None → Counts r0 L → tape r0 = [] →
  (∀ u, u ∈ Base.roots r0 → held L u) →
  (∀ v, is_Some (vars r0 !! v) → is_Some (vars s !! v)) →
  ∃ r3 us,
    let r' := r3 <| last_len := Some (Nat.max REORDER_STARTS (len r3)) |> in
    a_load_json jf true (ASt r0 H n)
      = (Ok (hroots_of roots n), ASt r' (hins H n us) (n + length us)) ∧
    Inv r' ∧ vars r' = vars s ∧ rctx r' = rctx r0 ∧ tape r' = [] ∧
    Base.roots r' = Base.roots r0 ∧
    (∀ u, held L u → valid r0 u ∧ valid r' u ∧ ∀ ρ, denv r' u ρ = denv r0 u ρ) ∧
    Forall2 (same_fun s r') (roots_values roots) us ∧
    Counts r' (ledger_add L us).
Proof.
  intros HIs Hjf Hnone Hr HI0 Hmx0 HC0 Ht Hroots Hsub.
  pose proof Hjf as (_&_&Hvl&_).
  destruct (declare_off_run s (jf_levels jf) Hvl r0 L HI0 HC0)
    as (r1&Ed&HI1&HC1&Hoff1&Hrc1&Ht1&Hro1&Emx1&Hsub1&Hdom1&Hold1).
  assert (Hmx1 : max_nodes r1 = None) by (by rewrite Emx1).
  (* the variables of [r1] are exactly those of the file *)
  assert (Hd : dom (vars s) = dom (vars r1)).
  { apply stdpp.sets.set_eq. intros v. rewrite !elem_of_dom, Hdom1. split; [by right|].
    intros [Hv|Hv]; [by apply Hsub|done]. }
  assert (Hn : nvars r1 = nvars s) by (unfold nvars; by rewrite <- !size_dom, Hd).
  pose proof (order_of_file s (jf_levels jf) HIs Hvl) as Eo.
  destruct (reorder_order_ok (list_to_map (reverse (jf_levels jf))) r1 L HI1 HC1 Hoff1)
    as (r2&Ere&HI2&Ev2&Hoff2&HC2&Hk2&Hrr2&Ht2).
  { by rewrite Ht1. }
  { exact Hmx1. }
  { by rewrite Eo. }
  { rewrite Eo. intros v v' l. by apply (vars_inj s). }
  { rewrite Eo. intros v l Hv. rewrite Hn. by apply (name_level s v l). }
  { rewrite Hro1. exact Hroots. }
  rewrite Eo in Ev2.
  assert (Hmx2 : max_nodes r2 = None) by (by rewrite (rr_max_nodes _ _ Hrr2)).
  destruct (json_load_true s roots vorder jf r0 H n r1 r2 L HIs Hjf Hnone Hr Ed Ere HI2 Ev2
              Hoff2 Hmx2 HC2) as (r3&us&E&HI'&G&He&HF&HC').
  exists r3, us. cbn zeta in *. split; [exact E|]. split; [done|].
  destruct G as [(_&Ev3&_) (_&Erc3&Ero3&Et3&_)].
  injection Hrr2 as Erc2 Ero2 _.
  split; [cbn; congruence|]. split; [cbn; congruence|]. split; [cbn; congruence|].
  split; [cbn; congruence|]. split; [|done].
  intros u Hu. pose proof (held_valid L r0 u HI0 HC0 Hu) as Hu0.
  destruct (Hold1 u Hu0) as [Hu1 HD1]. destruct (Hk2 u Hu) as (_&Hu2&HD2).
  split; [done|]. split; [by apply (valid_extends r2)|].
  intros ρ. by rewrite (denv_ext r2 _ u ρ He HI2 Hu2), HD2, HD1.
Qed.

(** ** dump, then load, in terms of the autoref state *)
Theorem json_roundtrip_true_any s roots vorder jf sd b L :
  Inv s → Forall (valid s) (roots_values roots) →
  dump_json roots vorder s = (Ok jf, sd) →
  Inv (mgr b) → max_nodes (mgr b) = None → Counts (mgr b) L → tape (mgr b) = [] →
  (∀ h u, handles b !! h = Some u → held L u) →
  (∀ u, u ∈ Base.roots (mgr b) → held L u) →
  (∀ v, is_Some (vars (mgr b) !! v) → is_Some (vars s !! v)) →
  sd = s ∧
  ∃ b' us,
    a_load_json jf true b = (Ok (hroots_of roots (next_hid b)), b') ∧
    Inv (mgr b') ∧ vars (mgr b') = vars s ∧ is_Some (last_len (mgr b')) ∧
    rctx (mgr b') = rctx (mgr b) ∧ tape (mgr b') = [] ∧
    (* old handles: same node, same function of the names *)
    (∀ h u, handles b !! h = Some u →
       handles b' !! h = Some u ∨ next_hid b ≤ h) ∧
    (∀ u, held L u →
       valid (mgr b) u ∧ valid (mgr b') u ∧ ∀ ρ, denv (mgr b') u ρ = denv (mgr b) u ρ) ∧
    (* new handles *)
    next_hid b' = next_hid b + length (roots_values roots) ∧
    (∀ h, h < next_hid b ∨ next_hid b' ≤ h → handles b' !! h = handles b !! h) ∧
    (∀ i u', us !! i = Some u' → handles b' !! (next_hid b + i) = Some u') ∧
    Forall2 (same_fun s (mgr b')) (roots_values roots) us ∧
    Counts (mgr b') (ledger_add L us).
Proof.
  intros HIs Hr Hd HIb Hmx HC Ht Hh Hroots Hsub.
  assert (Hnone : roots ≠ RNone).
  { intros ->. by apply dump_json_none in Hd. }
  destruct (dump_json_spec s HIs roots vorder jf sd Hr Hd) as [-> Hjf].
  split; [done|]. destruct b as [r0 H n]. cbn [mgr handles next_hid] in *.
  destruct (json_load_true_any s roots vorder jf r0 H n L HIs Hjf Hnone Hr HIb Hmx HC Ht Hroots Hsub)
    as (r3&us&E&HI'&Ev&Erc&Et&_&Hold&HF&HC').
  cbn zeta in *.
  assert (Hlen : length us = length (roots_values roots))
    by (symmetry; by eapply Forall2_length).
  eexists _, us. split; [exact E|]. cbn [mgr handles next_hid].
  split; [done|]. split; [done|]. split; [by eexists|]. split; [done|]. split; [done|].
  split.
  { intros h u Hu. destruct (decide (h < n)) as [Hlt|?]; [left|right; lia].
    rewrite hins_old by lia. done. }
  split; [done|]. split; [by rewrite Hlen|]. split; [intros h Hh'; by apply hins_old|].
  split; [intros i u' Hi; by apply hins_new|]. done.
Qed.

(** ** the receiver has a variable that the file does not have:
    [_sort_to_order] rejects the order.  The missing names have been declared
    and dynamic reordering has been switched off; nothing else changed. *)
Theorem json_load_true_extra_var s roots vorder jf r0 H n L x :
  Inv s → json_file s roots vorder jf →
  Inv r0 → Counts r0 L →
  is_Some (vars r0 !! x) → vars s !! x = None →
  ∃ r1, declare (jf_levels jf).*1 (r0 <| last_len := None |>) = (Ok tt, r1) ∧
    a_load_json jf true (ASt r0 H n) = (Err EValue, ASt r1 H n) ∧
    Inv r1 ∧ Counts r1 L ∧ last_len r1 = None ∧ vars r0 ⊆ vars r1 ∧
    (∀ u, valid r0 u → valid r1 u ∧ ∀ ρ, denv r1 u ρ = denv r0 u ρ).
Proof.
  intros HIs Hjf HI0 HC0 Hx Hxs. pose proof Hjf as (_&_&Hvl&_).
  destruct (declare_off_run s (jf_levels jf) Hvl r0 L HI0 HC0)
    as (r1&Ed&HI1&HC1&Hoff1&_&_&_&_&Hsub1&Hdom1&Hold1).
  exists r1. split; [done|]. split; [|by split_and!].
  pose proof (order_of_file s (jf_levels jf) HIs Hvl) as Eo.
  assert (Hlt : nvars s < nvars r1).
  { unfold nvars. rewrite <- !size_dom. apply subset_size. split.
    - intros v Hv. apply elem_of_dom. apply Hdom1. right. by apply elem_of_dom.
    - intros Hsub. assert (x ∈ dom (vars s)) as Hxd.
      { apply Hsub, elem_of_dom, Hdom1. by left. }
      apply elem_of_dom in Hxd as [? ?]. congruence. }
  assert (Ere : reorder (Some (list_to_map (reverse (jf_levels jf)))) r1 = (Err EValue, r1)).
  { rewrite Eo. unfold reorder, sort_to_order. cbn [bind get].
    rewrite bool_decide_eq_false_2 by (fold (nvars s); lia). done. }
  unfold a_load_json.
  rewrite bind_assoc, (bind_ok _ _ _ _ _ (lift_run _ _ H n _ _ (configure_false r0))).
  cbn [bind ret]. step (lift_run _ _ H n _ _ Ed).
  by rewrite (bind_err _ _ _ _ _ (lift_run _ _ H n _ _ Ere)).
Qed.
