(** * SwapG: a rooted collection only removes nodes of a class [Y] whose
      members' children all keep a parent outside [Y] *)
From DD Require Export SwapF.

Section gconly.
Context (Y : positive → Prop).

Definition kids_kept (m : gmap positive triple) : Prop :=
  ∀ n t c, Y n → m !! n = Some t → c = t_lo t ∨ c = t_hi t → absn c ≠ 1%positive →
    ∃ k tk, m !! k = Some tk ∧ ¬ Y k ∧ 0 < edges_to tk (absn c).

Lemma gc_loop_only C s0 L fuel : ∀ U s r s',
  J C s0 L s U → size (succ s) < fuel →
  (∀ n, n ∈ U → Y n) →
  (∀ n, n ∈ dom (succ s0) → ¬ Y n → n ∈ dom (succ s)) →
  kids_kept (succ s0) →
  gc_loop fuel U s = (r, s') →
  ∀ n, n ∈ dom (succ s0) → ¬ Y n → n ∈ dom (succ s').
Proof.
  induction fuel as [|f IH]; intros U s r s' HJ Hsz HU Hkeep Hkids; [lia|].
  destruct (elements U) as [|u l] eqn:Hel.
  { cbn [gc_loop]. rewrite Hel. intros [= <- <-]. done. }
  assert (HuU : u ∈ U) by (apply elem_of_elements; rewrite Hel; left).
  destruct (j_unused _ _ _ _ _ HJ u HuU) as (Hu1&Hud&Hr).
  pose proof (j_inv _ _ _ _ _ HJ) as HW.
  pose proof (j_counts _ _ _ _ _ HJ) as HC.
  apply elem_of_dom in Hud as [t Ht].
  destruct (node_facts s HW u t Ht Hu1) as (Hv0&Hwp&Hvd&Hwd&Hvu&Hwu).
  destruct (W_free s HW) as [Hfree _].
  destruct (gc_loop_unfold f U s u l t Hel Hu1 Ht Hv0 Hwp) as (rv&rw&Hrv&Hrw&->);
    try done.
  - by apply (W_pred s HW).
  - assert (min_free s ≠ 1%positive); [|lia].
    intros E. rewrite E, (W_term s HW) in Hfree. done.
  - apply (Counts_ref s L _ HC). by apply elem_of_dom.
  - apply (Counts_ref s L _ HC). by apply elem_of_dom.
  - pose proof (J_step C s0 L s U u t rv rw HJ HuU Ht Hrv Hrw) as HJ'.
    pose proof (lookup_weaken _ _ _ _ Ht (j_sub _ _ _ _ _ HJ)) as Ht0.
    (* a child with a parent outside [Y] keeps a positive count *)
    assert (Hpos : ∀ c rc, c = t_lo t ∨ c = t_hi t → absn c ≠ 1%positive →
              refc (gc_del s u t) !! absn c = Some rc → 0 < rc).
    { intros c rc Hc Hc1 Hrc.
      destruct (Hkids u t c (HU u HuU) Ht0 Hc Hc1) as (k&tk&Hk&HkY&He).
      assert (Hks : k ∈ dom (succ s)) by (apply Hkeep; [apply elem_of_dom; eauto|done]).
      apply elem_of_dom in Hks as [tk' Hks].
      pose proof (lookup_weaken _ _ _ _ Hks (j_sub _ _ _ _ _ HJ)) as Hks0.
      assert (tk' = tk) as -> by congruence.
      assert (k ≠ u) by (intros ->; apply HkY, HU, HuU).
      assert (Hk' : succ (gc_del s u t) !! k = Some tk).
      { cbn. by rewrite lookup_delete_ne. }
      pose proof (j_counts _ _ _ _ _ HJ') as [HC1 _].
      assert (Hcd : absn c ∈ dom (succ (gc_del s u t))).
      { rewrite <- (W_ref _ (j_inv _ _ _ _ _ HJ')). apply elem_of_dom. eauto. }
      rewrite (HC1 _ Hcd) in Hrc. injection Hrc as <-.
      pose proof (indeg_ge _ _ _ (absn c) Hk') as Hge. change (succ (gc_del s u t)) with (delete u (succ s)) in Hge. lia. }
    apply IH; [done| |  | |done].
    + change (succ (gc_del s u t)) with (delete u (succ s)).
      rewrite map_size_delete, Ht.
      assert (size (succ s) ≠ 0); [|lia].
      intros E. apply map_size_empty_inv in E. rewrite E in Ht. done.
    + intros n Hn. unfold gc_next in Hn. cbv zeta in Hn.
      assert (Hn0 : n ∈ U ∖ {[u]} → Y n) by (intros H; apply HU; set_solver).
      case_decide as Hd2.
      { destruct Hd2 as [-> Hw1]. exfalso.
        assert (absn (t_hi t) ≠ 1%positive).
        { intros E. apply Hw1. unfold absn in E. lia. }
        pose proof (Hpos (t_hi t) 0 ltac:(by right) H Hrw). lia. }
      case_decide as Hd1; [|by apply Hn0].
      destruct Hd1 as [-> Hl1]. exfalso.
      pose proof (Hpos (t_lo t) 0 ltac:(by left) Hl1 Hrv). lia.
    + intros n Hn HnY. change (succ (gc_del s u t)) with (delete u (succ s)).
      rewrite dom_delete_L. apply elem_of_difference. split; [by apply Hkeep|].
      rewrite elem_of_singleton. intros ->. apply HnY, HU, HuU.
Qed.

Theorem gc_rooted_only (roots : list Z) s L r s' :
  Inv s → Counts s L → (∀ u, u ∈ roots → valid s u) →
  (∀ u, u ∈ roots → refc s !! absn u = Some 0 → absn u ≠ 1%positive → Y (absn u)) →
  kids_kept (succ s) →
  collect_garbage (Some roots) s = (r, s') →
  ∀ n, n ∈ dom (succ s) → ¬ Y n → n ∈ dom (succ s').
Proof.
  intros HI HC Hroots HY Hkids. unfold collect_garbage. cbn [bind get].
  assert (Hl : ∀ u, u ∈ roots → u ≠ 0%Z ∧ is_Some (refc s !! absn u)).
  { intros u Hu. destruct (Hroots u Hu) as [? Hs]. split; [done|].
    apply elem_of_dom. rewrite (inv_ref _ HI). by apply elem_of_dom. }
  destruct (gc_scan s roots ∅ Hl) as (X&HX&HXs).
  rewrite (bind_ok _ _ _ _ _ HX).
  destruct (gc_loop (S (len s)) (X ∖ {[1%positive]}) s) as [r1 s1] eqn:Eloop.
  assert (HJ0 : J False s L s (X ∖ {[1%positive]})).
  { split.
    - by apply Inv_W.
    - done.
    - done.
    - done.
    - done.
    - reflexivity.
    - intros n Hn. apply elem_of_difference in Hn as [Hn Hn1].
      rewrite elem_of_singleton in Hn1.
      apply HXs in Hn as [Hn|(u&Hu&E&Hr)]; [by apply elem_of_empty in Hn|].
      split_and!; [done| |done]. rewrite <- (inv_ref _ HI). apply elem_of_dom. eauto.
    - intros n Hn. by apply (reach_dom s (fun k => 0 < L k) n HI).
    - done. }
  pose proof (gc_loop_only False s L (S (len s)) _ s r1 s1 HJ0 ltac:(unfold len; lia)) as Honly.
  pose proof (gc_loop_spec False s L (S (len s)) _ s r1 s1 HJ0 ltac:(unfold len; lia) Eloop)
    as [-> _].
  rewrite (bind_ok _ _ _ _ _ Eloop). cbn [bind modify get].
  intros Hrun n Hn HnY.
  assert (succ s' = succ s1) as ->.
  { unfold assert in Hrun. case_bool_decide; by injection Hrun as _ <-. }
  apply Honly; try done.
  intros k Hk. apply elem_of_difference in Hk as [Hk Hk1]. rewrite elem_of_singleton in Hk1.
  apply HXs in Hk as [Hk|(u&Hu&<-&Hr)]; [by apply elem_of_empty in Hk|].
  by apply HY.
Qed.
End gconly.
