From DD Require Export Dddmp Ite.
Lemma alist_get_cons {K A} `{EqDecision K} (k' : K) (a' : A) l k :
  alist_get ((k', a') :: l) k = if decide (k' = k) then Some a' else alist_get l k.
Proof.
  unfold alist_get. cbn. Show. case_bool_decide as E; cbn. Show.
Abort.
