(** * MddSem: denotation of MDD references over integer assignments, the
      invariant [MInv] of an MDD manager, extension, and the basic lemmas
      (transposition of [Sem.v] to n-ary nodes). *)
From DD Require Export Mdd Ite.

(** ** Denotation.  [I] assigns an integer value to every (integer) level.
    The successor followed at a node of level [i] is number [I i]; values
    outside the range of the variable behave like value [0] (functions are
    only ever compared on in-range assignments, see [minrange]). *)
Definition msel (nodes : list Z) (k : nat) : Z := nth k nodes (hd 0%Z nodes).

Fixpoint mden (fuel : nat) (s : mst) (u : Z) (I : nat → nat) : bool :=
  match fuel with
  | O => false
  | S f =>
      let b := match msucc s !! absn u with
               | None => false
               | Some (i, nodes) =>
                   match nodes with
                   | [] => true
                   | _ :: _ => mden f s (msel nodes (I i)) I
                   end
               end in
      if decide (u < 0)%Z then negb b else b
  end.

Definition mnvars (s : mst) : nat := size (mvars s).
(** the denotation with enough fuel *)
Definition MD (s : mst) (u : Z) (I : nat → nat) : bool := mden (S (mnvars s)) s u I.
Global Arguments MD : simpl never.

Definition mvalid (s : mst) (u : Z) : Prop := u ≠ 0%Z ∧ is_Some (msucc s !! absn u).
Definition mlvl_of (s : mst) (u : Z) : nat :=
  match msucc s !! absn u with Some t => t.1 | None => 0 end.
(** the variable at level [i] takes [n] values *)
Definition mlen_at (s : mst) (i n : nat) : Prop := ∃ v, mvars s !! v = Some (i, n).
(** assignments that respect the ranges of the variables *)
Definition minrange (s : mst) (I : nat → nat) : Prop :=
  ∀ v l n, mvars s !! v = Some (l, n) → I l < n.

Definition all_eq (nodes : list Z) : Prop := ∀ x, x ∈ nodes → x = hd 0%Z nodes.

Record MInv (s : mst) : Prop := {
  minv_term : msucc s !! 1%positive = Some (mnvars s, []);
  minv_node : ∀ n i nodes, msucc s !! n = Some (i, nodes) → n ≠ 1%positive →
     i < mnvars s ∧ mlen_at s i (length nodes) ∧
     (∀ x, x ∈ nodes → mvalid s x ∧ i < mlvl_of s x) ∧
     (0 < hd 0%Z nodes)%Z ∧ ¬ all_eq nodes;
  minv_pred : ∀ n t, mpred s !! t = Some n ↔ (msucc s !! n = Some t ∧ n ≠ 1%positive);
  minv_ref : dom (mref s) = dom (msucc s);
  minv_free : ∀ k, k ∈ mfree s → msucc s !! k = None ∧ (k <= mmax s)%positive;
  minv_max : ∀ k, (mmax s < k)%positive → msucc s !! k = None;
  minv_ite : ∀ g u v w, mite s !! (g, u, v) = Some w →
     mvalid s g ∧ mvalid s u ∧ mvalid s v ∧ mvalid s w ∧
     mlvl_of s g `min` mlvl_of s u `min` mlvl_of s v ≤ mlvl_of s w ∧
     ∀ I, MD s w I = if MD s g I then MD s u I else MD s v I;
  minv_vars : ∀ v1 v2 l n1 n2, mvars s !! v1 = Some (l, n1) →
     mvars s !! v2 = Some (l, n2) → v1 = v2;
  minv_lvls : ∀ l, l < mnvars s → ∃ v n, mvars s !! v = Some (l, n);
}.

(** [s'] has at least the nodes of [s], and the same variables *)
Definition mextends (s s' : mst) : Prop :=
  msucc s ⊆ msucc s' ∧ mvars s = mvars s'.

Global Instance mextends_refl : Reflexive mextends.
Proof. by intros s. Qed.
Global Instance mextends_trans : Transitive mextends.
Proof. intros s1 s2 s3 (?&?) (?&?). split; [by etrans|congruence]. Qed.
Lemma mextends_nvars s s' : mextends s s' → mnvars s' = mnvars s.
Proof. intros (_&E). unfold mnvars. by rewrite E. Qed.

Definition iupd (I : nat → nat) (i k : nat) : nat → nat :=
  fun j => if decide (j = i) then k else I j.
Lemma iupd_other I i k j : j ≠ i → iupd I i k j = I j.
Proof. intros. unfold iupd. by rewrite decide_False. Qed.
Lemma iupd_same I i k : iupd I i k i = k.
Proof. unfold iupd. by rewrite decide_True. Qed.

(** ** Selection of a successor *)
Lemma msel_in nodes k : nodes ≠ [] → msel nodes k ∈ nodes.
Proof.
  intros Hn. unfold msel. destruct (decide (k < length nodes)) as [Hk|Hk].
  - apply elem_of_list_In, nth_In. done.
  - rewrite nth_overflow by lia. destruct nodes; [done|]. left.
Qed.
Lemma msel_lt nodes k d : k < length nodes → msel nodes k = nth k nodes d.
Proof. intros. unfold msel. by apply nth_indep. Qed.
Lemma msel_fmap (f : Z → Z) nodes k : f 0%Z = 0%Z → msel (f <$> nodes) k = f (msel nodes k).
Proof.
  intros Hf. unfold msel.
  assert (hd 0%Z (f <$> nodes) = f (hd 0%Z nodes)) as -> by (by destruct nodes).
  apply (map_nth f).
Qed.
Lemma msel_replicate n u k : 0 < n → msel (replicate n u) k = u.
Proof.
  intros Hn. unfold msel. destruct n as [|n]; [lia|]. cbn [replicate hd].
  change (u :: replicate n u) with (replicate (S n) u).
  rewrite nth_lookup. destruct (decide (k < S n)).
  - by rewrite lookup_replicate_2.
  - rewrite (proj1 (lookup_replicate_None (S n) u k)) by lia. done.
Qed.
Lemma all_eq_sel nodes : (∀ k, k < length nodes → msel nodes k = hd 0%Z nodes) → all_eq nodes.
Proof.
  intros H x Hx. apply elem_of_list_lookup in Hx as [k Hk].
  pose proof (lookup_lt_Some _ _ _ Hk) as Hlt.
  rewrite <- (H k Hlt). unfold msel. rewrite nth_lookup, Hk. done.
Qed.

Lemma mvalid_neg s u : mvalid s u → mvalid s (- u).
Proof. intros [? ?]. split; [lia|]. by rewrite absn_neg. Qed.
Lemma mlvl_neg s u : mlvl_of s (- u) = mlvl_of s u.
Proof. unfold mlvl_of. by rewrite absn_neg. Qed.
Lemma mvalid_extends s s' u : mextends s s' → mvalid s u → mvalid s' u.
Proof.
  intros (Hsub&_) [? [t Ht]]. split; [done|].
  exists t. by eapply lookup_weaken.
Qed.
Lemma mlvl_extends s s' u : mextends s s' → mvalid s u → mlvl_of s' u = mlvl_of s u.
Proof.
  intros (Hsub&_) [? [t Ht]]. unfold mlvl_of.
Show. rewrite Ht. Show.
