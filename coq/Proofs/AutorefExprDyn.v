(** * AutorefExprDyn: [autoref.BDD.add_expr] with dynamic reordering possibly
      ENABLED, the FUNCTIONAL statement (C05 for dd.autoref, continued).

    [astep_expr] is "parse and evaluate on the wrapped manager, then wrap the
    integer in a new handle" ([Driver4]).  Under the dynamic invariant
    [AInvDT] of [AutorefInv2] every live handle is HELD ([heldn (hledger a)]),
    so [AddExprDynamic.add_expr_dynamic] applies through
    [AutorefInv2.lift_wrap_dyn]; the oracle alternative is excluded by the
    empty tape ([AutorefExpr.astep_expr_anyD]). *)
From stdpp Require Import strings.
From DD Require Export AddExprDynamic AutorefExpr.
Local Open Scope string_scope.

(** every [@n] leaf is the node of a live handle (or the terminal): held *)
Lemma refs_in_handles a (t : Parser.ast) :
  Forall (fun z => absn z = 1%positive ∨ ∃ h, handles a !! h = Some z) (ast_refs t) →
  refs_in (heldn (hledger a)) t.
Proof.
  intros H. unfold refs_in. eapply Forall_impl; [exact H|].
  intros z [E|[h Hh]]; [by left|by apply (held_handle a h)].
Qed.

Definition vn (r : res nat) : res value :=
  match r with Ok h => Ok (VN h) | Err e => Err e end.

Lemma a_add_expr_split sp a :
  a_add_expr sp a =
  let '(rn, a1) := (x <- lift (add_expr_ sp) ;; wrap x) a in (vn rn, a1).
Proof.
  unfold a_add_expr, bind. destruct (lift (add_expr_ sp) a) as [[u|e] a0]; [|done].
  by destruct (wrap u a0) as [[h|e] a2].
Qed.

Lemma a_add_expr_dyn sp ts (t : Parser.ast) a r a' :
  AInvD a → max_nodes (mgr a) = None → lex sp = Some ts → parse code_prec ts = Some t →
  ok_ast (mgr a) t → refs_in (heldn (hledger a)) t →
  a_add_expr sp a = (r, a') →
  ∃ rn, r = vn rn ∧
    dyn_out a (fun x s' => ∀ ρ, denv s' x ρ = asem (mgr a) t ρ) rn a'.
Proof.
  intros HA Hmx Hlex Hparse Hok HK. rewrite a_add_expr_split.
  destruct ((x <- lift (add_expr_ sp) ;; wrap x) a) as [rn a1] eqn:E.
  intros [= <- <-]. exists rn. split; [done|]. revert E.
  apply lift_wrap_dyn; [done|apply (stable_eq (asem (mgr a) t))|].
  intros r0 s' E. destruct HA as (HI&Hr&HC&_).
  exact (add_expr_dynamic _ _ _ sp ts t (mgr a) (hledger a) r0 s' HI HC Hr Hmx Hlex Hparse Hok HK E).
Qed.

(** [add_expr] on the spellings of an accepted tree whose [@n] leaves are
    held, dynamic reordering enabled or not *)
Theorem astep_expr_semD w m sp ts (t : Parser.ast) :
  let a := aworld_get w m in
  let w' := fst (astep_expr w m sp) in
  let a' := aworld_get w' m in
  AInvDT a → max_nodes (mgr a) = None →
  lex sp = Some ts → parse code_prec ts = Some t → ok_ast (mgr a) t →
  refs_in (heldn (hledger a)) t →
  ∃ u, snd (astep_expr w m sp) = Ok (VN (next_hid a)) ∧
    handles a' = <[next_hid a := u]> (handles a) ∧
    next_hid a' = S (next_hid a) ∧
    valid (mgr a') u ∧ (∀ ρ, denv (mgr a') u ρ = asem (mgr a) t ρ) ∧
    AInvDT a' ∧ AKeepAll a a' ∧
    (last_len (mgr a) = None → last_len (mgr a') = None) ∧
    (is_Some (last_len (mgr a)) → is_Some (last_len (mgr a'))) ∧
    (∀ m', m' ≠ m → aworld_get w' m' = aworld_get w m').
Proof.
  intros a w' a' HA Hmx Hlex Hparse Hok HK.
  destruct (astep_expr_anyD w m sp HA) as (HA'&Hk&_&Hno&Hl&Ho&_).
  fold a in Hk, Hl. fold w' in HA', Hk, Hl, Ho. fold a' in HA', Hk, Hl.
  destruct (astep_expr_spec w m sp) as (r&a1&E&Er&Ea&_).
  fold a in E. fold w' in Ea. fold a' in Ea. rewrite Er in *. clear Er.
  destruct (a_add_expr_dyn sp ts t a r a1 (proj1 HA) Hmx Hlex Hparse Hok HK E)
    as (rn&->&[->|(->&HA1&Hk1&Hl1&Hl2&Hn&x&Hh&Hx&HD)]); [done|].
  exists x. split; [done|]. rewrite Ea. cbn.
  split; [done|]. split; [done|]. split; [by apply (valid_same (mgr a1))|]. split.
  { intros ρ. rewrite <- HD. by apply denv_same. }
  rewrite <- Ea. done.
Qed.

(** ** Running the model: [BDD({v0:0, v1:1, v2:2, v3:3})] of dd.autoref,
    handles 0..3 on the variables, 4 = v0 /\ v2, 5 = v1 /\ v3, 6 = f = 4 \/ 5
    (node 10); dynamic reordering enabled ([dx_w0]), the 9th request forced
    to fire ([dx_w]); [add_expr("\E v0: @10 /\ v1")]
    ([AddExprDynamic.expr_sp]). *)
Definition dx_lv : list (nat * nat) := [(0, 0); (1, 1); (2, 2); (3, 3)].
Definition dx_pre : list aop :=
  [Driver3.AVar 0; Driver3.AVar 1; Driver3.AVar 2; Driver3.AVar 3;
   AApply "and" 0 (Some 2) None; AApply "and" 1 (Some 3) None; AApply "or" 4 (Some 5) None].
Definition dx_wS : aworld := arun aworld_empty 0 (ANew dx_lv :: dx_pre).
Definition dx_w0 : aworld := arun dx_wS 0 [AConfigure (Some true)].
Definition dx_w : aworld := arun dx_wS 0 [AConfigure (Some true); ASetTrig (Some 9)].

Lemma dx_wS_AInvDT : AInvDT (aworld_get dx_wS 0).
Proof.
  apply AInvDT_of_AInvT; [|by vm_compute].
  apply (arun_from_new2 dx_lv dx_pre 0); [by vm_compute|].
  cbn [ahist_ok2 dx_pre]. repeat (split; [by vm_compute|]). exact I.
Qed.

(** the hypotheses of [astep_expr_semD] hold in both worlds *)
Example astep_expr_dyn_hypotheses :
  (AInvDT (aworld_get dx_w0 0) ∧ AInvDT (aworld_get dx_w 0)) ∧
  (lex expr_sp ≫= parse code_prec) = Some expr_tree ∧
  (ok_ast (mgr (aworld_get dx_w0 0)) expr_tree ∧ ok_ast (mgr (aworld_get dx_w 0)) expr_tree) ∧
  (refs_in (heldn (hledger (aworld_get dx_w0 0))) expr_tree ∧
   refs_in (heldn (hledger (aworld_get dx_w 0))) expr_tree) ∧
  (max_nodes (mgr (aworld_get dx_w0 0)) = None ∧ max_nodes (mgr (aworld_get dx_w 0)) = None).
Proof.
  split; [split|split; [by vm_compute|split; [split|split; [split|split]]]].
  - unfold dx_w0. apply (arun_AInvD _ dx_wS 0 dx_wS_AInvDT).
    repeat (apply Forall_cons; split; [reflexivity|]). by apply Forall_nil.
  - unfold dx_w. apply (arun_AInvD _ dx_wS 0 dx_wS_AInvDT).
    repeat (apply Forall_cons; split; [reflexivity|]). by apply Forall_nil.
  - apply ok_astb_ok. by vm_compute.
  - apply ok_astb_ok. by vm_compute.
  - apply refs_in_handles. apply Forall_cons. split; [|by apply Forall_nil].
    right. exists 6. by vm_compute.
  - apply refs_in_handles. apply Forall_cons. split; [|by apply Forall_nil].
    right. exists 6. by vm_compute.
  - by vm_compute.
  - by vm_compute.
Qed.

Example astep_expr_dyn_example :
  let a0 := aworld_get dx_w0 0 in
  let '(wA, rA) := astep_expr dx_w0 0 expr_sp in   (* the request does not fire *)
  let '(wB, rB) := astep_expr dx_w 0 expr_sp in    (* the 9th request fires *)
  let aA := aworld_get wA 0 in let aB := aworld_get wB 0 in
  handles a0 !! 6 = Some 10%Z ∧ next_hid a0 = 7 ∧ last_len (mgr a0) = Some 100 ∧
  (* both calls return the fresh handle 7 *)
  rA = Ok (VN 7) ∧ rB = Ok (VN 7) ∧
  handles aA !! 7 = Some 11%Z ∧ handles aB !! 7 = Some 12%Z ∧
  (* with the trigger: the request fired, sifting moved v2 to the top,
     requests are on again *)
  map_to_list (vars (mgr aA)) = map_to_list (vars (mgr a0)) ∧
  vars (mgr a0) !! 2 = Some 2 ∧ vars (mgr aB) !! 2 = Some 0 ∧
  trig (mgr aB) = None ∧ last_len (mgr aA) = Some 100 ∧ last_len (mgr aB) = Some 18 ∧
  (* the same function by name: the reading [asem] of the tree *)
  table 4 (mgr aB) (Ok (VZ 12)) = table 4 (mgr aA) (Ok (VZ 11)) ∧
  table 4 (mgr aB) (Ok (VZ 12)) = Some (asem (mgr a0) expr_tree <$> envs 4) ∧
  (* the old handles keep node and meaning *)
  forallb (fun h => bool_decide (handles aB !! h = handles a0 !! h) &&
                    match handles a0 !! h with
                    | Some u => bool_decide (table 4 (mgr aB) (Ok (VZ u)) =
                                             table 4 (mgr a0) (Ok (VZ u)))
                    | None => false
                    end) (seq 0 7) = true.
Proof. vm_compute. by split_and!. Qed.
