(** * A concrete instance of the pickle round-trip with exact reference
      counts ([Proofs/PickleCounts.v]): every hypothesis of
      [pickle_roundtrip_any_counts] is established for states built by public
      calls only ([Inv] through the history theorem of [Proofs/Total3.v]). *)
From DD Require Export PickleCounts Total3.
Local Open Scope string_scope.

(** manager 0 (the writer): v0:1, v1:0, v2:2; node 8 = (v0 <-> v1) \/ ~v2, held;
    the dump names three roots.
    manager 3 (the receiver): v0:3, v1:1, v2:0, v3:2; 2 = v3, 3 = v0, 4 = v3 /\ v0,
    held once, once, twice; dynamic reordering enabled, threshold 1. *)
Definition ex_roots : rootsC := RDict [(7, (-8)%Z); (3, 3%Z); (9, (-1)%Z)].
Definition ex_order : list positive := [8; 3; 1; 6; 7; 4]%positive.
Definition ex_vorder : list nat := [2; 0; 1].

Definition ex_hist : list (nat * op2) :=
  [(0, O1 (ONew [(0, 1); (1, 0); (2, 2)])); (0, O1 (OVar 0)); (0, O1 (OVar 1)); (0, O1 (OVar 2));
   (0, O1 (OApply "xor" 2 (Some 3%Z) None)); (0, O1 (OApply "\/" 5 (Some (-4)%Z) None));
   (0, O1 (OIncref 8));
   (0, ODump 0 ex_roots ex_order ex_vorder);
   (3, O1 (ONew [(0, 3); (1, 1); (2, 0); (3, 2)])); (3, O1 (OVar 3)); (3, O1 (OIncref 2));
   (3, O1 (OVar 0)); (3, O1 (OIncref 3));
   (3, O1 (OApply "and" 2 (Some 3%Z) None)); (3, O1 (OIncref 4)); (3, O1 (OIncref 4));
   (3, O1 (OConfigure (Some true))); (3, O1 (OSetLastLen (Some 1)))].

Definition ex_w : world2 := run2 world2_empty ex_hist.
Definition ex_s : st := world2_get ex_w 0.
Definition ex_r : st := world2_get ex_w 3.
Definition ex_pf : pfile :=
  PFile [(2, 2); (0, 1); (1, 0)]
        [(8%positive, Triple 0 (-6) 7); (3%positive, Triple 0 (-1) 1);
         (1%positive, Triple 3 0 0); (6%positive, Triple 1 (-1) 4);
         (7%positive, Triple 1 (-4) 1); (4%positive, Triple 2 (-1) 1)]
        ex_roots.
(** the caller's references into the receiver *)
Definition ex_L (n : positive) : nat :=
  match n with 1%positive | 2%positive | 3%positive => 1 | 4%positive => 2 | _ => 0 end.

Lemma is_Some_bool {A} (o : option A) :
  (match o with Some _ => true | None => false end) = true → is_Some o.
Proof. destruct o; [by eexists|done]. Qed.

Ltac caller3 :=
  lazymatch goal with
  | |- True => exact I
  | |- caller_ok3 _ (O1 _) =>
      split;
      [split; [exact I|exact I]
      |cbn [needs_off];
       lazymatch goal with
       | |- false = true → _ => intros [=]
       | |- _ => intros _; vm_compute; reflexivity
       end]
  | |- _ => exact I
  end.

Ltac hist3_step :=
  split; [reflexivity|];
  split; [cbn [is_new2 is_new];
          lazymatch goal with
          | |- true = false → _ => intros [=]
          | |- _ => intros _; apply is_Some_bool; vm_compute; reflexivity
          end|];
  split; [caller3|].

Lemma ex_hist_ok : hist_ok3 world2_empty ex_hist.
Proof. cbn [ex_hist app hist_ok3]. repeat hist3_step. exact I. Qed.

Lemma ex_good : GoodD ex_s ∧ GoodD ex_r.
Proof.
  destruct (history3_from_empty _ ex_hist_ok) as [HW _]. fold ex_w in HW.
  split; [apply (HW 0 ex_s)|apply (HW 3 ex_r)]; vm_compute; reflexivity.
Qed.

Lemma ex_file : w_files ex_w !! 0 = Some ex_pf.
Proof. vm_compute. reflexivity. Qed.

Lemma ex_dump : dump_pickle ex_roots ex_order ex_vorder ex_s = (Ok ex_pf, ex_s).
Proof. vm_compute. reflexivity. Qed.

Lemma valid_check s u :
  u ≠ 0%Z → (match succ s !! absn u with Some _ => true | None => false end) = true → valid s u.
Proof. intros ? H. split; [done|]. by apply is_Some_bool. Qed.
Lemma ex_roots_valid : Forall (valid ex_s) (roots_values ex_roots).
Proof.
  repeat (apply Forall_cons; split; [apply valid_check; [discriminate|vm_compute; reflexivity]|]).
  apply Forall_nil_2.
Qed.
Lemma ex_counts : Counts ex_r ex_L.
Proof.
  assert (Hd : dom (succ ex_r) = list_to_set [1; 2; 3; 4]%positive)
    by (apply (bool_decide_unpack _); vm_compute; exact I).
  split; intros n Hn; rewrite Hd in Hn.
  - assert (n = 1 ∨ n = 2 ∨ n = 3 ∨ n = 4)%positive as [->|[->|[->| ->]]]
      by (clear Hd; set_solver); vm_compute; reflexivity.
  - assert (n ≠ 1 ∧ n ≠ 2 ∧ n ≠ 3 ∧ n ≠ 4)%positive as (?&?&?&?) by (clear Hd; set_solver).
    clear Hd Hn. unfold ex_L. do 3 (destruct n as [n|n|]; try done).
Qed.

(** the receiver has no node limit *)
Lemma ex_unbounded : max_nodes ex_r = None.
Proof. vm_compute. reflexivity. Qed.

Local Opaque ex_s ex_r ex_w ex_pf.
(** the instance of [pickle_roundtrip_any_counts] *)
Lemma ex_instance :
  let r' := snd (load_pickle ex_pf false ex_r) in
  Inv ex_s ∧ Forall (valid ex_s) (roots_values ex_roots) ∧
  dump_pickle ex_roots ex_order ex_vorder ex_s = (Ok ex_pf, ex_s) ∧
  Inv ex_r ∧ max_nodes ex_r = None ∧ last_len ex_r = Some 1 ∧ Counts ex_r ex_L ∧
  (∃ roots', fst (load_pickle ex_pf false ex_r) = Ok roots' ∧
             roots_rel (same_fun ex_s r') ex_roots roots') ∧
  Inv r' ∧ last_len r' = Some 1 ∧ Counts r' ex_L.
Proof.
  intros r'. destruct ex_good as [(HIs&_) (HIr&_)].
  destruct (pickle_roundtrip_any_counts ex_s ex_roots ex_order ex_vorder ex_pf ex_s ex_r
              HIs ex_roots_valid ex_dump HIr ex_unbounded)
    as (_&roots'&r2&E&HI'&_&Hll&_&_&_&Hrel&_&_&HC).
  assert (Er : r' = r2) by (unfold r'; rewrite E; reflexivity).
  clearbody r'. subst r'.
  assert (Hl : last_len ex_r = Some 1) by (vm_compute; reflexivity).
  split; [exact HIs|]. split; [exact ex_roots_valid|]. split; [exact ex_dump|].
  split; [exact HIr|]. split; [exact ex_unbounded|]. split; [exact Hl|]. split; [exact ex_counts|].
  split; [exists roots'; rewrite E; split; [reflexivity|exact Hrel]|].
  split; [exact HI'|]. split; [rewrite Hll; exact Hl|]. exact (HC _ ex_counts).
Qed.
