(** * SwapH: the four loops of [swap] together *)
From DD Require Export SwapG.

Section loops.
Context (s0 : st) (HI : Inv s0) (x : nat) (Hy : x + 1 < nvars s0).
Context (L : positive → nat) (HC : Counts s0 L) (Hll : last_len s0 = None).
Context (ox oy : list positive) (Hndx : NoDup ox) (Hndy : NoDup oy).
Context (Hox : ∀ n, n ∈ ox ↔ ∃ t, succ s0 !! n = Some t ∧ t_lvl t = x).
Context (Hoy : ∀ n, n ∈ oy ↔ ∃ t, succ s0 !! n = Some t ∧ t_lvl t = x + 1).

Lemma Counts_relab s : succ s = relab s0 x <$> succ s0 → refc s = refc s0 → Counts s L.
Proof.
  intros Es Er. destruct HC as [H1 H2]. split.
  - intros n Hn. rewrite Es, dom_fmap_L in Hn. rewrite Er, Es.
    rewrite indeg_fmap by (intros; apply relab_edges). by apply H1.
  - intros n Hn. rewrite Es, dom_fmap_L in Hn. by apply H2.
Qed.

(** the pre-check of [swap] left room for two nodes per dependent x-node *)
Definition dep_room : Prop :=
  ∀ T : gset positive, (∀ n, n ∈ T ↔ isdep s0 x n) → room s0 (2 * size T).

Lemma room_relab s k : succ s = relab s0 x <$> succ s0 → max_nodes s = max_nodes s0 →
  room s0 k → room s k.
Proof. unfold room. intros -> ->. by rewrite map_size_fmap. Qed.

Lemma swap_loops sC : dep_room → succ sC = succ s0 → keep s0 sC →
  (∀ t n, pred sC !! t = Some n ↔ pred s0 !! t = Some n ∧ n ∉ ox) →
  ∃ sD sE sF dn s6 G XF,
    swap_collect (x + 1) oy sC = (Ok (lk s0 <$> oy), sD) ∧
    swap_up x (x + 1) (lk s0 <$> oy) sD = (Ok tt, sE) ∧
    swap_indep x (x + 1) (lk s0 <$> ox) sE = (Ok dn, sF) ∧
    swap_dep x (x + 1) dn (lk s0 <$> ox) sF = (Ok (G, XF), s6) ∧
    DepInv s0 x L s6 ∅ G XF.
Proof.
  intros Hroom Es Hk Hp.
  destruct (collect_y s0 HI x Hy ox oy Hndy Hox Hoy sC Es Hk Hp) as (sD&HrD&EsD&HkD&HpD).
  destruct (up_phase s0 HI x Hy ox oy Hndy Hox Hoy sD EsD HkD HpD) as (sE&HrE&HkE&HsE&HpE).
  destruct (indep_phase s0 HI x Hy ox Hndx Hox sE HkE HsE HpE) as (sF&dn&HrF&HkF&HsF&Hdn&HpF).
  set (T := (list_to_set ox : gset positive) ∖ dn).
  assert (HT : ∀ n, n ∈ T ↔ isdep s0 x n).
  { intros n. unfold T. rewrite elem_of_difference, elem_of_list_to_set, Hox, Hdn. split.
    - intros [(t&Ht&Hl) Hnd]. exists t. split_and!; try done. intros Hi. apply Hnd. eauto.
    - intros (t&Ht&Hl&Hd). split; [eauto|]. intros (t'&Ht'&_&Hi). rewrite Ht in Ht'.
      injection Ht' as <-. done. }
  assert (HM : Mid s0 x sF T).
  { apply Mid_init; try done. intros t n. rewrite HpF, HT. done. }
  assert (HCF : Counts sF L) by (apply Counts_relab; [done|apply HkF]).
  assert (HD : DepInv s0 x L sF T ∅ ∅).
  { split; [done|done| | | |].
    - intros n Hn. by apply elem_of_empty in Hn.
    - intros n Hn. by apply elem_of_empty in Hn.
    - intros n H0 [t Hn]. rewrite HsF, lookup_fmap, H0 in Hn. done.
    - apply room_relab; [done|apply HkF|by apply Hroom]. }
  destruct (dep_fold s0 HI x Hy dn L (lk s0 <$> ox) sF T ∅ ∅ HD) as (s6&G&XF&Hr6&HD6).
  - by rewrite lk_fst.
  - intros u v w Hin Hud. apply elem_lk in Hin as [Hu Hin].
    apply Hox in Hu as (t&Ht&Hl). destruct (Hin t Ht) as [<- <-]. split.
    + apply HT. exists t. split_and!; try done. intros Hi. apply Hud, Hdn. eauto.
    + rewrite Ht. f_equal. destruct t; cbn in *; congruence.
  - intros n Hn. unfold T in Hn. apply elem_of_difference in Hn as [Hn Hnd].
    rewrite lk_fst. by apply elem_of_list_to_set in Hn.
  - exists sD, sE, sF, dn, s6, G, XF. rewrite swap_dep_eq. done.
Qed.
End loops.

(** ** what the final collection may remove: old y-nodes among the roots *)
Definition oldY (s0 : st) (x : nat) (G : gset positive) (n : positive) : Prop :=
  n ∈ G ∧ ∃ t0, succ s0 !! n = Some t0 ∧ t_lvl t0 = x + 1.

Lemma foa_edge s i a b r c : foa_res s i a b r → a ≠ 0%Z → b ≠ 0%Z → c = a ∨ c = b →
  absn r = absn c ∨
  ∃ n tn, succ s !! n = Some tn ∧ t_lvl tn = i ∧ 0 < edges_to tn (absn c).
Proof.
  intros [[E ->]|[Hne (n&Hn&->)]] Ha Hb Hc.
  - left. apply sgn_inj in E. destruct Hc; congruence.
  - right. exists n, (Triple i (sgn b * a) (sgn b * b)). split_and!; [done|done|].
    assert (sgn b * a ≠ 0 ∧ sgn b * b ≠ 0)%Z as [? ?].
    { destruct (sgn_cases b) as [->| ->]; lia. }
    destruct Hc as [->| ->].
    + rewrite <- (absn_sgn b a). by apply (edges_to_lo (Triple _ _ _)).
    + rewrite <- (absn_sgn b b). by apply (edges_to_hi (Triple _ _ _)).
Qed.

Section kept.
Context (s0 : st) (HI : Inv s0) (x : nat) (Hy : x + 1 < nvars s0).
Context (L : positive → nat) (s6 : st) (G XF : gset positive)
        (HD : DepInv s0 x L s6 ∅ G XF).

Lemma kept_edge u v w z c :
  succ s0 !! u = Some (Triple x v w) → ¬ indepS s0 (x + 1) v w →
  z = v ∨ z = w →
  c = (cofs s0 (x + 1) z).1 ∨ c = (cofs s0 (x + 1) z).2 →
  ∃ k tk, succ s6 !! k = Some tk ∧ ¬ oldY s0 x G k ∧ 0 < edges_to tk (absn c).
Proof.
  intros Hu Hdep Hz Hc.
  pose proof (di_mid _ _ _ _ _ _ _ HD) as HM.
  destruct (dep_facts s0 HI x Hy u v w Hu) as (Hu1&Hv&Hw&Hwp&Hne&Hlv&Hlw).
  destruct (m_old _ _ _ _ HM u _ Hu ltac:(set_solver)) as (t&Ht&Himg).
  unfold mid_img in Himg. cbn [t_lvl t_lo t_hi] in Himg.
  rewrite decide_False in Himg by lia. rewrite decide_True in Himg by done.
  rewrite decide_False in Himg by done. destruct Himg as (p&q&->&Hp&Hq).
  cbn [t_lo t_hi] in Hp, Hq.
  destruct (m_node _ _ _ _ HM u _ Ht Hu1 ltac:(set_solver)) as (_&[Hp0 _]&_&[Hq0 _]&_).
  cbn [t_lo t_hi] in Hp0, Hq0.
  destruct (cofs_spec s0 HI (x + 1) Hy v Hv ltac:(lia)) as ([Hv0 _]&[Hv1 _]&_).
  destruct (cofs_spec s0 HI (x + 1) Hy w Hw ltac:(lia)) as ([Hw0 _]&[Hw1 _]&_).
  assert (HnotY : ∀ n tn, succ s6 !! n = Some tn → t_lvl tn = x + 1 → ¬ oldY s0 x G n).
  { intros n tn Hn Hl [_ (t0&H0&Hl0)].
    destruct (m_old _ _ _ _ HM n _ H0 ltac:(set_solver)) as (t'&Ht'&Himg).
    unfold mid_img in Himg. rewrite decide_True in Himg by done. subst t'.
    rewrite Hn in Ht'. injection Ht' as ->. cbn in Hl. lia. }
  assert (HuY : ¬ oldY s0 x G u).
  { intros [_ (t0&H0&Hl0)]. rewrite Hu in H0. injection H0 as <-. cbn in Hl0. lia. }
  assert (Hfin : ∀ r a b, foa_res s6 (x + 1) a b r → a ≠ 0%Z → b ≠ 0%Z → c = a ∨ c = b →
             r = p ∨ r = q →
             ∃ k tk, succ s6 !! k = Some tk ∧ ¬ oldY s0 x G k ∧ 0 < edges_to tk (absn c)).
  { intros r a b Hr Ha Hb Hcab Hrpq.
    destruct (foa_edge s6 _ a b r c Hr Ha Hb Hcab) as [E|(n&tn&Hn&Hl&He)].
    - exists u, (Triple x p q). split_and!; [done|done|]. rewrite <- E.
      destruct Hrpq as [->| ->].
      + by apply (edges_to_lo (Triple _ _ _)).
      + by apply (edges_to_hi (Triple _ _ _)).
    - exists n, tn. split_and!; [done|by apply (HnotY n tn)|done]. }
  destruct Hz as [->| ->], Hc as [->| ->].
  - apply (Hfin p _ _ Hp); auto.
  - apply (Hfin q _ _ Hq); auto.
  - apply (Hfin p _ _ Hp); auto.
  - apply (Hfin q _ _ Hq); auto.
Qed.
End kept.

Lemma absn_flip r u : absn (flip r u) = absn r.
Proof. unfold flip. case_decide; [apply absn_neg|done]. Qed.

Section gchyps.
Context (s0 : st) (HI : Inv s0) (x : nat) (Hy : x + 1 < nvars s0).
Context (L : positive → nat) (s6 : st) (G XF : gset positive)
        (HD : DepInv s0 x L s6 ∅ G XF).

Lemma G_valid n : n ∈ G → valid s6 (Z.pos n).
Proof.
  intros Hn. destruct (di_G _ _ _ _ _ _ _ HD n Hn) as (u&v&w&Hu&_&_&Hor).
  destruct (dep_facts s0 HI x Hy u v w Hu) as (_&[_ Hv]&[_ Hw]&_).
  split; [done|]. rewrite absn_pos. apply (Mid_dom s0 x s6 ∅); [apply HD|].
  by destruct Hor as [->| ->].
Qed.

Lemma G_zero n : n ∈ G → refc s6 !! n = Some 0 → oldY s0 x G n.
Proof.
  intros Hn Hr. destruct (di_G _ _ _ _ _ _ _ HD n Hn) as (u&v&w&Hu&Hdep&_&Hor).
  destruct (dep_facts s0 HI x Hy u v w Hu) as (_&Hv&Hw&_&_&Hlv&Hlw).
  assert (∃ z, (z = v ∨ z = w) ∧ n = absn z ∧ valid s0 z ∧ x < lvl_of s0 z)
    as (z&Hz&->&Hvz&Hlz).
  { destruct Hor as [->| ->]; [exists v|exists w]; auto. }
  split; [done|].
  destruct (decide (lvl_of s0 z = x + 1)) as [E|E].
  { destruct Hvz as [_ [t0 H0]]. exists t0. split; [done|]. unfold lvl_of in E. by rewrite H0 in E. }
  exfalso.
  destruct (cofs_spec s0 HI (x + 1) Hy z Hvz ltac:(lia)) as (_&_&_&_&_&Hc&_).
  destruct (kept_edge s0 HI x Hy L s6 G XF HD u v w z z Hu Hdep Hz) as (k&tk&Hk&_&He).
  { left. by rewrite (Hc E). }
  destruct (di_counts _ _ _ _ _ _ _ HD) as [HC1 _].
  assert (Hzd : absn z ∈ dom (succ s6)).
  { apply elem_of_dom. apply (Mid_dom s0 x s6 ∅); [apply HD|apply Hvz]. }
  rewrite (HC1 _ Hzd) in Hr. injection Hr as Hr.
  pose proof (indeg_ge _ _ _ (absn z) Hk). lia.
Qed.

Lemma G_kids : kids_kept (oldY s0 x G) (succ s6).
Proof.
  intros n t c [Hn (t0&H0&Hl0)] Ht Hc Hc1.
  pose proof (di_mid _ _ _ _ _ _ _ HD) as HM.
  destruct (m_old _ _ _ _ HM n _ H0 ltac:(set_solver)) as (t'&Ht'&Himg).
  unfold mid_img in Himg. rewrite decide_True in Himg by done. subst t'.
  rewrite Ht in Ht'. injection Ht' as ->. cbn [t_lo t_hi] in Hc.
  destruct (di_G _ _ _ _ _ _ _ HD n Hn) as (u&v&w&Hu&Hdep&_&Hor).
  assert (∃ z, (z = v ∨ z = w) ∧ n = absn z) as (z&Hz&->).
  { destruct Hor as [->| ->]; [exists v|exists w]; auto. }
  assert (Hcz : cofs s0 (x + 1) z = (flip (t_lo t0) z, flip (t_hi t0) z)).
  { unfold cofs. rewrite H0. by rewrite decide_True. }
  destruct Hc as [->| ->].
  - destruct (kept_edge s0 HI x Hy L s6 G XF HD u v w z (flip (t_lo t0) z) Hu Hdep Hz)
      as (k&tk&Hk&HkY&He); [left; by rewrite Hcz|].
    rewrite absn_flip in He. eauto.
  - destruct (kept_edge s0 HI x Hy L s6 G XF HD u v w z (flip (t_hi t0) z) Hu Hdep Hz)
      as (k&tk&Hk&HkY&He); [right; by rewrite Hcz|].
    rewrite absn_flip in He. eauto.
Qed.
End gchyps.
