From DD Require Import MddOps.

(** ** Reference counts of an MDD manager *)
Definition m_edges_to (t : mtuple) (n : positive) : nat :=
  length (filter (fun x => absn x = n) t.2).
Definition m_indeg (m : gmap positive mtuple) (n : positive) : nat :=
  map_fold (fun _ t acc => m_edges_to t n + acc) 0 m.
(** the counters are exact w.r.t. a ledger [L] of external references *)
Definition MCounts (s : mst) (L : positive → nat) : Prop :=
  (∀ n, n ∈ dom (msucc s) → mref s !! n = Some (m_indeg (msucc s) n + L n)) ∧
  (∀ n, n ∉ dom (msucc s) → L n = 0).

Lemma m_indeg_empty n : m_indeg ∅ n = 0.
Proof. unfold m_indeg. by rewrite map_fold_empty. Qed.
Lemma m_indeg_insert_fresh m u t n : m !! u = None →
  m_indeg (<[u := t]> m) n = m_edges_to t n + m_indeg m n.
Proof.
  intros H. unfold m_indeg. rewrite map_fold_insert_L; [done| |done].
  intros; lia.
Qed.
Lemma m_indeg_delete m u t n : m !! u = Some t →
  m_indeg m n = m_edges_to t n + m_indeg (delete u m) n.
Proof.
  intros H. rewrite <- (insert_delete m u t) at 1 by done.
  apply m_indeg_insert_fresh. apply lookup_delete.
Qed.
Lemma m_indeg_ge m k t n : m !! k = Some t → m_edges_to t n ≤ m_indeg m n.
Proof. intros H. rewrite (m_indeg_delete m k t n H). lia. Qed.
Lemma m_indeg_pos m n : 0 < m_indeg m n →
  ∃ k t, m !! k = Some t ∧ 0 < m_edges_to t n.
Proof.
  induction m as [|i x m Hi IH] using map_ind.
  - rewrite m_indeg_empty. lia.
  - rewrite m_indeg_insert_fresh by done. intros H.
    destruct (decide (0 < m_edges_to x n)) as [Hx|Hx].
    + exists i, x. by rewrite lookup_insert.
    + destruct IH as (k&t&Hk&Ht); [lia|]. exists k, t. split; [|done].
      rewrite lookup_insert_ne; [done|]. congruence.
Qed.

Lemma m_edges_to_pos (t : mtuple) n : 0 < m_edges_to t n ↔ ∃ x, x ∈ t.2 ∧ absn x = n.
Proof.
  unfold m_edges_to. split.
  - intros H. destruct (filter _ t.2) as [|x l] eqn:E; [cbn in H; lia|].
    assert (x ∈ filter (fun x => absn x = n) t.2) as Hx by (rewrite E; left).
    apply elem_of_list_filter in Hx as [? ?]. by exists x.
  - intros (x&Hx&E).
    assert (x ∈ filter (fun x => absn x = n) t.2) as Hin by (by apply elem_of_list_filter).
    destruct (filter _ t.2); [by apply elem_of_nil in Hin|cbn; lia].
Qed.

Inductive mreach (m : gmap positive mtuple) (R : positive → Prop) : positive → Prop :=
  | mreach_root n : R n → n ∈ dom m → mreach m R n
  | mreach_step p (t : mtuple) x : mreach m R p → m !! p = Some t → x ∈ t.2 →
      mreach m R (absn x).

(** ** The invariant without the computed table *)
Definition mclr (s : mst) : mst := s <| mite := ∅ |>.
Definition MW (s : mst) : Prop := MInv (mclr s).

Lemma MInv_MW s : MInv s → MW s.
Proof.
  intros HI. split; [apply HI|apply HI|apply HI|apply HI|apply HI|apply HI| |apply HI|apply HI].
  intros g u v w Hi. cbn in Hi. by rewrite lookup_empty in Hi.
Qed.

Section MW.
Context (s : mst) (HW : MW s).
Lemma MW_term : mlk s 1%positive = Some (mnvars s, []).
Proof. exact (minv_term _ HW). Qed.
Lemma MW_node n i nodes : mlk s n = Some (i, nodes) → n ≠ 1%positive →
  i < mnvars s ∧ mlen_at s i (length nodes) ∧
  (∀ x, x ∈ nodes → mvalid s x ∧ i < mlvl_of s x) ∧
  (0 < hd 0%Z nodes)%Z ∧ ¬ all_eq nodes.
Proof. exact (minv_node _ HW n i nodes). Qed.
Lemma MW_pred n (t : mtuple) : mpred s !! t = Some n ↔ (mlk s n = Some t ∧ n ≠ 1%positive).
Proof. exact (minv_pred _ HW n t). Qed.
Lemma MW_ref : dom (mref s) = dom (msucc s).
Proof. exact (minv_ref _ HW). Qed.
Lemma MW_free k : k ∈ mfree s → mlk s k = None ∧ (k <= mmax s)%positive.
Proof. exact (minv_free _ HW k). Qed.
Lemma MW_max k : (mmax s < k)%positive → mlk s k = None.
Proof. exact (minv_max _ HW k). Qed.

(** edges of a well-formed manager only point to stored nodes, never from
    the terminal, never to the node itself *)
Lemma MW_edges_dom k (t : mtuple) n : mlk s k = Some t → 0 < m_edges_to t n →
  n ∈ dom (msucc s) ∧ k ≠ 1%positive ∧ n ≠ k.
Proof.
  intros Hk He. apply m_edges_to_pos in He as (x&Hx&<-).
  assert (k ≠ 1%positive) as Hk1.
  { intros ->. rewrite MW_term in Hk. injection Hk as <-. by apply elem_of_nil in Hx. }
  destruct t as [i nodes]. destruct (MW_node k i nodes Hk Hk1) as (_&_&Hch&_).
  destruct (Hch x Hx) as [[_ Hs] Hl]. split_and!; [by apply elem_of_dom|done|].
  intros E. unfold mlvl_of in Hl. rewrite E, Hk in Hl. cbn in Hl. lia.
Qed.
End MW.

Lemma mreach_dom s R n : MInv s → mreach (msucc s) R n → n ∈ dom (msucc s).
Proof.
  intros HI. induction 1 as [n _ Hn|p t x _ IH Hp Hx]; [done|].
  apply (MW_edges_dom s (MInv_MW s HI) p t). { done. }
  apply m_edges_to_pos. by exists x.
Qed.

(** ** Decrementing the counters of a list of successors *)
Definition mdecs (l : list Z) (m : gmap positive nat) : gmap positive nat :=
  foldl (fun m x => alter Nat.pred (absn x) m) m l.

Lemma mdecs_lookup l : ∀ m n,
  mdecs l m !! n = (fun y => y - length (filter (fun x => absn x = n) l)) <$> m !! n.
Proof.
  induction l as [|x l IH]; intros m n.
  - cbn. destruct (m !! n); cbn; [f_equal; lia|done].
  - unfold mdecs. cbn [foldl]. fold (mdecs l (alter Nat.pred (absn x) m)). rewrite IH.
    destruct (decide (absn x = n)) as [E|E].
    + rewrite filter_cons_True by done. rewrite <- E, lookup_alter.
      destruct (m !! absn x); cbn; [f_equal; lia|done].
    + rewrite filter_cons_False by done. by rewrite lookup_alter_ne.
Qed.
Lemma dom_mdecs l m : dom (mdecs l m) = dom m.
Proof.
  apply stdpp.sets.set_eq. intros n. rewrite !elem_of_dom, mdecs_lookup. by rewrite fmap_is_Some.
Qed.
Lemma mdecs_other l : ∀ m n, n ∉ absn <$> l → mdecs l m !! n = m !! n.
Proof.
  induction l as [|x l IH]; intros m n Hn; [done|].
  rewrite fmap_cons, not_elem_of_cons in Hn. destruct Hn as [Hx Hn].
  unfold mdecs. cbn [foldl]. fold (mdecs l (alter Nat.pred (absn x) m)).
  rewrite IH by done. by rewrite lookup_alter_ne.
Qed.
Lemma mdecs_zero l m n : m !! n = Some 0 → mdecs l m !! n = Some 0.
Proof. intros H. rewrite mdecs_lookup, H. done. Qed.

Lemma m_decref_run s u : u ≠ 0%Z → is_Some (mref s !! absn u) →
  m_decref u s = (Ok tt, s <| mref ::= alter Nat.pred (absn u) |>).
Proof.
  intros Hu [n Hn]. unfold m_decref. cbn [bind get].
  rewrite decide_False by done. by rewrite Hn.
Qed.
Lemma m_ref_run s u r : u ≠ 0%Z → mref s !! absn u = Some r → m_ref u s = (Ok r, s).
Proof.
  intros Hu Hn. unfold m_ref. cbn [bind get].
  rewrite decide_False by done. by rewrite Hn.
Qed.

Definition m_dec_body (unused : gset positive) (v : Z) : MM (gset positive) :=
  m_decref v ;;;
  r <- m_ref v ;;
  if decide (r = 0 ∧ absn v ≠ 1%positive)
  then ret (unused ∪ {[absn v]}) else ret unused.

Lemma m_dec_loop l : ∀ s (U : gset positive),
  (∀ x, x ∈ l → x ≠ 0%Z ∧ is_Some (mref s !! absn x)) →
  ∃ U' : gset positive,
    foldM m_dec_body U l s = (Ok U', s <| mref := mdecs l (mref s) |>) ∧
    U ⊆ U' ∧
    (∀ n, n ∈ U' → n ∈ U ∨ (n ≠ 1%positive ∧ n ∈ absn <$> l ∧
                              mdecs l (mref s) !! n = Some 0)) ∧
    (∀ n, n ∈ absn <$> l → n ≠ 1%positive → mdecs l (mref s) !! n = Some 0 → n ∈ U').
Proof.
  induction l as [|x l IH]; intros s U Hl.
  - exists U. split; [cbn; by destruct s|]. split; [done|]. split; [by left|].
    intros n Hn. by apply elem_of_nil in Hn.
  - destruct (Hl x ltac:(left)) as [Hx0 [c Hc]].
    set (s1 := s <| mref ::= alter Nat.pred (absn x) |>).
    set (U1 := if decide (Nat.pred c = 0 ∧ absn x ≠ 1%positive)
               then U ∪ {[absn x]} else U).
    assert (Hbody : m_dec_body U x s = (Ok U1, s1)).
    { unfold m_dec_body. rewrite (bind_ok _ _ _ _ _ (m_decref_run s x Hx0 ltac:(by eexists))).
      fold s1. rewrite (bind_ok _ _ _ _ _ (m_ref_run s1 x (Nat.pred c) Hx0
        ltac:(cbn; by rewrite lookup_alter, Hc))).
      subst U1. by case_decide. }
    destruct (IH s1 U1) as (U'&EU&Hsub&Hb&Hc').
    { intros y Hy. destruct (Hl y ltac:(by right)) as [? ?]. split; [done|].
      cbn. by apply lookup_alter_is_Some. }
    exists U'. split.
    { cbn [foldM]. rewrite (bind_ok _ _ _ _ _ Hbody), EU. by destruct s. }
    assert (Hm : mdecs (x :: l) (mref s) = mdecs l (mref s1)) by done.
    rewrite Hm.
    assert (HU1 : U ⊆ U1) by (subst U1; case_decide; set_solver).
    split; [set_solver|]. split.
    + intros n Hn. destruct (Hb n Hn) as [Hn1|(?&?&?)].
      * subst U1. case_decide as Hd; [|by left].
        apply elem_of_union in Hn1 as [?|Hn1]; [by left|].
        apply elem_of_singleton in Hn1 as ->. right. destruct Hd as [Hd ?].
        split; [done|]. split; [rewrite fmap_cons; left|].
        apply mdecs_zero. cbn. rewrite lookup_alter, Hc. cbn. by rewrite Hd.
      * right. split; [done|]. split; [rewrite fmap_cons; by right|done].
    + intros n Hn Hn1 Hz. rewrite fmap_cons in Hn.
      destruct (decide (n ∈ absn <$> l)) as [Hin|Hnin]; [by apply Hc'|].
      apply elem_of_cons in Hn as [->|?]; [|done].
      rewrite mdecs_other in Hz by done. cbn in Hz. rewrite lookup_alter, Hc in Hz.
      injection Hz as Hz. apply Hsub. subst U1. rewrite decide_True by done. set_solver.
Qed.

Lemma m_release_ok s u : (u <= mmax s)%positive → u ∉ mfree s →
  mlk s u = None → mref s !! u = None →
  m_release u s = (Ok tt, s <| mfree ::= fun f => f ∪ {[u]} |>).
Proof.
  intros. unfold m_release. cbn [bind get]. unfold assert.
  rewrite !bool_decide_eq_true_2 by done. done.
Qed.

(** ** One removal *)
Definition m_gc_del (s : mst) (u : positive) (t : mtuple) : mst :=
  let s1 := s <| msucc ::= delete u |> <| mpred ::= delete t |> <| mref ::= delete u |>
              <| mfree ::= fun f => f ∪ {[u]} |> in
  s1 <| mref := mdecs t.2 (mref s1) |>.

Lemma mref_gc_del s u (t : mtuple) n : n ≠ u →
  mref (m_gc_del s u t) !! n = (fun y => y - m_edges_to t n) <$> mref s !! n.
Proof. intros Hn. cbn. rewrite mdecs_lookup, lookup_delete_ne by done. done. Qed.

Lemma m_gc_loop_unfold f (U : gset positive) s u l (t : mtuple) :
  elements U = u :: l → u ≠ 1%positive → mlk s u = Some t →
  mpred s !! t = Some u → mref s !! u = Some 0 →
  (u <= mmax s)%positive → u ∉ mfree s →
  (∀ x, x ∈ t.2 → x ≠ 0%Z ∧ absn x ≠ u ∧ is_Some (mref s !! absn x)) →
  ∃ U' : gset positive,
    m_gc_loop (S f) U s = m_gc_loop f U' (m_gc_del s u t) ∧
    U ∖ {[u]} ⊆ U' ∧
    (∀ n, n ∈ U' → n ∈ U ∖ {[u]} ∨ (n ≠ 1%positive ∧ n ∈ absn <$> t.2 ∧
                                    mref (m_gc_del s u t) !! n = Some 0)) ∧
    (∀ n, n ∈ absn <$> t.2 → n ≠ 1%positive →
          mref (m_gc_del s u t) !! n = Some 0 → n ∈ U').
Proof.
  intros Hel Hu1 Ht Hp Hr Hmax Hnf Hch.
  set (s1 := s <| msucc ::= delete u |> <| mpred ::= delete t |> <| mref ::= delete u |>
               <| mfree ::= fun f => f ∪ {[u]} |>).
  destruct (m_dec_loop t.2 s1 (U ∖ {[u]})) as (U'&EU&Hsub&Hb&Hc).
  { intros x Hx. destruct (Hch x Hx) as (?&?&?). split; [done|].
    cbn. by rewrite lookup_delete_ne. }
  exists U'. split; [|done].
  cbn [m_gc_loop]. rewrite Hel. unfold assert.
  rewrite bool_decide_eq_true_2 by done. cbn [bind ret get].
  assert (H1 : of_opt (S := mst) EKey (mlk s u) s = (Ok t, s)) by (by rewrite Ht).
  rewrite (bind_ok _ _ _ _ _ H1). cbn [bind modify].
  assert (H2 : ∀ s0 : mst, of_opt (S := mst) EKey (mpred s !! t) s0 = (Ok u, s0))
    by (intros; by rewrite Hp).
  rewrite (bind_ok _ _ _ _ _ (H2 _)). cbn [bind modify].
  rewrite Hr. cbn [of_opt bind ret modify].
  erewrite (bind_ok (m_release u));
    [|apply m_release_ok; [exact Hmax|exact Hnf|apply lookup_delete|apply lookup_delete]].
  rewrite !bool_decide_eq_true_2 by done. cbn [bind ret].
  erewrite bind_ok by exact EU. reflexivity.
Qed.

Lemma m_edges_to_zero (t : mtuple) n : n ∉ absn <$> t.2 → m_edges_to t n = 0.
Proof.
  intros Hn. destruct (decide (0 < m_edges_to t n)) as [H|H]; [|lia].
  apply m_edges_to_pos in H as (x&Hx&<-). exfalso. apply Hn.
  apply elem_of_list_fmap. by exists x.
Qed.

(** ** What one removal preserves *)
Lemma MW_gc_del s u (t : mtuple) : MW s → mlk s u = Some t → u ≠ 1%positive →
  m_indeg (msucc s) u = 0 → MW (m_gc_del s u t).
Proof.
  intros HW Ht Hu1 Hin.
  assert (Hnop : ∀ n (t' : mtuple), mlk s n = Some t' → ∀ x, x ∈ t'.2 → absn x ≠ u).
  { intros n t' Hn x Hx E.
    pose proof (m_indeg_ge (msucc s) n t' u Hn) as Hle. rewrite Hin in Hle.
    assert (0 < m_edges_to t' u); [|lia]. apply m_edges_to_pos. by exists x. }
  assert (Hval : ∀ x, mvalid s x → absn x ≠ u → mvalid (m_gc_del s u t) x).
  { intros x [Hx0 Hx] Hxu. split; [done|]. cbn. by rewrite lookup_delete_ne. }
  assert (Hlvl : ∀ x, absn x ≠ u → mlvl_of (m_gc_del s u t) x = mlvl_of s x).
  { intros x Hxu. unfold mlvl_of. cbn. by rewrite lookup_delete_ne. }
  split.
  - cbn. rewrite lookup_delete_ne by done. apply (MW_term s HW).
  - intros n i nodes Hn Hn1. cbn in Hn. apply lookup_delete_Some in Hn as [Hnu Hn].
    destruct (MW_node s HW n i nodes Hn Hn1) as (?&?&Hch&?&?).
    split_and!; try done. intros x Hx. destruct (Hch x Hx) as [? ?].
    pose proof (Hnop n (i, nodes) Hn x Hx) as Hxu.
    rewrite Hlvl by done. split; [by apply Hval|done].
  - intros n t'. cbn. rewrite !lookup_delete_Some. split.
    + intros [Htt Hp]. apply (MW_pred s HW) in Hp as [Hn Hn1]. split; [|done].
      split; [|done]. intros <-. rewrite Ht in Hn. by injection Hn.
    + intros [[Hnu Hn] Hn1]. split.
      * intros <-. rewrite Ht in Hn. congruence.
      * by apply (MW_pred s HW).
  - cbn. rewrite dom_mdecs, !dom_delete_L. by rewrite (MW_ref s HW).
  - intros k Hk. cbn in Hk |- *. apply elem_of_union in Hk as [Hk|Hk].
    + destruct (MW_free s HW k Hk) as [? ?]. split; [|done].
      apply lookup_delete_None. by right.
    + apply elem_of_singleton in Hk as ->. split; [apply lookup_delete|].
      destruct (decide (mmax s < u)%positive) as [Hlt|]; [|lia].
      rewrite (MW_max s HW u Hlt) in Ht. done.
  - intros k Hk. cbn in Hk |- *. apply lookup_delete_None. right. by apply (MW_max s HW).
  - intros g a b c Hi. cbn in Hi. by rewrite lookup_empty in Hi.
  - exact (minv_vars _ HW).
  - exact (minv_lvls _ HW).
Qed.

Lemma MCounts_gc_del s L u (t : mtuple) : MCounts s L → mlk s u = Some t →
  mref s !! u = Some 0 → MCounts (m_gc_del s u t) L.
Proof.
  intros [H1 H2] Ht Hr.
  assert (Hud : u ∈ dom (msucc s)) by (apply elem_of_dom; eauto).
  pose proof (H1 u Hud) as Hu. rewrite Hr in Hu. injection Hu as Hu.
  split.
  - intros n Hn. change (msucc (m_gc_del s u t)) with (delete u (msucc s)) in Hn |- *.
    rewrite dom_delete_L in Hn.
    assert (n ≠ u ∧ n ∈ dom (msucc s)) as [Hnu Hnd] by set_solver.
    rewrite mref_gc_del by done. rewrite (H1 n Hnd).
    rewrite (m_indeg_delete (msucc s) u t n Ht). cbn. f_equal. lia.
  - intros n Hn. change (msucc (m_gc_del s u t)) with (delete u (msucc s)) in Hn.
    rewrite dom_delete_L in Hn.
    destruct (decide (n = u)) as [->|]; [lia|]. apply H2. set_solver.
Qed.

(** ** The loop invariant *)
Record MJ (s0 : mst) (L : positive → nat) (s : mst) (U : gset positive) : Prop := {
  mj_inv : MW s;
  mj_counts : MCounts s L;
  mj_sub : msucc s ⊆ msucc s0;
  mj_vars : mvars s = mvars s0;
  mj_max : mmax s = mmax s0;
  mj_free : mfree s = mfree s0 ∪ (dom (msucc s0) ∖ dom (msucc s));
  mj_unused : ∀ n, n ∈ U →
     n ≠ 1%positive ∧ n ∈ dom (msucc s) ∧ mref s !! n = Some 0;
  mj_reach : ∀ n, mreach (msucc s0) (fun k => 0 < L k) n → n ∈ dom (msucc s);
  mj_complete : ∀ n, n ∈ dom (msucc s) → n ≠ 1%positive →
     mref s !! n = Some 0 → n ∈ U;
}.

Lemma MJ_step s0 L s (U U' : gset positive) u (t : mtuple) :
  MJ s0 L s U → u ∈ U → mlk s u = Some t →
  U ∖ {[u]} ⊆ U' →
  (∀ n, n ∈ U' → n ∈ U ∖ {[u]} ∨ (n ≠ 1%positive ∧ n ∈ absn <$> t.2 ∧
                                  mref (m_gc_del s u t) !! n = Some 0)) →
  (∀ n, n ∈ absn <$> t.2 → n ≠ 1%positive →
        mref (m_gc_del s u t) !! n = Some 0 → n ∈ U') →
  MJ s0 L (m_gc_del s u t) U'.
Proof.
  intros HJ HuU Ht Hsub Hb Hc.
  destruct (mj_unused _ _ _ _ HJ u HuU) as (Hu1&Hud&Hr).
  pose proof (mj_inv _ _ _ _ HJ) as HW.
  pose proof (mj_counts _ _ _ _ HJ) as HC.
  assert (Hin : m_indeg (msucc s) u = 0 ∧ L u = 0).
  { destruct HC as [H1 _]. specialize (H1 u Hud). rewrite Hr in H1.
    injection H1 as H1. lia. }
  destruct Hin as [Hin HLu].
  assert (Hdom : dom (msucc (m_gc_del s u t)) = dom (msucc s) ∖ {[u]})
    by apply dom_delete_L.
  assert (Hkids : ∀ x, x ∈ t.2 → absn x ≠ u ∧ absn x ∈ dom (msucc s)).
  { intros x Hx.
    destruct (MW_edges_dom s HW u t (absn x) Ht) as (?&?&?); [|done].
    apply m_edges_to_pos. by exists x. }
  split.
  - by apply MW_gc_del.
  - by apply MCounts_gc_del.
  - etrans; [apply delete_subseteq|]. apply (mj_sub _ _ _ _ HJ).
  - apply (mj_vars _ _ _ _ HJ).
  - apply (mj_max _ _ _ _ HJ).
  - rewrite Hdom. change (mfree (m_gc_del s u t)) with (mfree s ∪ {[u]}).
    rewrite (mj_free _ _ _ _ HJ).
    assert (u ∈ dom (msucc s0)).
    { apply elem_of_dom. exists t. apply (lookup_weaken _ _ _ _ Ht (mj_sub _ _ _ _ HJ)). }
    apply stdpp.sets.set_eq. intros k. rewrite !elem_of_union, !elem_of_difference, elem_of_singleton.
    destruct (decide (k = u)) as [->|]; [tauto|]. tauto.
  - intros n Hn. rewrite Hdom. destruct (Hb n Hn) as [Hn'|(Hn1&Hnk&Hz)].
    + apply elem_of_difference in Hn' as [HnU Hnu]. rewrite elem_of_singleton in Hnu.
      destruct (mj_unused _ _ _ _ HJ n HnU) as (?&?&Hrn).
      split_and!; [done|set_solver|]. rewrite mref_gc_del by done. by rewrite Hrn.
    + apply elem_of_list_fmap in Hnk as (x&->&Hx). destruct (Hkids x Hx) as [? ?].
      split_and!; [done|set_solver|done].
  - intros n Hn. rewrite Hdom.
    pose proof (mj_reach _ _ _ _ HJ n Hn) as Hnd.
    apply elem_of_difference. split; [done|]. rewrite elem_of_singleton. intros ->.
    inversion Hn as [n' HR _ E|p tp x Hp Hsp Hx E].
    + lia.
    + pose proof (mj_reach _ _ _ _ HJ p Hp) as Hpd.
      apply elem_of_dom in Hpd as [tp' Hp'].
      pose proof (lookup_weaken _ _ _ _ Hp' (mj_sub _ _ _ _ HJ)) as Hp''.
      assert (tp' = tp) as -> by congruence.
      pose proof (m_indeg_ge (msucc s) p tp u Hp').
      assert (0 < m_edges_to tp u); [|lia]. apply m_edges_to_pos. by exists x.
  - intros n Hn Hn1 Hrn. rewrite Hdom in Hn.
    apply elem_of_difference in Hn as [Hn Hnu]. rewrite elem_of_singleton in Hnu.
    destruct (decide (n ∈ absn <$> t.2)) as [Hk|Hk]; [by apply Hc|].
    apply Hsub. apply elem_of_difference. split; [|by rewrite elem_of_singleton].
    apply (mj_complete _ _ _ _ HJ); try done.
    rewrite mref_gc_del in Hrn by done. rewrite (m_edges_to_zero t n Hk) in Hrn.
    destruct (mref s !! n) as [y|]; [|done]. cbn in Hrn. injection Hrn as Hrn. f_equal. lia.
Qed.

Lemma m_gc_loop_spec s0 L fuel : ∀ (U : gset positive) s r s',
  MJ s0 L s U → size (msucc s) < fuel → m_gc_loop fuel U s = (r, s') →
  r = Ok tt ∧ MJ s0 L s' ∅.
Proof.
  induction fuel as [|f IH]; intros U s r s' HJ Hsz; [lia|].
  destruct (elements U) as [|u l] eqn:Hel.
  { cbn [m_gc_loop]. rewrite Hel. intros [= <- <-]. split; [done|].
    apply elements_empty_inv, leibniz_equiv in Hel. by subst. }
  assert (HuU : u ∈ U) by (apply elem_of_elements; rewrite Hel; left).
  destruct (mj_unused _ _ _ _ HJ u HuU) as (Hu1&Hud&Hr).
  pose proof (mj_inv _ _ _ _ HJ) as HW.
  apply elem_of_dom in Hud as [t Ht].
  destruct (m_gc_loop_unfold f U s u l t Hel Hu1 Ht) as (U'&->&Hsub&Hb&Hc); try done.
  - by apply (MW_pred s HW).
  - destruct (decide (mmax s < u)%positive) as [Hlt|]; [|lia].
    rewrite (MW_max s HW u Hlt) in Ht. done.
  - intros Hf. destruct (MW_free s HW u Hf) as [Hn _]. rewrite Hn in Ht. done.
  - intros x Hx.
    destruct (MW_edges_dom s HW u t (absn x) Ht) as (Hd&_&Hne);
      [apply m_edges_to_pos; by exists x|].
    destruct t as [i nodes]. destruct (MW_node s HW u i nodes Ht Hu1) as (_&_&Hch&_).
    destruct (Hch x Hx) as [[Hx0 _] _]. split_and!; [done|done|].
    apply elem_of_dom. by rewrite (MW_ref s HW).
  - apply IH.
    + by apply (MJ_step s0 L s U U' u t).
    + change (msucc (m_gc_del s u t)) with (delete u (msucc s)).
      rewrite map_size_delete, Ht.
      assert (size (msucc s) ≠ 0); [|lia].
      intros E. apply map_size_empty_inv in E. rewrite E in Ht. done.
Qed.

(** at exit every remaining node is reachable from an external reference *)
Lemma m_exit_reach s0 L s : MJ s0 L s ∅ →
  ∀ n, n ∈ dom (msucc s) → n ≠ 1%positive → mreach (msucc s0) (fun k => 0 < L k) n.
Proof.
  intros HJ.
  pose proof (mj_inv _ _ _ _ HJ) as HW.
  pose proof (mj_counts _ _ _ _ HJ) as [HC1 HC2].
  assert (Hgen : ∀ k n (t : mtuple), mlk s n = Some t → t.1 = k → n ≠ 1%positive →
             mreach (msucc s0) (fun k => 0 < L k) n).
  { intros k. induction (lt_wf k) as [k _ IH]. intros n t Hn Hk Hn1.
    assert (Hnd : n ∈ dom (msucc s)) by (apply elem_of_dom; eauto).
    pose proof (HC1 n Hnd) as Hrn.
    destruct (decide (0 < L n)) as [HL|HL].
    { apply mreach_root; [done|]. apply elem_of_dom. exists t.
      apply (lookup_weaken _ _ _ _ Hn (mj_sub _ _ _ _ HJ)). }
    destruct (decide (0 < m_indeg (msucc s) n)) as [Hi|Hi]; cycle 1.
    { exfalso. apply (not_elem_of_empty (C := gset positive) n).
      apply (mj_complete _ _ _ _ HJ n Hnd Hn1). rewrite Hrn. f_equal. lia. }
    destruct (m_indeg_pos _ _ Hi) as (p&tp&Hp&He).
    destruct (MW_edges_dom s HW p tp n Hp He) as (_&Hp1&_).
    apply m_edges_to_pos in He as (x&Hx&E).
    destruct tp as [ip nodesp]. destruct (MW_node s HW p ip nodesp Hp Hp1) as (_&_&Hch&_).
    destruct (Hch x Hx) as [_ Hlx]. unfold mlvl_of in Hlx. rewrite E, Hn in Hlx.
    pose proof (lookup_weaken _ _ _ _ Hp (mj_sub _ _ _ _ HJ)) as Hp0.
    rewrite <- E. apply (mreach_step _ _ p (ip, nodesp) x); [|done|done].
    apply (IH ip) with (ip, nodesp); [lia|done|done|done]. }
  intros n Hn Hn1. apply elem_of_dom in Hn as [t Hn]. by apply (Hgen t.1 n t).
Qed.

(** ** [collect_garbage()] *)
Theorem m_gc_exact s L r s' :
  MInv s → MCounts s L →
  m_collect_garbage s = (r, s') →
  r = Ok tt ∧ MInv s' ∧ MCounts s' L ∧ mite s' = ∅ ∧
  mvars s' = mvars s ∧ mmax s' = mmax s ∧
  (∀ n, n ∈ dom (msucc s') ↔ n = 1%positive ∨ mreach (msucc s) (fun k => 0 < L k) n) ∧
  (∀ n (t : mtuple), mlk s' n = Some t → mlk s n = Some t) ∧
  mfree s' = mfree s ∪ (dom (msucc s) ∖ dom (msucc s')).
Proof.
  intros HI HC. unfold m_collect_garbage. cbn [bind get].
  set (X := list_to_set (omap (fun '(u, r) => if decide (r = 0) then Some u else None)
                              (map_to_list (mref s))) : gset positive).
  assert (HX : ∀ n, n ∈ X ↔ mref s !! n = Some 0).
  { intros n. subst X. rewrite elem_of_list_to_set, elem_of_list_omap. split.
    - intros ([u c]&Hin&Hf). apply elem_of_map_to_list in Hin.
      case_decide; [|done]. injection Hf as ->. by subst.
    - intros Hn. exists (n, 0). split; [by apply elem_of_map_to_list|]. by rewrite decide_True. }
  destruct (m_gc_loop (S (size (msucc s))) (X ∖ {[1%positive]}) s) as [r1 s1] eqn:Eloop.
  pose proof Eloop as Eloop'.
  apply (m_gc_loop_spec s L) in Eloop' as [-> HJ]; [| |lia].
  2:{ split.
      - by apply MInv_MW.
      - done.
      - done.
      - done.
      - done.
      - set_solver.
      - intros n Hn. apply elem_of_difference in Hn as [Hn Hn1].
        rewrite elem_of_singleton in Hn1. apply HX in Hn.
        split_and!; [done| |done]. rewrite <- (minv_ref _ HI). apply elem_of_dom. eauto.
      - intros n Hn. by apply (mreach_dom s (fun k => 0 < L k) n HI).
      - intros n Hn Hn1 Hr. apply elem_of_difference.
        split; [by apply HX|by rewrite elem_of_singleton]. }
  rewrite (bind_ok _ _ _ _ _ Eloop). cbn [modify]. intros [= <- <-].
  pose proof (mj_inv _ _ _ _ HJ) as HW.
  split; [done|]. split; [exact HW|]. split; [exact (mj_counts _ _ _ _ HJ)|].
  split; [done|]. split; [exact (mj_vars _ _ _ _ HJ)|]. split; [exact (mj_max _ _ _ _ HJ)|].
  split; [|split].
  - intros n. change (msucc (s1 <| mite := ∅ |>)) with (msucc s1). split.
    + intros Hn. destruct (decide (n = 1%positive)) as [|Hn1]; [by left|right].
      by apply (m_exit_reach s L s1 HJ).
    + intros [->|Hn]; [|by apply (mj_reach _ _ _ _ HJ)].
      apply elem_of_dom. rewrite (MW_term s1 HW). by eexists.
  - intros n t Hn. apply (lookup_weaken _ _ _ _ Hn (mj_sub _ _ _ _ HJ)).
  - exact (mj_free _ _ _ _ HJ).
Qed.
