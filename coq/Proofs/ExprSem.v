(** * ExprSem: [eval_ast] (the [_Translator] of dd/_parser.py run on a
      [dd.bdd] manager) computes the function obtained by reading the syntax
      tree with the documented operator meanings. *)
From Coq Require Import Ascii.
From stdpp Require Import strings pretty.
From DD Require Export C01proof Quantify Subst Total ParsePrint.
Local Open Scope string_scope.

(** ** the reading of a syntax tree *)

(** [∃ / ∀] over the values of a list of variables *)
Fixpoint qbool (fa : bool) (xs : list nat) (f : (nat → bool) → bool) (ρ : nat → bool) : bool :=
  match xs with
  | [] => f ρ
  | x :: xs =>
      if fa then qbool fa xs f (upd ρ x true) && qbool fa xs f (upd ρ x false)
      else qbool fa xs f (upd ρ x true) || qbool fa xs f (upd ρ x false)
  end.

(** [\S new/old, ...]: the variable that replaces [x] (the last binding of a
    name wins, as in a Python dict) *)
Definition ren (dvars : list (nat * nat)) (x : nat) : nat :=
  default x ((list_to_map (reverse dvars) : gmap nat nat) !! x).

Definition sub_ids (subs : list (string * string)) : list (nat * nat) :=
  (fun '(old, new) => (name_or_undeclared old, name_or_undeclared new)) <$> subs.

(** [s0] is the manager at the time of the call: [@n] means the existing
    reference [n] *)
Fixpoint asem (s0 : st) (a : ast) (ρ : nat → bool) : bool :=
  match a with
  | ABool b => b
  | AVar n => ρ (name_or_undeclared n)
  | ANum z => denv s0 z ρ
  | AOp1 op a =>
      match conn_sem op with Some g => g (asem s0 a ρ) false false | None => false end
  | AOp2 op a b =>
      match conn_sem op with Some g => g (asem s0 a ρ) (asem s0 b ρ) false | None => false end
  | AIte a b c => if asem s0 a ρ then asem s0 b ρ else asem s0 c ρ
  | AQuant op ns a =>
      qbool (bool_decide (op = "\A")) (name_or_undeclared <$> ns) (asem s0 a) ρ
  | ASubst subs a => asem s0 a (fun x => ρ (ren (sub_ids subs) x))
  end.

Definition declared (s0 : st) (n : string) : Prop :=
  is_Some (vars s0 !! name_or_undeclared n).

(** trees that [eval_ast] accepts: declared variables, existing references,
    operator symbols of the vocabulary with the right number of operands *)
Fixpoint ok_ast (s0 : st) (a : ast) : Prop :=
  match a with
  | ABool _ => True
  | AVar n => declared s0 n
  | ANum z => valid s0 z
  | AOp1 op a =>
      is_Some (conn_sem op) ∧ op ∈ py_vocab ∧ arity_ok op None None = true ∧ ok_ast s0 a
  | AOp2 op a b =>
      is_Some (conn_sem op) ∧ op ∈ py_vocab ∧ arity_ok op (Some 1%Z) None = true ∧
      ok_ast s0 a ∧ ok_ast s0 b
  | AIte a b c => ok_ast s0 a ∧ ok_ast s0 b ∧ ok_ast s0 c
  | AQuant op ns a => Forall (declared s0) ns ∧ ok_ast s0 a
  | ASubst subs a => Forall (fun on => declared s0 on.2) subs ∧ ok_ast s0 a
  end.

(** ** [var] *)
Lemma var_sem s n j r s' :
  Inv s → last_len s = None → max_nodes s = None → vars s !! n = Some j → var n s = (r, s') →
  ∃ u, r = Ok u ∧ Inv s' ∧ extends s s' ∧ last_len s' = None ∧
       max_nodes s' = None ∧ valid s' u ∧
       ∀ ρ, denv s' u ρ = ρ n.
Proof.
  intros HI Hoff Hmx Hj Hrun. unfold var in Hrun.
  apply try_to_reorder_inert in Hrun as (r1&s1&Hrun&Hcase).
  set (s0 := s <| rctx := true |>) in *.
  assert (HI0 : Inv s0) by (by apply Inv_rctx).
  cbn [bind get] in Hrun. change (vars s0) with (vars s) in Hrun. rewrite Hj in Hrun.
  assert (Hjn : j < nvars s0).
  { apply (inv_lvls _ HI). exists n. by apply (inv_vars _ HI). }
  apply find_or_add_spec in Hrun as (HI1&He1&Hf1&Hr); try done.
  2: by apply valid_m1. 2: by apply valid_1.
  2: by rewrite (lvl_term s0 HI0). 2: by rewrite (lvl_term s0 HI0).
  destruct r1 as [u|e]; cycle 1.
  { by destruct (benign_never s0 e Hoff Hmx (proj1 Hr)). }
  destruct Hcase as [[? _]|[-> ->]]; [done|].
  destruct Hr as (Hu&_&HD). exists u.
  split; [done|]. split; [by apply Inv_rctx|]. split; [done|]. split.
  { cbn. rewrite (frame_same _ _ Hf1). done. }
  split.
  { cbn. rewrite (frame_max_nodes _ _ Hf1). done. }
  split; [done|]. intros ρ. unfold denv. rewrite D_rctx, HD.
  rewrite (D_1 s0 HI0), (D_m1 s0 HI0).
  destruct He1 as (_&_&El). cbn. rewrite <- El. change (lvl2var s0) with (lvl2var s).
  rewrite (proj1 (inv_vars _ HI n j) Hj). by destruct (ρ n).
Qed.

Lemma arity_some op v v' : arity_ok op (Some v) None = arity_ok op (Some v') None.
Proof.
  unfold arity_ok. repeat case_bool_decide; try done; naive_solver.
Qed.

(** [apply] with the disabled reordering kept disabled *)
Lemma apply_sem s op u v w r s' f :
  Inv s → last_len s = None → max_nodes s = None →
  op ∈ py_vocab → conn_sem op = Some f →
  valid s u → ovalid s v → ovalid s w → arity_ok op v w = true →
  apply op u v w s = (r, s') →
  ∃ x, r = Ok x ∧ Inv s' ∧ extends s s' ∧ last_len s' = None ∧
       max_nodes s' = None ∧ valid s' x ∧
    ∀ ρ, denv s' x ρ = f (denv s u ρ) (odenv s v ρ) (odenv s w ρ).
Proof.
  intros HI Hoff Hmx Hop Hf Hu Hv Hw Har Hrun.
  destruct (nrf_apply op u v w s r s' Hoff Hrun) as [Hoff' _].
  destruct (apply_correct_lemma s op u v w r s' f HI Hoff Hmx Hop Hf Hu Hv Hw Har Hrun)
    as (x&->&HI'&He&Hx&_&HD).
  destruct (tsafe_apply op u v w s _ s' HI Hoff Hrun) as (_&_&Hfr&_).
  exists x. split_and!; try done. by rewrite (frame_max_nodes _ _ Hfr).
Qed.

(** ** quantifiers: [qsem] (over level assignments) is [qbool] (over names) *)
Definition aof (s : st) (ρ : nat → bool) : nat → bool :=
  fun l => match lvl2var s !! l with Some v => ρ v | None => false end.
Lemma denv_aof s u ρ : denv s u ρ = D s u (aof s ρ).
Proof. reflexivity. Qed.

Lemma aof_upd s ρ x l c j : Inv s → vars s !! x = Some l →
  aof s (upd ρ x c) j = upd (aof s ρ) l c j.
Proof.
  intros HI Hx. unfold aof, upd. destruct (decide (j = l)) as [->|Hne].
  - rewrite (proj1 (inv_vars _ HI x l) Hx). by rewrite decide_True.
  - destruct (lvl2var s !! j) as [v|] eqn:Ev; [|done].
    rewrite decide_False; [done|]. intros ->.
    apply (inv_vars _ HI) in Ev. congruence.
Qed.

Lemma qsem_cons s fa l q u a :
  qsem s fa ({[l]} ∪ q) u a ↔
  if fa then qsem s fa q u (upd a l true) ∧ qsem s fa q u (upd a l false)
  else qsem s fa q u (upd a l true) ∨ qsem s fa q u (upd a l false).
Proof.
  assert (H1 : ∀ b c, agree_off q (upd a l c) b → agree_off ({[l]} ∪ q) a b).
  { intros b c H j Hj. rewrite <- H by set_solver. rewrite upd_other; [done|set_solver]. }
  assert (H2 : ∀ b, agree_off ({[l]} ∪ q) a b → agree_off q (upd a l (b l)) b).
  { intros b H j Hj. destruct (decide (j = l)) as [->|Hne]; [by rewrite upd_same|].
    rewrite upd_other by done. apply H. set_solver. }
  unfold qsem. destruct fa.
  - split.
    + intros H. split; intros b Hb; apply H; by eapply H1.
    + intros [Ht Hf] b Hb. destruct (b l) eqn:Ebl.
      * apply Ht. rewrite <- Ebl. by apply H2.
      * apply Hf. rewrite <- Ebl. by apply H2.
  - split.
    + intros (b&Hb&HD). destruct (b l) eqn:Ebl; [left|right]; exists b; (split; [|done]);
        rewrite <- Ebl; by apply H2.
    + intros [(b&Hb&HD)|(b&Hb&HD)]; exists b; (split; [|done]); by eapply H1.
Qed.

Lemma qsem_pointwise s fa q u a a' : (∀ j, a j = a' j) → qsem s fa q u a ↔ qsem s fa q u a'.
Proof. intros H. apply qsem_agree. intros j _. apply H. Qed.

Lemma qsem_qbool s fa u xs ls : Inv s → valid s u →
  Forall2 (fun k l => vars s !! k = Some l) xs ls →
  ∀ ρ, qsem s fa (list_to_set ls) u (aof s ρ) ↔ qbool fa xs (denv s u) ρ = true.
Proof.
  intros HI Hu. induction 1 as [|x l xs ls Hx _ IH]; intros ρ.
  - cbn [qbool list_to_set]. rewrite denv_aof. apply qsem_const.
    intros b Hb. apply D_ext. intros j. symmetry. by apply (proj1 (agree_off_empty _ _) Hb).
  - cbn [qbool list_to_set]. rewrite qsem_cons.
    pose proof (qsem_pointwise s fa (list_to_set ls) u (upd (aof s ρ) l true) (aof s (upd ρ x true))
                  (fun j => eq_sym (aof_upd s ρ x l true j HI Hx))) as Ht.
    pose proof (qsem_pointwise s fa (list_to_set ls) u (upd (aof s ρ) l false) (aof s (upd ρ x false))
                  (fun j => eq_sym (aof_upd s ρ x l false j HI Hx))) as Hf.
    destruct fa.
    + rewrite Ht, Hf, !IH, andb_true_iff. done.
    + rewrite Ht, Hf, !IH, orb_true_iff. done.
Qed.

Lemma qbool_ext fa xs f g : (∀ ρ, f ρ = g ρ) → ∀ ρ, qbool fa xs f ρ = qbool fa xs g ρ.
Proof.
  intros H. induction xs as [|x xs IH]; intros ρ; cbn [qbool]; [done|]. by rewrite !IH.
Qed.

Lemma declared_levels s (xs : list nat) :
  Forall (fun x => is_Some (vars s !! x)) xs →
  Forall2 (fun k l => vars s !! k = Some l) xs ((fun x => default 0 (vars s !! x)) <$> xs).
Proof.
  induction 1 as [|x xs [l Hl] _ IH]; [constructor|]. cbn [fmap list_fmap].
  constructor; [by rewrite Hl|done].
Qed.

Lemma quantify_sem s u xs fa r s' :
  Inv s → last_len s = None → max_nodes s = None → valid s u →
  Forall (fun x => is_Some (vars s !! x)) xs →
  quantify u true (remove_dups xs) fa s = (r, s') →
  ∃ x, r = Ok x ∧ Inv s' ∧ extends s s' ∧ last_len s' = None ∧
       max_nodes s' = None ∧ valid s' x ∧
    ∀ ρ, denv s' x ρ = qbool fa xs (denv s u) ρ.
Proof.
  intros HI Hoff Hmx Hu Hdecl Hrun.
  destruct (nrf_quantify u true (remove_dups xs) fa s r s' Hoff Hrun) as [Hoff' _].
  set (lv := fun x => default 0 (vars s !! x)).
  assert (Hd' : Forall (fun x => is_Some (vars s !! x)) (remove_dups xs)).
  { rewrite Forall_forall in *. intros x Hx. apply Hdecl. by apply elem_of_remove_dups. }
  pose proof (map_to_level_set_names s _ _ (declared_levels s _ Hd')) as Hq.
  assert (Eq : (list_to_set (lv <$> remove_dups xs) : gset nat) = list_to_set (lv <$> xs)).
  { apply stdpp.sets.set_eq. intros l. rewrite !elem_of_list_to_set, !elem_of_list_fmap.
    split; intros (x&->&Hx); exists x; (split; [done|]); by apply elem_of_remove_dups. }
  fold lv in Hq. rewrite Eq in Hq.
  destruct (quantify_spec s u true (remove_dups xs) fa _ r s' HI Hu Hoff Hmx
              (f_equal fst Hq) Hrun) as (x&->&HI'&He&Hx&HD).
  destruct (tsafe_quantify u true (remove_dups xs) fa s _ s' HI Hoff Hrun) as (_&_&Hfr&_).
  exists x. split; [done|]. split; [done|]. split; [done|]. split; [done|].
  split; [by rewrite (frame_max_nodes _ _ Hfr)|]. split; [done|].
  intros ρ. apply bool_eq_iff. rewrite denv_aof, HD.
  destruct He as (_&_&El). unfold aof. rewrite <- El. fold (aof s ρ).
  apply (qsem_qbool s fa u xs (lv <$> xs) HI Hu). by apply declared_levels.
Qed.

(** ** renaming *)
Lemma rename_sem s u dvars r s' :
  Inv s → last_len s = None → max_nodes s = None → valid s u →
  (∀ x y, (x, y) ∈ dvars → is_Some (vars s !! y)) →
  rename u dvars s = (r, s') →
  ∃ x, r = Ok x ∧ Inv s' ∧ extends s s' ∧ last_len s' = None ∧
       max_nodes s' = None ∧ valid s' x ∧
    ∀ ρ, denv s' x ρ = denv s u (fun v => ρ (ren dvars v)).
Proof.
  intros HI Hoff Hmx Hu Hdecl Hrun.
  destruct (nrf_rename u dvars s r s' Hoff Hrun) as [Hoff' _].
  destruct (rename_spec s u dvars r s' HI Hu Hoff Hmx Hrun Hdecl) as (x&->&HI'&He&Hx&HD).
  destruct (tsafe_rename u dvars s _ s' HI Hoff Hrun) as (_&_&Hfr&_).
  exists x. split; [done|]. split; [done|]. split; [done|]. split; [done|].
  split; [by rewrite (frame_max_nodes _ _ Hfr)|]. split; [done|].
  intros ρ. rewrite !denv_aof, HD.
  destruct He as (_&_&El). unfold aof at 1. rewrite <- El. fold (aof s ρ).
  apply (D_indep_lt s HI); [done|]. intros j Hj.
  destruct (level_name s j HI Hj) as (v&Hv).
  assert (Hall : is_Some (vars s !! ren dvars v)).
  { unfold ren.
    destruct ((list_to_map (reverse dvars) : gmap nat nat) !! v) as [y|] eqn:Ed;
      simpl; [|by eexists].
    apply (Hdecl v). apply elem_of_list_to_map_2 in Ed. by rewrite elem_of_reverse in Ed. }
  destruct Hall as [l' Hl']. unfold lmap.
  rewrite (proj2 (rename_level_map_spec s dvars j l' HI)); [|by exists v].
  unfold aof. rewrite (proj1 (inv_vars _ HI v j) Hv).
  by rewrite (proj1 (inv_vars _ HI _ l') Hl').
Qed.

(** ** the evaluator *)
Definition eval_post (s0 s : st) (a : ast) (r : res Z) (s' : st) : Prop :=
  ∃ u, r = Ok u ∧ Inv s' ∧ extends s s' ∧ last_len s' = None ∧
       max_nodes s' = None ∧ valid s' u ∧
       ∀ ρ, denv s' u ρ = asem s0 a ρ.

Lemma ok_ast_extends_decl s0 s n : extends s0 s → declared s0 n → declared s n.
Proof. intros (_&E&_). unfold declared. by rewrite E. Qed.

Lemma eval_ast_sem_gen a : ∀ s0 s r s',
  Inv s0 → extends s0 s → Inv s → last_len s = None → max_nodes s = None →
  ok_ast s0 a →
  eval_ast a s = (r, s') → eval_post s0 s a r s'.
Proof.
  induction a as [b|n|z|op a IH|op a1 IH1 a2 IH2|a IHa b IHb c IHc|op ns a IH|ss a IH];
    intros s0 s r s' HI0 He0 HI Hoff Hmx Hok Hrun.
  - (* ABool *)
    cbn [eval_ast] in Hrun. unfold ret in Hrun. injection Hrun as <- <-.
    eexists. split; [done|]. split; [done|]. split; [reflexivity|]. split; [done|].
    split; [done|].
    destruct b; (split; [by (apply valid_1 || apply valid_m1)|]); intros ρ; unfold denv; cbn [asem].
    + by apply D_1.
    + by apply D_m1.
  - (* AVar *)
    cbn [eval_ast ok_ast] in *. destruct (ok_ast_extends_decl s0 s n He0 Hok) as [j Hj].
    destruct (var_sem s _ j r s' HI Hoff Hmx Hj Hrun) as (u&->&?&?&?&?&?&HD). by exists u.
  - (* ANum *)
    cbn [eval_ast ok_ast] in *. cbn [bind get] in Hrun.
    assert (Hz : valid s z) by (by apply (valid_extends s0 s)).
    unfold ensure in Hrun. rewrite (proj2 (mem_valid s z) Hz) in Hrun.
    cbn [bind ret] in Hrun. unfold ret in Hrun. injection Hrun as <- <-.
    exists z. split; [done|]. split; [done|]. split; [reflexivity|]. split; [done|].
    split; [done|]. split; [done|]. intros ρ. cbn [asem]. by apply denv_extends.
  - (* AOp1 *)
    cbn [eval_ast ok_ast] in *. destruct Hok as ([g Hg]&Hv&Har&Hok).
    destruct (eval_ast a s) as [ra s1] eqn:Ea.
    destruct (IH s0 s ra s1 HI0 He0 HI Hoff Hmx Hok Ea) as (u&->&HI1&He1&Hoff1&Hmx1&Hu&HDu).
    rewrite (bind_ok _ _ _ _ _ Ea) in Hrun.
    destruct (apply_sem s1 op u None None r s' g HI1 Hoff1 Hmx1 Hv Hg Hu I I Har Hrun)
      as (x&->&HI2&He2&Hoff2&Hmx2&Hx&HDx).
    exists x. split; [done|]. split; [done|]. split; [by etrans|]. split; [done|].
    split; [done|]. split; [done|]. intros ρ. cbn [asem]. rewrite Hg, HDx, HDu. done.
  - (* AOp2 *)
    cbn [eval_ast ok_ast] in *. destruct Hok as ([g Hg]&Hv&Har&Hok1&Hok2).
    destruct (eval_ast a1 s) as [ra s1] eqn:Ea.
    destruct (IH1 s0 s ra s1 HI0 He0 HI Hoff Hmx Hok1 Ea) as (u&->&HI1&He1&Hoff1&Hmx1&Hu&HDu).
    rewrite (bind_ok _ _ _ _ _ Ea) in Hrun.
    destruct (eval_ast a2 s1) as [rb s2] eqn:Eb.
    destruct (IH2 s0 s1 rb s2 HI0 (transitivity He0 He1) HI1 Hoff1 Hmx1 Hok2 Eb)
      as (v&->&HI2&He2&Hoff2&Hmx2&Hv2&HDv).
    rewrite (bind_ok _ _ _ _ _ Eb) in Hrun.
    assert (Hu2 : valid s2 u) by (by apply (valid_extends s1 s2)).
    rewrite (arity_some op 1 v) in Har.
    destruct (apply_sem s2 op u (Some v) None r s' g HI2 Hoff2 Hmx2 Hv Hg Hu2 Hv2 I Har Hrun)
      as (x&->&HI3&He3&Hoff3&Hmx3&Hx&HDx).
    exists x. split; [done|]. split; [done|]. split; [by etrans; [|etrans]|]. split; [done|].
    split; [done|]. split; [done|]. intros ρ. cbn [asem]. rewrite Hg, HDx. cbn [odenv].
    rewrite (denv_extends s1 s2 u ρ He2 HI1 Hu), HDu, HDv. done.
  - (* AIte *)
    cbn [eval_ast ok_ast] in *. destruct Hok as (Hoka&Hokb&Hokc).
    destruct (eval_ast a s) as [ra s1] eqn:Ea.
    destruct (IHa s0 s ra s1 HI0 He0 HI Hoff Hmx Hoka Ea) as (u&->&HI1&He1&Hoff1&Hmx1&Hu&HDu).
    rewrite (bind_ok _ _ _ _ _ Ea) in Hrun.
    destruct (eval_ast b s1) as [rb s2] eqn:Eb.
    destruct (IHb s0 s1 rb s2 HI0 (transitivity He0 He1) HI1 Hoff1 Hmx1 Hokb Eb)
      as (v&->&HI2&He2&Hoff2&Hmx2&Hv2&HDv).
    rewrite (bind_ok _ _ _ _ _ Eb) in Hrun.
    destruct (eval_ast c s2) as [rc s3] eqn:Ec.
    destruct (IHc s0 s2 rc s3 HI0 (transitivity He0 (transitivity He1 He2)) HI2 Hoff2 Hmx2 Hokc Ec)
      as (w&->&HI3&He3&Hoff3&Hmx3&Hw3&HDw).
    rewrite (bind_ok _ _ _ _ _ Ec) in Hrun.
    assert (Hu2 : valid s2 u) by (by apply (valid_extends s1 s2)).
    assert (Hu3 : valid s3 u) by (by apply (valid_extends s2 s3)).
    assert (Hv3 : valid s3 v) by (by apply (valid_extends s2 s3)).
    destruct (apply_sem s3 "ite" u (Some v) (Some w) r s' (fun a b c : bool => if a then b else c)
                HI3 Hoff3 Hmx3) as (x&->&HI4&He4&Hoff4&Hmx4&Hx&HDx); try done.
    { apply (bool_decide_eq_true_1 _). by vm_compute. }
    exists x. split; [done|]. split; [done|].
    split; [by etrans; [|etrans; [|etrans]]|]. split; [done|].
    split; [done|]. split; [done|]. intros ρ. cbn [asem]. rewrite HDx. cbn [odenv].
    rewrite (denv_extends s2 s3 u ρ He3 HI2 Hu2), (denv_extends s1 s2 u ρ He2 HI1 Hu), HDu.
    rewrite (denv_extends s2 s3 v ρ He3 HI2 Hv2), HDv, HDw. done.
  - (* AQuant *)
    cbn [eval_ast ok_ast] in *. destruct Hok as (Hns&Hok).
    destruct (eval_ast a s) as [ra s1] eqn:Ea.
    destruct (IH s0 s ra s1 HI0 He0 HI Hoff Hmx Hok Ea) as (u&->&HI1&He1&Hoff1&Hmx1&Hu&HDu).
    rewrite (bind_ok _ _ _ _ _ Ea) in Hrun.
    apply quantify_sem in Hrun as (x&->&HI2&He2&Hoff2&Hmx2&Hx&HDx); try done.
    2:{ rewrite Forall_fmap. eapply Forall_impl; [exact Hns|]. intros n Hn. cbn.
        apply (ok_ast_extends_decl s0 s1); [by etrans|done]. }
    exists x. split; [done|]. split; [done|]. split; [by etrans|]. split; [done|].
    split; [done|]. split; [done|]. intros ρ. cbn [asem]. rewrite HDx. apply qbool_ext. exact HDu.
  - (* ASubst *)
    cbn [eval_ast ok_ast] in *. destruct Hok as (Hss&Hok).
    destruct (eval_ast a s) as [ra s1] eqn:Ea.
    destruct (IH s0 s ra s1 HI0 He0 HI Hoff Hmx Hok Ea) as (u&->&HI1&He1&Hoff1&Hmx1&Hu&HDu).
    rewrite (bind_ok _ _ _ _ _ Ea) in Hrun.
    change (rename u (sub_ids ss) s1 = (r, s')) in Hrun.
    apply rename_sem in Hrun as (x&->&HI2&He2&Hoff2&Hmx2&Hx&HDx); try done.
    2:{ intros x y Hxy. unfold sub_ids in Hxy.
        apply elem_of_list_fmap in Hxy as ([o n]&[= -> ->]&Hin).
        rewrite Forall_forall in Hss.
        apply (ok_ast_extends_decl s0 s1 n); [by etrans|]. exact (Hss _ Hin). }
    exists x. split; [done|]. split; [done|]. split; [by etrans|]. split; [done|].
    split; [done|]. split; [done|]. intros ρ. cbn [asem]. rewrite HDx. apply HDu.
Qed.

(** [eval_ast] on a manager satisfying the invariant, dynamic reordering
    disabled: the result denotes the reading [asem] of the tree, every old
    reference is kept ([extends]), the invariant holds afterwards *)
Theorem eval_ast_sem s a r s' :
  Inv s → last_len s = None → max_nodes s = None → ok_ast s a →
  eval_ast a s = (r, s') →
  ∃ u, r = Ok u ∧ Inv s' ∧ extends s s' ∧ last_len s' = None ∧
       max_nodes s' = None ∧ valid s' u ∧
       ∀ ρ, denv s' u ρ = asem s a ρ.
Proof. intros HI Hoff Hmx Hok Hrun. by apply (eval_ast_sem_gen a s s r s'). Qed.

(** [add_expr] on the token spellings: lexing, parsing, evaluation under the
    decorator *)
Theorem add_expr_sem lt rw P spellings ts a s r s' :
  Inv s → last_len s = None → max_nodes s = None →
  lex_all lt rw spellings = Some ts → parse P ts = Some a → ok_ast s a →
  add_expr lt rw P spellings s = (r, s') →
  ∃ u, r = Ok u ∧ Inv s' ∧ extends s s' ∧ last_len s' = None ∧
       max_nodes s' = None ∧ valid s' u ∧
       ∀ ρ, denv s' u ρ = asem s a ρ.
Proof.
  intros HI Hoff Hmx Hlex Hparse Hok Hrun. unfold add_expr in Hrun.
  apply try_to_reorder_inert in Hrun as (r1&s1&Hrun&Hcase).
  set (s0 := s <| rctx := true |>) in *.
  rewrite Hlex in Hrun. cbn [of_opt] in Hrun.
  rewrite (bind_ok _ _ s0 ts s0) in Hrun by done.
  rewrite Hparse in Hrun. cbn [of_opt] in Hrun.
  rewrite (bind_ok _ _ s0 a s0) in Hrun by done.
  apply (eval_ast_sem_gen a s s0) in Hrun as (u&->&HI1&He1&Hoff1&Hmx1&Hu&HD);
    [|done|done|by apply Inv_rctx|done|done|done].
  destruct Hcase as [[? _]|[-> ->]]; [done|].
  exists u. split; [done|]. split; [by apply Inv_rctx|]. split; [done|]. split; [done|].
  split; [done|]. split; [done|]. intros ρ. rewrite <- HD. unfold denv. by rewrite D_rctx.
Qed.

(** ** [to_expr] *)

(** the harness's variable names ["v<k>"] read back *)
Lemma is_digit_pretty_char d : (d < 10)%N → is_digit (pretty_N_char d) = true.
Proof.
  intros Hd.
  assert (d = 0 ∨ d = 1 ∨ d = 2 ∨ d = 3 ∨ d = 4 ∨ d = 5 ∨ d = 6 ∨ d = 7 ∨ d = 8 ∨ d = 9)%N
    as H by lia.
  destruct_or!; subst; reflexivity.
Qed.
Lemma all_digits_pretty_go x s :
  all_chars is_digit (pretty_N_go x s) = all_chars is_digit s.
Proof.
  revert s. induction (N.lt_wf_0 x) as [x _ IH]; intros s.
  assert (x = 0 ∨ 0 < x)%N as [->|Hx] by lia; [by rewrite pretty_N_go_0|].
  rewrite pretty_N_go_step by done. rewrite IH by (by apply N.div_lt).
  cbn [all_chars]. by rewrite is_digit_pretty_char by (by apply N.mod_lt).
Qed.
Lemma pretty_go_nonempty x s : s ≠ "" → pretty_N_go x s ≠ "".
Proof.
  revert s. induction (N.lt_wf_0 x) as [x _ IH]; intros s Hs.
  assert (x = 0 ∨ 0 < x)%N as [->|Hx] by lia; [by rewrite pretty_N_go_0|].
  rewrite pretty_N_go_step by done. apply IH; [by apply N.div_lt|done].
Qed.
Lemma all_digits_pretty (x : N) : all_chars is_digit (pretty x) = true.
Proof.
  unfold pretty, pretty_N. case_decide; [done|]. by rewrite all_digits_pretty_go.
Qed.
Lemma pretty_nonempty (x : N) : pretty x ≠ "".
Proof.
  unfold pretty, pretty_N. case_decide as Hx; [done|].
  rewrite pretty_N_go_step by lia. by apply pretty_go_nonempty.
Qed.

Lemma name_id_var_name v : name_id (var_name v) = Some v.
Proof.
  unfold var_name. change (pretty v) with (pretty (N.of_nat v)).
  change ("v" +:+ pretty (N.of_nat v)) with (String "v"%char (pretty (N.of_nat v))).
  cbn [name_id]. rewrite all_digits_pretty.
  rewrite bool_decide_false by apply pretty_nonempty. cbn [andb negb].
  rewrite digits_val_pretty. f_equal. lia.
Qed.
Lemma name_var_name v : name_or_undeclared (var_name v) = v.
Proof. unfold name_or_undeclared. by rewrite name_id_var_name. Qed.

(** [to_expr_rec] producing the syntax tree instead of its text *)
Fixpoint to_expr_ast (fuel : nat) (u : Z) : MS ast :=
  match fuel with
  | O => raise EFuel
  | S f =>
      if decide (u = 1)%Z then ret (ABool true) else
      if decide (u = -1)%Z then ret (ABool false) else
      t <- getsuccZ u ;;
      assert (negb (is_term t)) ;;;
      s <- get ;;
      v <- of_opt EKey (lvl2var s !! t_lvl t) ;;
      p <- to_expr_ast f (t_lo t) ;;
      q <- to_expr_ast f (t_hi t) ;;
      let e := if bool_decide (p = ABool false ∧ q = ABool true) then AVar (var_name v)
               else AIte (AVar (var_name v)) q p in
      ret (if decide (u < 0)%Z then AOp1 "!" e else e)
  end.

(** the text of such a tree, as [to_expr_rec] writes it *)
Fixpoint expr_text (a : ast) : string :=
  match a with
  | ABool b => if b then "TRUE" else "FALSE"
  | AVar n => n
  | AOp1 _ e => "(~ " +:+ expr_text e +:+ ")"
  | AIte g q p => "ite(" +:+ expr_text g +:+ ", " +:+ expr_text q +:+ ", " +:+ expr_text p +:+ ")"
  | _ => ""
  end.

(** the shapes [to_expr_ast] produces *)
Fixpoint te_shape (a : ast) : Prop :=
  match a with
  | ABool _ => True
  | AVar n => ∃ v, n = var_name v
  | AOp1 op e => op = "!" ∧ te_shape e
  | AIte g q p => (∃ v, g = AVar (var_name v)) ∧ te_shape q ∧ te_shape p
  | _ => False
  end.

Lemma expr_text_false a : te_shape a → expr_text a = "FALSE" ↔ a = ABool false.
Proof.
  destruct a as [[]| | | | | | |]; cbn [te_shape expr_text]; try done.
  - intros [v ->]. unfold var_name. split; [|done].
    change ("v" +:+ pretty v) with (String "v"%char (pretty v)). done.
Qed.
Lemma expr_text_true a : te_shape a → expr_text a = "TRUE" ↔ a = ABool true.
Proof.
  destruct a as [[]| | | | | | |]; cbn [te_shape expr_text]; try done.
  - intros [v ->]. unfold var_name. split; [|done].
    change ("v" +:+ pretty v) with (String "v"%char (pretty v)). done.
Qed.

(** [to_expr_rec] is [to_expr_ast] followed by writing the text *)
Lemma to_expr_rec_text fuel : ∀ u s,
  match to_expr_ast fuel u s with
  | (Ok a, s') => te_shape a ∧ to_expr_rec fuel u s = (Ok (expr_text a), s')
  | (Err e, s') => to_expr_rec fuel u s = (Err e, s')
  end.
Proof.
  induction fuel as [|f IH]; intros u s; [done|].
  cbn [to_expr_ast to_expr_rec].
  destruct (decide (u = 1)%Z); [done|]. destruct (decide (u = -1)%Z); [done|].
  destruct (getsuccZ u s) as [[t|e] s1] eqn:Et; cycle 1.
  { by rewrite !(bind_err _ _ _ _ _ Et). }
  rewrite !(bind_ok _ _ _ _ _ Et).
  destruct (assert (S:=st) (negb (is_term t)) s1) as [[[]|e] s2] eqn:Ea; cycle 1.
  { by rewrite !(bind_err _ _ _ _ _ Ea). }
  rewrite !(bind_ok _ _ _ _ _ Ea). cbn [bind get].
  destruct (of_opt (S:=st) EKey (lvl2var s2 !! t_lvl t) s2) as [[v|e] s3] eqn:Ev; cycle 1.
  { by rewrite !(bind_err _ _ _ _ _ Ev). }
  rewrite !(bind_ok _ _ _ _ _ Ev).
  pose proof (IH (t_lo t) s3) as IHp.
  destruct (to_expr_ast f (t_lo t) s3) as [[p|e] s4] eqn:Ep; cycle 1.
  { rewrite (bind_err _ _ _ _ _ Ep). by rewrite (bind_err _ _ _ _ _ IHp). }
  destruct IHp as [Hsp IHp].
  rewrite (bind_ok _ _ _ _ _ Ep), (bind_ok _ _ _ _ _ IHp).
  pose proof (IH (t_hi t) s4) as IHq.
  destruct (to_expr_ast f (t_hi t) s4) as [[q|e] s5] eqn:Eq; cycle 1.
  { rewrite (bind_err _ _ _ _ _ Eq). by rewrite (bind_err _ _ _ _ _ IHq). }
  destruct IHq as [Hsq IHq].
  rewrite (bind_ok _ _ _ _ _ Eq), (bind_ok _ _ _ _ _ IHq).
  unfold ret.
  assert (Hb : bool_decide (expr_text p = "FALSE" ∧ expr_text q = "TRUE")
             = bool_decide (p = ABool false ∧ q = ABool true)).
  { apply bool_decide_ext. by rewrite expr_text_false, expr_text_true. }
  rewrite Hb. destruct (bool_decide (p = ABool false ∧ q = ABool true)).
  - destruct (decide (u < 0)%Z); cbn [te_shape expr_text]; (split; [|done]); eauto.
  - destruct (decide (u < 0)%Z); cbn [te_shape expr_text]; (split; [|done]); eauto 10.
Qed.

Lemma ok_not : is_Some (conn_sem "!") ∧ "!" ∈ py_vocab ∧ arity_ok "!" None None = true.
Proof.
  split; [by eexists|]. split; [|done]. apply (bool_decide_eq_true_1 _). by vm_compute.
Qed.

(** the tree of a reference: accepted by the evaluator and meaning the
    function of the reference; the manager is only read *)
Lemma to_expr_ast_spec fuel : ∀ s u,
  Inv s → valid s u → nvars s - lvl_of s u < fuel →
  ∃ a, to_expr_ast fuel u s = (Ok a, s) ∧ ok_ast s a ∧ ∀ ρ, asem s a ρ = denv s u ρ.
Proof.
  induction fuel as [|f IH]; intros s u HI Hu Hfuel; [lia|].
  cbn [to_expr_ast].
  destruct (node_cases s HI u Hu) as [[E El]|(t&Ht&Hn1&Hlo&Hl&Hln&Hvl&Hvh&Hhp&Hll&Hlh&Hne)].
  { destruct (absn_1 u E (proj1 Hu)) as [->| ->].
    - rewrite decide_True by done. exists (ABool true). split; [done|]. split; [done|].
      intros ρ. unfold denv. by rewrite (D_1 s HI).
    - rewrite decide_False by done. rewrite decide_True by done.
      exists (ABool false). split; [done|]. split; [done|].
      intros ρ. unfold denv. by rewrite (D_m1 s HI). }
  rewrite decide_False by (intros ->; done). rewrite decide_False by (intros ->; done).
  rewrite (bind_ok _ _ _ _ _ (getsuccZ_ok s u t (proj1 Hu) Ht)).
  assert (Hnt : negb (is_term t) = true).
  { unfold is_term. by rewrite bool_decide_false. }
  rewrite Hnt. cbn [assert]. rewrite (bind_ok _ _ s tt s) by done. cbn [bind get].
  destruct (proj1 (inv_lvls _ HI (t_lvl t)) Hln) as [v Hv]. rewrite Hv. cbn [of_opt].
  rewrite (bind_ok _ _ s v s) by done.
  destruct (IH s (t_lo t) HI Hvl) as (p&Ep&Hokp&Hp); [lia|].
  destruct (IH s (t_hi t) HI Hvh) as (q&Eq&Hokq&Hq); [lia|].
  rewrite (bind_ok _ _ _ _ _ Ep), (bind_ok _ _ _ _ _ Eq).
  set (e := if bool_decide (p = ABool false ∧ q = ABool true) then AVar (var_name v)
            else AIte (AVar (var_name v)) q p).
  assert (Hdecl : declared s (var_name v)).
  { unfold declared. rewrite name_var_name. exists (t_lvl t). by apply (inv_vars _ HI). }
  assert (Hoke : ok_ast s e).
  { subst e. case_bool_decide; cbn [ok_ast]; [done|]. by split_and!. }
  assert (He : ∀ ρ, asem s e ρ = if ρ v then denv s (t_hi t) ρ else denv s (t_lo t) ρ).
  { intros ρ. subst e. case_bool_decide as Hpq; cbn [asem]; rewrite name_var_name.
    - destruct Hpq as [-> ->]. rewrite <- Hp, <- Hq. cbn [asem]. by destruct (ρ v).
    - by rewrite Hp, Hq. }
  eexists. split; [reflexivity|].
  assert (HDu : ∀ ρ, denv s u ρ = xorb (bool_decide (u < 0)%Z)
                         (if ρ v then denv s (t_hi t) ρ else denv s (t_lo t) ρ)).
  { intros ρ. unfold denv. rewrite (D_step s HI u _ t Hu Ht Hn1). by rewrite Hv. }
  destruct (decide (u < 0)%Z) as [Hneg|Hpos].
  - split.
    + cbn [ok_ast]. destruct ok_not as (?&?&?). by split_and!.
    + intros ρ. cbn [asem]. rewrite HDu, He. rewrite bool_decide_true by done. reflexivity.
  - split; [done|]. intros ρ. rewrite HDu, He. rewrite bool_decide_false by done.
    by destruct (if ρ v then _ else _).
Qed.

(** AST-level round trip: evaluating the tree of [u] returns [u] itself.
    (The evaluation may add the plain variable nodes [v] and cache entries,
    so the state is an extension, not the same state.) *)
Theorem to_expr_roundtrip_ast s u :
  Inv s → valid s u → last_len s = None →
  ∃ a, to_expr_ast (S (S (nvars s))) u s = (Ok a, s) ∧
       to_expr u s = (Ok (expr_text a), s) ∧
       ∀ r s', max_nodes s = None → eval_ast a s = (r, s') →
         r = Ok u ∧ Inv s' ∧ extends s s' ∧ last_len s' = None ∧ max_nodes s' = None.
Proof.
  intros HI Hu Hoff.
  destruct (to_expr_ast_spec (S (S (nvars s))) s u HI Hu) as (a&Ea&Hok&Hsem); [lia|].
  exists a. split; [done|]. split.
  { unfold to_expr. cbn [bind get]. unfold ensure. rewrite (proj2 (mem_valid s u) Hu).
    rewrite (bind_ok _ _ s tt s) by done.
    pose proof (to_expr_rec_text (S (S (nvars s))) u s) as H. rewrite Ea in H. by destruct H. }
  intros r s' Hmx Hrun.
  destruct (eval_ast_sem s a r s' HI Hoff Hmx Hok Hrun) as (x&->&HI'&He&Hoff'&Hmx'&Hx&HD).
  split; [|done]. f_equal.
  apply (canonical_names s' HI'); [done|by apply (valid_extends s s')|].
  intros ρ. rewrite HD, Hsem. symmetry. by apply denv_extends.
Qed.

(** ** the text of [to_expr] as spellings and tokens.
    The character-level lexer (PLY regular expressions) is not part of the
    model; [te_spellings a] is the list of lexemes of [expr_text a]. *)
Fixpoint te_spellings (a : ast) : list string :=
  match a with
  | ABool b => [if b then "TRUE" else "FALSE"]
  | AVar n => [n]
  | AOp1 _ e => "(" :: "~" :: te_spellings e ++ [")"]
  | AIte g q p =>
      "ite" :: "(" :: te_spellings g ++ "," :: te_spellings q ++ "," :: te_spellings p ++ [")"]
  | _ => []
  end.

(** the printer policy of [to_expr]: negations in parentheses, nothing else *)
Definition par_te (k : nat) (a : ast) : bool :=
  match a with AOp1 _ _ => true | _ => par_min code_prec code_tyof k a end.
Definition te_tokens : ast → list token := print_gen code_prec code_tyof par_te.

Lemma parse_te_tokens a : wf_ast code_tyof a → parse code_prec (te_tokens a) = Some a.
Proof.
  intros Hwf. apply parse_print_gen; [apply code_prec_wf| |done].
  intros k x _ Hp. destruct x; simpl in Hp; try done;
    unfold par_min in Hp; apply bool_decide_eq_false in Hp; lia.
Qed.

Lemma te_shape_wf a : te_shape a → wf_ast code_tyof a.
Proof.
  induction a as [b|n|z|op a IH|op a1 IH1 a2 IH2|a IHa b IHb c IHc|op ns a IH|ss a IH];
    cbn [te_shape wf_ast]; try done.
  - intros [_ H]. by apply IH.
  - intros ([v ->]&Hq&Hp). split; [done|]. split; [by apply IHb|by apply IHc].
Qed.

Lemma lex_all_app lt rw l1 l2 :
  lex_all lt rw (l1 ++ l2) =
  match lex_all lt rw l1, lex_all lt rw l2 with
  | Some a, Some b => Some (a ++ b)%list
  | _, _ => None
  end.
Proof.
  induction l1 as [|sp l1 IH]; cbn [lex_all app].
  - by destruct (lex_all lt rw l2).
  - rewrite IH. destruct (lex1 lt rw sp); [|done].
    destruct (lex_all lt rw l1); [|done]. by destruct (lex_all lt rw l2).
Qed.

Lemma all_chars_impl (p q : ascii → bool) s :
  (∀ c, p c = true → q c = true) → all_chars p s = true → all_chars q s = true.
Proof.
  intros H. induction s as [|c s IH]; [done|]. cbn [all_chars].
  rewrite !andb_true_iff. intros [? ?]. split; [by apply H|by apply IH].
Qed.

Lemma lex1_var_name v :
  lex1 lex_alias reserved_words (var_name v) = Some (Tok "NAME" (var_name v)).
Proof.
  unfold var_name. change (pretty v) with (pretty (N.of_nat v)).
  change ("v" +:+ pretty (N.of_nat v)) with (String "v"%char (pretty (N.of_nat v))).
  cbn [lex1]. change (is_name_start "v"%char) with true. cbv iota.
  rewrite (all_chars_impl is_digit is_name_char).
  2:{ intros c Hc. unfold is_name_char. rewrite Hc. by rewrite orb_true_r. }
  2:{ apply all_digits_pretty. }
  cbn [negb]. cbv iota.
  assert (list_find (fun kv : string * string =>
            bool_decide (kv.1 = String "v"%char (pretty (N.of_nat v)))) reserved_words = None) as ->.
  { apply list_find_None. unfold reserved_words.
    repeat (apply Forall_cons; split;
            [intros H; apply bool_decide_unpack in H; discriminate H|]).
    apply Forall_nil_2. }
  reflexivity.
Qed.

Lemma wrap_te k e : te_shape e → k ≤ S (bp code_prec "NOT") →
  wrap (par_te k e) (pr code_prec code_tyof par_te e) = te_tokens e.
Proof.
  intros Hs Hk. unfold te_tokens, print_gen. f_equal.
  destruct e; cbn [te_shape] in Hs; try done; unfold par_te, par_min; cbn [plev];
    rewrite !bool_decide_false by lia; done.
Qed.

Lemma lex_te a : te_shape a → lex (te_spellings a) = Some (te_tokens a).
Proof.
  induction a as [b|n|z|op a IH|op a1 IH1 a2 IH2|a IHa b IHb c IHc|op ns a IH|ss a IH];
    cbn [te_shape]; try done.
  - intros _. by destruct b.
  - intros [v ->]. unfold lex. cbn [te_spellings lex_all]. by rewrite lex1_var_name.
  - intros [-> Hs]. specialize (IH Hs). unfold lex in *. cbn [te_spellings].
    change (("(" :: "~" :: te_spellings a ++ [")"])%list) with ((["("; "~"] ++ te_spellings a ++ [")"])%list).
    rewrite !lex_all_app, IH.
    change (lex_all lex_alias reserved_words ["("; "~"])
      with (Some [Tok "LPAREN" "("; Tok "NOT" "!"]).
    change (lex_all lex_alias reserved_words [")"]) with (Some [Tok "RPAREN" ")"]).
    cbv iota. f_equal. unfold te_tokens at 2, print_gen. cbn [par_te wrap pr].
    rewrite (wrap_te _ a Hs) by lia. reflexivity.
  - intros ([v ->]&Hq&Hp). specialize (IHb Hq). specialize (IHc Hp).
    unfold lex in *. cbn [te_spellings].
    change (("ite" :: "(" :: [var_name v] ++ "," :: te_spellings b ++ "," :: te_spellings c ++ [")"])%list)
      with ((["ite"; "("] ++ [var_name v] ++ [","] ++ te_spellings b ++ [","] ++ te_spellings c ++ [")"])%list).
    rewrite !lex_all_app, IHb, IHc.
    change (lex_all lex_alias reserved_words ["ite"; "("])
      with (Some [Tok "ITE" "ite"; Tok "LPAREN" "("]).
    change (lex_all lex_alias reserved_words [","]) with (Some [Tok "COMMA" ","]).
    change (lex_all lex_alias reserved_words [")"]) with (Some [Tok "RPAREN" ")"]).
    cbn [lex_all]. rewrite lex1_var_name. cbv iota. reflexivity.
Qed.

(** [add_expr(to_expr(u)) = u] on the lexemes of the text: lexing, parsing
    and evaluation under the decorator return the very reference [u] *)
Theorem to_expr_roundtrip s u :
  Inv s → valid s u → last_len s = None →
  ∃ a, to_expr u s = (Ok (expr_text a), s) ∧
       lex (te_spellings a) = Some (te_tokens a) ∧
       parse code_prec (te_tokens a) = Some a ∧
       ∀ r s', max_nodes s = None → add_expr lex_alias reserved_words code_prec (te_spellings a) s = (r, s') →
         r = Ok u ∧ Inv s' ∧ extends s s' ∧ last_len s' = None ∧ max_nodes s' = None.
Proof.
  intros HI Hu Hoff.
  destruct (to_expr_ast_spec (S (S (nvars s))) s u HI Hu) as (a&Ea&Hok&Hsem); [lia|].
  pose proof (to_expr_rec_text (S (S (nvars s))) u s) as Ht. rewrite Ea in Ht.
  destruct Ht as [Hshape Ht].
  exists a. split.
  { unfold to_expr. cbn [bind get]. unfold ensure. rewrite (proj2 (mem_valid s u) Hu).
    by rewrite (bind_ok _ _ s tt s) by done. }
  pose proof (lex_te a Hshape) as Hlex.
  pose proof (parse_te_tokens a (te_shape_wf a Hshape)) as Hparse.
  split; [done|]. split; [done|].
  intros r s' Hmx Hrun.
  destruct (add_expr_sem _ _ _ _ _ a s r s' HI Hoff Hmx Hlex Hparse Hok Hrun)
    as (x&->&HI'&He&Hoff'&Hmx'&Hx&HD).
  split; [|done]. f_equal.
  apply (canonical_names s' HI'); [done|by apply (valid_extends s s')|].
  intros ρ. rewrite HD, Hsem. symmetry. by apply denv_extends.
Qed.

(** ** a checker for [ok_ast] (to discharge the hypothesis by computation) *)
Fixpoint ok_astb (s0 : st) (a : ast) : bool :=
  let decl n := bool_decide (is_Some (vars s0 !! name_or_undeclared n)) in
  match a with
  | ABool _ => true
  | AVar n => decl n
  | ANum z => mem z s0
  | AOp1 op a =>
      match conn_sem op with Some _ => true | None => false end &&
      bool_decide (op ∈ py_vocab) && arity_ok op None None && ok_astb s0 a
  | AOp2 op a b =>
      match conn_sem op with Some _ => true | None => false end &&
      bool_decide (op ∈ py_vocab) && arity_ok op (Some 1%Z) None &&
      ok_astb s0 a && ok_astb s0 b
  | AIte a b c => ok_astb s0 a && ok_astb s0 b && ok_astb s0 c
  | AQuant _ ns a => forallb decl ns && ok_astb s0 a
  | ASubst subs a => forallb (fun on => decl on.2) subs && ok_astb s0 a
  end.

Lemma ok_astb_ok s0 a : ok_astb s0 a = true → ok_ast s0 a.
Proof.
  induction a as [b|n|z|op a IH|op a1 IH1 a2 IH2|a IHa b IHb c IHc|op ns a IH|ss a IH];
    cbn [ok_astb ok_ast]; rewrite ?andb_true_iff.
  - done.
  - by intros ?%bool_decide_eq_true.
  - by intros ?%mem_valid.
  - intros [[[Hc ?%bool_decide_eq_true] ?] ?]. split_and!; try done; [|by apply IH].
    destruct (conn_sem op); [by eexists|done].
  - intros [[[[Hc ?%bool_decide_eq_true] ?] ?] ?].
    split_and!; try done; [|by apply IH1|by apply IH2].
    destruct (conn_sem op); [by eexists|done].
  - intros [[? ?] ?]. split_and!; [by apply IHa|by apply IHb|by apply IHc].
  - intros [Hns ?]. split; [|by apply IH]. rewrite forallb_forall in Hns.
    apply Forall_forall. intros n Hn. apply elem_of_list_In in Hn.
    by apply Hns, bool_decide_eq_true in Hn.
  - intros [Hss ?]. split; [|by apply IH]. rewrite forallb_forall in Hss.
    apply Forall_forall. intros on Hn. apply elem_of_list_In in Hn.
    by apply Hss, bool_decide_eq_true in Hn.
Qed.

(** the operator values the lexer produces, except [=], are accepted *)
Lemma canonical_values_ok :
  forallb (fun v => match conn_sem v with Some _ => true | None => false end &&
                    bool_decide (v ∈ py_vocab) && arity_ok v (Some 1%Z) None)
          ["&"; "|"; "#"; "^"; "=>"; "<->"; "-"] = true ∧
  (match conn_sem "!" with Some _ => true | None => false end &&
   bool_decide ("!" ∈ py_vocab) && arity_ok "!" None None) = true ∧
  conn_sem "=" = None.
Proof. by vm_compute. Qed.

(** ** the text of [to_expr], split into lexemes by [split_formula] (blanks
    separate, parentheses and commas stand alone — the hand-written splitter
    of [ParserTablesOk]; PLY's regular expressions are not modelled) *)
Lemma sapp_cons x (a b : string) : String x a +:+ b = String x (a +:+ b).
Proof. reflexivity. Qed.
Lemma sapp_assoc (a b c : string) : (a +:+ b) +:+ c = a +:+ (b +:+ c).
Proof. induction a as [|x a IH]; [done|]. rewrite !sapp_cons. by f_equal. Qed.
Lemma sapp_nil_r (a : string) : a +:+ "" = a.
Proof. induction a as [|x a IH]; [done|]. rewrite sapp_cons. by f_equal. Qed.

Lemma string_rev_app_app s t u :
  string_rev_app (string_rev_app s t) u = string_rev_app t (s +:+ u).
Proof.
  revert t u. induction s as [|a s IH]; intros t u; [done|].
  cbn [string_rev_app]. rewrite IH. done.
Qed.
Lemma string_rev_involutive s : string_rev (string_rev s) = s.
Proof. unfold string_rev. rewrite string_rev_app_app. apply sapp_nil_r. Qed.

Definition plain (c : ascii) : bool :=
  negb (bool_decide (String c "" = " ")) && negb (bool_decide (String c "" ∈ ["("; ")"; ","])).
Definition delim_start (s : string) : Prop :=
  match s with "" => True | String c _ => plain c = false end.

Lemma word_go w : ∀ rest cur acc, all_chars plain w = true →
  split_go (w +:+ rest) cur acc = split_go rest (string_rev_app w cur) acc.
Proof.
  induction w as [|c w IH]; intros rest cur acc Hw; [done|].
  cbn [all_chars] in Hw. apply andb_true_iff in Hw as [Hc Hw].
  unfold plain in Hc. apply andb_true_iff in Hc as [H1%negb_true_iff H2%negb_true_iff].
  rewrite sapp_cons.
  cbn [split_go]. rewrite H1, H2. by rewrite IH.
Qed.

Lemma string_rev_nonempty w : w ≠ "" → string_rev w ≠ "".
Proof. intros Hw E. apply Hw. rewrite <- (string_rev_involutive w), E. done. Qed.

Lemma word_then w rest acc :
  all_chars plain w = true → w ≠ "" → delim_start rest →
  split_go (w +:+ rest) "" acc = split_go rest "" (w :: acc).
Proof.
  intros Hw Hne Hd. rewrite word_go by done. fold (string_rev w).
  pose proof (string_rev_nonempty w Hne) as Hr.
  destruct rest as [|d rest]; cbn [split_go].
  - rewrite bool_decide_false by done. by rewrite string_rev_involutive.
  - rewrite (bool_decide_false (string_rev w = "")) by done.
    rewrite string_rev_involutive. cbn [delim_start] in Hd. unfold plain in Hd.
    destruct (bool_decide (String d "" = " ")); [done|].
    destruct (bool_decide (String d "" ∈ ["("; ")"; ","])); [done|]. done.
Qed.

Lemma sg_space X acc : split_go (String " "%char X) "" acc = split_go X "" acc.
Proof. reflexivity. Qed.
Lemma sg_lparen X acc : split_go (String "("%char X) "" acc = split_go X "" ("(" :: acc).
Proof. reflexivity. Qed.
Lemma sg_rparen X acc : split_go (String ")"%char X) "" acc = split_go X "" (")" :: acc).
Proof. reflexivity. Qed.
Lemma sg_comma X acc : split_go (String ","%char X) "" acc = split_go X "" ("," :: acc).
Proof. reflexivity. Qed.

Lemma plain_digit c : is_digit c = true → plain c = true.
Proof. destruct c as [[] [] [] [] [] [] [] []]; vm_compute; done. Qed.

Lemma var_name_word v : all_chars plain (var_name v) = true ∧ var_name v ≠ "".
Proof.
  unfold var_name. change (pretty v) with (pretty (N.of_nat v)).
  change ("v" +:+ pretty (N.of_nat v)) with (String "v"%char (pretty (N.of_nat v))).
  split; [|done]. cbn [all_chars]. change (plain "v"%char) with true.
  apply (all_chars_impl is_digit plain); [apply plain_digit|apply all_digits_pretty].
Qed.

Lemma split_te a : te_shape a → ∀ rest acc, delim_start rest →
  split_go (expr_text a +:+ rest) "" acc = split_go rest "" (rev (te_spellings a) ++ acc).
Proof.
  induction a as [b|n|z|op a IH|op a1 IH1 a2 IH2|a IHa b IHb c IHc|op ns a IH|ss a IH];
    cbn [te_shape]; try done; intros Hs rest acc Hd.
  - destruct b; cbn [expr_text te_spellings]; by rewrite word_then.
  - destruct Hs as [v ->]. cbn [expr_text te_spellings].
    destruct (var_name_word v). by rewrite word_then.
  - destruct Hs as [-> Hs]. cbn [expr_text te_spellings].
    rewrite !sapp_assoc.
    change ("(~ " +:+ expr_text a +:+ ")" +:+ rest)
      with (String "("%char ("~" +:+ String " "%char (expr_text a +:+ String ")"%char rest))).
    rewrite sg_lparen. rewrite word_then by done. rewrite sg_space.
    rewrite IH by done. rewrite sg_rparen.
    f_equal. repeat (progress (simpl; rewrite ?rev_app_distr, <- ?app_assoc)); done.
  - destruct Hs as ([v ->]&Hq&Hp). cbn [expr_text te_spellings].
    rewrite !sapp_assoc.
    change ("ite(" +:+ var_name v +:+ ", " +:+ expr_text b +:+ ", " +:+ expr_text c +:+ ")" +:+ rest)
      with ("ite" +:+ String "("%char (var_name v +:+ String ","%char (String " "%char
             (expr_text b +:+ String ","%char (String " "%char
               (expr_text c +:+ String ")"%char rest)))))).
    rewrite word_then by done. rewrite sg_lparen.
    destruct (var_name_word v). rewrite word_then by done.
    rewrite sg_comma, sg_space. rewrite IHb by done. rewrite sg_comma, sg_space.
    rewrite IHc by done. rewrite sg_rparen.
    f_equal. repeat (progress (simpl; rewrite ?rev_app_distr, <- ?app_assoc)); done.
Qed.

Lemma split_formula_te a : te_shape a → split_formula (expr_text a) = te_spellings a.
Proof.
  intros Hs. unfold split_formula. rewrite <- (sapp_nil_r (expr_text a)).
  rewrite split_te by done. cbn [split_go]. rewrite bool_decide_true by done.
  rewrite app_nil_r. apply rev_involutive.
Qed.

(** [add_expr(to_expr(u))] on the text itself *)
Theorem to_expr_roundtrip_text s u :
  Inv s → valid s u → last_len s = None →
  ∃ txt, to_expr u s = (Ok txt, s) ∧
    ∀ r s', max_nodes s = None → add_expr lex_alias reserved_words code_prec (split_formula txt) s = (r, s') →
      r = Ok u ∧ Inv s' ∧ extends s s' ∧ last_len s' = None ∧ max_nodes s' = None.
Proof.
  intros HI Hu Hoff.
  destruct (to_expr_ast_spec (S (S (nvars s))) s u HI Hu) as (a&Ea&Hok&Hsem); [lia|].
  pose proof (to_expr_rec_text (S (S (nvars s))) u s) as Ht. rewrite Ea in Ht.
  destruct Ht as [Hshape Ht].
  exists (expr_text a). split.
  { unfold to_expr. cbn [bind get]. unfold ensure. rewrite (proj2 (mem_valid s u) Hu).
    by rewrite (bind_ok _ _ s tt s) by done. }
  rewrite (split_formula_te a Hshape).
  pose proof (lex_te a Hshape) as Hlex.
  pose proof (parse_te_tokens a (te_shape_wf a Hshape)) as Hparse.
  intros r s' Hmx Hrun.
  destruct (add_expr_sem _ _ _ _ _ a s r s' HI Hoff Hmx Hlex Hparse Hok Hrun)
    as (x&->&HI'&He&Hoff'&Hmx'&Hx&HD).
  split; [|done]. f_equal.
  apply (canonical_names s' HI'); [done|by apply (valid_extends s s')|].
  intros ρ. rewrite HD, Hsem. symmetry. by apply denv_extends.
Qed.
