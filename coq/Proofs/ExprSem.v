(** * ExprSem: [eval_ast] (the [_Translator] of dd/_parser.py run on a
      [dd.bdd] manager) computes the function obtained by reading the syntax
      tree with the documented operator meanings. *)
From stdpp Require Import strings pretty.
From DD Require Export C01proof Quantify Subst Total ParsePrint.
Local Open Scope string_scope.

(** ** the reading of a syntax tree *)

(** [∃ / ∀] over the values of a list of variables *)
Fixpoint qbool (fa : bool) (xs : list nat) (f : (nat → bool) → bool) (ρ : nat → bool) : bool :=
  match xs with
  | [] => f ρ
  | x :: xs =>
      if fa then qbool fa xs f (upd ρ x true) && qbool fa xs f (upd ρ x false)
      else qbool fa xs f (upd ρ x true) || qbool fa xs f (upd ρ x false)
  end.

(** [\S new/old, ...]: the variable that replaces [x] (the last binding of a
    name wins, as in a Python dict) *)
Definition ren (dvars : list (nat * nat)) (x : nat) : nat :=
  default x ((list_to_map (reverse dvars) : gmap nat nat) !! x).

Definition sub_ids (subs : list (string * string)) : list (nat * nat) :=
  (fun '(old, new) => (name_or_undeclared old, name_or_undeclared new)) <$> subs.

(** [s0] is the manager at the time of the call: [@n] means the existing
    reference [n] *)
Fixpoint asem (s0 : st) (a : ast) (ρ : nat → bool) : bool :=
  match a with
  | ABool b => b
  | AVar n => ρ (name_or_undeclared n)
  | ANum z => denv s0 z ρ
  | AOp1 op a =>
      match conn_sem op with Some g => g (asem s0 a ρ) false false | None => false end
  | AOp2 op a b =>
      match conn_sem op with Some g => g (asem s0 a ρ) (asem s0 b ρ) false | None => false end
  | AIte a b c => if asem s0 a ρ then asem s0 b ρ else asem s0 c ρ
  | AQuant op ns a =>
      qbool (bool_decide (op = "\A")) (name_or_undeclared <$> ns) (asem s0 a) ρ
  | ASubst subs a => asem s0 a (fun x => ρ (ren (sub_ids subs) x))
  end.

Definition declared (s0 : st) (n : string) : Prop :=
  is_Some (vars s0 !! name_or_undeclared n).

(** trees that [eval_ast] accepts: declared variables, existing references,
    operator symbols of the vocabulary with the right number of operands *)
Fixpoint ok_ast (s0 : st) (a : ast) : Prop :=
  match a with
  | ABool _ => True
  | AVar n => declared s0 n
  | ANum z => valid s0 z
  | AOp1 op a =>
      is_Some (conn_sem op) ∧ op ∈ py_vocab ∧ arity_ok op None None = true ∧ ok_ast s0 a
  | AOp2 op a b =>
      is_Some (conn_sem op) ∧ op ∈ py_vocab ∧ arity_ok op (Some 1%Z) None = true ∧
      ok_ast s0 a ∧ ok_ast s0 b
  | AIte a b c => ok_ast s0 a ∧ ok_ast s0 b ∧ ok_ast s0 c
  | AQuant op ns a => Forall (declared s0) ns ∧ ok_ast s0 a
  | ASubst subs a => Forall (fun on => declared s0 on.2) subs ∧ ok_ast s0 a
  end.

(** the propositional fragment *)
Fixpoint prop_ast (a : ast) : Prop :=
  match a with
  | ABool _ | AVar _ | ANum _ => True
  | AOp1 _ a => prop_ast a
  | AOp2 _ a b => prop_ast a ∧ prop_ast b
  | AIte a b c => prop_ast a ∧ prop_ast b ∧ prop_ast c
  | AQuant _ _ _ | ASubst _ _ => False
  end.

(** ** [var] *)
Lemma var_sem s n j r s' :
  Inv s → last_len s = None → vars s !! n = Some j → var n s = (r, s') →
  ∃ u, r = Ok u ∧ Inv s' ∧ extends s s' ∧ last_len s' = None ∧ valid s' u ∧
       ∀ ρ, denv s' u ρ = ρ n.
Proof.
  intros HI Hoff Hj Hrun. unfold var in Hrun.
  apply try_to_reorder_inert in Hrun as (r1&s1&Hrun&Hcase).
  set (s0 := s <| rctx := true |>) in *.
  assert (HI0 : Inv s0) by (by apply Inv_rctx).
  cbn [bind get] in Hrun. change (vars s0) with (vars s) in Hrun. rewrite Hj in Hrun.
  assert (Hjn : j < nvars s0).
  { apply (inv_lvls _ HI). exists n. by apply (inv_vars _ HI). }
  apply find_or_add_spec in Hrun as (HI1&He1&Hf1&Hr); try done.
  2: by apply valid_m1. 2: by apply valid_1.
  2: by rewrite (lvl_term s0 HI0). 2: by rewrite (lvl_term s0 HI0).
  destruct r1 as [u|e]; cycle 1.
  { destruct Hr as (_&[l Hl]&_). change (last_len s0) with (last_len s) in Hl. congruence. }
  destruct Hcase as [[? _]|[-> ->]]; [done|].
  destruct Hr as (Hu&_&HD). exists u.
  split; [done|]. split; [by apply Inv_rctx|]. split; [done|]. split.
  { cbn. rewrite (frame_same _ _ Hf1). done. }
  split; [done|]. intros ρ. unfold denv. rewrite D_rctx, HD.
  rewrite (D_1 s0 HI0), (D_m1 s0 HI0).
  destruct He1 as (_&_&El). cbn. rewrite <- El. change (lvl2var s0) with (lvl2var s).
  rewrite (proj1 (inv_vars _ HI n j) Hj). by destruct (ρ n).
Qed.

Lemma arity_some op v v' : arity_ok op (Some v) None = arity_ok op (Some v') None.
Proof.
  unfold arity_ok. repeat case_bool_decide; try done; naive_solver.
Qed.

(** [apply] with the disabled reordering kept disabled *)
Lemma apply_sem s op u v w r s' f :
  Inv s → last_len s = None →
  op ∈ py_vocab → conn_sem op = Some f →
  valid s u → ovalid s v → ovalid s w → arity_ok op v w = true →
  apply op u v w s = (r, s') →
  ∃ x, r = Ok x ∧ Inv s' ∧ extends s s' ∧ last_len s' = None ∧ valid s' x ∧
    ∀ ρ, denv s' x ρ = f (denv s u ρ) (odenv s v ρ) (odenv s w ρ).
Proof.
  intros HI Hoff Hop Hf Hu Hv Hw Har Hrun.
  destruct (nrf_apply op u v w s r s' Hoff Hrun) as [Hoff' _].
  destruct (apply_correct_lemma s op u v w r s' f HI Hoff Hop Hf Hu Hv Hw Har Hrun)
    as (x&->&HI'&He&Hx&_&HD).
  by exists x.
Qed.

(** ** the propositional fragment, constants, [@n] *)
Definition eval_post (s0 s : st) (a : ast) (r : res Z) (s' : st) : Prop :=
  ∃ u, r = Ok u ∧ Inv s' ∧ extends s s' ∧ last_len s' = None ∧ valid s' u ∧
       ∀ ρ, denv s' u ρ = asem s0 a ρ.

Lemma ok_ast_extends_decl s0 s n : extends s0 s → declared s0 n → declared s n.
Proof. intros (_&E&_). unfold declared. by rewrite E. Qed.

Lemma eval_ast_prop a : ∀ s0 s r s',
  Inv s0 → extends s0 s → Inv s → last_len s = None →
  prop_ast a → ok_ast s0 a →
  eval_ast a s = (r, s') → eval_post s0 s a r s'.
Proof.
  induction a as [b|n|z|op a IH|op a1 IH1 a2 IH2|a IHa b IHb c IHc|op ns a IH|ss a IH];
    intros s0 s r s' HI0 He0 HI Hoff Hp Hok Hrun; [| | | | | |done|done].
  - (* ABool *)
    cbn [eval_ast] in Hrun. unfold ret in Hrun. injection Hrun as <- <-.
    eexists. split; [done|]. split; [done|]. split; [reflexivity|]. split; [done|].
    destruct b; (split; [by (apply valid_1 || apply valid_m1)|]); intros ρ; unfold denv; cbn [asem].
    + by apply D_1.
    + by apply D_m1.
  - (* AVar *)
    cbn [eval_ast ok_ast] in *. destruct (ok_ast_extends_decl s0 s n He0 Hok) as [j Hj].
    destruct (var_sem s _ j r s' HI Hoff Hj Hrun) as (u&->&?&?&?&?&HD). by exists u.
  - (* ANum *)
    cbn [eval_ast ok_ast] in *. cbn [bind get] in Hrun.
    assert (Hz : valid s z) by (by apply (valid_extends s0 s)).
    unfold ensure in Hrun. rewrite (proj2 (mem_valid s z) Hz) in Hrun.
    cbn [bind ret] in Hrun. unfold ret in Hrun. injection Hrun as <- <-.
    exists z. split; [done|]. split; [done|]. split; [reflexivity|]. split; [done|].
    split; [done|]. intros ρ. cbn [asem]. by apply denv_extends.
  - (* AOp1 *)
    cbn [eval_ast ok_ast prop_ast] in *. destruct Hok as ([g Hg]&Hv&Har&Hok).
    destruct (eval_ast a s) as [ra s1] eqn:Ea.
    destruct (IH s0 s ra s1 HI0 He0 HI Hoff Hp Hok Ea) as (u&->&HI1&He1&Hoff1&Hu&HDu).
    rewrite (bind_ok _ _ _ _ _ Ea) in Hrun.
    destruct (apply_sem s1 op u None None r s' g HI1 Hoff1 Hv Hg Hu I I Har Hrun)
      as (x&->&HI2&He2&Hoff2&Hx&HDx).
    exists x. split; [done|]. split; [done|]. split; [by etrans|]. split; [done|].
    split; [done|]. intros ρ. cbn [asem]. rewrite Hg, HDx, HDu. done.
  - (* AOp2 *)
    cbn [eval_ast ok_ast prop_ast] in *. destruct Hok as ([g Hg]&Hv&Har&Hok1&Hok2).
    destruct Hp as [Hp1 Hp2].
    destruct (eval_ast a1 s) as [ra s1] eqn:Ea.
    destruct (IH1 s0 s ra s1 HI0 He0 HI Hoff Hp1 Hok1 Ea) as (u&->&HI1&He1&Hoff1&Hu&HDu).
    rewrite (bind_ok _ _ _ _ _ Ea) in Hrun.
    destruct (eval_ast a2 s1) as [rb s2] eqn:Eb.
    destruct (IH2 s0 s1 rb s2 HI0 (transitivity He0 He1) HI1 Hoff1 Hp2 Hok2 Eb)
      as (v&->&HI2&He2&Hoff2&Hv2&HDv).
    rewrite (bind_ok _ _ _ _ _ Eb) in Hrun.
    assert (Hu2 : valid s2 u) by (by apply (valid_extends s1 s2)).
    rewrite (arity_some op 1 v) in Har.
    destruct (apply_sem s2 op u (Some v) None r s' g HI2 Hoff2 Hv Hg Hu2 Hv2 I Har Hrun)
      as (x&->&HI3&He3&Hoff3&Hx&HDx).
    exists x. split; [done|]. split; [done|]. split; [by etrans; [|etrans]|]. split; [done|].
    split; [done|]. intros ρ. cbn [asem]. rewrite Hg, HDx. cbn [odenv].
    rewrite (denv_extends s1 s2 u ρ He2 HI1 Hu), HDu, HDv. done.
  - (* AIte *)
    cbn [eval_ast ok_ast prop_ast] in *. destruct Hok as (Hoka&Hokb&Hokc).
    destruct Hp as (Hpa&Hpb&Hpc).
    destruct (eval_ast a s) as [ra s1] eqn:Ea.
    destruct (IHa s0 s ra s1 HI0 He0 HI Hoff Hpa Hoka Ea) as (u&->&HI1&He1&Hoff1&Hu&HDu).
    rewrite (bind_ok _ _ _ _ _ Ea) in Hrun.
    destruct (eval_ast b s1) as [rb s2] eqn:Eb.
    destruct (IHb s0 s1 rb s2 HI0 (transitivity He0 He1) HI1 Hoff1 Hpb Hokb Eb)
      as (v&->&HI2&He2&Hoff2&Hv2&HDv).
    rewrite (bind_ok _ _ _ _ _ Eb) in Hrun.
    destruct (eval_ast c s2) as [rc s3] eqn:Ec.
    destruct (IHc s0 s2 rc s3 HI0 (transitivity He0 (transitivity He1 He2)) HI2 Hoff2 Hpc Hokc Ec)
      as (w&->&HI3&He3&Hoff3&Hw3&HDw).
    rewrite (bind_ok _ _ _ _ _ Ec) in Hrun.
    assert (Hu2 : valid s2 u) by (by apply (valid_extends s1 s2)).
    assert (Hu3 : valid s3 u) by (by apply (valid_extends s2 s3)).
    assert (Hv3 : valid s3 v) by (by apply (valid_extends s2 s3)).
    destruct (apply_sem s3 "ite" u (Some v) (Some w) r s' (fun a b c : bool => if a then b else c)
                HI3 Hoff3) as (x&->&HI4&He4&Hoff4&Hx&HDx); try done.
    { apply (bool_decide_eq_true_1 _). by vm_compute. }
    exists x. split; [done|]. split; [done|].
    split; [by etrans; [|etrans; [|etrans]]|]. split; [done|].
    split; [done|]. intros ρ. cbn [asem]. rewrite HDx. cbn [odenv].
    rewrite (denv_extends s2 s3 u ρ He3 HI2 Hu2), (denv_extends s1 s2 u ρ He2 HI1 Hu), HDu.
    rewrite (denv_extends s2 s3 v ρ He3 HI2 Hv2), HDv, HDw. done.
Qed.
