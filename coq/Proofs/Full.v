(** * Full: the full table ([max_nodes] reached), stated exactly.

    [find_or_add] raises [RuntimeError] BEFORE it writes anything
    (dd d081674: the next free integer is computed first): the state of the
    failed call is the state after [_request_reordering], whatever the
    manager looks like (no invariant is assumed).  [swap] checks beforehand
    (dd 6c37b8b) that its new nodes fit: a refused swap has only run its
    prelude (the collection of [all_levels=None]); on a well-formed manager
    the full-table error of [swap] is ALWAYS this refusal, never a
    [find_or_add] that fails midway ([Swap.swap_correct], through the counting
    lemma [FindOrAdd.find_or_add_room] and the room invariant of [SwapB]). *)
From DD Require Export Total3.

Lemma incref_not_runtime u s r s' : incref u s = (r, s') → r ≠ Err ERuntime.
Proof.
  unfold incref, bind, getref. case_decide; [by intros [= <- _]|].
  destruct (refc s !! absn u); by intros [= <- _].
Qed.

(** ** (a) [find_or_add] at a full table *)
Theorem find_or_add_full i v w s s' :
  find_or_add i v w s = (Err ERuntime, s') →
  request_reordering s = (Ok tt, s') ∧ is_Some (max_nodes s).
Proof.
  unfold find_or_add. unfold bind at 1.
  destruct (request_reordering s) as [[[]|e] s1] eqn:Hrr.
  2:{ intros [= -> <-]. apply request_reordering_spec in Hrr as (_&_&[[=]|[[=] _]]). }
  pose proof (request_reordering_spec _ _ _ Hrr) as (_&Hfr&_).
  cbn [bind get].
  case_decide; [by intros [=]|].
  destruct (mem v s1); cbn [negb]; [|by intros [=]].
  destruct (mem w s1); cbn [negb]; [|by intros [=]].
  case_decide; [by intros [=]|].
  destruct (pred s1 !! _) as [u|]; [by intros [=]|].
  unfold assert.
  case_bool_decide; cbn [bind ret raise]; [|by intros [=]].
  case_bool_decide; cbn [bind ret raise]; [|by intros [=]].
  destruct (fits (max_nodes s1) _) eqn:Hfit; cbn [ensure bind ret raise modify].
  - (* the node fits: only [incref] can fail, with [KeyError] *)
    unfold bind at 1.
    match goal with |- context [incref ?x ?st] => destruct (incref x st) as [[[]|e1] s2] eqn:E1 end.
    2:{ intros [= -> <-]. by destruct (incref_not_runtime _ _ _ _ E1). }
    unfold bind at 1.
    match goal with |- context [incref ?x s2] => destruct (incref x s2) as [[[]|e2] s3] eqn:E2 end.
    2:{ intros [= -> <-]. by destruct (incref_not_runtime _ _ _ _ E2). }
    by intros [=].
  - intros [= <-]. split; [done|].
    rewrite <- (frame_max_nodes _ _ Hfr). unfold fits in Hfit.
    by destruct (max_nodes s1).
Qed.

(** nothing but the forced-trigger counter of the harness can differ *)
Corollary find_or_add_full_tables i v w s s' :
  find_or_add i v w s = (Err ERuntime, s') →
  succ s' = succ s ∧ pred s' = pred s ∧ refc s' = refc s ∧ min_free s' = min_free s ∧
  ite_tab s' = ite_tab s ∧ vars s' = vars s ∧ lvl2var s' = lvl2var s ∧
  last_len s' = last_len s ∧ rctx s' = rctx s ∧ roots s' = roots s ∧ tape s' = tape s ∧
  max_nodes s' = max_nodes s ∧ is_Some (max_nodes s).
Proof.
  intros H. destruct (find_or_add_full i v w s s' H) as [Hrr Hmx].
  pose proof (request_reordering_spec _ _ _ Hrr) as ((E1&E2&_&E4&E5&E6&E7)&(F1&F2&F3&F4&F5)&_).
  destruct (request_reordering_tables _ _ _ Hrr) as [_ E3]. by split_and!.
Qed.

(** without the harness trigger, and in particular with dynamic reordering
    disabled, the manager is literally unchanged *)
Corollary find_or_add_full_same i v w s s' :
  trig s = None ∨ last_len s = None →
  find_or_add i v w s = (Err ERuntime, s') → s' = s.
Proof.
  intros Ht H. destruct (find_or_add_full i v w s s' H) as [Hrr _].
  revert Hrr. unfold request_reordering.
  destruct (last_len s) as [l|]; [|by intros [= <-]].
  destruct Ht as [Ht|[=]]. rewrite Ht. case_decide; by intros [= <-].
Qed.

(** ** (b) [swap] refused by the pre-check *)
Theorem swap_full s x y all_levels L s' :
  Inv s → Counts s L → last_len s = None →
  y = x + 1 ∨ x = y + 1 → x < nvars s → y < nvars s →
  match all_levels with Some al => levels_ok s al | None => True end →
  swap x y all_levels s = (Err ERuntime, s') →
  is_Some (max_nodes s) ∧
  match all_levels with
  | Some _ => s' = s
  | None => collect_garbage None s = (Ok tt, s')
  end.
Proof.
  intros HI HC Hll Hxy Hx Hy Hal H.
  destruct (swap_correct_any s x y all_levels L _ s' HI HC Hll Hxy Hx Hy Hal H)
    as [[=]|[(_&?&?)|(?&?&?&[=]&_)]]. done.
Qed.

(** the public entry point, any setting of dynamic reordering *)
Theorem swap_pub_full s x y L s' :
  Inv s → Counts s L →
  y = x + 1 ∨ x = y + 1 → x < nvars s → y < nvars s →
  swap_pub x y s = (Err ERuntime, s') →
  is_Some (max_nodes s) ∧
  ∃ s1, collect_garbage None (s <| last_len := None |>) = (Ok tt, s1) ∧
        s' = s1 <| last_len := last_len s |>.
Proof.
  intros HI HC Hxy Hx Hy H.
  destruct (swap_pub_correct s x y L _ s' HI HC Hxy Hx Hy H)
    as [[=]|[(_&?&?)|(?&?&?&[=]&_)]]. done.
Qed.

(** a swap with levels that are not adjacent declared levels never raises the
    full-table error (it is rejected before the pre-check) *)
Theorem swap_pub_full_adjacent s x y L s' :
  Inv s → Counts s L → tape s = [] →
  swap_pub x y s = (Err ERuntime, s') →
  (y = x + 1 ∨ x = y + 1) ∧ x < nvars s ∧ y < nvars s.
Proof.
  intros HI HC Ht H.
  destruct (decide ((y = x + 1 ∨ x = y + 1) ∧ x < nvars s ∧ y < nvars s)) as [|Hn]; [done|].
  exfalso. apply guarded_run in H as [[Hll H]|(ll&s1&Hll&H&->)].
  - by destruct (swap_junk_run x y s L _ s' HI HC Hn H) as ([=]&_).
  - destruct (Gd_off L s HI HC) as (HI0&HC0&_).
    by destruct (swap_junk_run x y _ L _ s1 HI0 HC0 Hn H) as ([=]&_).
Qed.
