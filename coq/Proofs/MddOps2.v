(** * MddOps2: [bdd_to_mdd] — the link with [collect_garbage]/[reorder],
      totality of the conversion, and the full theorem *)
From DD Require Export MddOps Sift9.

(** ** [cofactor] by all the levels of a zone [a..b]: the result is the node
    reached by walking from [u] through the zone; nothing is created *)
Lemma drop_while_subset {A} (p : A → bool) l x : x ∈ drop_while p l → x ∈ l.
Proof.
  induction l as [|y l IH]; cbn [drop_while]; [done|].
  destruct (p y); [|done]. intros H. right. by apply IH.
Qed.
Lemma drop_while_head {A} (p : A → bool) l x l' : drop_while p l = x :: l' → p x = false.
Proof.
  induction l as [|y l IH]; cbn [drop_while]; [done|].
  destruct (p y) eqn:E; [done|]. by intros [= -> _].
Qed.

Section zone.
Context (s : st) (HI : Inv s) (values : gmap nat bool) (a : nat).
(* the assigned levels at or below [a] are convex, and are levels of variables *)
Context (Hconv : ∀ i n, a ≤ i → i ≤ n → is_Some (values !! n) → is_Some (values !! i)).
Context (Hlt : ∀ k, is_Some (values !! k) → k < nvars s).

Inductive zpath : Z → Z → Prop :=
  | zp_stop u : valid s u → values !! lvl_of s u = None → zpath u u
  | zp_step u t val x : valid s u → succ s !! absn u = Some t → absn u ≠ 1%positive →
      values !! t_lvl t = Some val →
      zpath (if (val : bool) then t_hi t else t_lo t) x → zpath u (flip x u).

Lemma cofactor_rec_zone fuel : ∀ u ord cache r s',
  valid s u → a ≤ lvl_of s u →
  (∀ k, k ∈ ord → is_Some (values !! k)) → Cofactor.ord_ok s u ord values →
  (∀ k x, cache !! k = Some x → zpath k x) →
  nvars s - lvl_of s u < fuel →
  cofactor_rec fuel u ord values cache s = (r, s') →
  s' = s ∧ ∃ x cache', r = Ok (x, cache') ∧ zpath u x ∧
    ∀ k y, cache' !! k = Some y → zpath k y.
Proof.
  induction fuel as [|f IH]; intros u ord cache r s' Hu Ha Hords Hord Hc Hfuel; [lia|].
  cbn [cofactor_rec].
  destruct (decide (absn u = 1%positive ∧ u ≠ 0%Z)) as [[E1 _]|Hnt].
  { intros [= <- <-]. split; [done|]. exists u, cache. split_and!; try done.
    apply zp_stop; [done|]. rewrite (lvl_term s HI u E1).
    apply eq_None_not_Some. intros H%Hlt. lia. }
  destruct (cache !! u) as [x|] eqn:Hcu.
  { intros [= <- <-]. split; [done|]. exists x, cache. split_and!; try done. by apply Hc. }
  destruct (node_cases s HI u Hu) as [[E El]|(t&Ht&Hn1&Hlo&Hl&Hln&Hvl&Hvh&Hhp&Hll&Hlh&Hne)].
  { exfalso. apply Hnt. split; [done|apply Hu]. }
  rewrite (bind_ok _ _ _ _ _ (getsuccZ_ok s u t (proj1 Hu) Ht)).
  unfold is_term, assert. rewrite bool_decide_eq_false_2 by done. cbn [negb].
  rewrite (bind_ok _ _ s tt s) by done.
  rewrite <- Hl in Hll, Hlh.
  destruct (skip_below (t_lvl t) ord) as [|n ord'] eqn:Hsk.
  { intros [= <- <-]. split; [done|]. exists u, cache. split_and!; try done.
    apply zp_stop; [done|]. apply eq_None_not_Some. intros Hs.
    pose proof (skip_below_nil _ _ Hsk _ (Hord _ Hs ltac:(lia))). lia. }
  assert (Hn : t_lvl t ≤ n ∧ is_Some (values !! n)).
  { split.
    - pose proof (drop_while_head _ _ _ _ Hsk) as Hp. cbv beta in Hp.
      apply bool_decide_eq_false in Hp. lia.
    - apply Hords. apply (drop_while_subset (fun k => bool_decide (k < t_lvl t))).
      unfold skip_below in Hsk. rewrite Hsk. left. }
  destruct Hn as [Hn1' Hn2].
  assert (is_Some (values !! t_lvl t)) as [val Hval] by (apply (Hconv _ n); [lia|done|done]).
  assert (Hords' : ∀ k, k ∈ n :: ord' → is_Some (values !! k)).
  { intros k Hk. apply Hords. rewrite <- Hsk in Hk.
    by apply (drop_while_subset (fun k => bool_decide (k < t_lvl t))). }
  assert (Hord' : ∀ c, lvl_of s u ≤ lvl_of s c → Cofactor.ord_ok s c (n :: ord') values).
  { intros c Hl1. rewrite <- Hsk, <- Hl. by apply (Cofactor.ord_ok_child s s u). }
  cbv iota. clear Hsk. set (ord1 := n :: ord') in *. clearbody ord1.
  rewrite Hval.
  set (c := if val then t_hi t else t_lo t).
  assert (Hvc : valid s c) by (subst c; by destruct val).
  assert (Hlc : lvl_of s u < lvl_of s c) by (subst c; by destruct val).
  destruct (cofactor_rec f c ord1 values cache s) as [rp s1] eqn:Ep.
  pose proof Ep as Ep'.
  apply IH in Ep' as (->&x&c1&->&Hx&Hc1); [|done|lia|done|apply Hord'; lia|done|lia].
  rewrite (bind_ok _ _ _ _ _ Ep). intros [= <- <-]. split; [done|].
  assert (Hz : zpath u (flip x u)) by (by apply (zp_step u t val x)).
  eexists _, _. split; [done|]. split; [done|].
  intros k y Hk. destruct (decide (k = u)) as [->|Hne'].
  - rewrite lookup_insert in Hk. by injection Hk as <-.
  - rewrite lookup_insert_ne in Hk by done. by apply Hc1.
Qed.

(** facts about the node reached *)
Lemma zpath_valid u x : zpath u x → valid s x ∧ values !! lvl_of s x = None.
Proof.
  induction 1 as [u Hu Hl|u t val x Hu Ht Hn Hval _ [IH1 IH2]]; [done|].
  split; [by apply valid_flip|by rewrite lvl_flip].
Qed.
(** when the walk starts inside the zone, the node reached has a parent in
    the zone *)
Lemma zpath_parent u x : zpath u x → is_Some (values !! lvl_of s u) →
  ∃ w tw, succ s !! w = Some tw ∧ w ≠ 1%positive ∧ lvl_of s u ≤ t_lvl tw ∧
    is_Some (values !! t_lvl tw) ∧
    (absn (t_lo tw) = absn x ∨ absn (t_hi tw) = absn x).
Proof.
  induction 1 as [u Hu Hl|u t val x Hu Ht Hn Hval Hz IH].
  { intros [? H]. congruence. }
  intros Hlu.
  assert (Elu : lvl_of s u = t_lvl t) by (unfold lvl_of; by rewrite Ht).
  set (c := if val then t_hi t else t_lo t) in *.
  assert (Habs : absn (flip x u) = absn x).
  { unfold flip. case_decide; [apply absn_neg|done]. }
  destruct (inv_node _ HI _ _ Ht Hn) as (_&Hvl&Hhp&Hvh&Hll&Hlh&_).
  assert (Hvc : valid s c ∧ t_lvl t < lvl_of s c) by (subst c; by destruct val).
  destruct Hvc as [Hvc Hlc].
  destruct (values !! lvl_of s c) as [vc|] eqn:Hcb.
  - destruct (IH ltac:(by eexists)) as (w&tw&Hw&Hw1&Hlw&Hzw&Hch). exists w, tw.
    rewrite Habs. split_and!; try done; lia.
  - (* the child is already outside: [u] itself is the parent *)
    assert (x = c) as ->.
    { inversion Hz as [? ? ? E1 E2|? t' val' x' Hu' Ht' Hn' Hval' Hz' E1 E2]; [done|].
      exfalso. subst. unfold lvl_of in Hcb. rewrite Ht' in Hcb. congruence. }
    exists (absn u), t. rewrite Habs, Elu. split_and!; try done; try (by eexists).
    subst c. destruct val; [by right|by left].
Qed.
End zone.

Lemma zpath_same s s' values u x : succ s' = succ s → zpath s' values u x → zpath s values u x.
Proof.
  intros E. assert (Hv : ∀ y, valid s' y → valid s y) by (intros y; unfold valid; by rewrite E).
  assert (Hl : ∀ y, lvl_of s' y = lvl_of s y) by (intros y; unfold lvl_of; by rewrite E).
  induction 1 as [u Hu Hn|u t val x Hu Ht Hn Hval _ IH].
  - apply zp_stop; [by apply Hv|by rewrite <- Hl].
  - apply (zp_step s values u t val x); try done; [by apply Hv|by rewrite <- E].
Qed.

(** the key mapping by name succeeds when the keys are declared *)
Lemma mapM_map_key_ok s (kv : list (nat * bool)) :
  (∀ k b, (k, b) ∈ kv → is_Some (vars s !! k)) →
  ∃ ls, mapM (fun '(k, a) => l <- map_key true false k ;; ret (l, a)) kv s = (Ok ls, s).
Proof.
  induction kv as [|[k a] kv IH]; intros H; [by exists []|].
  destruct (H k a ltac:(left)) as [l Hl]. destruct IH as [ls Hls]; [intros; eapply H; by right|].
  exists ((l, a) :: ls). cbn [mapM].
  rewrite bind_assoc, (bind_ok _ _ _ _ _ (map_key_name s false k l Hl)).
  rewrite (bind_ok _ _ s (l, a) s) by done. by rewrite (bind_ok _ _ _ _ _ Hls).
Qed.
Lemma mtld_name_ok s (kv : list (nat * bool)) :
  (∀ k b, (k, b) ∈ kv → is_Some (vars s !! k)) →
  ∃ lv, map_to_level_dict true kv s = (Ok lv, s).
Proof.
  intros H. unfold map_to_level_dict. destruct kv as [|[k a] rest]; [by eexists|].
  destruct (H k a ltac:(left)) as [l Hl].
  destruct (mapM_map_key_ok s rest) as [ls Hls]; [intros; eapply H; by right|].
  eexists. rewrite (bind_ok _ _ s tt s) by done.
  rewrite (bind_ok _ _ _ _ _ (map_key_name s true k l Hl)).
  rewrite (bind_ok _ _ _ _ _ Hls). reflexivity.
Qed.

Lemma rctx_roundtrip s : s <| rctx := true |> <| rctx := rctx s |> = s.
Proof. by destruct s. Qed.

Lemma cofactor_zone s u d lv : Inv s → last_len s = None → valid s u →
  map_to_level_dict true d (s <| rctx := true |>) = (Ok lv, s <| rctx := true |>) →
  (∀ i n, lvl_of s u ≤ i → i ≤ n → is_Some (lv !! n) → is_Some (lv !! i)) →
  (∀ k, is_Some (lv !! k) → k < nvars s) →
  ∃ z, cofactor u true d s = (Ok z, s) ∧ zpath s lv u z.
Proof.
  intros HI Hoff Hu Hmap Hconv Hlt.
  set (s0 := s <| rctx := true |>) in *.
  assert (HI0 : Inv s0) by (by apply Inv_rctx).
  assert (Hu0 : valid s0 u) by done.
  destruct (cofactor_rec (S (S (nvars s0))) u (sorted_levels (dom lv)) lv ∅ s0)
    as [rr s2] eqn:Erec.
  pose proof Erec as Erec'.
  apply (cofactor_rec_zone s0 HI0 lv (lvl_of s u) Hconv Hlt) in Erec'
    as (->&z&c&->&Hz&_); [|done|done| | |done|lia].
  2:{ intros k Hk. apply elem_of_sorted_levels in Hk. by apply elem_of_dom. }
  2:{ intros k Hk _. apply elem_of_sorted_levels. by apply elem_of_dom. }
  exists z. split; [|by apply (zpath_same s s0)].
  unfold cofactor, try_to_reorder. cbn [bind get modify].
  unfold bind at 1, catch at 1. fold s0.
  rewrite (bind_ok _ _ _ _ _ Hmap). cbn [bind get].
  rewrite (proj2 (mem_valid s0 u) Hu0). unfold ensure.
  rewrite (bind_ok _ _ s0 tt s0) by done.
  rewrite (bind_ok _ _ _ _ _ Erec). cbn [bind modify ret fst]. by rewrite rctx_roundtrip.
Qed.

(** ** (a) The link: the state reached after [collect_garbage ;;; reorder] *)

(** [dvars] is well formed with respect to the manager: the integer
    variables are named once and sit at the levels [0..m-1]; every bit is
    listed once (within and across variables); the bits are exactly the
    declared variables of the BDD manager *)
Definition dlevels (dvars : dvars_t) : list nat :=
  (fun x : nat * (nat * list nat) => x.2.1) <$> dvars.
Record dvars_wf (dvars : dvars_t) (s : st) : Prop := {
  dw_names : NoDup (dvars.*1);
  dw_levels : dlevels dvars ≡ₚ seq 0 (length dvars);
  dw_bits : NoDup (b2v dvars).*1;
  dw_decl : ∀ b, b ∈ (b2v dvars).*1 ↔ is_Some (vars s !! b);
}.

(** the bit lists in the order of the integer levels *)
Definition bits_at (dvars : dvars_t) (j : nat) : option (list nat) :=
  match list_find (fun '(_, (l, _)) => bool_decide (l = j)) dvars with
  | Some (_, (_, (_, bits))) => Some bits
  | None => None
  end.
Definition b2m_target (dvars : dvars_t) : list nat :=
  concat (omap (bits_at dvars) (seq 0 (length dvars))).
Definition b2m_b2s (dvars : dvars_t) : list (nat * nat) :=
  imap (fun k b => (b, k)) (b2m_target dvars).

Lemma mapM_of_opt {A B} (f : A → option B) e (l : list A) (s : st) :
  (∀ x, x ∈ l → is_Some (f x)) →
  mapM (fun x => of_opt e (f x)) l s = (Ok (omap f l), s).
Proof.
  induction l as [|x l IH]; intros H; [done|].
  destruct (H x ltac:(left)) as [y Hy]. cbn [mapM omap list_omap]. rewrite Hy.
  cbn [of_opt]. rewrite (bind_ok _ _ s y s) by done.
  rewrite (bind_ok _ _ _ _ _ (IH ltac:(intros; apply H; by right))). done.
Qed.

Lemma b2v_fst_cons v j bits (l : dvars_t) :
  (b2v ((v, (j, bits)) :: l)).*1 = bits ++ (b2v l).*1.
Proof.
  unfold b2v. cbn [flat_map]. rewrite fmap_app. f_equal.
  cbn. induction bits as [|b bits IH]; [done|]. cbn. by rewrite IH.
Qed.

Lemma b2v_bits_nodup (dvars : dvars_t) v j bits :
  NoDup (b2v dvars).*1 → (v, (j, bits)) ∈ dvars → NoDup bits.
Proof.
  induction dvars as [|[v' [j' bits']] l IH]; intros Hnd Hin; [by apply elem_of_nil in Hin|].
  rewrite b2v_fst_cons in Hnd. apply NoDup_app in Hnd as (H1&_&H2).
  apply elem_of_cons in Hin as [[= -> -> ->]|Hin]; [done|by apply IH].
Qed.

Section dwf.
Context (dvars : dvars_t) (s : st) (Hdw : dvars_wf dvars s).

Lemma dw_level_lt v j bits : (v, (j, bits)) ∈ dvars → j < length dvars.
Proof.
  intros Hin. assert (j ∈ dlevels dvars) as Hj.
  { apply elem_of_list_fmap. by exists (v, (j, bits)). }
  rewrite (dw_levels _ _ Hdw) in Hj. apply elem_of_seq in Hj. lia.
Qed.
Lemma dw_level_inj v1 v2 j b1 b2 :
  (v1, (j, b1)) ∈ dvars → (v2, (j, b2)) ∈ dvars → v1 = v2 ∧ b1 = b2.
Proof.
  intros H1 H2. assert (NoDup (dlevels dvars)) as Hnd.
  { rewrite (dw_levels _ _ Hdw). apply NoDup_seq. }
  by pose proof (NoDup_fmap_inj_elem (fun x : nat * (nat * list nat) => x.2.1) dvars
                   _ _ Hnd H1 H2 eq_refl) as [= -> ->].
Qed.
Lemma dw_name_inj v j1 j2 b1 b2 :
  (v, (j1, b1)) ∈ dvars → (v, (j2, b2)) ∈ dvars → j1 = j2 ∧ b1 = b2.
Proof.
  intros H1 H2.
  by pose proof (NoDup_fmap_inj_elem fst dvars _ _ (dw_names _ _ Hdw) H1 H2 eq_refl) as [= -> ->].
Qed.
Lemma dw_level_ex j : j < length dvars → ∃ v bits, (v, (j, bits)) ∈ dvars.
Proof.
  intros Hj. assert (j ∈ dlevels dvars) as Hin.
  { rewrite (dw_levels _ _ Hdw). apply elem_of_seq. lia. }
  apply elem_of_list_fmap in Hin as ([v [j' bits]]&->&Hin). by exists v, bits.
Qed.
Lemma dw_bits_nodup v j bits : (v, (j, bits)) ∈ dvars → NoDup bits.
Proof. apply b2v_bits_nodup, Hdw. Qed.
Lemma dw_owner b v1 v2 : (b, v1) ∈ b2v dvars → (b, v2) ∈ b2v dvars → v1 = v2.
Proof.
  intros H1 H2.
  by pose proof (NoDup_fmap_inj_elem fst (b2v dvars) _ _ (dw_bits _ _ Hdw) H1 H2 eq_refl) as [= ->].
Qed.

Lemma bits_at_Some j bits : bits_at dvars j = Some bits ↔ ∃ v, (v, (j, bits)) ∈ dvars.
Proof.
  unfold bits_at. split.
  - destruct (list_find _ dvars) as [[i [v [l bits']]]|] eqn:E; [|done]. intros [= ->].
    apply list_find_Some in E as (Hi&Hl&_). apply bool_decide_unpack in Hl. subst l.
    exists v. by eapply elem_of_list_lookup_2.
  - intros [v Hin].
    destruct (list_find (fun '(_, (l, _)) => bool_decide (l = j)) dvars)
      as [[i [v' [l bits']]]|] eqn:E.
    + apply list_find_Some in E as (Hi&Hl&_). apply bool_decide_unpack in Hl. subst l.
      apply elem_of_list_lookup_2 in Hi. by destruct (dw_level_inj _ _ _ _ _ Hi Hin) as [_ ->].
    + exfalso. apply list_find_None in E. rewrite Forall_forall in E.
      apply (E _ Hin). cbn. by apply bool_decide_pack.
Qed.

Definition bio : list (list nat) := omap (bits_at dvars) (seq 0 (length dvars)).

Lemma bio_lookup j bits : bio !! j = Some bits ↔ ∃ v, (v, (j, bits)) ∈ dvars.
Proof.
  assert (E : bio = (fun j => default [] (bits_at dvars j)) <$> seq 0 (length dvars)).
  { unfold bio. apply omap_all_Some. intros x Hx%elem_of_seq.
    destruct (dw_level_ex x ltac:(lia)) as (v&bits'&Hin).
    by rewrite (proj2 (bits_at_Some x bits') (ex_intro _ v Hin)). }
  rewrite E, list_lookup_fmap. split.
  - destruct (seq 0 (length dvars) !! j) as [j'|] eqn:Ej; [|done].
    apply lookup_seq in Ej as [-> Hj]. cbn. intros [= <-].
    destruct (dw_level_ex j Hj) as (v&bits'&Hin).
    rewrite (proj2 (bits_at_Some j bits') (ex_intro _ v Hin)). by exists v.
  - intros [v Hin]. pose proof (dw_level_lt _ _ _ Hin) as Hj.
    rewrite (proj2 (lookup_seq 0 (length dvars) j j) (conj eq_refl Hj)). cbn.
    by rewrite (proj2 (bits_at_Some j bits) (ex_intro _ v Hin)).
Qed.

Lemma target_elem b : b ∈ b2m_target dvars ↔ b ∈ (b2v dvars).*1.
Proof.
  unfold b2m_target. fold bio. rewrite elem_of_list_In, in_concat. split.
  - intros (blk&Hblk&Hb). apply elem_of_list_In, elem_of_list_lookup in Hblk as [j Hj].
    apply bio_lookup in Hj as [v Hin]. apply elem_of_list_fmap. exists (b, v). split; [done|].
    apply b2v_elem. exists j, blk. split; [done|]. by apply elem_of_list_In.
  - intros ([b' v]&->&Hin)%elem_of_list_fmap. apply b2v_elem in Hin as (j&bits&Hin&Hb).
    exists bits. split; [|by apply elem_of_list_In].
    apply elem_of_list_In, elem_of_list_lookup. exists j. apply bio_lookup. by exists v.
Qed.
End dwf.

(** *** lists of blocks *)
Lemma NoDup_concat {A} (L : list (list A)) :
  (∀ j blk, L !! j = Some blk → NoDup blk) →
  (∀ j j' blk blk' x, L !! j = Some blk → L !! j' = Some blk' → x ∈ blk → x ∈ blk' → j = j') →
  NoDup (concat L).
Proof.
  induction L as [|blk0 L IH]; intros H1 H2; [constructor|]. cbn [concat].
  apply NoDup_app. split_and!.
  - by apply (H1 0).
  - intros x Hx Hx'. apply elem_of_list_In, in_concat in Hx' as (blk&Hblk&Hxb).
    apply elem_of_list_In, elem_of_list_lookup in Hblk as [j Hj].
    by pose proof (H2 0 (S j) blk0 blk x eq_refl Hj Hx ltac:(by apply elem_of_list_In)).
  - apply IH.
    + intros j blk Hj. by apply (H1 (S j)).
    + intros j j' blk blk' x Hj Hj' Hx Hx'.
      by pose proof (H2 (S j) (S j') blk blk' x Hj Hj' Hx Hx') as [= ->].
Qed.

Lemma concat_mono {A} (L : list (list A)) : ∀ l l' b b' j j' blk blk',
  NoDup (concat L) → l ≤ l' →
  concat L !! l = Some b → concat L !! l' = Some b' →
  L !! j = Some blk → b ∈ blk → L !! j' = Some blk' → b' ∈ blk' → j ≤ j'.
Proof.
  induction L as [|blk0 L IH]; intros l l' b b' j j' blk blk' Hnd Hle Hl Hl' Hj Hb Hj' Hb'; [done|].
  cbn [concat] in *. apply NoDup_app in Hnd as (Hnd0&Hdisj&Hnd').
  assert (Hin : ∀ (i : nat) x, L !! i = Some x → ∀ y, y ∈ x → y ∈ concat L).
  { intros i x Hi y Hy. apply elem_of_list_In, in_concat. exists x.
    split; apply elem_of_list_In; [by eapply elem_of_list_lookup_2|done]. }
  (* position of an element of the tail *)
  assert (Htail : ∀ k y, (blk0 ++ concat L) !! k = Some y → y ∈ concat L → length blk0 ≤ k).
  { intros k y Hk Hy. destruct (decide (k < length blk0)) as [Hlt|]; [|lia]. exfalso.
    rewrite lookup_app_l in Hk by done. apply (Hdisj y); [by eapply elem_of_list_lookup_2|done]. }
  destruct j as [|j]; [lia|]. cbn in Hj.
  pose proof (Htail l b Hl (Hin _ _ Hj _ Hb)) as Hlk.
  destruct j' as [|j'].
  - exfalso. injection Hj' as <-.
    destruct (decide (l' < length blk0)) as [Hlt|Hge]; [lia|].
    rewrite lookup_app_r in Hl' by lia.
    apply (Hdisj b'); [done|by eapply elem_of_list_lookup_2].
  - cbn in Hj'. pose proof (Htail l' b' Hl' (Hin _ _ Hj' _ Hb')) as Hlk'.
    rewrite lookup_app_r in Hl, Hl' by lia.
    assert (j ≤ j'); [|lia].
    apply (IH (l - length blk0) (l' - length blk0) b b' j j' blk blk'); try done. lia.
Qed.

Lemma imap_index_lookup (l : list nat) b k : NoDup l →
  (list_to_map (imap (fun k b => (b, k)) l) : gmap nat nat) !! b = Some k ↔ l !! k = Some b.
Proof.
  intros Hnd.
  assert (Hfst : (imap (fun k b => (b, k)) l).*1 = l).
  { apply list_eq. intros i. rewrite list_lookup_fmap, list_lookup_imap. by destruct (l !! i). }
  rewrite <- elem_of_list_to_map by (by rewrite Hfst).
  rewrite elem_of_lookup_imap. split.
  - by intros (i&y&[= -> ->]&Hi).
  - intros Hk. by exists k, b.
Qed.

Section link.
Context (dvars : dvars_t).

Lemma target_nodup s : dvars_wf dvars s → NoDup (b2m_target dvars).
Proof.
  intros Hdw. unfold b2m_target. fold (bio dvars). apply NoDup_concat.
  - intros j blk [v Hin]%(bio_lookup dvars s Hdw). by apply (dw_bits_nodup dvars s Hdw v j).
  - intros j j' blk blk' x [v Hin]%(bio_lookup dvars s Hdw) [v' Hin']%(bio_lookup dvars s Hdw) Hx Hx'.
    assert (v = v') as <-.
    { apply (dw_owner dvars s Hdw x); apply b2v_elem; eauto. }
    by destruct (dw_name_inj dvars s Hdw _ _ _ _ _ Hin Hin').
Qed.

Lemma target_length s : dvars_wf dvars s → length (b2m_target dvars) = nvars s.
Proof.
  intros Hdw. unfold nvars. rewrite <- size_dom.
  rewrite <- (size_list_to_set (C := gset nat)) by (by apply (target_nodup s)).
  f_equal. apply stdpp.sets.set_eq. intros b.
  rewrite elem_of_list_to_set, (target_elem dvars s Hdw), (dw_decl _ _ Hdw), elem_of_dom. done.
Qed.

(** the integer level of a BDD level, when the variables are in the target order *)
Lemma ilvl_target s l b j v bits : dvars_wf dvars s → Inv s →
  vars s = list_to_map (b2m_b2s dvars) →
  b2m_target dvars !! l = Some b → (v, (j, bits)) ∈ dvars → b ∈ bits →
  ilvl dvars s l = j.
Proof.
  intros Hdw HI Hv Hl Hin Hb. unfold ilvl.
  assert (lvl2var s !! l = Some b) as ->.
  { apply (inv_vars _ HI). rewrite Hv. apply imap_index_lookup; [by apply (target_nodup s)|done]. }
  rewrite assoc_alist, (alist_get_nodup _ b v (dw_bits _ _ Hdw)) by (apply b2v_elem; eauto).
  by rewrite assoc_alist, (alist_get_nodup _ v (j, bits) (dw_names _ _ Hdw) Hin).
Qed.

Lemma b2m_wf_target s : dvars_wf dvars s → Inv s →
  vars s = list_to_map (b2m_b2s dvars) → b2m_wf dvars s.
Proof.
  intros Hdw HI Hv. split.
  - split; [|split].
    + rewrite map_fst_mdd. apply Hdw.
    + intros v1 v2 l n1 n2 H1 H2.
      apply elem_of_list_In, in_map_iff in H1 as ([v1' [l1 b1]]&[= -> -> _]&H1).
      apply elem_of_list_In, in_map_iff in H2 as ([v2' [l2 b2]]&[= -> -> _]&H2).
      apply elem_of_list_In in H1, H2. by destruct (dw_level_inj dvars s Hdw _ _ _ _ _ H1 H2).
    + intros l Hl. rewrite map_length in Hl.
      destruct (dw_level_ex dvars s Hdw l Hl) as (v&bits&Hin). exists v, (2 ^ length bits).
      apply elem_of_list_In, in_map_iff. exists (v, (l, bits)). split; [done|]. by apply elem_of_list_In.
  - apply (dw_level_lt dvars s Hdw).
  - apply (dw_bits_nodup dvars s Hdw).
  - apply (dw_owner dvars s Hdw).
  - intros l l' Hle Hl'. rewrite <- (target_length s Hdw) in Hl'.
    destruct (lookup_lt_is_Some_2 (b2m_target dvars) l ltac:(lia)) as [b Hb].
    destruct (lookup_lt_is_Some_2 (b2m_target dvars) l' Hl') as [b' Hb'].
    assert (Hblk : ∀ k x, b2m_target dvars !! k = Some x →
              ∃ j v bits, bio dvars !! j = Some bits ∧ (v, (j, bits)) ∈ dvars ∧ x ∈ bits).
    { intros k x Hk. apply elem_of_list_lookup_2, elem_of_list_In, in_concat in Hk as (blk&Hblk&Hx).
      apply elem_of_list_In, elem_of_list_lookup in Hblk as [j Hj].
      pose proof Hj as [v Hin]%(bio_lookup dvars s Hdw). exists j, v, blk.
      split_and!; try done. by apply elem_of_list_In. }
    destruct (Hblk _ _ Hb) as (j&v&bits&Hj&Hin&Hbb).
    destruct (Hblk _ _ Hb') as (j'&v'&bits'&Hj'&Hin'&Hbb').
    rewrite (ilvl_target s l b j v bits), (ilvl_target s l' b' j' v' bits') by done.
    apply (concat_mono (bio dvars) l l' b b' j j' bits bits'); try done.
    apply (target_nodup s Hdw).
Qed.
End link.

Lemma b2s_fst dvars : (b2m_b2s dvars).*1 = b2m_target dvars.
Proof.
  unfold b2m_b2s. apply list_eq. intros i. rewrite list_lookup_fmap, list_lookup_imap.
  by destruct (b2m_target dvars !! i).
Qed.

Lemma dvars_wf_vars dvars s s' : dom (vars s') = dom (vars s) → dvars_wf dvars s → dvars_wf dvars s'.
Proof.
  intros E [H1 H2 H3 H4]. split; try done. intros b. rewrite H4, <- !elem_of_dom. by rewrite E.
Qed.

(** the state after [collect_garbage ;;; reorder(order)] satisfies the
    hypotheses of the conversion proper; held nodes keep their functions *)
Theorem b2m_prefix_link dvars s L :
  Inv s → Counts s L → last_len s = None → tape s = [] →
  (∀ u, u ∈ roots s → held L u) → dvars_wf dvars s →
  ∃ s2, (collect_garbage None ;;; reorder (Some (list_to_map (b2m_b2s dvars)))) s = (Ok tt, s2) ∧
    Inv s2 ∧ Counts s2 L ∧ last_len s2 = None ∧ tape s2 = [] ∧ nozero s2 ∧
    keepsH L s s2 ∧ vars s2 = list_to_map (b2m_b2s dvars) ∧
    dvars_wf dvars s2 ∧ b2m_wf dvars s2.
Proof.
  intros HI HC Hoff Ht Hroots Hdw.
  destruct (collect_garbage None s) as [rg s1] eqn:Eg.
  pose proof (gc_nozero s L rg s1 HI HC Eg) as Hnz1.
  destruct (nt_collect_garbage None s rg s1 Ht Eg) as [Ht1 _].
  pose proof Eg as Eg'.
  apply (gc_safe None s L) in Eg' as (->&HI1&HC1&_&Ev1&El1&Hfr1&_&_); [|done|done|done].
  assert (HK1 : keepsH L s s1).
  { intros u Hh. pose proof (held_valid L s u HI HC Hh) as Hvu.
    destruct Hh as [Hu0 Hh].
    destruct (gc_preserves_den None s L (Ok tt) s1 u HI HC I Eg Hu0) as (Hv1&_&HD).
    { destruct Hh as [|Hh]; [by left|right]. apply reach_root; [done|].
      apply elem_of_dom, Hvu. }
    split_and!; try done. intros ρ. unfold denv. by rewrite El1, HD. }
  assert (Hdw1 : dvars_wf dvars s1) by (apply (dvars_wf_vars dvars s); [by rewrite Ev1|done]).
  set (order := list_to_map (b2m_b2s dvars) : gmap nat nat).
  assert (Hoff1 : last_len s1 = None) by (destruct Hfr1 as (E&_); by rewrite E).
  assert (Hroots1 : ∀ u, u ∈ roots s1 → held L u).
  { destruct Hfr1 as (_&_&E&_). rewrite E. done. }
  pose proof (target_nodup dvars s1 Hdw1) as Hnd.
  assert (Hord : ∀ b k, order !! b = Some k ↔ b2m_target dvars !! k = Some b).
  { intros b k. by apply imap_index_lookup. }
  rewrite (bind_ok _ _ _ _ _ Eg).
  destruct (reorder (Some order) s1) as [r s2] eqn:Er.
  destruct (nt_reorder (Some order) s1 r s2 Ht1 Er) as [Ht2 Hne].
  cbn [reorder] in Er.
  destruct (sort_to_order_correct order s1 L r s2 ltac:(by split_and!)) as [?|(->&HStp&Ev2&_)];
    [| | | |exact Er|done|].
  - apply stdpp.sets.set_eq. intros b. unfold order. rewrite dom_list_to_map_L, elem_of_list_to_set.
    rewrite b2s_fst, (target_elem dvars s1 Hdw1), (dw_decl _ _ Hdw1), elem_of_dom. done.
  - intros v v' l Hv Hv'. apply Hord in Hv, Hv'. congruence.
  - intros v l Hv. apply Hord in Hv. rewrite <- (target_length dvars s1 Hdw1).
    by eapply lookup_lt_Some.
  - done.
  - destruct HStp as ((HI2&HC2&Hoff2)&Hnv2&HK2&Hnz2).
    exists s2. split; [done|].
    assert (Hdw2 : dvars_wf dvars s2).
    { apply (dvars_wf_vars dvars s1); [|done]. rewrite Ev2.
      apply stdpp.sets.set_eq. intros b. unfold order. rewrite dom_list_to_map_L, elem_of_list_to_set.
      rewrite b2s_fst, (target_elem dvars s1 Hdw1), (dw_decl _ _ Hdw1), elem_of_dom. done. }
    split_and!; try done.
    + by apply Hnz2.
    + intros u Hh. destruct (HK1 u Hh) as (?&?&HD1). destruct (HK2 u Hh) as (_&?&HD2).
      split_and!; try done. intros ρ. by rewrite HD2, HD1.
    + by apply b2m_wf_target.
Qed.

(** ** (b) Totality of the conversion proper *)

(** *** predecessors *)
Definition b2m_preds (s : st) (u : positive) : list positive :=
  omap (M:=list) (fun pt : positive * triple =>
    if bool_decide (pt.1 ≠ 1%positive ∧ (absn (t_lo pt.2) = u ∨ absn (t_hi pt.2) = u))
    then Some pt.1 else None) (map_to_list (succ s)).

Lemma elem_of_preds s u w :
  w ∈ b2m_preds s u ↔ ∃ tw, succ s !! w = Some tw ∧ w ≠ 1%positive ∧
                            (absn (t_lo tw) = u ∨ absn (t_hi tw) = u).
Proof.
  unfold b2m_preds. rewrite elem_of_list_omap. split.
  - intros ([w' tw]&Hin&Hf). apply elem_of_map_to_list in Hin. cbn in Hf.
    case_bool_decide as Hc; [|done]. injection Hf as ->. by exists tw.
  - intros (tw&Hw&Hw1&Hc). exists (w, tw). split; [by apply elem_of_map_to_list|].
    cbn. by rewrite bool_decide_eq_true_2.
Qed.

Lemma remove_dups_length_le {A} `{EqDecision A} (l : list A) : length (remove_dups l) ≤ length l.
Proof. induction l as [|x l IH]; cbn; [done|]. case_match; cbn; lia. Qed.

Lemma preds_list_le (l : list (positive * triple)) u :
  (∀ pt, pt ∈ l → pt.1 ≠ 1%positive → t_lo pt.2 ≠ 0%Z ∧ t_hi pt.2 ≠ 0%Z) →
  length (omap (M:=list) (fun pt : positive * triple =>
    if bool_decide (pt.1 ≠ 1%positive ∧ (absn (t_lo pt.2) = u ∨ absn (t_hi pt.2) = u))
    then Some pt.1 else None) l)
  ≤ foldr (uncurry (fun (_ : positive) t acc => edges_to t u + acc)) 0 l.
Proof.
  induction l as [|[k t] l IH]; intros Hall; [done|].
  assert (IH' := IH ltac:(intros; apply Hall; [by right|done])).
  cbn. case_bool_decide as Hc; cbn; [|cbn in IH'; lia].
  cbn in IH'.
  destruct Hc as [Hk Hc]. destruct (Hall (k, t) ltac:(left) Hk) as [Hl0 Hh0]. cbn in Hl0, Hh0.
  assert (0 < edges_to t u); [|lia].
  destruct Hc as [<-|<-]; [by apply edges_to_lo|by apply edges_to_hi].
Qed.

Lemma preds_le_indeg s u : Inv s →
  length (remove_dups (b2m_preds s u)) ≤ indeg (succ s) u.
Proof.
  intros HI. etrans; [apply remove_dups_length_le|].
  apply (preds_list_le (map_to_list (succ s)) u).
  intros [k t] Hin%elem_of_map_to_list Hk. cbn [fst snd] in *.
  destruct (inv_node _ HI _ _ Hin Hk) as (_&Hvl&Hhp&_). split; [apply Hvl|lia].
Qed.

Lemma preds_of_indeg s u : Inv s → 0 < indeg (succ s) u → ∃ w, w ∈ b2m_preds s u.
Proof.
  intros HI Hi. destruct (indeg_pos _ _ Hi) as (k&t&Hk&He).
  destruct (Inv_edges_dom s k t u HI Hk He) as [_ Hk1].
  exists k. apply elem_of_preds. exists t. split_and!; try done.
  destruct (edges_to_cases _ _ He) as [[_ ?]|[_ ?]]; auto.
Qed.

Lemma foldr_min_le l ls x : x ∈ l :: ls → foldr Nat.min l ls ≤ x.
Proof.
  revert x. induction ls as [|y ls IH]; intros x Hx; cbn.
  - by apply elem_of_list_singleton in Hx as ->.
  - assert (Hx' : x = y ∨ x ∈ l :: ls).
    { apply elem_of_cons in Hx as [->|Hx]; [right; left|].
      apply elem_of_cons in Hx as [->|Hx]; [by left|right; by right]. }
    destruct Hx' as [->|Hx']; [lia|]. pose proof (IH x Hx'). lia.
Qed.
