(** * MddOps2: [bdd_to_mdd] — the link with [collect_garbage]/[reorder],
      totality of the conversion, and the full theorem *)
From DD Require Export MddOps Sift9.

(** ** [cofactor] by all the levels of a zone [a..b]: the result is the node
    reached by walking from [u] through the zone; nothing is created *)
Lemma drop_while_subset {A} (p : A → bool) l x : x ∈ drop_while p l → x ∈ l.
Proof.
  induction l as [|y l IH]; cbn [drop_while]; [done|].
  destruct (p y); [|done]. intros H. right. by apply IH.
Qed.
Lemma drop_while_head {A} (p : A → bool) l x l' : drop_while p l = x :: l' → p x = false.
Proof.
  induction l as [|y l IH]; cbn [drop_while]; [done|].
  destruct (p y) eqn:E; [done|]. by intros [= -> _].
Qed.

Section zone.
Context (s : st) (HI : Inv s) (values : gmap nat bool) (a : nat).
(* the assigned levels at or below [a] are convex, and are levels of variables *)
Context (Hconv : ∀ i n, a ≤ i → i ≤ n → is_Some (values !! n) → is_Some (values !! i)).
Context (Hlt : ∀ k, is_Some (values !! k) → k < nvars s).

Inductive zpath : Z → Z → Prop :=
  | zp_stop u : valid s u → values !! lvl_of s u = None → zpath u u
  | zp_step u t val x : valid s u → succ s !! absn u = Some t → absn u ≠ 1%positive →
      values !! t_lvl t = Some val →
      zpath (if (val : bool) then t_hi t else t_lo t) x → zpath u (flip x u).

Lemma cofactor_rec_zone fuel : ∀ u ord cache r s',
  valid s u → a ≤ lvl_of s u →
  (∀ k, k ∈ ord → is_Some (values !! k)) → Cofactor.ord_ok s u ord values →
  (∀ k x, cache !! k = Some x → zpath k x) →
  nvars s - lvl_of s u < fuel →
  cofactor_rec fuel u ord values cache s = (r, s') →
  s' = s ∧ ∃ x cache', r = Ok (x, cache') ∧ zpath u x ∧
    ∀ k y, cache' !! k = Some y → zpath k y.
Proof.
  induction fuel as [|f IH]; intros u ord cache r s' Hu Ha Hords Hord Hc Hfuel; [lia|].
  cbn [cofactor_rec].
  destruct (decide (absn u = 1%positive ∧ u ≠ 0%Z)) as [[E1 _]|Hnt].
  { intros [= <- <-]. split; [done|]. exists u, cache. split_and!; try done.
    apply zp_stop; [done|]. rewrite (lvl_term s HI u E1).
    apply eq_None_not_Some. intros H%Hlt. lia. }
  destruct (cache !! u) as [x|] eqn:Hcu.
  { intros [= <- <-]. split; [done|]. exists x, cache. split_and!; try done. by apply Hc. }
  destruct (node_cases s HI u Hu) as [[E El]|(t&Ht&Hn1&Hlo&Hl&Hln&Hvl&Hvh&Hhp&Hll&Hlh&Hne)].
  { exfalso. apply Hnt. split; [done|apply Hu]. }
  rewrite (bind_ok _ _ _ _ _ (getsuccZ_ok s u t (proj1 Hu) Ht)).
  unfold is_term, assert. rewrite bool_decide_eq_false_2 by done. cbn [negb].
  rewrite (bind_ok _ _ s tt s) by done.
  rewrite <- Hl in Hll, Hlh.
  destruct (skip_below (t_lvl t) ord) as [|n ord'] eqn:Hsk.
  { intros [= <- <-]. split; [done|]. exists u, cache. split_and!; try done.
    apply zp_stop; [done|]. apply eq_None_not_Some. intros Hs.
    pose proof (skip_below_nil _ _ Hsk _ (Hord _ Hs ltac:(lia))). lia. }
  assert (Hn : t_lvl t ≤ n ∧ is_Some (values !! n)).
  { split.
    - pose proof (drop_while_head _ _ _ _ Hsk) as Hp. cbv beta in Hp.
      apply bool_decide_eq_false in Hp. lia.
    - apply Hords. apply (drop_while_subset (fun k => bool_decide (k < t_lvl t))).
      unfold skip_below in Hsk. rewrite Hsk. left. }
  destruct Hn as [Hn1' Hn2].
  assert (is_Some (values !! t_lvl t)) as [val Hval] by (apply (Hconv _ n); [lia|done|done]).
  assert (Hords' : ∀ k, k ∈ n :: ord' → is_Some (values !! k)).
  { intros k Hk. apply Hords. rewrite <- Hsk in Hk.
    by apply (drop_while_subset (fun k => bool_decide (k < t_lvl t))). }
  assert (Hord' : ∀ c, lvl_of s u ≤ lvl_of s c → Cofactor.ord_ok s c (n :: ord') values).
  { intros c Hl1. rewrite <- Hsk, <- Hl. by apply (Cofactor.ord_ok_child s s u). }
  cbv iota. clear Hsk. set (ord1 := n :: ord') in *. clearbody ord1.
  rewrite Hval.
  set (c := if val then t_hi t else t_lo t).
  assert (Hvc : valid s c) by (subst c; by destruct val).
  assert (Hlc : lvl_of s u < lvl_of s c) by (subst c; by destruct val).
  destruct (cofactor_rec f c ord1 values cache s) as [rp s1] eqn:Ep.
  pose proof Ep as Ep'.
  apply IH in Ep' as (->&x&c1&->&Hx&Hc1); [|done|lia|done|apply Hord'; lia|done|lia].
  rewrite (bind_ok _ _ _ _ _ Ep). intros [= <- <-]. split; [done|].
  assert (Hz : zpath u (flip x u)) by (by apply (zp_step u t val x)).
  eexists _, _. split; [done|]. split; [done|].
  intros k y Hk. destruct (decide (k = u)) as [->|Hne'].
  - rewrite lookup_insert in Hk. by injection Hk as <-.
  - rewrite lookup_insert_ne in Hk by done. by apply Hc1.
Qed.

(** facts about the node reached *)
Lemma zpath_valid u x : zpath u x → valid s x ∧ values !! lvl_of s x = None.
Proof.
  induction 1 as [u Hu Hl|u t val x Hu Ht Hn Hval _ [IH1 IH2]]; [done|].
  split; [by apply valid_flip|by rewrite lvl_flip].
Qed.
(** when the walk starts inside the zone, the node reached has a parent in
    the zone *)
Lemma zpath_parent u x : zpath u x → is_Some (values !! lvl_of s u) →
  ∃ w tw, succ s !! w = Some tw ∧ w ≠ 1%positive ∧ lvl_of s u ≤ t_lvl tw ∧
    is_Some (values !! t_lvl tw) ∧
    (absn (t_lo tw) = absn x ∨ absn (t_hi tw) = absn x).
Proof.
  induction 1 as [u Hu Hl|u t val x Hu Ht Hn Hval Hz IH].
  { intros [? H]. congruence. }
  intros Hlu.
  assert (Elu : lvl_of s u = t_lvl t) by (unfold lvl_of; by rewrite Ht).
  set (c := if val then t_hi t else t_lo t) in *.
  assert (Habs : absn (flip x u) = absn x).
  { unfold flip. case_decide; [apply absn_neg|done]. }
  destruct (inv_node _ HI _ _ Ht Hn) as (_&Hvl&Hhp&Hvh&Hll&Hlh&_).
  assert (Hvc : valid s c ∧ t_lvl t < lvl_of s c) by (subst c; by destruct val).
  destruct Hvc as [Hvc Hlc].
  destruct (values !! lvl_of s c) as [vc|] eqn:Hcb.
  - destruct (IH ltac:(by eexists)) as (w&tw&Hw&Hw1&Hlw&Hzw&Hch). exists w, tw.
    rewrite Habs. split_and!; try done; lia.
  - (* the child is already outside: [u] itself is the parent *)
    assert (x = c) as ->.
    { inversion Hz as [? ? ? E1 E2|? t' val' x' Hu' Ht' Hn' Hval' Hz' E1 E2]; [done|].
      exfalso. subst. unfold lvl_of in Hcb. rewrite Ht' in Hcb. congruence. }
    exists (absn u), t. rewrite Habs, Elu. split_and!; try done; try (by eexists).
    subst c. destruct val; [by right|by left].
Qed.
End zone.

Lemma zpath_same s s' values u x : succ s' = succ s → zpath s' values u x → zpath s values u x.
Proof.
  intros E. assert (Hv : ∀ y, valid s' y → valid s y) by (intros y; unfold valid; by rewrite E).
  assert (Hl : ∀ y, lvl_of s' y = lvl_of s y) by (intros y; unfold lvl_of; by rewrite E).
  induction 1 as [u Hu Hn|u t val x Hu Ht Hn Hval _ IH].
  - apply zp_stop; [by apply Hv|by rewrite <- Hl].
  - apply (zp_step s values u t val x); try done; [by apply Hv|by rewrite <- E].
Qed.

(** the key mapping by name succeeds when the keys are declared *)
Lemma mapM_map_key_ok s (kv : list (nat * bool)) :
  (∀ k b, (k, b) ∈ kv → is_Some (vars s !! k)) →
  ∃ ls, mapM (fun '(k, a) => l <- map_key true false k ;; ret (l, a)) kv s = (Ok ls, s).
Proof.
  induction kv as [|[k a] kv IH]; intros H; [by exists []|].
  destruct (H k a ltac:(left)) as [l Hl]. destruct IH as [ls Hls]; [intros; eapply H; by right|].
  exists ((l, a) :: ls). cbn [mapM].
  rewrite bind_assoc, (bind_ok _ _ _ _ _ (map_key_name s false k l Hl)).
  rewrite (bind_ok _ _ s (l, a) s) by done. by rewrite (bind_ok _ _ _ _ _ Hls).
Qed.
Lemma mtld_name_ok s (kv : list (nat * bool)) :
  (∀ k b, (k, b) ∈ kv → is_Some (vars s !! k)) →
  ∃ lv, map_to_level_dict true kv s = (Ok lv, s).
Proof.
  intros H. unfold map_to_level_dict. destruct kv as [|[k a] rest]; [by eexists|].
  destruct (H k a ltac:(left)) as [l Hl].
  destruct (mapM_map_key_ok s rest) as [ls Hls]; [intros; eapply H; by right|].
  eexists. rewrite (bind_ok _ _ s tt s) by done.
  rewrite (bind_ok _ _ _ _ _ (map_key_name s true k l Hl)).
  rewrite (bind_ok _ _ _ _ _ Hls). reflexivity.
Qed.

Lemma rctx_roundtrip s : s <| rctx := true |> <| rctx := rctx s |> = s.
Proof. by destruct s. Qed.

Lemma cofactor_zone s u d lv : Inv s → last_len s = None → valid s u →
  map_to_level_dict true d (s <| rctx := true |>) = (Ok lv, s <| rctx := true |>) →
  (∀ i n, lvl_of s u ≤ i → i ≤ n → is_Some (lv !! n) → is_Some (lv !! i)) →
  (∀ k, is_Some (lv !! k) → k < nvars s) →
  ∃ z, cofactor u true d s = (Ok z, s) ∧ zpath s lv u z.
Proof.
  intros HI Hoff Hu Hmap Hconv Hlt.
  set (s0 := s <| rctx := true |>) in *.
  assert (HI0 : Inv s0) by (by apply Inv_rctx).
  assert (Hu0 : valid s0 u) by done.
  destruct (cofactor_rec (S (S (nvars s0))) u (sorted_levels (dom lv)) lv ∅ s0)
    as [rr s2] eqn:Erec.
  pose proof Erec as Erec'.
  apply (cofactor_rec_zone s0 HI0 lv (lvl_of s u) Hconv Hlt) in Erec'
    as (->&z&c&->&Hz&_); [|done|done| | |done|lia].
  2:{ intros k Hk. apply elem_of_sorted_levels in Hk. by apply elem_of_dom. }
  2:{ intros k Hk _. apply elem_of_sorted_levels. by apply elem_of_dom. }
  exists z. split; [|by apply (zpath_same s s0)].
  unfold cofactor, try_to_reorder. cbn [bind get modify].
  unfold bind at 1, catch at 1. fold s0.
  rewrite (bind_ok _ _ _ _ _ Hmap). cbn [bind get].
  rewrite (proj2 (mem_valid s0 u) Hu0). unfold ensure.
  rewrite (bind_ok _ _ s0 tt s0) by done.
  rewrite (bind_ok _ _ _ _ _ Erec). cbn [bind modify ret fst]. by rewrite rctx_roundtrip.
Qed.
